(* RootQ_proofs.v — invariants of the root queue / thread pool model (Model/RootQ.v) for any number of pushers, workers and
   monitor passes and any interleaving.
   Part 1: list integrity and the push / claim histories (C01_root_pop_unique, _list_integrity, _fifo_per_pusher). *)
From Coq Require Import ZArith Bool List Lia Permutation.
From Verif Require Import Word Conc Gen_consts Gen_fields Gen_rootq RootQ.
Import ListNotations.
Local Open Scope Z_scope.

(* ---- ties to the generated module: the site lists of the C functions, in program order, are the sites of the model's
   program points (pc_sites) ---- *)
Lemma sites_push : model_sites_push = f_dispatch_root_queue_push_inline_sites.
Proof. reflexivity. Qed.
Lemma sites_poke : model_sites_poke = f_dispatch_root_queue_poke_sites.
Proof. reflexivity. Qed.
Lemma sites_poke_slow : model_sites_poke_slow = f_dispatch_root_queue_poke_slow_sites.
Proof. reflexivity. Qed.
Lemma sites_mediator_is_gone : model_sites_mediator_is_gone = f_dispatch_root_queue_mediator_is_gone_sites.
Proof. reflexivity. Qed.
Lemma sites_quiesced : model_sites_quiesced = f_dispatch_root_queue_head_tail_quiesced_sites.
Proof. reflexivity. Qed.
(* the contended wait's own sites: the first two are the static _seed of _dispatch_contention_spins (not the queue), then
   the increment and the decrement of dgq_pending (the decrement is also what PCwOut executes) *)
Lemma sites_cwait : skipn 2 f__DISPATCH_ROOT_QUEUE_CONTENDED_WAIT___sites = model_sites_cwait_pending.
Proof. reflexivity. Qed.
Lemma sites_cwait_out : skipn 3 f__DISPATCH_ROOT_QUEUE_CONTENDED_WAIT___sites = model_sites_cwait_out.
Proof. reflexivity. Qed.
Lemma sites_drain_one : model_sites_drain_one = f_dispatch_root_queue_drain_one_sites.
Proof. reflexivity. Qed.
Lemma sites_wait_for_enqueuer : model_sites_wait_for_enqueuer = f_dispatch_wait_for_enqueuer_sites.
Proof. reflexivity. Qed.
Lemma sites_worker : model_sites_worker = f_dispatch_worker_thread_sites.
Proof. reflexivity. Qed.
Lemma sites_sem_signal : model_sites_sem_signal = dispatch_semaphore_signal_sites.
Proof. reflexivity. Qed.
Lemma sites_sem_wait : model_sites_sem_wait = dispatch_semaphore_wait_sites.
Proof. reflexivity. Qed.

(* every atomic event the hook can report that tstep accepts at a program point is one of that point's sites *)
Lemma tstep_site oc p e p' : tstep oc p e = Some p' -> is_atomic_ev e = true -> existsb (site_ok e) (pc_sites oc p) = true.
Proof.
  unfold is_atomic_ev. intros H A. apply andb_true_iff in A as [A A3]. apply andb_true_iff in A as [A1 A2].
  apply Z.leb_le in A1, A2. apply negb_true_iff in A3. apply Z.eqb_neq in A3.
  assert (U : forall k, 100 <= k -> ev_kind e k = false).
  { intros k Hk. unfold ev_kind. apply Z.eqb_neq. lia. }
  assert (N : forall k ob off, 32 <= k -> ev_at e k 0 ob off = false).
  { intros k ob off Hk. unfold ev_at. destruct (Z.eqb_spec (ek e) k); [lia|reflexivity]. }
  assert (P : forall k ob off, ev_at e k MO_PLAIN ob off = false).
  { intros k ob off. unfold ev_at. destruct (Z.eqb_spec (eord e) MO_PLAIN); [contradiction|]. rewrite andb_false_r. reflexivity. }
  destruct p; cbn [tstep pc_sites existsb] in *;
    rewrite ?(U DVU_CALL), ?(U DVU_RET), ?(U DVU_CALLOUT_END), ?(U DVU_CALLOUT_BEGIN), ?P in H by (cbv; discriminate);
    try discriminate H.
  all: try (destruct c; discriminate H).
  all: try (rewrite N in H by (cbv; discriminate); discriminate H).
  all: unfold ev_at in H.
  all: repeat match type of H with
       | (if ?c then _ else _) = Some _ => destruct c eqn:?; try discriminate H
       | (let _ := _ in _) = Some _ => cbv zeta in H
       end.
  all: repeat match goal with X : (_ && _) = true |- _ => apply andb_true_iff in X as [? ?] end.
  all: repeat match goal with X : (?a =? ?b) = true |- _ => apply Z.eqb_eq in X end.
  all: try solve [exfalso; match goal with X : ek _ = _ |- _ => rewrite X in A1, A2 end; cbv in A1, A2;
                  first [apply A2; reflexivity | apply A1; reflexivity]].
  all: unfold site_ok, field_at;
       repeat match goal with X : ek _ = _ |- _ => rewrite X; clear X | X : eord _ = _ |- _ => rewrite X; clear X
                         | X : eobj _ = _ |- _ => rewrite X; clear X | X : eoff _ = _ |- _ => rewrite X; clear X end.
  all: try reflexivity.
  all: try (destruct first; repeat match goal with X : eord _ = _ |- _ => rewrite X; clear X end; reflexivity).
  all: try (destruct oc; repeat match goal with X : (_ && _) = true |- _ => apply andb_true_iff in X as [? ?] end;
            repeat match goal with X : (?a =? ?b) = true |- _ => apply Z.eqb_eq in X end;
            repeat match goal with X : ek _ = _ |- _ => rewrite X; clear X | X : eord _ = _ |- _ => rewrite X; clear X
                         | X : eobj _ = _ |- _ => rewrite X; clear X | X : eoff _ = _ |- _ => rewrite X; clear X end;
            try discriminate; reflexivity).
Qed.

Lemma gstep_tstep oc s t e s' : gstep oc s t e = Some s' -> tstep oc (pcs s t) e = Some (pcs s' t).
Proof.
  unfold gstep. destruct (tstep oc (pcs s t) e) as [p'|]; [|discriminate]. destruct (effect oc s t e); [|discriminate].
  intros H. injection H as <-. cbn. rewrite upd_same. reflexivity.
Qed.

(* the conformance automaton is the model automaton plus at most one hidden step (plain read / pthread_create) *)
Definition hidden_ev (e : event) : bool := (eord e =? MO_PLAIN) || (ek e =? DVX_CREATE).
Lemma tstep_vis_sound oc p e p' : tstep_vis oc p e = Some p' ->
  tstep oc p e = Some p' \/ exists h p1, hidden_ev h = true /\ tstep oc p h = Some p1 /\ tstep oc p1 e = Some p'.
Proof.
  destruct p; cbn [tstep_vis]; intros H; try (left; exact H); right.
  - destruct (rem =? 1) eqn:E; [|discriminate]. apply Z.eqb_eq in E. subst rem.
    exists (ev_create 0), (kret k). split; [reflexivity|]. split; [reflexivity|exact H].
  - destruct (ev_at e DV_SUB MO_ACQUIRE OBJ_SEM OFF_VALUE).
    + exists (ev_pl_tail 0), PSemDec. split; [reflexivity|]. split; [reflexivity|exact H].
    + exists (ev_pl_tail 1), (PCwEval true false). split; [reflexivity|]. split; [reflexivity|exact H].
  - destruct (ev_at e DV_STORE MO_RELAXED OBJ_Q OFF_HEAD); [|discriminate]. destruct (eb e =? 0) eqn:E.
    + exists (ev_pl_next h 0), (PDrainStoreNull h). split; [reflexivity|]. split; [|exact H].
      cbn. unfold ev_at. cbn. rewrite !Z.eqb_refl. reflexivity.
    + exists (ev_pl_next h (eb e)), (PDrainStoreHead h (eb e)). split; [reflexivity|]. split; [|exact H].
      cbn. unfold ev_at. cbn. rewrite !Z.eqb_refl, E. reflexivity.
  - destruct (ev_kind e DV_CASW).
    + exists (mkEv DV_LOAD MO_PLAIN OBJ_SEM OFF_VALUE 8 (s64 (eb e) - 1) 0 1), (PSemUndo (s64 (s64 (eb e) - 1))).
      split; [reflexivity|]. split; [reflexivity|exact H].
    + destruct (ev_kind e DV_SEM_WAIT); [|discriminate].
      exists (mkEv DV_LOAD MO_PLAIN OBJ_SEM OFF_VALUE 8 0 0 1), (PSemUndo 0). split; [reflexivity|]. split; [reflexivity|exact H].
Qed.

(* ---- lists ---- *)
Fixpoint adjacent (a b : Z) (l : list Z) : Prop :=
  match l with
  | x :: ((y :: _) as r) => (x = a /\ y = b) \/ adjacent a b r
  | _ => False
  end.

Lemma adjacent_in a b l : adjacent a b l -> In a l /\ In b l.
Proof.
  induction l as [|x l IH]; [cbn; tauto|]. destruct l as [|y r]; [cbn; tauto|].
  intros [[-> ->]|H]; [cbn; tauto|]. specialize (IH H). cbn in *. tauto.
Qed.
Lemma adjacent_app a b l x : adjacent a b l -> adjacent a b (l ++ [x]).
Proof.
  induction l as [|y l IH]; [cbn; tauto|]. destruct l as [|z r]; [cbn; tauto|].
  intros [H|H]; [left; exact H|right; apply IH; exact H].
Qed.
Lemma adjacent_last l x : l <> [] -> adjacent (last l 0) x (l ++ [x]).
Proof.
  induction l as [|y l IH]; [congruence|]. intros _. destruct l as [|z r].
  - cbn. left. auto.
  - change (adjacent (last (z :: r) 0) x (y :: (z :: r) ++ [x])). cbn [app adjacent]. right. apply IH. discriminate.
Qed.
Lemma adjacent_app_inv a b l x : adjacent a b (l ++ [x]) -> adjacent a b l \/ (l <> [] /\ a = last l 0 /\ b = x).
Proof.
  induction l as [|y l IH]; [cbn; tauto|]. destruct l as [|z r].
  - cbn. intros [[-> ->]|[]]. right. split; [discriminate|auto].
  - intros [H|H]; [left; left; exact H|]. destruct (IH H) as [H1|(H1 & H2 & H3)]; [left; right; exact H1|].
    right. split; [discriminate|]. split; assumption.
Qed.
Lemma adjacent_cons a b x l : adjacent a b l -> adjacent a b (x :: l).
Proof. destruct l; cbn; tauto. Qed.
Lemma adjacent_unique a b b' l : NoDup l -> adjacent a b l -> adjacent a b' l -> b = b'.
Proof.
  induction l as [|x l IH]; [cbn; tauto|]. destruct l as [|y r]; [cbn; tauto|].
  intros ND H1 H2. inversion ND as [|? ? Hx ND']; subst.
  destruct H1 as [[-> ->]|H1], H2 as [[E ->]|H2]; try reflexivity.
  - exfalso. apply Hx. apply (adjacent_in _ _ _ H2).
  - exfalso. subst. apply Hx. apply (adjacent_in _ _ _ H1).
  - apply IH; assumption.
Qed.
Lemma adjacent_head h a b r : NoDup (h :: a :: r) -> adjacent h b (h :: a :: r) -> b = a.
Proof. intros ND H. apply (adjacent_unique h b a (h :: a :: r) ND H). cbn. left. auto. Qed.
Lemma last_in (l : list Z) d : l <> [] -> In (last l d) l.
Proof. induction l as [|x l IH]; [congruence|]. intros _. destruct l as [|y r]; [left; reflexivity|]. right. apply IH. discriminate. Qed.
Lemma adjacent_not_last a b l : NoDup l -> adjacent a b l -> a <> last l 0.
Proof.
  induction l as [|x l IH]; [cbn; tauto|]. destruct l as [|y r]; [cbn; tauto|].
  intros ND H. inversion ND as [|? ? Hx ND']; subst.
  change (last (x :: y :: r) 0) with (last (y :: r) 0).
  destruct H as [[-> _]|H]; [|apply IH; assumption].
  intros E. apply Hx. rewrite E. apply last_in. discriminate.
Qed.
Lemma adjacent_tl_inv a b h l : adjacent a b (h :: l) -> (a = h /\ b = hd 0 l) \/ adjacent a b l.
Proof. destruct l; cbn; [tauto|]. intros [[-> ->]|H]; auto. Qed.
Lemma last_app1 (l : list Z) x d : last (l ++ [x]) d = x.
Proof. induction l as [|y l IH]; [reflexivity|]. destruct l; [reflexivity|exact IH]. Qed.
Lemma last_cons_eq h (r : list Z) : NoDup (h :: r) -> last (h :: r) 0 = h -> r = [].
Proof.
  intros ND E. destruct r as [|y r]; [reflexivity|]. exfalso. inversion ND as [|? ? Hx _]; subst. apply Hx.
  change (last (h :: y :: r) 0) with (last (y :: r) 0) in E. rewrite <- E. apply last_in. discriminate.
Qed.
Lemma tl_app (l : list Z) x : l <> [] -> tl (l ++ [x]) = tl l ++ [x].
Proof. destruct l; [congruence|reflexivity]. Qed.
Lemma hd_app (l : list Z) x : l <> [] -> hd 0 (l ++ [x]) = hd 0 l.
Proof. destruct l; [congruence|reflexivity]. Qed.
Lemma memz_In t l : memz t l = true <-> In t l.
Proof.
  unfold memz. rewrite existsb_exists. split.
  - intros (x & Hx & E). apply Z.eqb_eq in E. subst. exact Hx.
  - intros H. exists t. split; [exact H|apply Z.eqb_refl].
Qed.
Lemma memz_false t l : memz t l = false -> ~ In t l.
Proof. intros H X. apply memz_In in X. congruence. Qed.

Lemma is_item_spec x : is_item x = true -> x <> 0 /\ x <> MED.
Proof. unfold is_item, MED. intros H. apply andb_true_iff in H as [A B]. apply Z.ltb_lt in A, B. lia. Qed.

(* ---- the integrity invariant ---- *)
Definition holder_pc (p : pc) : Prop :=
  match p with
  | PDrainNext _ | PDrainStoreNull _ | PDrainCasTail _ | PDrainWaitNext _ _ | PDrainStoreHead _ _ => True
  | _ => False
  end.
(* program points whose thread takes part in the list structure *)
Definition neutral (p : pc) : bool :=
  match p with
  | PPushXchg _ _ | PPushLink _ _ _ | PDrainNext _ | PDrainStoreNull _ | PDrainCasTail _ | PDrainWaitNext _ _
  | PDrainStoreHead _ _ => false
  | _ => true
  end.

Definition linked (s : gst) : Prop :=
  forall a b, adjacent a b (chain s) -> nxt s a = b \/ (nxt s a = 0 /\ exists t c, pcs s t = PPushLink c b a).

Definition front (s : gst) : Prop :=
  match holder s, hstore s with
  | None, None => (chain s = [] /\ (head s = 0 \/ head s = MED)) \/ (exists c r, chain s = c :: r /\ head s = c)
  | Some w, None => holder_pc (pcs s w) /\ chain s <> [] /\ (head s = 0 \/ head s = MED)
  | None, Some p => chain s <> [] /\ (exists c, pcs s p = PPushLink c (hd 0 (chain s)) 0) /\ (head s = 0 \/ head s = MED)
  | Some _, Some _ => False
  end.

Definition tinv (s : gst) (t : Z) : Prop :=
  match pcs s t with
  | PPushXchg c x => owner s x = Some t /\ ~ In x (chain s) /\ is_item x = true /\ nxt s x = 0
  | PPushLink c x prev =>
      owner s x = Some t /\
      (if prev =? 0 then hstore s = Some t else adjacent prev x (chain s) /\ nxt s prev = 0)
  | PDrainNext h | PDrainStoreNull h | PDrainCasTail h => holder s = Some t /\ hd 0 (chain s) = h
  | PDrainWaitNext h _ => holder s = Some t /\ exists b r, chain s = h :: b :: r
  | PDrainStoreHead h nx => holder s = Some t /\ (exists r, chain s = h :: nx :: r) /\ nxt s h = nx
  | _ => True
  end.

Record Inv1 (s : gst) : Prop := {
  I_nodup : NoDup (chain s);
  I_items : forall x, In x (chain s) -> is_item x = true;
  I_tail : tail s = last (chain s) 0;
  I_lastnxt : chain s <> [] -> nxt s (last (chain s) 0) = 0;
  I_linked : linked s;
  I_front : front s;
  I_owner : forall x t, owner s x = Some t -> (exists c, pcs s t = PPushXchg c x) \/ (exists c prev, pcs s t = PPushLink c x prev);
  I_hist : map fst (hpush s) = map fst (hpop s) ++ unclaimed s;
  I_thr : forall t, tinv s t
}.

Lemma Inv1_init p0 : Inv1 (init_state p0).
Proof.
  constructor; cbn.
  - constructor.
  - intros x [].
  - reflexivity.
  - congruence.
  - intros a b [].
  - left. auto.
  - intros; discriminate.
  - reflexivity.
  - intros t. exact I.
Qed.

(* ---- consequences used all over ---- *)
Lemma tail_zero_chain s : Inv1 s -> tail s = 0 -> chain s = [].
Proof.
  intros I E. destruct (chain s) as [|x r] eqn:C; [reflexivity|]. exfalso.
  assert (H : In (last (chain s) 0) (chain s)) by (apply last_in; congruence).
  apply (I_items s I) in H. rewrite <- (I_tail s I), E in H. discriminate.
Qed.
Lemma chain_nil_tail s : Inv1 s -> chain s = [] -> tail s = 0.
Proof. intros I E. rewrite (I_tail s I), E. reflexivity. Qed.
Lemma holder_chain s w : Inv1 s -> holder s = Some w -> chain s <> [] /\ hstore s = None /\ holder_pc (pcs s w).
Proof.
  intros I E. pose proof (I_front s I) as F. unfold front in F. rewrite E in F.
  destruct (hstore s); [contradiction|]. tauto.
Qed.
Lemma hstore_chain s p : Inv1 s -> hstore s = Some p ->
  chain s <> [] /\ holder s = None /\ exists c, pcs s p = PPushLink c (hd 0 (chain s)) 0.
Proof.
  intros I E. pose proof (I_front s I) as F. unfold front in F. rewrite E in F.
  destruct (holder s); [contradiction|]. tauto.
Qed.
Lemma head_values s : Inv1 s -> head s = 0 \/ head s = MED \/ (is_item (head s) = true /\ holder s = None /\ hstore s = None /\
  exists r, chain s = head s :: r).
Proof.
  intros I. pose proof (I_front s I) as F. unfold front in F.
  destruct (holder s) as [w|], (hstore s) as [p|]; try contradiction; try tauto.
  destruct F as [[_ H]|(c & r & C & H)]; [tauto|]. right. right.
  split; [apply (I_items s I); rewrite C, H; left; reflexivity|]. split; [reflexivity|]. split; [reflexivity|].
  exists r. rewrite H. exact C.
Qed.
Lemma unclaimed_tail s : Inv1 s -> unclaimed s <> [] -> tail s <> 0.
Proof.
  intros I U E. apply U. unfold unclaimed. rewrite (tail_zero_chain s I E). destruct (holder s); reflexivity.
Qed.

(* ---- preservation: a step that does not touch the list structure ---- *)
Lemma neutral_tinv s t : neutral (pcs s t) = true -> tinv s t.
Proof. unfold tinv. destruct (pcs s t); cbn; intros; (discriminate || exact I). Qed.
Lemma neutral_not_holder p : neutral p = true -> ~ holder_pc p.
Proof. destruct p; cbn; intros; (discriminate || tauto). Qed.

Lemma inv1_move s s' t p' :
  Inv1 s -> neutral (pcs s t) = true -> neutral p' = true ->
  pcs s' = upd (pcs s) t p' -> tail s' = tail s -> nxt s' = nxt s -> chain s' = chain s -> holder s' = holder s ->
  hstore s' = hstore s -> owner s' = owner s -> hpush s' = hpush s -> hpop s' = hpop s ->
  (head s' = head s \/ ((head s = 0 \/ head s = MED) /\ (head s' = 0 \/ head s' = MED))) ->
  Inv1 s'.
Proof.
  intros I Nt Np Ep Et En Ec Eh Es Eo Eu Eq Ehd.
  assert (Other : forall u, neutral (pcs s u) = false -> pcs s' u = pcs s u).
  { intros u Hu. rewrite Ep. apply upd_other. intros ->. congruence. }
  constructor.
  - rewrite Ec. apply (I_nodup s I).
  - rewrite Ec. apply (I_items s I).
  - rewrite Et, Ec. apply (I_tail s I).
  - rewrite Ec, En. apply (I_lastnxt s I).
  - intros a b H. rewrite Ec in H. rewrite En. destruct (I_linked s I a b H) as [L|(L & u & c & Hu)]; [left; exact L|].
    right. split; [exact L|]. exists u, c. rewrite Other; [exact Hu|]. rewrite Hu. reflexivity.
  - pose proof (I_front s I) as F. unfold front in *. rewrite Eh, Es, Ec.
    destruct (holder s) as [w|] eqn:Hw, (hstore s) as [p|] eqn:Hp; try contradiction.
    + destruct F as (F1 & F2 & F3). split; [|split; [exact F2|]].
      * rewrite Other; [exact F1|]. destruct (pcs s w); cbn in F1; try contradiction; reflexivity.
      * destruct Ehd as [->|[_ H]]; assumption.
    + destruct F as (F1 & (c & F2) & F3). split; [exact F1|]. split.
      * exists c. rewrite Other; [exact F2|]. rewrite F2. reflexivity.
      * destruct Ehd as [->|[_ H]]; assumption.
    + destruct F as [[F1 F2]|(c & r & F1 & F2)].
      * left. split; [exact F1|]. destruct Ehd as [->|[_ H]]; assumption.
      * right. exists c, r. split; [exact F1|]. destruct Ehd as [->|[[H|H] _]]; [exact F2| |]; exfalso;
          assert (X : is_item c = true) by (apply (I_items s I); rewrite F1; left; reflexivity);
          apply is_item_spec in X; rewrite F2 in H; tauto.
  - intros x u H. rewrite Eo in H. destruct (I_owner s I x u H) as [(c & Hu)|(c & prev & Hu)].
    + left. exists c. rewrite Other; [exact Hu|]. rewrite Hu. reflexivity.
    + right. exists c, prev. rewrite Other; [exact Hu|]. rewrite Hu. reflexivity.
  - unfold unclaimed. rewrite Eu, Eq, Eh, Ec. apply (I_hist s I).
  - intros u. destruct (Z.eq_dec u t) as [->|Ne].
    + apply neutral_tinv. rewrite Ep, upd_same. exact Np.
    + pose proof (I_thr s I u) as T. unfold tinv in *. rewrite Ep, upd_other by exact Ne. rewrite Eo, Ec, En, Es, Eh. exact T.
Qed.

(* decomposition of a step hypothesis *)
Ltac split_if H :=
  match type of H with
  | context [if ?c then _ else _] =>
      lazymatch c with
      | context [if _ then _ else _] => fail
      | _ => destruct c eqn:?; cbn [guard] in H; try discriminate H
      end
  end.
Ltac gstep_open H Hpc :=
  unfold gstep in H; rewrite Hpc in H; cbn [tstep call_entry] in H; cbv zeta in H;
  unfold effect in H; rewrite Hpc in H; cbv zeta in H; unfold guard in H.

(* ---- the steps that change the list structure ---- *)
Lemma pc_of_owner s x u : Inv1 s -> owner s x = Some u -> neutral (pcs s u) = false /\
  ((exists c, pcs s u = PPushXchg c x) \/ (exists c prev, pcs s u = PPushLink c x prev)).
Proof.
  intros I H. destruct (I_owner s I x u H) as [(c & E)|(c & p & E)]; rewrite E; split; try reflexivity; eauto.
Qed.

Lemma L_pushcall s t c x : Inv1 s -> pcs s t = PPushCall c -> owner s x = None -> ~ In x (chain s) -> is_item x = true ->
  Inv1 (set_pc (set_owner (set_nxt s x 0) x (Some t)) t (PPushXchg c x)).
Proof.
  intros I Hpc Ho Hn Hi.
  assert (Other : forall u, neutral (pcs s u) = false -> u <> t).
  { intros u Hu ->. rewrite Hpc in Hu. discriminate. }
  constructor; cbn.
  - apply (I_nodup s I).
  - apply (I_items s I).
  - apply (I_tail s I).
  - intros H. rewrite upd_other; [apply (I_lastnxt s I H)|]. intros E. apply Hn. rewrite <- E. apply last_in. exact H.
  - unfold linked; cbn. intros a b H. assert (a <> x) by (intros ->; apply Hn; apply (adjacent_in _ _ _ H)).
    rewrite upd_other by assumption. destruct (I_linked s I a b H) as [L|(L & u & c' & Hu)]; [left; exact L|].
    right. split; [exact L|]. exists u, c'. rewrite upd_other; [exact Hu|]. apply Other. rewrite Hu. reflexivity.
  - pose proof (I_front s I) as F. unfold front in *. cbn.
    destruct (holder s) as [w|] eqn:Hw, (hstore s) as [p|] eqn:Hp; try contradiction; try exact F.
    + destruct F as (F1 & F2 & F3). split; [|tauto]. rewrite upd_other; [exact F1|].
      apply Other. destruct (pcs s w); cbn in F1; try contradiction; reflexivity.
    + destruct F as (F1 & (c' & F2) & F3). split; [exact F1|]. split; [|exact F3]. exists c'.
      rewrite upd_other; [exact F2|]. apply Other. rewrite F2. reflexivity.
  - intros y u H. destruct (Z.eq_dec y x) as [->|Ne].
    + rewrite upd_same in H. injection H as <-. left. exists c. apply upd_same.
    + rewrite upd_other in H by exact Ne. destruct (pc_of_owner s y u I H) as [N D].
      rewrite upd_other by (apply Other; exact N). exact (I_owner s I y u H).
  - apply (I_hist s I).
  - intros u. unfold tinv. cbn. destruct (Z.eq_dec u t) as [->|Ne].
    + rewrite !upd_same. auto.
    + rewrite upd_other by exact Ne. pose proof (I_thr s I u) as T. unfold tinv in T.
      destruct (pcs s u) eqn:Hu; try exact T.
      * destruct T as (T1 & T2 & T3 & T4). assert (x0 <> x) by (intros ->; congruence).
        rewrite !upd_other by assumption. auto.
      * destruct T as (T1 & T2). assert (x0 <> x) by (intros ->; congruence). rewrite upd_other by assumption.
        split; [exact T1|]. destruct (prev =? 0); [exact T2|]. destruct T2 as [T2 T3]. split; [exact T2|].
        rewrite upd_other; [exact T3|]. intros ->. apply Hn. apply (adjacent_in _ _ _ T2).
      * destruct T as (T1 & T2 & T3). split; [exact T1|]. split; [exact T2|]. rewrite upd_other; [exact T3|].
        intros ->. apply Hn. destruct T2 as (r & ->). left. reflexivity.
Qed.

Lemma holder_move s s' t p' :
  Inv1 s -> holder s = Some t -> holder_pc p' ->
  pcs s' = upd (pcs s) t p' -> tail s' = tail s -> nxt s' = nxt s -> chain s' = chain s -> holder s' = holder s ->
  hstore s' = hstore s -> owner s' = owner s -> hpush s' = hpush s -> hpop s' = hpop s ->
  (head s' = head s \/ head s' = 0) -> tinv s' t -> Inv1 s'.
Proof.
  intros I Ht Np Ep Et En Ec Eh Es Eo Eu Eq Ehd Tt.
  destruct (holder_chain s t I Ht) as (Cn & Hs & Hp).
  assert (Other : forall u, neutral (pcs s u) = false -> ~ holder_pc (pcs s u) -> pcs s' u = pcs s u).
  { intros u Hu Hh. rewrite Ep. apply upd_other. intros ->. contradiction. }
  constructor.
  - rewrite Ec. apply (I_nodup s I).
  - rewrite Ec. apply (I_items s I).
  - rewrite Et, Ec. apply (I_tail s I).
  - rewrite Ec, En. apply (I_lastnxt s I).
  - intros a b H. rewrite Ec in H. rewrite En. destruct (I_linked s I a b H) as [L|(L & u & c & Hu)]; [left; exact L|].
    right. split; [exact L|]. exists u, c. rewrite Other; [exact Hu| |]; rewrite Hu; cbn; auto.
  - pose proof (I_front s I) as F. unfold front in *. rewrite Eh, Es, Ec. rewrite Ht, Hs in *.
    destruct F as (F1 & F2 & F3). split; [rewrite Ep, upd_same; exact Np|]. split; [exact F2|].
    destruct Ehd as [-> | ->]; auto.
  - intros x u H. rewrite Eo in H. destruct (I_owner s I x u H) as [(c & Hu)|(c & prev & Hu)].
    + left. exists c. rewrite Other; [exact Hu| |]; rewrite Hu; cbn; auto.
    + right. exists c, prev. rewrite Other; [exact Hu| |]; rewrite Hu; cbn; auto.
  - unfold unclaimed. rewrite Eu, Eq, Eh, Ec. apply (I_hist s I).
  - intros u. destruct (Z.eq_dec u t) as [->|Ne]; [exact Tt|].
    pose proof (I_thr s I u) as T. unfold tinv in *. rewrite Ep, upd_other by exact Ne. rewrite Eo, Ec, En, Es, Eh. exact T.
Qed.

Lemma L_pushxchg s t c x : Inv1 s -> pcs s t = PPushXchg c x ->
  Inv1 (set_pc (do_push s t x) t (PPushLink c x (tail s))).
Proof.
  intros I Hpc. pose proof (I_thr s I t) as Tt. unfold tinv in Tt. rewrite Hpc in Tt. destruct Tt as (To & Tn & Ti & Tx).
  assert (Other : forall u, neutral (pcs s u) = false -> u <> t -> pcs s u = pcs s u) by auto.
  assert (NotT : forall u, holder_pc (pcs s u) -> u <> t).
  { intros u Hu ->. rewrite Hpc in Hu. exact Hu. }
  assert (Tail0 : tail s = 0 -> chain s = [] /\ holder s = None /\ hstore s = None).
  { intros E. pose proof (tail_zero_chain s I E) as C. split; [exact C|].
    pose proof (I_front s I) as F. unfold front in F. rewrite C in F.
    destruct (holder s), (hstore s); try contradiction; try tauto. }
  assert (TailN : tail s <> 0 -> chain s <> []).
  { intros H C. apply H. apply (chain_nil_tail s I C). }
  constructor; cbn.
  - apply (Permutation_NoDup (l := x :: chain s)); [apply Permutation_cons_append|].
    constructor; [exact Tn|apply (I_nodup s I)].
  - intros y H. apply in_app_or in H as [H|[<-|[]]]; [apply (I_items s I y H)|exact Ti].
  - symmetry. apply last_app1.
  - intros _. rewrite last_app1. exact Tx.
  - unfold linked; cbn. intros a b H. apply adjacent_app_inv in H as [H|(H1 & H2 & H3)].
    + destruct (I_linked s I a b H) as [L|(L & u & c' & Hu)]; [left; exact L|]. right. split; [exact L|].
      exists u, c'. rewrite upd_other; [exact Hu|]. intros ->. congruence.
    + subst a b. right. split; [apply (I_lastnxt s I H1)|]. exists t, c. rewrite upd_same, (I_tail s I). reflexivity.
  - pose proof (I_front s I) as F. unfold front in *. cbn. destruct (Z.eqb_spec (tail s) 0) as [E|E].
    + destruct (Tail0 E) as (C & Hh & Hs). rewrite Hh. rewrite C. cbn. split; [discriminate|]. split.
      * exists c. rewrite upd_same, E. reflexivity.
      * rewrite Hh, Hs, C in F. destruct F as [[_ F]|(? & ? & F & _)]; [exact F|discriminate].
    + pose proof (TailN E) as Cn.
      destruct (holder s) as [w|] eqn:Hw, (hstore s) as [p|] eqn:Hp; try contradiction.
      * destruct F as (F1 & F2 & F3). split; [|split; [|exact F3]].
        -- rewrite upd_other; [exact F1|]. apply NotT. exact F1.
        -- destruct (chain s); [congruence|discriminate].
      * destruct F as (F1 & (c' & F2) & F3). split; [destruct (chain s); [congruence|discriminate]|]. split; [|exact F3].
        exists c'. rewrite hd_app by exact Cn. rewrite upd_other; [exact F2|]. intros ->. congruence.
      * destruct F as [[F1 _]|(c' & r & F1 & F2)]; [congruence|]. right. exists c', (r ++ [x]). rewrite F1. auto.
  - intros y u H. destruct (pc_of_owner s y u I H) as [N D]. destruct (Z.eq_dec u t) as [->|Ne].
    + rewrite upd_same. rewrite Hpc in D. destruct D as [(c' & D)|(c' & p & D)]; [|discriminate].
      injection D as <- <-. right. eauto.
    + rewrite upd_other by exact Ne. exact D.
  - rewrite map_app. cbn. rewrite (I_hist s I), <- app_assoc. f_equal. unfold unclaimed. cbn.
    destruct (holder s) as [w|] eqn:Hw; [|reflexivity]. symmetry. apply tl_app. apply (holder_chain s w I Hw).
  - intros u. unfold tinv. cbn. destruct (Z.eq_dec u t) as [->|Ne].
    + rewrite upd_same. split; [exact To|]. destruct (Z.eqb_spec (tail s) 0) as [E|E]; [reflexivity|].
      split; [|rewrite (I_tail s I); apply (I_lastnxt s I (TailN E))].
      rewrite (I_tail s I). apply adjacent_last. apply TailN. exact E.
    + rewrite upd_other by exact Ne. pose proof (I_thr s I u) as T. unfold tinv in T.
      destruct (pcs s u) eqn:Hu; try exact T.
      * destruct T as (T1 & T2 & T3 & T4). split; [exact T1|]. split; [|auto].
        intros H. apply in_app_or in H as [H|[<-|[]]]; [tauto|]. rewrite To in T1. congruence.
      * destruct T as (T1 & T2). split; [exact T1|]. destruct (prev =? 0).
        -- destruct (Z.eqb_spec (tail s) 0) as [E|E]; [|exact T2]. destruct (Tail0 E) as (_ & _ & Hs). congruence.
        -- destruct T2 as [T2 T3]. split; [apply adjacent_app; exact T2|exact T3].
      * destruct T as [T1 T2]. split; [exact T1|]. rewrite hd_app; [exact T2|]. apply (holder_chain s u I T1).
      * destruct T as [T1 T2]. split; [exact T1|]. rewrite hd_app; [exact T2|]. apply (holder_chain s u I T1).
      * destruct T as [T1 T2]. split; [exact T1|]. rewrite hd_app; [exact T2|]. apply (holder_chain s u I T1).
      * destruct T as [T1 (b & r & T2)]. split; [exact T1|]. exists b, (r ++ [x]). rewrite T2. reflexivity.
      * destruct T as (T1 & (r & T2) & T3). split; [exact T1|]. split; [|exact T3]. exists (r ++ [x]). rewrite T2. reflexivity.
Qed.

Lemma item_nz s x : Inv1 s -> In x (chain s) -> x <> 0 /\ x <> MED.
Proof. intros I H. apply is_item_spec. apply (I_items s I x H). Qed.

(* the pusher's store to dq_items_head *)
Lemma L_linkhead s t c x : Inv1 s -> pcs s t = PPushLink c x 0 ->
  Inv1 (set_pc (do_head_store s x) t (PPokeProbe (KClient c) 1 0)).
Proof.
  intros I Hpc. pose proof (I_thr s I t) as Tt. unfold tinv in Tt. rewrite Hpc in Tt. cbn in Tt. destruct Tt as (To & Ts).
  destruct (hstore_chain s t I Ts) as (Cn & Hh & (c0 & Hx)). rewrite Hpc in Hx. injection Hx as _ Hx.
  destruct (chain s) as [|x' r] eqn:C; [congruence|]. cbn in Hx. subst x'.
  assert (NoLink0 : forall u c2 y, pcs s u = PPushLink c2 y 0 -> u = t).
  { intros u c2 y Hu. pose proof (I_thr s I u) as T. unfold tinv in T. rewrite Hu in T. cbn in T. destruct T as [_ T]. congruence. }
  constructor; cbn; rewrite ?C.
  - rewrite <- C. apply (I_nodup s I).
  - rewrite <- C. apply (I_items s I).
  - rewrite (I_tail s I), C. reflexivity.
  - intros _. rewrite <- C. apply (I_lastnxt s I). congruence.
  - unfold linked; cbn. rewrite C. intros a b H. rewrite <- C in H.
    destruct (I_linked s I a b H) as [L|(L & u & c' & Hu)]; [left; exact L|]. right. split; [exact L|].
    exists u, c'. rewrite upd_other; [exact Hu|]. intros ->. rewrite Hpc in Hu. injection Hu as _ _ Hu.
    destruct (item_nz s a I (proj1 (adjacent_in _ _ _ H))). congruence.
  - unfold front. cbn. rewrite Hh, C. right. eauto.
  - intros y u H. destruct (Z.eq_dec y x) as [->|Ne]; [rewrite upd_same in H; discriminate|].
    rewrite upd_other in H by exact Ne. destruct (pc_of_owner s y u I H) as [N D].
    rewrite upd_other; [exact D|]. intros ->. rewrite Hpc in D. destruct D as [(? & D)|(? & ? & D)]; [discriminate|].
    injection D as _ D _. congruence.
  - pose proof (I_hist s I) as Hi. unfold unclaimed in *. cbn. rewrite Hh, C in *. exact Hi.
  - intros u. unfold tinv. cbn. rewrite C. destruct (Z.eq_dec u t) as [->|Ne]; [rewrite upd_same; exact Logic.I|].
    rewrite upd_other by exact Ne. pose proof (I_thr s I u) as T. unfold tinv in T. rewrite C in T.
    destruct (pcs s u) eqn:Hu; try exact T.
    + destruct T as (T1 & T2 & T3 & T4). rewrite upd_other by (intros ->; congruence). auto.
    + destruct T as (T1 & T2). rewrite upd_other by (intros ->; congruence). split; [exact T1|].
      destruct (Z.eqb_spec prev 0) as [->|Np]; [|exact T2]. exfalso. apply Ne. eapply NoLink0; eauto.
Qed.

(* the pusher's store to prev->do_next *)
Lemma L_linknext s t c x prev : Inv1 s -> pcs s t = PPushLink c x prev -> prev <> 0 ->
  Inv1 (set_pc (set_owner (set_nxt s prev x) x None) t (PClient c)).
Proof.
  intros I Hpc Np. pose proof (I_thr s I t) as Tt. unfold tinv in Tt. rewrite Hpc in Tt.
  destruct (Z.eqb_spec prev 0) as [|_]; [contradiction|]. destruct Tt as (To & Ta & Tn).
  pose proof (I_nodup s I) as ND.
  assert (OwnX : forall u c' p, pcs s u = PPushLink c' x p -> u = t).
  { intros u c' p Hu. pose proof (I_thr s I u) as T. unfold tinv in T. rewrite Hu in T. destruct T as [T _]. congruence. }
  constructor; cbn.
  - exact ND.
  - apply (I_items s I).
  - apply (I_tail s I).
  - intros H. rewrite upd_other; [apply (I_lastnxt s I H)|]. intros E. apply (adjacent_not_last prev x (chain s) ND Ta). auto.
  - unfold linked; cbn. intros a b H. destruct (Z.eq_dec a prev) as [->|Ne].
    + left. rewrite upd_same. apply (adjacent_unique prev x b (chain s) ND Ta H).
    + rewrite upd_other by exact Ne. destruct (I_linked s I a b H) as [L|(L & u & c' & Hu)]; [left; exact L|].
      right. split; [exact L|]. exists u, c'. rewrite upd_other; [exact Hu|]. intros ->. rewrite Hpc in Hu.
      injection Hu as _ _ Hu. congruence.
  - pose proof (I_front s I) as F. unfold front in *. cbn.
    destruct (holder s) as [w|] eqn:Hw, (hstore s) as [p|] eqn:Hp; try contradiction; try exact F.
    + destruct F as (F1 & F2 & F3). split; [|tauto]. rewrite upd_other; [exact F1|]. intros ->. rewrite Hpc in F1. exact F1.
    + destruct F as (F1 & (c' & F2) & F3). split; [exact F1|]. split; [|exact F3]. exists c'.
      rewrite upd_other; [exact F2|]. intros ->. rewrite Hpc in F2. injection F2 as _ _ F2. contradiction.
  - intros y u H. destruct (Z.eq_dec y x) as [->|Ne]; [rewrite upd_same in H; discriminate|].
    rewrite upd_other in H by exact Ne. destruct (pc_of_owner s y u I H) as [N D].
    rewrite upd_other; [exact D|]. intros ->. rewrite Hpc in D. destruct D as [(? & D)|(? & ? & D)]; [discriminate|].
    injection D as _ D _. congruence.
  - apply (I_hist s I).
  - intros u. unfold tinv. cbn. destruct (Z.eq_dec u t) as [->|Ne]; [rewrite upd_same; exact Logic.I|].
    rewrite upd_other by exact Ne. pose proof (I_thr s I u) as T. unfold tinv in T.
    destruct (pcs s u) eqn:Hu; try exact T.
    + destruct T as (T1 & T2 & T3 & T4). rewrite upd_other by (intros ->; congruence). split; [exact T1|]. split; [exact T2|].
      split; [exact T3|]. rewrite upd_other; [exact T4|]. intros ->. apply T2. apply (adjacent_in _ _ _ Ta).
    + destruct T as (T1 & T2). rewrite upd_other by (intros ->; congruence). split; [exact T1|].
      destruct (prev0 =? 0); [exact T2|]. destruct T2 as [T2 T3]. split; [exact T2|].
      rewrite upd_other; [exact T3|]. intros ->. apply Ne. apply (OwnX u c0 prev).
      rewrite Hu. f_equal. apply (adjacent_unique prev x0 x (chain s) ND T2 Ta).
    + destruct T as (T1 & (r & T2) & T3). split; [exact T1|]. split; [exists r; exact T2|].
      destruct (Z.eq_dec h prev) as [->|Nh]; [|rewrite upd_other by exact Nh; exact T3].
      rewrite upd_same. rewrite T2 in ND, Ta. apply (adjacent_head prev nx x r ND Ta).
Qed.

(* a worker's exchange on the head returned an item *)
Lemma L_claim s t : Inv1 s -> pcs s t = PDrainXchg -> is_item (head s) = true ->
  Inv1 (set_pc (do_claim s t (head s)) t (PDrainNext (head s))).
Proof.
  intros I Hpc Hi. destruct (is_item_spec _ Hi) as [H0 HM].
  destruct (head_values s I) as [E|[E|(_ & Hh & Hs & (r & C))]]; [contradiction|contradiction|].
  assert (NoHold : forall u, holder_pc (pcs s u) -> False).
  { intros u Hu. pose proof (I_thr s I u) as T. unfold tinv in T.
    destruct (pcs s u); cbn in Hu; try contradiction; destruct T as [T _]; congruence. }
  constructor; cbn.
  - apply (I_nodup s I).
  - apply (I_items s I).
  - apply (I_tail s I).
  - apply (I_lastnxt s I).
  - unfold linked; cbn. intros a b H. destruct (I_linked s I a b H) as [L|(L & u & c' & Hu)]; [left; exact L|].
    right. split; [exact L|]. exists u, c'. rewrite upd_other; [exact Hu|]. intros ->. congruence.
  - unfold front. cbn. rewrite Hs. rewrite upd_same. cbn. split; [exact Logic.I|]. split; [rewrite C; discriminate|]. auto.
  - intros y u H. destruct (pc_of_owner s y u I H) as [N D]. rewrite upd_other; [exact D|]. intros ->. rewrite Hpc in D.
    destruct D as [(? & D)|(? & ? & D)]; discriminate.
  - rewrite map_app. cbn. rewrite (I_hist s I). unfold unclaimed. cbn. rewrite Hh, C, <- app_assoc. reflexivity.
  - intros u. unfold tinv. cbn. destruct (Z.eq_dec u t) as [->|Ne].
    + rewrite upd_same. split; [reflexivity|]. rewrite C. reflexivity.
    + rewrite upd_other by exact Ne. pose proof (I_thr s I u) as T. unfold tinv in T.
      destruct (pcs s u) eqn:Hu; try exact T; exfalso; apply (NoHold u); rewrite Hu; exact Logic.I.
Qed.

Lemma holder_unique s t u : Inv1 s -> holder s = Some t -> holder_pc (pcs s u) -> u = t.
Proof.
  intros I Ht Hu. pose proof (I_thr s I u) as T. unfold tinv in T.
  destruct (pcs s u); cbn in Hu; try contradiction; destruct T as [T _]; congruence.
Qed.

(* the holder's cmpxchg on the tail succeeded: the list is empty again *)
Lemma L_detach_cas s t h : Inv1 s -> pcs s t = PDrainCasTail h -> tail s = h ->
  Inv1 (set_pc (do_detach s (head s) 0) t (PGot h)).
Proof.
  intros I Hpc Et. pose proof (I_thr s I t) as Tt. unfold tinv in Tt. rewrite Hpc in Tt. destruct Tt as [Th Tc].
  destruct (holder_chain s t I Th) as (Cn & Hs & _).
  destruct (chain s) as [|h' r] eqn:C; [congruence|]. cbn in Tc. subst h'.
  assert (R : r = []).
  { apply (last_cons_eq h r); [rewrite <- C; apply (I_nodup s I)|]. rewrite <- C, <- (I_tail s I). exact Et. }
  subst r.
  pose proof (I_front s I) as F. unfold front in F. rewrite Th, Hs in F. destruct F as (_ & _ & Fh).
  constructor; cbn; rewrite ?C; cbn.
  - constructor.
  - intros x [].
  - reflexivity.
  - congruence.
  - unfold linked; cbn. rewrite C. cbn. intros a b [].
  - unfold front. cbn. rewrite Hs, ?C. cbn. left. auto.
  - intros y u H. destruct (pc_of_owner s y u I H) as [N D]. rewrite upd_other; [exact D|]. intros ->. rewrite Hpc in D.
    destruct D as [(? & D)|(? & ? & D)]; discriminate.
  - pose proof (I_hist s I) as Hi. unfold unclaimed in *. cbn. rewrite Th, C in *. cbn in *. exact Hi.
  - intros u. unfold tinv. cbn. rewrite C. cbn. destruct (Z.eq_dec u t) as [->|Ne]; [rewrite upd_same; exact Logic.I|].
    rewrite upd_other by exact Ne. pose proof (I_thr s I u) as T. unfold tinv in T. rewrite C in T.
    destruct (pcs s u) eqn:Hu; try exact T;
      try (exfalso; apply Ne; apply (holder_unique s t u I Th); rewrite Hu; exact Logic.I).
    destruct T as (T1 & T2 & T3 & T4). auto.
Qed.

(* the holder stores the next item to the head *)
Lemma L_detach_store s t h nx : Inv1 s -> pcs s t = PDrainStoreHead h nx ->
  Inv1 (set_pc (do_detach s nx (tail s)) t (PPokeProbe (KGot h) 1 0)).
Proof.
  intros I Hpc. pose proof (I_thr s I t) as Tt. unfold tinv in Tt. rewrite Hpc in Tt. destruct Tt as (Th & (r & C) & Tn).
  destruct (holder_chain s t I Th) as (Cn & Hs & _).
  pose proof (I_nodup s I) as ND. rewrite C in ND.
  assert (NxI : nx <> 0). { apply (item_nz s nx I). rewrite C. right. left. reflexivity. }
  constructor; cbn; rewrite ?C; cbn [tl].
  - inversion ND; assumption.
  - intros x H. apply (I_items s I). rewrite C. right. exact H.
  - rewrite (I_tail s I), C. reflexivity.
  - intros _. pose proof (I_lastnxt s I) as L. rewrite C in L. apply L. discriminate.
  - unfold linked; cbn. rewrite C. cbn [tl]. intros a b H.
    assert (H' : adjacent a b (chain s)) by (rewrite C; apply adjacent_cons; exact H).
    destruct (I_linked s I a b H') as [L|(L & u & c' & Hu)]; [left; exact L|].
    right. split; [exact L|]. exists u, c'. rewrite upd_other; [exact Hu|]. intros ->. congruence.
  - unfold front. cbn. rewrite Hs, ?C. cbn. right. eauto.
  - intros y u H. destruct (pc_of_owner s y u I H) as [N D]. rewrite upd_other; [exact D|]. intros ->. rewrite Hpc in D.
    destruct D as [(? & D)|(? & ? & D)]; discriminate.
  - pose proof (I_hist s I) as Hi. unfold unclaimed in *. cbn. rewrite Th, C in *. cbn in *. exact Hi.
  - intros u. unfold tinv. cbn. rewrite C. cbn [tl]. destruct (Z.eq_dec u t) as [->|Ne]; [rewrite upd_same; exact Logic.I|].
    rewrite upd_other by exact Ne. pose proof (I_thr s I u) as T. unfold tinv in T. rewrite C in T.
    destruct (pcs s u) eqn:Hu; try exact T;
      try (exfalso; apply Ne; apply (holder_unique s t u I Th); rewrite Hu; exact Logic.I).
    + destruct T as (T1 & T2 & T3 & T4). split; [exact T1|]. split; [|auto]. intros X. apply T2. right. exact X.
    + destruct T as (T1 & T2). split; [exact T1|]. destruct (prev =? 0); [congruence|]. destruct T2 as [T2 T3].
      split; [|exact T3]. apply adjacent_tl_inv in T2 as [[-> _]|T2]; [congruence|exact T2].
Qed.

Lemma neutral_kret k : neutral (kret k) = true.
Proof. destruct k; reflexivity. Qed.
Lemma neutral_cw_resume st : neutral (cw_resume st) = true.
Proof. unfold cw_resume. destruct (st =? ST_READY); reflexivity. Qed.
Lemma neutral_cw_after pd st : neutral (cw_after pd st) = true.
Proof. unfold cw_after. destruct pd; [reflexivity|apply neutral_cw_resume]. Qed.

Ltac neutral_done I Hpc :=
  match goal with
  | |- Inv1 (set_pc ?s1 ?t ?p) =>
    apply (inv1_move _ (set_pc s1 t p) t p I);
    [ rewrite Hpc; reflexivity
    | first [ reflexivity | apply neutral_kret | apply neutral_cw_resume | apply neutral_cw_after ]
    | cbn; reflexivity | reflexivity | reflexivity | reflexivity | reflexivity | reflexivity | reflexivity | reflexivity | reflexivity
    | try (left; reflexivity) ]
  end.

Lemma L_create s t u p' : Inv1 s -> neutral (pcs s t) = true -> neutral p' = true -> pcs s u = PNone -> u <> t ->
  Inv1 (set_pc (do_create s u) t p').
Proof.
  intros I Nt Np Pu Nu.
  assert (I1 : Inv1 (do_create s u)).
  { apply (inv1_move s (do_create s u) u PWStart I); try reflexivity; [rewrite Pu; reflexivity | left; reflexivity]. }
  apply (inv1_move (do_create s u) _ t p' I1); try reflexivity.
  - cbn. rewrite upd_other by (intros E0; apply Nu; auto). exact Nt.
  - exact Np.
  - left; reflexivity.
Qed.

Theorem inv1_step oc s t e s' : Inv1 s -> gstep oc s t e = Some s' -> Inv1 s'.
Proof.
  intros I H. destruct (pcs s t) eqn:Hpc; gstep_open H Hpc.
  all: try solve [repeat split_if H; injection H as <-; neutral_done I Hpc].
  - (* PNone *) unfold call_entry in H. repeat split_if H; injection H as <-; neutral_done I Hpc.
  - (* PClient *) unfold call_entry in H. destruct c; repeat split_if H; injection H as <-; neutral_done I Hpc.
  - (* PPushCall *)
    repeat split_if H. injection H as <-.
    repeat match goal with X : (_ && _) = true |- _ => apply andb_true_iff in X as [? ?] end.
    apply L_pushcall; auto.
    + destruct (owner s (eoff e)); [discriminate|reflexivity].
    + apply memz_false. destruct (memz (eoff e) (chain s)); [discriminate|reflexivity].
  - (* PPushXchg *)
    repeat split_if H. injection H as <-.
    match goal with X : (ea e =? tail s) = true |- _ => apply Z.eqb_eq in X; rewrite X end.
    apply L_pushxchg; assumption.
  - (* PPushLink *)
    destruct (Z.eqb_spec prev 0) as [E0|Np]; [subst prev|]; repeat split_if H; injection H as <-.
    + apply L_linkhead; assumption.
    + apply L_linknext; assumption.
  - (* PCreate *)
    repeat split_if H; injection H as <-;
    repeat match goal with X : (_ && _) = true |- _ => apply andb_true_iff in X as [? ?] end;
    (apply L_create; [exact I | rewrite Hpc; reflexivity | first [reflexivity | apply neutral_kret]
      | destruct (pcs s (ea e)); try discriminate; reflexivity
      | intros E0; rewrite E0, Z.eqb_refl in *; discriminate ]).
  - (* PDrainXchg *)
    repeat split_if H; injection H as <-;
    repeat match goal with X : (_ && _) = true |- _ => apply andb_true_iff in X as [? ?] end;
    match goal with X : (ea e =? head s) = true |- _ => apply Z.eqb_eq in X; rewrite X in * end.
    all: try (apply L_claim; assumption).
    all: try (exfalso; match goal with X : is_item ?v = true, Y : (?v =? _) = true |- _ =>
               apply Z.eqb_eq in Y; rewrite Y in X; discriminate X end).
    all: try (neutral_done I Hpc; right; cbn;
              repeat match goal with Y : (head _ =? _) = true |- _ => apply Z.eqb_eq in Y end; split; auto).
    (* neither 0, MED nor an item: impossible *)
    all: exfalso; match goal with II : Inv1 ?ss |- _ => destruct (head_values ss II) as [E0|[E0|(E0 & _)]] end;
      repeat match goal with Y : (head _ =? _) = false |- _ => apply Z.eqb_neq in Y end; congruence.
  - (* PDrainCasNull *)
    repeat split_if H; injection H as <-;
    repeat match goal with X : (_ && _) = true |- _ => apply andb_true_iff in X as [? ?] end;
    neutral_done I Hpc.
    right. cbn. match goal with X : Bool.eqb true (head s =? MED) = true |- _ =>
      destruct (Z.eqb_spec (head s) MED); [|discriminate X] end. auto.
  - (* PDrainNext *)
    pose proof (I_thr s I t) as Tt. unfold tinv in Tt. rewrite Hpc in Tt. destruct Tt as [Th Tc].
    destruct (holder_chain s t I Th) as (Cn & Hs & _).
    repeat split_if H; injection H as <-;
    match goal with X : (ea e =? nxt s h) = true |- _ => apply Z.eqb_eq in X; rewrite X in * end.
    + apply (holder_move s _ t (PDrainStoreNull h) I Th); try reflexivity; try exact Logic.I; [left; reflexivity|].
      unfold tinv; cbn. rewrite upd_same. auto.
    + apply (holder_move s _ t (PDrainStoreHead h (nxt s h)) I Th); try reflexivity; try exact Logic.I; [left; reflexivity|].
      unfold tinv; cbn. rewrite upd_same. split; [exact Th|]. split; [|reflexivity].
      destruct (chain s) as [|h' r] eqn:C; [congruence|]. cbn in Tc. subst h'.
      destruct r as [|b r].
      * exfalso. pose proof (I_lastnxt s I) as L. rewrite C in L. cbn in L.
        match goal with X : (nxt s h =? 0) = false |- _ => apply Z.eqb_neq in X; apply X; apply L; discriminate end.
      * exists r. f_equal. f_equal.
        assert (A : adjacent h b (chain s)) by (rewrite C; cbn; auto).
        destruct (I_linked s I h b A) as [L|[L _]]; [symmetry; exact L|].
        match goal with X : (nxt s h =? 0) = false |- _ => apply Z.eqb_neq in X; contradiction end.
  - (* PDrainStoreNull *)
    pose proof (I_thr s I t) as Tt. unfold tinv in Tt. rewrite Hpc in Tt. destruct Tt as [Th Tc].
    repeat split_if H; injection H as <-.
    apply (holder_move s _ t (PDrainCasTail h) I Th); try reflexivity; try exact Logic.I; [right; reflexivity|].
    unfold tinv; cbn. rewrite upd_same. auto.
  - (* PDrainCasTail *)
    pose proof (I_thr s I t) as Tt. unfold tinv in Tt. rewrite Hpc in Tt. destruct Tt as [Th Tc].
    destruct (holder_chain s t I Th) as (Cn & Hs & _).
    repeat split_if H; injection H as <-;
    repeat match goal with X : (_ && _) = true |- _ => apply andb_true_iff in X as [? ?] end.
    + apply L_detach_cas; [exact I|exact Hpc|].
      match goal with X : Bool.eqb true (tail s =? h) = true |- _ => destruct (Z.eqb_spec (tail s) h); [assumption|discriminate X] end.
    + apply (holder_move s _ t (PDrainWaitNext h true) I Th); try reflexivity; try exact Logic.I; [left; reflexivity|].
      unfold tinv; cbn. rewrite upd_same. split; [exact Th|].
      destruct (chain s) as [|h' r] eqn:C; [congruence|]. cbn in Tc. subst h'.
      destruct r as [|b r]; [|eauto]. exfalso.
      match goal with X : Bool.eqb false (tail s =? h) = true |- _ =>
        destruct (Z.eqb_spec (tail s) h) as [|Ne]; [discriminate X|]; apply Ne end.
      rewrite (I_tail s I), C. reflexivity.
  - (* PDrainWaitNext *)
    pose proof (I_thr s I t) as Tt. unfold tinv in Tt. rewrite Hpc in Tt. destruct Tt as [Th (b & r & C)].
    destruct first; (repeat split_if H; injection H as <-;
    match goal with X : (ea e =? nxt s h) = true |- _ => apply Z.eqb_eq in X; rewrite X in * end;
    [ apply (holder_move s _ t (PDrainWaitNext h false) I Th); try reflexivity; try exact Logic.I; [left; reflexivity|];
      unfold tinv; cbn; rewrite upd_same; eauto
    | apply (holder_move s _ t (PDrainStoreHead h (nxt s h)) I Th); try reflexivity; try exact Logic.I; [left; reflexivity|];
      unfold tinv; cbn; rewrite upd_same; split; [exact Th|]; split; [|reflexivity];
      exists r; rewrite C; f_equal; f_equal;
      assert (A : adjacent h b (chain s)) by (rewrite C; cbn; auto);
      destruct (I_linked s I h b A) as [L|[L _]]; [symmetry; exact L|];
      match goal with X : (nxt s h =? 0) = false |- _ => apply Z.eqb_neq in X; contradiction end ]).
  - (* PDrainStoreHead *)
    repeat split_if H; injection H as <-. apply L_detach_store; assumption.
Qed.

Theorem inv1_reach oc p0 s : reach oc p0 s -> Inv1 s.
Proof.
  apply invariant_lift.
  - intros ? ->. apply Inv1_init.
  - intros s0 [t e] s1 HI Hs. eapply inv1_step; eauto.
Qed.
