(* SLane_measure.v — termination: a potential function on the states of the serial-lane model that every step of a
   thread inside a call and every worker pick-up strictly decreases, and that a new dispatch_async raises by a
   constant.  Hence an execution with n submissions has at most Phi(initial) + 32 n other steps: no livelock (the
   DIRTY retry loop, the try_lock restart and the waits for enqueuers are all paid for), and together with
   no_deadlock / not_stranded / quiescent_all_done every maximal execution in which workers keep picking the lane up
   ends with every submitted item run exactly once, in order. *)
From Coq Require Import ZArith Bool List Lia.
From Verif Require Import Word Bits Fields DqFields Conc Gen_consts Gen_dqstate Lane_fields SLane SLane_proofs SLane_progress.
Import ListNotations.
Local Open Scope Z_scope.

Definition phi (p : pc) : Z :=
  match p with
  | Idle => 0
  | PA_xchg _ => 32
  | PA_link _ true _ => 23
  | PA_link _ false _ => 17
  | PA_probe _ => 22
  | PA_wake _ _ => 21
  | PA_rootpush => 13
  | PA_oprobe _ => 16
  | PA_owake _ => 15
  | PW_lock _ => 6
  | PW_tail _ => 5
  | PW_head _ => 4
  | PW_pop _ => 3
  | PW_run _ _ _ => 7
  | PW_incall _ _ _ => 6
  | PW_next _ _ => 5
  | PW_unlock _ => 3
  | PW_xor _ => 2
  end.

Lemma phi_nonneg p : 0 <= phi p.
Proof. destruct p; cbn; try lia. destruct was_empty; lia. Qed.

Fixpoint sumL (f : Z -> Z) (L : list Z) : Z := match L with [] => 0 | t :: L' => f t + sumL f L' end.

Lemma sumL_ext f g L : (forall t, In t L -> f t = g t) -> sumL f L = sumL g L.
Proof. induction L as [|a L IH]; cbn [sumL]; intros H; [reflexivity|]. rewrite (H a (or_introl eq_refl)), IH; [reflexivity|]. intros t Ht. apply H. right. exact Ht. Qed.

Lemma sumL_nonneg f L : (forall t, 0 <= f t) -> 0 <= sumL f L.
Proof. intros H. induction L as [|a L IH]; cbn [sumL]; [lia|]. specialize (H a). lia. Qed.

Lemma sumL_upd (pcs0 : Z -> pc) t p' L : NoDup L -> In t L ->
  sumL (fun u => phi (upd pcs0 t p' u)) L = sumL (fun u => phi (pcs0 u)) L - phi (pcs0 t) + phi p'.
Proof.
  induction L as [|a L IH]; intros ND Hin; [contradiction|]. inversion ND as [|x l Hx Hl]; subst. cbn [sumL].
  destruct (Z.eq_dec a t) as [->|N].
  - rewrite upd_same. rewrite (sumL_ext (fun u => phi (upd pcs0 t p' u)) (fun u => phi (pcs0 u)) L); [lia|].
    intros u Hu. rewrite upd_other; [reflexivity|]. intros ->. contradiction.
  - rewrite upd_other by exact N. destruct Hin as [E|Hin]; [congruence|]. rewrite (IH Hl Hin). lia.
Qed.

Definition dbit (s : gst) : Z := f_d (dec (st s)).
Definition mqv (s : gst) : Z := f_mq (dec (st s)).
Definition bonus (s : gst) : Z :=
  match token s with
  | Some (Some w) => match pcs s w with PW_lock fl => if fl <? mqv s then 1 else 0 | _ => 0 end
  | _ => 0
  end.

Lemma bonus_range s : 0 <= bonus s <= 1.
Proof. unfold bonus. destruct (token s) as [[w|]|]; try lia. destruct (pcs s w); try lia. destruct (_ <? _); lia. Qed.

Definition Phi (L : list Z) (s : gst) : Z :=
  sumL (fun u => phi (pcs s u)) L + 8 * Z.of_nat (length (lst s)) + 6 * dbit s + 12 * rootq s + bonus s.

Definition covers (L : list Z) (s : gst) : Prop := forall t, ~ In t L -> pcs s t = Idle.

(* one more invariant: the acquire-xor is only reached with DIRTY set, and nobody can clear it meanwhile *)
Definition XD (s : gst) : Prop := forall t o, pcs s t = PW_xor o -> dbit s = 1.
Definition Inv3 (s : gst) : Prop := Inv s /\ XD s.

Lemma dbit_enc s r : st s = enc r -> wfr r -> dbit s = f_d r.
Proof. intros E W. unfold dbit. rewrite E, dec_enc by exact W. reflexivity. Qed.
Lemma mqv_enc s r : st s = enc r -> wfr r -> mqv s = f_mq r.
Proof. intros E W. unfold mqv. rewrite E, dec_enc by exact W. reflexivity. Qed.

(* ---------------------------------------------------------------- the shape of every step, with the numbers *)
(* what a step of t does to the quantities Phi is made of *)
Record delta (s s' : gst) (t : Z) (p' : pc) (dl dd dr : Z) : Prop := {
  d_pcs : pcs s' = upd (pcs s) t p';
  d_len : Z.of_nat (length (lst s')) = Z.of_nat (length (lst s)) + dl;
  d_dirty : dbit s' = dbit s + dd;
  d_root : rootq s' = rootq s + dr
}.

Lemma Phi_delta L s s' t p' dl dd dr :
  NoDup L -> In t L -> delta s s' t p' dl dd dr ->
  Phi L s' = Phi L s - phi (pcs s t) + phi p' + 8 * dl + 6 * dd + 12 * dr + (bonus s' - bonus s).
Proof.
  intros ND Hin D. destruct D. unfold Phi. rewrite d_pcs0, sumL_upd by assumption. rewrite d_len0, d_dirty0, d_root0. lia.
Qed.

Lemma bonus_same s s' :
  token s' = token s -> st s' = st s -> (forall w, token s = Some (Some w) -> pcs s' w = pcs s w) -> bonus s' = bonus s.
Proof.
  intros K E P. unfold bonus, mqv. rewrite K, E. destruct (token s) as [[w|]|]; try reflexivity. rewrite (P w eq_refl). reflexivity.
Qed.

Lemma bonus_not_lock s w : token s = Some (Some w) -> (forall fl, pcs s w <> PW_lock fl) -> bonus s = 0.
Proof. intros K N. unfold bonus. rewrite K. destruct (pcs s w); try reflexivity. exfalso. apply (N floor). reflexivity. Qed.

Lemma length_link l i : length (link_id l i) = length l.
Proof. induction l as [|e l IH]; cbn [link_id length]; [reflexivity|]. destruct (e_id e =? i); cbn [length]; [reflexivity | rewrite IH; reflexivity]. Qed.

Section Step.
Variable L : list Z.
Hypothesis ND : NoDup L.

Lemma begin_worker_decreases s t f s' :
  Inv s -> In t L -> begin s t (CWorker f) = Some s' -> Phi L s' + 5 <= Phi L s.
Proof.
  intros I Hin B. unfold begin in B. destruct (pcs s t) eqn:Hpc; try discriminate.
  destruct (0 <? rootq s); [|discriminate]. injection B as <-.
  assert (D : delta s (set_token (set_pc (set_rootq s (rootq s - 1)) t (PW_lock f)) (Some (Some t))) t (PW_lock f) 0 0 (-1)).
  { constructor; cbn [pcs lst rootq set_token set_pc set_rootq]; try lia; try reflexivity. unfold dbit. cbn [st set_token set_pc set_rootq]. lia. }
  rewrite (Phi_delta L _ _ t _ _ _ _ ND Hin D). rewrite Hpc. cbn [phi].
  pose proof (bonus_range s). pose proof (bonus_range (set_token (set_pc (set_rootq s (rootq s - 1)) t (PW_lock f)) (Some (Some t)))). lia.
Qed.

Lemma begin_async_raises s t q s' :
  Inv s -> In t L -> begin s t (CAsync q) = Some s' -> Phi L s' = Phi L s + 32.
Proof.
  intros [[r G] T] Hin B. unfold begin in B. destruct (pcs s t) eqn:Hpc; try discriminate.
  destruct ((0 <=? q) && (q <? 8)); [|discriminate]. injection B as <-.
  assert (D : delta s (set_pc s t (PA_xchg q)) t (PA_xchg q) 0 0 0).
  { constructor; cbn [pcs lst rootq set_pc]; try lia; try reflexivity. unfold dbit. cbn [st set_pc]. lia. }
  rewrite (Phi_delta L _ _ t _ _ _ _ ND Hin D). rewrite Hpc. cbn [phi].
  assert (K : token s <> Some (Some t)) by (apply (not_holder s t (T t)); rewrite Hpc; reflexivity).
  rewrite (bonus_same s (set_pc s t (PA_xchg q))); [lia | reflexivity | reflexivity |].
  intros w E. cbn [pcs set_pc]. apply upd_other. congruence.
Qed.

Lemma step_decreases s t s' :
  Inv3 s -> valid_tid t -> In t L -> gstep s t = Some s' -> Phi L s' + 1 <= Phi L s.
Proof.
  intros [I X] Vt Hin B. pose proof I as I0. destruct I0 as [[r G] T].
  pose proof (g_enc s r G) as g_enc0. pose proof (g_wf s r G) as g_wf0. pose proof (g_lock s r G) as g_lock0.
  pose proof (g_enq s r G) as g_enq0. pose proof (g_hi s r G) as g_hi0. pose proof (g_em s r G) as g_em0.
  pose proof g_wf0 as W. unfold wfr in W.
  pose proof (dbit_enc s r g_enc0 g_wf0) as Ds. pose proof (mqv_enc s r g_enc0 g_wf0) as Ms.
  pose proof (bonus_range s) as Bs.
  unfold gstep in B. destruct (pcs s t) as [|q|i we q|q|q tg| |q|q|fl|o|o|o|o i m|o i m|o m|o|o] eqn:Hpc.
  - discriminate.
  - (* PA_xchg *) injection B as <-.
    assert (K : token s <> Some (Some t)) by (apply (not_holder s t (T t)); rewrite Hpc; reflexivity).
    match goal with |- Phi L ?s1 + 1 <= _ => set (s' := s1) end.
    assert (D : delta s s' t (PA_link (nextid s) match lst s with [] => true | _ => false end q) 1 0 0).
    { subst s'. constructor; cbn [pcs lst rootq]; try lia; try reflexivity.
      - rewrite app_length. cbn [length]. lia.
      - unfold dbit. cbn [st]. lia. }
    rewrite (Phi_delta L _ _ t _ _ _ _ ND Hin D). rewrite Hpc.
    rewrite (bonus_same s s'); [| reflexivity | reflexivity | intros w E; subst s'; cbn [pcs]; apply upd_other; congruence].
    cbn [phi]. destruct (lst s); lia.
  - (* PA_link *) injection B as <-.
    assert (K : token s <> Some (Some t)) by (apply (not_holder s t (T t)); rewrite Hpc; reflexivity).
    match goal with |- Phi L ?s1 + 1 <= _ => set (s' := s1) end.
    assert (D : delta s s' t (if we then PA_probe q else Idle) 0 0 0).
    { subst s'. constructor; cbn [pcs lst rootq set_pc set_lst]; try lia; try reflexivity.
      - rewrite length_link. lia.
      - unfold dbit. cbn [st set_pc set_lst]. lia. }
    rewrite (Phi_delta L _ _ t _ _ _ _ ND Hin D). rewrite Hpc.
    rewrite (bonus_same s s'); [| reflexivity | reflexivity | intros w E; subst s'; cbn [pcs set_pc set_lst]; apply upd_other; congruence].
    destruct we; cbn [phi]; lia.
  - (* PA_probe *) injection B as <-.
    assert (K : token s <> Some (Some t)) by (apply (not_holder s t (T t)); rewrite Hpc; reflexivity).
    match goal with |- Phi L ?s1 + 1 <= _ => set (s' := s1) end.
    assert (D : delta s s' t (match lst s with [] => Idle | _ => PA_wake q true end) 0 0 0).
    { subst s'. destruct (lst s) eqn:E; constructor; cbn [pcs lst rootq set_pc set_wakers]; rewrite ?E; try lia; try reflexivity;
        unfold dbit; cbn [st set_pc set_wakers]; lia. }
    rewrite (Phi_delta L _ _ t _ _ _ _ ND Hin D). rewrite Hpc.
    rewrite (bonus_same s s'); [| subst s'; destruct (lst s); reflexivity | subst s'; destruct (lst s); reflexivity
                                | intros w E; subst s'; destruct (lst s); cbn [pcs set_pc set_wakers]; apply upd_other; congruence].
    destruct (lst s); cbn [phi]; lia.
  - (* PA_wake *)
    destruct (T t) as (_ & _ & _ & T4). rewrite Hpc in T4. pose proof (T4 q eq_refl) as Q.
    assert (K : token s <> Some (Some t)) by (apply (not_holder s t (T t)); rewrite Hpc; reflexivity).
    rewrite g_enc0 in B. unfold ENQUEUED in B.
    rewrite (wakeup_fields r q 3 1 g_wf0 Q eq_refl) in B. cbv zeta in B.
    pose proof (merged_wf r q g_wf0 Q) as Wm. unfold wfr in Wm.
    destruct (merged_same r q) as (M1 & M2 & M3 & M4 & M5 & M6 & M7 & M8 & M9 & M10).
    set (m := merged r q) in *.
    set (e' := if can_enqueue r then 1 else f_enq m) in *.
    assert (He' : 0 <= e' < 2) by (subst e'; destruct (can_enqueue r); lia).
    set (r' := mk (f_owner m) (f_tr m) e' (f_mq m) (f_ov m) (f_role m) (f_em m) 1 (f_pb m) (f_wq m) (f_ib m) (f_hi m)) in *.
    assert (W' : wfr r') by (subst r'; apply wfr_mk; lia).
    cbv iota beta in B.
    destruct (negb (Z.land (Z.lxor (enc r) (enc r')) 2147483648 =? 0)); injection B as <-.
    + match goal with |- Phi L ?s1 + 1 <= _ => set (s' := s1) end.
      assert (D : delta s s' t PA_rootpush 0 (1 - f_d r) 0).
      { subst s'. constructor; cbn [pcs lst rootq set_pc set_wakers set_token set_st]; try lia; try reflexivity.
        rewrite Ds. unfold dbit. cbn [st set_pc set_wakers set_token set_st]. rewrite dec_enc by exact W'. subst r'. unfold mk; cbn [f_d]. lia. }
      rewrite (Phi_delta L _ _ t _ _ _ _ ND Hin D). rewrite Hpc. cbn [phi].
      assert (B' : bonus s' = 0).
      { apply (bonus_not_lock s' t); [reflexivity|]. intros fl0. subst s'. cbn [pcs set_pc set_wakers set_token set_st]. rewrite upd_same. discriminate. }
      lia.
    + match goal with |- Phi L ?s1 + 1 <= _ => set (s' := s1) end.
      assert (D : delta s s' t Idle 0 (1 - f_d r) 0).
      { subst s'. constructor; cbn [pcs lst rootq set_pc set_wakers set_token set_st]; try lia; try reflexivity.
        rewrite Ds. unfold dbit. cbn [st set_pc set_wakers set_token set_st]. rewrite dec_enc by exact W'. subst r'. unfold mk; cbn [f_d]. lia. }
      rewrite (Phi_delta L _ _ t _ _ _ _ ND Hin D). rewrite Hpc. cbn [phi].
      pose proof (bonus_range s'). lia.
  - (* PA_rootpush *) injection B as <-.
    match goal with |- Phi L ?s1 + 1 <= _ => set (s' := s1) end.
    assert (D : delta s s' t Idle 0 0 1).
    { subst s'. constructor; cbn [pcs lst rootq set_pc set_rootq set_token]; try lia; try reflexivity.
      unfold dbit. cbn [st set_pc set_rootq set_token]. lia. }
    rewrite (Phi_delta L _ _ t _ _ _ _ ND Hin D). rewrite Hpc. cbn [phi].
    assert (B' : bonus s' = 0) by reflexivity. lia.
  - (* PA_oprobe *) injection B as <-.
    assert (K : token s <> Some (Some t)) by (apply (not_holder s t (T t)); rewrite Hpc; reflexivity).
    match goal with |- Phi L ?s1 + 1 <= _ => set (s' := s1) end.
    assert (D : delta s s' t (match lst s with [] => Idle | _ => PA_owake q end) 0 0 0).
    { subst s'. destruct (lst s) eqn:E; constructor; cbn [pcs lst rootq set_pc]; rewrite ?E; try lia; try reflexivity;
        unfold dbit; cbn [st set_pc]; lia. }
    rewrite (Phi_delta L _ _ t _ _ _ _ ND Hin D). rewrite Hpc.
    rewrite (bonus_same s s'); [| subst s'; destruct (lst s); reflexivity | subst s'; destruct (lst s); reflexivity
                                | intros w E; subst s'; destruct (lst s); cbn [pcs set_pc]; apply upd_other; congruence].
    destruct (lst s); cbn [phi]; lia.
  - (* PA_owake *)
    destruct (T t) as (_ & _ & _ & T4). rewrite Hpc in T4. pose proof (T4 q eq_refl) as Q.
    assert (K : token s <> Some (Some t)) by (apply (not_holder s t (T t)); rewrite Hpc; reflexivity).
    rewrite g_enc0 in B. unfold ENQUEUED in B.
    rewrite (wakeup_fields_plain r q 1 1 g_wf0 Q eq_refl) in B. cbv zeta in B.
    pose proof (merged_wf r q g_wf0 Q) as Wm. unfold wfr in Wm.
    destruct (merged_same r q) as (M1 & M2 & M3 & M4 & M5 & M6 & M7 & M8 & M9 & M10).
    set (m := merged r q) in *.
    set (e' := if can_enqueue r then 1 else f_enq m) in *.
    assert (He' : 0 <= e' < 2) by (subst e'; destruct (can_enqueue r); lia).
    set (r' := mk (f_owner m) (f_tr m) e' (f_mq m) (f_ov m) (f_role m) (f_em m) (f_d m) (f_pb m) (f_wq m) (f_ib m) (f_hi m)) in *.
    assert (W' : wfr r') by (subst r'; apply wfr_mk; lia).
    destruct (enc r' =? enc r).
    + injection B as <-.
      match goal with |- Phi L ?s1 + 1 <= _ => set (s' := s1) end.
      assert (D : delta s s' t Idle 0 0 0).
      { subst s'. constructor; cbn [pcs lst rootq set_pc]; try lia; try reflexivity. unfold dbit. cbn [st set_pc]. lia. }
      rewrite (Phi_delta L _ _ t _ _ _ _ ND Hin D). rewrite Hpc. cbn [phi].
      rewrite (bonus_same s s'); [lia | reflexivity | reflexivity | intros w E; subst s'; cbn [pcs set_pc]; apply upd_other; congruence].
    + cbv iota beta in B.
      destruct (negb (Z.land (Z.lxor (enc r) (enc r')) 2147483648 =? 0)); injection B as <-.
      * match goal with |- Phi L ?s1 + 1 <= _ => set (s' := s1) end.
        assert (D : delta s s' t PA_rootpush 0 0 0).
        { subst s'. constructor; cbn [pcs lst rootq set_pc set_token set_st]; try lia; try reflexivity.
          rewrite Ds. unfold dbit. cbn [st set_pc set_token set_st]. rewrite dec_enc by exact W'. subst r'. unfold mk; cbn [f_d]. lia. }
        rewrite (Phi_delta L _ _ t _ _ _ _ ND Hin D). rewrite Hpc. cbn [phi].
        assert (B' : bonus s' = 0).
        { apply (bonus_not_lock s' t); [reflexivity|]. intros fl0. subst s'. cbn [pcs set_pc set_token set_st]. rewrite upd_same. discriminate. }
        lia.
      * match goal with |- Phi L ?s1 + 1 <= _ => set (s' := s1) end.
        assert (D : delta s s' t Idle 0 0 0).
        { subst s'. constructor; cbn [pcs lst rootq set_pc set_token set_st]; try lia; try reflexivity.
          rewrite Ds. unfold dbit. cbn [st set_pc set_token set_st]. rewrite dec_enc by exact W'. subst r'. unfold mk; cbn [f_d]. lia. }
        rewrite (Phi_delta L _ _ t _ _ _ _ ND Hin D). rewrite Hpc. cbn [phi].
        pose proof (bonus_range s'). lia.
  - (* PW_lock *)
    pose proof (holder s t (T t)) as K. rewrite Hpc in K. specialize (K eq_refl).
    rewrite K, Hpc in g_lock0. cbn [locked_pc] in g_lock0. destruct g_lock0 as [V (O & Ib & Wq)].
    assert (En : f_enq r = 1) by (apply g_enq0; rewrite K; discriminate).
    rewrite g_enc0 in B. rewrite (lock_fields r t fl 0 g_wf0 V) in B.
    assert (LF : lock_free r = true) by (unfold lock_free; rewrite O, g_em0, Ib, g_hi0, Wq; reflexivity).
    rewrite LF in B.
    destruct ((f_role r mod 2 =? 1) && (fl <? f_mq r)) eqn:OV.
    + injection B as <-. apply andb_true_iff in OV. destruct OV as [_ OV].
      match goal with |- Phi L ?s1 + 1 <= _ => set (s' := s1) end.
      assert (D : delta s s' t (PW_lock (f_dq_state_max_qos (enc r))) 0 0 0).
      { subst s'. constructor; cbn [pcs lst rootq set_pc]; try lia; try reflexivity.
        unfold dbit. cbn [st set_pc]. lia. }
      rewrite (Phi_delta L _ _ t _ _ _ _ ND Hin D). rewrite Hpc. cbn [phi].
      assert (B0 : bonus s = 1) by (unfold bonus; rewrite K, Hpc, Ms, OV; reflexivity).
      assert (B' : bonus s' = 0).
      { unfold bonus. subst s'. cbn [token pcs set_pc]. rewrite K, upd_same. unfold mqv. cbn [st set_pc].
        rewrite g_enc0, dec_enc by exact g_wf0. rewrite max_qos_f by exact g_wf0. rewrite Z.ltb_irrefl. reflexivity. }
      lia.
    + rewrite En, Wq in B. rewrite OWN_from_lock in B. change (OWN =? 0) with false in B. cbv iota in B. injection B as <-.
      set (r' := mk t 0 1 (f_mq r) 0 (f_role r) 0 0 0 4096 1 0) in *.
      assert (W' : wfr r') by (subst r'; apply wfr_mk; unfold valid_tid in V; lia).
      match goal with |- Phi L ?s1 + 1 <= _ => set (s' := s1) end.
      assert (D : delta s s' t (PW_tail OWN) 0 (- f_d r) 0).
      { subst s'. constructor; cbn [pcs lst rootq set_pc set_st]; try lia; try reflexivity.
        rewrite Ds. unfold dbit. cbn [st set_pc set_st]. rewrite dec_enc by exact W'. subst r'. unfold mk; cbn [f_d]. lia. }
      rewrite (Phi_delta L _ _ t _ _ _ _ ND Hin D). rewrite Hpc. cbn [phi].
      assert (B' : bonus s' = 0).
      { apply (bonus_not_lock s' t); [exact K|]. intros fl0. subst s'. cbn [pcs set_pc set_st]. rewrite upd_same. discriminate. }
      lia.
  - (* PW_tail *) injection B as <-.
    pose proof (holder s t (T t)) as K. rewrite Hpc in K. specialize (K eq_refl).
    match goal with |- Phi L ?s1 + 1 <= _ => set (s' := s1) end.
    set (p' := match lst s with [] => PW_unlock (Z.lor (Z.land o ENQUEUED) SERIAL_OWNED) | _ :: _ => PW_head o end) in *.
    assert (D : delta s s' t p' 0 0 0).
    { subst s'. constructor; cbn [pcs lst rootq set_pc]; try lia; try reflexivity. unfold dbit. cbn [st set_pc]. lia. }
    rewrite (Phi_delta L _ _ t _ _ _ _ ND Hin D). rewrite Hpc.
    assert (B0 : bonus s = 0) by (apply (bonus_not_lock s t K); intros fl0; rewrite Hpc; discriminate).
    assert (B' : bonus s' = 0).
    { apply (bonus_not_lock s' t); [exact K|]. intros fl0. subst s'. cbn [pcs set_pc]. rewrite upd_same. subst p'. destruct (lst s); discriminate. }
    subst p'. destruct (lst s); cbn [phi]; lia.
  - (* PW_head *) destruct (lst s) as [|e l] eqn:E; [discriminate|]. destruct (e_linked e); [|discriminate]. injection B as <-.
    pose proof (holder s t (T t)) as K. rewrite Hpc in K. specialize (K eq_refl).
    match goal with |- Phi L ?s1 + 1 <= _ => set (s' := s1) end.
    assert (D : delta s s' t (PW_pop o) 0 0 0).
    { subst s'. constructor; cbn [pcs lst rootq set_pc]; try lia; try reflexivity. unfold dbit. cbn [st set_pc]. lia. }
    rewrite (Phi_delta L _ _ t _ _ _ _ ND Hin D). rewrite Hpc. cbn [phi].
    assert (B0 : bonus s = 0) by (apply (bonus_not_lock s t K); intros fl0; rewrite Hpc; discriminate).
    assert (B' : bonus s' = 0).
    { apply (bonus_not_lock s' t); [exact K|]. intros fl0. subst s'. cbn [pcs set_pc]. rewrite upd_same. discriminate. }
    lia.
  - (* PW_pop *)
    pose proof (holder s t (T t)) as K. rewrite Hpc in K. specialize (K eq_refl).
    assert (B0 : bonus s = 0) by (apply (bonus_not_lock s t K); intros fl0; rewrite Hpc; discriminate).
    destruct (lst s) as [|e [|e2 l']] eqn:E; [discriminate| |].
    + injection B as <-.
      match goal with |- Phi L ?s1 + 1 <= _ => set (s' := s1) end.
      assert (D : delta s s' t (PW_run o (e_id e) false) (-1) 0 0).
      { subst s'. constructor; cbn [pcs lst rootq set_pc set_lst]; rewrite ?E; cbn [length]; try lia; try reflexivity.
        unfold dbit. cbn [st set_pc set_lst]. lia. }
      rewrite (Phi_delta L _ _ t _ _ _ _ ND Hin D). rewrite Hpc. cbn [phi].
      assert (B' : bonus s' = 0).
      { apply (bonus_not_lock s' t); [exact K|]. intros fl0. subst s'. cbn [pcs set_pc set_lst]. rewrite upd_same. discriminate. }
      lia.
    + destruct (e_linked e2); [|discriminate]. injection B as <-.
      match goal with |- Phi L ?s1 + 1 <= _ => set (s' := s1) end.
      assert (D : delta s s' t (PW_run o (e_id e) true) (-1) 0 0).
      { subst s'. constructor; cbn [pcs lst rootq set_pc set_lst]; rewrite ?E; cbn [length]; try lia; try reflexivity.
        unfold dbit. cbn [st set_pc set_lst]. lia. }
      rewrite (Phi_delta L _ _ t _ _ _ _ ND Hin D). rewrite Hpc. cbn [phi].
      assert (B' : bonus s' = 0).
      { apply (bonus_not_lock s' t); [exact K|]. intros fl0. subst s'. cbn [pcs set_pc set_lst]. rewrite upd_same. discriminate. }
      lia.
  - (* PW_run *) injection B as <-.
    pose proof (holder s t (T t)) as K. rewrite Hpc in K. specialize (K eq_refl).
    match goal with |- Phi L ?s1 + 1 <= _ => set (s' := s1) end.
    assert (D : delta s s' t (PW_incall o i m) 0 0 0).
    { subst s'. constructor; cbn [pcs lst rootq]; try lia; try reflexivity. unfold dbit. cbn [st]. lia. }
    rewrite (Phi_delta L _ _ t _ _ _ _ ND Hin D). rewrite Hpc. cbn [phi].
    assert (B0 : bonus s = 0) by (apply (bonus_not_lock s t K); intros fl0; rewrite Hpc; discriminate).
    assert (B' : bonus s' = 0).
    { apply (bonus_not_lock s' t); [exact K|]. intros fl0. subst s'. cbn [pcs]. rewrite upd_same. discriminate. }
    lia.
  - (* PW_incall *) injection B as <-.
    pose proof (holder s t (T t)) as K. rewrite Hpc in K. specialize (K eq_refl).
    match goal with |- Phi L ?s1 + 1 <= _ => set (s' := s1) end.
    assert (D : delta s s' t (PW_next o m) 0 0 0).
    { subst s'. constructor; cbn [pcs lst rootq]; try lia; try reflexivity. unfold dbit. cbn [st]. lia. }
    rewrite (Phi_delta L _ _ t _ _ _ _ ND Hin D). rewrite Hpc. cbn [phi].
    assert (B0 : bonus s = 0) by (apply (bonus_not_lock s t K); intros fl0; rewrite Hpc; discriminate).
    assert (B' : bonus s' = 0).
    { apply (bonus_not_lock s' t); [exact K|]. intros fl0. subst s'. cbn [pcs]. rewrite upd_same. discriminate. }
    lia.
  - (* PW_next *)
    pose proof (holder s t (T t)) as K. rewrite Hpc in K. specialize (K eq_refl).
    assert (B0 : bonus s = 0) by (apply (bonus_not_lock s t K); intros fl0; rewrite Hpc; discriminate).
    set (p' := if m then PW_pop o
               else match lst s with [] => PW_unlock (Z.lor (Z.land o ENQUEUED) SERIAL_OWNED) | _ :: _ => PW_head o end).
    assert (Es : s' = set_pc s t p') by (subst p'; destruct m; injection B as <-; reflexivity).
    subst s'.
    assert (D : delta s (set_pc s t p') t p' 0 0 0).
    { constructor; cbn [pcs lst rootq set_pc]; try lia; try reflexivity. unfold dbit. cbn [st set_pc]. lia. }
    rewrite (Phi_delta L _ _ t _ _ _ _ ND Hin D). rewrite Hpc.
    assert (B' : bonus (set_pc s t p') = 0).
    { apply (bonus_not_lock _ t); [exact K|]. intros fl0. cbn [pcs set_pc]. rewrite upd_same. subst p'. destruct m; [discriminate|]. destruct (lst s); discriminate. }
    subst p'. destruct m; [|destruct (lst s)]; cbn [phi]; lia.
  - (* PW_unlock *)
    pose proof (holder s t (T t)) as K. rewrite Hpc in K. specialize (K eq_refl).
    assert (B0 : bonus s = 0) by (apply (bonus_not_lock s t K); intros fl0; rewrite Hpc; discriminate).
    assert (o = OWN) by (apply (owned_is_OWN s t o I); rewrite Hpc; reflexivity). subst o.
    rewrite K, Hpc in g_lock0. cbn [locked_pc] in g_lock0. destruct g_lock0 as [_ (O & Ib & Wq)].
    assert (En : f_enq r = 1) by (apply g_enq0; rewrite K; discriminate).
    rewrite g_enc0 in B. change OWN with (18014398509481984 + 2199023255552 + 2147483648 * 1) in B.
    rewrite (unlock_fields r 1 g_wf0 g_hi0 Ib Wq) in B by lia.
    destruct (Z.eqb_spec (f_d r) 1) as [Dd|Dd]; injection B as <-.
    + match goal with |- Phi L ?s1 + 1 <= _ => set (s' := s1) end.
      assert (D : delta s s' t (PW_xor (18014398509481984 + 2199023255552 + 2147483648 * 1)) 0 0 0).
      { subst s'. constructor; cbn [pcs lst rootq set_pc]; try lia; try reflexivity. unfold dbit. cbn [st set_pc]. lia. }
      rewrite (Phi_delta L _ _ t _ _ _ _ ND Hin D). rewrite Hpc. cbn [phi].
      assert (B' : bonus s' = 0).
      { apply (bonus_not_lock s' t); [exact K|]. intros fl0. subst s'. cbn [pcs set_pc]. rewrite upd_same. discriminate. }
      lia.
    + set (r' := mk 0 0 (f_enq r - 1) 0 0 (f_role r) (f_em r) 0 (f_pb r) 4095 0 0) in *.
      assert (W' : wfr r') by (subst r'; apply wfr_mk; lia).
      match goal with |- Phi L ?s1 + 1 <= _ => set (s' := s1) end.
      assert (D : delta s s' t Idle 0 (- f_d r) 0).
      { subst s'. constructor; cbn [pcs lst rootq set_pc set_st set_token]; try lia; try reflexivity.
        rewrite Ds. unfold dbit. cbn [st set_pc set_st set_token]. rewrite dec_enc by exact W'. subst r'. unfold mk; cbn [f_d]. lia. }
      rewrite (Phi_delta L _ _ t _ _ _ _ ND Hin D). rewrite Hpc. cbn [phi].
      assert (B' : bonus s' = 0) by reflexivity. lia.
  - (* PW_xor *) injection B as <-.
    pose proof (holder s t (T t)) as K. rewrite Hpc in K. specialize (K eq_refl).
    assert (B0 : bonus s = 0) by (apply (bonus_not_lock s t K); intros fl0; rewrite Hpc; discriminate).
    assert (D1 : f_d r = 1) by (rewrite <- Ds; apply (X t o Hpc)).
    unfold DIRTY. rewrite g_enc0, (xor_dirty_fields r g_wf0).
    set (r' := mk (f_owner r) (f_tr r) (f_enq r) (f_mq r) (f_ov r) (f_role r) (f_em r) (1 - f_d r) (f_pb r) (f_wq r) (f_ib r) (f_hi r)).
    assert (W' : wfr r') by (subst r'; apply wfr_mk; lia).
    match goal with |- Phi L ?s1 + 1 <= _ => set (s' := s1) end.
    assert (D : delta s s' t (PW_tail o) 0 (-1) 0).
    { subst s'. constructor; cbn [pcs lst rootq set_pc set_st]; try lia; try reflexivity.
      rewrite Ds. unfold dbit. cbn [st set_pc set_st]. rewrite dec_enc by exact W'. subst r'. unfold mk; cbn [f_d]. lia. }
    rewrite (Phi_delta L _ _ t _ _ _ _ ND Hin D). rewrite Hpc. cbn [phi].
    assert (B' : bonus s' = 0).
    { apply (bonus_not_lock s' t); [exact K|]. intros fl0. subst s'. cbn [pcs set_pc set_st]. rewrite upd_same. discriminate. }
    lia.
Qed.

Lemma ostep_decreases s t s' :
  Inv s -> In t L -> ostep s t = Some s' -> Phi L s' + 1 <= Phi L s.
Proof.
  intros [[r G] T] Hin B. unfold ostep in B. destruct (pcs s t) eqn:Hpc; try discriminate.
  destruct was_empty; [discriminate|]. injection B as <-.
  assert (K : token s <> Some (Some t)) by (apply (not_holder s t (T t)); rewrite Hpc; reflexivity).
  match goal with |- Phi L ?s1 + 1 <= _ => set (s' := s1) end.
  assert (D : delta s s' t (PA_oprobe qos) 0 0 0).
  { subst s'. constructor; cbn [pcs lst rootq set_pc set_lst]; try lia; try reflexivity.
    - rewrite length_link. lia.
    - unfold dbit. cbn [st set_pc set_lst]. lia. }
  rewrite (Phi_delta L _ _ t _ _ _ _ ND Hin D). rewrite Hpc.
  rewrite (bonus_same s s'); [| reflexivity | reflexivity | intros w E; subst s'; cbn [pcs set_pc set_lst]; apply upd_other; congruence].
  cbn [phi]. lia.
Qed.

End Step.

(* ---------------------------------------------------------------- Inv3 is an invariant *)
Lemma holder_of_xor s u o : Inv s -> pcs s u = PW_xor o -> token s = Some (Some u).
Proof. intros [_ T] H. apply (holder s u (T u)). rewrite H. reflexivity. Qed.

Lemma gstep_to_xor s t s' o : Inv s -> gstep s t = Some s' -> pcs s' t = PW_xor o -> dbit s' = 1.
Proof.
  intros I B H. pose proof I as I0. destruct I0 as [[r G] T].
  unfold gstep in B. destruct (pcs s t) as [|q|i we q|q|q tg| |q|q|fl|ow|ow|ow|ow i m|ow i m|ow m|ow|ow] eqn:Hpc.
  all: try discriminate.
  all: try solve [exfalso;
    repeat match type of B with
           | context [match ?x with _ => _ end] => destruct x; try discriminate
           end;
    injection B as <-;
    cbn [pcs set_pc set_st set_lst set_rootq set_token set_wakers] in H; rewrite upd_same in H; discriminate].
  (* what is left is PW_unlock *)
  pose proof (g_enc s r G) as g_enc0. pose proof (g_wf s r G) as g_wf0. pose proof (g_lock s r G) as g_lock0.
  pose proof (g_enq s r G) as g_enq0. pose proof (g_hi s r G) as g_hi0.
  pose proof g_wf0 as W. unfold wfr in W.
  pose proof (holder s t (T t)) as K. rewrite Hpc in K. specialize (K eq_refl).
  assert (ow = OWN) by (apply (owned_is_OWN s t ow I); rewrite Hpc; reflexivity). subst ow.
  rewrite K, Hpc in g_lock0. cbn [locked_pc] in g_lock0. destruct g_lock0 as [_ (O & Ib & Wq)].
  assert (En : f_enq r = 1) by (apply g_enq0; rewrite K; discriminate).
  rewrite g_enc0 in B. change OWN with (18014398509481984 + 2199023255552 + 2147483648 * 1) in B.
  rewrite (unlock_fields r 1 g_wf0 g_hi0 Ib Wq) in B by lia.
  destruct (Z.eqb_spec (f_d r) 1) as [Dd|Dd]; injection B as <-.
  - unfold dbit. cbn [st set_pc]. rewrite g_enc0, dec_enc by exact g_wf0. exact Dd.
  - cbn [pcs set_pc set_st set_token] in H. rewrite upd_same in H. discriminate.
Qed.

Lemma gstep_word s t s' : Inv s -> gstep s t = Some s' -> dbit s' = dbit s \/ dbit s' = 1 \/ token_pc (pcs s t) = true.
Proof.
  intros I B. pose proof I as I0. destruct I0 as [[r G] T].
  pose proof (g_enc s r G) as g_enc0. pose proof (g_wf s r G) as g_wf0. pose proof g_wf0 as W. unfold wfr in W.
  unfold gstep in B. destruct (pcs s t) as [|q|i we q|q|q tg| |q|q|fl|ow|ow|ow|ow i m|ow i m|ow m|ow|ow] eqn:Hpc.
  all: try discriminate.
  all: try (right; right; reflexivity).
  - left. injection B as <-. reflexivity.
  - left. injection B as <-. reflexivity.
  - left. injection B as <-. destruct (lst s); reflexivity.
  - right. left.
    destruct (T t) as (_ & _ & _ & T4). rewrite Hpc in T4. pose proof (T4 q eq_refl) as Q.
    rewrite g_enc0 in B. unfold ENQUEUED in B.
    rewrite (wakeup_fields r q 3 1 g_wf0 Q eq_refl) in B. cbv zeta in B.
    pose proof (merged_wf r q g_wf0 Q) as Wm. unfold wfr in Wm.
    set (m := merged r q) in *.
    set (e' := if can_enqueue r then 1 else f_enq m) in *.
    assert (He' : 0 <= e' < 2) by (subst e'; destruct (can_enqueue r); lia).
    set (r' := mk (f_owner m) (f_tr m) e' (f_mq m) (f_ov m) (f_role m) (f_em m) 1 (f_pb m) (f_wq m) (f_ib m) (f_hi m)) in *.
    assert (W' : wfr r') by (subst r'; apply wfr_mk; lia).
    cbv iota beta in B.
    destruct (negb (Z.land (Z.lxor (enc r) (enc r')) 2147483648 =? 0)); injection B as <-;
      unfold dbit; cbn [st set_pc set_wakers set_token set_st]; rewrite dec_enc by exact W'; reflexivity.
  - left. injection B as <-. destruct (lst s); reflexivity.
  - left.
    destruct (T t) as (_ & _ & _ & T4). rewrite Hpc in T4. pose proof (T4 q eq_refl) as Q.
    rewrite g_enc0 in B. unfold ENQUEUED in B.
    rewrite (wakeup_fields_plain r q 1 1 g_wf0 Q eq_refl) in B. cbv zeta in B.
    pose proof (merged_wf r q g_wf0 Q) as Wm. unfold wfr in Wm.
    destruct (merged_same r q) as (M1 & M2 & M3 & M4 & M5 & M6 & M7 & M8 & M9 & M10).
    set (m := merged r q) in *.
    set (e' := if can_enqueue r then 1 else f_enq m) in *.
    assert (He' : 0 <= e' < 2) by (subst e'; destruct (can_enqueue r); lia).
    set (r' := mk (f_owner m) (f_tr m) e' (f_mq m) (f_ov m) (f_role m) (f_em m) (f_d m) (f_pb m) (f_wq m) (f_ib m) (f_hi m)) in *.
    assert (W' : wfr r') by (subst r'; apply wfr_mk; lia).
    destruct (enc r' =? enc r); [injection B as <-; reflexivity|].
    cbv iota beta in B.
    destruct (negb (Z.land (Z.lxor (enc r) (enc r')) 2147483648 =? 0)); injection B as <-;
      unfold dbit; cbn [st set_pc set_token set_st]; rewrite g_enc0, !dec_enc by assumption; subst r'; unfold mk; cbn [f_d]; exact M6.
Qed.

Lemma XD_step s t s' : Inv3 s -> valid_tid t -> gstep s t = Some s' -> XD s'.
Proof.
  intros [I X] V B u o H.
  destruct (Z.eq_dec u t) as [->|N]; [exact (gstep_to_xor s t s' o I B H)|].
  rewrite (gstep_frame s t s' u B N) in H.
  destruct (gstep_word s t s' I B) as [E|[E|E]].
  - rewrite E. exact (X u o H).
  - exact E.
  - exfalso. destruct I as [_ T]. pose proof (holder s t (T t) E). pose proof (holder s u (T u)) as Ku. rewrite H in Ku. specialize (Ku eq_refl). congruence.
Qed.

Lemma XD_begin s t c s' : Inv3 s -> begin s t c = Some s' -> XD s'.
Proof.
  intros [I X] B u o H.
  assert (E : st s' = st s).
  { unfold begin in B. destruct (pcs s t); try discriminate. destruct c.
    - destruct ((0 <=? qos) && (qos <? 8)); [|discriminate]. injection B as <-. reflexivity.
    - destruct (0 <? rootq s); [|discriminate]. injection B as <-. reflexivity. }
  destruct (Z.eq_dec u t) as [->|N].
  - exfalso. unfold begin in B. destruct (pcs s t); try discriminate. destruct c.
    + destruct ((0 <=? qos) && (qos <? 8)); [|discriminate]. injection B as <-. cbn [pcs set_pc] in H. rewrite upd_same in H. discriminate.
    + destruct (0 <? rootq s); [|discriminate]. injection B as <-. cbn [pcs set_pc set_token set_rootq] in H. rewrite upd_same in H. discriminate.
  - rewrite (begin_frame s t c s' u B N) in H. unfold dbit. rewrite E. exact (X u o H).
Qed.

Lemma XD_ostep s t s' : Inv3 s -> ostep s t = Some s' -> XD s'.
Proof.
  intros [I X] B u o H.
  assert (E : st s' = st s /\ pcs s' t <> PW_xor o).
  { unfold ostep in B. destruct (pcs s t); try discriminate. destruct was_empty; [discriminate|]. injection B as <-.
    split; [reflexivity|]. cbn [pcs set_pc set_lst]. rewrite upd_same. discriminate. }
  destruct E as [E Nx].
  destruct (Z.eq_dec u t) as [->|N]; [contradiction|].
  rewrite (ostep_frame s t s' u B N) in H. unfold dbit. rewrite E. exact (X u o H).
Qed.

Theorem step3_preserves s a s' : Inv3 s -> step s a s' -> Inv3 s'.
Proof.
  intros I3 St. split; [exact (step_preserves s a s' (proj1 I3) St)|].
  destruct a as [t c|t|t]; destruct St as [V B];
    [exact (XD_begin s t c s' I3 B) | exact (XD_step s t s' I3 V B) | exact (XD_ostep s t s' I3 B)].
Qed.

Theorem Inv3_reachable rb s : 0 <= rb < 2 -> reach rb s -> Inv3 s.
Proof.
  intros Hrb. apply invariant_lift.
  - intros s0 ->. split; [apply Inv_init; exact Hrb|]. intros t o H. unfold init_state in H. cbn [pcs] in H. discriminate.
  - intros s1 a s2 I H. exact (step3_preserves s1 a s2 I H).
Qed.

(* ---------------------------------------------------------------- the bound on executions *)
Lemma Phi_nonneg L s : Inv s -> 0 <= Phi L s.
Proof.
  intros [[r G] _]. unfold Phi.
  pose proof (sumL_nonneg (fun u => phi (pcs s u)) L (fun u => phi_nonneg (pcs s u))).
  pose proof (bonus_range s). pose proof (g_rootq s r G) as Rq.
  assert (0 <= rootq s) by (destruct (token s) as [[w|]|]; lia).
  assert (0 <= dbit s) by (unfold dbit; pose proof (wfr_dec (st s)) as W; unfold wfr in W; lia).
  lia.
Qed.

Definition is_async_begin (a : action) : bool := match a with ABegin _ (CAsync _) => true | _ => false end.
Fixpoint n_async (acts : list action) : Z :=
  match acts with [] => 0 | a :: r => (if is_async_begin a then 1 else 0) + n_async r end.
Fixpoint n_other (acts : list action) : Z :=
  match acts with [] => 0 | a :: r => (if is_async_begin a then 0 else 1) + n_other r end.

Lemma covers_step L s a s' : covers L s -> In (act_tid a) L -> step s a s' -> covers L s'.
Proof.
  intros C Hin St u Hu. assert (N : u <> act_tid a) by (intros ->; contradiction).
  destruct a as [t c|t|t]; destruct St as [_ B]; cbn [act_tid] in *.
  - rewrite (begin_frame s t c s' u B N). apply C. exact Hu.
  - rewrite (gstep_frame s t s' u B N). apply C. exact Hu.
  - rewrite (ostep_frame s t s' u B N). apply C. exact Hu.
Qed.

(* every action other than a new dispatch_async costs at least one unit of potential; a dispatch_async adds 32 *)
Theorem execution_bound L : NoDup L -> forall acts s s',
  Inv3 s -> forallb act_valid acts = true -> (forall a, In a acts -> In (act_tid a) L) ->
  run s acts = Some s' ->
  Inv3 s' /\ n_other acts <= Phi L s - Phi L s' + 32 * n_async acts.
Proof.
  intros ND. induction acts as [|a acts IH]; intros s s' I3 V Hin E.
  - cbn [run] in E. injection E as <-. cbn [n_other n_async]. split; [exact I3 | lia].
  - cbn [forallb] in V. apply andb_true_iff in V. destruct V as [Va V].
    assert (Vt : valid_tid (act_tid a)).
    { destruct a; cbn [act_valid act_tid] in *; apply andb_true_iff in Va; destruct Va as [A B]; apply Z.ltb_lt in A; apply Z.ltb_lt in B; split; assumption. }
    assert (HinA : In (act_tid a) L) by (apply Hin; left; reflexivity).
    cbn [run] in E. cbn [n_other n_async].
    destruct a as [t c|t|t]; cbn [act_tid] in *.
    + destruct (begin s t c) as [s1|] eqn:B; [|discriminate].
      assert (St : step s (ABegin t c) s1) by (split; assumption).
      pose proof (step3_preserves s _ s1 I3 St) as I31.
      destruct (IH s1 s' I31 V (fun a Ha => Hin a (or_intror Ha)) E) as [I3' Hb]. split; [exact I3'|].
      destruct c as [q|f]; cbn [is_async_begin].
      * pose proof (begin_async_raises L ND s t q s1 (proj1 I3) HinA B). lia.
      * pose proof (begin_worker_decreases L ND s t f s1 (proj1 I3) HinA B). lia.
    + destruct (gstep s t) as [s1|] eqn:B; [|discriminate].
      assert (St : step s (AStep t) s1) by (split; assumption).
      pose proof (step3_preserves s _ s1 I3 St) as I31.
      destruct (IH s1 s' I31 V (fun a Ha => Hin a (or_intror Ha)) E) as [I3' Hb]. split; [exact I3'|].
      cbn [is_async_begin]. pose proof (step_decreases L ND s t s1 I3 Vt HinA B). lia.
    + destruct (ostep s t) as [s1|] eqn:B; [|discriminate].
      assert (St : step s (AStepO t) s1) by (split; assumption).
      pose proof (step3_preserves s _ s1 I3 St) as I31.
      destruct (IH s1 s' I31 V (fun a Ha => Hin a (or_intror Ha)) E) as [I3' Hb]. split; [exact I3'|].
      cbn [is_async_begin]. pose proof (ostep_decreases L ND s t s1 (proj1 I3) HinA B). lia.
Qed.

(* in particular from any reachable state: the number of steps that are not new submissions is bounded *)
Corollary no_livelock L rb s acts s' :
  NoDup L -> 0 <= rb < 2 -> reach rb s -> forallb act_valid acts = true -> (forall a, In a acts -> In (act_tid a) L) ->
  run s acts = Some s' -> n_other acts <= Phi L s + 32 * n_async acts.
Proof.
  intros ND Hrb R V Hin E.
  destruct (execution_bound L ND acts s s' (Inv3_reachable rb s Hrb R) V Hin E) as [I3' Hb].
  pose proof (Phi_nonneg L s' (proj1 I3')). lia.
Qed.

(* ---------------------------------------------------------------- the end of every maximal execution *)
Lemma nonidle_valid rb s : reach rb s -> forall t, pcs s t <> Idle -> valid_tid t.
Proof.
  apply (invariant_lift (fun s0 => s0 = init_state rb) step (fun s0 => forall t, pcs s0 t <> Idle -> valid_tid t)).
  - intros s0 -> t H. unfold init_state in H; cbn in H. congruence.
  - intros s1 a s2 IH St t H. destruct a as [u c|u|u]; destruct St as [V B]; destruct (Z.eq_dec t u) as [->|N]; try exact V.
    + rewrite (begin_frame s1 u c s2 t B N) in H. apply IH. exact H.
    + rewrite (gstep_frame s1 u s2 t B N) in H. apply IH. exact H.
    + rewrite (ostep_frame s1 u s2 t B N) in H. apply IH. exact H.
Qed.

(* a state in which no thread can step and the lane does not sit in its target queue: everything submitted has run,
   exactly once, in order *)
Theorem nothing_enabled_all_done rb s :
  0 <= rb < 2 -> reach rb s -> (forall t, valid_tid t -> gstep s t = None) -> rootq s = 0 ->
  lst s = [] /\ rev (started s) = zrange (nextid s) /\ running s = None.
Proof.
  intros Hrb R Hn Z0. apply (quiescent_all_done rb s Hrb R); [|exact Z0].
  intros t. destruct (pcs s t) eqn:Hpc; try reflexivity; exfalso.
  all: assert (NI : pcs s t <> Idle) by (rewrite Hpc; discriminate);
       pose proof (nonidle_valid rb s R t NI) as Vt;
       destruct (no_stuck_thread rb s t Hrb R Vt NI) as [[s1 E]|(u & _ & [s1 E])];
       [rewrite (Hn t Vt) in E; discriminate|];
       assert (NIu : pcs s u <> Idle) by (intros Hu; unfold gstep in E; rewrite Hu in E; discriminate);
       rewrite (Hn u (nonidle_valid rb s R u NIu)) in E; discriminate.
Qed.

(* ... and if it does sit there, a worker can pick it up (so "nothing enabled" includes the worker pool having given up) *)
Theorem worker_can_begin s t f : pcs s t = Idle -> rootq s = 1 -> exists s', begin s t (CWorker f) = Some s'.
Proof. intros H R. unfold begin. rewrite H, R. cbn. eexists. reflexivity. Qed.
