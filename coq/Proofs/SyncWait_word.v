(* SyncWait_word.v — the dq_state word of the synchronous hand-off model as "who holds the drain lock / is the lane
   enqueued", and what each generated rmw body does to that abstraction (from the field-level specifications of
   Lane_fields.v / SyncWait_fields.v).  These are the only facts about the generated bodies the protocol proof uses. *)
From Coq Require Import ZArith Bool List Lia.
From Verif Require Import Word Bits Fields DqFields Conc Gen_consts Gen_dqstate Gen_lanesites Lane_fields SyncWait
  SyncWait_fields.
Import ListNotations.
Local Open Scope Z_scope.

Definition stat (r : dqf) : Prop := f_tr r = 0 /\ f_em r = 0 /\ f_pb r = 0 /\ f_hi r = 0 /\ f_role r = 1.
Definition lockrel (r : dqf) (ho : option Z) : Prop :=
  match ho with
  | None => f_owner r = 0 /\ f_ib r = 0 /\ f_wq r = 4095
  | Some h => f_owner r = h /\ 0 < h /\ f_ib r = 1 /\ f_wq r = 4096
  end.
Definition wordinv (w : Z) (ho : option Z) (tk : bool) : Prop :=
  exists r, w = enc r /\ wfr r /\ stat r /\ lockrel r ho /\ f_enq r = (if tk then 1 else 0).

Definition OWN := 18014398509481984 + 2199023255552 + 2147483648.

Lemma init_word_inv : wordinv init_word None false.
Proof.
  exists (mk 0 0 0 0 0 1 0 0 0 4095 0 0). unfold init_word, DISPATCH_QUEUE_ROLE_BASE_ANON.
  split; [rewrite enc_linear; unfold mk; cbn [f_owner f_tr f_enq f_mq f_ov f_role f_em f_d f_pb f_wq f_ib f_hi];
          rewrite Z.shiftl_mul_pow2 by lia; change (2 ^ 41) with 2199023255552; lia|].
  unfold wfr, stat, lockrel, mk; cbn. repeat split; lia.
Qed.

(* the bit tests the automaton makes on (old, new) *)
Lemma land_enq_f r : wfr r -> Z.land (enc r) 2147483648 = 2147483648 * f_enq r.
Proof.
  intros W. pose proof W as W'. unfold wfr in W'. rewrite enc_vec. vec_land 2147483648. fsimp. rewrite vec_linear. lia.
Qed.
Lemma land_inb_f r : wfr r -> Z.land (enc r) 18014398509481984 = 18014398509481984 * f_ib r.
Proof.
  intros W. pose proof W as W'. unfold wfr in W'. rewrite enc_vec. vec_land 18014398509481984. fsimp. rewrite vec_linear. lia.
Qed.
Lemma lxor_bit01 a b : 0 <= a < 2 -> 0 <= b < 2 -> Z.lxor a b = if a =? b then 0 else 1.
Proof. intros Ha Hb. assert (a = 0 \/ a = 1) as [->| ->] by lia; assert (b = 0 \/ b = 1) as [->| ->] by lia; reflexivity. Qed.

Lemma lxor_wfv r1 r2 : wfr r1 -> wfr r2 -> wfv LAY (map2 Z.lxor (vec r1) (vec r2)).
Proof. intros W1 W2. apply (wfv_map2 Z.lxor lxor_small); apply wfr_wfv; assumption. Qed.

Lemma changed_enq r1 r2 : wfr r1 -> wfr r2 -> changed (enc r1) (enc r2) ENQ = negb (f_enq r1 =? f_enq r2).
Proof.
  intros W1 W2. pose proof W1 as W1'. pose proof W2 as W2'. unfold wfr in W1', W2'.
  unfold changed, ENQ, DISPATCH_QUEUE_ENQUEUED. unfold enc. rewrite encode_lxor by (apply wfr_wfv; assumption).
  rewrite (land_vec_const _ 2147483648) by first [apply lxor_wfv; assumption | lia].
  change (decode LAY 2147483648) with [0;0;1;0;0;0;0;0;0;0;0;0]. unfold vec. cbn [map2]. fsimp.
  rewrite (lxor_bit01 (f_enq r1) (f_enq r2)) by lia. rewrite vec_linear.
  destruct (f_enq r1 =? f_enq r2); reflexivity.
Qed.

Lemma changed_inb r1 r2 : wfr r1 -> wfr r2 -> changed (enc r1) (enc r2) INB = negb (f_ib r1 =? f_ib r2).
Proof.
  intros W1 W2. pose proof W1 as W1'. pose proof W2 as W2'. unfold wfr in W1', W2'.
  unfold changed, INB, DISPATCH_QUEUE_IN_BARRIER. unfold enc. rewrite encode_lxor by (apply wfr_wfv; assumption).
  rewrite (land_vec_const _ 18014398509481984) by first [apply lxor_wfv; assumption | lia].
  change (decode LAY 18014398509481984) with [0;0;0;0;0;0;0;0;0;0;1;0]. unfold vec. cbn [map2]. fsimp.
  rewrite (lxor_bit01 (f_ib r1) (f_ib r2)) by lia. rewrite vec_linear.
  destruct (f_ib r1 =? f_ib r2); reflexivity.
Qed.

(* ---- the witness of wordinv is unique ---- *)
Lemma wordinv_unique w ho tk r : wordinv w ho tk -> w = enc r -> wfr r ->
  stat r /\ lockrel r ho /\ f_enq r = (if tk then 1 else 0).
Proof.
  intros (r0 & E0 & W0 & S0 & L0 & Q0) E W. assert (r0 = r) by (apply enc_inj; congruence). subst r0. auto.
Qed.

Definition is_some {A} (o : option A) : bool := match o with Some _ => true | None => false end.

Lemma Commit_inj a b c d : Commit a b = Commit c d -> a = c /\ b = d.
Proof. intros H. split; congruence. Qed.

Lemma wordinv_changed_enq w ho tk w' ho' tk' : wordinv w ho tk -> wordinv w' ho' tk' ->
  changed w w' ENQ = negb (Bool.eqb tk tk').
Proof.
  intros (r & -> & W & _ & _ & Q) (r' & -> & W' & _ & _ & Q'). rewrite changed_enq by assumption. rewrite Q, Q'.
  destruct tk, tk'; reflexivity.
Qed.
Lemma lockrel_ib r ho : lockrel r ho -> f_ib r = if is_some ho then 1 else 0.
Proof. destruct ho; cbn; intros H; lia. Qed.
Lemma wordinv_changed_inb w ho tk w' ho' tk' : wordinv w ho tk -> wordinv w' ho' tk' ->
  changed w w' INB = negb (Bool.eqb (is_some ho) (is_some ho')).
Proof.
  intros (r & -> & W & _ & L & _) (r' & -> & W' & _ & L' & _). rewrite changed_inb by assumption.
  rewrite (lockrel_ib _ _ L), (lockrel_ib _ _ L'). destruct (is_some ho), (is_some ho'); reflexivity.
Qed.
Lemma wordinv_enq_bit w ho tk : wordinv w ho tk -> nz (Z.land w ENQ) = tk.
Proof.
  intros (r & -> & W & _ & _ & Q). unfold ENQ, DISPATCH_QUEUE_ENQUEUED. rewrite land_enq_f by exact W. rewrite Q.
  destruct tk; reflexivity.
Qed.
Lemma wordinv_owner w h tk : wordinv w (Some h) tk -> Z.land w OWNER_MASK = h /\ 0 < h < 1073741824.
Proof.
  intros (r & -> & W & _ & L & _). pose proof W as W'. unfold wfr in W'. cbn in L. destruct L as (Lo & Lh & _).
  unfold OWNER_MASK, DLOCK_OWNER_MASK. rewrite enc_vec. vec_land 1073741823. fsimp. rewrite vec_linear. lia.
Qed.

Lemma in_qoss q : In q qoss -> 0 <= q < 8.
Proof. unfold qoss. cbn. intros H. repeat (destruct H as [<-|H]; [lia|]). contradiction. Qed.
Lemma ex_commit_elim f new : ex_commit f new = true -> exists q x, 0 <= q < 8 /\ f q = Commit new x.
Proof.
  unfold ex_commit. rewrite existsb_exists. intros (q & Hq & H). apply in_qoss in Hq.
  destruct (f q) as [n x| | |] eqn:E; try discriminate. apply Z.eqb_eq in H. subst n. exists q, x. auto.
Qed.

(* ---- what each body does to (holder, enqueued) ---- *)
Lemma t_fast w ho tk self new x : wordinv w ho tk -> 0 < self < 1073741824 -> b_fast self w = Commit new x ->
  ho = None /\ tk = false /\ wordinv new (Some self) false.
Proof.
  intros (r & -> & W & S & L & Q) Hs H. rewrite fast_fields in H by assumption.
  destruct (idle_r r) eqn:I; [|discriminate]. apply Commit_inj in H as [<- _].
  unfold idle_r in I. rewrite !andb_true_iff, !Z.eqb_eq in I. destruct I as [[[[[[[[[[I1 I2] I3] I4] I5] I6] I7] I8] I9] I10] I11].
  destruct S as (S1 & S2 & S3 & S4 & S5).
  split; [destruct ho as [h|]; [cbn in L; lia|reflexivity]|].
  split; [destruct tk; [lia|reflexivity]|].
  exists (mk self 0 0 0 0 (f_role r) 0 0 0 4096 1 0). split; [reflexivity|].
  unfold wfr, stat, lockrel, mk; cbn. repeat split; lia.
Qed.

Lemma t_bunlock w h tk new x : wordinv w (Some h) tk -> b_unlock w = Commit new x -> tk = false /\ wordinv new None false.
Proof.
  intros (r & -> & W & S & L & Q) H. cbn in L. destruct L as (L1 & L2 & L3 & L4). pose proof W as W'. unfold wfr in W'.
  rewrite bunlock_fields in H by assumption. destruct (unlock_clean r) eqn:C; [|discriminate]. apply Commit_inj in H as [<- _].
  unfold unlock_clean in C. rewrite !andb_true_iff, !Z.eqb_eq in C. destruct C as [[[[C1 C2] C3] C4] C5].
  destruct S as (S1 & S2 & S3 & S4 & S5).
  split; [destruct tk; [lia|reflexivity]|].
  exists (mk 0 0 0 0 0 (f_role r) (f_em r) 0 (f_pb r) 4095 0 0). split; [reflexivity|].
  unfold wfr, stat, lockrel, mk; cbn. repeat split; lia.
Qed.

Lemma t_dbw0 w h tk w' new x : wordinv w (Some h) tk -> 0 < w' < 1073741824 -> b_dbw 0 w w' = Commit new x ->
  wordinv new (Some w') tk.
Proof.
  intros (r & -> & W & S & L & Q) Hw H. cbn in L. destruct L as (L1 & L2 & L3 & L4). pose proof W as W'. unfold wfr in W'.
  destruct S as (S1 & S2 & S3 & S4 & S5).
  assert (H' : b_dbw (2147483648 * 0) (enc r) w' = Commit new x) by exact H. clear H.
  rewrite dbw_fields in H' by (assumption || lia). apply Commit_inj in H' as [<- _].
  eexists. split; [reflexivity|]. unfold wfr, stat, lockrel, mk; cbn. rewrite Z.sub_0_r. repeat split; try lia.
Qed.

Lemma t_dbw1 w h w' new x : wordinv w (Some h) true -> 0 < w' < 1073741824 -> b_dbw ENQ w w' = Commit new x ->
  wordinv new (Some w') false.
Proof.
  intros (r & -> & W & S & L & Q) Hw H. cbn in L. destruct L as (L1 & L2 & L3 & L4). pose proof W as W'. unfold wfr in W'.
  destruct S as (S1 & S2 & S3 & S4 & S5).
  assert (H' : b_dbw (2147483648 * 1) (enc r) w' = Commit new x) by exact H. clear H.
  rewrite dbw_fields in H' by (assumption || lia). apply Commit_inj in H' as [<- _].
  eexists. split; [reflexivity|]. unfold wfr, stat, lockrel, mk; cbn. rewrite Q. repeat split; try lia.
Qed.

Lemma t_cbc_enq w h tk q new x : wordinv w (Some h) tk -> 0 <= q < 8 -> b_cbc ENQ w q = Commit new x ->
  wordinv new None true.
Proof.
  intros (r & -> & W & S & L & Q) Hq H. cbn in L. destruct L as (L1 & L2 & L3 & L4). pose proof W as W'. unfold wfr in W'.
  destruct S as (S1 & S2 & S3 & S4 & S5).
  rewrite cbc_fields_enq in H by assumption. cbv zeta in H. apply Commit_inj in H as [<- _].
  pose proof (merged_wf (unown r) q (unown_wf r W) Hq) as Wm. unfold wfr in Wm.
  eexists. split; [reflexivity|]. unfold wfr, stat, lockrel, mk; cbn.
  rewrite S2. change (0 =? 0) with true. destruct (f_enq r =? 0) eqn:E; cbn [andb]; [|apply Z.eqb_neq in E]; repeat split; try lia.
Qed.

Lemma t_cbc_none w h tk q new x : wordinv w (Some h) tk -> 0 <= q < 8 -> b_cbc 0 w q = Commit new x ->
  wordinv new None tk.
Proof.
  intros (r & -> & W & S & L & Q) Hq H. cbn in L. destruct L as (L1 & L2 & L3 & L4). pose proof W as W'. unfold wfr in W'.
  destruct S as (S1 & S2 & S3 & S4 & S5).
  rewrite cbc_fields_none in H by assumption. destruct (f_d r =? 1); [discriminate|]. apply Commit_inj in H as [<- _].
  eexists. split; [reflexivity|]. unfold wfr, stat, lockrel, mk; cbn. repeat split; try lia.
Qed.

Lemma merged_keeps r q :
  f_owner (merged r q) = f_owner r /\ f_tr (merged r q) = f_tr r /\ f_enq (merged r q) = f_enq r /\
  f_role (merged r q) = f_role r /\ f_em (merged r q) = f_em r /\ f_d (merged r q) = f_d r /\
  f_pb (merged r q) = f_pb r /\ f_wq (merged r q) = f_wq r /\ f_ib (merged r q) = f_ib r /\ f_hi (merged r q) = f_hi r.
Proof. unfold merged. destruct (f_mq r <? q); cbn; repeat split; reflexivity. Qed.

Lemma t_pushw w ho tk self q new x : wordinv w ho tk -> 0 < self < 1073741824 -> 0 <= q < 8 ->
  b_pushw self w q = Commit new x ->
  match ho with None => wordinv new (Some self) tk | Some _ => wordinv new ho tk end.
Proof.
  intros (r & -> & W & S & L & Q) Hs Hq H. pose proof W as W'. unfold wfr in W'.
  destruct S as (S1 & S2 & S3 & S4 & S5).
  pose proof (merged_wf r q W Hq) as Wm. pose proof (merged_keeps r q) as (M1 & M2 & M3 & M4 & M5 & M6 & M7 & M8 & M9 & M10).
  destruct ho as [h|]; cbn in L.
  - destruct L as (L1 & L2 & L3 & L4). rewrite pushw_held in H by (assumption || lia). apply Commit_inj in H as [<- _].
    exists (dirtied (merged r q)). split; [reflexivity|]. unfold wfr in Wm.
    unfold wfr, stat, lockrel, dirtied, mk; cbn. rewrite M1, M2, M3, M4, M5, M7, M8, M9, M10. repeat split; try lia.
  - destruct L as (L1 & L2 & L3). rewrite pushw_free in H by (assumption || lia). apply Commit_inj in H as [<- _].
    unfold wfr in Wm.
    eexists. split; [reflexivity|]. unfold wfr, stat, lockrel, mk; cbn. repeat split; try lia.
Qed.

Lemma t_wakeup w ho tk f q new x : wordinv w ho tk -> 0 <= q < 8 -> b_wakeup f w q = Commit new x ->
  wordinv new ho (match ho with None => true | Some _ => tk end).
Proof.
  intros (r & -> & W & S & L & Q) Hq H. pose proof W as W'. unfold wfr in W'.
  destruct S as (S1 & S2 & S3 & S4 & S5).
  pose proof (merged_wf r q W Hq) as Wm. pose proof (merged_keeps r q) as (M1 & M2 & M3 & M4 & M5 & M6 & M7 & M8 & M9 & M10).
  unfold wfr in Wm.
  assert (CE : can_enqueue r = match ho with None => negb tk | Some _ => false end).
  { unfold can_enqueue. rewrite S4, S2, S5. change (0 =? 0) with true. change (2 <=? 1) with false. cbn [andb orb].
    rewrite orb_false_r. destruct ho as [h|]; cbn in L.
    - destruct (Z.eqb_spec (f_owner r) 0); [lia|]. apply andb_false_r.
    - destruct L as (-> & _). change (0 =? 0) with true. rewrite andb_true_r. rewrite Q. destruct tk; reflexivity. }
  unfold b_wakeup, ENQ, DISPATCH_QUEUE_ENQUEUED in H.
  destruct (nz (Z.land f 2)) eqn:F.
  - rewrite wakeup_fields in H by assumption. cbv zeta in H. apply Commit_inj in H as [<- _].
    eexists. split; [reflexivity|]. rewrite CE.
    unfold wfr, stat, lockrel, mk; cbn. rewrite M1, M2, M3, M4, M5, M7, M8, M9, M10.
    destruct ho as [h|]; cbn in L |- *; [|destruct tk; cbn [negb]]; repeat split; try lia.
  - rewrite wakeup_fields_plain in H by assumption. cbv zeta in H.
    match type of H with (if ?c then _ else _) = _ => destruct c; [discriminate|] end. apply Commit_inj in H as [<- _].
    eexists. split; [reflexivity|]. rewrite CE.
    unfold wfr, stat, lockrel, mk; cbn. rewrite M1, M2, M3, M4, M5, M6, M7, M8, M9, M10.
    destruct ho as [h|]; cbn in L |- *; [|destruct tk; cbn [negb]]; repeat split; try lia.
Qed.

Lemma t_lock w ho tk self fl new owned : wordinv w ho tk -> 0 < self < 1073741824 -> b_lock self fl w = Commit new owned ->
  match ho with
  | None => wordinv new (Some self) tk /\ owned = 18014398509481984 + 2199023255552 + (if tk then 2147483648 else 0)
  | Some _ => wordinv new ho (negb tk) /\ owned = 0
  end.
Proof.
  intros (r & -> & W & S & L & Q) Hs H. pose proof W as W'. unfold wfr in W'.
  destruct S as (S1 & S2 & S3 & S4 & S5).
  unfold b_lock in H. rewrite lock_fields in H by assumption.
  assert (LF : lock_free r = negb (is_some ho)).
  { unfold lock_free. rewrite S2, S4. change (0 =? 0) with true. destruct ho as [h|]; cbn in L |- *.
    - destruct (Z.eqb_spec (f_owner r) 0); [lia|]. reflexivity.
    - destruct L as (-> & -> & ->). reflexivity. }
  rewrite LF in H. destruct ho as [h|]; cbn [is_some negb] in H.
  - apply Commit_inj in H as [<- <-]. split; [|reflexivity]. cbn in L. rewrite Q.
    destruct tk; [change (1 - 1) with 0|change (1 - 0) with 1]; cbn [negb];
      (eexists; split; [reflexivity|]); unfold wfr, stat, lockrel, mk; cbn; repeat split; try lia.
  - match type of H with (if ?c then _ else _) = _ => destruct c; [discriminate|] end. apply Commit_inj in H as [<- <-].
    cbn in L. destruct L as (L1 & L2 & L3). split.
    + eexists. split; [reflexivity|]. unfold wfr, stat, lockrel, mk; cbn. repeat split; try lia.
    + rewrite Q, L3. destruct tk; lia.
Qed.

Lemma t_lock_restart_free w ho tk self fl : wordinv w ho tk -> 0 < self < 1073741824 ->
  (exists xs, b_lock self fl w = Restart xs) -> ho = None.
Proof.
  intros (r & -> & W & S & L & Q) Hs (xs & H). destruct S as (S1 & S2 & S3 & S4 & S5).
  unfold b_lock in H. rewrite lock_fields in H by assumption.
  destruct ho as [h|]; [|reflexivity]. exfalso. cbn in L.
  assert (LF : lock_free r = false).
  { unfold lock_free. destruct (Z.eqb_spec (f_owner r) 0); [lia|]. reflexivity. }
  rewrite LF in H. discriminate.
Qed.

Lemma t_dunlock w h new x : wordinv w (Some h) true -> b_dunlock OWN w = Commit new x -> wordinv new None false.
Proof.
  intros (r & -> & W & S & L & Q) H. cbn in L. destruct L as (L1 & L2 & L3 & L4). pose proof W as W'. unfold wfr in W'.
  destruct S as (S1 & S2 & S3 & S4 & S5).
  unfold b_dunlock, OWN in H. change 2147483648 with (2147483648 * 1) in H at 1.
  rewrite unlock_fields in H by (assumption || lia). destruct (f_d r =? 1); [discriminate|]. apply Commit_inj in H as [<- _].
  eexists. split; [reflexivity|]. unfold wfr, stat, lockrel, mk; cbn. rewrite Q. repeat split; try lia.
Qed.

Lemma t_dunlock_giveup w h : wordinv w (Some h) true ->
  match b_dunlock OWN w with Commit _ _ => True | NoCommit _ xs => xs = [AXor 0 549755813888 Acquire] | _ => False end.
Proof.
  intros (r & -> & W & S & L & Q). cbn in L. destruct L as (L1 & L2 & L3 & L4). pose proof W as W'. unfold wfr in W'.
  destruct S as (S1 & S2 & S3 & S4 & S5).
  unfold b_dunlock, OWN. change 2147483648 with (2147483648 * 1) at 1.
  rewrite unlock_fields by (assumption || lia). destruct (f_d r =? 1); [reflexivity|exact I].
Qed.

Lemma t_xor w ho tk : wordinv w ho tk -> wordinv (Z.lxor w DIRTY) ho tk.
Proof.
  intros (r & -> & W & S & L & Q). pose proof W as W'. unfold wfr in W'. destruct S as (S1 & S2 & S3 & S4 & S5).
  unfold DIRTY, DISPATCH_QUEUE_DIRTY. rewrite xor_dirty_fields by exact W.
  eexists. split; [reflexivity|]. unfold wfr, stat, lockrel, mk;
    cbn [f_owner f_tr f_enq f_mq f_ov f_role f_em f_d f_pb f_wq f_ib f_hi].
  split; [repeat split; lia|]. split; [repeat split; lia|]. split; [|exact Q].
  destruct ho; exact L.
Qed.
