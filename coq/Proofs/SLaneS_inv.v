(* SLaneS_inv.v — the invariant of the serial-lane-with-suspension model (Model/SLaneS.v) and its frame lemmas.
   Inv = exists fields r of the word:
     ainv  the lane part of SLane's invariant with the suspend bits free: unique enqueued token, the drain lock held by
           `lockh` (a drainer or a resumer doing the hand-off), a non-empty list always has a responsible party
           (token holder, waker, lock holder, or the word is suspended: then the resume that brings it to zero is),
           DIRTY protects the unlock, order equation;
     binv  counting: in-word count + side count (with the transfer in flight) = outstanding suspensions
           = susp_done + |sret| + |rpre|; side bit <-> side count; activation bits;
     cinv  the suspended period: callouts begun since the word became suspended + a drainer still licensed <= 1 if a
           drainer was licensed when the period began, else 0;
     dinv  a lane that was never activated has started nothing and nobody holds its lock;
   and per thread: which ghost sets / locks a program point implies. *)
From Coq Require Import ZArith Bool List Lia FinFun.
From Verif Require Import Word Bits Fields DqFields Conc Gen_consts Gen_dqstate Lane_fields SLaneS_fields SLaneS.
Import ListNotations.
Local Open Scope Z_scope.

Definition OWN := 18014398509481984 + 2199023255552 + 2147483648.

Definition dlocked_pc (p : pc) : bool :=
  match p with
  | PW_tail _ | PW_head _ | PW_chk _ | PW_pop _ | PW_run _ _ _ | PW_incall _ _ _ | PW_next _ _ | PW_unlock _ | PW_xor _
  | PW_fin _ => true
  | _ => false
  end.
Definition rlocked_pc (p : pc) : bool :=
  match p with PR_bctail _ | PR_bcsusp _ | PR_bchead _ | PR_cbc _ _ | PR_bcxor _ => true | _ => false end.
Definition lock_pc (p : pc) : bool := dlocked_pc p || rlocked_pc p.
Definition token_pc (p : pc) : bool :=
  dlocked_pc p || match p with PW_lock _ | PA_rootpush => true | _ => false end.
Definition waker_pc (p : pc) : bool :=
  match p with PA_link _ true _ _ | PA_probe _ | PA_wake _ _ => true | _ => false end.
Definition unlocking_pc (p : pc) : bool := match p with PW_unlock _ | PR_cbc _ false => true | _ => false end.
Definition sidelock_pc (p : pc) : bool :=
  match p with
  | PS_srmw | PS_sside | PS_sunlock | PS_sretry | PR_srmw | PR_sside | PR_sunlock | PR_sretry => true
  | PCrash tag => tag =? 1
  | _ => false
  end.
Definition rpre_pc (p : pc) : bool :=
  match p with PR_rmw | PR_slock | PR_srmw | PR_sretry | PR_role => true | _ => false end.
Definition sret_pc (p : pc) : bool :=
  match p with PS_sside | PS_sunlock | PS_ret => true | PCrash tag => tag =? 1 | _ => false end.
Definition dead_pc (p : pc) : bool :=
  match p with PCrash tag => negb (tag =? 1) | _ => false end.
Definition owned_of (p : pc) : option Z :=
  match p with
  | PW_tail o | PW_head o | PW_chk o | PW_pop o | PW_run o _ _ | PW_incall o _ _ | PW_next o _ | PW_unlock o | PW_xor o
  | PW_fin o => Some o
  | _ => None
  end.
Definition qos_of (p : pc) : option Z :=
  match p with
  | PA_xchg q _ | PA_link _ _ q _ | PA_probe q | PA_wake q _ | PR_bctail q | PR_bcsusp q | PR_bchead q | PR_cbc q _ | PR_bcxor q
  | PA_oprobe q | PA_owake q => Some q
  | _ => None
  end.

Definition thread_inv (s : gst) (t : Z) : Prop :=
  (token_pc (pcs s t) = true <-> token s = Some (Some t)) /\
  (waker_pc (pcs s t) = true <-> In t (wakers s)) /\
  (lock_pc (pcs s t) = true <-> lockh s = Some t) /\
  (sidelock_pc (pcs s t) = true <-> sidelock s = Some t) /\
  (rpre_pc (pcs s t) = true <-> In t (rpre s)) /\
  (sret_pc (pcs s t) = true <-> In t (sret s)) /\
  (forall o, owned_of (pcs s t) = Some o -> o = OWN) /\
  (forall q, qos_of (pcs s t) = Some q -> 0 <= q < 8) /\
  dead_pc (pcs s t) = false.

Definition free (r : dqf) : Prop := f_owner r = 0 /\ f_ib r = 0 /\ f_wq r = 4095.
Definition held (r : dqf) (w : Z) : Prop := f_owner r = w /\ f_ib r = 1 /\ f_wq r = 4096.

Definition inflight_pc (p : pc) : list Z := match p with PW_run _ i _ => [i] | _ => [] end.
Definition inflight (s : gst) : list Z :=
  match lockh s with Some w => inflight_pc (pcs s w) | None => [] end.
Definition running_pc (w : Z) (p : pc) : option (Z * Z) := match p with PW_incall _ i _ => Some (w, i) | _ => None end.

Definition zrange (n : Z) : list Z := map Z.of_nat (seq 0 (Z.to_nat n)).

(* the side count including a transfer whose word half has committed and whose counter half has not *)
Definition side_adj (p : pc) : Z :=
  match p with PS_sside => 32 | PCrash _ => 32 | PR_sside => -32 | _ => 0 end.
Definition side_eff (s : gst) : Z :=
  side s + match sidelock s with Some w => side_adj (pcs s w) | None => 0 end.
Definition zlen (l : list Z) : Z := Z.of_nat (length l).

Record ainv (s : gst) (r : dqf) : Prop := {
  g_enc : st s = enc r;
  g_wf : wfr r;
  g_tr : f_tr r = 0;
  g_em : f_em r = 0;
  g_pb : f_pb r = 0;
  g_role : f_role r < 2;
  g_enq : f_enq r = 1 <-> token s <> None;
  g_rootq : rootq s = (match token s with Some None => 1 | _ => 0 end);
  g_lock : match lockh s with Some w => valid_tid w /\ held r w | None => free r end;
  g_nostrand : lst s <> [] -> token s <> None \/ wakers s <> [] \/ lockh s <> None \/ 0 < f_hi r;
  g_dirty : forall w, lockh s = Some w -> unlocking_pc (pcs s w) = true -> lst s <> [] -> wakers s = [] ->
            f_d r = 1 \/ 0 < f_hi r;
  g_nodup : NoDup (wakers s);
  g_nextid : 0 <= nextid s;
  g_order : rev (started s) ++ inflight s ++ map e_id (lst s) = zrange (nextid s);
  g_running : running s = (match lockh s with Some w => running_pc w (pcs s w) | None => None end)
}.

Record binv (s : gst) (r : dqf) : Prop := {
  b_cnt : f_hi r / 8 + side_eff s = susp_done s + zlen (sret s) + zlen (rpre s);
  b_ssc : (f_hi r / 4) mod 2 = 1 <-> 0 < side_eff s;
  b_side : 0 <= side s /\ side s mod 32 = 0 /\ 0 <= side_eff s;
  b_sd : 0 <= susp_done s;
  b_act : f_hi r mod 4 <> 2 /\ (f_hi r mod 4 = 1 -> 1 <= f_hi r / 8 + side_eff s);
  b_ndr : NoDup (rpre s);
  b_nds : NoDup (sret s)
}.

Definition cinv (s : gst) (r : dqf) : Prop :=
  0 < f_hi r -> 0 <= pstarts s /\ pstarts s + b2z (lic_now s) <= b2z (plic s).

Record dinv (ina : bool) (s : gst) (r : dqf) : Prop := {
  d_inact : f_hi r mod 4 <> 0 -> started s = [] /\ lockh s = None;
  d_act0 : act_called s = false -> f_hi r mod 4 = (if ina then 3 else 0);
  d_act1 : act_called s = true -> (forall u, pcs s u <> PC_rmw) -> f_hi r mod 4 <> 3;
  d_actpc : forall u, pcs s u = PC_rmw -> act_called s = true;
  d_active : ina = false -> f_hi r mod 4 = 0
}.

Definition Inv (ina : bool) (s : gst) : Prop :=
  (exists r, ainv s r /\ binv s r /\ cinv s r /\ dinv ina s r) /\ forall t, thread_inv s t.

(* ---------------------------------------------------------------- projections *)
Ltac sproj :=
  cbn [st lst rootq pcs nextid started running token wakers lockh side sidelock susp_done rpre sret plic pstarts act_called
       set_pc set_st set_lst set_rootq set_token set_wakers set_lockh set_side set_sidelock set_rpre set_sret
       set_susp_done set_period set_act_called commit_suspend].
Ltac sproj_in H :=
  cbn [st lst rootq pcs nextid started running token wakers lockh side sidelock susp_done rpre sret plic pstarts act_called
       set_pc set_st set_lst set_rootq set_token set_wakers set_lockh set_side set_sidelock set_rpre set_sret
       set_susp_done set_period set_act_called commit_suspend] in H.

(* ---------------------------------------------------------------- initial state *)
Lemma init_word_enc rb ina : 0 <= rb < 2 ->
  init_word rb ina = enc (mk 0 0 0 0 0 (if ina then 0 else rb) 0 0 0 4095 0 (if ina then 3 else 0)).
Proof.
  intros H. unfold init_word, INACTIVE, NEEDS_ACT, ROLE_UNIT. rewrite enc_linear.
  unfold mk; cbn [f_owner f_tr f_enq f_mq f_ov f_role f_em f_d f_pb f_wq f_ib f_hi].
  rewrite Z.shiftl_mul_pow2 by lia. change (2 ^ 41) with 2199023255552. destruct ina; lia.
Qed.

Lemma Inv_init rb ina : 0 <= rb < 2 -> Inv ina (init_state rb ina).
Proof.
  intros Hrb. split.
  - exists (mk 0 0 0 0 0 (if ina then 0 else rb) 0 0 0 4095 0 (if ina then 3 else 0)). split; [|split; [|split]].
    + unfold init_state. constructor; sproj; unfold mk; cbn [f_tr f_em f_pb f_hi f_role f_enq f_d];
        try lia; try congruence; try reflexivity.
      * apply init_word_enc. exact Hrb.
      * unfold wfr; cbn [f_owner f_tr f_enq f_mq f_ov f_role f_em f_d f_pb f_wq f_ib f_hi]. destruct ina; repeat split; lia.
      * destruct ina; lia.
      * split; [discriminate | congruence].
      * unfold free; cbn; auto.
      * constructor.
    + unfold init_state. constructor; sproj; unfold side_eff, zlen, mk; sproj; cbn [f_hi length Z.of_nat];
        try (destruct ina; cbn; lia); try constructor.
    + unfold cinv, init_state, lic_now; sproj. cbn. lia.
    + unfold init_state. constructor; sproj; unfold mk; cbn [f_hi]; auto.
      * intros _. destruct ina; reflexivity.
      * discriminate.
      * discriminate.
      * intros ->. reflexivity.
  - intros t. unfold thread_inv, init_state; sproj. cbn. repeat split; intros; try discriminate; try contradiction.
Qed.

(* ---------------------------------------------------------------- small list facts *)
Lemma in_remove_z t u l : In u (remove_z t l) <-> In u l /\ u <> t.
Proof.
  induction l as [|x l IH]; cbn [remove_z In]; [tauto|].
  destruct (Z.eqb_spec x t) as [->|Hx]; cbn [In]; rewrite IH; split.
  - intros [H1 H2]; auto.
  - intros [[H1|H1] H2]; [congruence|auto].
  - intros [H1|[H1 H2]]; [subst; auto|auto].
  - intros [[H1|H1] H2]; auto.
Qed.

Lemma nodup_remove_z t l : NoDup l -> NoDup (remove_z t l).
Proof.
  induction 1 as [|x l Hx Hl IH]; cbn [remove_z]; [constructor|].
  destruct (x =? t); [exact IH|]. constructor; [|exact IH]. rewrite in_remove_z. tauto.
Qed.

Lemma remove_z_notin t l : ~ In t l -> remove_z t l = l.
Proof.
  induction l as [|x l IH]; cbn [remove_z In]; intros H; [reflexivity|].
  destruct (Z.eqb_spec x t) as [->|Hx]; [exfalso; apply H; left; reflexivity|]. rewrite IH; [reflexivity|tauto].
Qed.

Lemma zlen_remove_z t l : NoDup l -> In t l -> zlen (remove_z t l) = zlen l - 1.
Proof.
  unfold zlen. induction 1 as [|x l Hx Hl IH]; cbn [remove_z In length]; [contradiction|]. intros Hin.
  destruct (Z.eqb_spec x t) as [->|Hn].
  - rewrite remove_z_notin by exact Hx. lia.
  - destruct Hin as [E|Hin]; [congruence|]. cbn [length]. rewrite !Nat2Z.inj_succ. rewrite IH by exact Hin. lia.
Qed.

Lemma zlen_cons t l : zlen (t :: l) = zlen l + 1.
Proof. unfold zlen. cbn [length]. lia. Qed.
Lemma zlen_nonneg l : 0 <= zlen l.
Proof. unfold zlen. lia. Qed.
Lemma zlen_pos t l : In t l -> 1 <= zlen l.
Proof. unfold zlen. destruct l; cbn [In length]; [contradiction|lia]. Qed.

Lemma map_id_link l i : map e_id (link_id l i) = map e_id l.
Proof.
  induction l as [|e l IH]; cbn [link_id map]; [reflexivity|].
  destruct (Z.eqb_spec (e_id e) i) as [E|E]; cbn [map e_id]; [rewrite E; reflexivity | rewrite IH; reflexivity].
Qed.

Lemma link_nil_iff l i : link_id l i = [] <-> l = [].
Proof.
  destruct l as [|e l]; cbn [link_id]; [tauto|]. destruct (e_id e =? i); split; discriminate.
Qed.

Lemma zrange_succ n : 0 <= n -> zrange (n + 1) = zrange n ++ [n].
Proof.
  intros H. unfold zrange. replace (Z.to_nat (n + 1)) with (S (Z.to_nat n)) by lia.
  rewrite seq_S, map_app. cbn [map plus]. rewrite Z2Nat.id by lia. reflexivity.
Qed.

Lemma zrange_nodup n : NoDup (zrange n).
Proof.
  unfold zrange. apply FinFun.Injective_map_NoDup; [|apply seq_NoDup]. intros a b H. lia.
Qed.

Lemma in_zrange n x : In x (zrange n) <-> 0 <= x < n.
Proof.
  unfold zrange. rewrite in_map_iff. split.
  - intros [k [<- Hk]]. apply in_seq in Hk. lia.
  - intros H. exists (Z.to_nat x). split; [lia|]. apply in_seq. lia.
Qed.

Lemma wfr_mk a b c d e f g h i j k l :
  0 <= a < 1073741824 -> 0 <= b < 2 -> 0 <= c < 2 -> 0 <= d < 8 -> 0 <= e < 2 -> 0 <= f < 4 -> 0 <= g < 2 ->
  0 <= h < 2 -> 0 <= i < 2 -> 0 <= j < 8192 -> 0 <= k < 2 -> 0 <= l < 512 -> wfr (mk a b c d e f g h i j k l).
Proof. intros. unfold wfr, mk; cbn. repeat split; lia. Qed.

Lemma merged_same r q :
  f_owner (merged r q) = f_owner r /\ f_tr (merged r q) = f_tr r /\ f_enq (merged r q) = f_enq r /\
  f_role (merged r q) = f_role r /\ f_em (merged r q) = f_em r /\ f_d (merged r q) = f_d r /\
  f_pb (merged r q) = f_pb r /\ f_wq (merged r q) = f_wq r /\ f_ib (merged r q) = f_ib r /\ f_hi (merged r q) = f_hi r.
Proof. unfold merged. destruct (f_mq r <? q); cbn; repeat split; reflexivity. Qed.

Lemma suspended_word_f r : wfr r -> suspended_word (enc r) = (0 <? f_hi r).
Proof. intros W. unfold suspended_word. apply is_suspended_f. exact W. Qed.

(* ---------------------------------------------------------------- views and frames *)
Lemma holder_lock s t : thread_inv s t -> lock_pc (pcs s t) = true -> lockh s = Some t.
Proof. intros (_ & _ & T & _) H. apply T. exact H. Qed.
Lemma not_holder_lock s t : thread_inv s t -> lock_pc (pcs s t) = false -> lockh s <> Some t.
Proof. intros (_ & _ & T & _) H E. apply T in E. congruence. Qed.
Lemma holder_token s t : thread_inv s t -> token_pc (pcs s t) = true -> token s = Some (Some t).
Proof. intros (T & _) H. apply T. exact H. Qed.
Lemma not_holder_token s t : thread_inv s t -> token_pc (pcs s t) = false -> token s <> Some (Some t).
Proof. intros (T & _) H E. apply T in E. congruence. Qed.
Lemma holder_side s t : thread_inv s t -> sidelock_pc (pcs s t) = true -> sidelock s = Some t.
Proof. intros (_ & _ & _ & T & _) H. apply T. exact H. Qed.
Lemma not_holder_side s t : thread_inv s t -> sidelock_pc (pcs s t) = false -> sidelock s <> Some t.
Proof. intros (_ & _ & _ & T & _) H E. apply T in E. congruence. Qed.

Lemma side_eff_other s t p : sidelock s <> Some t -> side_eff (set_pc s t p) = side_eff s.
Proof.
  intros N. unfold side_eff; sproj. destruct (sidelock s) as [w|]; [|reflexivity].
  rewrite upd_other by congruence. reflexivity.
Qed.
Lemma lic_now_other s t p : lockh s <> Some t -> lic_now (set_pc s t p) = lic_now s.
Proof.
  intros N. unfold lic_now; sproj. destruct (lockh s) as [w|]; [|reflexivity].
  rewrite upd_other by congruence. reflexivity.
Qed.

(* binv / cinv / dinv depend on few things *)
Lemma binv_frame s s' r r' :
  binv s r -> f_hi r' = f_hi r -> side s' = side s -> side_eff s' = side_eff s -> susp_done s' = susp_done s ->
  rpre s' = rpre s -> sret s' = sret s -> binv s' r'.
Proof.
  intros B H1 H2 H3 H4 H5 H6. destruct B. constructor; rewrite ?H1, ?H2, ?H3, ?H4, ?H5, ?H6; assumption.
Qed.

Lemma cinv_frame s s' r r' :
  cinv s r -> (0 < f_hi r' -> 0 < f_hi r) -> pstarts s' = pstarts s -> plic s' = plic s -> lic_now s' = lic_now s -> cinv s' r'.
Proof. intros C H1 H2 H3 H4 H. rewrite H2, H3, H4. apply C. apply H1. exact H. Qed.

Lemma cinv_unsuspended s r : f_hi r = 0 -> cinv s r.
Proof. intros H C. lia. Qed.

Lemma dinv_step ina s s' r r' t p' :
  dinv ina s r -> f_hi r' mod 4 = f_hi r mod 4 ->
  (f_hi r mod 4 <> 0 -> started s = [] /\ lockh s = None -> started s' = [] /\ lockh s' = None) ->
  act_called s' = act_called s -> pcs s' = upd (pcs s) t p' -> pcs s t <> PC_rmw -> p' <> PC_rmw -> dinv ina s' r'.
Proof.
  intros [D1 D2 D3 D4 D5] H1 H2 H4 H5 H6 H7. constructor; rewrite ?H1, ?H4; auto.
  - intros A U. apply D3; [exact A|]. intros u. destruct (Z.eq_dec u t) as [->|N]; [exact H6|].
    specialize (U u). rewrite H5, upd_other in U by exact N. exact U.
  - intros u. rewrite H5. destruct (Z.eq_dec u t) as [->|N]; [rewrite upd_same; intros X; contradiction|].
    rewrite upd_other by exact N. apply D4.
Qed.

Lemma dinv_frame ina s s' r r' t p' :
  dinv ina s r -> f_hi r' mod 4 = f_hi r mod 4 -> started s' = started s -> lockh s' = lockh s ->
  act_called s' = act_called s -> pcs s' = upd (pcs s) t p' -> pcs s t <> PC_rmw -> p' <> PC_rmw -> dinv ina s' r'.
Proof.
  intros D H1 H2 H3 H4 H5 H6 H7. apply (dinv_step ina s s' r r' t p' D); auto. rewrite H2, H3. auto.
Qed.

(* the other threads keep their invariant when t moves and the ghost sets change compatibly *)
Lemma thread_other s s' t u :
  u <> t -> thread_inv s u -> pcs s' u = pcs s u ->
  (token s' = Some (Some u) <-> token s = Some (Some u)) ->
  (In u (wakers s') <-> In u (wakers s)) ->
  (lockh s' = Some u <-> lockh s = Some u) ->
  (sidelock s' = Some u <-> sidelock s = Some u) ->
  (In u (rpre s') <-> In u (rpre s)) ->
  (In u (sret s') <-> In u (sret s)) ->
  thread_inv s' u.
Proof.
  intros N (T1 & T2 & T3 & T4 & T5 & T6 & T7 & T8 & T9) P K W L S R E. unfold thread_inv. rewrite P.
  rewrite K, W, L, S, R, E. auto 10.
Qed.

(* option equalities "= Some u" for u <> t when a field goes from / to the moving thread *)
Lemma some_iff_drop {A} (x : option A) (t u : A) : u <> t -> x = Some t -> (None = Some u <-> x = Some u).
Proof. intros N ->. split; intros E; [discriminate | injection E as E; congruence]. Qed.
Lemma some_iff_take {A} (x : option A) (t u : A) : u <> t -> x = None -> (Some t = Some u <-> x = Some u).
Proof. intros N ->. split; intros E; [injection E as E; congruence | discriminate]. Qed.
Lemma tok_iff_drop (x : option (option Z)) (t u : Z) y : u <> t -> x = Some (Some t) -> (y = None \/ y = Some None) ->
  (y = Some (Some u) <-> x = Some (Some u)).
Proof. intros N -> [-> | ->]; split; intros E; try discriminate; injection E as E; congruence. Qed.
Lemma tok_iff_take (x : option (option Z)) (t u : Z) : u <> t -> (x = None \/ x = Some None) ->
  (Some (Some t) = Some (Some u) <-> x = Some (Some u)).
Proof. intros N [-> | ->]; split; intros E; try discriminate; injection E as E; congruence. Qed.
Lemma in_cons_other (t u : Z) l : u <> t -> (In u (t :: l) <-> In u l).
Proof. intros N. cbn [In]. split; [intros [E|E]; [congruence|exact E] | auto]. Qed.
Lemma in_remove_other (t u : Z) l : u <> t -> (In u (remove_z t l) <-> In u l).
Proof. intros N. rewrite in_remove_z. tauto. Qed.
