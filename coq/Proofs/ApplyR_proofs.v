(* ApplyR_proofs.v — (1) the replay scheduler of Model/ApplyR.v only ever takes steps of the global model Apply.gstep:
   whatever it is given (action lists, preferred order, window), every state it passes through is reachable, so a
   recorded round that it consumes entirely IS a run of the model with the recorded values and the theorems of
   Apply_proofs.v apply to it; (2) the executable invariant inv_b is implied by the proved invariant Inv, hence true on
   every reachable state: a state of a replay on which inv_b evaluates to false would contradict a theorem (it can only
   come from a slip in the model's ghost bookkeeping or in the proof's reading of it, and it is a concrete state). *)
From Coq Require Import ZArith Bool List Lia.
From Verif Require Import Word Conc Gen_consts Gen_fields Gen_apply Apply Apply_proofs ApplyR.
Import ListNotations.
Local Open Scope Z_scope.

Section R.
Variables (n T c : Z).

Lemma try_act_step s a s' : try_act n T c s a = Some s' -> step n T c s (s_tid a, s_ev a) s'.
Proof. unfold try_act, step. destruct (outcome_ok s (s_tid a) (s_ev a)); [|discriminate]. cbn. auto. Qed.

Lemma pick_step s qs : forall w ord seen t s', pick n T c s qs ord seen w = Some (t, s') -> exists act, step n T c s act s'.
Proof.
  induction w as [|w IH]; intros ord seen t s' P; destruct ord as [|u r]; cbn [pick] in P; try discriminate.
  destruct (existsb (Z.eqb u) seen); [eapply IH; exact P|].
  destruct (lookup u qs) as [|a l]; [eapply IH; exact P|].
  destruct (try_act n T c s a) as [s1|] eqn:E; [|eapply IH; exact P].
  injection P as _ <-. eexists. apply try_act_step. exact E.
Qed.

Theorem sched_reach : forall fuel w chk tids s qs ord done bad first,
  reach n T c s -> reach n T c (x_st (sched n T c fuel w chk tids s qs ord done bad first)).
Proof.
  induction fuel as [|f IH]; intros w chk tids s qs ord done bad first R; cbn [sched]; [exact R|].
  destruct ord as [|u r]; [exact R|].
  destruct (pick n T c s qs (u :: r) [] w) as [[t s1]|] eqn:P; [|exact R].
  apply IH. destruct (pick_step s qs _ _ _ _ _ P) as [act St].
  eapply reach_step; [exact R|exact St].
Qed.

(* what the checker relies on: the state whose words and ghost fields a replay reports is reachable in the model *)
Corollary replay_reach w chk tids qs ord :
  reach n T c (x_st (sched n T c (S (length ord)) w chk tids (init_state n T c) qs ord 0 0 (-1))).
Proof. apply sched_reach. apply reach_init. reflexivity. Qed.

(* ---- inv_b is implied by Inv ---- *)
Lemma existsb_in t l : existsb (Z.eqb t) l = true <-> In t l.
Proof.
  rewrite existsb_exists. split.
  - intros (x & Hx & E). apply Z.eqb_eq in E. subst. exact Hx.
  - intros H. exists t. split; [exact H|apply Z.eqb_refl].
Qed.
Lemma existsb_notin t l : ~ In t l -> existsb (Z.eqb t) l = false.
Proof. intros H. destruct (existsb (Z.eqb t) l) eqn:E; [|reflexivity]. apply existsb_in in E. contradiction. Qed.
Lemma nodupb_true l : NoDup l -> nodupb l = true.
Proof.
  induction 1 as [|x l Hx _ IH]; [reflexivity|]. cbn [nodupb]. rewrite (existsb_notin x l Hx), IH. reflexivity.
Qed.

Lemma thread_inv_b_true s t : thread_inv n c s t -> thread_inv_b n c s t = true.
Proof.
  intros (A & O & P). unfold thread_inv_b, at_pc_b. unfold at_pc in A.
  assert (E3 : eqb (negb (is_idle (pcs s t))) (existsb (Z.eqb t) (parts s)) = true).
  { destruct (pcs s t) eqn:Hp; cbn [is_idle negb];
      try (rewrite (proj2 (existsb_in t (parts s))); [reflexivity|apply P; discriminate]).
    rewrite existsb_notin; [reflexivity|]. intros H. apply P in H. congruence. }
  assert (E2 : ((over (pcs s t) =? 0) || (n <=? index s)) = true).
  { destruct (Z.eqb_spec (over (pcs s t)) 0); [reflexivity|]. cbn [orb]. apply Z.leb_le. apply O.
    pose proof (over_range (pcs s t)). lia. }
  rewrite E2, E3, !andb_true_r.
  destruct (pcs s t); auto; try contradiction;
    try (apply Z.leb_le; exact A); try (apply Z.eqb_eq; exact A).
  - destruct A as (A1 & A2 & A3 & A4). rewrite A3. cbn [optz_eqb]. rewrite Z.eqb_refl.
    repeat (apply andb_true_iff; split); try apply Z.leb_le; try apply Z.ltb_lt; try lia; reflexivity.
  - destruct A as (A1 & A2 & A3 & A4). rewrite A3. cbn [optz_eqb]. rewrite Z.eqb_refl.
    repeat (apply andb_true_iff; split); try apply Z.leb_le; try apply Z.ltb_lt; try lia; reflexivity.
  - destruct A as [A1 A2]. rewrite A1, A2. cbn. rewrite Z.eqb_refl. reflexivity.
  - rewrite A. cbn. apply Z.eqb_refl.
Qed.

Lemma index_inv_b_true s i : index_inv n s i -> index_inv_b n s i = true.
Proof.
  unfold index_inv, index_inv_b, claimed. destruct ((0 <=? i) && (i <? Z.min (index s) n)).
  - intros (t & A & B & C). rewrite A, B, C, !Z.eqb_refl. reflexivity.
  - intros (A & B & C). rewrite A, B, C. reflexivity.
Qed.

Lemma ginv_b_true s : Ginv n T c s -> ginv_b n T c s = true.
Proof.
  intros [Gi0 Gi1 Gt Gtl Gth Gnd Gl Gc Ge Gs Gf Gu Gd Gw Gcs Gr Gsl]. unfold ginv_b, claimed in *.
  repeat (apply andb_true_iff; split).
  - apply Z.leb_le; exact Gi0.
  - apply Z.leb_le; exact Gi1.
  - apply Z.eqb_eq; exact Gt.
  - apply Z.leb_le; exact Gtl.
  - apply Z.eqb_eq; exact Gth.
  - apply nodupb_true; exact Gnd.
  - apply Z.leb_le; exact Gl.
  - apply existsb_in; exact Gc.
  - apply Z.eqb_eq; exact Ge.
  - unfold sig_clause in Gs. destruct (signaller s) as [g|].
    + destruct Gs as [A B]. apply andb_true_iff. split; [apply Z.eqb_eq; exact A|].
      destruct (sigd s); cbn [negb].
      * destruct (pcs s g) eqn:E; try reflexivity. exfalso. assert (X : true = false) by (apply B; reflexivity). discriminate X.
      * rewrite (proj1 B eq_refl). reflexivity.
    + destruct Gs as [A B]. rewrite B. apply andb_true_iff. split; [apply Z.ltb_lt; exact A|reflexivity].
  - destruct Gf as [F1 F2]. destruct (Z.eqb_spec (thrcnt s) 0) as [E|E]; apply Z.eqb_eq; auto.
  - rewrite Gu; reflexivity.
  - rewrite Gd; reflexivity.
  - rewrite Gw. destruct (past_wait (pcs s c)); reflexivity.
  - destruct (past_event (pcs s c)); [rewrite Gcs by reflexivity|]; reflexivity.
  - rewrite Gr. destruct (is_ret (pcs s c)); reflexivity.
  - unfold slp_clause in Gsl. destruct (slp s); try reflexivity.
    destruct (Gsl eq_refl) as [A B]. rewrite A. cbn [is_waitsleep andb].
    destruct B as [B|(g & Eg & Pg)]; [rewrite B; reflexivity|]. rewrite Eg, Pg. cbn. apply orb_true_r.
Qed.

Theorem inv_b_true tids s : Inv n T c s -> inv_b n T c tids s = true.
Proof.
  intros (G & HT & HI). unfold inv_b. rewrite (ginv_b_true s G). cbn [andb].
  apply andb_true_iff. split; apply forallb_forall; intros x _; [apply thread_inv_b_true, HT|apply index_inv_b_true, HI].
Qed.

Corollary inv_b_reach tids s : valid_params n T -> reach n T c s -> inv_b n T c tids s = true.
Proof. intros V R. apply inv_b_true. apply inv_reach; assumption. Qed.
End R.

(* ---------------------------------------------------------------- a recorded round, replayed
   One dispatch_apply_f(15) of harness/c10_apply.c (stress mode, seed 4242, 12 % schedule perturbation): the caller and 14
   helper runs of _dispatch_apply_invoke2 on one record (da_thr_cnt = 15), as recorded by the DISPATCH_VERIF hook (kind, memory
   order, offset in struct dispatch_apply_s, size, value observed, operand) and ordered by lib/props/c10.py.  The scheduler
   consumes all 103 actions on Apply.gstep; the model ends with da_index = 30, da_todo = 0, da_thr_cnt = 0, the event word
   back at 0, the record freed once, the caller returned, every index begun and ended once, and inv_b holds on every state. *)
Definition RA (t k o f sz a b : Z) : sact := mkSA t (mkEv k o 0 f sz a b 1).
Definition ex_qs : list (Z * list sact) := [
  (1, [RA 1 6 2 8 8 9 1; RA 1 102 0 0 0 9 0; RA 1 103 0 0 0 9 0; RA 1 6 0 8 8 20 1; RA 1 7 3 16 8 6 1; RA 1 7 2 40 4 0 1; RA 1 1 2 40 4 4294967295 4294967295; RA 1 32 0 40 0 4294967295 0; RA 1 33 0 40 0 4294967295 0; RA 1 1 2 40 4 0 0; RA 1 7 3 48 4 2 1; RA 1 101 0 0 0 15 0]);
  (2, [RA 2 104 0 0 0 15 0; RA 2 6 2 8 8 10 1; RA 2 102 0 0 0 10 0; RA 2 103 0 0 0 10 0; RA 2 6 0 8 8 11 1; RA 2 102 0 0 0 11 0; RA 2 103 0 0 0 11 0; RA 2 6 0 8 8 12 1; RA 2 102 0 0 0 12 0; RA 2 103 0 0 0 12 0; RA 2 6 0 8 8 14 1; RA 2 102 0 0 0 14 0; RA 2 103 0 0 0 14 0; RA 2 6 0 8 8 15 1; RA 2 7 3 16 8 15 4; RA 2 7 3 48 4 15 1]);
  (3, [RA 3 104 0 0 0 15 0; RA 3 6 2 8 8 16 1; RA 3 7 3 48 4 14 1]);
  (4, [RA 4 104 0 0 0 15 0; RA 4 6 2 8 8 17 1; RA 4 7 3 48 4 13 1]);
  (5, [RA 5 104 0 0 0 15 0; RA 5 6 2 8 8 18 1; RA 5 7 3 48 4 12 1]);
  (6, [RA 6 104 0 0 0 15 0; RA 6 6 2 8 8 4 1; RA 6 102 0 0 0 4 0; RA 6 103 0 0 0 4 0; RA 6 6 0 8 8 5 1; RA 6 102 0 0 0 5 0; RA 6 103 0 0 0 5 0; RA 6 6 0 8 8 6 1; RA 6 102 0 0 0 6 0; RA 6 103 0 0 0 6 0; RA 6 6 0 8 8 7 1; RA 6 102 0 0 0 7 0; RA 6 103 0 0 0 7 0; RA 6 6 0 8 8 8 1; RA 6 102 0 0 0 8 0; RA 6 103 0 0 0 8 0; RA 6 6 0 8 8 19 1; RA 6 7 3 16 8 11 5; RA 6 7 3 48 4 11 1]);
  (7, [RA 7 104 0 0 0 15 0; RA 7 6 2 8 8 1 1; RA 7 102 0 0 0 1 0; RA 7 103 0 0 0 1 0; RA 7 6 0 8 8 2 1; RA 7 102 0 0 0 2 0; RA 7 103 0 0 0 2 0; RA 7 6 0 8 8 3 1; RA 7 102 0 0 0 3 0; RA 7 103 0 0 0 3 0; RA 7 6 0 8 8 21 1; RA 7 7 3 16 8 5 3; RA 7 7 3 48 4 10 1]);
  (8, [RA 8 104 0 0 0 15 0; RA 8 6 2 8 8 22 1; RA 8 7 3 48 4 9 1]);
  (9, [RA 9 104 0 0 0 15 0; RA 9 6 2 8 8 0 1; RA 9 102 0 0 0 0 0; RA 9 103 0 0 0 0 0; RA 9 6 0 8 8 23 1; RA 9 7 3 16 8 2 1; RA 9 7 3 48 4 8 1]);
  (10, [RA 10 104 0 0 0 15 0; RA 10 6 2 8 8 24 1; RA 10 7 3 48 4 7 1]);
  (11, [RA 11 104 0 0 0 15 0; RA 11 6 2 8 8 25 1; RA 11 7 3 48 4 6 1]);
  (12, [RA 12 104 0 0 0 15 0; RA 12 6 2 8 8 26 1; RA 12 7 3 48 4 5 1]);
  (13, [RA 13 104 0 0 0 15 0; RA 13 6 2 8 8 27 1; RA 13 7 3 48 4 4 1]);
  (14, [RA 14 104 0 0 0 15 0; RA 14 6 2 8 8 13 1; RA 14 102 0 0 0 13 0; RA 14 103 0 0 0 13 0; RA 14 6 0 8 8 28 1; RA 14 7 3 16 8 1 1; RA 14 6 3 40 4 4294967295 1; RA 14 34 0 40 0 1 0; RA 14 7 3 48 4 3 1]);
  (15, [RA 15 104 0 0 0 15 0; RA 15 6 2 8 8 29 1; RA 15 7 3 48 4 1 1]) ].
Definition ex_ord : list Z := [9; 9; 7; 7; 7; 7; 7; 7; 7; 7; 7; 6; 6; 6; 6; 6; 6; 6; 6; 6; 6; 6; 6; 6; 6; 1; 1; 2; 2; 2; 2; 2; 2; 2; 2; 2; 14; 2; 14; 2; 2; 14; 2; 2; 2; 2; 3; 3; 3; 4; 4; 4; 5; 5; 5; 6; 6; 6; 6; 6; 1; 1; 1; 1; 7; 7; 7; 7; 1; 1; 8; 8; 8; 9; 9; 9; 9; 9; 10; 10; 10; 11; 11; 11; 12; 12; 12; 13; 13; 13; 14; 14; 14; 14; 14; 14; 1; 1; 1; 1; 15; 15; 15].
Example recorded_round_replays :
  replay 15 15 1 6 true [1; 2; 3; 4; 5; 6; 7; 8; 9; 10; 11; 12; 13; 14; 15; 16] ex_qs ex_ord = [103; 0; 30; 0; 0; 0; 1; 0; 0; 1; 0; -1; 1; 15; -1; 0; 0].
Proof. vm_compute. reflexivity. Qed.
