(* SrcLife_phase_proofs.v — (1) the record-level rmw bodies of Model/SrcLife.v are the generated bodies of Gen_srclife on the
   decoded bits of any 32-bit word; (2) invariants of the source life-cycle model for every reachable state: any number of
   cancelling threads, any interleaving of cancel / events / invoke phases. *)
From Coq Require Import ZArith Bool List Lia.
From Verif Require Import Word Bits Conc Gen_consts Gen_srclife SrcLife.
Import ListNotations.
Local Open Scope Z_scope.

(* ------------------------------------------------------------------ bits *)
Lemma nz_land_pow2 z k : 0 <= k -> nz (Z.land z (2 ^ k)) = Z.testbit z k.
Proof.
  intros Hk. unfold nz. destruct (Z.testbit z k) eqn:E.
  - destruct (Z.eqb_spec (Z.land z (2 ^ k)) 0) as [H|]; [|reflexivity].
    assert (X : Z.testbit (Z.land z (2 ^ k)) k = true) by (rewrite Z.land_spec, E, Z.pow2_bits_true by lia; reflexivity).
    rewrite H, Z.bits_0 in X. discriminate.
  - destruct (Z.eqb_spec (Z.land z (2 ^ k)) 0) as [|H]; [reflexivity|]. exfalso. apply H.
    apply Z.bits_inj'. intros n Hn. rewrite Z.land_spec, Z.bits_0.
    destruct (Z.eq_dec n k) as [->|Ne]; [rewrite E; reflexivity|].
    rewrite Z.pow2_bits_false by lia. apply andb_false_r.
Qed.
Lemma nz_land_two z a b : 0 <= a -> 0 <= b ->
  nz (Z.land z (Z.lor (2 ^ a) (2 ^ b))) = Z.testbit z a || Z.testbit z b.
Proof.
  intros Ha Hb. rewrite Z.land_lor_distr_r. unfold nz.
  rewrite <- (nz_land_pow2 z a Ha), <- (nz_land_pow2 z b Hb). unfold nz.
  destruct (Z.eqb_spec (Z.land z (2 ^ a)) 0) as [E1|E1], (Z.eqb_spec (Z.land z (2 ^ b)) 0) as [E2|E2]; cbn;
    destruct (Z.eqb_spec (Z.lor (Z.land z (2 ^ a)) (Z.land z (2 ^ b))) 0) as [E|E]; try reflexivity; exfalso.
  - apply E. rewrite E1, E2. reflexivity.
  - apply Z.lor_eq_0_iff in E. tauto.
  - apply Z.lor_eq_0_iff in E. tauto.
  - apply Z.lor_eq_0_iff in E. tauto.
Qed.

Lemma tb_lor_pow2 z k n : 0 <= k -> 0 <= n -> Z.testbit (Z.lor z (2 ^ k)) n = Z.testbit z n || (k =? n).
Proof. intros. rewrite Z.lor_spec, Z.pow2_bits_eqb by lia. reflexivity. Qed.

Ltac evalb :=
  repeat match goal with
         | |- context [Z.eqb ?a ?b] =>
             match a with Zpos _ => match b with Zpos _ =>
               let v := eval vm_compute in (Z.eqb a b) in change (Z.eqb a b) with v end end
         end;
  rewrite ?orb_false_r, ?orb_true_r, ?andb_true_r, ?andb_false_r.

Ltac bits :=
  unfold dec, BIT_CANCELED, BIT_WAITER, BIT_NEEDS_EVENT, BIT_DELETED, BIT_RELEASED;
  repeat (rewrite ?Z.lor_spec, ?Z.land_spec);
  repeat match goal with
         | |- context [Z.testbit ?c ?n] =>
             match c with
             | Zpos _ => let v := eval vm_compute in (Z.testbit c n) in change (Z.testbit c n) with v
             end
         end;
  rewrite ?orb_false_r, ?orb_true_r, ?andb_true_r, ?andb_false_r.

(* dispatch_source_cancel: os_atomic_or_orig(dq_atomic_flags, DSF_CANCELED) *)
Lemma dec_or_canceled z : dec (Z.lor z DSF_CANCELED) = set_canceled (dec z).
Proof. unfold DSF_CANCELED, set_canceled. bits. reflexivity. Qed.
Lemma dec_or_released z : dec (Z.lor z DQF_RELEASED) = set_released (dec z).
Proof. unfold DQF_RELEASED, set_released. bits. reflexivity. Qed.
Lemma dec_or_waiter z : dec (Z.lor z DSF_CANCEL_WAITER) = set_waiter (dec z).
Proof. unfold DSF_CANCEL_WAITER, set_waiter. bits. reflexivity. Qed.

(* the deferred-unregistration loop (source.c:618) *)
Lemma gen_needs_event_loop ds opts z :
  match refs_unregister_loop ds opts z with
  | Commit n _ => m_needs_event_loop (dec z) = Some (dec n)
  | NoCommit _ _ => m_needs_event_loop (dec z) = None
  | _ => False
  end.
Proof.
  unfold refs_unregister_loop, m_needs_event_loop.
  change 3221225472 with (Z.lor (2 ^ 30) (2 ^ 31)). rewrite nz_land_two by lia.
  change (needs_event (dec z)) with (Z.testbit z 30). change (deleted (dec z)) with (Z.testbit z 31).
  destruct (Z.testbit z 30 || Z.testbit z 31) eqn:E; [reflexivity|].
  apply orb_false_iff in E as [E1 E2]. f_equal. bits. rewrite E1. cbn. rewrite ?orb_false_r. reflexivity.
Qed.

(* the first loop of dispatch_source_cancel_and_wait (source.c:1009) *)
Lemma gen_caw_loop ds z (k : kind) :
  match cancel_and_wait_loop ds z (b2z (k_timer k)) (b2z (k_direct k)) with
  | Commit n _ => m_caw_loop k (dec z) = Some (dec n)
  | NoCommit _ _ => m_caw_loop k (dec z) = None
  | _ => False
  end.
Proof.
  unfold cancel_and_wait_loop, m_caw_loop.
  change 536870912 with (2 ^ 29). change 2147483648 with (2 ^ 31). change 1073741824 with (2 ^ 30).
  rewrite !nz_land_pow2 by lia.
  change (waiter (dec z)) with (Z.testbit z 29). change (deleted (dec z)) with (Z.testbit z 31).
  change (needs_event (dec z)) with (Z.testbit z 30).
  destruct (Z.testbit z 29) eqn:E29; [reflexivity|].
  assert (Ht : nz (b2z (k_timer k)) = k_timer k) by (destruct (k_timer k); reflexivity).
  assert (Hd : nz (b2z (k_direct k)) = k_direct k) by (destruct (k_direct k); reflexivity).
  rewrite Ht, Hd. f_equal.
  destruct (Z.testbit z 31) eqn:E31.
  - unfold dec, BIT_CANCELED, BIT_WAITER, BIT_NEEDS_EVENT, BIT_DELETED, BIT_RELEASED.
    change 268435456 with (2 ^ 28). rewrite !tb_lor_pow2 by lia. evalb. rewrite E29, E31. reflexivity.
  - destruct (Z.testbit z 30 || k_timer k || negb (k_direct k)) eqn:Ew;
      unfold dec, BIT_CANCELED, BIT_WAITER, BIT_NEEDS_EVENT, BIT_DELETED, BIT_RELEASED;
      change 268435456 with (2 ^ 28); rewrite !tb_lor_pow2 by lia; evalb; rewrite E29, E31; reflexivity.
Qed.

(* _dispatch_source_refs_finalize_unregistration's set_and_clear (source.c:594): whether it commits or finds nothing to
   change, the word afterwards decodes to m_finalize *)
Lemma gen_finalize dqu z :
  match flags_set_and_clear_loop dqu DSF_DELETED (Z.lor DSF_NEEDS_EVENT DSF_CANCEL_WAITER) z with
  | Commit n _ => dec n = m_finalize (dec z)
  | NoCommit _ _ => dec z = m_finalize (dec z)
  | _ => False
  end.
Proof.
  unfold flags_set_and_clear_loop, m_finalize, DSF_DELETED, DSF_NEEDS_EVENT, DSF_CANCEL_WAITER, not32.
  set (n := Z.land (Z.lor z 2147483648) (4294967295 - Z.lor 1073741824 536870912)).
  assert (Hn : dec n = {| canceled := canceled (dec z); waiter := false; needs_event := false; deleted := true;
                          released := released (dec z) |}).
  { subst n. change (4294967295 - Z.lor 1073741824 536870912) with 2684354559. bits. reflexivity. }
  destruct (Z.eqb_spec n z) as [E|E]; [rewrite <- E at 1|]; exact Hn.
Qed.

(* ------------------------------------------------------------------ one phase of invoke2: what it can do *)
Ltac pick c :=
  match c with
  | ?a && _ => pick a
  | ?a || _ => pick a
  | negb ?a => pick a
  | queue_eqb ?a ?b => first [is_var a; destruct a | is_var b; destruct b]
  | match ?a with _ => _ end => pick a
  | if ?a then _ else _ => pick a
  | ?v => is_var v; destruct v
  end.
Ltac split_ifs H :=
  repeat (cbn in H;
          match type of H with
          | context [if ?c then _ else _] => pick c
          | context [match ?c with RNone => _ | _ => _ end] => pick c
          end).
Ltac open_i i :=
  destruct i as [s0 pc dqf r0 av];
  destruct s0 as [f inst w ar nd he hc hr pe kr ka]; destruct f as [fc fw fn fd fr];
  destruct dqf as [dc dw dn dd dr].
Ltac unf H :=
  unfold phase, install, refs_unregister, finalize, cancel_callout, cont, m_finalize, m_needs_event_loop, refs_needs_rearm,
    needs_rearm_du, registered, canc_or_rel, dkq, retq_of in H.

Ltac dgoal := repeat match goal with |- context [?v] => is_var v; match type of v with bool => destruct v end end.
Ltac dhyp := repeat match goal with
  | H : context [?v || _] |- _ => is_var v; destruct v
  | H : context [_ || ?v] |- _ => is_var v; destruct v
  | H : context [?v && _] |- _ => is_var v; destruct v
  | H : context [_ && ?v] |- _ => is_var v; destruct v
  end.
Ltac fin := repeat split; intros; try discriminate; try congruence; try tauto; try (dgoal; dhyp; cbn in *; intuition (try discriminate; try congruence)).

Lemma phase_Pinv k q o i : Pinv k (i_src i) (i_pc i) -> Pinv k (res_src (phase k q o i)) (res_pc (phase k q o i)).
Proof.
  intros HS. destruct (phase k q o i) eqn:H; cbn [res_src res_pc].
  all: open_i i; destruct k as [kt kd kre]; destruct o as [o1 o2 o3 o4 o5 o6 o7 o8]; unf H; destruct pc.
  all: split_ifs H.
  all: try discriminate.
  all: first [injection H as <- <- | injection H as <- <- <-]; unfold Pinv, Sinv, registered in *; cbn in *; fin.
Qed.

(* structural facts about one phase: where the callouts can start, what they need, what never changes *)
Lemma phase_facts k q o i :
  let p := phase k q o i in let s := i_src i in let s' := res_src p in let a := res_acts p in
  (h_ca s = false -> h_ca s' = false) /\
  (canceled (fl s') = canceled (fl s) /\ released (fl s') = released (fl s) /\ (deleted (fl s) = true -> deleted (fl s') = true)) /\
  (count AChBegin a = 0 \/
   (count AChBegin a = 1 /\ h_ca s = true /\ h_ca s' = false /\ canceled (fl s) = true /\
    ((i_pc i = OP4 /\ q = QTarget /\ deleted (i_dqf i) = true) \/ (i_pc i = OCD2 /\ deleted (fl s) = true)))) /\
  (count AEhBegin a = 0 \/ (count AEhBegin a = 1 /\ i_pc i = OLatch /\ h_ev s = true)) /\
  (res_pc p = OLatch -> i_pc i = OP1 /\ q = QTarget /\ canceled (fl s) = false /\ released (fl s) = false /\ pending s = true) /\
  (deleted (fl s') = deleted (fl s) \/ (deleted (fl s) = false /\ existsb is_fin a = true)) /\
  (deleted (res_dqf' p) = true -> deleted (i_dqf i) = true \/ deleted (fl s) = true) /\
  (count AChDispose a = 0 \/ (count AChDispose a = 1 /\ h_ca s = true /\ h_ca s' = false /\ canceled (fl s) = false)).
Proof.
  cbv zeta. destruct (phase k q o i) eqn:H; cbn [res_src res_pc res_acts res_dqf'].
  all: open_i i; destruct k as [kt kd kre]; destruct o as [o1 o2 o3 o4 o5 o6 o7 o8]; unf H; destruct pc.
  all: split_ifs H.
  all: try discriminate.
  all: first [injection H as <- <- | injection H as <- <- <-]; unfold registered; cbn.
  all: repeat split; intros; try discriminate; try congruence; try tauto; auto.
  all: try (left; reflexivity).
  all: try (right; repeat split; try reflexivity; try congruence; auto; fail).
  all: try (right; repeat split; try reflexivity; try congruence; auto; left; repeat split; auto; fail).
  all: try (right; repeat split; try reflexivity; try congruence; auto; right; repeat split; auto; fail).
  all: try (left; congruence).
  all: try (right; congruence).
  all: try (destruct fd; cbn; auto; fail).
Qed.


Lemma phase_facts2 k q o i :
  let p := phase k q o i in let s := i_src i in let s' := res_src p in let a := res_acts p in
  (canceled (res_dqf' p) = true -> canceled (i_dqf i) = true \/ canceled (fl s) = true) /\
  (released (res_dqf' p) = true -> released (i_dqf i) = true \/ released (fl s) = true) /\
  (res_pc p = OP3 -> deleted (res_dqf' p) = deleted (fl s')) /\
  (existsb is_fin_twice a = true ->
     deleted (fl s) = true /\
     ((i_pc i = OA1 /\ installed s = false) \/ (i_pc i = OA4 /\ du_nd s = true) \/ (i_pc i = OP3 /\ deleted (i_dqf i) = false))) /\
  ((waiter (fl s') = waiter (fl s) /\ deleted (fl s') = deleted (fl s)) \/ woke a = true \/ waiter (fl s) = false) /\
  (waiter (fl s') = true -> waiter (fl s) = true) /\
  (match p with Cont i' _ => i_pc i' <> OIdle | Ret _ _ _ => True end) /\
  (in_cd (res_pc p) = true -> in_cd (i_pc i) = true) /\
  (count AChDispose a = 1 -> (i_pc i = OP4 /\ canc_or_rel (i_dqf i) = true) \/ i_pc i = OCD2) /\
  (h_ca s = true -> h_ca s' = false -> count AChBegin a + count AChDispose a = 1).
Proof.
  cbv zeta. destruct (phase k q o i) eqn:H; cbn [res_src res_pc res_acts res_dqf'].
  all: open_i i; destruct k as [kt kd kre]; destruct o as [o1 o2 o3 o4 o5 o6 o7 o8]; unf H; destruct pc.
  all: split_ifs H.
  all: try discriminate.
  all: first [injection H as <- <- | injection H as <- <- <-]; unfold registered, canc_or_rel; cbn.
  all: repeat split; intros; try discriminate; try congruence; try tauto; auto.
  all: try (left; split; reflexivity).
  all: try (right; left; reflexivity).
  all: try (right; right; reflexivity).
  all: try (left; split; congruence).
  all: try (right; reflexivity).
  all: try (left; reflexivity).
  all: try (right; left; split; [reflexivity | assumption]).
  all: try (right; right; split; [reflexivity | assumption]).
  all: try (destruct fw; cbn; auto; fail).
  all: try (destruct fd; cbn in *; try discriminate; auto; fail).
Qed.

(* DSF_NEEDS_EVENT is only ever set by an unregistration attempt that failed *)
Lemma phase_needs_event k q o i :
  needs_event (fl (res_src (phase k q o i))) = true -> needs_event (fl (i_src i)) = true \/ c_unreg_ok o = false.
Proof.
  destruct (phase k q o i) eqn:H; cbn [res_src].
  all: open_i i; destruct k as [kt kd kre]; destruct o as [o1 o2 o3 o4 o5 o6 o7 o8]; unf H; destruct pc.
  all: split_ifs H.
  all: try discriminate.
  all: first [injection H as <- <- | injection H as <- <- <-]; cbn; intros X; try discriminate; auto.
Qed.

(* a phase unregisters a registered unote only on the kevent queue of its kind, for direct unotes and timers anywhere, or in
   cancel_and_wait's locked path *)
Lemma phase_unreg k q o i :
  registered (i_src i) = true -> registered (res_src (phase k q o i)) = false ->
  queue_eqb q (dkq k) = true \/ k_direct k = true \/ k_timer k = true \/ in_cd (i_pc i) = true.
Proof.
  destruct (phase k q o i) eqn:H; cbn [res_src].
  all: open_i i; destruct k as [kt kd kre]; destruct o as [o1 o2 o3 o4 o5 o6 o7 o8]; unf H; destruct pc.
  all: split_ifs H.
  all: try discriminate.
  all: first [injection H as <- <- | injection H as <- <- <-]; unfold registered, dkq; cbn; intros X Y; auto; try congruence.
  all: try (destruct q; cbn; auto; fail).
Qed.

(* ------------------------------------------------------------------ the model's program points are the source's atomic sites *)
Lemma sites_match_invoke2 : model_sites_invoke2 = f_dispatch_source_invoke2_sites.
Proof. reflexivity. Qed.
Lemma sites_match_wakeup : model_sites_wakeup = f_dispatch_source_wakeup_sites.
Proof. reflexivity. Qed.
Lemma sites_match_cancel : model_sites_cancel = dispatch_source_cancel_sites.
Proof. reflexivity. Qed.
Lemma sites_match_caw : model_sites_caw = dispatch_source_cancel_and_wait_sites.
Proof. reflexivity. Qed.
Lemma sites_match_finalize : rmwF = f_dispatch_source_refs_finalize_unregistration_sites.
Proof. reflexivity. Qed.
Lemma sites_match_unregister : unreg_sites = f_dispatch_source_refs_unregister_sites.
Proof. reflexivity. Qed.
(* the program points at which invoke2 touches dq_atomic_flags before anything else: OA1 only when the registration failed (the
   finalize loop), the others unconditionally (SrcLifeR.reads_f) *)
Lemma flags_reading_points :
  filter starts_with_flags_read invoke2_points = [OA1; OP1; OP2; OP3b; OP4b].
Proof. reflexivity. Qed.
