(* SLaneS_progress.v — no reachable state of the serial-lane-with-suspension model is stuck: every thread inside an API
   call or a drain has an enabled step, or waits for an enqueuer that is one step from publishing its link, or waits
   for the holder of the side lock, who has an enabled step (unless the process has crashed on the documented
   nesting limit).  dispatch_suspend / dispatch_resume CAN wait: on the side-counter path for the side lock
   (PS_slock, PR_slock), and the hand-off of the resume that brings the count to zero waits like any drainer for an
   enqueuer's link (PR_bchead); at every other program point of these calls a step is enabled. *)
From Coq Require Import ZArith Bool List Lia.
From Verif Require Import Word Bits Fields DqFields Conc Gen_consts Gen_dqstate Lane_fields SLaneS_fields SLaneS SLaneS_inv
  SLaneS_steps_a SLaneS_steps_b SLaneS_proofs.
Import ListNotations.
Local Open Scope Z_scope.

Definition needs_item (p : pc) : bool :=
  match p with
  | PW_head _ | PW_chk _ | PW_pop _ | PW_run _ _ true | PW_incall _ _ true | PW_next _ true | PR_bcsusp _ | PR_bchead _ => true
  | _ => false
  end.

Definition L1 (s : gst) : Prop := forall t, needs_item (pcs s t) = true -> lst s <> [].
Definition L2 (s : gst) : Prop :=
  forall e, In e (lst s) -> e_linked e = false -> exists t w q o, pcs s t = PA_link (e_id e) w q o.

Definition Inv2 (ina : bool) (s : gst) : Prop := Inv ina s /\ L1 s /\ L2 s.

Lemma Inv2_init rb ina : 0 <= rb < 2 -> Inv2 ina (init_state rb ina).
Proof.
  intros H. split; [apply Inv_init; exact H|]. split.
  - intros t. unfold init_state; cbn. discriminate.
  - intros e. unfold init_state; cbn. contradiction.
Qed.

Lemma suffix_nodup {A} (l1 l2 : list A) : NoDup (l1 ++ l2) -> NoDup l2.
Proof. induction l1 as [|a l1 IH]; cbn [app]; intros H; [exact H|]. inversion H; subst. apply IH. assumption. Qed.

Lemma ids_nodup ina s : Inv ina s -> NoDup (map e_id (lst s)).
Proof.
  intros [(r & A & _) _]. pose proof (g_order s r A) as G.
  pose proof (zrange_nodup (nextid s)) as ND. rewrite <- G in ND.
  apply suffix_nodup in ND. apply suffix_nodup in ND. exact ND.
Qed.

Lemma in_link_id l i e : NoDup (map e_id l) -> In e (link_id l i) -> e_linked e = false -> In e l /\ e_id e <> i.
Proof.
  induction l as [|x l IH]; cbn [link_id map]; intros ND Hin Hl; [contradiction|].
  inversion ND as [|y l' Hy Hl']; subst.
  destruct (Z.eqb_spec (e_id x) i) as [E|E].
  - destruct Hin as [<-|Hin]; [cbn in Hl; discriminate|]. split; [right; exact Hin|].
    intros E'. apply Hy. rewrite E, <- E'. apply in_map. exact Hin.
  - destruct Hin as [<-|Hin]; [split; [left; reflexivity | exact E]|].
    destruct (IH Hl' Hin Hl) as [H1 H2]. split; [right; exact H1 | exact H2].
Qed.

Lemma needs_item_lock p : needs_item p = true -> lock_pc p = true.
Proof. destruct p; cbn; try discriminate; reflexivity. Qed.

(* a step that leaves the list alone and moves only t, which is not between its exchange and its link *)
Lemma frame_L s s' t p' :
  L1 s -> L2 s -> lst s' = lst s -> pcs s' = upd (pcs s) t p' -> (needs_item p' = true -> lst s <> []) ->
  (forall i w q o, pcs s t <> PA_link i w q o) -> L1 s' /\ L2 s'.
Proof.
  intros H1 H2 El Ep Hn Hl. split.
  - intros u. rewrite El, Ep. destruct (Z.eq_dec u t) as [->|N]; [rewrite upd_same; exact Hn | rewrite upd_other by exact N; apply H1].
  - intros e. rewrite El, Ep. intros Hin He. destruct (H2 e Hin He) as (u & w & q & o & E).
    exists u, w, q, o. rewrite upd_other; [exact E|]. intros ->. apply (Hl _ _ _ _ E).
Qed.

Ltac break_B B :=
  repeat match type of B with
  | context [match ?x with _ => _ end] => destruct x eqn:?; try discriminate B
  end; try (injection B as <-).

Ltac frame_tac s t H1 H2 Hpc :=
  eapply (frame_L s _ t); [exact H1 | exact H2 | sproj; reflexivity | sproj; reflexivity
                          | try (intros X; discriminate X) | rewrite Hpc; try discriminate ].

Theorem step2_preserves ina rb s a s' : 0 <= rb < 2 -> Inv2 ina s -> step rb s a s' -> Inv2 ina s'.
Proof.
  intros Hrb (I & H1 & H2) St. pose proof (step_preserves ina rb s a s' Hrb I St) as I'. split; [exact I'|].
  destruct a as [t c|t]; destruct St as [V B].
  - (* begin *)
    unfold begin in B. destruct (pcs s t) eqn:Hpc; try discriminate.
    destruct c; break_B B; frame_tac s t H1 H2 Hpc.
  - unfold gstep in B. destruct (pcs s t) eqn:Hpc; try discriminate B.
    all: try (break_B B; frame_tac s t H1 H2 Hpc; fail).
    + (* PA_xchg *) injection B as <-. split.
      * intros u. sproj. intros Hn. destruct (lst s); discriminate.
      * intros e. sproj. intros Hin Hl. apply in_app_or in Hin. destruct Hin as [Hin|[<-|[]]].
        -- destruct (H2 e Hin Hl) as (u & w & q & o & E). exists u, w, q, o. rewrite upd_other; [exact E|]. intros ->. congruence.
        -- exists t. eexists. eexists. eexists. rewrite upd_same. cbn [e_id]. reflexivity.
    + (* PA_link *) injection B as <-. split.
      * intros u. sproj. intros Hn. rewrite link_nil_iff.
        destruct (Z.eq_dec u t) as [->|N]; [rewrite upd_same in Hn; destruct was_empty; try destruct ovr; discriminate|].
        rewrite upd_other in Hn by exact N. apply (H1 u Hn).
      * intros e. sproj. intros Hin Hl.
        destruct (in_link_id _ _ _ (ids_nodup ina s I) Hin Hl) as [Hin' Hne].
        destruct (H2 e Hin' Hl) as (u & w & q & o & E). exists u, w, q, o. rewrite upd_other; [exact E|]. intros ->.
        rewrite Hpc in E. injection E as E _ _ _. congruence.
    + (* PW_tail *) break_B B; frame_tac s t H1 H2 Hpc. intros _. congruence.
    + (* PW_head *) break_B B; frame_tac s t H1 H2 Hpc. intros _. congruence.
    + (* PW_chk *) break_B B; frame_tac s t H1 H2 Hpc. intros _. apply (H1 t). rewrite Hpc. reflexivity.
    + (* PW_pop *) destruct (lst s) as [|e [|e2 l']] eqn:L; [discriminate| |].
      * injection B as <-. split.
        -- intros u. sproj. intros Hn.
           destruct (Z.eq_dec u t) as [->|N]; [rewrite upd_same in Hn; discriminate|].
           rewrite upd_other in Hn by exact N. exfalso.
           assert (u = t).
           { destruct I as [_ T]. pose proof (holder_lock s u (T u) (needs_item_lock _ Hn)) as K1.
             assert (K2 : lockh s = Some t) by (apply (holder_lock s t (T t)); rewrite Hpc; reflexivity). congruence. }
           contradiction.
        -- intros e'. sproj. contradiction.
      * destruct (e_linked e2); [|discriminate]. injection B as <-. split.
        -- intros u. sproj. discriminate.
        -- intros e'. sproj. intros Hin Hl.
           assert (Hin' : In e' (lst s)) by (rewrite L; right; exact Hin).
           destruct (H2 e' Hin' Hl) as (u & w & q & o & E). exists u, w, q, o. rewrite upd_other; [exact E|]. intros ->. congruence.
    + (* PW_run *) injection B as <-. eapply (frame_L s _ t); [exact H1 | exact H2 | sproj; reflexivity | sproj; reflexivity | | rewrite Hpc; discriminate].
      intros X. apply (H1 t). rewrite Hpc. destruct more; [reflexivity | discriminate X].
    + (* PW_incall *) injection B as <-. eapply (frame_L s _ t); [exact H1 | exact H2 | sproj; reflexivity | sproj; reflexivity | | rewrite Hpc; discriminate].
      intros X. apply (H1 t). rewrite Hpc. destruct more; [reflexivity | discriminate X].
    + (* PW_next *) break_B B; frame_tac s t H1 H2 Hpc.
      * intros _. apply (H1 t). rewrite Hpc. reflexivity.
      * intros _. congruence.
    + (* PR_bctail *) break_B B; frame_tac s t H1 H2 Hpc. intros _. congruence.
    + (* PR_bcsusp *) break_B B; frame_tac s t H1 H2 Hpc. intros _. apply (H1 t). rewrite Hpc. reflexivity.
Qed.

Theorem Inv2_reachable rb ina s : 0 <= rb < 2 -> reach rb ina s -> Inv2 ina s.
Proof.
  intros Hrb. apply invariant_lift.
  - intros s0 ->. apply Inv2_init. exact Hrb.
  - intros s1 a s2 I H. exact (step2_preserves ina rb s1 a s2 Hrb I H).
Qed.

(* ---------------------------------------------------------------- enabledness *)
Definition enabled (rb : Z) (s : gst) (t : Z) : Prop := exists s', gstep rb s t = Some s'.

(* program points at which a thread may have to wait for another thread *)
Definition waits_pc (p : pc) : bool :=
  match p with PW_head _ | PW_pop _ | PR_bchead _ | PS_slock | PR_slock => true | _ => false end.
Definition crashed_pc (p : pc) : bool := match p with PCrash _ => true | _ => false end.

Lemma delta_cases s :
  (if side s =? 0 then u64 (delta0 - HAS_SIDE) else delta0) = 36028797018963968 * (if side s =? 0 then 244 else 248).
Proof. destruct (side s =? 0); reflexivity. Qed.
Lemma delta_cases_r s :
  (if side s =? HALF then u64 (delta0 - HAS_SIDE) else delta0) = 36028797018963968 * (if side s =? HALF then 244 else 248).
Proof. destruct (side s =? HALF); reflexivity. Qed.

(* every other program point inside a call has an enabled step, whatever the other threads are doing *)
Theorem nonwaiting_enabled rb ina s t :
  0 <= rb < 2 -> reach rb ina s -> valid_tid t -> pcs s t <> Idle -> waits_pc (pcs s t) = false ->
  crashed_pc (pcs s t) = false -> enabled rb s t.
Proof.
  intros Hrb R Vt NI NW NCr. destruct (Inv2_reachable rb ina s Hrb R) as (I & H1 & H2).
  pose proof I as [(r & A & B & C & D) T].
  pose proof A as A'. dA A'. pose proof Gwf as W. unfold wfr in W.
  unfold enabled, gstep.
  destruct (pcs s t) eqn:Hpc; try contradiction; try discriminate NW; try discriminate NCr;
    try (eexists; reflexivity).
  - (* PW_lock *) rewrite Genc, (lock_fields r t floor 0 Gwf Vt).
    destruct (lock_free r); [destruct ((f_role r mod 2 =? 1) && (floor <? f_mq r))|]; eexists; reflexivity.
  - (* PW_next *) destruct more; eexists; reflexivity.
  - (* PW_unlock *)
    assert (owned = OWN) by (apply (owned_is_OWN ina s t owned I); rewrite Hpc; reflexivity). subst owned.
    assert (K : lockh s = Some t) by (apply (holder_lock s t (T t)); rewrite Hpc; reflexivity).
    assert (Kt : token s = Some (Some t)) by (apply (holder_token s t (T t)); rewrite Hpc; reflexivity).
    rewrite K in Glock. destruct Glock as [_ (O & Ib & Wq)].
    assert (En : f_enq r = 1) by (apply Genq; rewrite Kt; discriminate).
    rewrite Genc. change OWN with (18014398509481984 + 2199023255552 + 2147483648 * 1).
    destruct (Z.eq_dec (f_hi r) 0) as [H0|H0].
    + rewrite (unlock_fields r 1 Gwf H0 Ib Wq) by lia. destruct (f_d r =? 1); eexists; reflexivity.
    + rewrite (unlock_fields_susp r 1 Gwf ltac:(lia) Ib Wq) by lia. eexists; reflexivity.
  - (* PS_rmw *) rewrite Genc, (suspend_fields r Gwf). destruct (f_hi r <? 504); eexists; reflexivity.
  - (* PS_srmw *) rewrite Genc, delta_cases. rewrite (suspend_slow_fields r _ Gwf) by (destruct (side s =? 0); lia).
    match goal with |- context [if ?c then NoCommit _ _ else _] => destruct c end; eexists; reflexivity.
  - (* PS_sside *) destruct (4294967296 <=? side s + HALF); eexists; reflexivity.
  - (* PR_rmw *) rewrite Genc. change (SLaneS.lockbits t) with (SLaneS_fields.lockbits t).
    rewrite (resume_fields r t Gwf Vt Gpb).
    destruct (f_hi r =? 9); [|destruct (f_hi r <? 8); [|cbv zeta; destruct (runnable_b (set_hi r (f_hi r - 8)) && (f_owner r =? 0))]];
      repeat match goal with |- context [if ?c then _ else _] => destruct c end; eexists; reflexivity.
  - (* PR_srmw *) destruct (side s =? 0); [eexists; reflexivity|].
    rewrite Genc, delta_cases_r. rewrite (resume_slow_fields r _ Gwf) by (destruct (side s =? HALF); lia).
    match goal with |- context [if ?c then Commit _ _ else _] => destruct c end; eexists; reflexivity.
  - (* PR_role *) rewrite Genc. unfold ROLE_UNIT. rewrite (inherit_fields r rb Gwf ltac:(lia)).
    destruct (f_role r =? rb); eexists; reflexivity.
  - (* PR_cbc *)
    pose proof (qos_in_range ina s t qos I) as Q. rewrite Hpc in Q. specialize (Q eq_refl).
    assert (K : lockh s = Some t) by (apply (holder_lock s t (T t)); rewrite Hpc; reflexivity).
    rewrite K in Glock. destruct Glock as [_ (O & Ib & Wq)].
    rewrite Genc. unfold SERIAL_OWNED, ENQUEUED.
    rewrite (cbc_fields r qos 1 (b2z target) (if target then 2147483648 else 0) Gwf Ib Wq Grole Q) by (destruct target; auto).
    cbv zeta. repeat match goal with |- context [if ?c then _ else _] => destruct c end; eexists; reflexivity.
  - (* PA_owake *) pose proof (qos_in_range ina s t qos I) as Q. rewrite Hpc in Q. specialize (Q eq_refl).
    rewrite Genc. unfold ENQUEUED. rewrite (wakeup_fields_plain r qos 1 1 Gwf Q eq_refl). cbv zeta.
    repeat match goal with |- context [if ?c then _ else _] => destruct c end; eexists; reflexivity.
  - (* PC_rmw *) rewrite Genc, (activate_fields r Gwf).
    destruct (f_hi r =? 3); [|destruct ((f_hi r / 2) mod 2 =? 1)];
      repeat match goal with |- context [if ?c then _ else _] => destruct c end; eexists; reflexivity.
Qed.

(* ---------------------------------------------------------------- only the moving thread's program point changes *)
Lemma gstep_frame rb s t s' u : gstep rb s t = Some s' -> u <> t -> pcs s' u = pcs s u.
Proof.
  intros B N. unfold gstep in B.
  destruct (pcs s t); try discriminate B; break_B B; sproj; try (apply upd_other; exact N); reflexivity.
Qed.

Lemma begin_frame s t c s' u : begin s t c = Some s' -> u <> t -> pcs s' u = pcs s u.
Proof.
  intros B N. unfold begin in B.
  destruct (pcs s t); try discriminate B. destruct c; break_B B; sproj; try (apply upd_other; exact N); reflexivity.
Qed.

(* threads inside a call have valid ids *)
Lemma active_valid rb ina s : reach rb ina s -> forall t, pcs s t <> Idle -> valid_tid t.
Proof.
  induction 1 as [s0 ->|s a s' R IH St]; [intros t H; exfalso; apply H; reflexivity|].
  intros u Hu. destruct a as [t c|t]; destruct St as [V B]; (destruct (Z.eq_dec u t) as [->|N]; [exact V|]); apply IH.
  - rewrite <- (begin_frame s t c s' u B N). exact Hu.
  - rewrite <- (gstep_frame rb s t s' u B N). exact Hu.
Qed.

(* Every thread inside a call either can step, or waits for ONE NAMED thread:
     - at PW_head / PW_pop / PR_bchead (a drainer, or the resumer doing the hand-off, in _dispatch_wait_for_enqueuer): the
       submitter u that exchanged the tail for the unlinked entry and is at PA_link for it; u's link step is enabled;
     - at PS_slock / PR_slock (the side-counter path of dispatch_suspend / dispatch_resume): the holder u of the side
       lock; u's step is enabled, unless u has crashed on the documented nesting limit while holding it. *)
Definition link_wait_pc (p : pc) : bool := match p with PW_head _ | PW_pop _ | PR_bchead _ => true | _ => false end.
Definition side_wait_pc (p : pc) : bool := match p with PS_slock | PR_slock => true | _ => false end.

Theorem no_stuck_thread_named rb ina s t :
  0 <= rb < 2 -> reach rb ina s -> pcs s t <> Idle -> crashed_pc (pcs s t) = false ->
  enabled rb s t \/
  (link_wait_pc (pcs s t) = true /\
   exists u e w q o, u <> t /\ In e (lst s) /\ e_linked e = false /\ pcs s u = PA_link (e_id e) w q o /\ enabled rb s u) \/
  (side_wait_pc (pcs s t) = true /\
   exists u, u <> t /\ sidelock s = Some u /\ (enabled rb s u \/ crashed_pc (pcs s u) = true)).
Proof.
  intros Hrb R NI NCr. pose proof (active_valid rb ina s R t NI) as Vt.
  destruct (waits_pc (pcs s t)) eqn:Wt; [|left; apply (nonwaiting_enabled rb ina s t Hrb R Vt NI Wt NCr)].
  destruct (Inv2_reachable rb ina s Hrb R) as (I & H1 & H2). pose proof I as [_ T].
  assert (LinkEn : forall u i w q o, pcs s u = PA_link i w q o -> enabled rb s u).
  { intros u i w q o E. unfold enabled, gstep. rewrite E. eexists. reflexivity. }
  assert (Side : sidelock_pc (pcs s t) = false -> forall w, sidelock s = Some w ->
                 exists u, u <> t /\ sidelock s = Some u /\ (enabled rb s u \/ crashed_pc (pcs s u) = true)).
  { intros Ns w E. assert (Sw : sidelock_pc (pcs s w) = true) by (destruct (T w) as (_ & _ & _ & T4 & _); apply T4; exact E).
    assert (Nw : w <> t) by (intros ->; congruence).
    exists w. split; [exact Nw|]. split; [exact E|].
    destruct (crashed_pc (pcs s w)) eqn:Cw; [right; reflexivity|]. left.
    assert (NIw : pcs s w <> Idle) by (intros X; rewrite X in Sw; discriminate).
    apply (nonwaiting_enabled rb ina s w Hrb R (active_valid rb ina s R w NIw) NIw); [|exact Cw].
    destruct (pcs s w); cbn in Sw |- *; try discriminate; reflexivity. }
  assert (Link : forall e, In e (lst s) -> e_linked e = false ->
                 exists u e' w q o, u <> t /\ In e' (lst s) /\ e_linked e' = false /\ pcs s u = PA_link (e_id e') w q o /\ enabled rb s u).
  { intros e Hin El. destruct (H2 e Hin El) as (u & w & q & o & Eu). exists u, e, w, q, o.
    split; [intros ->; rewrite Eu in Wt; discriminate Wt|]. repeat split; auto. apply (LinkEn u _ _ _ _ Eu). }
  unfold enabled at 1. unfold gstep.
  destruct (pcs s t) eqn:Hpc; try discriminate Wt.
  - (* PW_head *)
    assert (L : lst s <> []) by (apply (H1 t); rewrite Hpc; reflexivity).
    destruct (lst s) as [|e l] eqn:E; [contradiction|].
    destruct (e_linked e) eqn:El; [left; eexists; reflexivity|].
    right; left. split; [reflexivity|]. apply (Link e); [left; reflexivity | exact El].
  - (* PW_pop *)
    assert (L : lst s <> []) by (apply (H1 t); rewrite Hpc; reflexivity).
    destruct (lst s) as [|e [|e2 l]] eqn:E; [contradiction | left; eexists; reflexivity |].
    destruct (e_linked e2) eqn:El; [left; eexists; reflexivity|].
    right; left. split; [reflexivity|]. apply (Link e2); [right; left; reflexivity | exact El].
  - (* PS_slock *)
    destruct (sidelock s) as [w|] eqn:E; [right; right; split; [reflexivity | apply (Side eq_refl w eq_refl)] | left; eexists; reflexivity].
  - (* PR_slock *)
    destruct (sidelock s) as [w|] eqn:E; [right; right; split; [reflexivity | apply (Side eq_refl w eq_refl)] | left; eexists; reflexivity].
  - (* PR_bchead *)
    assert (L : lst s <> []) by (apply (H1 t); rewrite Hpc; reflexivity).
    destruct (lst s) as [|e l] eqn:E; [contradiction|].
    destruct (e_linked e) eqn:El; [left; eexists; reflexivity|].
    right; left. split; [reflexivity|]. apply (Link e); [left; reflexivity | exact El].
Qed.

(* the weaker, anonymous form *)
Corollary no_stuck_thread rb ina s t :
  0 <= rb < 2 -> reach rb ina s -> pcs s t <> Idle -> crashed_pc (pcs s t) = false ->
  enabled rb s t \/ (exists u, u <> t /\ enabled rb s u) \/ (exists u, crashed_pc (pcs s u) = true).
Proof.
  intros Hrb R NI NCr. destruct (no_stuck_thread_named rb ina s t Hrb R NI NCr) as [H|[[_ H]|[_ H]]]; [left; exact H| |].
  - destruct H as (u & e & w & q & o & N & _ & _ & _ & En). right; left. exists u. split; assumption.
  - destruct H as (u & N & _ & [En|Cr]); [right; left; exists u; split; assumption | right; right; exists u; exact Cr].
Qed.

(* The program points of dispatch_suspend / dispatch_resume / dispatch_activate OTHER THAN the three waiting points always
   have an enabled step, whatever drainers and submitters do.  The calls CAN wait, exactly at: PS_slock / PR_slock (for the
   side-lock holder, another suspender / resumer on the side-counter path) and PR_bchead (the hand-off of the resume that
   brought the count to zero waits, like any drainer, for the enqueuer of the head item to publish its link);
   no_stuck_thread_named says for whom and that that thread can step. *)
Definition susp_api_pc (p : pc) : bool :=
  match p with
  | PS_rmw | PS_srmw | PS_sside | PS_sunlock | PS_sretry | PS_ret
  | PR_rmw | PR_srmw | PR_sside | PR_sunlock | PR_sretry | PR_role
  | PR_bctail _ | PR_bcsusp _ | PR_cbc _ _ | PR_bcxor _ | PC_rmw => true
  | _ => false
  end.

Theorem suspend_resume_enabled_outside_waits rb ina s t :
  0 <= rb < 2 -> reach rb ina s -> susp_api_pc (pcs s t) = true -> enabled rb s t.
Proof.
  intros Hrb R H.
  assert (NI : pcs s t <> Idle) by (intros X; rewrite X in H; discriminate).
  apply (nonwaiting_enabled rb ina s t Hrb R (active_valid rb ina s R t NI) NI);
    destruct (pcs s t); cbn in H |- *; try discriminate; reflexivity.
Qed.

(* dispatch_async never waits either (as in SLane) *)
Theorem async_never_blocks rb ina s t :
  0 <= rb < 2 -> reach rb ina s ->
  (match pcs s t with PA_xchg _ _ | PA_link _ _ _ _ | PA_probe _ | PA_wake _ _ | PA_rootpush | PA_oprobe _ | PA_owake _ => true
   | _ => false end) = true ->
  enabled rb s t.
Proof.
  intros Hrb R H.
  assert (NI : pcs s t <> Idle) by (intros X; rewrite X in H; discriminate).
  apply (nonwaiting_enabled rb ina s t Hrb R (active_valid rb ina s R t NI) NI);
    destruct (pcs s t); cbn in H |- *; try discriminate; reflexivity.
Qed.

(* ---------------------------------------------------------------- executable runs are reachable states *)
Definition act_valid (a : action) : bool :=
  match a with ABegin t _ | AStep t => (0 <? t) && (t <? 1073741824) end.

Lemma run_reach rb ina acts : forall s s', reach rb ina s -> forallb act_valid acts = true -> run rb s acts = Some s' -> reach rb ina s'.
Proof.
  induction acts as [|a acts IH]; cbn [run forallb]; intros s s' R V E.
  - injection E as <-. exact R.
  - apply andb_true_iff in V. destruct V as [Va V].
    assert (Vt : forall t, (0 <? t) && (t <? 1073741824) = true -> valid_tid t).
    { intros t Ht. apply andb_true_iff in Ht. destruct Ht as [A B]. apply Z.ltb_lt in A. apply Z.ltb_lt in B. split; assumption. }
    destruct a as [t c|t]; cbn [act_valid] in Va.
    + destruct (begin s t c) as [s1|] eqn:B; [|discriminate].
      apply (IH s1 s'); [|exact V|exact E]. apply (reach_step _ _ s (ABegin t c) s1 R). split; [apply Vt; exact Va | exact B].
    + destruct (gstep rb s t) as [s1|] eqn:B; [|discriminate].
      apply (IH s1 s'); [|exact V|exact E]. apply (reach_step _ _ s (AStep t) s1 R). split; [apply Vt; exact Va | exact B].
Qed.

Definition act_tid (a : action) : Z := match a with ABegin t _ | AStep t => t end.

Lemma run_frame rb acts u : forall s s', run rb s acts = Some s' -> forallb (fun a => negb (act_tid a =? u)) acts = true -> pcs s' u = pcs s u.
Proof.
  induction acts as [|a acts IH]; cbn [run forallb]; intros s s' E V.
  - injection E as <-. reflexivity.
  - apply andb_true_iff in V. destruct V as [Va V]. apply negb_true_iff in Va. apply Z.eqb_neq in Va.
    destruct a as [t c|t]; cbn [act_tid] in Va.
    + destruct (begin s t c) as [s1|] eqn:B; [|discriminate]. rewrite (IH s1 s' E V). apply (begin_frame s t c s1 u B). congruence.
    + destruct (gstep rb s t) as [s1|] eqn:B; [|discriminate]. rewrite (IH s1 s' E V). apply (gstep_frame rb s t s1 u B). congruence.
Qed.

(* ---------------------------------------------------------------- a concrete run
   thread 5 submits item 0 and wakes the lane; worker 7 takes the lock and is inside the callout of item 0 when
   thread 8's dispatch_suspend commits and returns; thread 6 submits item 1 (its wakeup only sets DIRTY: the word
   is suspended); the callout ends, the drainer sees the suspension at the head of its next iteration and leaves
   through _dispatch_queue_invoke_finish without re-enqueueing; item 1 sits.  Thread 8's dispatch_resume brings the
   count to zero on an unlocked lane: it takes the lock, finds the list non-empty, sets ENQUEUED and pushes the lane
   on its target; worker 9 runs item 1. *)
Definition steps (t : Z) (n : nat) : list action := repeat (AStep t) n.
Definition demo_susp : list action :=
  [ABegin 5 (CAsync 2 false)] ++ steps 5 5 ++
  [ABegin 7 (CWorker 0)] ++ steps 7 7 ++       (* lock (qos floor retry), lock, tail, head, chk, pop, run: inside the callout *)
  [ABegin 8 CSuspend] ++ steps 8 2 ++          (* the suspending RMW, return *)
  [ABegin 6 (CAsync 4 false)] ++ steps 6 4 ++        (* exchange, link, probe, wakeup (no enqueue: suspended) *)
  steps 7 5.                                   (* callout ends, next, head, chk -> suspended, invoke_finish *)
Definition demo_resume : list action :=
  [ABegin 8 CResume] ++ steps 8 6 ++           (* rmw (takes the lock), tail, suspended?, head, class_barrier_complete, push *)
  [ABegin 9 (CWorker 0)] ++ steps 9 10.

Definition demo_mid := run 1 (init_state 1 false) demo_susp.
Definition demo_final := run 1 (init_state 1 false) (demo_susp ++ demo_resume).

Lemma quiescent_by_frame acts s (ts : list Z) :
  run 1 (init_state 1 false) acts = Some s ->
  (forall t, In t ts -> pcs s t = Idle) ->
  forallb (fun a => existsb (Z.eqb (act_tid a)) ts) acts = true ->
  quiescent s.
Proof.
  intros E H V t. destruct (in_dec Z.eq_dec t ts) as [Hin|Hn]; [apply H; exact Hin|].
  rewrite (run_frame 1 acts t (init_state 1 false) s E); [reflexivity|].
  rewrite forallb_forall in V |- *. intros a Ha. specialize (V a Ha). apply negb_true_iff. apply Z.eqb_neq. intros X.
  apply existsb_exists in V. destruct V as (x & Hx & Ex). apply Z.eqb_eq in Ex. apply Hn. rewrite <- X, Ex. exact Hx.
Qed.

Lemma demo_mid_reach :
  exists s, demo_mid = Some s /\ reach 1 false s /\ quiescent s /\
            susp_done s = 1 /\ suspended_word (st s) = true /\ map e_id (lst s) = [1] /\ started s = [0] /\
            rootq s = 0 /\ token s = None /\ plic s = false /\ pstarts s = 0.
Proof.
  unfold demo_mid. destruct (run 1 (init_state 1 false) demo_susp) as [s|] eqn:E; [|vm_compute in E; discriminate].
  exists s. split; [reflexivity|]. split.
  - apply (run_reach 1 false demo_susp (init_state 1 false) s); [apply reach_init; reflexivity | vm_compute; reflexivity | exact E].
  - split.
    + apply (quiescent_by_frame demo_susp s [5; 6; 7; 8] E); [|vm_compute; reflexivity].
      intros t Ht. vm_compute in E. injection E as <-. cbn [In] in Ht.
      destruct Ht as [<-|[<-|[<-|[<-|[]]]]]; reflexivity.
    + vm_compute in E. injection E as <-. repeat split.
Qed.

Lemma demo_final_reach :
  exists s, demo_final = Some s /\ reach 1 false s /\ quiescent s /\
            susp_done s = 0 /\ suspended_word (st s) = false /\ lst s = [] /\ started s = [1; 0] /\ rootq s = 0.
Proof.
  unfold demo_final. destruct (run 1 (init_state 1 false) (demo_susp ++ demo_resume)) as [s|] eqn:E; [|vm_compute in E; discriminate].
  exists s. split; [reflexivity|]. split.
  - apply (run_reach 1 false (demo_susp ++ demo_resume) (init_state 1 false) s);
      [apply reach_init; reflexivity | vm_compute; reflexivity | exact E].
  - split.
    + apply (quiescent_by_frame (demo_susp ++ demo_resume) s [5; 6; 7; 8; 9] E); [|vm_compute; reflexivity].
      intros t Ht. vm_compute in E. injection E as <-. cbn [In] in Ht.
      destruct Ht as [<-|[<-|[<-|[<-|[<-|[]]]]]]; reflexivity.
    + vm_compute in E. injection E as <-. repeat split.
Qed.
