(* RootQ_wake_proofs.v — Part 3 of the root queue proofs: no lost wake-up.
   Whenever an item is pushed and not claimed, some thread is at a program point from which a look at the queue (or the
   poke that leads to one) is unavoidable, or the pool semaphore holds a signal. *)
From Coq Require Import ZArith Bool List Lia.
From Verif Require Import Word Conc Gen_consts Gen_fields Gen_rootq RootQ RootQ_proofs RootQ_pool_proofs.
Import ListNotations.
Local Open Scope Z_scope.

(* program points that carry the duty to look at the queue or to wake somebody who will:
   - a pusher whose store to dq_items_head is in flight, then its poke up to the semaphore signal,
   - any poke up to the semaphore signal, a pthread_create in flight,
   - a worker that has started / is inside _dispatch_root_queue_drain_one before it decided to sleep (including the
     contended wait and the holder of the mediator, which re-pokes when it leaves an item behind),
   - a worker that timed out and is about to give its slot back (it pokes afterwards). *)
Definition tok (p : pc) : bool :=
  match p with
  | PPushLink _ _ prev => prev =? 0
  | PPokeProbe _ _ _ | PSigInc _ _ _ | PCreate _ _ | PWStart | PDrainXchg | PDrainCasNull | PDrainTail
  | PCwEval _ _ | PCwEvalT _ _ | PDrainNext _ | PDrainStoreNull _ | PDrainCasTail _ | PDrainWaitNext _ _
  | PDrainStoreHead _ _ | PExitInc => true
  | PCwOut st => st =? ST_READY
  | _ => false
  end.
(* signals held by the pool semaphore: banked in dsema_value, being posted, or posted to the kernel semaphore *)
Definition surplus (s : gst) : Z := Z.max 0 (sval s) + cnt is_sigpost s + ksem s.

Definition Inv4 (s : gst) : Prop := unclaimed s <> [] -> (exists t, tok (pcs s t) = true) \/ 1 <= surplus s.

Lemma Inv4_init p0 : Inv4 (init_state p0).
Proof. intros H. exfalso. apply H. reflexivity. Qed.

Lemma surplus_step s s1 t p' : InvC s -> pcs s1 = pcs s -> seen s1 = seen s ->
  surplus (set_pc s1 t p') = Z.max 0 (sval s1) + (cnt is_sigpost s - is_sigpost (pcs s t) + is_sigpost p') + ksem s1.
Proof.
  intros IC Ep Es. unfold surplus.
  assert (S1 : support_ok s1). { destruct (C_sup s IC) as [A B]. split; [rewrite Es; exact A|]. intros u. rewrite Ep, Es. apply B. }
  rewrite cnt_set_pc by (auto; reflexivity). rewrite Ep. unfold cnt. rewrite Ep, Es. reflexivity.
Qed.

Lemma inv4_keep s s1 t p' :
  Inv4 s -> InvC s -> pcs s1 = pcs s -> seen s1 = seen s ->
  unclaimed (set_pc s1 t p') = unclaimed s ->
  (unclaimed s <> [] ->
     tok p' = true \/ 1 <= surplus (set_pc s1 t p') \/ (tok (pcs s t) = false /\ surplus s <= surplus (set_pc s1 t p'))) ->
  Inv4 (set_pc s1 t p').
Proof.
  intros I4 IC Ep Es EU K U'. rewrite EU in U'. specialize (K U').
  destruct K as [K|[K|[K1 K2]]].
  - left. exists t. cbn. rewrite upd_same. exact K.
  - right. exact K.
  - destruct (I4 U') as [(u & Hu)|Hs].
    + left. exists u. cbn. rewrite Ep. rewrite upd_other; [exact Hu|]. intros ->. congruence.
    + right. lia.
Qed.
