(* RootQ_wake_proofs.v — Part 3 of the root queue proofs: no lost wake-up.
   Whenever an item is pushed and not claimed, some thread is at a program point from which a look at the queue (or the
   poke that leads to one) is unavoidable, or the pool semaphore holds a signal. *)
From Coq Require Import ZArith Bool List Lia ZifyBool.
From Verif Require Import Word Conc Gen_consts Gen_fields Gen_rootq RootQ RootQ_proofs RootQ_pool_proofs.
Import ListNotations.
Local Open Scope Z_scope.

(* tok (program points that carry the duty to look or to wake) and surplus (signals held by the pool semaphore) are defined in
   Model/RootQ.v *)
Definition Inv4 (s : gst) : Prop := unclaimed s <> [] -> (exists t, tok (pcs s t) = true) \/ 1 <= surplus s.

Lemma Inv4_init p0 : Inv4 (init_state p0).
Proof. intros H. exfalso. apply H. reflexivity. Qed.

Lemma surplus_step s s1 t p' : InvC s -> pcs s1 = pcs s -> seen s1 = seen s ->
  surplus (set_pc s1 t p') = Z.max 0 (sval s1) + (cnt is_sigpost s - is_sigpost (pcs s t) + is_sigpost p') + ksem s1.
Proof.
  intros IC Ep Es. unfold surplus.
  assert (S1 : support_ok s1). { destruct (C_sup s IC) as [A B]. split; [rewrite Es; exact A|]. intros u. rewrite Ep, Es. apply B. }
  rewrite cnt_set_pc by (auto; reflexivity). rewrite Ep. unfold cnt. rewrite Ep, Es. reflexivity.
Qed.

Lemma inv4_keep s s1 t p' :
  Inv4 s -> InvC s -> pcs s1 = pcs s -> seen s1 = seen s ->
  unclaimed (set_pc s1 t p') = unclaimed s ->
  (unclaimed s <> [] ->
     tok p' = true \/ 1 <= surplus (set_pc s1 t p') \/ (tok (pcs s t) = false /\ surplus s <= surplus (set_pc s1 t p'))) ->
  Inv4 (set_pc s1 t p').
Proof.
  intros I4 IC Ep Es EU K U'. rewrite EU in U'. specialize (K U').
  destruct K as [K|[K|[K1 K2]]].
  - left. exists t. cbn. rewrite upd_same. exact K.
  - right. exact K.
  - destruct (I4 U') as [(u & Hu)|Hs].
    + left. exists u. cbn. rewrite Ep. rewrite upd_other; [exact Hu|]. intros ->. congruence.
    + right. lia.
Qed.

Lemma cnt_sigpost_nonneg s : 0 <= cnt is_sigpost s.
Proof. apply cnt_nonneg. apply weights_nonneg. Qed.

(* K2 of inv4_keep, the common endings *)
Ltac k_tok := left; reflexivity.
Ltac k_same IC Hpc :=
  right; right; split; [rewrite Hpc; reflexivity|];
  rewrite (surplus_step _ _ _ _ IC) by reflexivity; unfold surplus; rewrite ?Hpc;
  cbn [sval ksem set_pend set_pool set_sval set_ksem set_head set_nxt set_owner do_run is_sigpost kret]; lia.
Ltac keep I4 IC Hpc :=
  match goal with
  | |- Inv4 (set_pc ?s1 ?t ?p) => apply (inv4_keep _ s1 t p I4 IC); [reflexivity | reflexivity | reflexivity | intros U]
  end.

Theorem inv4_step oc s t e s' : Inv1 s -> InvC s -> Inv4 s -> gstep oc s t e = Some s' -> Inv4 s'.
Proof.
  intros I1 IC I4 H.
  pose proof (C_ksem s IC) as Hk. pose proof (cnt_sigpost_nonneg s) as Hsp. pose proof (C_sval s IC) as Hsv.
  destruct (pcs s t) eqn:Hpc; gstep_open H Hpc; try unfold call_entry in H.
  all: try solve [ open_case H; kcases; try match goal with c : ctx |- _ => destruct c end;
                   keep I4 IC Hpc; first [ k_tok | k_same IC Hpc ] ].
  - (* PPushXchg: the list of unclaimed items grows *)
    open_case H. intros U'.
    destruct (holder s) as [w|] eqn:Hw.
    + (* the holder of the mediator re-pokes *)
      left. exists w. destruct (holder_chain s w I1 Hw) as (_ & _ & Hp). cbn.
      rewrite upd_other by (intros ->; rewrite Hpc in Hp; exact Hp).
      destruct (pcs s w); cbn in Hp; try contradiction; reflexivity.
    + destruct (Z.eqb_spec (tail s) 0) as [E0|E0].
      * left. exists t. cbn. rewrite upd_same. cbn. match goal with X : ea e = tail s |- _ => rewrite X, E0 end. reflexivity.
      * assert (U : unclaimed s <> []).
        { unfold unclaimed. rewrite Hw. intros C. apply E0. apply (chain_nil_tail s I1 C). }
        destruct (I4 U) as [(u & Hu)|Hs].
        -- left. exists u. cbn. rewrite upd_other; [exact Hu|]. intros ->. rewrite Hpc in Hu. discriminate.
        -- right. rewrite (surplus_step s _ t _ IC) by reflexivity. unfold surplus in Hs. rewrite Hpc. cbn. lia.
  - (* PPushLink *)
    destruct (Z.eqb_spec prev 0) as [E0|E0]; [subst prev|]; open_case H.
    + apply (inv4_keep s (do_head_store s x) t _ I4 IC); try reflexivity. intros U. k_tok.
    + keep I4 IC Hpc. right; right. split; [rewrite Hpc; cbn; destruct (Z.eqb_spec prev 0); [contradiction|reflexivity]|].
      rewrite (surplus_step _ _ _ _ IC) by reflexivity; unfold surplus; rewrite ?Hpc. cbn. lia.
  - (* PPokeProbe *)
    open_case H; kcases; keep I4 IC Hpc; try k_tok;
      exfalso; apply (unclaimed_tail s I1 U); congruence.
  - (* PSigInc *)
    open_case H; sval_rw;
    (destruct (s64_inc_pos (sval s)) as [E1 E2]; [assumption| unfold RQ_LONG_MIN in *; lia |]); rewrite E1 in *;
    kcases; keep I4 IC Hpc; right; left;
    rewrite (surplus_step _ _ _ _ IC) by reflexivity; rewrite Hpc; cbn; lia.
  - (* PCreate *)
    open_case H; intros _; left; exists (ea e); cbn;
    (rewrite upd_other by assumption); rewrite upd_same; reflexivity.
  - (* PDrainXchg *)
    open_case H.
    all: try (keep I4 IC Hpc; k_tok).
    all: intros _; left; exists t; cbn; rewrite upd_same; reflexivity.
  - (* PDrainTail *)
    open_case H; keep I4 IC Hpc; try k_tok. exfalso; apply (unclaimed_tail s I1 U); congruence.
  - (* PCwEval *)
    destruct q, pd; open_case H; try discriminate; unfold cw_after, cw_resume, ST_READY; cbn [Z.eqb Pos.eqb];
      keep I4 IC Hpc; k_tok.
  - (* PCwEvalT *)
    open_case H; keep I4 IC Hpc; try k_tok.
    all: unfold quiesced_status, cw_after, cw_resume, ST_WAIT, ST_READY, ST_ABORT in *.
    all: match goal with X : ea _ = tail _ |- _ => rewrite X in * end.
    all: pose proof (unclaimed_tail s I1 U) as Tn; destruct (Z.eqb_spec (tail s) 0); [contradiction|].
    all: destruct (hv =? 0), pd; cbn in *; try discriminate; try k_tok; try (exfalso; congruence).
  - (* PCwOut *)
    open_case H; keep I4 IC Hpc. unfold cw_resume.
    destruct (Z.eqb_spec status ST_READY) as [E0|E0]; [k_tok|].
    right; right. split; [rewrite Hpc; cbn; destruct (Z.eqb_spec status ST_READY); [contradiction|reflexivity]|].
    rewrite (surplus_step _ _ _ _ IC) by reflexivity; unfold surplus; rewrite ?Hpc. cbn. lia.
  - (* PDrainCasTail *)
    pose proof (I_thr s I1 t) as Tt. unfold tinv in Tt. rewrite Hpc in Tt. destruct Tt as [Th Tc].
    open_case H.
    + (* detached the last item: nothing unclaimed *)
      intros U'. exfalso. apply U'. unfold unclaimed. cbn.
      destruct (holder_chain s t I1 Th) as (Cn & _ & _).
      destruct (chain s) as [|h' r] eqn:C; [congruence|]. cbn in Tc. subst h'.
      assert (R : r = []).
      { apply (last_cons_eq h r); [rewrite <- C; apply (I_nodup s I1)|]. rewrite <- C, <- (I_tail s I1).
        assumption. }
      subst r. reflexivity.
    + keep I4 IC Hpc. k_tok.
  - (* PDrainStoreHead *)
    pose proof (I_thr s I1 t) as Tt. unfold tinv in Tt. rewrite Hpc in Tt. destruct Tt as (Th & _ & _).
    open_case H. apply (inv4_keep s (do_detach s nx (tail s)) t _ I4 IC); try reflexivity.
    + unfold unclaimed. cbn. rewrite Th. reflexivity.
    + intros U. k_tok.
  - (* PSemDec *)
    open_case H; sval_rw; rewrite s64_dec in * by lia; keep I4 IC Hpc; try k_tok.
    right; right. split; [rewrite Hpc; reflexivity|].
    rewrite (surplus_step _ _ _ _ IC) by reflexivity; unfold surplus; rewrite ?Hpc. cbn. lia.
Qed.

Theorem all_inv_reach oc p0 s : valid_init p0 -> reach oc p0 s -> Inv1 s /\ InvC s /\ Inv4 s.
Proof.
  intros V R. induction R as [s E|s [t e] s' R IH St].
  - subst. split; [apply Inv1_init|]. split; [apply InvC_init; exact V|apply Inv4_init].
  - destruct IH as (I1 & IC & I4). unfold step in St. cbn [fst snd] in St.
    split; [eapply inv1_step; eauto|]. split; [eapply invC_step; eauto|eapply inv4_step; eauto].
Qed.

(* ---- what a signal held by the semaphore means ---- *)
(* a worker whose dispatch_semaphore_wait is guaranteed to return 0 *)
Definition sem_taker (s : gst) (t : Z) : Prop :=
  (pcs s t = PSemDec /\ 1 <= sval s) \/ (is_slow (pcs s t) = 1 /\ 1 <= cnt is_sigpost s + ksem s).
(* a worker that left drain_one with NULL (or is finishing the poke it made before that) and goes to the semaphore *)
Definition to_sem (p : pc) : bool :=
  match p with
  | PCwOut st => negb (st =? ST_READY)
  | PSigPost KNull _ _ | PPendReq KNull _ _ | PPoolLoad KNull _ _ | PPoolLoop KNull _ _ _ => true
  | _ => false
  end.
(* outside the pool protocol: client code (on any thread, or inside a work item on a pool thread, possibly in the part of a
   push or poke that comes after the wake-up duty), or about to invoke an item *)
Definition parked (p : pc) : bool :=
  match p with
  | PNone | PClient _ | PPushCall _ | PPushXchg _ _ | PGot _ => true
  | PPushLink _ _ prev => negb (prev =? 0)
  | PSigPost k _ _ | PPendReq k _ _ | PPoolLoad k _ _ | PPoolLoop k _ _ _ => match k with KNull => false | _ => true end
  | _ => false
  end.

Lemma pc_partition p : tok p = true \/ p = PSemDec \/ is_slow p = 1 \/ to_sem p = true \/ parked p = true.
Proof.
  destruct p; cbn; try tauto; try (destruct k; cbn; tauto);
    try (match goal with |- context [?a =? ?b] => destruct (a =? b) end; cbn; tauto).
Qed.

Lemma find_in_list (b : pc -> bool) (f : Z -> pc) (l : list Z) :
  (exists t, In t l /\ b (f t) = true) \/ (forall t, In t l -> b (f t) = false).
Proof.
  induction l as [|a l IH]; [right; intros t []|].
  destruct (b (f a)) eqn:E; [left; exists a; split; [left; reflexivity|exact E]|].
  destruct IH as [(t & A & B)|IH]; [left; exists t; split; [right; exact A|exact B]|].
  right. intros t [<-|H]; auto.
Qed.
Lemma find_pc (b : pc -> bool) s : b PNone = false -> support_ok s ->
  (exists t, b (pcs s t) = true) \/ (forall t, b (pcs s t) = false).
Proof.
  intros B0 [_ Sup].
  destruct (find_in_list b (pcs s) (seen s)) as [(t & _ & H)|H]; [left; exists t; exact H|]. right. intros t.
  destruct (pcs s t) eqn:E; try (rewrite <- E; apply H; apply Sup; congruence). exact B0.
Qed.

Lemma surplus_meaning s : InvC s -> 1 <= surplus s ->
  (exists t, sem_taker s t) \/ (1 <= sval s /\ forall t, pcs s t <> PSemDec /\ is_slow (pcs s t) = 0).
Proof.
  intros IC Hs. unfold surplus in Hs. pose proof (C_sem s IC) as B. pose proof (C_ksem s IC) as K.
  pose proof (cnt_nonneg is_sigpost s (proj1 (proj2 weights_nonneg))) as P.
  destruct (Z_lt_le_dec 0 (cnt is_sigpost s + ksem s)) as [Pos|Zero].
  - left. assert (0 < cnt is_slow s) by lia.
    destruct (tsum_pos_ex is_slow (pcs s) (seen s) (proj1 weights_nonneg) H) as (t & _ & Ht).
    exists t. right. split; [|lia]. destruct (pcs s t); cbn in *; lia.
  - assert (V : 1 <= sval s) by lia. assert (Z0 : cnt is_slow s = 0) by lia.
    assert (NoSlow : forall t, is_slow (pcs s t) = 0).
    { intros t. destruct (pcs s t) eqn:E; try reflexivity; exfalso;
      assert (In t (seen s)) by (apply (C_sup s IC); congruence);
      pose proof (tsum_ge is_slow (pcs s) (seen s) t (proj1 weights_nonneg) H) as G; rewrite E in G; cbn in G;
      unfold cnt in Z0; lia. }
    destruct (find_pc (fun p => match p with PSemDec => true | _ => false end) s eq_refl (C_sup s IC)) as [(t & Ht)|Hn].
    + left. exists t. left. split; [destruct (pcs s t); try discriminate; reflexivity|exact V].
    + right. split; [exact V|]. intros t. split; [|apply NoSlow]. intros E. specialize (Hn t). rewrite E in Hn. discriminate.
Qed.

(* C01_root_no_lost_wakeup *)
Theorem no_lost_wakeup oc p0 s : valid_init p0 -> reach oc p0 s -> unclaimed s <> [] ->
  (exists t, tok (pcs s t) = true) \/
  (1 <= surplus s /\ exists t, sem_taker s t) \/
  (1 <= sval s /\ exists t, to_sem (pcs s t) = true) \/
  (1 <= sval s /\ forall t, parked (pcs s t) = true).
Proof.
  intros V R U. destruct (all_inv_reach oc p0 s V R) as (I1 & IC & I4).
  destruct (I4 U) as [T|Hs]; [left; exact T|].
  destruct (find_pc tok s eq_refl (C_sup s IC)) as [T|NT]; [left; exact T|].
  destruct (surplus_meaning s IC Hs) as [Tk|[Vp Hn]]; [right; left; auto|].
  destruct (find_pc to_sem s eq_refl (C_sup s IC)) as [T|NS]; [right; right; left; auto|].
  right. right. right. split; [exact Vp|]. intros t.
  destruct (pc_partition (pcs s t)) as [A|[A|[A|[A|A]]]]; try exact A.
  - rewrite NT in A. discriminate.
  - destruct (Hn t) as [X _]. contradiction.
  - destruct (Hn t) as [_ X]. lia.
  - rewrite NS in A. discriminate.
Qed.

(* ---- histories ---- *)
(* the ghost histories record exactly the tail exchanges and the head exchanges that returned an item *)
Lemma hist_step oc s t e s' : gstep oc s t e = Some s' ->
  (hpush s' = hpush s \/ (exists c x, pcs s t = PPushXchg c x /\ hpush s' = hpush s ++ [(x, t)])) /\
  (hpop s' = hpop s \/ (pcs s t = PDrainXchg /\ is_item (ea e) = true /\ ea e = head s /\ hpop s' = hpop s ++ [(ea e, t)])) /\
  (runs s' = runs s \/ (exists h, pcs s t = PGot h /\ runs s' = runs s ++ [(h, t)])).
Proof.
  intros H. destruct (pcs s t) eqn:Hpc; gstep_open H Hpc; try unfold call_entry in H.
  all: repeat split_if H; injection H as <-; cbn; repeat split; auto.
  all: right; b2p; eauto.
Qed.

Definition pushed_by (p : Z) (x : Z * Z) : bool := snd x =? p.

(* C01_root_pop_unique / C01_root_fifo_per_pusher *)
Theorem pops_prefix_of_pushes oc p0 s : reach oc p0 s ->
  exists claimed rest, hpush s = claimed ++ rest /\ map fst claimed = map fst (hpop s) /\ map fst rest = unclaimed s.
Proof.
  intros R. pose proof (I_hist s (inv1_reach oc p0 s R)) as H.
  exists (firstn (length (hpop s)) (hpush s)), (skipn (length (hpop s)) (hpush s)).
  split; [symmetry; apply firstn_skipn|].
  assert (L : length (hpop s) = length (map fst (hpop s))) by (symmetry; apply map_length).
  rewrite <- firstn_map, <- skipn_map, H, L. rewrite firstn_app, skipn_app, Nat.sub_diag, firstn_all, skipn_all. cbn.
  rewrite app_nil_r. auto.
Qed.

Lemma nth_pop_is_nth_push oc p0 s k x w : reach oc p0 s -> nth_error (hpop s) k = Some (x, w) ->
  exists p, nth_error (hpush s) k = Some (x, p).
Proof.
  intros R Hk. pose proof (I_hist s (inv1_reach oc p0 s R)) as H.
  assert (E : nth_error (map fst (hpush s)) k = Some x).
  { rewrite H. rewrite nth_error_app1 by (rewrite map_length; apply nth_error_Some; congruence).
    rewrite nth_error_map, Hk. reflexivity. }
  rewrite nth_error_map in E. destruct (nth_error (hpush s) k) as [[y p]|]; [|discriminate]. cbn in E. injection E as ->. eauto.
Qed.

Theorem fifo_per_pusher oc p0 s p : reach oc p0 s ->
  exists claimed rest, hpush s = claimed ++ rest /\ map fst claimed = map fst (hpop s) /\
    filter (pushed_by p) (hpush s) = filter (pushed_by p) claimed ++ filter (pushed_by p) rest.
Proof.
  intros R. destruct (pops_prefix_of_pushes oc p0 s R) as (c & r & E & M & _). exists c, r.
  split; [exact E|]. split; [exact M|]. rewrite E. apply filter_app.
Qed.

(* ---- C01_root_list_integrity: the concrete structure determines the set of pushed-unclaimed items ---- *)
Record structure (s : gst) (l : list Z) : Prop := {
  S_nodup : NoDup l;
  S_items : forall x, In x l -> is_item x = true;
  S_tail : tail s = last l 0;
  S_lastnxt : l <> [] -> nxt s (last l 0) = 0;
  S_links : forall a b, adjacent a b l -> nxt s a = b \/ (nxt s a = 0 /\ exists t c, pcs s t = PPushLink c b a);
  S_first : match l with
            | [] => head s = 0 \/ head s = MED
            | c :: _ => head s = c \/
                        ((head s = 0 \/ head s = MED) /\
                         ((exists w, holder s = Some w /\ holder_pc (pcs s w)) \/ (exists p k, pcs s p = PPushLink k c 0)))
            end
}.

Theorem list_integrity oc p0 s : reach oc p0 s ->
  structure s (chain s) /\ map fst (hpush s) = map fst (hpop s) ++ unclaimed s /\
  (forall w, holder s = Some w -> exists h r, chain s = h :: r /\ unclaimed s = r) /\ (holder s = None -> unclaimed s = chain s).
Proof.
  intros R. pose proof (inv1_reach oc p0 s R) as I. split; [|split; [apply (I_hist s I)|split]].
  - constructor; try apply I.
    pose proof (I_front s I) as F. unfold front in F.
    destruct (chain s) as [|c r] eqn:C.
    + destruct (holder s), (hstore s); try contradiction; try (destruct F as (_ & F & _); congruence);
        try (destruct F as (F & _); congruence). destruct F as [[_ F]|(? & ? & F & _)]; [exact F|discriminate].
    + destruct (holder s) as [w|] eqn:Hw, (hstore s) as [p|] eqn:Hp; try contradiction.
      * destruct F as (F1 & _ & F3). right. split; [exact F3|]. left. eauto.
      * destruct F as (_ & (k & F2) & F3). right. split; [exact F3|]. right. cbn in F2. eauto.
      * destruct F as [[F _]|(c' & r' & F1 & F2)]; [discriminate|]. left. congruence.
  - intros w Hw. destruct (holder_chain s w I Hw) as (Cn & _ & _). unfold unclaimed. rewrite Hw.
    destruct (chain s) as [|h r]; [congruence|]. eauto.
  - intros Hn. unfold unclaimed. rewrite Hn. reflexivity.
Qed.

(* ---- the monitor ---- *)
(* C01_root_monitor_grows_pool, decision part: a bucket whose queue is not empty and whose registered workers are all
   not runnable is poked with the hard floor target - WORKQ_MAX_TRACKED_TIDS, whatever the other buckets look like *)
Lemma mon_pass_blocked_bucket target soft pre rest : forall g,
  nth_error (mon_pass target soft g (pre ++ (true, 0) :: rest)) (length pre) = Some (Some (target - WORKQ_MAX_TRACKED_TIDS)).
Proof.
  induction pre as [|[pr nr] pre IH]; intros g.
  - cbn. reflexivity.
  - cbn [app length mon_pass]. destruct pr; cbn [negb].
    + destruct (nr =? 0); [apply IH|]. destruct ((nr <? target) && (g + nr <? soft)); apply IH.
    + apply IH.
Qed.
Lemma mon_pass_empty_bucket target soft pre rest nr : forall g,
  nth_error (mon_pass target soft g (pre ++ (false, nr) :: rest)) (length pre) = Some None.
Proof.
  induction pre as [|[pr nr'] pre IH]; intros g.
  - cbn. reflexivity.
  - cbn [app length mon_pass]. destruct pr; cbn [negb].
    + destruct (nr' =? 0); [apply IH|]. destruct ((nr' <? target) && (g + nr' <? soft)); apply IH.
    + apply IH.
Qed.

Definition quiescent (s : gst) : Prop := forall t, pcs s t = PNone \/ exists c, pcs s t = PClient c.

Lemma quiescent_counts s : InvC s -> quiescent s -> pend s = 0 /\ ksem s = 0 /\ 0 <= sval s.
Proof.
  intros IC Q.
  assert (Z0 : forall w, w PNone = 0 -> (forall c, w (PClient c) = 0) -> cnt w s = 0).
  { intros w A B. apply tsum_zero. intros u _. destruct (Q u) as [->|(c & ->)]; auto. }
  pose proof (C_sem s IC) as S. rewrite (Z0 is_slow), (Z0 is_sigpost) in S by auto.
  pose proof (C_pend s IC) as P. rewrite (Z0 w_pend) in P by auto.
  pose proof (C_ksem s IC). lia.
Qed.

Lemma ev_at_refl k o ob off sz a b ok : ev_at (mkEv k o ob off sz a b ok) k o ob off = true.
Proof. unfold ev_at. cbn. rewrite !Z.eqb_refl. reflexivity. Qed.
Section Arith.
Local Ltac Zify.zify_post_hook ::= Z.div_mod_to_equations.
Lemma s64_u64 v : RQ_LONG_MIN <= v <= RQ_LONG_MAX -> s64 (u64 v) = v.
Proof. unfold RQ_LONG_MIN, RQ_LONG_MAX, s64, u64. intros R. lia. Qed.
Lemma s32_u32z v : -2147483648 <= v <= 2147483647 -> s32 (u32z v) = v.
Proof. unfold s32, u32z. intros R. lia. Qed.
End Arith.

(* enabledness of the steps of a poke that finds nobody at the semaphore, no request pending and room in the pool *)
Lemma run_call_mon oc s m f : (pcs s m = PNone \/ exists c, pcs s m = PClient c) -> floor_ok f = true ->
  exists c, gstep oc s m (ev_call_mon f) = Some (set_pc s m (PPokeProbe (KClient c) 1 f)).
Proof.
  intros Pm Ff. assert (E : s64 (u64 f) = f).
  { apply s64_u64. unfold floor_ok, FLOOR_B in Ff. b2p. unfold RQ_LONG_MIN, RQ_LONG_MAX. lia. }
  destruct Pm as [Pm|(c & Pm)]; [exists COut|exists c]; unfold gstep, effect; rewrite Pm; cbn; rewrite E, Ff; reflexivity.
Qed.
Lemma run_probe oc s m k f : pcs s m = PPokeProbe k 1 f -> tail s <> 0 ->
  gstep oc s m (mkEv DV_LOAD MO_SEQ_CST OBJ_Q OFF_TAIL 8 (tail s) (tail s) 1) = Some (set_pc s m (PSigInc k 1 f)).
Proof.
  intros Pm Tn. unfold gstep, effect. rewrite Pm. cbn [tstep]. rewrite ev_at_refl. cbn [ea guard].
  destruct (Z.eqb_spec (tail s) 0); [contradiction|]. rewrite Z.eqb_refl. reflexivity.
Qed.
Lemma run_siginc_bank oc s m k f : pcs s m = PSigInc k 1 f -> 0 <= sval s < RQ_LONG_MAX ->
  gstep oc s m (mkEv DV_ADD MO_RELEASE OBJ_SEM OFF_VALUE 8 (u64 (sval s)) 1 1) =
    Some (set_pc (set_sval s (sval s + 1)) m (PPendReq k 1 f)).
Proof.
  intros Pm R. unfold gstep, effect. rewrite Pm. cbn [tstep]. rewrite ev_at_refl. cbn [ea eb guard andb Z.eqb Pos.eqb].
  assert (E : s64 (u64 (sval s)) = sval s) by (apply s64_u64; unfold RQ_LONG_MIN, RQ_LONG_MAX in *; lia).
  rewrite E. assert (E2 : s64 (sval s + 1) = sval s + 1) by (apply s64_id; unfold RQ_LONG_MAX in *; lia). rewrite E2.
  destruct (Z.gtb_spec (sval s + 1) 0); [|lia]. rewrite Z.eqb_refl. reflexivity.
Qed.
Lemma run_pendreq s m k f : pcs s m = PPendReq k 1 f -> pend s = 0 ->
  gstep false s m (mkEv DV_CAS MO_RELAXED OBJ_Q OFF_PEND 4 0 1 1) = Some (set_pc (set_pend s 1) m (PPoolLoad k 1 f)).
Proof.
  intros Pm P0. unfold gstep, effect. rewrite Pm. cbn [tstep]. rewrite ev_at_refl. cbn. rewrite P0. reflexivity.
Qed.
Lemma run_poolload oc s m k f : pcs s m = PPoolLoad k 1 f -> -2147483648 <= pool s <= 2147483647 ->
  gstep oc s m (mkEv DV_LOAD MO_SEQ_CST OBJ_Q OFF_POOL 4 (u32z (pool s)) (u32z (pool s)) 1) =
    Some (set_pc s m (PPoolLoop k 1 f (pool s))).
Proof.
  intros Pm R. unfold gstep, effect. rewrite Pm. cbn [tstep]. rewrite ev_at_refl. cbn [ea guard].
  rewrite (s32_u32z _ R), Z.eqb_refl. reflexivity.
Qed.
Lemma run_poolcas oc s m k f : pcs s m = PPoolLoop k 1 f (pool s) -> -2147483647 <= pool s <= 2147483647 -> f < pool s ->
  gstep oc s m (mkEv DV_CASW MO_ACQUIRE OBJ_Q OFF_POOL 4 (u32z (pool s)) (u32z (pool s - 1)) 1) =
    Some (set_pc (set_pool s (pool s - 1)) m (PCreate k 1)).
Proof.
  intros Pm R Fl. unfold gstep, effect. rewrite Pm. cbn [tstep]. cbv zeta. unfold can_request.
  destruct (Z.ltb_spec (pool s) f); [lia|]. destruct (Z.gtb_spec 1 (pool s - f)); [lia|].
  cbn [Z.eqb]. rewrite ev_at_refl. cbn [ea eb eok guard andb negb orb Z.eqb Pos.eqb].
  rewrite !s32_u32z by lia. rewrite !Z.eqb_refl. reflexivity.
Qed.
Lemma run_create oc s m k u : pcs s m = PCreate k 1 -> pcs s u = PNone -> u <> m ->
  gstep oc s m (mkEv DVX_CREATE 0 0 0 0 u 0 1) = Some (set_pc (do_create s u) m (kret k)).
Proof.
  intros Pm Pu Nu. unfold gstep, effect. rewrite Pm. cbn [tstep ek ea]. rewrite Z.eqb_refl. cbn [Z.sub Z.add Z.opp Z.pos_sub Z.eqb guard].
  rewrite Pu. cbn. destruct (Z.eqb_spec u m); [contradiction|]. reflexivity.
Qed.

(* C01_root_monitor_grows_pool, protocol part: from a state in which nothing of the pool protocol is in progress (every
   pool thread is inside a work item), with an unclaimed item in the queue, the monitor's poke with floor f < pool size, run
   alone, ends with a new worker thread *)
Theorem monitor_poke_creates_worker s m f u :
  Inv1 s -> InvC s -> quiescent s -> unclaimed s <> [] -> sval s < RQ_LONG_MAX -> pool0 s <= RQ_MAX_PTHREAD_COUNT ->
  floor_ok f = true -> f < pool s -> pcs s u = PNone -> u <> m ->
  exists s', grun false s (mon_schedule s m f u) = Some s' /\
    pcs s' u = PWStart /\ pool s' = pool s - 1 /\ pend s' = 1 /\ sval s' = sval s + 1 /\ unclaimed s' = unclaimed s.
Proof.
  intros I1 IC Q U Sv P0 Ff Fl Pu Nu.
  destruct (quiescent_counts s IC Q) as (Pz & Kz & Sz).
  destruct (int_fields_in_range s IC) as (_ & Pr). unfold FLOOR_B, RQ_MAX_PTHREAD_COUNT in *.
  pose proof (unclaimed_tail s I1 U) as Tn.
  destruct (run_call_mon false s m f (Q m) Ff) as (c & S1).
  unfold mon_schedule. cbn [grun]. rewrite S1.
  set (s1 := set_pc s m (PPokeProbe (KClient c) 1 f)).
  assert (E1 : tail s = tail s1) by reflexivity. rewrite E1.
  rewrite (run_probe false s1 m (KClient c) f); [|apply upd_same|exact Tn].
  set (s2 := set_pc s1 m (PSigInc (KClient c) 1 f)).
  assert (E2 : sval s = sval s2) by reflexivity. rewrite E2.
  rewrite (run_siginc_bank false s2 m (KClient c) f); [|apply upd_same|rewrite <- E2; lia].
  set (s3 := set_pc (set_sval s2 (sval s2 + 1)) m (PPendReq (KClient c) 1 f)).
  rewrite (run_pendreq s3 m (KClient c) f); [|apply upd_same|exact Pz].
  set (s4 := set_pc (set_pend s3 1) m (PPoolLoad (KClient c) 1 f)).
  assert (E4 : pool s = pool s4) by reflexivity. rewrite E4.
  rewrite (run_poolload false s4 m (KClient c) f); [|apply upd_same|rewrite <- E4; lia].
  set (s5 := set_pc s4 m (PPoolLoop (KClient c) 1 f (pool s4))).
  assert (E5 : pool s4 = pool s5) by reflexivity. rewrite E5.
  rewrite (run_poolcas false s5 m (KClient c) f); [|apply upd_same|rewrite <- E5, <- E4; lia|rewrite <- E5, <- E4; exact Fl].
  set (s6 := set_pc (set_pool s5 (pool s5 - 1)) m (PCreate (KClient c) 1)).
  rewrite (run_create false s6 m (KClient c) u); [|apply upd_same| |exact Nu].
  2: { cbn. rewrite !upd_other by exact Nu. exact Pu. }
  eexists. split; [reflexivity|]. cbn. rewrite upd_other by exact Nu. rewrite upd_same. auto.
Qed.

(* ---- the lost wake-up that only the monitor repairs ---- *)
Lemma grun_reach oc p0 tr : forall s s', reach oc p0 s -> grun oc s tr = Some s' -> reach oc p0 s'.
Proof.
  induction tr as [|[t e] tr IH]; intros s s' R H; cbn in H.
  - injection H as <-. exact R.
  - destruct (gstep oc s t e) as [s1|] eqn:E; [|discriminate]. apply (IH s1 s'); [|exact H].
    apply (reach_step _ _ s (t, e) s1 R). exact E.
Qed.

Definition stall_state : gst :=
  match grun false (init_state 1) stall_schedule with Some s => s | None => init_state 1 end.

Theorem stall_reachable :
  reach false 1 stall_state /\ unclaimed stall_state = [32] /\ pool stall_state = 1 /\ pend stall_state = 0 /\
  sval stall_state = 2 /\ quiescent stall_state.
Proof.
  assert (E : grun false (init_state 1) stall_schedule = Some stall_state).
  { unfold stall_state. destruct (grun false (init_state 1) stall_schedule) eqn:G; [reflexivity|]. vm_compute in G. discriminate. }
  assert (R : reach false 1 stall_state).
  { apply (grun_reach false 1 stall_schedule (init_state 1)); [apply reach_init; reflexivity|exact E]. }
  split; [exact R|]. split; [vm_compute; reflexivity|]. split; [vm_compute; reflexivity|]. split; [vm_compute; reflexivity|].
  split; [vm_compute; reflexivity|].
  assert (V : valid_init 1) by (unfold valid_init, RQ_MAX_PTHREAD_COUNT; lia).
  destruct (invC_reach false 1 stall_state V R) as [IC _]. destruct (C_sup _ IC) as [_ Sup].
  assert (Sn : seen stall_state = [3; 2; 1]) by (vm_compute; reflexivity).
  intros t. destruct (pcs stall_state t) eqn:P; try (left; reflexivity); try (right; eauto; fail); exfalso;
    (assert (In t (seen stall_state)) by (apply Sup; congruence));
    rewrite Sn in H; cbn in H; destruct H as [<-|[<-|[<-|[]]]]; vm_compute in P; discriminate.
Qed.

(* ---- statements packaged for Properties_C01_root ---- *)
Theorem monitor_grows_pool :
  (forall target soft pre rest g,
     nth_error (mon_pass target soft g (pre ++ (true, 0) :: rest)) (length pre) = Some (Some (target - WORKQ_MAX_TRACKED_TIDS))) /\
  (forall p0 s m f u, valid_init p0 -> reach false p0 s -> quiescent s -> unclaimed s <> [] -> sval s < RQ_LONG_MAX ->
     floor_ok f = true -> f < pool s -> pcs s u = PNone -> u <> m ->
     exists s', grun false s (mon_schedule s m f u) = Some s' /\ reach false p0 s' /\
       pcs s' u = PWStart /\ pool s' = pool s - 1 /\ pend s' = 1 /\ sval s' = sval s + 1 /\ unclaimed s' = unclaimed s) /\
  (forall oc p0 s, valid_init p0 -> reach oc p0 s ->
     0 <= pend s <= RQ_INT_MAX /\ - FLOOR_B <= pool s <= p0 /\ (forall t, pcs s t = PWStart -> 1 <= pend s)).
Proof.
  split; [intros; apply mon_pass_blocked_bucket|]. split.
  - intros p0 s m f u V R Q U Sv Ff Fl Pu Nu. destruct (all_inv_reach false p0 s V R) as (I1 & IC & _).
    destruct (invC_reach false p0 s V R) as [_ E0].
    destruct (monitor_poke_creates_worker s m f u I1 IC Q U Sv) as (s' & G & A); auto.
    { rewrite E0. apply V. }
    exists s'. split; [exact G|]. split; [apply (grun_reach false p0 _ s s' R G)|exact A].
  - intros oc p0 s V R. destruct (invC_reach oc p0 s V R) as [IC E0]. destruct (int_fields_in_range s IC) as [A B].
    rewrite E0 in B. split; [exact A|]. split; [exact B|]. intros t Ht. apply (worker_start_has_pending s t IC Ht).
Qed.

Theorem thread_automaton :
  (forall oc s t e s', gstep oc s t e = Some s' -> tstep oc (pcs s t) e = Some (pcs s' t)) /\
  (forall oc p e p', tstep_vis oc p e = Some p' ->
     tstep oc p e = Some p' \/ exists h p1, hidden_ev h = true /\ tstep oc p h = Some p1 /\ tstep oc p1 e = Some p') /\
  (forall oc p e p', tstep oc p e = Some p' -> is_atomic_ev e = true -> existsb (site_ok e) (pc_sites oc p) = true) /\
  model_sites_push = f_dispatch_root_queue_push_inline_sites /\ model_sites_poke = f_dispatch_root_queue_poke_sites /\
  model_sites_poke_slow = f_dispatch_root_queue_poke_slow_sites /\
  model_sites_mediator_is_gone = f_dispatch_root_queue_mediator_is_gone_sites /\
  model_sites_quiesced = f_dispatch_root_queue_head_tail_quiesced_sites /\
  skipn 2 f__DISPATCH_ROOT_QUEUE_CONTENDED_WAIT___sites = model_sites_cwait_pending /\
  model_sites_drain_one = f_dispatch_root_queue_drain_one_sites /\
  model_sites_wait_for_enqueuer = f_dispatch_wait_for_enqueuer_sites /\
  model_sites_worker = f_dispatch_worker_thread_sites /\
  model_sites_sem_signal = dispatch_semaphore_signal_sites /\ model_sites_sem_wait = dispatch_semaphore_wait_sites.
Proof.
  split; [exact gstep_tstep|]. split; [exact tstep_vis_sound|]. split; [exact tstep_site|].
  repeat split; reflexivity.
Qed.

Lemma nonvacuous :
  valid_init 1 /\ reach false 1 stall_state /\ unclaimed stall_state <> [] /\ quiescent stall_state /\
  sval stall_state < RQ_LONG_MAX /\ floor_ok (1 - WORKQ_MAX_TRACKED_TIDS) = true /\ 1 - WORKQ_MAX_TRACKED_TIDS < pool stall_state /\
  pcs stall_state 4 = PNone /\ hpop stall_state = [(16, 2)] /\ map fst (hpush stall_state) = [16; 32].
Proof.
  destruct stall_reachable as (R & U & P & _ & Sv & Q).
  split; [unfold valid_init, RQ_MAX_PTHREAD_COUNT; lia|]. split; [exact R|]. split; [rewrite U; discriminate|].
  split; [exact Q|]. split; [rewrite Sv; reflexivity|]. split; [reflexivity|]. split; [rewrite P; reflexivity|].
  split; [vm_compute; reflexivity|]. split; vm_compute; reflexivity.
Qed.

Theorem pop_unique : forall oc p0 s, reach oc p0 s ->
  (exists claimed rest, hpush s = claimed ++ rest /\ map fst claimed = map fst (hpop s) /\ map fst rest = unclaimed s) /\
  (forall k x w, nth_error (hpop s) k = Some (x, w) -> exists p, nth_error (hpush s) k = Some (x, p)) /\
  (forall t e s', gstep oc s t e = Some s' ->
     (hpush s' = hpush s \/ (exists c x, pcs s t = PPushXchg c x /\ hpush s' = hpush s ++ [(x, t)])) /\
     (hpop s' = hpop s \/ (pcs s t = PDrainXchg /\ is_item (ea e) = true /\ ea e = head s /\ hpop s' = hpop s ++ [(ea e, t)])) /\
     (runs s' = runs s \/ (exists h, pcs s t = PGot h /\ runs s' = runs s ++ [(h, t)]))).
Proof.
  intros oc p0 s R. split; [exact (pops_prefix_of_pushes oc p0 s R)|]. split.
  - intros k x w. exact (nth_pop_is_nth_push oc p0 s k x w R).
  - intros t e s'. exact (hist_step oc s t e s').
Qed.

(* ---- the ghost list is determined by the concrete state ---- *)
(* the item a holder of the mediator has claimed *)
Definition held_item (p : pc) : option Z :=
  match p with
  | PDrainNext h | PDrainStoreNull h | PDrainCasTail h | PDrainWaitNext h _ | PDrainStoreHead h _ => Some h
  | _ => None
  end.
(* where the list starts, read from the concrete state *)
Definition starts_at (s : gst) (c : Z) : Prop :=
  head s = c \/
  ((head s = 0 \/ head s = MED) /\
   ((exists w, holder s = Some w /\ held_item (pcs s w) = Some c) \/ (exists p k, pcs s p = PPushLink k c 0))).

Lemma chain_starts s c r : Inv1 s -> chain s = c :: r -> starts_at s c.
Proof.
  intros I C. pose proof (I_front s I) as F. unfold front in F. rewrite C in F. unfold starts_at.
  destruct (holder s) as [w|] eqn:Hw, (hstore s) as [p|] eqn:Hp; try contradiction.
  - destruct F as (F1 & _ & F3). right. split; [exact F3|]. left. exists w. split; [reflexivity|].
    pose proof (I_thr s I w) as T. unfold tinv in T. rewrite C in T.
    destruct (pcs s w); cbn in F1; try contradiction; cbn in *.
    + destruct T as [_ <-]; reflexivity.
    + destruct T as [_ <-]; reflexivity.
    + destruct T as [_ <-]; reflexivity.
    + destruct T as [_ (b & r' & E)]. injection E as -> _. reflexivity.
    + destruct T as (_ & (r' & E) & _). injection E as -> _. reflexivity.
  - destruct F as (_ & (k & F2) & F3). right. split; [exact F3|]. right. cbn in F2. eauto.
  - destruct F as [[F _]|(c' & r' & F1 & F2)]; [discriminate|]. left. congruence.
Qed.

Lemma starts_unique s c c' : Inv1 s -> is_item c = true -> is_item c' = true -> starts_at s c -> starts_at s c' -> c = c'.
Proof.
  intros I Ic Ic' [A|[A1 A2]] [B|[B1 B2]]; try congruence.
  - exfalso. destruct (is_item_spec c Ic). rewrite <- A in *. tauto.
  - exfalso. destruct (is_item_spec c' Ic'). rewrite <- B in *. tauto.
  - destruct A2 as [(w & Hw & Iw)|(p & k & Hp)], B2 as [(w' & Hw' & Iw')|(p' & k' & Hp')].
    + assert (w = w') by congruence. subst. congruence.
    + exfalso. destruct (holder_chain s w I Hw) as (_ & Hs & _).
      pose proof (I_thr s I p') as T. unfold tinv in T. rewrite Hp' in T. cbn in T. destruct T as [_ T]. congruence.
    + exfalso. destruct (holder_chain s w' I Hw') as (_ & Hs & _).
      pose proof (I_thr s I p) as T. unfold tinv in T. rewrite Hp in T. cbn in T. destruct T as [_ T]. congruence.
    + pose proof (I_thr s I p) as T. unfold tinv in T. rewrite Hp in T. cbn in T. destruct T as [_ T].
      pose proof (I_thr s I p') as T'. unfold tinv in T'. rewrite Hp' in T'. cbn in T'. destruct T' as [_ T'].
      assert (p = p') by congruence. subst. congruence.
Qed.

(* a list that fits the concrete state from some start to the tail *)
Record fits (s : gst) (l : list Z) : Prop := {
  F_nodup : NoDup l;
  F_items : forall x, In x l -> is_item x = true;
  F_tail : tail s = last l 0;
  F_links : forall a b, adjacent a b l -> nxt s a = b \/ (nxt s a = 0 /\ exists t c, pcs s t = PPushLink c b a)
}.

Lemma linker_unique s a b b' t c t' c' : Inv1 s -> a <> 0 -> pcs s t = PPushLink c b a -> pcs s t' = PPushLink c' b' a -> b = b'.
Proof.
  intros I Na H H'. pose proof (I_thr s I t) as T. pose proof (I_thr s I t') as T'. unfold tinv in T, T'. rewrite H in T. rewrite H' in T'.
  destruct (Z.eqb_spec a 0); [contradiction|]. destruct T as (_ & T & _), T' as (_ & T' & _).
  apply (adjacent_unique a b b' (chain s) (I_nodup s I) T T').
Qed.

Lemma fits_tl s c b r : fits s (c :: b :: r) -> fits s (b :: r).
Proof.
  intros [A B C D]. constructor.
  - inversion A; assumption.
  - intros x H. apply B. right. exact H.
  - rewrite C. reflexivity.
  - intros x y H. apply D. apply adjacent_cons. exact H.
Qed.

Lemma fits_unique s : Inv1 s -> forall r1 r2 c, fits s (c :: r1) -> fits s (c :: r2) -> r1 = r2.
Proof.
  intros I. induction r1 as [|b r1 IH]; intros r2 c F1 F2.
  - symmetry. apply (last_cons_eq c r2 (F_nodup _ _ F2)). rewrite <- (F_tail _ _ F2), (F_tail _ _ F1). reflexivity.
  - destruct r2 as [|b' r2].
    + exfalso. assert (X : b :: r1 = []); [|discriminate].
      apply (last_cons_eq c (b :: r1) (F_nodup _ _ F1)). rewrite <- (F_tail _ _ F1), (F_tail _ _ F2). reflexivity.
    + assert (E : b = b').
      { assert (Ib : is_item b = true) by (apply (F_items _ _ F1); right; left; reflexivity).
        assert (Ib' : is_item b' = true) by (apply (F_items _ _ F2); right; left; reflexivity).
        assert (Ic : is_item c = true) by (apply (F_items _ _ F1); left; reflexivity).
        destruct (is_item_spec b Ib), (is_item_spec b' Ib'), (is_item_spec c Ic).
        destruct (F_links _ _ F1 c b) as [L|(L & t & k & Ht)]; [cbn; auto| |];
        destruct (F_links _ _ F2 c b') as [L'|(L' & t' & k' & Ht')]; try (cbn; auto; fail); try congruence.
        apply (linker_unique s c b b' t k t' k' I); assumption. }
      subst b'. f_equal. apply (IH r2 b); eapply fits_tl; eassumption.
Qed.

(* the concrete state determines the list: any list that starts where the state says the list starts and fits the links up to
   the tail is the ghost list *)
Theorem chain_determined oc p0 s l : reach oc p0 s ->
  fits s l -> (match l with [] => True | c :: _ => starts_at s c end) -> l = chain s.
Proof.
  intros R F St. pose proof (inv1_reach oc p0 s R) as I.
  assert (FC : fits s (chain s)) by (constructor; apply I).
  destruct l as [|c r], (chain s) as [|c' r'] eqn:C; try reflexivity.
  - exfalso. pose proof (F_tail _ _ F) as T. pose proof (F_tail _ _ FC) as T'. cbn in T. rewrite T in T'.
    assert (X : In (last (c' :: r') 0) (c' :: r')) by (apply last_in; discriminate).
    apply (F_items _ _ FC) in X. rewrite <- T' in X. discriminate.
  - exfalso. pose proof (F_tail _ _ F) as T. pose proof (F_tail _ _ FC) as T'. cbn [last] in T'. rewrite T' in T.
    assert (X : In (last (c :: r) 0) (c :: r)) by (apply last_in; discriminate).
    apply (F_items _ _ F) in X. rewrite <- T in X. discriminate.
  - assert (E : c = c').
    { apply (starts_unique s c c' I); [apply (F_items _ _ F); left; reflexivity|apply (F_items _ _ FC); left; reflexivity|exact St|].
      apply (chain_starts s c' r' I C). }
    subst c'. f_equal. apply (fits_unique s I r r' c F FC).
Qed.
