(* Attr_proofs.v — the attribute table is a bijection between [0, ATTR_COUNT) and well-formed infos; the
   constructors are per-field updates.  The domain is finite (ATTR_COUNT = 4032 in this build, the value the
   compiler computed): both directions are decided by an exhaustive vm_compute sweep, lifted to a forall. *)
From Coq Require Import ZArith Bool List Lia.
From Verif Require Import Gen_consts Gen_qos Attr.
Import ListNotations.
Local Open Scope Z_scope.

Definition zrange (n : Z) : list Z := map Z.of_nat (seq 0 (Z.to_nat n)).
Lemma In_zrange n x : 0 <= x < n -> In x (zrange n).
Proof.
  intros H. unfold zrange. apply in_map_iff. exists (Z.to_nat x). split; [lia|].
  apply in_seq. lia.
Qed.

Lemma sweep_from_to : forallb (fun a => from_info (to_info a) =? a) (zrange ATTR_COUNT) = true.
Proof. vm_compute. reflexivity. Qed.

Lemma from_to a : 0 <= a < ATTR_COUNT -> from_info (to_info a) = a.
Proof.
  intros H. pose proof sweep_from_to as S. rewrite forallb_forall in S.
  specialize (S a (In_zrange _ _ H)). lia.
Qed.

Lemma sweep_range : forallb (fun a => wf_info (to_info a)) (zrange ATTR_COUNT) = true.
Proof. vm_compute. reflexivity. Qed.
Lemma to_info_wf a : 0 <= a < ATTR_COUNT -> wf_info (to_info a) = true.
Proof.
  intros H. pose proof sweep_range as S. rewrite forallb_forall in S. exact (S a (In_zrange _ _ H)).
Qed.

(* every well-formed info: enumerate the six fields *)
Definition all_infos : list info :=
  flat_map (fun q => flat_map (fun rp => flat_map (fun oc => flat_map (fun af =>
    flat_map (fun c => map (fun i => {| qos := q; relpri := - rp; overcommit := oc; autorelease := af; concurrent := c; inactive := i |})
      [false; true]) [false; true]) (zrange AF)) (zrange OC)) (zrange PC)) (zrange QC).

Lemma In_all_infos i : wf_info i = true -> In i all_infos.
Proof.
  destruct i as [q rp oc af c ia]. unfold wf_info, all_infos. cbn [qos relpri overcommit autorelease].
  rewrite !andb_true_iff, !Z.leb_le, !Z.ltb_lt. intros H.
  apply in_flat_map. exists q. split; [apply In_zrange; lia|].
  apply in_flat_map. exists (- rp). split; [apply In_zrange; unfold PC, DISPATCH_QUEUE_ATTR_PRIO_COUNT in *; lia|].
  apply in_flat_map. exists oc. split; [apply In_zrange; lia|].
  apply in_flat_map. exists af. split; [apply In_zrange; lia|].
  apply in_flat_map. exists c. split; [destruct c; cbn; auto|].
  apply in_map_iff. exists ia. split; [|destruct ia; cbn; auto].
  f_equal. lia.
Qed.

Lemma sweep_to_from : forallb (fun i => info_eqb (to_info (from_info i)) i && (0 <=? from_info i) && (from_info i <? ATTR_COUNT)) all_infos = true.
Proof. vm_compute. reflexivity. Qed.

Lemma info_eqb_eq x y : info_eqb x y = true -> x = y.
Proof.
  destruct x, y. unfold info_eqb. cbn. rewrite !andb_true_iff, !Z.eqb_eq.
  intros [[[[[? ?] ?] ?] Hc] Hi]. apply Bool.eqb_prop in Hc. apply Bool.eqb_prop in Hi. subst. reflexivity.
Qed.

Lemma to_from i : wf_info i = true -> to_info (from_info i) = i /\ 0 <= from_info i < ATTR_COUNT.
Proof.
  intros H. pose proof sweep_to_from as S. rewrite forallb_forall in S.
  specialize (S i (In_all_infos i H)). rewrite !andb_true_iff in S. destruct S as [[E L] U].
  split; [apply info_eqb_eq; exact E | lia].
Qed.

(* NULL (the serial default) denotes the all-zero info, like table entry from_info info_zero *)
Lemma null_attr : to_info (-1) = info_zero /\ to_info (from_info info_zero) = info_zero.
Proof. split; vm_compute; reflexivity. Qed.

(* ---- constructors are field updates (valid arguments) ---- *)
Definition valid_attr (a : Z) : Prop := a = -1 \/ 0 <= a < ATTR_COUNT.
Lemma valid_wf a : valid_attr a -> wf_info (to_info a) = true.
Proof. intros [->|H]; [vm_compute; reflexivity | apply to_info_wf; exact H]. Qed.

Lemma qos_of_class_range cls : 0 <= qos_of_class cls < QC.
Proof. unfold qos_of_class, QC, DISPATCH_QUEUE_ATTR_QOS_COUNT. repeat match goal with |- context [if ?b then _ else _] => destruct b end; lia. Qed.

Lemma ctor_qos a cls rp : valid_attr a -> class_valid cls rp = true ->
  to_info (make_with_qos_class a cls rp) = set_qos (to_info a) (qos_of_class cls) rp /\
  valid_attr (make_with_qos_class a cls rp).
Proof.
  intros Ha Hv. unfold make_with_qos_class. rewrite Hv.
  pose proof (valid_wf a Ha) as W. pose proof (qos_of_class_range cls) as Q.
  unfold class_valid in Hv. rewrite !andb_true_iff, !Z.leb_le in Hv. destruct Hv as [[_ H1] H2].
  assert (W' : wf_info (set_qos (to_info a) (qos_of_class cls) rp) = true).
  { unfold wf_info in *. cbn [qos relpri overcommit autorelease set_qos].
    rewrite !andb_true_iff, !Z.leb_le, !Z.ltb_lt in *. intuition lia. }
  destruct (to_from _ W') as [E R]. split; [exact E | right; exact R].
Qed.

Lemma ctor_qos_invalid a cls rp : class_valid cls rp = false -> make_with_qos_class a cls rp = a.
Proof. intros H. unfold make_with_qos_class. rewrite H. reflexivity. Qed.

Lemma ctor_inactive a : valid_attr a ->
  to_info (make_initially_inactive a) = set_inactive (to_info a) /\ valid_attr (make_initially_inactive a).
Proof.
  intros Ha. pose proof (valid_wf a Ha) as W.
  assert (W' : wf_info (set_inactive (to_info a)) = true) by exact W.
  destruct (to_from _ W') as [E R]. split; [exact E | right; exact R].
Qed.

Lemma ctor_overcommit a oc : valid_attr a ->
  to_info (make_with_overcommit a oc) = set_overcommit (to_info a) (if oc then 1 else 2) /\
  valid_attr (make_with_overcommit a oc).
Proof.
  intros Ha. pose proof (valid_wf a Ha) as W.
  assert (W' : wf_info (set_overcommit (to_info a) (if oc then 1 else 2)) = true).
  { unfold wf_info in *. cbn [qos relpri overcommit autorelease set_overcommit].
    rewrite !andb_true_iff, !Z.leb_le, !Z.ltb_lt in *. unfold OC, DISPATCH_QUEUE_ATTR_OVERCOMMIT_COUNT. destruct oc; intuition lia. }
  destruct (to_from _ W') as [E R]. split; [exact E | right; exact R].
Qed.

Lemma ctor_autorelease a f : valid_attr a -> 0 <= f < AF ->
  to_info (make_with_autorelease a f) = set_autorelease (to_info a) f /\ valid_attr (make_with_autorelease a f).
Proof.
  intros Ha Hf. pose proof (valid_wf a Ha) as W.
  assert (W' : wf_info (set_autorelease (to_info a) f) = true).
  { unfold wf_info in *. cbn [qos relpri overcommit autorelease set_autorelease].
    rewrite !andb_true_iff, !Z.leb_le, !Z.ltb_lt in *. intuition lia. }
  destruct (to_from _ W') as [E R]. split; [exact E | right; exact R].
Qed.

(* updates of different fields commute; the last update of a field wins: so any composition of the
   constructors denotes the per-field last write, whatever the order *)
Lemma set_commute_qos_inactive i q rp : set_inactive (set_qos i q rp) = set_qos (set_inactive i) q rp.
Proof. reflexivity. Qed.
Lemma set_commute_qos_overcommit i q rp oc : set_overcommit (set_qos i q rp) oc = set_qos (set_overcommit i oc) q rp.
Proof. reflexivity. Qed.
Lemma set_commute_qos_autorelease i q rp f : set_autorelease (set_qos i q rp) f = set_qos (set_autorelease i f) q rp.
Proof. reflexivity. Qed.
Lemma set_commute_inactive_overcommit i oc : set_overcommit (set_inactive i) oc = set_inactive (set_overcommit i oc).
Proof. reflexivity. Qed.
Lemma set_commute_inactive_autorelease i f : set_autorelease (set_inactive i) f = set_inactive (set_autorelease i f).
Proof. reflexivity. Qed.
Lemma set_commute_overcommit_autorelease i oc f : set_autorelease (set_overcommit i oc) f = set_overcommit (set_autorelease i f) oc.
Proof. reflexivity. Qed.
Lemma set_last_wins i q rp q' rp' oc oc' f f' :
  set_qos (set_qos i q rp) q' rp' = set_qos i q' rp' /\
  set_overcommit (set_overcommit i oc) oc' = set_overcommit i oc' /\
  set_autorelease (set_autorelease i f) f' = set_autorelease i f' /\
  set_inactive (set_inactive i) = set_inactive i.
Proof. repeat split. Qed.

(* constructor order independence, stated on attributes: two constructors of different fields commute *)
Lemma ctors_commute_qos_inactive a cls rp : valid_attr a -> class_valid cls rp = true ->
  make_initially_inactive (make_with_qos_class a cls rp) = make_with_qos_class (make_initially_inactive a) cls rp.
Proof.
  intros Ha Hv. destruct (ctor_qos a cls rp Ha Hv) as [E1 _]. destruct (ctor_inactive a Ha) as [E2 _].
  assert (L : make_initially_inactive (make_with_qos_class a cls rp) =
              from_info (set_inactive (set_qos (to_info a) (qos_of_class cls) rp))).
  { unfold make_initially_inactive. rewrite E1. reflexivity. }
  assert (R : make_with_qos_class (make_initially_inactive a) cls rp =
              from_info (set_qos (set_inactive (to_info a)) (qos_of_class cls) rp)).
  { unfold make_with_qos_class. rewrite Hv, E2. reflexivity. }
  rewrite L, R. reflexivity.
Qed.
Lemma ctors_commute_qos_overcommit a cls rp oc : valid_attr a -> class_valid cls rp = true ->
  make_with_overcommit (make_with_qos_class a cls rp) oc = make_with_qos_class (make_with_overcommit a oc) cls rp.
Proof.
  intros Ha Hv. destruct (ctor_qos a cls rp Ha Hv) as [E1 _]. destruct (ctor_overcommit a oc Ha) as [E2 _].
  assert (L : make_with_overcommit (make_with_qos_class a cls rp) oc =
              from_info (set_overcommit (set_qos (to_info a) (qos_of_class cls) rp) (if oc then 1 else 2))).
  { unfold make_with_overcommit. rewrite E1. reflexivity. }
  assert (R : make_with_qos_class (make_with_overcommit a oc) cls rp =
              from_info (set_qos (set_overcommit (to_info a) (if oc then 1 else 2)) (qos_of_class cls) rp)).
  { unfold make_with_qos_class. rewrite Hv, E2. reflexivity. }
  rewrite L, R. reflexivity.
Qed.
Lemma ctors_commute_inactive_overcommit a oc : valid_attr a ->
  make_with_overcommit (make_initially_inactive a) oc = make_initially_inactive (make_with_overcommit a oc).
Proof.
  intros Ha. destruct (ctor_inactive a Ha) as [E1 _]. destruct (ctor_overcommit a oc Ha) as [E2 _].
  assert (L : make_with_overcommit (make_initially_inactive a) oc =
              from_info (set_overcommit (set_inactive (to_info a)) (if oc then 1 else 2))).
  { unfold make_with_overcommit. rewrite E1. reflexivity. }
  assert (R : make_initially_inactive (make_with_overcommit a oc) =
              from_info (set_inactive (set_overcommit (to_info a) (if oc then 1 else 2)))).
  { unfold make_initially_inactive. rewrite E2. reflexivity. }
  rewrite L, R. reflexivity.
Qed.

(* what a queue created from an attribute reports, in terms of the info the attribute denotes *)
Lemma report_spec a : valid_attr a ->
  report a = (class_of_qos (clamp_qos (qos (to_info a))),
              (if clamp_qos (qos (to_info a)) =? 0 then 0 else relpri (to_info a)),
              (if concurrent (to_info a) then WIDTH_MAX else 1), inactive (to_info a)).
Proof. reflexivity. Qed.

(* the reported class is always one the platform supports, and it is the attribute's class when that is supported *)
Lemma report_class_supported a : valid_attr a ->
  let '(cls, _, _, _) := report a in
  (cls = 0 \/ cls = 9 \/ cls = 17 \/ cls = 21 \/ cls = 25) /\
  (forall q, qos (to_info a) = q -> 2 <= q <= 5 -> cls = class_of_qos q).
Proof.
  intros Ha. pose proof (valid_wf a Ha) as W. unfold wf_info in W.
  rewrite !andb_true_iff, !Z.leb_le, !Z.ltb_lt in W. unfold report.
  set (q := qos (to_info a)) in *. unfold QC, DISPATCH_QUEUE_ATTR_QOS_COUNT in W.
  assert (Hq : q = 0 \/ q = 1 \/ q = 2 \/ q = 3 \/ q = 4 \/ q = 5 \/ q = 6) by lia.
  split.
  - destruct Hq as [->|[->|[->|[->|[->|[->| ->]]]]]]; vm_compute; tauto.
  - intros q' <- Hr. destruct Hq as [E|[E|[E|[E|[E|[E|E]]]]]]; rewrite E in *; try lia; reflexivity.
Qed.
