(* SLaneS_proofs.v — the invariant of the serial-lane-with-suspension model holds in every reachable state (any number of
   threads, any interleaving of submitters, drainers, dispatch_suspend / dispatch_resume / dispatch_activate callers),
   and what it says to a client: counting, nothing starts while suspended, resume restarts, inactive lanes. *)
From Coq Require Import ZArith Bool List Lia.
From Verif Require Import Word Bits Fields DqFields Conc Gen_consts Gen_dqstate Lane_fields SLaneS_fields SLaneS SLaneS_inv
  SLaneS_steps_a SLaneS_steps_b.
Import ListNotations.
Local Open Scope Z_scope.

Theorem step_preserves ina rb s a s' : 0 <= rb < 2 -> Inv ina s -> step rb s a s' -> Inv ina s'.
Proof.
  intros Hrb I H. destruct a as [t c|t]; destruct H as [V B].
  - exact (begin_preserves ina s t c s' I V B).
  - destruct (pcs s t) eqn:Hpc.
    + unfold gstep in B. rewrite Hpc in B. discriminate.
    + eapply step_xchg; eauto.
    + eapply step_link; eauto.
    + eapply step_probe; eauto.
    + eapply step_wake; eauto.
    + eapply step_rootpush; eauto.
    + eapply step_lock; eauto.
    + eapply step_tail; eauto.
    + eapply step_head; eauto.
    + eapply step_chk; eauto.
    + eapply step_pop; eauto.
    + eapply step_run; eauto.
    + eapply step_incall; eauto.
    + eapply step_next; eauto.
    + eapply step_unlock; eauto.
    + eapply step_xor; eauto.
    + eapply step_fin; eauto.
    + eapply step_ps_rmw; eauto.
    + eapply step_ps_slock; eauto.
    + eapply step_ps_srmw; eauto.
    + eapply step_ps_sside; eauto.
    + eapply step_ps_sunlock; eauto.
    + eapply step_ps_sretry; eauto.
    + eapply step_ps_ret; eauto.
    + eapply step_pr_rmw; eauto.
    + eapply step_pr_slock; eauto.
    + eapply step_pr_srmw; eauto.
    + eapply step_pr_sside; eauto.
    + eapply step_pr_sunlock; eauto.
    + eapply step_pr_sretry; eauto.
    + eapply step_pr_role; eauto.
    + eapply step_pr_bctail; eauto.
    + eapply step_pr_bcsusp; eauto.
    + eapply step_pr_bchead; eauto.
    + eapply step_pr_cbc; eauto.
    + eapply step_pr_bcxor; eauto.
    + eapply step_oprobe; eauto.
    + eapply step_owake; eauto.
    + eapply step_pc_rmw; eauto.
    + unfold gstep in B. rewrite Hpc in B. discriminate.
Qed.

Theorem Inv_reachable rb ina s : 0 <= rb < 2 -> reach rb ina s -> Inv ina s.
Proof.
  intros Hrb. apply invariant_lift.
  - intros s0 ->. apply Inv_init. exact Hrb.
  - intros s1 a s2 I H. exact (step_preserves ina rb s1 a s2 Hrb I H).
Qed.

Lemma prefix_nodup {A} (l1 l2 l : list A) : l1 ++ l2 = l -> NoDup l -> NoDup l1.
Proof.
  intros <-. induction l1 as [|a l1 IH]; cbn [app]; intros H; [constructor|].
  inversion H as [|x l' Hx Hl]; subst. constructor; [|apply IH; exact Hl].
  intros Hin. apply Hx. apply in_or_app. left. exact Hin.
Qed.

(* ---------------------------------------------------------------- 1. counting *)
Definition hi_of (s : gst) : Z := f_hi (dec (st s)).      (* the 9 suspend bits: na + 2 i + 4 ssc + 8 sc *)
Definition sc_of (s : gst) : Z := hi_of s / 8.             (* the in-word suspend count *)
Definition outstanding (s : gst) : Z := susp_done s + zlen (sret s) + zlen (rpre s).

Lemma hi_of_enc s r : ainv s r -> hi_of s = f_hi r.
Proof. intros A. unfold hi_of. rewrite (g_enc s r A), dec_enc by (exact (g_wf s r A)). reflexivity. Qed.

Lemma suspended_iff_hi s r : ainv s r -> (suspended_word (st s) = true <-> 0 < f_hi r).
Proof.
  intros A. rewrite (g_enc s r A), suspended_word_f by (exact (g_wf s r A)). split; [apply Z.ltb_lt | intros; apply Z.ltb_lt; assumption].
Qed.

(* the in-word count plus the side count (with the transfer in flight) is the number of outstanding suspensions:
   suspends committed and not yet matched by a committed resume decrement; the side bit mirrors the side count;
   suspended <-> something outstanding or not yet activated *)
Theorem count_exact rb ina s :
  0 <= rb < 2 -> reach rb ina s ->
  sc_of s + side_eff s = outstanding s /\
  ((hi_of s / 4) mod 2 = 1 <-> 0 < side_eff s) /\
  0 <= side s /\ side s mod 32 = 0 /\ 0 <= susp_done s /\
  (suspended_word (st s) = true <-> 0 < outstanding s \/ hi_of s mod 4 <> 0).
Proof.
  intros Hrb R. destruct (Inv_reachable rb ina s Hrb R) as [(r & A & B & C & D) T].
  unfold sc_of, outstanding. rewrite (hi_of_enc s r A). dB B. pose proof (g_wf s r A) as W. unfold wfr in W.
  split; [exact Bcnt|]. split; [exact Bssc|]. split; [tauto|]. split; [tauto|]. split; [exact Bsd|].
  rewrite (suspended_iff_hi s r A).
  assert (Hd : f_hi r = 8 * (f_hi r / 8) + 4 * ((f_hi r / 4) mod 2) + f_hi r mod 4).
  { pose proof (Z.div_mod (f_hi r) 8 ltac:(lia)). pose proof (Z.div_mod (f_hi r) 4 ltac:(lia)).
    pose proof (Z.div_mod (f_hi r / 4) 2 ltac:(lia)). pose proof (Z.mod_pos_bound (f_hi r) 8 ltac:(lia)).
    assert (f_hi r / 4 / 2 = f_hi r / 8) by (rewrite Z.div_div by lia; reflexivity). lia. }
  pose proof (Z.mod_pos_bound (f_hi r / 4) 2 ltac:(lia)). pose proof (Z.mod_pos_bound (f_hi r) 4 ltac:(lia)).
  assert (0 <= f_hi r / 8) by (apply Z.div_pos; lia).
  pose proof (zlen_nonneg (sret s)). pose proof (zlen_nonneg (rpre s)).
  split.
  - intros Hs. destruct (Z.eq_dec (f_hi r mod 4) 0) as [E|E]; [|right; exact E]. left.
    destruct (Z.eq_dec ((f_hi r / 4) mod 2) 1) as [E1|E1]; [apply Bssc in E1; lia | lia].
  - intros [Ho|Hm]; [|lia].
    destruct (Z.eq_dec (f_hi r / 8) 0) as [E|E]; [|lia].
    assert (0 < side_eff s) by lia. apply Bssc in H4. lia.
Qed.

(* in particular: after a dispatch_suspend returned and before its dispatch_resume is called the word is suspended *)
Theorem suspended_while_owed rb ina s :
  0 <= rb < 2 -> reach rb ina s -> 0 < susp_done s -> suspended_word (st s) = true.
Proof.
  intros Hrb R Hs. destruct (count_exact rb ina s Hrb R) as (_ & _ & _ & _ & _ & E). apply E. left.
  unfold outstanding. pose proof (zlen_nonneg (sret s)). pose proof (zlen_nonneg (rpre s)). lia.
Qed.

(* no client crash other than the documented nesting limit: over-resume ("tag 2") and "invalid suspension state"
   ("tag 3") are unreachable under the contract of `begin CResume` *)
Theorem crash_only_nesting_limit rb ina s t tag :
  0 <= rb < 2 -> reach rb ina s -> pcs s t = PCrash tag -> tag = 1.
Proof.
  intros Hrb R Hpc. destruct (Inv_reachable rb ina s Hrb R) as [_ T].
  destruct (T t) as (_ & _ & _ & _ & _ & _ & _ & _ & T9). rewrite Hpc in T9. cbn [dead_pc] in T9.
  apply negb_false_iff in T9. apply Z.eqb_eq in T9. exact T9.
Qed.

(* ... and that one needs 2^32 - 64 outstanding suspensions at the moment it is taken *)
Theorem nesting_limit_crash_needs rb ina s t s' tag :
  0 <= rb < 2 -> reach rb ina s -> pcs s t = PS_sside -> gstep rb s t = Some s' -> pcs s' t = PCrash tag ->
  4294967296 - 64 <= outstanding s.
Proof.
  intros Hrb R Hpc B Hc. destruct (Inv_reachable rb ina s Hrb R) as [(r & A & Bv & C & D) T].
  unfold gstep in B. rewrite Hpc in B. unfold HALF in B.
  destruct (Z.leb_spec 4294967296 (side s + 32)) as [L|L]; injection B as <-.
  - assert (SL : sidelock s = Some t) by (apply (holder_side s t (T t)); rewrite Hpc; reflexivity).
    unfold outstanding. dB Bv. rewrite <- Bcnt. unfold side_eff. rewrite SL, Hpc. cbn [side_adj].
    assert (0 <= f_hi r / 8) by (apply Z.div_pos; [pose proof (g_wf s r A) as W; unfold wfr in W; lia | lia]). lia.
  - sproj_in Hc. rewrite upd_same in Hc. discriminate.
Qed.

(* ---------------------------------------------------------------- 2. nothing starts while suspended *)
Lemma licensed_is_holder ina s t : Inv ina s -> licensed_pc (pcs s t) = true -> lockh s = Some t /\ lic_now s = true.
Proof.
  intros [_ T] L. assert (K : lockh s = Some t).
  { apply (holder_lock s t (T t)). destruct (pcs s t); cbn in L |- *; try discriminate; reflexivity. }
  split; [exact K|]. unfold lic_now. rewrite K. exact L.
Qed.

(* In every reachable state in which the word is suspended (in particular whenever a dispatch_suspend has returned and
   its dispatch_resume has not been called): at most one callout has begun since the word became suspended, and if
   one has begun, or a drainer is about to begin one (it is past the suspended-check of its iteration), then that
   drainer had already passed the check when the suspending RMW committed (plic) and it is the only one. *)
Theorem no_start_while_suspended rb ina s :
  0 <= rb < 2 -> reach rb ina s -> suspended_word (st s) = true ->
  0 <= pstarts s <= 1 /\
  (pstarts s = 1 -> plic s = true /\ forall t, licensed_pc (pcs s t) = false) /\
  (forall t, licensed_pc (pcs s t) = true -> plic s = true /\ pstarts s = 0).
Proof.
  intros Hrb R Hs. pose proof (Inv_reachable rb ina s Hrb R) as I. pose proof I as [(r & A & B & C & D) T].
  apply (suspended_iff_hi s r A) in Hs. destruct (C Hs) as [C0 C1].
  assert (Hb : forall b : bool, 0 <= b2z b <= 1) by (intros []; cbn; lia).
  pose proof (Hb (lic_now s)). pose proof (Hb (plic s)).
  split; [lia|]. split.
  - intros P1. split; [destruct (plic s); [reflexivity | cbn in C1; lia]|].
    intros t. destruct (licensed_pc (pcs s t)) eqn:L; [|reflexivity].
    destruct (licensed_is_holder ina s t I L) as [_ LN]. rewrite LN in C1. cbn in C1. destruct (plic s); cbn in C1; lia.
  - intros t L. destruct (licensed_is_holder ina s t I L) as [_ LN]. rewrite LN in C1. cbn [b2z] in C1.
    split; [destruct (plic s); [reflexivity | cbn in C1; lia] | lia].
Qed.

Corollary no_start_after_suspend_returned rb ina s :
  0 <= rb < 2 -> reach rb ina s -> 0 < susp_done s ->
  suspended_word (st s) = true /\
  0 <= pstarts s <= 1 /\
  (pstarts s = 1 -> plic s = true /\ forall t, licensed_pc (pcs s t) = false) /\
  (forall t, licensed_pc (pcs s t) = true -> plic s = true /\ pstarts s = 0).
Proof.
  intros Hrb R Hs. pose proof (suspended_while_owed rb ina s Hrb R Hs) as S. split; [exact S|].
  apply (no_start_while_suspended rb ina s Hrb R S).
Qed.

(* the suspending RMW of the fast path defines the period: plic records whether a drainer was licensed at that instant *)
Theorem suspend_commit_starts_period rb ina s t s' :
  0 <= rb < 2 -> reach rb ina s -> pcs s t = PS_rmw -> suspended_word (st s) = false -> gstep rb s t = Some s' ->
  suspended_word (st s') = true /\ plic s' = lic_now s /\ pstarts s' = 0.
Proof.
  intros Hrb R Hpc Hs B. destruct (Inv_reachable rb ina s Hrb R) as [(r & A & Bv & C & D) T].
  pose proof (g_enc s r A) as Genc. pose proof (g_wf s r A) as Gwf. pose proof Gwf as W. unfold wfr in W.
  assert (H0 : f_hi r = 0).
  { rewrite Genc, suspended_word_f in Hs by exact Gwf. apply Z.ltb_ge in Hs. lia. }
  unfold gstep in B. rewrite Hpc in B. rewrite Genc, (suspend_fields r Gwf), H0 in B. cbn [Z.ltb Z.compare] in B.
  injection B as <-. unfold commit_suspend; sproj. rewrite Hs. cbn [negb]. split; [|split; reflexivity].
  rewrite suspended_word_f by (apply set_hi_wf; [exact Gwf | lia]). reflexivity.
Qed.

(* a suspend that commits while an item of the lane is inside its callout (e.g. issued by that item), or while nobody
   drains the lane, finds no licensed drainer: by no_start_while_suspended nothing starts until the count is back to 0 *)
Theorem not_licensed_while_running rb ina s :
  0 <= rb < 2 -> reach rb ina s -> running s <> None \/ lockh s = None -> lic_now s = false.
Proof.
  intros Hrb R H. destruct (Inv_reachable rb ina s Hrb R) as [(r & A & Bv & C & D) T].
  unfold lic_now. destruct (lockh s) as [w|] eqn:K; [|reflexivity].
  destruct H as [H|H]; [|discriminate]. pose proof (g_running s r A) as G. rewrite K in G.
  destruct (pcs s w); cbn in G |- *; try reflexivity; congruence.
Qed.

(* ---------------------------------------------------------------- 3. resume restarts; nothing is lost *)
Definition quiescent (s : gst) : Prop := forall t, pcs s t = Idle.

(* whenever the word is not suspended a non-empty list has a responsible party: the enqueued token is held (root
   queue or a thread about to push / drain), a pusher still owes its wakeup, or somebody holds the drain lock (a
   drainer, or the resumer that brought the count to zero and does the hand-off) *)
Theorem resumed_has_responsible rb ina s :
  0 <= rb < 2 -> reach rb ina s -> suspended_word (st s) = false -> lst s <> [] ->
  token s <> None \/ wakers s <> [] \/ lockh s <> None.
Proof.
  intros Hrb R Hs L. destruct (Inv_reachable rb ina s Hrb R) as [(r & A & Bv & C & D) T].
  destruct (g_nostrand s r A L) as [X|[X|[X|X]]]; auto.
  apply (suspended_iff_hi s r A) in X. congruence.
Qed.

Lemma quiescent_ghosts ina s : Inv ina s -> quiescent s ->
  wakers s = [] /\ rpre s = [] /\ sret s = [] /\ lockh s = None /\ sidelock s = None /\ (forall w, token s <> Some (Some w)).
Proof.
  intros [_ T] Q.
  assert (E : forall (l : list Z), (forall w, In w l -> False) -> l = []).
  { intros [|x l] H; [reflexivity|]. exfalso. apply (H x). left. reflexivity. }
  split; [apply E; intros w Hin; destruct (T w) as (_ & T2 & _); rewrite Q in T2; apply T2 in Hin; discriminate|].
  split; [apply E; intros w Hin; destruct (T w) as (_ & _ & _ & _ & T5 & _); rewrite Q in T5; apply T5 in Hin; discriminate|].
  split; [apply E; intros w Hin; destruct (T w) as (_ & _ & _ & _ & _ & T6 & _); rewrite Q in T6; apply T6 in Hin; discriminate|].
  split; [destruct (lockh s) as [w|] eqn:K; [|reflexivity]; destruct (T w) as (_ & _ & T3 & _); rewrite Q in T3;
          apply T3 in K; discriminate|].
  split; [destruct (sidelock s) as [w|] eqn:K; [|reflexivity]; destruct (T w) as (_ & _ & _ & T4 & _); rewrite Q in T4;
          apply T4 in K; discriminate|].
  intros w K. destruct (T w) as (T1 & _). rewrite Q in T1. apply T1 in K. discriminate.
Qed.

(* nothing is stranded: when no thread is inside an API call or a drain and the word is not suspended, a non-empty lane
   sits in its target queue *)
Theorem not_stranded rb ina s :
  0 <= rb < 2 -> reach rb ina s -> quiescent s -> suspended_word (st s) = false -> lst s <> [] ->
  rootq s = 1 /\ token s = Some None.
Proof.
  intros Hrb R Q Hs L. pose proof (Inv_reachable rb ina s Hrb R) as I.
  destruct (quiescent_ghosts ina s I Q) as (Wk & _ & _ & LN & _ & NT).
  destruct (resumed_has_responsible rb ina s Hrb R Hs L) as [X|[X|X]]; try congruence.
  destruct I as [(r & A & _) _]. pose proof (g_rootq s r A) as G.
  destruct (token s) as [[w|]|] eqn:K; [exfalso; apply (NT w); reflexivity | split; [exact G | reflexivity] | congruence].
Qed.

(* at quiescence the word is suspended exactly when suspensions are owed or the lane is still inactive: N suspends need
   exactly N resumes (whatever the nesting depth: the count is split between the word and the side counter) *)
Theorem quiescent_suspended_iff rb ina s :
  0 <= rb < 2 -> reach rb ina s -> quiescent s ->
  sc_of s + side s = susp_done s /\
  (suspended_word (st s) = true <-> 0 < susp_done s \/ hi_of s mod 4 = 3).
Proof.
  intros Hrb R Q. pose proof (Inv_reachable rb ina s Hrb R) as I.
  destruct (quiescent_ghosts ina s I Q) as (_ & Rp & Sr & _ & SL & _).
  destruct (count_exact rb ina s Hrb R) as (Cnt & _ & _ & _ & _ & E).
  destruct I as [(r & A & B & C & D) T].
  unfold outstanding in *. rewrite Rp, Sr in *. unfold side_eff in *. rewrite SL in *. change (zlen []) with 0 in *.
  rewrite !Z.add_0_r in *. split; [exact Cnt|].
  rewrite E. rewrite (hi_of_enc s r A) in *. dB B. destruct Bact as [Ba2 Ba1].
  unfold side_eff in Ba1, Bcnt. rewrite SL, Rp, Sr in *. change (zlen []) with 0 in *. rewrite !Z.add_0_r in *.
  pose proof (g_wf s r A) as W. unfold wfr in W. pose proof (Z.mod_pos_bound (f_hi r) 4 ltac:(lia)).
  split.
  - intros [X|X]; [left; exact X|]. destruct (Z.eq_dec (f_hi r mod 4) 3) as [E3|E3]; [right; exact E3|].
    left. assert (E1 : f_hi r mod 4 = 1) by lia. specialize (Ba1 E1). lia.
  - intros [X|X]; [left; exact X | right; lia].
Qed.

(* after the last resume of an activated lane at quiescence: the lane sits in its target queue if it has items, and
   if it sits nowhere every submitted item has run, in order *)
Theorem quiescent_all_done rb ina s :
  0 <= rb < 2 -> reach rb ina s -> quiescent s -> susp_done s = 0 -> hi_of s mod 4 <> 3 -> rootq s = 0 ->
  lst s = [] /\ rev (started s) = zrange (nextid s) /\ running s = None.
Proof.
  intros Hrb R Q S0 NI Z0. pose proof (Inv_reachable rb ina s Hrb R) as I.
  destruct (quiescent_suspended_iff rb ina s Hrb R Q) as (_ & E).
  assert (Hs : suspended_word (st s) = false).
  { destruct (suspended_word (st s)) eqn:X; [|reflexivity]. destruct E as [E _]. destruct (E eq_refl); [lia | contradiction]. }
  assert (L : lst s = []).
  { destruct (lst s) eqn:X; [reflexivity|]. assert (lst s <> []) by congruence.
    destruct (not_stranded rb ina s Hrb R Q Hs H). lia. }
  destruct (quiescent_ghosts ina s I Q) as (_ & _ & _ & LN & _ & _).
  destruct I as [(r & A & _) _]. split; [exact L|]. split.
  - pose proof (g_order s r A) as G. unfold inflight in G. rewrite LN, L in G. cbn [map app] in G.
    rewrite app_nil_r in G. exact G.
  - rewrite (g_running s r A), LN. reflexivity.
Qed.

(* while suspensions are owed at quiescence a non-empty list may sit, but nothing else is lost: the items that have
   begun and the items still in the list are exactly the submitted ones, in tail-exchange order *)
Theorem nothing_lost rb ina s :
  0 <= rb < 2 -> reach rb ina s ->
  rev (started s) ++ inflight s ++ map e_id (lst s) = zrange (nextid s) /\ NoDup (started s).
Proof.
  intros Hrb R. destruct (Inv_reachable rb ina s Hrb R) as [(r & A & _) _].
  pose proof (g_order s r A) as G. split; [exact G|].
  assert (ND : NoDup (rev (started s))).
  { apply (prefix_nodup _ _ _ G), zrange_nodup. }
  apply NoDup_rev in ND. rewrite rev_involutive in ND. exact ND.
Qed.

(* the drain lock is exclusive, and so are callouts (as in SLane) *)
Theorem lock_exclusive rb ina s t1 t2 :
  0 <= rb < 2 -> reach rb ina s -> lock_pc (pcs s t1) = true -> lock_pc (pcs s t2) = true -> t1 = t2.
Proof.
  intros Hrb R L1 L2. destruct (Inv_reachable rb ina s Hrb R) as [_ T].
  pose proof (holder_lock s t1 (T t1) L1). pose proof (holder_lock s t2 (T t2) L2). congruence.
Qed.

Theorem callouts_exclusive rb ina s t1 t2 o1 i1 m1 o2 i2 m2 :
  0 <= rb < 2 -> reach rb ina s -> pcs s t1 = PW_incall o1 i1 m1 -> pcs s t2 = PW_incall o2 i2 m2 ->
  t1 = t2 /\ i1 = i2 /\ running s = Some (t1, i1).
Proof.
  intros Hrb R P1 P2.
  assert (E : t1 = t2) by (apply (lock_exclusive rb ina s t1 t2 Hrb R); [rewrite P1 | rewrite P2]; reflexivity).
  subst t2. rewrite P1 in P2. injection P2 as _ <- _. repeat split.
  destruct (Inv_reachable rb ina s Hrb R) as [(r & A & _) T].
  assert (K : lockh s = Some t1) by (apply (holder_lock s t1 (T t1)); rewrite P1; reflexivity).
  rewrite (g_running s r A), K, P1. reflexivity.
Qed.

(* ---------------------------------------------------------------- 4. inactive lanes *)
(* as long as the INACTIVE or NEEDS_ACTIVATION bit is set no item has started and nobody holds the drain lock *)
Theorem inactive_runs_nothing rb ina s :
  0 <= rb < 2 -> reach rb ina s -> hi_of s mod 4 <> 0 ->
  started s = [] /\ running s = None /\ lockh s = None /\ suspended_word (st s) = true.
Proof.
  intros Hrb R H. destruct (Inv_reachable rb ina s Hrb R) as [(r & A & B & C & D) T].
  rewrite (hi_of_enc s r A) in H. destruct (d_inact ina s r D H) as [S L].
  split; [exact S|]. split; [rewrite (g_running s r A), L; reflexivity|]. split; [exact L|].
  apply (suspended_iff_hi s r A). pose proof (g_wf s r A) as W. unfold wfr in W.
  destruct (Z.eq_dec (f_hi r) 0) as [E|E]; [rewrite E in H; exfalso; apply H; reflexivity | lia].
Qed.

(* a lane created inactive keeps both bits until dispatch_activate is called: it runs nothing before *)
Theorem inactive_until_activate rb s :
  0 <= rb < 2 -> reach rb true s -> act_called s = false ->
  hi_of s mod 4 = 3 /\ started s = [] /\ running s = None /\ lockh s = None /\ suspended_word (st s) = true.
Proof.
  intros Hrb R H. destruct (Inv_reachable rb true s Hrb R) as [(r & A & B & C & D) T].
  pose proof (d_act0 true s r D H) as M. rewrite <- (hi_of_enc s r A) in M. split; [exact M|].
  apply (inactive_runs_nothing rb true s Hrb R). rewrite M. discriminate.
Qed.

(* once every dispatch_activate call has finished its first loop the INACTIVE bit is gone for good; the activation
   itself is a suspension taken by the activating thread ({ i:1 na:1 } -> { sc:1 }) that it resumes after running the
   activation: the lane becomes runnable by the last resume of that suspension (count_exact, resumed_has_responsible) *)
Theorem activate_clears_inactive rb ina s :
  0 <= rb < 2 -> reach rb ina s -> act_called s = true -> (forall t, pcs s t <> PC_rmw) -> hi_of s mod 4 <> 3.
Proof.
  intros Hrb R H U. destruct (Inv_reachable rb ina s Hrb R) as [(r & A & B & C & D) T].
  rewrite (hi_of_enc s r A). exact (d_act1 ina s r D H U).
Qed.

(* a lane created active never has those bits: dispatch_activate is a no-op on it *)
Theorem active_lane_bits rb s : 0 <= rb < 2 -> reach rb false s -> hi_of s mod 4 = 0.
Proof.
  intros Hrb R. destruct (Inv_reachable rb false s Hrb R) as [(r & A & B & C & D) T].
  rewrite (hi_of_enc s r A). exact (d_active false s r D eq_refl).
Qed.
