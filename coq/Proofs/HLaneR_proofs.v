(* HLaneR_proofs.v — about the replay machinery of Model/HLaneR.v:
   table_forest_ok : the boolean test of a round's forest table decides forest_ok;
   sched_reach     : every state the scheduler passes through is reachable in the model (it only ever takes model steps);
   inv_b           : a boolean version of the invariant of HLane_inv.v over the lanes and threads of a round, TRUE on every
                     reachable state (inv_b_reach), evaluated by the replay on the states it reproduces. *)
From Coq Require Import ZArith Bool List Lia.
From Verif Require Import Word Bits Fields DqFields Conc Gen_consts Gen_dqstate Lane_fields HLane_fields HLane HLane_inv HLane_proofs HLaneR.
Import ListNotations.
Local Open Scope Z_scope.

(* ---------------------------------------------------------------- the forest table *)
Lemma lrow_of_in tbl l x : lrow_of tbl l = Some x -> In x tbl /\ r_lane x = l.
Proof.
  induction tbl as [|y r IH]; cbn [lrow_of]; [discriminate|]. destruct (Z.eqb_spec (r_lane y) l) as [E|E].
  - intros H. injection H as <-. split; [left; reflexivity | exact E].
  - intros H. destruct (IH H) as [A B]. split; [right; exact A | exact B].
Qed.

Theorem table_forest_ok tbl : table_ok_b tbl = true -> forest_ok (forest_of tbl).
Proof.
  intros T. unfold table_ok_b in T. rewrite forallb_forall in T.
  assert (R : forall l x, lrow_of tbl l = Some x -> row_ok_b tbl x = true) by (intros l x H; apply T; apply (lrow_of_in tbl l x H)).
  unfold forest_ok, forest_of; cbn [target depth rolebits prio fallback]. split; [|split].
  - intros l p. destruct (lrow_of tbl l) as [x|] eqn:E; [|discriminate]. specialize (R l x E). unfold row_ok_b in R.
    destruct (r_target x <? 0); [discriminate|]. intros H. injection H as <-.
    rewrite !andb_true_iff in R. destruct R as [_ [R1 R2]]. apply Z.eqb_eq in R1. apply Nat.ltb_lt in R2. split; [exact R2 | exact R1].
  - intros l. destruct (lrow_of tbl l) as [x|] eqn:E; [|lia]. specialize (R l x E). unfold row_ok_b in R.
    destruct (r_target x <? 0); [|discriminate]. intros _.
    rewrite !andb_true_iff in R. destruct R as [_ [R1 R2]]. apply Z.leb_le in R1. apply Z.ltb_lt in R2. lia.
  - intros l. destruct (lrow_of tbl l) as [x|] eqn:E; [|lia]. specialize (R l x E). unfold row_ok_b in R.
    rewrite !andb_true_iff in R. destruct R as [[[[R1 R2] R3] R4] _].
    apply Z.leb_le in R1, R3. apply Z.ltb_lt in R2, R4. lia.
Qed.

(* ---------------------------------------------------------------- the scheduler only takes model steps *)
Section Sched.
  Variable F : forest.

  Lemma try_act_step s a s' : try_act F s a = Some s' -> exists act, step F s act s'.
  Proof.
    unfold try_act. destruct ((0 <? a_tid a) && (a_tid a <? 1073741824)) eqn:V; [|discriminate].
    apply andb_true_iff in V. destruct V as [V1 V2]. apply Z.ltb_lt in V1, V2.
    assert (Vt : valid_tid (a_tid a)) by (split; assumption).
    destruct (a_kind a =? 0).
    - destruct (begin F s (a_tid a) (CAsync (a_x a) (a_y a))) as [s1|] eqn:B; [|discriminate].
      destruct (outcome_ok s1 a); [|discriminate]. intros H. injection H as <-. exists (ABegin (a_tid a) (CAsync (a_x a) (a_y a))). split; assumption.
    - destruct (a_kind a =? 1).
      + destruct (begin F s (a_tid a) (CWorker (a_x a) (a_y a))) as [s1|] eqn:B; [|discriminate].
        destruct (outcome_ok s1 a); [|discriminate]. intros H. injection H as <-. exists (ABegin (a_tid a) (CWorker (a_x a) (a_y a))). split; assumption.
      + destruct (a_kind a =? 2).
        * destruct (gstep F s (a_tid a) false) as [s1|] eqn:B; [|discriminate].
          destruct (outcome_ok s1 a); [|discriminate]. intros H. injection H as <-. exists (AStep (a_tid a) false). split; assumption.
        * destruct (a_kind a =? 3); [|discriminate].
          destruct (gstep F s (a_tid a) true) as [s1|] eqn:B; [|discriminate].
          destruct (outcome_ok s1 a); [|discriminate]. intros H. injection H as <-. exists (AStep (a_tid a) true). split; assumption.
  Qed.

  Lemma pick_step cs s qs : forall ord seen w a s', pick F cs s qs ord seen w = Some (a, s') -> exists act, step F s act s'.
  Proof.
    induction ord as [|t r IH]; intros seen w a s' H; destruct w as [|w']; cbn [pick] in H; try discriminate.
    destruct (existsb (Z.eqb t) seen); [eapply IH; exact H|].
    destruct (lookup t qs) as [|x xs]; [eapply IH; exact H|].
    destruct (eligible cs x); [|eapply IH; exact H].
    destruct (try_act F s x) as [s1|] eqn:T; [|eapply IH; exact H].
    injection H as _ <-. eapply try_act_step. exact T.
  Qed.

  Theorem sched_reach chk every : forall fuel w cs s qs ord done bad s' d o b q,
    reach F s -> sched F chk every fuel w cs s qs ord done bad = (s', d, o, b, q) -> reach F s'.
  Proof.
    induction fuel as [|f IH]; intros w cs s qs ord done bad s' d o b q R H; cbn [sched] in H.
    - injection H as <- _ _ _ _. exact R.
    - destruct ord as [|t r]; [injection H as <- _ _ _ _; exact R|].
      destruct (pick F cs s qs (t :: r) [] w) as [[a s1]|] eqn:P; [|injection H as <- _ _ _ _; exact R].
      destruct (pick_step cs s qs _ _ _ _ _ P) as [act St].
      eapply IH; [|exact H]. eapply reach_step; [exact R | exact St].
  Qed.
End Sched.

(* ---------------------------------------------------------------- the boolean invariant *)
Fixpoint nodup_b (l : list Z) : bool := match l with [] => true | x :: r => negb (existsb (Z.eqb x) r) && nodup_b r end.
Definition mem (x : Z) (l : list Z) : bool := existsb (Z.eqb x) l.
Fixpoint list_eqb (a b : list Z) : bool :=
  match a, b with [], [] => true | x :: a', y :: b' => (x =? y) && list_eqb a' b' | _, _ => false end.
Definition is_nil {A} (l : list A) : bool := match l with [] => true | _ => false end.

Lemma mem_iff x l : mem x l = true <-> In x l.
Proof.
  unfold mem. rewrite existsb_exists. split.
  - intros (y & H & E). apply Z.eqb_eq in E. subst. exact H.
  - intros H. exists x. split; [exact H | apply Z.eqb_refl].
Qed.
Lemma nodup_b_true l : NoDup l -> nodup_b l = true.
Proof.
  induction 1 as [|x l Hx Hl IH]; cbn [nodup_b]; [reflexivity|]. rewrite IH, andb_true_r. apply negb_true_iff.
  destruct (existsb (Z.eqb x) l) eqn:E; [|reflexivity]. exfalso. apply Hx. apply mem_iff. exact E.
Qed.
Lemma list_eqb_refl a : list_eqb a a = true.
Proof. induction a as [|x a IH]; cbn [list_eqb]; [reflexivity|]. rewrite Z.eqb_refl, IH. reflexivity. Qed.
Lemma bool_iff_eqb (a b : bool) : (a = true <-> b = true) -> Bool.eqb a b = true.
Proof. destruct a, b; cbn; intros [H1 H2]; try reflexivity; [specialize (H1 eq_refl); discriminate | specialize (H2 eq_refl); discriminate]. Qed.

Section InvB.
  Variable F : forest.
  Variable lanes : list Z.
  Variable tids : list Z.

  Definition is_invoking (p : pc) : bool := match p with PW_invoking _ _ _ => true | _ => false end.
  Definition is_incall (p : pc) : bool := match p with PW_incall _ _ _ => true | _ => false end.
  Definition invoking_of (p : pc) (c : Z) : bool := match p with PW_invoking _ c' _ => c' =? c | _ => false end.
  Definition target_is (c : Z) (o : option Z) : bool :=
    match target F c, o with Some t, Some l => t =? l | None, None => true | _, _ => false end.

  Fixpoint chain_b (child : option Z) (k : list frame) : bool :=
    match k with
    | [] => match child with Some c => target_is c None | None => true end
    | (l, p) :: r =>
        is_drain p && match child with Some c => target_is c (Some l) && invoking_of p c | None => true end && chain_b (Some l) r
    end.
  Definition shape_b (k : list frame) : bool :=
    match k with
    | [] => true
    | (l, p) :: r =>
        if is_drain p then chain_b None k && negb (is_invoking p)
        else chain_b None r && match r with [] => true | (_, q) :: _ => is_incall q || is_invoking q end
    end.
  Definition frame_ok_b (f : frame) : bool :=
    let '(l, p) := f in
    match owned_of p with Some o => o =? OWN | None => true end &&
    match qos_of p with Some q => (0 <=? q) && (q <? 8) | None => true end &&
    match p with
    | PA_xchg (WLane l') _ => target_is l' (Some l)
    | PW_run _ (Lane l') _ => target_is l' (Some l)
    | PW_invoking _ l' _ => target_is l' (Some l)
    | PW_finish _ => negb (target_is l None)
    | _ => true
    end.

  Definition tok_is (k : option (option Z)) (t : Z) : bool := match k with Some (Some w) => w =? t | _ => false end.
  Definition free_b (r : dqf) : bool := (f_owner r =? 0) && (f_ib r =? 0) && (f_wq r =? 4095).
  Definition held_b (r : dqf) (w : Z) : bool := (f_owner r =? w) && (f_ib r =? 1) && (f_wq r =? 4096).

  Definition linv_b (s : gst) (l : Z) : bool :=
    let w := st s l in let r := dec w in
    (0 <=? w) && (w <? 18446744073709551616) &&
    (f_tr r =? 0) && (f_em r =? 0) && (f_pb r =? 0) && (f_hi r =? 0) && (f_role r =? rolebits F l) &&
    Bool.eqb (f_enq r =? 1) (negb (match token s l with None => true | _ => false end)) &&
    (rootq s l =? match token s l, target F l with Some None, None => 1 | _, _ => 0 end) &&
    forallb (fun p => Nat.eqb (count_lane l (lst s p))
                              (match token s l, target F l with Some None, Some p' => if p' =? p then 1%nat else 0%nat | _, _ => 0%nat end)) lanes &&
    match token s l with
    | Some (Some t) => (0 <? t) && (t <? 1073741824) && (if lockedb (dpc (stk s t) l) then held_b r t else free_b r)
    | _ => free_b r
    end &&
    (is_nil (lst s l) || negb (match token s l with None => true | _ => false end) || negb (is_nil (wakers s l))) &&
    match token s l with
    | Some (Some t) => match dpc (stk s t) l with
                       | Some p => negb (unlocking_pc p && negb (is_nil (lst s l)) && is_nil (wakers s l)) || (f_d r =? 1)
                       | None => true
                       end
    | _ => true
    end &&
    nodup_b (wakers s l) && (0 <=? nextid s l) &&
    list_eqb (rev (started s l) ++ inflight_pc (hpc s l) ++ items (lst s l)) (zrange (nextid s l)).

  Definition tinv_b (s : gst) (t : Z) : bool :=
    let k := stk s t in
    nodup_b (holds k) &&
    forallb (fun l => Bool.eqb (mem l (holds k)) (tok_is (token s l) t)) lanes &&
    forallb (fun l => Bool.eqb (mem t (wakers s l)) (match topwaker k with Some x => x =? l | None => false end)) lanes &&
    shape_b k && forallb frame_ok_b k.

  Definition inv_b (s : gst) : bool := forallb (linv_b s) lanes && forallb (tinv_b s) tids.

  Lemma target_is_some c l : target F c = Some l -> target_is c (Some l) = true.
  Proof. unfold target_is. intros ->. apply Z.eqb_refl. Qed.
  Lemma target_is_none c : target F c = None -> target_is c None = true.
  Proof. unfold target_is. intros ->. reflexivity. Qed.

  Lemma chain_b_true c k : chain F c k -> chain_b c k = true.
  Proof.
    revert c. induction k as [|[l p] r IH]; intros c; cbn [chain chain_b].
    - destruct c; [apply target_is_none | reflexivity].
    - intros (D & Hc & C). rewrite D, (IH _ C), andb_true_r. cbn [andb]. destruct c as [c|]; [|reflexivity].
      destruct Hc as (Tg & o & m & ->). rewrite (target_is_some c l Tg). cbn [invoking_of]. rewrite Z.eqb_refl. reflexivity.
  Qed.

  Lemma shape_b_true k : shape F k -> shape_b k = true.
  Proof.
    destruct k as [|[l p] r]; cbn [shape shape_b]; [reflexivity|]. destruct (is_drain p) eqn:D.
    - intros [C NI]. rewrite (chain_b_true None _ C). cbn [andb]. destruct p; try reflexivity. exfalso. exact (NI _ _ _ eq_refl).
    - intros [C H]. rewrite (chain_b_true None _ C). cbn [andb]. destruct r as [|[x q] r']; [reflexivity|].
      destruct H as [(o & i & m & ->)|(o & c & m & ->)]; reflexivity.
  Qed.

  Lemma frame_ok_b_true f : frame_ok F f -> frame_ok_b f = true.
  Proof.
    destruct f as [l p]. unfold frame_ok, frame_ok_b. intros (A & B & C).
    assert (E1 : match owned_of p with Some o => o =? OWN | None => true end = true).
    { destruct (owned_of p) as [o|]; [|reflexivity]. rewrite (A o eq_refl). apply Z.eqb_refl. }
    assert (E2 : match qos_of p with Some q => (0 <=? q) && (q <? 8) | None => true end = true).
    { destruct (qos_of p) as [q|]; [|reflexivity]. destruct (B q eq_refl) as [B1 B2]. apply andb_true_iff. split; [apply Z.leb_le | apply Z.ltb_lt]; assumption. }
    rewrite E1, E2. cbn [andb].
    destruct p; try reflexivity.
    - destruct w; [reflexivity | apply target_is_some; exact C].
    - destruct e; [reflexivity | apply target_is_some; exact C].
    - apply target_is_some; exact C.
    - apply negb_true_iff. unfold target_is. destruct (target F l); [reflexivity | contradiction].
  Qed.

  Lemma linv_b_true s l r : linv F s l r -> linv_b s l = true.
  Proof.
    intros G. destruct G as [Genc Gwf Gtr Gem Gpb Ghi Grole Genq Grootq Gwhere Glock Gnostrand Gdirty Gnodup Gnextid Gorder].
    unfold linv_b. cbv zeta. rewrite Genc, (dec_enc r Gwf). pose proof (enc_range r Gwf) as Rg.
    repeat (apply andb_true_iff; split).
    - apply Z.leb_le; lia.
    - apply Z.ltb_lt; lia.
    - apply Z.eqb_eq; exact Gtr.
    - apply Z.eqb_eq; exact Gem.
    - apply Z.eqb_eq; exact Gpb.
    - apply Z.eqb_eq; exact Ghi.
    - apply Z.eqb_eq; exact Grole.
    - apply bool_iff_eqb. rewrite Z.eqb_eq, negb_true_iff. rewrite Genq. destruct (token s l); split; intros H; congruence.
    - apply Z.eqb_eq; exact Grootq.
    - apply forallb_forall. intros p _. apply Nat.eqb_eq. apply Gwhere.
    - destruct (token s l) as [[w|]|].
      + destruct Glock as [[V1 V2] H]. apply andb_true_iff. split; [apply andb_true_iff; split; [apply Z.ltb_lt | apply Z.ltb_lt]; assumption|].
        destruct (lockedb (dpc (stk s w) l)); destruct H as (H1 & H2 & H3); unfold held_b, free_b; rewrite H1, H2, H3, !Z.eqb_refl; reflexivity.
      + destruct Glock as (H1 & H2 & H3). unfold free_b. rewrite H1, H2, H3. reflexivity.
      + destruct Glock as (H1 & H2 & H3). unfold free_b. rewrite H1, H2, H3. reflexivity.
    - destruct (lst s l) as [|e k] eqn:El; [reflexivity|]. cbn [is_nil orb].
      destruct Gnostrand as [H|H]; [discriminate| |].
      + destruct (token s l); [reflexivity | congruence].
      + destruct (wakers s l); [congruence|]. cbn. apply orb_true_r.
    - destruct (token s l) as [[w|]|]; try reflexivity. destruct (dpc (stk s w) l) as [p|] eqn:Ep; [|reflexivity].
      destruct (unlocking_pc p) eqn:U; [|reflexivity]. destruct (lst s l) as [|e k] eqn:El; [reflexivity|].
      destruct (wakers s l) as [|x y] eqn:Ew; [|reflexivity]. cbn [is_nil negb andb orb].
      apply Z.eqb_eq. apply (Gdirty w p eq_refl Ep U); [discriminate | reflexivity].
    - apply nodup_b_true; exact Gnodup.
    - apply Z.leb_le; exact Gnextid.
    - rewrite Gorder. apply list_eqb_refl.
  Qed.

  Lemma tinv_b_true s t : tinv F s t -> tinv_b s t = true.
  Proof.
    intros (T1 & T2 & T3 & T4 & T5). unfold tinv_b. cbv zeta.
    repeat (apply andb_true_iff; split).
    - apply nodup_b_true; exact T1.
    - apply forallb_forall. intros l _. apply bool_iff_eqb. rewrite mem_iff, T2. unfold tok_is.
      destruct (token s l) as [[w|]|]; split; intros H; try discriminate.
      + injection H as ->. apply Z.eqb_refl.
      + apply Z.eqb_eq in H. subst. reflexivity.
    - apply forallb_forall. intros l _. apply bool_iff_eqb. rewrite mem_iff, T3.
      destruct (topwaker (stk s t)) as [x|]; split; intros H; try discriminate.
      + injection H as ->. apply Z.eqb_refl.
      + apply Z.eqb_eq in H. subst. reflexivity.
    - apply shape_b_true; exact T4.
    - apply forallb_forall. intros f Hf. apply frame_ok_b_true. rewrite Forall_forall in T5. apply T5. exact Hf.
  Qed.

  Theorem inv_b_true s : Inv F s -> inv_b s = true.
  Proof.
    intros [L T]. unfold inv_b. apply andb_true_iff. split; apply forallb_forall.
    - intros l _. destruct (L l) as [r G]. apply (linv_b_true s l r G).
    - intros t _. apply tinv_b_true. apply T.
  Qed.

  Theorem inv_b_reach s : forest_ok F -> reach F s -> inv_b s = true.
  Proof. intros FOK R. apply inv_b_true. apply (Inv_reachable F FOK s R). Qed.
End InvB.
