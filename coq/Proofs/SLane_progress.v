(* SLane_progress.v — no reachable state of the serial-lane model is stuck: whenever some thread is inside an API call
   or a drain, some thread has an enabled step (a drainer waiting for an enqueuer's link always has that enqueuer
   one step away from publishing it).  Together with SLane_proofs.not_stranded this is the safety half of
   "no work item is stranded"; that every fair schedule terminates is not proved here. *)
From Coq Require Import ZArith Bool List Lia.
From Verif Require Import Word Bits Fields DqFields Conc Gen_consts Gen_dqstate Lane_fields SLane SLane_proofs.
Import ListNotations.
Local Open Scope Z_scope.

Definition needs_item (p : pc) : bool :=
  match p with
  | PW_head _ | PW_pop _ | PW_run _ _ true | PW_incall _ _ true | PW_next _ true => true
  | _ => false
  end.

Definition L1 (s : gst) : Prop := forall t, needs_item (pcs s t) = true -> lst s <> [].
Definition L2 (s : gst) : Prop :=
  forall e, In e (lst s) -> e_linked e = false -> exists t w q, pcs s t = PA_link (e_id e) w q.
(* a pusher between its exchange and its link owns an entry of the list *)
Definition L3 (s : gst) : Prop := forall t i w q, pcs s t = PA_link i w q -> 0 <= i < nextid s.

Definition Inv2 (s : gst) : Prop := Inv s /\ L1 s /\ L2 s.

Lemma Inv2_init rb : 0 <= rb < 2 -> Inv2 (init_state rb).
Proof.
  intros H. split; [apply Inv_init; exact H|]. split.
  - intros t. unfold init_state; cbn. discriminate.
  - intros e. unfold init_state; cbn. contradiction.
Qed.

Lemma suffix_nodup {A} (l1 l2 : list A) : NoDup (l1 ++ l2) -> NoDup l2.
Proof. induction l1 as [|a l1 IH]; cbn [app]; intros H; [exact H|]. inversion H; subst. apply IH. assumption. Qed.

Lemma ids_nodup s : Inv s -> NoDup (map e_id (lst s)).
Proof.
  intros [[r G] _]. pose proof (g_order s r G) as g_order0.
  pose proof (zrange_nodup (nextid s)) as ND. rewrite <- g_order0 in ND.
  apply suffix_nodup in ND. apply suffix_nodup in ND. exact ND.
Qed.

Lemma ids_below s e : Inv s -> In e (lst s) -> 0 <= e_id e < nextid s.
Proof.
  intros [[r G] _] Hin. pose proof (g_order s r G) as g_order0. apply in_zrange. rewrite <- g_order0.
  apply in_or_app. right. apply in_or_app. right. apply in_map. exact Hin.
Qed.

Lemma in_link_id l i e : NoDup (map e_id l) -> In e (link_id l i) -> e_linked e = false -> In e l /\ e_id e <> i.
Proof.
  induction l as [|x l IH]; cbn [link_id map]; intros ND Hin Hl; [contradiction|].
  inversion ND as [|y l' Hy Hl']; subst.
  destruct (Z.eqb_spec (e_id x) i) as [E|E].
  - destruct Hin as [<-|Hin]; [cbn in Hl; discriminate|]. split; [right; exact Hin|].
    intros E'. apply Hy. rewrite E, <- E'. apply in_map. exact Hin.
  - destruct Hin as [<-|Hin]; [split; [left; reflexivity | exact E]|].
    destruct (IH Hl' Hin Hl) as [H1 H2]. split; [right; exact H1 | exact H2].
Qed.

Lemma holder_unique s t u : Inv s -> token_pc (pcs s t) = true -> token_pc (pcs s u) = true -> t = u.
Proof.
  intros [_ T] H1 H2. pose proof (holder s t (T t) H1). pose proof (holder s u (T u) H2). congruence.
Qed.

Lemma needs_item_token p : needs_item p = true -> token_pc p = true.
Proof. destruct p; cbn; try discriminate; reflexivity. Qed.

(* generic: a step that changes only the pc of t, to a point that needs no item, and leaves the list alone *)
Lemma L1_set_pc s t p : L1 s -> (needs_item p = true -> lst s <> []) -> L1 (set_pc s t p).
Proof.
  intros H Hp u. cbn [pcs set_pc lst]. destruct (Z.eq_dec u t) as [->|N]; [rewrite upd_same; exact Hp | rewrite upd_other by exact N; apply H].
Qed.

Lemma L2_set_pc s t p : L2 s -> (forall i w q, pcs s t <> PA_link i w q) -> L2 (set_pc s t p).
Proof.
  intros H Hp e Hin Hl. cbn [pcs set_pc lst] in *. destruct (H e Hin Hl) as (u & w & q & E).
  exists u, w, q. rewrite upd_other; [exact E|]. intros ->. apply (Hp _ _ _ E).
Qed.

Theorem step2_preserves s a s' : Inv2 s -> step s a s' -> Inv2 s'.
Proof.
  intros (I & H1 & H2) St. pose proof (step_preserves s a s' I St) as I'. split; [exact I'|].
  destruct a as [t c|t|t]; destruct St as [V B].
  - (* begin *)
    unfold begin in B. destruct (pcs s t) eqn:Hpc; try discriminate.
    destruct c as [q|f].
    + destruct ((0 <=? q) && (q <? 8)); [|discriminate]. injection B as <-. split.
      * apply L1_set_pc; [exact H1 | discriminate].
      * apply L2_set_pc; [exact H2 | rewrite Hpc; discriminate].
    + destruct (0 <? rootq s); [|discriminate]. injection B as <-. split.
      * intros u. cbn [pcs set_pc set_token set_rootq lst]. destruct (Z.eq_dec u t) as [->|N];
          [rewrite upd_same; discriminate | rewrite upd_other by exact N; apply H1].
      * intros e Hin Hl. cbn [pcs set_pc set_token set_rootq lst] in *. destruct (H2 e Hin Hl) as (u & w & q & E).
        exists u, w, q. rewrite upd_other; [exact E|]. intros ->. congruence.
  - unfold gstep in B. destruct (pcs s t) eqn:Hpc.
    + discriminate.
    + (* PA_xchg *) injection B as <-. split.
      * intros u. cbn [pcs lst]. intros Hn. destruct (lst s); discriminate.
      * intros e. cbn [pcs lst]. intros Hin Hl. apply in_app_or in Hin. destruct Hin as [Hin|[<-|[]]].
        -- destruct (H2 e Hin Hl) as (u & w & q & E). exists u, w, q. rewrite upd_other; [exact E|]. intros ->. congruence.
        -- exists t. eexists. eexists. rewrite upd_same. cbn [e_id]. reflexivity.
    + (* PA_link *) injection B as <-. split.
      * intros u. cbn [pcs set_pc set_lst lst]. intros Hn. rewrite link_nil_iff.
        destruct (Z.eq_dec u t) as [->|N]; [rewrite upd_same in Hn; destruct was_empty; discriminate|].
        rewrite upd_other in Hn by exact N. apply (H1 u Hn).
      * intros e. cbn [pcs set_pc set_lst lst]. intros Hin Hl.
        destruct (in_link_id _ _ _ (ids_nodup s I) Hin Hl) as [Hin' Hne].
        destruct (H2 e Hin' Hl) as (u & w & q & E). exists u, w, q. rewrite upd_other; [exact E|]. intros ->.
        rewrite Hpc in E. injection E as E _ _. congruence.
    + (* PA_probe *) injection B as <-. destruct (lst s) eqn:L; split.
      * intros u. cbn [pcs set_pc set_wakers lst]. intros Hn.
        destruct (Z.eq_dec u t) as [->|N]; [rewrite upd_same in Hn; discriminate|].
        rewrite upd_other in Hn by exact N. apply (H1 u Hn).
      * intros e' Hin Hl. cbn [pcs set_pc set_wakers lst] in *. rewrite L in Hin. contradiction.
      * apply L1_set_pc; [exact H1 | discriminate].
      * apply L2_set_pc; [exact H2 | rewrite Hpc; discriminate].
    + (* PA_wake *) destruct (wakeup_loop 0 qos 3 1 (st s) ENQUEUED); try discriminate. injection B as <-.
      destruct (negb (Z.land (Z.lxor (st s) new) ENQUEUED =? 0)); split.
      * intros u. cbn [pcs set_pc set_wakers set_token set_st lst]. intros Hn.
        destruct (Z.eq_dec u t) as [->|N]; [rewrite upd_same in Hn; discriminate|].
        rewrite upd_other in Hn by exact N. apply (H1 u Hn).
      * intros e Hin Hl. cbn [pcs set_pc set_wakers set_token set_st lst] in *. destruct (H2 e Hin Hl) as (u & w & q & E).
        exists u, w, q. rewrite upd_other; [exact E|]. intros ->. congruence.
      * intros u. cbn [pcs set_pc set_wakers set_token set_st lst]. intros Hn.
        destruct (Z.eq_dec u t) as [->|N]; [rewrite upd_same in Hn; discriminate|].
        rewrite upd_other in Hn by exact N. apply (H1 u Hn).
      * intros e Hin Hl. cbn [pcs set_pc set_wakers set_token set_st lst] in *. destruct (H2 e Hin Hl) as (u & w & q & E).
        exists u, w, q. rewrite upd_other; [exact E|]. intros ->. congruence.
    + (* PA_rootpush *) injection B as <-. split.
      * intros u. cbn [pcs set_pc set_rootq set_token lst]. intros Hn.
        destruct (Z.eq_dec u t) as [->|N]; [rewrite upd_same in Hn; discriminate|].
        rewrite upd_other in Hn by exact N. apply (H1 u Hn).
      * intros e Hin Hl. cbn [pcs set_pc set_rootq set_token lst] in *. destruct (H2 e Hin Hl) as (u & w & q & E).
        exists u, w, q. rewrite upd_other; [exact E|]. intros ->. congruence.
    + (* PA_oprobe *) injection B as <-. destruct (lst s) eqn:L; split.
      * apply L1_set_pc; [exact H1 | discriminate].
      * apply L2_set_pc; [exact H2 | rewrite Hpc; discriminate].
      * apply L1_set_pc; [exact H1 | discriminate].
      * apply L2_set_pc; [exact H2 | rewrite Hpc; discriminate].
    + (* PA_owake *) destruct (wakeup_loop 0 qos 1 1 (st s) ENQUEUED); try discriminate.
      * injection B as <-. destruct (negb (Z.land (Z.lxor (st s) new) ENQUEUED =? 0)); split.
        -- intros u. cbn [pcs set_pc set_token set_st lst]. intros Hn.
           destruct (Z.eq_dec u t) as [->|N]; [rewrite upd_same in Hn; discriminate|].
           rewrite upd_other in Hn by exact N. apply (H1 u Hn).
        -- intros e Hin Hl. cbn [pcs set_pc set_token set_st lst] in *. destruct (H2 e Hin Hl) as (u & w & q & E).
           exists u, w, q. rewrite upd_other; [exact E|]. intros ->. congruence.
        -- intros u. cbn [pcs set_pc set_token set_st lst]. intros Hn.
           destruct (Z.eq_dec u t) as [->|N]; [rewrite upd_same in Hn; discriminate|].
           rewrite upd_other in Hn by exact N. apply (H1 u Hn).
        -- intros e Hin Hl. cbn [pcs set_pc set_token set_st lst] in *. destruct (H2 e Hin Hl) as (u & w & q & E).
           exists u, w, q. rewrite upd_other; [exact E|]. intros ->. congruence.
      * injection B as <-. split.
        -- apply L1_set_pc; [exact H1 | discriminate].
        -- apply L2_set_pc; [exact H2 | rewrite Hpc; discriminate].
    + (* PW_lock *)
      destruct (f_dispatch_queue_drain_try_lock 0 0 1 t floor (st s) 0); try discriminate.
      * injection B as <-. destruct (ret =? 0); split.
        -- intros u. cbn [pcs set_pc set_st set_token lst]. intros Hn.
           destruct (Z.eq_dec u t) as [->|N]; [rewrite upd_same in Hn; discriminate|].
           rewrite upd_other in Hn by exact N. apply (H1 u Hn).
        -- intros e Hin Hl. cbn [pcs set_pc set_st set_token lst] in *. destruct (H2 e Hin Hl) as (u & w & q & E).
           exists u, w, q. rewrite upd_other; [exact E|]. intros ->. congruence.
        -- intros u. cbn [pcs set_pc set_st set_token lst]. intros Hn.
           destruct (Z.eq_dec u t) as [->|N]; [rewrite upd_same in Hn; discriminate|].
           rewrite upd_other in Hn by exact N. apply (H1 u Hn).
        -- intros e Hin Hl. cbn [pcs set_pc set_st set_token lst] in *. destruct (H2 e Hin Hl) as (u & w & q & E).
           exists u, w, q. rewrite upd_other; [exact E|]. intros ->. congruence.
      * injection B as <-. split.
        -- apply L1_set_pc; [exact H1 | discriminate].
        -- apply L2_set_pc; [exact H2 | rewrite Hpc; discriminate].
    + (* PW_tail *) injection B as <-. split.
      * apply L1_set_pc; [exact H1|]. destruct (lst s); [discriminate | intros _; discriminate].
      * apply L2_set_pc; [exact H2 | rewrite Hpc; discriminate].
    + (* PW_head *) destruct (lst s) as [|e l] eqn:L; [discriminate|]. destruct (e_linked e); [|discriminate].
      injection B as <-. split.
      * apply L1_set_pc; [exact H1 | rewrite L; discriminate].
      * apply L2_set_pc; [exact H2 | rewrite Hpc; discriminate].
    + (* PW_pop *) destruct (lst s) as [|e [|e2 l']] eqn:L; [discriminate| |].
      * injection B as <-. split.
        -- intros u. cbn [pcs set_pc set_lst lst]. intros Hn.
           destruct (Z.eq_dec u t) as [->|N]; [rewrite upd_same in Hn; discriminate|].
           rewrite upd_other in Hn by exact N. exfalso.
           assert (u = t).
           { apply (holder_unique s u t I); [apply needs_item_token; exact Hn | rewrite Hpc; reflexivity]. }
           contradiction.
        -- intros e'. cbn [pcs set_pc set_lst lst]. contradiction.
      * destruct (e_linked e2); [|discriminate]. injection B as <-. split.
        -- intros u. cbn [pcs set_pc set_lst lst]. discriminate.
        -- intros e'. cbn [pcs set_pc set_lst lst]. intros Hin Hl.
           assert (Hin' : In e' (lst s)) by (rewrite L; right; exact Hin).
           destruct (H2 e' Hin' Hl) as (u & w & q & E). exists u, w, q. rewrite upd_other; [exact E|]. intros ->. congruence.
    + (* PW_run *) injection B as <-. split.
      * intros u. cbn [pcs lst]. intros Hn.
        destruct (Z.eq_dec u t) as [->|N].
        -- rewrite upd_same in Hn. apply (H1 t). rewrite Hpc. destruct more; [reflexivity | discriminate].
        -- rewrite upd_other in Hn by exact N. apply (H1 u Hn).
      * intros e Hin Hl. cbn [pcs lst] in *. destruct (H2 e Hin Hl) as (u & w & q & E).
        exists u, w, q. rewrite upd_other; [exact E|]. intros ->. congruence.
    + (* PW_incall *) injection B as <-. split.
      * intros u. cbn [pcs lst]. intros Hn.
        destruct (Z.eq_dec u t) as [->|N].
        -- rewrite upd_same in Hn. apply (H1 t). rewrite Hpc. destruct more; [reflexivity | discriminate].
        -- rewrite upd_other in Hn by exact N. apply (H1 u Hn).
      * intros e Hin Hl. cbn [pcs lst] in *. destruct (H2 e Hin Hl) as (u & w & q & E).
        exists u, w, q. rewrite upd_other; [exact E|]. intros ->. congruence.
    + (* PW_next *) destruct more; injection B as <-; split.
      * apply L1_set_pc; [exact H1|]. intros _. apply (H1 t). rewrite Hpc. reflexivity.
      * apply L2_set_pc; [exact H2 | rewrite Hpc; discriminate].
      * apply L1_set_pc; [exact H1|]. destruct (lst s); [discriminate | intros _; discriminate].
      * apply L2_set_pc; [exact H2 | rewrite Hpc; discriminate].
    + (* PW_unlock *) destruct (f_dispatch_queue_drain_try_unlock 0 owned 1 (st s)); try discriminate; injection B as <-; split.
      * intros u. cbn [pcs set_pc set_st set_token lst]. intros Hn.
        destruct (Z.eq_dec u t) as [->|N]; [rewrite upd_same in Hn; discriminate|].
        rewrite upd_other in Hn by exact N. apply (H1 u Hn).
      * intros e Hin Hl. cbn [pcs set_pc set_st set_token lst] in *. destruct (H2 e Hin Hl) as (u & w & q & E).
        exists u, w, q. rewrite upd_other; [exact E|]. intros ->. congruence.
      * apply L1_set_pc; [exact H1 | discriminate].
      * apply L2_set_pc; [exact H2 | rewrite Hpc; discriminate].
    + (* PW_xor *) injection B as <-. split.
      * intros u. cbn [pcs set_pc set_st lst]. intros Hn.
        destruct (Z.eq_dec u t) as [->|N]; [rewrite upd_same in Hn; discriminate|].
        rewrite upd_other in Hn by exact N. apply (H1 u Hn).
      * intros e Hin Hl. cbn [pcs set_pc set_st lst] in *. destruct (H2 e Hin Hl) as (u & w & q & E).
        exists u, w, q. rewrite upd_other; [exact E|]. intros ->. congruence.
  - (* the override continuation: publishes the link like PA_link *)
    unfold ostep in B. destruct (pcs s t) eqn:Hpc; try discriminate. destruct was_empty; [discriminate|]. injection B as <-. split.
    + intros u. cbn [pcs set_pc set_lst lst]. intros Hn. rewrite link_nil_iff.
      destruct (Z.eq_dec u t) as [->|N]; [rewrite upd_same in Hn; discriminate|].
      rewrite upd_other in Hn by exact N. apply (H1 u Hn).
    + intros e. cbn [pcs set_pc set_lst lst]. intros Hin Hl.
      destruct (in_link_id _ _ _ (ids_nodup s I) Hin Hl) as [Hin' Hne].
      destruct (H2 e Hin' Hl) as (u & w & q & E). exists u, w, q. rewrite upd_other; [exact E|]. intros ->.
      rewrite Hpc in E. injection E as E _ _. congruence.
Qed.

Theorem Inv2_reachable rb s : 0 <= rb < 2 -> reach rb s -> Inv2 s.
Proof.
  intros Hrb. apply invariant_lift.
  - intros s0 ->. apply Inv2_init. exact Hrb.
  - intros s1 a s2 I H. exact (step2_preserves s1 a s2 I H).
Qed.

(* ---------------------------------------------------------------- enabledness *)
Definition enabled (s : gst) (t : Z) : Prop := exists s', gstep s t = Some s'.

Lemma link_enabled s t i w q : pcs s t = PA_link i w q -> enabled s t.
Proof. intros H. unfold enabled, gstep. rewrite H. eexists. reflexivity. Qed.

(* every thread inside a call either can step, or waits for an enqueuer that can *)
Theorem no_stuck_thread rb s t :
  0 <= rb < 2 -> reach rb s -> valid_tid t -> pcs s t <> Idle -> enabled s t \/ exists u, u <> t /\ enabled s u.
Proof.
  intros Hrb R Vt NI. destruct (Inv2_reachable rb s Hrb R) as (I & H1 & H2).
  pose proof I as I0. destruct I0 as [[r G] T].
  pose proof (g_enc s r G) as g_enc0. pose proof (g_wf s r G) as g_wf0. pose proof (g_lock s r G) as g_lock0.
  pose proof (g_enq s r G) as g_enq0. pose proof (g_hi s r G) as g_hi0.
  destruct (pcs s t) eqn:Hpc; try contradiction; unfold enabled at 1; unfold gstep; rewrite Hpc.
  - left. eexists. reflexivity.
  - left. eexists. reflexivity.
  - left. eexists. reflexivity.
  - left. destruct (T t) as (_ & _ & _ & T4). rewrite Hpc in T4. pose proof (T4 qos eq_refl) as Q.
    rewrite g_enc0. unfold ENQUEUED. rewrite (wakeup_fields r qos 3 1 g_wf0 Q eq_refl). cbv zeta. eexists. reflexivity.
  - left. eexists. reflexivity.
  - left. destruct (lst s); eexists; reflexivity.
  - left. destruct (T t) as (_ & _ & _ & T4). rewrite Hpc in T4. pose proof (T4 qos eq_refl) as Q.
    rewrite g_enc0. unfold ENQUEUED. rewrite (wakeup_fields_plain r qos 1 1 g_wf0 Q eq_refl). cbv zeta.
    destruct (_ =? _); eexists; reflexivity.
  - left. pose proof (holder s t (T t)) as K. rewrite Hpc in K. specialize (K eq_refl).
    rewrite K in g_lock0. destruct g_lock0 as [V _].
    rewrite g_enc0. rewrite (lock_fields r t floor 0 g_wf0 V).
    destruct (lock_free r); [destruct ((f_role r mod 2 =? 1) && (floor <? f_mq r))|]; eexists; reflexivity.
  - left. eexists. reflexivity.
  - (* PW_head: the head entry is linked, or its enqueuer is about to link it *)
    assert (L : lst s <> []) by (apply (H1 t); rewrite Hpc; reflexivity).
    destruct (lst s) as [|e l] eqn:E; [contradiction|].
    destruct (e_linked e) eqn:El; [left; eexists; reflexivity|].
    right. destruct (H2 e) as (u & w & q & Eu); [rewrite E; left; reflexivity | exact El |].
    exists u. split; [intros ->; congruence | apply (link_enabled s u _ _ _ Eu)].
  - (* PW_pop *)
    assert (L : lst s <> []) by (apply (H1 t); rewrite Hpc; reflexivity).
    destruct (lst s) as [|e [|e2 l]] eqn:E; [contradiction | left; eexists; reflexivity |].
    destruct (e_linked e2) eqn:El; [left; eexists; reflexivity|].
    right. destruct (H2 e2) as (u & w & q & Eu); [rewrite E; right; left; reflexivity | exact El |].
    exists u. split; [intros ->; congruence | apply (link_enabled s u _ _ _ Eu)].
  - left. eexists. reflexivity.
  - left. eexists. reflexivity.
  - left. destruct more; eexists; reflexivity.
  - left. pose proof (holder s t (T t)) as K. rewrite Hpc in K. specialize (K eq_refl).
    assert (owned = OWN) by (apply (owned_is_OWN s t owned I); rewrite Hpc; reflexivity). subst owned.
    rewrite K, Hpc in g_lock0. cbn [locked_pc] in g_lock0. destruct g_lock0 as [_ (O & Ib & Wq)].
    assert (En : f_enq r = 1) by (apply g_enq0; rewrite K; discriminate).
    rewrite g_enc0. change OWN with (18014398509481984 + 2199023255552 + 2147483648 * 1).
    rewrite (unlock_fields r 1 g_wf0 g_hi0 Ib Wq) by lia.
    destruct (f_d r =? 1); eexists; reflexivity.
  - left. eexists. reflexivity.
Qed.

(* hence: a reachable state in which some thread is inside a call is never deadlocked *)
Corollary no_deadlock rb s t :
  0 <= rb < 2 -> reach rb s -> valid_tid t -> pcs s t <> Idle -> exists u, enabled s u.
Proof.
  intros Hrb R V N. destruct (no_stuck_thread rb s t Hrb R V N) as [H|(u & _ & H)]; eauto.
Qed.

(* dispatch_async never waits: every program point of the submission path has an enabled step, whatever the
   drainers and the other submitters are doing *)
Theorem async_never_blocks rb s t :
  0 <= rb < 2 -> reach rb s -> qos_of (pcs s t) <> None \/ pcs s t = PA_rootpush -> enabled s t.
Proof.
  intros Hrb R H. destruct (Inv2_reachable rb s Hrb R) as (I & _ & _).
  destruct I as [[r G] T]. pose proof (g_enc s r G) as g_enc0. pose proof (g_wf s r G) as g_wf0.
  unfold enabled, gstep.
  destruct (pcs s t) eqn:Hpc; cbn [qos_of] in H; try (destruct H as [H|H]; [congruence | discriminate]);
    try (eexists; reflexivity).
  destruct (T t) as (_ & _ & _ & T4). rewrite Hpc in T4. pose proof (T4 qos eq_refl) as Q.
  rewrite g_enc0. unfold ENQUEUED. rewrite (wakeup_fields_plain r qos 1 1 g_wf0 Q eq_refl). cbv zeta.
  destruct (_ =? _); eexists; reflexivity.
Qed.

(* ---------------------------------------------------------------- executable runs are reachable states *)
Definition act_valid (a : action) : bool :=
  match a with ABegin t _ | AStep t | AStepO t => (0 <? t) && (t <? 1073741824) end.

Lemma run_reach rb acts : forall s s', reach rb s -> forallb act_valid acts = true -> run s acts = Some s' -> reach rb s'.
Proof.
  induction acts as [|a acts IH]; cbn [run forallb]; intros s s' R V E.
  - injection E as <-. exact R.
  - apply andb_true_iff in V. destruct V as [Va V].
    assert (Vt : forall t, (0 <? t) && (t <? 1073741824) = true -> valid_tid t).
    { intros t Ht. apply andb_true_iff in Ht. destruct Ht as [A B]. apply Z.ltb_lt in A. apply Z.ltb_lt in B. split; assumption. }
    destruct a as [t c|t|t]; cbn [act_valid] in Va.
    + destruct (begin s t c) as [s1|] eqn:B; [|discriminate].
      apply (IH s1 s'); [|exact V|exact E]. apply (reach_step _ _ s (ABegin t c) s1 R). split; [apply Vt; exact Va | exact B].
    + destruct (gstep s t) as [s1|] eqn:B; [|discriminate].
      apply (IH s1 s'); [|exact V|exact E]. apply (reach_step _ _ s (AStep t) s1 R). split; [apply Vt; exact Va | exact B].
    + destruct (ostep s t) as [s1|] eqn:B; [|discriminate].
      apply (IH s1 s'); [|exact V|exact E]. apply (reach_step _ _ s (AStepO t) s1 R). split; [apply Vt; exact Va | exact B].
Qed.

(* two submitters and two workers: thread 5 and 6 submit, 7 drains while 6's push races with its unlock *)
Definition demo_acts : list action :=
  [ABegin 5 (CAsync 2); AStep 5; AStep 5; AStep 5; AStep 5; AStep 5;          (* item 0: pushed, woken, lane in root queue *)
   ABegin 7 (CWorker 0); AStep 7; AStep 7; AStep 7; AStep 7; AStep 7;         (* worker 7: lock, tail, head, pop, run item 0 *)
   ABegin 6 (CAsync 4); AStep 6;                                             (* item 1: tail exchanged during the callout *)
   AStep 7; AStep 7;                                                         (* callout ends; next: list non-empty -> head *)
   AStep 6;                                                                  (* link published *)
   AStep 7; AStep 7; AStep 7; AStep 7; AStep 7; AStep 7; AStep 7;            (* head, pop, run, incall, next, tail->unlock, unlock *)
   AStep 6].                                                                 (* the late probe finds the list empty *)

Definition demo_final := run (init_state 1) demo_acts.

Definition act_tid (a : action) : Z := match a with ABegin t _ | AStep t | AStepO t => t end.

Lemma gstep_frame s t s' u : gstep s t = Some s' -> u <> t -> pcs s' u = pcs s u.
Proof.
  intros B N. unfold gstep in B.
  destruct (pcs s t); try discriminate;
    repeat match type of B with
           | context [match ?x with _ => _ end] => destruct x; try discriminate
           end;
    injection B as <-;
    cbn [pcs set_pc set_st set_lst set_rootq set_token set_wakers]; try apply upd_other; try exact N; reflexivity.
Qed.

Lemma ostep_frame s t s' u : ostep s t = Some s' -> u <> t -> pcs s' u = pcs s u.
Proof.
  intros B N. unfold ostep in B. destruct (pcs s t); try discriminate. destruct was_empty; [discriminate|].
  injection B as <-. cbn [pcs set_pc set_lst]. apply upd_other. exact N.
Qed.

Lemma begin_frame s t c s' u : begin s t c = Some s' -> u <> t -> pcs s' u = pcs s u.
Proof.
  intros B N. unfold begin in B.
  destruct (pcs s t); try discriminate. destruct c.
  - destruct ((0 <=? qos) && (qos <? 8)); [|discriminate]. injection B as <-. cbn [pcs set_pc]. apply upd_other. exact N.
  - destruct (0 <? rootq s); [|discriminate]. injection B as <-. cbn [pcs set_pc set_token set_rootq]. apply upd_other. exact N.
Qed.

Lemma run_frame acts u : forall s s', run s acts = Some s' -> forallb (fun a => negb (act_tid a =? u)) acts = true -> pcs s' u = pcs s u.
Proof.
  induction acts as [|a acts IH]; cbn [run forallb]; intros s s' E V.
  - injection E as <-. reflexivity.
  - apply andb_true_iff in V. destruct V as [Va V]. apply negb_true_iff in Va. apply Z.eqb_neq in Va.
    destruct a as [t c|t|t]; cbn [act_tid] in Va.
    + destruct (begin s t c) as [s1|] eqn:B; [|discriminate]. rewrite (IH s1 s' E V). apply (begin_frame s t c s1 u B). congruence.
    + destruct (gstep s t) as [s1|] eqn:B; [|discriminate]. rewrite (IH s1 s' E V). apply (gstep_frame s t s1 u B). congruence.
    + destruct (ostep s t) as [s1|] eqn:B; [|discriminate]. rewrite (IH s1 s' E V). apply (ostep_frame s t s1 u B). congruence.
Qed.

Lemma demo_reach : exists s, demo_final = Some s /\ reach 1 s /\ quiescent s /\ rootq s = 0 /\ started s = [1; 0] /\ nextid s = 2.
Proof.
  unfold demo_final. destruct (run (init_state 1) demo_acts) as [s|] eqn:E; [|vm_compute in E; discriminate].
  exists s. split; [reflexivity|]. split.
  - apply (run_reach 1 demo_acts (init_state 1) s); [apply reach_init; reflexivity | vm_compute; reflexivity | exact E].
  - split.
    + intros t.
      destruct (Z.eq_dec t 5) as [->|N5]; [vm_compute in E; injection E as <-; reflexivity|].
      destruct (Z.eq_dec t 6) as [->|N6]; [vm_compute in E; injection E as <-; reflexivity|].
      destruct (Z.eq_dec t 7) as [->|N7]; [vm_compute in E; injection E as <-; reflexivity|].
      rewrite (run_frame demo_acts t (init_state 1) s E); [reflexivity|].
      unfold demo_acts. cbn [forallb act_tid].
      apply Z.eqb_neq in N5, N6, N7. rewrite (Z.eqb_sym 5 t), (Z.eqb_sym 6 t), (Z.eqb_sym 7 t), N5, N6, N7. reflexivity.
    + vm_compute in E. injection E as <-. cbn [rootq started nextid]. repeat split.
Qed.

(* a run through the override continuation: 6 pushes onto the non-empty list before 5 (which emptied... made it non-empty)
   has woken the queue, decides to override, and its rmw loop (no MAKE_DIRTY) is the one that sets ENQUEUED and pushes
   the lane on the root queue; 5's later wakeup only adds DIRTY *)
Definition demo2_acts : list action :=
  [ABegin 5 (CAsync 1); AStep 5;
   ABegin 6 (CAsync 3); AStep 6;
   AStepO 6; AStep 6; AStep 6; AStep 6;
   AStep 5; AStep 5; AStep 5;
   ABegin 7 (CWorker 0); AStep 7; AStep 7;
   AStep 7; AStep 7; AStep 7; AStep 7; AStep 7; AStep 7; AStep 7; AStep 7; AStep 7; AStep 7; AStep 7].

Lemma demo2_reach : exists s, run (init_state 1) demo2_acts = Some s /\ reach 1 s /\ quiescent s /\ rootq s = 0 /\
                              started s = [1; 0] /\ nextid s = 2 /\ lst s = [].
Proof.
  destruct (run (init_state 1) demo2_acts) as [s|] eqn:E; [|vm_compute in E; discriminate].
  exists s. split; [reflexivity|]. split.
  - apply (run_reach 1 demo2_acts (init_state 1) s); [apply reach_init; reflexivity | vm_compute; reflexivity | exact E].
  - split.
    + intros t.
      destruct (Z.eq_dec t 5) as [->|N5]; [vm_compute in E; injection E as <-; reflexivity|].
      destruct (Z.eq_dec t 6) as [->|N6]; [vm_compute in E; injection E as <-; reflexivity|].
      destruct (Z.eq_dec t 7) as [->|N7]; [vm_compute in E; injection E as <-; reflexivity|].
      rewrite (run_frame demo2_acts t (init_state 1) s E); [reflexivity|].
      unfold demo2_acts. cbn [forallb act_tid].
      apply Z.eqb_neq in N5, N6, N7. rewrite (Z.eqb_sym 5 t), (Z.eqb_sym 6 t), (Z.eqb_sym 7 t), N5, N6, N7. reflexivity.
    + vm_compute in E. injection E as <-. cbn [rootq started nextid lst]. repeat split.
Qed.
