(* CLane_steps2.v — preservation of the invariant by the barrier paths: dispatch_barrier_sync fast path,
   _dispatch_lane_barrier_complete, _dispatch_lane_drain_barrier_waiter, and the slow path of the sync calls. *)
From Coq Require Import ZArith Bool List Lia.
From Verif Require Import Word Bits Fields DqFields Conc Gen_consts Gen_dqstate Lane_fields CLane_fields CLane CLane_inv CLane_proofs.
Import ListNotations.
Local Open Scope Z_scope.

Ltac ginv_go Bm0 Gwt Hpc :=
  constructor; unfold U in *; gcbn; fcbn; cbn [length]; try assumption; try lia; try reflexivity;
  try (rewrite Bm0; discriminate);
  try (apply g_wt_setpc; [exact Gwt | rewrite Hpc; discriminate]);
  try (intros _ P; nia).

Lemma lock_none W s r : ginv W s r -> f_owner r = 0 -> lockh s = None.
Proof.
  intros G Ho. destruct (lockh s) as [o|] eqn:E; [|reflexivity].
  pose proof (g_ownv _ _ _ G o E) as V. pose proof (g_owner _ _ _ G) as X. rewrite E in X. unfold valid_tid in V. lia.
Qed.

(* ---- dispatch_barrier_sync: the compare-exchange from the idle word ---- *)
Lemma step_B_acq W s t s' : Inv W s -> valid_tid t -> pcs s t = B_acq -> gstep W s t = Some s' -> Inv W s'.
Proof.
  intros HI Vt Hpc Hs. unfold gstep in Hs. rewrite Hpc in Hs.
  pose proof HI as (HW & (r & G) & T). pose proof (g_wf _ _ _ G) as Wf. pose proof Wf as Wf'. unfold wfr in Wf'.
  rewrite (g_enc _ _ _ G) in Hs. rewrite acquire_barrier_fields in Hs by (assumption || lia || (unfold valid_tid in Vt; lia)).
  destruct (is_idle r W) eqn:I.
  2:{ injection Hs as <-. pc_only_tac HI Hpc. }
  injection Hs as <-.
  unfold is_idle in I. rewrite !andb_true_iff in I.
  destruct I as [[[[[[[[[[I1 I2] I3] I4] I5] I6] I7] I8] I9] I10] I11].
  apply Z.eqb_eq in I1, I2, I3, I4, I5, I6, I7, I8, I9, I10, I11.
  pose proof (lock_none W s r G I1) as LN. pose proof (g_dw _ _ _ G) as [D0 DN]. destruct (DN LN) as [Dw0 Bm0].
  pose proof (g_wq _ _ _ G) as Hwq. rewrite I8, I9, Dw0 in Hwq. pose proof (U_nonneg s) as Un.
  pose proof (g_wt _ _ _ G) as Gwt. pose proof (g_role _ _ _ G) as Hro. pose proof (g_enq _ _ _ G) as [Henq Hrq].
  assert (Wn : wfr (mk t 0 0 0 0 (f_role r) 0 0 0 4096 1 0)) by (unfold valid_tid in Vt; wf_mk).
  pose proof (not_waiting_grant W s t (T t)) as Gt. rewrite Hpc in Gt. specialize (Gt eq_refl).
  destruct (T t) as [T1 T2 T3 T4 T5 T6]. rewrite Hpc, Gt in *. cbn [holds owns toks waitpc] in *.
  split; [exact HW|]. split.
  - exists (mk t 0 0 0 0 (f_role r) 0 0 0 4096 1 0). destruct G. ginv_go Bm0 Gwt Hpc.
    + intros t0 X. injection X as <-. exact Vt.
    + intros _. split; [discriminate|]. split; [reflexivity|]. split; [lia|reflexivity].
    + split; [lia|]. discriminate.
  - intros u. destruct (Z.eq_dec u t) as [->|Ne].
    + constructor; gcbn; rewrite ?upd_same, ?Gt; cbn [holds owns toks waitpc pcinv].
      * exact T1.
      * split; auto.
      * exact T3.
      * intros X; contradiction.
      * intros X; discriminate.
      * intros _. reflexivity.
    + apply (other_thread_free W s _ t u Ne T LN); gcbn; try reflexivity.
      * apply upd_other; exact Ne.
      * intros X. congruence.
Qed.

(* ---- _dispatch_lane_class_barrier_complete ---- *)
Lemma step_BC_class W s t k enq s' : Inv W s -> valid_tid t -> pcs s t = BC_class k enq -> gstep W s t = Some s' -> Inv W s'.
Proof.
  intros HI Vt Hpc Hs. unfold gstep in Hs. rewrite Hpc in Hs.
  inv_pc HI t Hpc. destruct Hi as (Bm & He).
  pose proof HI as (HW & (r & G) & T). pose proof (g_wf _ _ _ G) as Wf. pose proof Wf as Wf'. unfold wfr in Wf'.
  destruct (g_bm _ _ _ G Bm) as (_ & Dw & U0 & P0).
  pose proof (g_wq _ _ _ G) as Hwq. rewrite Dw, U0, P0 in Hwq.
  pose proof (g_ib _ _ _ G) as Hib. rewrite Bm in Hib. pose proof (g_hi _ _ _ G) as Hhi.
  pose proof (g_wt _ _ _ G) as Gwt. pose proof (g_enq _ _ _ G) as [Henq Hrq].
  destruct (T t) as [T1 T2 T3 T4 T5 T6]. rewrite Hpc in *. cbn [holds owns toks waitpc] in *.
  assert (Gto : grant s t <> GOwner) by (intros X; destruct (T5 X); discriminate).
  assert (NK : tokh s <> Some t) by (intros X; apply T3 in X; discriminate).
  destruct (unbar_enc r W Wf Hib ltac:(lia) ltac:(lia)) as [_ Wu].
  rewrite (g_enc _ _ _ G) in Hs. unfold IN_BARRIER, INTERVAL in Hs.
  (* what the moving thread and the others look like once the lock is released *)
  assert (Rel : forall s2 r2 p2 tk,
            st s2 = enc r2 -> lst s2 = lst s -> pcs s2 = upd (pcs s) t p2 -> grant s2 = grant s -> holders s2 = holders s ->
            lockh s2 = None -> bmode s2 = false -> tokh s2 = tk ->
            holds p2 = false -> owns p2 = false -> waitpc p2 = ret_waits k ->
            ((tk = Some t /\ toks p2 = true /\ tokh s = None) \/ (tk = tokh s /\ toks p2 = false)) ->
            forall u, thread_inv W s2 u).
  { intros s2 r2 p2 tk E2 L2 P2 G2 H2 Lk Bm2 K2 Ph Po Pw Tk u. destruct (Z.eq_dec u t) as [->|Ne].
    - constructor; rewrite ?P2, ?G2, ?H2, ?Lk, ?K2, ?upd_same, ?Ph, ?Po, ?Pw.
      + exact T1.
      + split; [discriminate | intros [X|X]; [discriminate|contradiction]].
      + destruct Tk as [(-> & Kp & _)|(-> & Kp)]; rewrite Kp; [split; auto | split; [intros X; contradiction|discriminate]].
      + exact T4.
      + intros X. contradiction.
      + discriminate.
    - apply (other_thread_owner W s s2 t u Ne T Ho).
      + rewrite P2. apply upd_other; exact Ne.
      + rewrite G2. reflexivity.
      + rewrite H2. reflexivity.
      + rewrite Lk. discriminate.
      + rewrite K2. destruct Tk as [(-> & _ & TN)|(-> & _)]; [|reflexivity]. rewrite TN. split; [intros X; congruence|discriminate]. }
  destruct He as [->| ->].
  - (* no target: release unless DIRTY *)
    cbn [Z.eqb] in Hs. rewrite class_complete_none_fields in Hs by (assumption || lia).
    destruct (Z.eqb_spec (f_d r) 1) as [Hd|Hd].
    { injection Hs as <-. pc_only_tac HI Hpc. exact Bm. }
    cbv zeta in Hs. rewrite merged_zero in Hs by exact Wu. cbn [andb negb Z.eqb] in Hs. injection Hs as <-.
    split; [exact HW|]. split.
    + eexists. destruct G. constructor; try reflexivity; unfold U in *; gcbn; fcbn; cbn [length]; try assumption; try lia;
        try (intros; discriminate).
      * wf_mk.
      * apply g_wt_setpc; [exact Gwt | rewrite Hpc; destruct k; cbn; auto].
    + eapply Rel; gcbn; try reflexivity; destruct k; try reflexivity; right; split; reflexivity.
  - (* the head is a barrier continuation: re-enqueue the lane *)
    change (ENQUEUED =? 0) with false in Hs. cbv iota in Hs. unfold ENQUEUED in Hs.
    rewrite class_complete_enq_fields in Hs by (assumption || lia).
    cbv zeta in Hs. rewrite merged_zero in Hs by exact Wu. cbn [negb andb] in Hs.
    pose proof (g_em _ _ _ G) as Hem. rewrite Hem in Hs. rewrite Z.eqb_refl, andb_true_r in Hs.
    destruct (Z.eqb_spec (f_enq r) 0) as [E0|E0].
    + assert (Wn : wfr (set_enq1 (released (unbar r W)))) by (unfold set_enq1, released, unbar; fcbn; wf_mk).
      unfold changed in Hs. rewrite changed_enq_f in Hs by assumption. fcbn_in Hs. rewrite E0 in Hs. cbn [Z.eqb negb] in Hs.
      injection Hs as <-. rewrite E0 in Henq.
      assert (TN : tokh s = None) by (destruct (tokh s); [lia|reflexivity]). rewrite TN in Henq.
      split; [exact HW|]. split.
      * eexists. destruct G. constructor; try reflexivity; try exact Wn; unfold U in *; gcbn; fcbn; cbn [length]; try assumption; try lia;
          try (intros; discriminate).
        apply g_wt_setpc; [exact Gwt | rewrite Hpc; destruct k; cbn; auto].
      * eapply Rel; gcbn; try reflexivity; destruct k; try reflexivity; left; auto.
    + assert (Wn : wfr (released (unbar r W))) by (unfold released, unbar; fcbn; wf_mk).
      unfold changed in Hs. rewrite changed_enq_f in Hs by assumption. fcbn_in Hs. rewrite Z.eqb_refl in Hs. cbn [negb] in Hs.
      injection Hs as <-.
      split; [exact HW|]. split.
      * eexists. destruct G. constructor; try reflexivity; try exact Wn; unfold U in *; gcbn; fcbn; cbn [length]; try assumption; try lia;
          try (intros; discriminate).
        apply g_wt_setpc; [exact Gwt | rewrite Hpc; destruct k; cbn; auto].
      * eapply Rel; gcbn; try reflexivity; destruct k; try reflexivity; right; split; reflexivity.
Qed.

(* the owner flips DIRTY (acquire) and looks again *)
Lemma owner_xor_dirty W s t p2 : Inv W s -> valid_tid t -> owns (pcs s t) = true ->
  holds p2 = false -> owns p2 = true -> toks p2 = toks (pcs s t) -> waitpc p2 = waitpc (pcs s t) ->
  (forall s2, bmode s2 = bmode s -> dw s2 = dw s -> pb s2 = pb s -> lst s2 = lst s -> holders s2 = holders s -> rq s2 = rq s ->
              pcinv W s2 p2) ->
  Inv W (set_pc (set_st s (Z.lxor (st s) DIRTY)) t p2).
Proof.
  intros HI Vt Ow Ph Po Pk Pw Hp2.
  pose proof HI as (HW & (r & G) & T). pose proof (g_wf _ _ _ G) as Wf. pose proof Wf as Wf'. unfold wfr in Wf'.
  destruct (owner_pc W s t HI Ow) as [Lt _]. pose proof (g_wt _ _ _ G) as Gwt.
  rewrite (g_enc _ _ _ G). unfold DIRTY. rewrite xor_dirty_fields by exact Wf.
  set (r' := mk (f_owner r) (f_tr r) (f_enq r) (f_mq r) (f_ov r) (f_role r) (f_em r) (1 - f_d r) (f_pb r) (f_wq r) (f_ib r) (f_hi r)).
  assert (Wn : wfr r') by (subst r'; wf_mk).
  destruct (T t) as [T1 T2 T3 T4 T5 T6].
  assert (Hh : holds (pcs s t) = false) by (destruct (pcs s t); try discriminate; reflexivity).
  split; [exact HW|]. split.
  - exists r'. destruct G. subst r'. constructor; unfold U in *; gcbn; fcbn; try assumption; try lia.
    apply g_wt_setpc; [exact Gwt | rewrite <- Pw; auto].
  - intros u. destruct (Z.eq_dec u t) as [->|Ne].
    + constructor; gcbn; rewrite ?upd_same, ?Ph, ?Po, ?Pk, ?Pw.
      * rewrite Hh in T1. exact T1.
      * rewrite Ow in T2. exact T2.
      * exact T3.
      * exact T4.
      * intros X. destruct (T5 X) as [X1 _]. congruence.
      * intros _. apply Hp2; gcbn; try reflexivity.
        eapply pb_eq; [exact (g_enc _ _ _ G)|exact Wf|gcbn; reflexivity|exact Wn|reflexivity].
    + apply (other_thread_owner W s _ t u Ne T Lt); gcbn; try reflexivity.
      * apply upd_other; exact Ne.
      * rewrite Lt. intros X. congruence.
Qed.

Lemma step_BC_xor W s t k s' : Inv W s -> valid_tid t -> pcs s t = BC_xor k -> gstep W s t = Some s' -> Inv W s'.
Proof.
  intros HI Vt Hpc Hs. unfold gstep in Hs. rewrite Hpc in Hs. injection Hs as <-.
  inv_pc HI t Hpc.
  apply owner_xor_dirty; auto; rewrite ?Hpc; try reflexivity.
  intros s2 B2 _ _ _ _ _. cbn [pcinv]. rewrite B2. exact Hi.
Qed.

(* ---- _dispatch_lane_drain_barrier_waiter ---- *)
Lemma step_DBW_pop W s t k e s' : Inv W s -> valid_tid t -> pcs s t = DBW_pop k e -> gstep W s t = Some s' -> Inv W s'.
Proof.
  intros HI Vt Hpc Hs. unfold gstep in Hs. rewrite Hpc in Hs.
  inv_pc HI t Hpc. destruct Hi as (Bm & He & Hb & Hw).
  pose proof HI as (HW & (r & G) & T). pose proof (g_wt _ _ _ G) as Gwt. pose proof (g_wtnd _ _ _ G) as Gnd.
  unfold head_bar, head_wt in Hb, Hw.
  destruct (lst s) as [|x l'] eqn:Hl; [contradiction|]. injection Hs as <-.
  rewrite waiters_cons in Gnd. destruct (Z.eqb_spec (i_wt x) 0) as [|_]; [contradiction|]. inversion Gnd as [|? ? Nin Nd']; subst.
  destruct (Gwt x (or_introl eq_refl) Hw) as (Vu & Gu & Wu).
  destruct (g_bm _ _ _ G Bm) as (_ & _ & _ & P0).
  destruct (T t) as [T1 T2 T3 T4 T5 T6]. rewrite Hpc in *. cbn [holds owns toks waitpc] in *.
  split; [exact HW|]. split.
  - exists r. destruct G. constructor; unfold U in *; gcbn; try assumption; try lia; try (intros X; lia).
    apply (g_wt_setpc s t _ l' (grant s)); [|rewrite Hpc; cbn [waitpc]; auto].
    intros z Hz Nz. apply Gwt; [right; exact Hz|exact Nz].
  - intros u. destruct (Z.eq_dec u t) as [->|Ne].
    + constructor; gcbn; rewrite ?upd_same; cbn [holds owns toks waitpc pcinv].
      * exact T1.
      * exact T2.
      * exact T3.
      * exact T4.
      * exact T5.
      * intros _. gcbn. split; [exact Bm|]. split; [exact He|]. split; [exact Vu|]. split; [exact Gu|].
        split; [|exact Nin].
        unfold upd. destruct (Z.eqb_spec (i_wt x) t) as [E|]; [rewrite E, Hpc in Wu; cbn [waitpc] in *; exact Wu | exact Wu].
    + apply (other_thread_owner W s _ t u Ne T Ho); gcbn; try reflexivity.
      * apply upd_other; exact Ne.
      * rewrite Ho. intros X. congruence.
Qed.

Lemma step_DBW_xfer W s t k e u i s' : Inv W s -> valid_tid t -> pcs s t = DBW_xfer k e u i -> gstep W s t = Some s' -> Inv W s'.
Proof.
  intros HI Vt Hpc Hs. unfold gstep in Hs. rewrite Hpc in Hs.
  inv_pc HI t Hpc. destruct Hi as (Bm & He & Vu & Gu & Wu & Nu).
  pose proof HI as (HW & (r & G) & T). pose proof (g_wf _ _ _ G) as Wf. pose proof Wf as Wf'. unfold wfr in Wf'.
  pose proof (g_wt _ _ _ G) as Gwt. pose proof (g_enq _ _ _ G) as [Henq Hrq]. pose proof (g_role _ _ _ G) as Hro.
  destruct (g_bm _ _ _ G Bm) as (_ & Dw & U0 & P0). pose proof (g_dw _ _ _ G) as [D0 _].
  destruct (T t) as [T1 T2 T3 T4 T5 T6]. rewrite Hpc in *. cbn [holds owns toks waitpc] in *.
  assert (Gto : grant s t <> GOwner) by (intros X; destruct (T5 X); discriminate).
  rewrite (g_enc _ _ _ G) in Hs. unfold f_dispatch_lock_value_from_tid in Hs.
  assert (Gwt' : forall x, In x (lst s) -> i_wt x <> 0 ->
            valid_tid (i_wt x) /\ upd (grant s) u GOwner (i_wt x) = GNone /\ waitpc (pcs s (i_wt x)) = true).
  { intros x Hx Nx. destruct (Gwt x Hx Nx) as (V & Gn & Wp). split; [exact V|]. split; [|exact Wp].
    rewrite upd_other; [exact Gn|]. intros E. apply Nu. apply in_waiters. exists x.
    split; [exact Hx|]. split; [exact E|]. rewrite <- E. exact Nx. }
  (* the state after the transfer: e1 = 1 when the enqueued bit is given back with it *)
  assert (Main : forall e1 tk, ((tk = tokh s /\ e1 = 0 /\ e = 0) \/ (tk = None /\ e1 = 1 /\ tokh s = Some t)) ->
     Inv W (set_pc (set_tokh (set_grant (set_lockh (set_st s
              (enc (mk u 0 (f_enq r - e1) (f_mq r) 0 (f_role r) (f_em r) 0 (f_pb r) (f_wq r) (f_ib r) (f_hi r)))) (Some u))
              (upd (grant s) u GOwner)) tk) t (DBW_wake k u))).
  { intros e1 tk Htk.
    assert (He1 : 0 <= e1 <= f_enq r) by (destruct Htk as [(_ & -> & _)|(_ & -> & K)]; [lia | rewrite K in Henq; lia]).
    assert (Wn : wfr (mk u 0 (f_enq r - e1) (f_mq r) 0 (f_role r) (f_em r) 0 (f_pb r) (f_wq r) (f_ib r) (f_hi r)))
      by (unfold valid_tid in Vu; wf_mk).
    split; [exact HW|]. split.
    - eexists. destruct G. constructor; try reflexivity; try exact Wn; unfold U in *; gcbn; fcbn; try assumption; try lia.
      + intros t0 X. injection X as <-. exact Vu.
      + intros _. split; [discriminate|]. auto.
      + split; [lia|]. discriminate.
      + split; [|exact Hrq]. destruct Htk as [(-> & -> & _)|(-> & -> & K)]; [lia|]. rewrite K in Henq. lia.
      + apply g_wt_setpc; [exact Gwt' | rewrite Hpc; cbn [waitpc]; auto].
    - intros v. destruct (Z.eq_dec v t) as [->|Nt].
      + (* the thread that hands the lock over *)
        destruct (Z.eq_dec u t) as [->|Nut].
        * constructor; gcbn; rewrite ?upd_same; cbn [holds owns toks waitpc pcinv].
          -- rewrite T1. rewrite Gu. split; intros [X|X]; discriminate.
          -- split; auto.
          -- destruct Htk as [(-> & _ & E0)|(-> & _)]; [rewrite T3, E0; split; discriminate | split; discriminate].
          -- intros _. rewrite Hpc in Wu. exact Wu.
          -- intros _. auto.
          -- discriminate.
        * constructor; gcbn; rewrite ?upd_same, ?(upd_other _ _ _ _ (not_eq_sym Nut)); cbn [holds owns toks waitpc pcinv].
          -- exact T1.
          -- split; [intros X; congruence | intros [X|X]; [discriminate|contradiction]].
          -- destruct Htk as [(-> & _ & E0)|(-> & _)]; [rewrite T3, E0; split; discriminate | split; discriminate].
          -- exact T4.
          -- intros X; contradiction.
          -- discriminate.
      + destruct (Z.eq_dec v u) as [->|Nu'].
        * (* the waiter that receives the lock *)
          destruct (T u) as [U1 U2 U3 U4 U5 U6].
          assert (Ou : owns (pcs s u) = false).
          { destruct (owns (pcs s u)) eqn:E; [|reflexivity]. exfalso. assert (lockh s = Some u) by (apply U2; auto). congruence. }
          constructor; gcbn; rewrite ?upd_same, ?(upd_other _ _ _ _ Nt).
          -- rewrite U1, Gu. split; intros [X|X]; auto; discriminate.
          -- split; auto.
          -- destruct Htk as [(-> & _)|(-> & _ & K)]; [exact U3|].
             split; [discriminate|]. intros X. apply U3 in X. rewrite K in X. congruence.
          -- intros _. exact Wu.
          -- intros _. auto.
          -- rewrite Ou. discriminate.
        * apply (other_thread_owner W s _ t v Nt T Ho); gcbn; try reflexivity.
          -- apply upd_other; exact Nt.
          -- apply upd_other; exact Nu'.
          -- intros X. congruence.
          -- destruct Htk as [(-> & _)|(-> & _ & K)]; [reflexivity|]. rewrite K. split; [discriminate | intros X; congruence]. }
  destruct He as [->| ->].
  - rewrite barrier_waiter_fields0 in Hs by (assumption || lia || (unfold valid_tid in Vu; lia)).
    cbn [Z.eqb] in Hs. injection Hs as <-.
    specialize (Main 0 (tokh s) (or_introl (conj eq_refl (conj eq_refl eq_refl)))). rewrite Z.sub_0_r in Main.
    exact Main.
  - assert (K : tokh s = Some t) by (apply T3; reflexivity). rewrite K in Henq.
    unfold ENQUEUED in Hs.
    rewrite barrier_waiter_fields1 in Hs by (assumption || lia || (unfold valid_tid in Vu; lia)).
    cbn [Z.eqb] in Hs. injection Hs as <-.
    specialize (Main 1 None (or_intror (conj eq_refl (conj eq_refl K)))).
    replace (f_enq r - 1) with 0 in Main by lia. exact Main.
Qed.

(* ---- slow path of the sync calls: push of the waiter ---- *)
Lemma step_SW_xchg W s t b s' : Inv W s -> valid_tid t -> pcs s t = SW_xchg b -> gstep W s t = Some s' -> Inv W s'.
Proof.
  intros HI Vt Hpc Hs. unfold gstep in Hs. rewrite Hpc in Hs. injection Hs as <-.
  pose proof HI as (HW & (r & G) & T). pose proof (g_wt _ _ _ G) as Gwt.
  set (p2 := if is_nil (lst s) then SW_rmw (nextid s) b else SW_wait (nextid s) b).
  assert (P2 : holds p2 = false /\ owns p2 = false /\ waitpc p2 = true /\ toks p2 = false)
    by (subst p2; destruct (is_nil (lst s)); repeat split; reflexivity).
  destruct P2 as (P2h & P2o & P2w & P2k).
  pose proof (not_waiting_grant W s t (T t)) as Gt. rewrite Hpc in Gt. specialize (Gt eq_refl).
  assert (Nt : ~ In t (waiters (lst s))).
  { intros X. apply in_waiters in X as (x & Hx & Ex & Nx). rewrite <- Ex in Nx.
    destruct (Gwt x Hx Nx) as (_ & _ & Wp). rewrite Ex, Hpc in Wp. discriminate. }
  assert (Nz : t <> 0) by (unfold valid_tid in Vt; lia).
  split; [exact HW|]. split.
  - exists r. pose proof (g_pbh _ _ _ G) as Gph. pose proof (g_wtnd _ _ _ G) as Gnd. destruct G.
    constructor; unfold U in *; gcbn; try assumption; try lia.
    + intros x Hx Nx. apply in_app_or in Hx as [Hx|[<-|[]]].
      * destruct (Gwt x Hx Nx) as (V & Gn & Wp). split; [exact V|]. split; [exact Gn|].
        unfold upd. destruct (Z.eqb_spec (i_wt x) t) as [E|]; [rewrite E, Hpc in Wp; discriminate | exact Wp].
      * cbn [i_wt]. split; [exact Vt|]. split; [exact Gt|]. rewrite upd_same. exact P2w.
    + rewrite waiters_app. cbn [i_wt]. destruct (Z.eqb_spec t 0); [contradiction|].
      apply NoDup_app_singleton; assumption.
    + intros X. eapply head_bar_app'; [reflexivity|apply Gph; exact X].
  - intros u. destruct (Z.eq_dec u t) as [->|Ne].
    + destruct (T t) as [T1 T2 T3 T4 T5 T6]. rewrite Hpc, Gt in *. cbn [holds owns toks waitpc] in *.
      constructor; gcbn; rewrite ?upd_same, ?Gt, ?P2h, ?P2o, ?P2w, ?P2k.
      * exact T1.
      * exact T2.
      * exact T3.
      * reflexivity.
      * intros X; discriminate.
      * discriminate.
    + apply (other_thread W s _ t u Ne T); gcbn; try reflexivity.
      * apply upd_other; exact Ne.
      * intros v Lv Nv. unfold stable_for_owner, U, pb; gcbn. split; [reflexivity|]. split; [reflexivity|].
        split; [reflexivity|]. split; [left; lia|].
        split; [right; eexists; split; [reflexivity|right; reflexivity]|].
        split; [intros v' Nv'; split; [apply upd_other; exact Nv'|reflexivity]|].
        split; [intros _ X; rewrite Hpc in X; discriminate X|].
        split; [intros X; right; rewrite Hpc; reflexivity|]. right. split; [lia|reflexivity].
Qed.

Lemma step_SW_rmw W s t i b s' : Inv W s -> valid_tid t -> pcs s t = SW_rmw i b -> gstep W s t = Some s' -> Inv W s'.
Proof.
  intros HI Vt Hpc Hs. unfold gstep in Hs. rewrite Hpc in Hs.
  pose proof HI as (HW & (r & G) & T). pose proof (g_wf _ _ _ G) as Wf. pose proof Wf as Wf'. unfold wfr in Wf'.
  pose proof (g_wt _ _ _ G) as Gwt. pose proof (g_role _ _ _ G) as Hro.
  rewrite (g_enc _ _ _ G) in Hs. unfold INTERVAL, FULL_BIT, IN_BARRIER in Hs.
  rewrite push_waiter_fields in Hs by (assumption || lia || (unfold valid_tid in Vt; lia)).
  cbv zeta in Hs. rewrite merged_zero in Hs by exact Wf.
  destruct (T t) as [T1 T2 T3 T4 T5 T6]. rewrite Hpc in *. cbn [holds owns toks waitpc] in *.
  destruct (pw_take r W) eqn:PT.
  - (* the pusher takes the lock itself *)
    unfold pw_take in PT. rewrite !andb_true_iff in PT. destruct PT as [[[[P1 P2] P3] P4] P5].
    apply Z.eqb_eq in P1, P2, P3. apply Z.ltb_lt in P4.
    pose proof (lock_none W s r G P1) as LN. pose proof (g_dw _ _ _ G) as [D0 DN]. destruct (DN LN) as [Dw0 Bm0].
    pose proof (g_wq _ _ _ G) as Hwq. rewrite Dw0 in Hwq. pose proof (U_nonneg s) as Un. pose proof (g_pbU _ _ _ G LN) as HpU.
    assert (P0 : f_pb r = 0) by (destruct (Z.eq_dec (f_pb r) 1) as [E|E]; [specialize (HpU E); rewrite E in Hwq; lia | lia]).
    rewrite P0 in *. cbn [Z.eqb orb] in P5. apply Z.ltb_lt in P5.
    assert (U0 : U s = 0) by lia.
    assert (Wn : wfr (mk t 0 (f_enq r) (f_mq r) 0 (f_role r) (f_em r) 0 0 4096 1 0)) by (unfold valid_tid in Vt; wf_mk).
    unfold changed in Hs. rewrite changed_ib_f in Hs by assumption. fcbn_in Hs. rewrite P3 in Hs. cbn [Z.eqb negb] in Hs.
    injection Hs as <-.
    assert (Gt : grant s t = GNone).
    { destruct (grant s t) eqn:E; [reflexivity| |]; exfalso.
      - assert (X : In t (holders s)) by (apply T1; auto). unfold U in U0. destruct (holders s); [destruct X|cbn [length] in U0; lia].
      - assert (X : lockh s = Some t) by (apply T2; auto). congruence. }
    split; [exact HW|]. split.
    + eexists. destruct G. constructor; try reflexivity; try exact Wn; unfold U in *; gcbn; fcbn; try assumption; try lia.
      * intros t0 X. injection X as <-. exact Vt.
      * intros _. split; [discriminate|]. split; [reflexivity|]. split; [lia|reflexivity].
      * split; [lia|]. discriminate.
      * apply g_wt_setpc; [exact Gwt | rewrite Hpc; reflexivity].
    + intros u. destruct (Z.eq_dec u t) as [->|Ne].
      * constructor; gcbn; rewrite ?upd_same, ?Gt; cbn [holds owns toks waitpc pcinv ret_waits].
        -- rewrite Gt in T1. exact T1.
        -- split; auto.
        -- exact T3.
        -- reflexivity.
        -- intros X; discriminate.
        -- intros _. reflexivity.
      * apply (other_thread_free W s _ t u Ne T LN); gcbn; try reflexivity.
        -- apply upd_other; exact Ne.
        -- intros X. congruence.
  - (* only DIRTY is left behind *)
    assert (Wn : wfr (set_d r 1)) by (unfold set_d; wf_mk).
    unfold changed in Hs. rewrite changed_ib_f in Hs by assumption. fcbn_in Hs. rewrite Z.eqb_refl in Hs. cbn [negb] in Hs.
    injection Hs as <-.
    split; [exact HW|]. split.
    + exists (set_d r 1). destruct G. constructor; unfold U in *; gcbn; fcbn; try assumption; try lia.
      apply g_wt_setpc; [exact Gwt | rewrite Hpc; reflexivity].
    + intros u. destruct (Z.eq_dec u t) as [->|Ne].
      * constructor; gcbn; rewrite ?upd_same; cbn [holds owns toks waitpc pcinv ret_waits].
        -- exact T1.
        -- exact T2.
        -- exact T3.
        -- reflexivity.
        -- exact T5.
        -- discriminate.
      * apply (other_thread W s _ t u Ne T); gcbn; try reflexivity.
        -- apply upd_other; exact Ne.
        -- intros v Lv Nv. unfold stable_for_owner; gcbn. split; [reflexivity|]. split; [reflexivity|].
           split; [eapply pb_eq; [exact (g_enc _ _ _ G)|exact Wf|gcbn; reflexivity|exact Wn|reflexivity]|].
           split; [left; unfold U; gcbn; lia|]. split; [left; reflexivity|].
           split; [intros v' Nv'; split; [apply upd_other; exact Nv'|reflexivity]|].
           split; [intros Gn _; split; [exact Gn|rewrite upd_same; reflexivity]|].
           split; [intros X; left; exact X|].
           left. match goal with |- dirty ?s2 = 1 => rewrite (dirty_st s2 _ eq_refl Wn) end. reflexivity.
Qed.

(* a parked waiter is woken and consumes what it was granted *)
Lemma step_SW_wait W s t i b s' : Inv W s -> valid_tid t -> pcs s t = SW_wait i b -> gstep W s t = Some s' -> Inv W s'.
Proof.
  intros HI Vt Hpc Hs. unfold gstep in Hs. rewrite Hpc in Hs.
  destruct (woken s t); [|discriminate].
  pose proof HI as (HW & (r & G) & T). pose proof (g_wt _ _ _ G) as Gwt.
  destruct (T t) as [T1 T2 T3 T4 T5 T6]. rewrite Hpc in *. cbn [holds owns toks waitpc] in *.
  assert (Nt : grant s t <> GNone -> ~ In t (waiters (lst s))).
  { intros Ng X. apply in_waiters in X as (x & Hx & Ex & Nx). rewrite <- Ex in Nx.
    destruct (Gwt x Hx Nx) as (_ & Gn & _). rewrite Ex in Gn. contradiction. }
  assert (Gwt' : grant s t <> GNone -> forall x, In x (lst s) -> i_wt x <> 0 ->
            valid_tid (i_wt x) /\ upd (grant s) t GNone (i_wt x) = GNone /\ waitpc (pcs s (i_wt x)) = true).
  { intros Ng x Hx Nx. destruct (Gwt x Hx Nx) as (V & Gn & Wp). split; [exact V|]. split; [|exact Wp].
    unfold upd. destruct (Z.eqb_spec (i_wt x) t); [reflexivity|exact Gn]. }
  assert (Gwt'' : grant s t <> GNone -> forall p2 x, In x (lst s) -> i_wt x <> 0 ->
            valid_tid (i_wt x) /\ upd (grant s) t GNone (i_wt x) = GNone /\ waitpc (upd (pcs s) t p2 (i_wt x)) = true).
  { intros Ng p2 x Hx Nx. destruct (Gwt' Ng x Hx Nx) as (V & Gn & Wp). split; [exact V|]. split; [exact Gn|].
    rewrite upd_other; [exact Wp|]. intros E. apply (Nt Ng). apply in_waiters. exists x.
    split; [exact Hx|]. split; [exact E|]. rewrite <- E. exact Nx. }
  destruct (grant s t) eqn:Gt; [discriminate| |]; injection Hs as <-.
  - (* granted a width interval: becomes a reader *)
    assert (Hin : In t (holders s)) by (apply T1; auto).
    split; [exact HW|]. split.
    + exists r. destruct G. constructor; unfold U in *; gcbn; try assumption; try lia.
      apply Gwt''. discriminate.
    + intros u. destruct (Z.eq_dec u t) as [->|Ne].
      * constructor; gcbn; rewrite ?upd_same; cbn [holds owns toks waitpc pcinv].
        -- split; auto.
        -- rewrite T2. split; intros [X|X]; discriminate.
        -- exact T3.
        -- intros X; contradiction.
        -- intros X; discriminate.
        -- discriminate.
      * apply (other_thread W s _ t u Ne T); gcbn; try reflexivity.
        -- apply upd_other; exact Ne.
        -- apply upd_other; exact Ne.
        -- intros v Lv Nv. unfold stable_for_owner, U, pb; gcbn. split; [reflexivity|]. split; [reflexivity|].
           split; [reflexivity|]. split; [left; lia|]. split; [left; reflexivity|].
           split; [intros v' Nv'; split; apply upd_other; exact Nv'|].
           split; [intros X; congruence|].
           split; [intros X; left; exact X|]. right. split; [lia|reflexivity].
  - (* handed the lock: becomes the barrier owner *)
    assert (Lt : lockh s = Some t) by (apply T2; auto). destruct (T5 eq_refl) as [_ Bm].
    split; [exact HW|]. split.
    + exists r. destruct G. constructor; unfold U in *; gcbn; try assumption; try lia.
      apply Gwt''. discriminate.
    + intros u. destruct (Z.eq_dec u t) as [->|Ne].
      * constructor; gcbn; rewrite ?upd_same; cbn [holds owns toks waitpc pcinv].
        -- rewrite T1. split; intros [X|X]; discriminate.
        -- split; auto.
        -- exact T3.
        -- intros X; contradiction.
        -- intros X; discriminate.
        -- intros _. exact Bm.
      * apply (other_thread_owner W s _ t u Ne T Lt); gcbn; try reflexivity.
        -- apply upd_other; exact Ne.
        -- apply upd_other; exact Ne.
        -- rewrite Lt. intros X. congruence.
Qed.
