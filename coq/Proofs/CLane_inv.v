(* CLane_inv.v — the invariant of the concurrent-lane model (Model/CLane.v) and its basic consequences. *)
From Coq Require Import ZArith Bool List Lia.
From Verif Require Import Word Bits Fields DqFields Conc Gen_consts Gen_dqstate Lane_fields CLane_fields CLane.
Import ListNotations.
Local Open Scope Z_scope.

(* ---- classification of program points ---- *)
Definition holds (p : pc) : bool := match p with R_call _ | R_incall _ | NBC => true | _ => false end.

Definition owns (p : pc) : bool :=
  match p with
  | B_call _ | B_incall _ | BC_tail _ | BC_class _ _ | BC_xor _ | DBW_pop _ _ | DBW_xfer _ _ _ _
  | DN_and _ | DN_loop _ _ | DN_add _ | DN_acq _ | DN_pop _ _ | DN_wake _ _ _ _ | DN_fin _ _ _ | DN_xor _ _
  | W_tail _ | W_head _ _ | W_upg _ _ | W_xorib _ | W_addw _ | W_acq _ | W_popn _ _ | W_wake _ _ _ | W_popb _
  | W_call _ _ | W_incall _ _ | W_next _ _ | W_unlock _ _ | W_xor _ => true
  | _ => false
  end.

Definition toks (p : pc) : bool :=
  match p with
  | X_rootpush _ | W_lock _
  | W_tail _ | W_head _ _ | W_upg _ _ | W_xorib _ | W_addw _ | W_acq _ | W_popn _ _ | W_wake _ _ _ | W_popb _
  | W_call _ _ | W_incall _ _ | W_next _ _ | W_unlock _ _ | W_xor _ => true
  | DBW_pop _ e | DBW_xfer _ e _ _ => negb (e =? 0)
  | _ => false
  end.

Definition ret_waits (k : ret) : bool := match k with RIdle => false | RWait _ _ => true end.
(* a thread inside the slow path of a sync call, its item pushed and not yet consumed *)
Definition waitpc (p : pc) : bool :=
  match p with
  | SW_rmw _ _ | SW_wait _ _ => true
  | X_rootpush k | BC_tail k | BC_class k _ | BC_xor k | DBW_pop k _ | DBW_xfer k _ _ _ | DBW_wake k _
  | DN_and k | DN_loop k _ | DN_add k | DN_acq k | DN_pop k _ | DN_wake k _ _ _ | DN_fin k _ _ | DN_xor k _ => ret_waits k
  | _ => false
  end.

Definition U (s : gst) : Z := Z.of_nat (length (holders s)) + Z.of_nat (length (rq s)).
Definition pb (s : gst) : Z := f_pb (dec (st s)).
Definition dirty (s : gst) : Z := f_d (dec (st s)).
Definition head_nb (s : gst) : Prop := match lst s with x :: _ => i_bar x = false | [] => False end.
Definition head_bar (s : gst) : Prop := match lst s with x :: _ => i_bar x = true | [] => False end.
Definition head_wt (s : gst) : Prop := match lst s with x :: _ => i_wt x <> 0 | [] => False end.
Definition waiters (l : list item) : list Z := filter (fun u => negb (u =? 0)) (map i_wt l).

Section Inv.
Variable W : Z.

(* *owned_ptr of a drainer: the ENQUEUED bit it took over plus either IN_BARRIER + the whole width or the width it owns *)
Definition opform (s : gst) (op : Z) : Prop :=
  exists d b, op = ENQUEUED + d * INTERVAL + IN_BARRIER * b /\ 0 <= d <= 4096 /\
    ((b = 1 /\ bmode s = true /\ d = W) \/ (b = 0 /\ bmode s = false /\ d = dw s /\ (pb s = 1 -> dw s = 0))).

(* what the lock owner knows at its program point *)
Definition pcinv (s : gst) (p : pc) : Prop :=
  match p with
  | B_call _ | B_incall _ | BC_tail _ | BC_xor _ => bmode s = true
  | W_call op _ | W_incall op _ => Z.land op ENQ_BITS = ENQUEUED /\ bmode s = true
  | W_popb op => Z.land op ENQ_BITS = ENQUEUED /\ bmode s = true /\ head_bar s
  | BC_class _ e => bmode s = true /\ (e = 0 \/ e = ENQUEUED)
  | DBW_pop _ e => bmode s = true /\ (e = 0 \/ e = ENQUEUED) /\ head_bar s /\ head_wt s
  | DBW_xfer _ e u _ =>
      bmode s = true /\ (e = 0 \/ e = ENQUEUED) /\ valid_tid u /\ grant s u = GNone /\ waitpc (pcs s u) = true /\
      ~ In u (waiters (lst s))
  | DN_and _ => bmode s = true /\ head_nb s
  | DN_loop _ ow => bmode s = false /\ dw s = ow /\ 0 <= ow /\ pb s = 0 /\ head_nb s
  | DN_add _ => bmode s = false /\ dw s = 0 /\ pb s = 0 /\ head_nb s /\ head_wt s /\ U s <= 4095
  | DN_acq _ => bmode s = false /\ dw s = 0 /\ pb s = 0 /\ head_nb s
  | DN_pop _ ow => bmode s = false /\ dw s = ow + 1 /\ 0 <= ow /\ pb s = 0 /\ head_nb s
  | DN_wake _ ow _ nx | DN_fin _ ow nx =>
      bmode s = false /\ dw s = ow /\ 0 <= ow /\ pb s = 0 /\ (nx = 0 \/ nx = 1 \/ nx = 2) /\
      (nx = 1 -> head_nb s) /\ (nx = 2 -> head_bar s)
  | DN_xor _ ow => bmode s = false /\ dw s = ow /\ 0 <= ow /\ pb s = 0
  | W_tail op | W_xor op => opform s op
  | W_unlock op _ => opform s op /\ (pb s = 1 -> 1 <= U s \/ dirty s = 1)
  | W_head op owned | W_next op owned =>
      Z.land op ENQ_BITS = ENQUEUED /\
      ((bmode s = true /\ owned = IN_BARRIER) \/
       (bmode s = false /\ owned = dw s * INTERVAL /\ (pb s = 1 -> dw s = 0)))
  | W_upg op owned =>
      Z.land op ENQ_BITS = ENQUEUED /\ bmode s = false /\ owned = dw s * INTERVAL /\ (pb s = 1 -> dw s = 0) /\ head_bar s
  | W_xorib op => Z.land op ENQ_BITS = ENQUEUED /\ bmode s = true /\ head_nb s
  | W_addw op => Z.land op ENQ_BITS = ENQUEUED /\ bmode s = false /\ dw s = 0 /\ pb s = 0 /\ head_nb s /\ head_wt s /\ U s <= 4095
  | W_acq op => Z.land op ENQ_BITS = ENQUEUED /\ bmode s = false /\ dw s = 0 /\ pb s = 0 /\ head_nb s
  | W_popn op owned =>
      Z.land op ENQ_BITS = ENQUEUED /\ bmode s = false /\ owned = dw s * INTERVAL /\ 1 <= dw s /\ pb s = 0 /\ head_nb s
  | W_wake op owned _ =>
      Z.land op ENQ_BITS = ENQUEUED /\ bmode s = false /\ owned = dw s * INTERVAL /\ pb s = 0
  | _ => True
  end.

Record thread_inv (s : gst) (t : Z) : Prop := {
  t_holds : In t (holders s) <-> (holds (pcs s t) = true \/ grant s t = GReader);
  t_owns : lockh s = Some t <-> (owns (pcs s t) = true \/ grant s t = GOwner);
  t_tok : tokh s = Some t <-> toks (pcs s t) = true;
  t_grant : grant s t <> GNone -> waitpc (pcs s t) = true;
  t_excl : grant s t = GOwner -> owns (pcs s t) = false /\ bmode s = true;
  t_pc : owns (pcs s t) = true -> pcinv s (pcs s t)
}.

Record ginv (s : gst) (r : dqf) : Prop := {
  g_enc : st s = enc r;
  g_wf : wfr r;
  g_hi : f_hi r = 0;
  g_em : f_em r = 0;
  g_tr : f_tr r = 0;
  g_role : f_role r = 1;
  g_owner : f_owner r = match lockh s with Some t => t | None => 0 end;
  g_ownv : forall t, lockh s = Some t -> valid_tid t;
  g_ib : f_ib r = if bmode s then 1 else 0;
  g_bm : bmode s = true -> lockh s <> None /\ dw s = W /\ U s = 0 /\ f_pb r = 0;
  g_wq : f_wq r = 4096 - W + U s + dw s + (W - 1) * f_pb r;
  g_dw : 0 <= dw s /\ (lockh s = None -> dw s = 0 /\ bmode s = false);
  g_bound : U s + dw s <= 4096;
  g_pbU : lockh s = None -> f_pb r = 1 -> 1 <= U s;
  g_enq : f_enq r = rootq s + (match tokh s with Some _ => 1 | None => 0 end) /\ 0 <= rootq s;
  g_nodup : NoDup (holders s);
  g_wt : forall x, In x (lst s) -> i_wt x <> 0 ->
         valid_tid (i_wt x) /\ grant s (i_wt x) = GNone /\ waitpc (pcs s (i_wt x)) = true;
  g_wtnd : NoDup (waiters (lst s));
  g_pbh : f_pb r = 1 -> head_bar s
}.

Definition Inv (s : gst) : Prop := 2 <= W <= 4094 /\ (exists r, ginv s r) /\ forall t, thread_inv s t.

End Inv.
