From Coq Require Import ZArith Bool Lia ZifyBool.
From Verif Require Import Word Bits Tactics Gen_consts Gen_qos Qos Time_proofs.
Local Open Scope Z_scope.

Section W.
Local Ltac Zify.zify_post_hook ::= Z.div_mod_to_equations.
Lemma s32_fix p : s32 p = p -> -2147483648 <= p < 2147483648.
Proof. unfold s32. lia. Qed.
Lemma u32_eq_small p c : -2147483648 <= p < 2147483648 -> 0 <= c < 2147483648 -> (u32 p =? c) = (p =? c).
Proof. unfold u32. intros. lia. Qed.
End W.

Lemma global_queue_correct priority flags :
  ins64 priority -> in64 flags ->
  dispatch_get_global_queue priority flags = global_queue_spec priority flags.
Proof.
  intros Hp Hf. unfold dispatch_get_global_queue, global_queue_spec.
  change (not64 DISPATCH_QUEUE_OVERCOMMIT) with 18446744073709551613.
  change DISPATCH_QUEUE_OVERCOMMIT with 2.
  destruct (nz (Z.land flags 18446744073709551613)); [reflexivity|].
  set (oc := nz (Z.land flags 2)).
  destruct (Z.eqb_spec priority (s32 priority)) as [E|E]; cbn [negb].
  - assert (Hr : -2147483648 <= priority < 2147483648) by (apply s32_fix; congruence).
    unfold f_dispatch_qos_from_queue_priority, f_dispatch_qos_from_qos_class, ident_class. cbv zeta.
    rewrite !(u32_eq_small priority) by lia.
    repeat match goal with
    | |- context [if priority =? ?c then _ else _] =>
        destruct (Z.eqb_spec priority c) as [->|?];
        [ unfold f_dispatch_get_root_queue, platform_clamp, root_index; destruct oc; reflexivity | ]
    end.
    reflexivity.
  - unfold ident_class.
    assert (Hn : ~ (-2147483648 <= priority < 2147483648)).
    { intro. apply E. unfold s32. rewrite Z.mod_small by lia. lia. }
    repeat match goal with
    | |- context [if priority =? ?c then _ else _] => destruct (Z.eqb_spec priority c); [lia|]
    end.
    reflexivity.
Qed.

(* equal classes -> same queue, different supported classes -> different queues, never NULL for a defined one *)
Lemma root_index_injective q1 o1 q2 o2 :
  1 <= q1 <= 6 -> 1 <= q2 <= 6 -> root_queue_addr (root_index q1 o1) = root_queue_addr (root_index q2 o2) ->
  q1 = q2 /\ o1 = o2.
Proof. unfold root_queue_addr, root_index. intros. destruct o1, o2; split; try lia; try reflexivity. Qed.

Lemma defined_ident_nonnull priority flags q :
  nz (Z.land flags (not64 DISPATCH_QUEUE_OVERCOMMIT)) = false -> ident_class priority = Some q ->
  global_queue_spec priority flags <> 0 /\
  0 <= root_index (platform_clamp q) (nz (Z.land flags DISPATCH_QUEUE_OVERCOMMIT)) < DISPATCH_ROOT_QUEUE_COUNT.
Proof.
  intros Hf Hq. unfold global_queue_spec. rewrite Hf, Hq.
  assert (1 <= q <= 6).
  { unfold ident_class in Hq.
    repeat match type of Hq with (if ?b then _ else _) = _ => destruct b end; inversion Hq; subst; lia. }
  unfold root_queue_addr, root_index, platform_clamp, DISPATCH_ROOT_QUEUE_COUNT.
  destruct (Z.eqb_spec q 6); destruct (Z.eqb_spec q 1); destruct (nz (Z.land flags DISPATCH_QUEUE_OVERCOMMIT)); cbv iota; split; lia.
Qed.
