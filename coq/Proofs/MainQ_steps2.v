(* MainQ_steps2.v — preservation of the invariant of Model/MainQ.v by the push (two-step MPSC push through the lane's
   program points) and by the wakeup steps that touch more than QoS bits. *)
From Coq Require Import ZArith Bool List Lia.
From Verif Require Import Word Bits Fields DqFields Conc Gen_consts Gen_dqstate Lane_fields SLane SLane_proofs SLane_progress
  MainQ MainQ_fields MainQ_inv MainQ_frames MainQ_steps1.
Import ListNotations.
Local Open Scope Z_scope.


Lemma stage_push_xchg k q : stage (MP_push k) (PA_xchg q) = match k with KWait => 2 | _ => 0 end.
Proof. destruct k; reflexivity. Qed.
Lemma stage_push_link k i we q : stage (MP_push k) (PA_link i we q) = match k with KWait => 3 | _ => 0 end.
Proof. destruct k; reflexivity. Qed.

Lemma inflight_eq l l' :
  token l' = token l -> (forall w, token l = Some (Some w) -> pcs l' w = pcs l w) -> inflight l' = inflight l.
Proof.
  intros E H. unfold inflight. rewrite E. destruct (token l) as [[w|]|]; try reflexivity. rewrite (H w eq_refl). reflexivity.
Qed.

(* ---- os_mpsc_push_update_tail: the exchange of dq_items_tail ---- *)
Lemma step_push_xchg s t k q s' :
  Inv s -> valid_tid t -> mpcs s t = MP_push k -> pcs (lane s) t = PA_xchg q -> mstep s t = Some s' -> Inv s'.
Proof.
  intros I Vt Hpc Hlp B. unfold mstep in B. rewrite Hpc, Hlp in B. unfold lane_step in B.
  assert (SL : step (lane s) (AStep t) match gstep (lane s) t with Some l => l | None => lane s end).
  { cbn [step]. split; [exact Vt|]. unfold gstep. rewrite Hlp. reflexivity. }
  unfold gstep in B, SL. rewrite Hlp in B, SL. injection B as <-.
  match goal with |- Inv ?x => set (s1 := x) end.
  pose proof I as (T & Y & V & G).
  destruct (T t) as (T1 & T2 & T3 & T4 & T5 & T6). rewrite Hpc in T3, T4, T5.
  assert (NH : token (lane s) <> Some (Some t)) by (apply not_holder; [exact T1 | rewrite Hlp; reflexivity]).
  assert (NW : ~ In t (wakers (lane s))).
  { destruct T1 as (_ & Tw & _). rewrite Hlp in Tw. intros Hin. apply Tw in Hin. discriminate. }
  assert (Q : 0 <= q < 8) by (destruct T1 as (_ & _ & _ & Tq); apply Tq; rewrite Hlp; reflexivity).
  assert (Vt0 : t <> 0) by (unfold valid_tid in Vt; lia).
  assert (Em : mcl s1 = mcl s) by reflexivity.
  unfold sinv in T6. rewrite Hpc, Hlp, stage_push_xchg in T6. destruct T6 as (S2 & S3 & S4 & S5 & S6).
  assert (NP : forall j, ~ parked s t j).
  { intros j P. apply (not_parked_stage s t j P). rewrite Hpc, Hlp, stage_push_xchg. destruct k; lia. }
  assert (IF : inflight (lane s1) = inflight (lane s)).
  { apply inflight_eq; subst s1; fr. intros w E. apply upd_other. congruence. }
  split; [|split; [|split]].
  - (* threads *)
    intros u. destruct (Z.eq_dec u t) as [->|N].
    + unfold tinv. subst s1. mproj. lproj. rewrite !upd_same, Hpc.
      split; [|split; [reflexivity|split; [exact T3|split; [exact T4|split; [exact T5|]]]]].
      * unfold thread_inv. lproj. rewrite upd_same. cbn [token_pc locked_pc waker_pc owned_of qos_of orb].
        destruct T1 as (Tt & Tw & To & Tq). rewrite Hlp in Tt, Tw. cbn [token_pc locked_pc waker_pc orb] in Tt, Tw.
        split; [exact Tt|]. split.
        -- destruct (lst (lane s)); cbn [In]; split; intros H; try discriminate; try reflexivity; auto.
        -- split; [intros o H; discriminate|]. intros q0 H. injection H as <-. exact Q.
      * unfold sinv. cbv zeta. mproj. lproj. rewrite !upd_same, Hpc, stage_push_link.
        destruct k; cbn [w_dte w_null w_sigd w_item wset_item]; repeat split; intros; try lia; try discriminate;
          destruct (S2 eq_refl) as (A & B & C); try congruence.
        rewrite A, C. reflexivity.
    + apply (tinv_other s s1 t u N (T u)); subst s1; fr.
      destruct (lst (lane s)); cbn [In]; [|tauto]. split; [intros [E|E]; [congruence|exact E] | auto].
  - (* queued synchronous contexts *)
    apply (syinv_keep s s1 I (f_equal c_view Em)); try (subst s1; fr; fail).
    + intros j Hj. unfold pending in Hj. rewrite IF in Hj. subst s1. mproj_in Hj. lproj_in Hj. fold (pending s) in Hj.
      unfold ids in Hj. rewrite map_app in Hj. rewrite !app_assoc in Hj. apply in_app_or in Hj.
      destruct Hj as [Hj|Hj]; [left; unfold pending, ids; rewrite !app_assoc; exact Hj|].
      cbn [map In e_id] in Hj. destruct Hj as [<-|[]]. right. mproj. rewrite !upd_same.
      destruct k; try (intros Hw; congruence). intros _. rewrite upd_same. unfold parked. mproj. lproj.
      rewrite !upd_same, Hpc. cbn [stage kont w_item w_sigd w_null wset_item].
      destruct (S2 eq_refl) as (A & B & C). repeat split; try lia; assumption.
    + intros j Hj. subst s1. mproj. apply upd_other. lia.
    + intros w j P. destruct (Z.eq_dec w t) as [->|N]; [destruct (NP j P)|].
      apply (parked_keep_other s s1 t w j N); subst s1; fr; exact P.
  - exact V.
  - rewrite Em. destruct (c_lane (mcl s)) eqn:CL.
    + destruct G as [I2 G2]. split.
      * apply (step_preserves (lane s) (AStep t) _ I2). exact SL.
      * destruct G2. constructor; rewrite ?Em; subst s1; fr; assumption.
    + destruct G as [r G]. exists r.
      pose proof (a_order s r G) as AO. pose proof (a_strand s r G) as AS. pose proof (a_dirty s r G) as AD.
      pose proof (a_nodup s r G) as AN. pose proof (a_nextid s r G) as AX.
      destruct G. constructor; rewrite ?Em; subst s1; mproj; lproj; try assumption; try lia.
      * destruct (lst (lane s)); [constructor; assumption | assumption].
      * unfold ids in *. rewrite map_app. cbn [map e_id]. rewrite zrange_succ by assumption. rewrite <- AO.
        rewrite !app_assoc. reflexivity.
      * intros _ E. apply app_eq_nil in E. destruct E; discriminate.
      * intros C _. destruct (lst (lane s)) eqn:L.
        -- right. right. exists t. unfold poker. mproj. lproj. rewrite upd_same, Hpc. reflexivity.
        -- assert (NE : e :: l <> []) by discriminate. destruct (AS C NE) as [H|[H|[u H]]]; [left; exact H | right; left; exact H|].
           right. right. exists u. unfold poker in *. mproj. lproj. destruct (Z.eq_dec u t) as [->|N].
           ++ rewrite Hpc, Hlp in H. discriminate.
           ++ rewrite upd_other by exact N. exact H.
      * intros C _ Hw. destruct (lst (lane s)) eqn:L; [discriminate|]. apply AD; [exact C | discriminate | exact Hw].
Qed.

(* ---- os_mpsc_push_update_prev: the link, then either continuation ---- *)
Lemma step_push_link_gen s t k i we q p' :
  Inv s -> valid_tid t -> mpcs s t = MP_push k -> pcs (lane s) t = PA_link i we q ->
  lane_ok p' (if we then PA_probe q else Idle) = true ->
  only_main p' = only_main (MP_push k) ->
  (forall q0, mq_of p' = Some q0 -> 0 <= q0 < 8) ->
  sync_pc p' = sync_pc (MP_push k) ->
  (forall lp, stage p' lp = stage (MP_push k) (PA_link i we q)) ->
  mclass p' = mclass (MP_push k) ->
  (we = true -> poker_pc p' (PA_probe q) = true) ->
  forall l', gstep (lane s) t = Some l' -> Inv (set_mpc (set_snap (set_lane s l') (link_id (snap s) i)) t p').
Proof.
  intros I Vt Hpc Hlp Hl Hm Hq Hs Hg Hc Hp l' B.
  assert (SL : step (lane s) (AStep t) l') by (split; assumption).
  unfold gstep in B. rewrite Hlp in B. injection B as <-.
  match goal with |- Inv ?x => set (s1 := x) end.
  pose proof I as (T & Y & V & G).
  destruct (T t) as (T1 & T2 & T3 & T4 & T5 & T6).
  assert (NH : token (lane s) <> Some (Some t)) by (apply not_holder; [exact T1 | rewrite Hlp; reflexivity]).
  assert (Em : mcl s1 = mcl s).
  { unfold s1. rewrite (mcl_set_mpc (set_snap (set_lane s _) _) t p'); [reflexivity|]. mproj. rewrite Hpc. exact Hc. }
  assert (IF : inflight (lane s1) = inflight (lane s)).
  { apply inflight_eq; subst s1; fr. intros w E. apply upd_other. congruence. }
  assert (Ep : pending s1 = pending s).
  { unfold pending. rewrite IF. subst s1. mproj. lproj. unfold ids. rewrite !map_id_link. reflexivity. }
  assert (Est : stage (mpcs s1 t) (pcs (lane s1) t) = stage (mpcs s t) (pcs (lane s) t)).
  { subst s1. mproj. lproj. rewrite !upd_same, Hpc, Hlp. apply Hg. }
  split; [|split; [|split]].
  - intros u. destruct (Z.eq_dec u t) as [->|N].
    + apply (tinv_self_keep s s1 t (T t)).
      * subst s1; fr.
      * unfold thread_inv. subst s1. mproj. lproj. rewrite upd_same.
        destruct T1 as (Tt & Tw & To & Tq). rewrite Hlp in Tt, Tw, To, Tq.
        destruct we; cbn [token_pc locked_pc waker_pc owned_of qos_of orb] in *;
          (split; [exact Tt|]; split; [exact Tw|]; split; [exact To|]); intros q0 H; try discriminate.
        injection H as <-. apply Tq. reflexivity.
      * subst s1. mproj. lproj. rewrite !upd_same. destruct we; exact Hl.
      * subst s1. mproj. rewrite upd_same, Hm. rewrite Hpc in T3. exact T3.
      * subst s1. mproj. rewrite upd_same. exact Hq.
      * subst s1. mproj. rewrite upd_same, Hpc. exact Hs.
      * subst s1; fr.
      * exact Est.
      * subst s1; fr.
      * subst s1; fr.
      * subst s1; fr.
    + apply (tinv_other s s1 t u N (T u)); subst s1; fr.
  - apply (syinv_keep s s1 I (f_equal c_view Em)); try (subst s1; fr; fail).
    + intros j Hj. left. rewrite <- Ep. exact Hj.
    + intros w j P. destruct (Z.eq_dec w t) as [->|N].
      * apply (parked_keep_self s s1 t j Est); [subst s1; fr | exact P].
      * apply (parked_keep_other s s1 t w j N); subst s1; fr; exact P.
  - exact V.
  - rewrite Em. destruct (c_lane (mcl s)) eqn:CL.
    + destruct G as [I2 G2]. split.
      * apply (step_preserves (lane s) (AStep t) _ I2). exact SL.
      * pose proof (b_snap s G2) as BS. destruct G2. constructor; rewrite ?Em; subst s1; fr; try assumption.
        rewrite BS. reflexivity.
    + destruct G as [r G]. exists r.
      pose proof (a_order s r G) as AO. pose proof (a_strand s r G) as AS. pose proof (a_dirty s r G) as AD.
      pose proof (a_snap s r G) as ASn.
      destruct G. constructor; rewrite ?Em; subst s1; mproj; lproj; try assumption.
      * unfold ids in *. rewrite !map_id_link. exact AO.
      * destruct (snap s) as [|e0 l0]; [exact ASn|]. cbn [link_id]. destruct (e_id e0 =? i); exact ASn.
      * rewrite link_nil_iff. assumption.
      * intros C Hne. rewrite link_nil_iff in Hne. destruct (AS C Hne) as [H|[H|[u H]]]; [left; exact H | right; left; exact H|].
        right. right. exists u. unfold poker in *. mproj. lproj. destruct (Z.eq_dec u t) as [->|N].
        -- rewrite !upd_same. rewrite Hpc, Hlp in H. cbn [poker_pc] in H. destruct we; [|discriminate H]. apply Hp. reflexivity.
        -- rewrite !upd_other by exact N. exact H.
      * intros C Hne Hw. rewrite link_nil_iff in Hne. apply AD; assumption.
Qed.

Lemma qos_of_link s t i we q : Inv s -> pcs (lane s) t = PA_link i we q -> 0 <= q < 8.
Proof. intros (T & _) H. destruct (T t) as ((_ & _ & _ & Tq) & _). apply Tq. rewrite H. reflexivity. Qed.

Lemma step_push_link s t k i we q s' :
  Inv s -> valid_tid t -> mpcs s t = MP_push k -> pcs (lane s) t = PA_link i we q -> mstep s t = Some s' -> Inv s'.
Proof.
  intros I Vt Hpc Hlp B. unfold mstep in B. rewrite Hpc, Hlp in B. unfold lane_step in B.
  destruct (gstep (lane s) t) as [l'|] eqn:GS; [|discriminate]. injection B as <-.
  pose proof (qos_of_link s t i we q I Hlp) as Q.
  apply (step_push_link_gen s t k i we q _ I Vt Hpc Hlp); try exact GS; destruct we, k; cbn; try reflexivity; try discriminate;
    try (apply Z.eqb_refl); intros; try discriminate; try reflexivity.
  all: match goal with H : Some _ = Some _ |- _ => injection H as <-; exact Q end.
Qed.

Lemma step_push_link_o s t k i q s' :
  Inv s -> valid_tid t -> mpcs s t = MP_push k -> pcs (lane s) t = PA_link i false q -> mostep s t = Some s' -> Inv s'.
Proof.
  intros I Vt Hpc Hlp B. unfold mostep in B. rewrite Hpc, Hlp in B. unfold lane_step in B.
  destruct (gstep (lane s) t) as [l'|] eqn:GS; [|discriminate]. injection B as <-.
  pose proof (qos_of_link s t i false q I Hlp) as Q.
  apply (step_push_link_gen s t k i false q _ I Vt Hpc Hlp); try exact GS; destruct k; cbn; try reflexivity; try discriminate;
    intros; try discriminate; try reflexivity.
  all: match goal with H : Some _ = Some _ |- _ => injection H as <-; unfold push_qos; destruct (mprio s <? q); lia end.
Qed.

(* ---- _dispatch_main_queue_wakeup: the load of DQF_THREAD_BOUND ---- *)
Lemma lane_of_bound_dirty s t q k : Inv s -> mpcs s t = MW_bound q true k -> pcs (lane s) t = PA_probe q.
Proof.
  intros (T & _) Hpc. destruct (T t) as (_ & T2 & _). rewrite Hpc in T2. cbn [lane_ok] in T2.
  destruct (pcs (lane s) t); try discriminate. apply Z.eqb_eq in T2. congruence.
Qed.
Lemma lane_of_plain s t p :
  Inv s -> mpcs s t = p ->
  match p with MIdle | MP_push _ | MW_bound _ true _ | MC_push => False | _ => True end -> pcs (lane s) t = Idle.
Proof.
  intros (T & _) Hpc Hp. destruct (T t) as (_ & T2 & _). rewrite Hpc in T2.
  destruct p; try contradiction; cbn [lane_ok] in T2; try (destruct (pcs (lane s) t); try discriminate; reflexivity).
  destruct d; [contradiction|]. destruct (pcs (lane s) t); try discriminate; reflexivity.
Qed.

Lemma step_MW_bound s t q d k s' : Inv s -> valid_tid t -> mpcs s t = MW_bound q d k -> mstep s t = Some s' -> Inv s'.
Proof.
  intros I Vt Hpc B. pose proof I as (T & Y & V & G).
  destruct (T t) as (T1 & T2 & T3 & T4 & T5 & T6). rewrite Hpc in T3, T4, T5.
  assert (Q : 0 <= q < 8) by (apply T4; reflexivity).
  destruct (bound s) eqn:Hb.
  - destruct d.
    + (* runloop way: this pusher is not a lane waker any more *)
      unfold mstep in B. rewrite Hpc, Hb in B. injection B as <-.
      pose proof (lane_of_bound_dirty s t q k I Hpc) as Hlp.
      assert (CL : c_lane (mcl s) = false).
      { destruct (c_lane (mcl s)) eqn:CL; [|reflexivity]. destruct G as [_ G2]. rewrite (b_bound s G2) in Hb. discriminate. }
      apply (Inv_lane_ctl_pre s t Idle true (MW_rel q true k) I CL); rewrite ?Hpc, ?Hlp; try reflexivity;
        try (destruct k; reflexivity); try (intros; discriminate); try (intros; assumption).
      * exact T3.
      * exact T4.
      * intros; left; reflexivity.
      * intros _ C. exfalso. rewrite CL in G. destruct G as [r G]. pose proof (a_bound s r G) as AB.
        destruct (cls_facts (mpcs s (mtid s))) as (F & _). fold (mcl s) in F. rewrite (F C) in AB. rewrite Hb in AB. discriminate.
    + exact (step_MW_bound_ctl s t q k s' I Hpc Hb B).
  - unfold mstep in B. rewrite Hpc, Hb in B. destruct k; try discriminate. injection B as <-.
    assert (NoStr : c_lane (mcl s) = false -> c_clean (mcl s) = false -> False).
    { intros CL C. rewrite (unbound_clean s I CL Hb) in C. discriminate. }
    destruct d.
    + (* _dispatch_lane_wakeup(MAKE_DIRTY): the lane's PA_probe *)
      pose proof (lane_of_bound_dirty s t q KRet I Hpc) as Hlp.
      apply Inv_ctl; rewrite ?Hpc, ?Hlp; try exact I; try reflexivity; try (intros; discriminate).
      intros CL C. destruct (NoStr CL C).
    + (* _dispatch_lane_wakeup(q, 0): the lane's PA_oprobe *)
      pose proof (lane_of_plain s t _ I Hpc Logic.I) as Hlp.
      destruct (c_lane (mcl s)) eqn:CL.
      * (* ordinary lane *)
        destruct G as [I2 G2].
        assert (I2' : SLane_proofs.Inv (set_pc (lane s) t (PA_oprobe q))).
        { apply Inv_other_move; rewrite ?Hlp; try reflexivity; try exact I2. intros q0 E. injection E as <-. exact Q. }
        match goal with |- Inv ?x => set (s1 := x) end.
        assert (Em : mcl s1 = mcl s).
        { unfold s1. rewrite (mcl_set_mpc (set_lane s _) t MIdle); [reflexivity|]. mproj. rewrite Hpc. reflexivity. }
        assert (Ep : pending s1 = pending s).
        { unfold pending. f_equal. apply inflight_eq; subst s1; fr. intros w E. apply upd_other. intros ->.
          destruct I2 as [_ T']. destruct (T' t) as (Tt & _). rewrite Hlp in Tt. apply Tt in E. discriminate. }
        split; [|split; [|split]].
        -- intros u. destruct (Z.eq_dec u t) as [->|N].
           ++ apply (tinv_self_keep s s1 t (T t)); try (subst s1; fr; fail).
              ** destruct I2' as [_ T']. subst s1. mproj. apply T'.
              ** subst s1. mproj. lproj. rewrite !upd_same. intros; discriminate.
              ** subst s1. mproj. lproj. rewrite !upd_same, Hpc. reflexivity.
              ** subst s1. mproj. lproj. rewrite !upd_same, Hpc, Hlp. reflexivity.
           ++ apply (tinv_other s s1 t u N (T u)); subst s1; fr.
        -- apply (syinv_keep s s1 I (f_equal c_view Em)); try (subst s1; fr; fail).
           ++ intros j Hj. left. rewrite <- Ep. exact Hj.
           ++ intros w j P. destruct (Z.eq_dec w t) as [->|N].
              ** exfalso. apply (not_parked_stage s t j P). rewrite Hpc, Hlp. cbn. lia.
              ** apply (parked_keep_other s s1 t w j N); subst s1; fr; exact P.
        -- exact V.
        -- rewrite Em, CL. split; [exact I2'|]. destruct G2. constructor; rewrite ?Em; subst s1; fr; assumption.
      * apply (Inv_lane_ctl_pre s t (PA_oprobe q) false MIdle I CL); rewrite ?Hpc, ?Hlp; try reflexivity;
          try (intros; discriminate); try (intros; assumption).
        -- intros q0 E. injection E as <-. exact Q.
        -- intros C. destruct (NoStr eq_refl C).
Qed.

(* ---- _dispatch_runloop_queue_class_poke: eventfd_write ---- *)
Lemma step_MW_write s t k s' : Inv s -> mpcs s t = MW_write k -> mstep s t = Some s' -> Inv s'.
Proof.
  intros I Hpc B. unfold mstep in B. rewrite Hpc in B. injection B as <-.
  pose proof (lane_of_plain s t _ I Hpc Logic.I) as Hlp.
  pose proof I as (T & _). destruct (T t) as (T1 & T2 & T3 & T4 & T5 & T6). rewrite Hpc in T3, T4, T5.
  destruct (hopen s) eqn:Ho.
  - assert (I1 : Inv (set_evfd s (evfd s + 1))) by (apply Inv_evfd; [exact I | lia]).
    apply (Inv_ctl (set_evfd s (evfd s + 1)) t (MW_ret k) I1); mproj; rewrite ?Hpc, ?Hlp; try reflexivity;
      try (destruct k; reflexivity); try (intros; discriminate); try assumption.
    intros CL _ _ _. right. destruct I as (_ & _ & _ & G). change (mcl (set_evfd s (evfd s + 1))) with (mcl s) in CL.
    rewrite CL in G. destruct G as [r G]. pose proof (a_evfd s r G). lia.
  - apply Inv_ctl; rewrite ?Hpc, ?Hlp; try exact I; try reflexivity; try (destruct k; reflexivity); try (intros; discriminate);
      try assumption.
    intros CL. exfalso. destruct I as (_ & _ & _ & G). rewrite CL in G. destruct G as [r G]. rewrite (a_hopen s r G) in Ho. discriminate.
Qed.
