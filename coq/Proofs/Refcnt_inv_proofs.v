(* Refcnt_inv_proofs.v — the step lemma (greg_step) for the global invariant of the reference-count model (Model/Refcnt.v) for any number of threads and any
   interleaving.  Style: the global part of the invariant speaks about registers only; the link between a
   thread's program point and the registers is the token discipline: for every kind k, priv k bounds the sum of
   `held k` over every duplicate-free list of threads (and equals it over a finite support list). *)
From Coq Require Import ZArith Bool List Lia.
From Verif Require Import Word Bits Conc Gen_consts Gen_group Gen_refcnt Refcnt.
Import ListNotations.
Local Open Scope Z_scope.

(* ------------------------------------------------------------------ sums over finite sets of threads *)
Fixpoint sumf (f : Z -> Z) (l : list Z) : Z := match l with [] => 0 | t :: l' => f t + sumf f l' end.

Lemma sumf_ext f f' l : (forall u, In u l -> f' u = f u) -> sumf f' l = sumf f l.
Proof.
  induction l as [|a l IH]; cbn; intros H; [reflexivity|].
  rewrite H by (left; reflexivity). rewrite IH; [reflexivity|]. intros u Hu. apply H. right. exact Hu.
Qed.
Lemma sumf_notin f f' l t : ~ In t l -> (forall u, u <> t -> f' u = f u) -> sumf f' l = sumf f l.
Proof. intros Hn H. apply sumf_ext. intros u Hu. apply H. intros ->. contradiction. Qed.
Lemma sumf_in f f' l t : NoDup l -> In t l -> (forall u, u <> t -> f' u = f u) ->
  sumf f' l = sumf f l - f t + f' t.
Proof.
  induction l as [|a l IH]; cbn; intros ND Hin H; [contradiction|].
  inversion ND as [|? ? Hna ND']; subst.
  destruct (Z.eq_dec a t) as [->|Ne].
  - rewrite (sumf_notin f f' l t Hna H). lia.
  - destruct Hin as [->|Hin]; [contradiction|]. rewrite (IH ND' Hin H). rewrite (H a Ne). lia.
Qed.
Lemma sumf_nonneg f l : (forall u, 0 <= f u) -> 0 <= sumf f l.
Proof. intros H. induction l; cbn; [lia|]. specialize (H a). lia. Qed.

Definition bounded (f : Z -> Z) (n : Z) : Prop := forall l, NoDup l -> sumf f l <= n.

Lemma bounded_step f f' n t :
  (forall u, 0 <= f u) -> 0 <= f' t -> bounded f n -> (forall u, u <> t -> f' u = f u) ->
  bounded f' (n + f' t - f t).
Proof.
  intros Hf Hv Hb Ho l ND. destruct (in_dec Z.eq_dec t l) as [Hin|Hn].
  - rewrite (sumf_in f f' l t ND Hin Ho). specialize (Hb l ND). lia.
  - rewrite (sumf_notin f f' l t Hn Ho).
    assert (ND' : NoDup (t :: l)) by (constructor; assumption).
    specialize (Hb (t :: l) ND'). cbn in Hb. lia.
Qed.
Lemma bounded_one f n t : bounded f n -> f t <= n.
Proof. intros H. specialize (H [t]). cbn in H. rewrite Z.add_0_r in H. apply H. constructor; [intros []|constructor]. Qed.
Lemma bounded_nonneg f n : bounded f n -> 0 <= n.
Proof. intros H. apply (H []). constructor. Qed.
(* when the bound is exhausted by one thread, every other thread holds nothing *)
Lemma bounded_other f n t u : (forall v, 0 <= f v) -> bounded f n -> u <> t -> n <= f t -> f u = 0.
Proof.
  intros Hf H Ne Hn. assert (ND : NoDup [t; u]).
  { constructor; [intros [E|[]]; congruence|]. constructor; [intros []|constructor]. }
  specialize (H [t; u] ND). cbn in H. pose proof (Hf u). lia.
Qed.

(* finite support: priv k is exactly the sum over a list outside which every thread is idle *)
Definition supported (f : Z -> Z) (idle : Z -> Prop) (n : Z) (l : list Z) : Prop :=
  NoDup l /\ (forall t, ~ In t l -> idle t) /\ n = sumf f l.

(* ------------------------------------------------------------------ well-formed program points *)
Definition wfb (b : bsrc) : Prop := b <> BN.
Definition wfpc (p : pc) : Prop :=
  match p with
  | PRet _ rx ri re => 0 <= rx /\ 0 <= ri /\ 0 <= re
  | PIRel _ n => 1 <= n
  | PIRetain b n => 1 <= n <= 2 /\ wfb b
  | PWeakCas b old new => wfb b /\ new = s32 (old + 1) /\ -1 < old
  | PWeakLoad b | PEnter b | PEnterRetain b | PNfQ b | PNfPush b | PNfRetain b | PNfHead b
  | PNfLoad b | PNfCas b _ _ => wfb b
  | PSnapHead _ needs _ | PSnapStore _ needs _ | PSnapTail _ needs _ | PFire _ needs _ => 0 <= needs
  | PWakeFutex _ refs => 1 <= refs
  | _ => True
  end.

Lemma hb_nonneg k b : 0 <= hb k b.
Proof. destruct k, b; cbn; lia. Qed.
Lemma hk_nonneg k c : 0 <= hk k c.
Proof. destruct c; cbn; [apply hb_nonneg|lia]. Qed.
Lemma one_nonneg k k' : 0 <= one k k' <= 1.
Proof. destruct k, k'; cbn; lia. Qed.

(* the enter that made the group non-empty was not made under an outstanding enter (proved with the invariant) *)
Definition wfpc2 (p : pc) : Prop := wfpc p /\ p <> PEnterRetain BE.
Lemma held_nonneg k p g : wfpc2 p -> 0 <= g -> 0 <= held k p g.
Proof.
  intros [W NE] G. destruct p; cbn [wfpc] in *;
    repeat match goal with
           | b : bsrc |- _ => destruct b
           | c : kont |- _ => destruct c
           end; destruct k; cbn [held held0 hb hk one]; unfold wfb in *; try nia;
    exfalso; try (apply NE; reflexivity); intuition congruence.
Qed.

(* ------------------------------------------------------------------ bit facts about the group word *)
Lemma leave_new_no_HN x : Z.land (leave_new x) HN = 0.
Proof.
  unfold leave_new. destruct (Z.land x VMASK =? 0); rewrite <- Z.land_assoc;
    change (Z.land (not64 HN) HN) with 0; apply Z.land_0_r.
Qed.
Lemma leave_new_fix_no_HN x : leave_new x = x -> nz (Z.land x HN) = false.
Proof. intros H. rewrite <- H. rewrite leave_new_no_HN. reflexivity. Qed.
Lemma lor_HN_has_HN x : nz (Z.land (Z.lor x HN) HN) = true.
Proof.
  rewrite Z.land_lor_distr_l. change (Z.land HN HN) with 2. unfold nz.
  destruct (Z.eqb_spec (Z.lor (Z.land x HN) 2) 0) as [E|]; [|reflexivity].
  apply Z.lor_eq_0_iff in E. destruct E; discriminate.
Qed.

(* ------------------------------------------------------------------ well-formedness is preserved *)
Lemma wf_end_pc c : wfpc (end_pc c).
Proof. destruct c; cbn; lia. Qed.
Lemma wf_wake_rel c refs : 0 <= refs -> wfpc (wake_rel c refs).
Proof. intros H. unfold wake_rel. destruct (Z.eqb_spec refs 0); [apply wf_end_pc|cbn; lia]. Qed.
Lemma wf_wake_tail c refs hw : 1 <= refs -> wfpc (wake_tail c refs hw).
Proof. intros H. unfold wake_tail. destruct hw; [cbn; lia|apply wf_wake_rel; lia]. Qed.
Lemma wf_wake_entry c st needs : 0 <= needs -> (1 <= needs \/ nz (Z.land st HN) = true) -> wfpc (wake_entry c st needs).
Proof.
  intros H0 H. unfold wake_entry. destruct (nz (Z.land st HN)); [cbn; lia|].
  destruct H as [H|H]; [|discriminate]. apply wf_wake_tail. exact H.
Qed.
Lemma wf_after_irel c new : wfpc (after_irel c new).
Proof. unfold after_irel. destruct (0 <=? new); [apply wf_end_pc|]. destruct (new <? -1); exact I. Qed.
Lemma wf_lv_entry c old : wfpc (lv_entry c old).
Proof. unfold lv_entry. destruct (leave_new old =? old); [apply wf_wake_entry; lia|exact I]. Qed.
Lemma wf_nf_body b old p : wfb b -> nf_body b old = Some p -> wfpc p.
Proof.
  intros Wb. unfold nf_body. destruct (group_notify_loop 0 0 0 old) as [new ret|ret xs| |]; try discriminate.
  - intros H. injection H as <-. exact Wb.
  - destruct ret as [|[| |]|]; try discriminate. intros H. injection H as <-.
    apply wf_wake_entry; [lia|]. right. apply lor_HN_has_HN.
Qed.
Lemma wf_weak_body b old p : wfb b -> weak_body b old = Some p -> wfpc p.
Proof.
  intros Wb. unfold weak_body, retain_weak_loop.
  destruct (Z.eqb_spec old 2147483647) as [E1|E1]; cbn [negb]; [intros H; injection H as <-; cbn; lia|].
  destruct (Z.eqb_spec old (-1)) as [E2|E2]; cbn [negb]; [intros H; injection H as <-; cbn; lia|].
  destruct (Z.ltb_spec old (-1)) as [E3|E3]; cbn [negb]; intros H; injection H as <-; [exact I|].
  cbn. split; [exact Wb|]. split; [reflexivity|lia].
Qed.
Lemma wf_call_pc e p : call_pc e = Some p -> wfpc p.
Proof.
  assert (Wb : wfb (borrow_of e)) by (unfold borrow_of, wfb; destruct (ea e / 100 =? 0); [|destruct (ea e / 100 =? 1)]; discriminate).
  unfold call_pc. set (b := borrow_of e) in *. clearbody b.
  repeat match goal with
         | |- context [if ?c then _ else _] => destruct c eqn:?
         end; intros H; try discriminate; injection H as <-; cbn; auto; try lia;
    repeat match goal with H : (_ || _) = true |- _ => apply orb_true_iff in H; destruct H
           | H : (_ && _) = true |- _ => apply andb_true_iff in H; destruct H
           | H : (_ =? _) = true |- _ => apply Z.eqb_eq in H end; try lia; try (split; [lia|auto]).
Qed.

Lemma wf_tstep1 p e p' : wfpc p -> tstep1 p e = Some p' -> wfpc p'.
Proof.
  intros W. destruct p; cbn [tstep1 wfpc] in *; try discriminate;
    repeat match goal with
           | |- context [if ?c then _ else _] => destruct c eqn:?
           end; intros H; try discriminate; try (injection H as <-);
    try exact I; try exact W; try (cbn; lia); try apply wf_end_pc; try apply wf_after_irel; try apply wf_lv_entry;
    try (apply wf_wake_entry; lia); try (apply wf_wake_rel; lia);
    try (eapply wf_nf_body; eassumption); try (eapply wf_weak_body; eassumption).
  all: try (cbn; destruct W; auto; lia).
  all: try (destruct W as (W1 & W2 & W3); eapply wf_weak_body; eassumption).
Qed.

Lemma wf_tstep p e p' : wfpc p -> tstep p e = Some p' -> wfpc p'.
Proof.
  intros W. unfold tstep. destruct (noise e).
  - destruct p; intros H; try discriminate; injection H as <-; exact W.
  - destruct p; try (apply wf_tstep1; exact W).
    + destruct (ev_kind e DVU_CALL); [apply wf_call_pc|]. apply wf_tstep1. exact I.
    + destruct (is_qrel e); [intros H; injection H as <-; exact W|].
      apply wf_tstep1. apply wf_wake_tail. cbn in W. lia.
Qed.

(* ------------------------------------------------------------------ the invariant *)
Definition finset (r : greg -> Z) : bool := nz (r FIN) && nz (r CTX).

(* n calls borrow a reference of a level whose pool holds `pool` references: if any call borrows, one is there.
   Kept as a named predicate so that lia does not case-split on it in the goals that do not need it. *)
Definition borrowed_ok (n pool : Z) : Prop := Z.min 1 n <= pool.

(* global part: registers only, written in linear form (no implications) so that lia decides the step cases
   quickly; the readable consequences are derived below (Greg_readable).
   [group non-empty] is Z.min 1 (r GVAL); [ref = -1] is 1 - Z.min 1 (r IREF + 1) *)
Definition Greg (r : greg -> Z) (pv : kind -> Z) : Prop :=
  (0 <= r XPOOL /\ 0 <= r IPOOL /\ 0 <= r EPOOL /\ 0 <= r NLEN /\ 0 <= r GVAL) /\
  (0 <= r XALIVE <= 1 /\ 0 <= r GNOT <= 1 /\ 0 <= r NTAIL <= 1) /\
  (* external count: one token per unit; xref = -1 exactly when the last external reference is gone *)
  (r XREF + 1 = r XPOOL + pv KX /\ r XALIVE - 1 <= r XREF /\ r XREF + 1 <= MAXC * r XALIVE) /\
  (* internal count: refs_account *)
  (r IREF + 1 = r XALIVE + r IPOOL + (Z.min 1 (r GVAL) - pv KPE) + (r NTAIL - pv KPN) + pv KI) /\
  (* group value *)
  (r GVAL = r EPOOL + pv KE + pv KPE /\ pv KPE <= 1) /\
  (* notify list: exactly one owner of the duty to deliver the pending batch *)
  (pv KPN + r GNOT + pv KD = r NTAIL /\ (r NTAIL = 0 -> r NLEN = 0)) /\
  (* notification queue and target queue references *)
  (r QRET - r QREL = r NLEN + pv KQ /\ r TRET - r TREL = 1 - r DISP) /\
  (* disposal bookkeeping *)
  (r XDISP + pv KXD = 1 - r XALIVE /\ 0 <= r XDISP /\
   r DISP + pv KDP = 1 - Z.min 1 (r IREF + 1) /\ 0 <= r DISP /\ r FREED = r DISP) /\
  (r NFIN = (if (r DISP =? 1) && finset r then 1 else 0) /\ (r NFIN = 1 -> r FINCTX = r CTX /\ r FINQ = r TQ)) /\
  (r CRASH = 0 /\ r XREF < MAXC /\ r IREF < MAXC) /\
  (* whoever owes a retain is inside a call that borrowed a reference *)
  (pv KB = pv KBX + pv KBI - pv KPE /\ pv KB2 = pv KBX + pv KBI + pv KBE - pv KPN) /\
  (* a borrowed reference is there: while calls borrow a level, its owners keep at least one reference of that level *)
  (borrowed_ok (pv KBX) (r XPOOL) /\ borrowed_ok (pv KBI) (r IPOOL) /\ borrowed_ok (pv KBE) (r EPOOL)).

Definition hf (s : gst) (k : kind) : Z -> Z := fun t => held k (pcs s t) (gn s t).
Definition Binv (s : gst) : Prop := forall k, bounded (hf s k) (priv s k).
Definition Tinv (s : gst) : Prop := forall t, wfpc2 (pcs s t) /\ 0 <= gn s t.
Definition Inv (s : gst) : Prop := Greg (regs s) (priv s) /\ Binv s /\ Tinv s.

Lemma Inv_init : Inv init_state.
Proof.
  split; [|split].
  - unfold Greg, borrowed_ok, init_state, init_regs, finset, MAXC, f_OS_OBJECT_GLOBAL_REFCNT; cbn. repeat split; try lia; intros; try lia; try discriminate.
  - intros k l ND. unfold hf, init_state; cbn [pcs gn priv]. cbv beta.
    induction l as [|a l IH]; cbn [sumf]; [lia|].
    inversion ND as [|? ? ? ND']; subst. specialize (IH ND').
    assert (E : held k PIdle 0 = 0) by (destruct k; reflexivity). rewrite E in *. lia.
  - intros t. cbn. split; [split; [exact I|discriminate]|lia].
Qed.

Lemma s32_small x : -2147483648 <= x < 2147483648 -> s32 x = x.
Proof. intros H. unfold s32. rewrite Z.mod_small by lia. lia. Qed.

(* what the stepping thread holds is available *)
Lemma held_le s t k : Binv s -> held k (pcs s t) (gn s t) <= priv s k.
Proof. intros B. apply (bounded_one (hf s k) (priv s k) t (B k)). Qed.
Lemma priv_nonneg s k : Binv s -> 0 <= priv s k.
Proof. intros B. apply (bounded_nonneg _ _ (B k)). Qed.

Ltac bool_hyps :=
  repeat match goal with
         | H : (_ && _) = true |- _ => apply andb_true_iff in H; destruct H
         | H : (_ || _) = true |- _ => apply orb_true_iff in H
         | H : (_ || _) = false |- _ => apply orb_false_iff in H; destruct H
         | H : negb _ = true |- _ => apply negb_true_iff in H
         | H : negb _ = false |- _ => apply negb_false_iff in H
         | H : (_ =? _) = true |- _ => apply Z.eqb_eq in H
         | H : (_ =? _) = false |- _ => apply Z.eqb_neq in H
         | H : (_ <? _) = true |- _ => apply Z.ltb_lt in H
         | H : (_ <? _) = false |- _ => apply Z.ltb_ge in H
         | H : (_ <=? _) = true |- _ => apply Z.leb_le in H
         | H : (_ <=? _) = false |- _ => apply Z.leb_gt in H
         end.

Lemma Greg_same r pv pv' : (forall k, pv' k = pv k) -> Greg r pv -> Greg r pv'.
Proof. intros H G. unfold Greg in *. rewrite !H. exact G. Qed.

Lemma nf_body_cases b old p : nf_body b old = Some p ->
  (exists new, p = PNfCas b old new) \/ (exists st, p = wake_entry (KApi b) st 0 /\ nz (Z.land st HN) = true).
Proof.
  unfold nf_body. destruct (group_notify_loop 0 0 0 old) as [new ret|ret xs| |]; try discriminate.
  - intros H. injection H as <-. left. eauto.
  - destruct ret as [|[| |]|]; try discriminate. intros H. injection H as <-. right.
    exists (Z.lor old HN). split; [reflexivity|apply lor_HN_has_HN].
Qed.
Lemma weak_body_cases b old p : weak_body b old = Some p ->
  p = PRet b 0 0 0 \/ (p = PCrash /\ old < -1) \/ (p = PWeakCas b old (s32 (old + 1)) /\ -1 < old).
Proof.
  unfold weak_body, retain_weak_loop.
  destruct (Z.eqb_spec old 2147483647) as [E1|E1]; cbn [negb]; [intros H; injection H as <-; auto|].
  destruct (Z.eqb_spec old (-1)) as [E2|E2]; cbn [negb]; [intros H; injection H as <-; auto|].
  destruct (Z.ltb_spec old (-1)) as [E3|E3]; cbn [negb]; intros H; injection H as <-; [right; left; auto|].
  right; right. split; [reflexivity|lia].
Qed.
Lemma hb_wf b : wfb b -> hb KBX b + hb KBI b + hb KBE b = 1.
Proof. destruct b; cbn; intros H; [reflexivity|reflexivity|reflexivity|exfalso; apply H; reflexivity]. Qed.

Arguments hb k b : simpl nomatch.
Ltac split_ifs H :=
  repeat match type of H with
         | context [if ?c then _ else _] => destruct c eqn:?; try discriminate H
         end.
Ltac simp_goal :=
  cbn [is_crash apply_ups setr greg_id Z.eqb Pos.eqb held held0 hb hk one fst snd app b2z].
Ltac spec_kinds HL :=
  pose proof (HL KX); pose proof (HL KI); pose proof (HL KBX); pose proof (HL KBI); pose proof (HL KBE); pose proof (HL KB2); pose proof (HL KE); pose proof (HL KQ); pose proof (HL KPE);
  pose proof (HL KPN); pose proof (HL KD); pose proof (HL KXD); pose proof (HL KDP); pose proof (HL KB).
Lemma Greg_bounds r pv : Greg r pv -> (forall k, 0 <= pv k) ->
  (-1 <= r XREF < 2147483647 /\ -1 <= r IREF < 2147483647) /\ pv KX <= r XREF + 1 /\ pv KI <= r IREF + 1.
Proof.
  unfold Greg, MAXC, f_OS_OBJECT_GLOBAL_REFCNT. intros G P.
  pose proof (P KX); pose proof (P KI); pose proof (P KPE); pose proof (P KPN); pose proof (P KE); pose proof (P KD).
  lia.
Qed.
Ltac s32_norm :=
  repeat match goal with
         | |- context [s32 ?x] => rewrite (s32_small x) by lia
         | H : context [s32 ?x] |- _ => rewrite (s32_small x) in H by lia
         end.
Ltac conj_hyps := repeat match goal with H : _ /\ _ |- _ => destruct H end.
Ltac b_facts :=
  repeat match goal with b : bsrc |- _ =>
    lazymatch goal with
    | H : 0 <= hb KBX b |- _ => fail
    | _ => pose proof (hb_nonneg KBX b); pose proof (hb_nonneg KBI b); pose proof (hb_nonneg KBE b)
    end end;
  repeat match goal with H : wfb ?b |- _ => apply hb_wf in H end.
Ltac leave_facts :=
  repeat match goal with H : leave_new ?x = ?x |- _ => apply leave_new_fix_no_HN in H end.
(* what the borrow invariant gives the stepping thread, in linear form *)
Ltac borrow_facts :=
  repeat match goal with
         | b : bsrc, HX : borrowed_ok (?pv KBX) (?r XPOOL), HI : borrowed_ok (?pv KBI) (?r IPOOL) |- _ =>
             lazymatch goal with
             | H : hb KBX b <= r XPOOL |- _ => fail
             | _ => assert (hb KBX b <= r XPOOL) by (unfold borrowed_ok in *; lia);
                    assert (hb KBI b <= r IPOOL) by (unfold borrowed_ok in *; lia);
                    assert (hb KBE b <= r EPOOL) by (unfold borrowed_ok in *; lia)
             end
         end.
Ltac borrow_facts1 :=
  try match goal with HX : borrowed_ok (?pv KBX) (?r XPOOL), H : 1 <= ?pv KBX |- _ =>
        assert (1 <= r XPOOL) by (unfold borrowed_ok in HX; lia) end;
  try match goal with HI : borrowed_ok (?pv KBI) (?r IPOOL), H : 1 <= ?pv KBI |- _ =>
        assert (1 <= r IPOOL) by (unfold borrowed_ok in HI; lia) end;
  try match goal with HE : borrowed_ok (?pv KBE) (?r EPOOL), H : 1 <= ?pv KBE |- _ =>
        assert (1 <= r EPOOL) by (unfold borrowed_ok in HE; lia) end.
Ltac prep :=
  unfold Greg, finset, MAXC, MAXE, f_OS_OBJECT_GLOBAL_REFCNT in *; conj_hyps; b_facts.
Ltac finish :=
  try match goal with H : forall c, PDispose _ = PDispose c -> _ |- _ => specialize (H _ eq_refl) end;
  bool_hyps; repeat match goal with H : _ \/ _ |- _ => destruct H end; bool_hyps; leave_facts; try congruence; unfold sv in *;
  repeat match goal with H : s32 (ea _) = _ |- _ => rewrite H in * end;
  simp_goal; cbn [held held0 hb hk one b2z] in *; borrow_facts; borrow_facts1; s32_norm;
  repeat split;
  try match goal with
      | |- borrowed_ok _ _ => unfold borrowed_ok in *; lia
      | _ => lia
      end.

Lemma contract_facts r p e : contract_r r p e = true ->
  r XREF + 1 < 2147483647 /\ r IREF + 2 < 2147483647 /\ r GVAL < 1073741823 /\
  (forall c, p = PDispose c -> nz (u32 (ea e)) = true -> 0 < r GVAL \/ r GNOT = 1).
Proof.
  unfold contract_r, MAXC, MAXE, f_OS_OBJECT_GLOBAL_REFCNT. intros H.
  apply andb_true_iff in H as [H H4]. apply andb_true_iff in H as [H H3]. apply andb_true_iff in H as [H1 H2].
  apply Z.ltb_lt in H1, H2, H3. repeat split; try assumption.
  intros c -> Hn. rewrite Hn in H4. cbn [negb orb] in H4. apply orb_true_iff in H4 as [H4|H4].
  - left. apply Z.ltb_lt. exact H4.
  - right. apply Z.eqb_eq. exact H4.
Qed.

Lemma greg_step1 r pv p g e p' ups g' :
  Greg r pv -> wfpc p -> 0 <= g -> (forall k, held k p g <= pv k) -> (forall k, 0 <= pv k) ->
  contract_r r p e = true ->
  tstep1 p e = Some p' -> effect1 r g p e = Some (ups, g') ->
  Greg (if is_crash p' then setr (apply_ups ups r) CRASH 1 else apply_ups ups r)
       (fun k => pv k + held k p' g' - held k p g) /\ 0 <= g'.
Proof.
  intros HG HW Hg HL HP Hct Hts Hef.
  apply contract_facts in Hct as (CB1 & CB2 & CB3 & CB4).
  pose proof (Greg_bounds r pv HG HP) as BD.
  spec_kinds HL. spec_kinds HP. clear HL HP.
  destruct p; cbn [tstep1 effect1 wfpc] in *; try discriminate.
  all: unfold guard, after_irel, lv_entry, wake_entry, wake_tail, wake_rel, end_pc in *.
  all: repeat match goal with c : kont |- _ => destruct c end.
  all: prep.
  all: try abstract (split_ifs Hts; split_ifs Hef; try discriminate; injection Hts as <-; injection Hef as <- <-; finish).
  all: try (split_ifs Hts; split_ifs Hef; try discriminate; injection Hts as <-; injection Hef as <- <-; finish).
  (* _dispatch_dispose: the finalizer bookkeeping *)
  all: try (match goal with |- context [?r0 DISP + 1 =? 1] => assert (D0 : r0 DISP = 0) by lia end; rewrite D0 in *; cbn [Z.add Pos.add Z.eqb Pos.eqb andb] in *;
            repeat match goal with
                   | H : nz _ = _ |- _ => rewrite H in *
                   | H : (nz _ && nz _) = _ |- _ => rewrite H in *
                   end; cbn [andb] in *; lia).
  (* "deallocated while in use": the dispose step holds the last token, so value / HAS_NOTIFS cannot be set *)
  all: try (lazymatch goal with |- _ /\ _ => fail | _ => idtac end; exfalso; unfold borrowed_ok in *; lia).
  - (* PWeakLoad *)
    destruct (at_ e OBJ_G OFF_XREF DV_LOAD (mo_code retain_weak_loop_order)); [|discriminate].
    split_ifs Hef. injection Hef as <- <-.
    apply weak_body_cases in Hts as [->|[[-> Hlt]|[-> Hgt]]]; finish.
  - (* PWeakCas *)
    destruct (at_ e OBJ_G OFF_XREF DV_CASW (mo_code retain_weak_loop_order) && (s32 (eb e) =? new)) eqn:Hc; [|discriminate].
    split_ifs Hef; injection Hef as <- <-.
    + injection Hts as <-. finish.
    + apply weak_body_cases in Hts as [->|[[-> Hlt]|[-> Hgt]]]; finish.
  - (* PNfLoad *)
    destruct (at_ e OBJ_G OFF_STATE DV_LOAD MO_RELAXED); [|discriminate]. injection Hef as <- <-.
    apply nf_body_cases in Hts as [[new ->]|(st & -> & Hst)].
    + finish.
    + unfold wake_entry. rewrite Hst. finish.
  - (* PNfCas *)
    destruct (at_ e OBJ_G OFF_STATE DV_CASW (mo_code group_notify_loop_order) && (eb e =? new)); [|discriminate].
    split_ifs Hef; injection Hef as <- <-.
    + injection Hts as <-. finish.
    + apply nf_body_cases in Hts as [[new' ->]|(st & -> & Hst)].
      * finish.
      * unfold wake_entry. rewrite Hst. finish.
Qed.

