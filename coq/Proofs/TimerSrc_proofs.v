(* TimerSrc_proofs.v — the source side of the timer machinery (Model/TimerRun.v, section "the source side"):
   the rules by which src/source.c issues _dispatch_unote_resume / configure / latch / unregister on a timer source
   (_dispatch_source_wakeup, _dispatch_source_invoke2), composed with the manager's pass.  Proved here:
   - every reachable state satisfies the system invariant of TimerSys_proofs (so its theorems apply), plus: an
     armed unote is registered, and a source whose state asks for an invoke has a wakeup pending (x_enq);
   - hence a registered, uncancelled, unsuspended timer with a finite target is either in its heap or has a wakeup
     pending, and the invokes that the pending wakeup stands for put it into the heap within three actions;
   - a dispatch_after timer fires at most once. *)
From Coq Require Import ZArith List Bool Lia ZifyBool Znumtheory.
From Verif Require Import Word Bits Tactics Gen_consts Gen_time Gen_timer Time Time_proofs Heap TimerRun Heap_proofs TimerRun_proofs TimerSys_proofs.
Import ListNotations.
Local Open Scope Z_scope.

(* ================================================================================================ *)
(* what each operation does to the record of the timer it is applied to *)
Lemma resume_tm st t :
  let x := tm st t in
  tm (resume st t) t =
  if needs_rearm x then (if t_armed x && (t_ident x =? unote_idx x) then x else with_armed (with_ident x (unote_idx x)) true)
  else (if t_armed x then with_armed x false else x).
Proof.
  cbv zeta. unfold resume. set (x := tm st t). set (tidx := unote_idx x).
  destruct (needs_rearm x) eqn:W; destruct (t_armed x) eqn:A; cbn [andb negb orb].
  - destruct (Z.eqb_spec (t_ident x) tidx) as [E|E]; cbn [negb].
    + rewrite arm_tm. fold x. rewrite A. reflexivity.
    + rewrite arm_tm, !disarm_tm, Z.eqb_refl. fold x. cbn [t_armed with_armed]. reflexivity.
  - rewrite arm_tm. fold x. rewrite A, Z.eqb_refl. reflexivity.
  - rewrite disarm_tm, Z.eqb_refl. reflexivity.
  - reflexivity.
Qed.

Definition cfg_apply (x : timer) (c tg dl itv : Z) : timer :=
  mkT c (t_after x) (t_ident x) (t_armed x) tg dl itv 0 None (t_susp x) (t_reg x).

Lemma configure_tm st t c tg dl itv :
  t_cfg (tm st t) = Some (c, tg, dl, itv) ->
  let x1 := cfg_apply (tm st t) c tg dl itv in
  configure st t = (if t_armed x1 then resume (set_timer st t x1) t else set_timer st t x1).
Proof.
  intros E. cbv zeta. unfold configure. rewrite E.
  assert (X : with_pending (with_cfg (with_values (if negb (c =? t_clock (tm st t)) then with_clock (tm st t) c else tm st t) tg dl itv) None) 0
              = cfg_apply (tm st t) c tg dl itv).
  { destruct (Z.eqb_spec c (t_clock (tm st t))) as [->|]; reflexivity. }
  rewrite X. reflexivity.
Qed.

Lemma latch_tm st t now :
  exists tg dl, tm (fst (latch st t now)) t = with_values (with_pending (tm st t) 0) tg dl (t_interval (tm st t)) /\
                (forall u, u <> t -> tm (fst (latch st t now)) u = tm st u).
Proof.
  unfold latch. set (x := tm st t).
  assert (Same : with_values (with_pending x 0) (t_target x) (t_deadline x) (t_interval x) = with_pending x 0) by reflexivity.
  destruct (nz _); [destruct (_ && _); [destruct (compute_missed _ _ _ _ _) as [[cnt tg] dl]|]|]; cbn [fst].
  - exists tg, dl. rewrite tm_set_timer_eq. split; [reflexivity|]. intros; apply tm_set_timer_neq; auto.
  - exists (t_target x), (t_deadline x). rewrite tm_set_timer_eq. split; [auto|]. intros; apply tm_set_timer_neq; auto.
  - exists (t_target x), (t_deadline x). rewrite tm_set_timer_eq. split; [auto|]. intros; apply tm_set_timer_neq; auto.
Qed.

Lemma unregister_tm st t :
  tm (unregister st t) t = with_ident (with_reg (with_armed (tm st t) false) 2) DISPATCH_TIMER_IDENT_CANCELED /\
  forall u, u <> t -> tm (unregister st t) u = tm st u.
Proof.
  unfold unregister. destruct (t_armed (tm st t)) eqn:A.
  - rewrite tm_set_timer_eq, disarm_tm, Z.eqb_refl. split; [reflexivity|].
    intros u Nu. rewrite tm_set_timer_neq, disarm_other by auto. reflexivity.
  - rewrite tm_set_timer_eq. split; [|intros; apply tm_set_timer_neq; auto].
    destruct (tm st t); cbn in *; subst; reflexivity.
Qed.
Lemma unregister_other st t u : u <> t -> tm (unregister st t) u = tm st u.
Proof. apply unregister_tm. Qed.

Lemma run_step_other st tidx now dr u : u <> dr -> tm (fst (run_step st tidx now dr)) u = tm st u.
Proof.
  intros Nu. unfold run_step. destruct (t_after (tm st dr)).
  - cbn [fst]. rewrite tm_set_timer_neq, disarm_other by auto. reflexivity.
  - destruct (t_cfg (tm st dr)) as [cf|].
    + cbn [fst]. apply configure_other; auto.
    + destruct (nz _).
      * cbn [fst]. rewrite tm_set_timer_neq, disarm_other by auto. reflexivity.
      * destruct (compute_missed _ _ _ _ _) as [[cnt tg] dl]. destruct (needs_rearm _); cbn [fst].
        -- rewrite tm_set_timer_neq, arm_other, tm_set_timer_neq by auto. reflexivity.
        -- rewrite tm_set_timer_neq, disarm_other, tm_set_timer_neq by auto. reflexivity.
Qed.

Lemma program_if_needed_tm st i now : s_timers (fst (program_if_needed st i now)) = s_timers st.
Proof.
  unfold program_if_needed. destruct (h_np _); [|reflexivity]. unfold program.
  destruct (get_delay st i now) as [d l]. destruct (d =? 0); destruct (_ || _); reflexivity.
Qed.

(* ================================================================================================ *)
(* a relation established by every iteration of _dispatch_timers_run holds across the manager's whole pass *)
Section DrainRel.
Variable N : Z.
Hypothesis HN : 0 <= N /\ 2 * N + 2 <= CAPMAX.
Notation GInv := (GInv N).
Variable R : state -> state -> list fire -> Prop.
Hypothesis R_refl : forall st, R st st [].
Hypothesis R_trans : forall a b c e1 e2, R a b e1 -> R b c e2 -> R a c (e1 ++ e2).
Hypothesis R_tm : forall st st', s_timers st' = s_timers st -> R st st' [].
Hypothesis R_step : forall st tidx now, GInv st -> h_slot (s_heaps st tidx) 0 <> 0 ->
  R st (fst (run_step st tidx now (h_slot (s_heaps st tidx) 0))) (snd (run_step st tidx now (h_slot (s_heaps st tidx) 0))).

Lemma run_loop_rel : forall fuel st ev0 tidx now, GInv st ->
  exists st' e fin, run_loop fuel st tidx now ev0 = (st', ev0 ++ e, fin) /\ GInv st' /\ R st st' e.
Proof.
  induction fuel as [|fuel IH]; intros st ev0 tidx now G; cbn [run_loop].
  - exists st, [], false. rewrite app_nil_r. auto.
  - unfold DTH_TARGET_ID.
    destruct (Z.eqb_spec (h_slot (s_heaps st tidx) 0) 0) as [Z0|Nm]; [exists st, [], true; rewrite app_nil_r; auto|].
    destruct (t_target (tm st (h_slot (s_heaps st tidx) 0)) >? now); [exists st, [], true; rewrite app_nil_r; auto|].
    pose proof (run_step_G N HN st tidx now G Nm) as G1. pose proof (R_step st tidx now G Nm) as R1.
    destruct (run_step st tidx now _) as [st1 e1]. cbn [fst snd] in *.
    destruct (IH st1 (ev0 ++ e1) tidx now G1) as (st' & e & fin & E & G' & R').
    exists st', (e1 ++ e), fin. rewrite E, app_assoc. split; [reflexivity|]. split; auto. eapply R_trans; eauto.
Qed.

Lemma timers_run_rel st tidx now : GInv st ->
  exists st' e fin, timers_run st tidx now = (st', e, fin) /\ GInv st' /\ R st st' e.
Proof. intros G. unfold timers_run. apply (run_loop_rel _ st [] tidx now G). Qed.

Lemma drain_pass_rel st nows : GInv st ->
  exists st' e c fin, drain_pass st nows = (st', e, c, fin) /\ GInv st' /\ R st st' e.
Proof.
  intros G. unfold drain_pass, run_all, program_all.
  destruct (timers_run_rel st 0 (nows 0) G) as (s0 & e0 & f0 & E0 & G0 & R0). rewrite E0.
  destruct (timers_run_rel s0 1 (nows 1) G0) as (s1 & e1 & f1 & E1 & G1 & R1). rewrite E1.
  destruct (timers_run_rel s1 2 (nows 2) G1) as (s2 & e2 & f2 & E2 & G2 & R2). rewrite E2.
  pose proof (set_dirty_G N s2 false G2) as G3.
  pose proof (program_if_needed_G N _ 0 (nows 0) G3) as P0. pose proof (program_if_needed_tm (set_dirty s2 false) 0 (nows 0)) as T0.
  destruct (program_if_needed (set_dirty s2 false) 0 (nows 0)) as [p0 c0]. cbn [fst] in *.
  pose proof (program_if_needed_G N _ 1 (nows 1) P0) as P1. pose proof (program_if_needed_tm p0 1 (nows 1)) as T1.
  destruct (program_if_needed p0 1 (nows 1)) as [p1 c1]. cbn [fst] in *.
  pose proof (program_if_needed_G N _ 2 (nows 2) P1) as P2. pose proof (program_if_needed_tm p1 2 (nows 2)) as T2.
  destruct (program_if_needed p1 2 (nows 2)) as [p2 c2]. cbn [fst] in *.
  exists p2, (e0 ++ e1 ++ e2), (c0 ++ c1 ++ c2), (f0 && f1 && f2). split; [reflexivity|]. split; [exact P2|].
  assert (Tp : s_timers p2 = s_timers s2) by (rewrite T2, T1, T0; reflexivity).
  pose proof (R_trans _ _ _ _ _ R0 (R_trans _ _ _ _ _ R1 (R_trans _ _ _ _ _ R2 (R_tm s2 p2 Tp)))) as RR.
  rewrite app_nil_r in RR. exact RR.
Qed.

Lemma drain_rel nows : forall fuel st ev0 c0, GInv st ->
  exists st' e c fin, drain fuel st nows ev0 c0 = (st', ev0 ++ e, c, fin) /\ GInv st' /\ R st st' e.
Proof.
  induction fuel as [|fuel IH]; intros st ev0 c0 G; cbn [drain].
  - exists st, [], c0, false. rewrite app_nil_r. auto.
  - destruct (drain_pass_rel st nows G) as (s1 & e1 & c1 & fin & E & G1 & R1). rewrite E.
    destruct (negb fin); [exists s1, e1, (c0 ++ c1), false; auto|].
    destruct (s_dirty s1); [|exists s1, e1, (c0 ++ c1), true; auto].
    destruct (IH s1 (ev0 ++ e1) (c0 ++ c1) G1) as (st' & e & c & fin' & E' & G' & R').
    exists st', (e1 ++ e), c, fin'. rewrite E', app_assoc. split; [reflexivity|]. split; auto. eapply R_trans; eauto.
Qed.
End DrainRel.

(* ================================================================================================ *)
(* registration state: an armed unote is registered; a unote that was not unregistered has a heap index as ident *)
Record JL (x : timer) : Prop := {
  jl_arm : t_armed x = true -> t_reg x = 1;
  jl_id : t_reg x <> 2 -> t_ident x <> DISPATCH_TIMER_IDENT_CANCELED;
  jl_idr : t_armed x = true -> 0 <= t_ident x <= 2;           (* an armed timer's ident is the index of one of the three heaps *)
  jl_clk : 0 <= t_clock x <= 2;
  jl_cfg : match t_cfg x with Some (c, _, _, _) => 0 <= c <= 2 | None => True end
}.
Definition JInv (st : state) : Prop := forall u, JL (tm st u).

Lemma land3 a : 0 <= Z.land a 3 <= 3.
Proof. change (Z.land a 3) with (Z.land a (Z.ones 2)). rewrite Z.land_ones by lia. change (2 ^ 2) with 4. pose proof (Z.mod_pos_bound a 4 ltac:(lia)). lia. Qed.

Lemma JL_fresh flags : Z.land (Z.shiftr flags 2) 3 <= 2 -> JL (fresh_timer flags).
Proof.
  intros L2. unfold fresh_timer. pose proof (land3 (Z.shiftr flags 2)) as L. set (c := Z.land (Z.shiftr flags 2) 3) in *. clearbody c.
  constructor; cbn [t_armed t_reg t_ident t_clock t_cfg]; try discriminate; auto; try lia. intros _. unfold DISPATCH_TIMER_IDENT_CANCELED. lia.
Qed.

Lemma JL_resume st t :
  JL (tm st t) -> (needs_rearm (tm st t) = true -> t_reg (tm st t) = 1) -> JL (tm (resume st t) t).
Proof.
  intros J Hr. rewrite resume_tm. cbv zeta. set (x := tm st t) in *.
  destruct (needs_rearm x) eqn:W.
  - destruct (t_armed x && _); auto. destruct J as [Ja Ji Jr Jc Jf].
    constructor; cbn [t_armed t_reg t_ident t_clock t_cfg with_armed with_ident]; auto;
      intros _; unfold unote_idx, DISPATCH_TIMER_QOS_COUNT, DISPATCH_TIMER_IDENT_CANCELED; lia.
  - destruct (t_armed x); auto. destruct J as [Ja Ji Jr Jc Jf]. constructor; cbn; auto; discriminate.
Qed.

Lemma JL_configure st t : JInv st -> JInv (configure st t).
Proof.
  intros J u. destruct (Z.eq_dec u t) as [->|Nu]; [|rewrite configure_other by auto; apply J].
  destruct (t_cfg (tm st t)) as [[[[c tg] dl] itv]|] eqn:Cf; [|unfold configure; rewrite Cf; apply J].
  rewrite (configure_tm st t c tg dl itv Cf). cbv zeta.
  assert (J1 : JL (cfg_apply (tm st t) c tg dl itv)).
  { destruct (J t) as [Ja Ji Jr Jc Jf]. rewrite Cf in Jf. constructor; cbn; auto. }
  cbn [t_armed cfg_apply]. destruct (t_armed (tm st t)) eqn:A.
  - apply JL_resume; rewrite tm_set_timer_eq; auto. intros _. cbn. apply (J t). exact A.
  - rewrite tm_set_timer_eq. exact J1.
Qed.

Lemma JInv_set st t v : JInv st -> JL v -> JInv (set_timer st t v).
Proof. intros J Jv u. destruct (Z.eq_dec u t) as [->|Nu]; [rewrite tm_set_timer_eq|rewrite tm_set_timer_neq by auto]; auto. Qed.

Lemma JInv_disarm st t : JInv st -> JInv (disarm st t).
Proof.
  intros J u. rewrite disarm_tm. destruct (u =? t); auto. destruct (J t) as [Ja Ji Jr Jc Jf]. constructor; cbn; auto; discriminate.
Qed.

Lemma JL_pending x p : JL x -> JL (with_pending x p).
Proof. intros [Ja Ji Jr Jc Jf]. constructor; cbn; auto. Qed.
Lemma JL_values x a b c : JL x -> JL (with_values x a b c).
Proof. intros [Ja Ji Jr Jc Jf]. constructor; cbn; auto. Qed.
Lemma JL_susp x b : JL x -> JL (with_susp x b).
Proof. intros [Ja Ji Jr Jc Jf]. constructor; cbn; auto. Qed.

Lemma JInv_latch st t now : JInv st -> JInv (fst (latch st t now)).
Proof.
  intros J u. destruct (latch_tm st t now) as (tg & dl & E & O).
  destruct (Z.eq_dec u t) as [->|Nu]; [rewrite E; apply JL_values, JL_pending, J|rewrite O by auto; apply J].
Qed.

Lemma JInv_unregister st t : JInv st -> JInv (unregister st t).
Proof.
  intros J u. destruct (unregister_tm st t) as [E O].
  destruct (Z.eq_dec u t) as [->|Nu]; [rewrite E|rewrite O by auto; apply J].
  destruct (J t) as [Ja Ji Jr Jc Jf]. constructor; cbn; auto; try discriminate; try (intros X; contradiction X; reflexivity).
Qed.

Lemma JInv_run_step st tidx now dr :
  JInv st -> t_armed (tm st dr) = true -> JInv (fst (run_step st tidx now dr)).
Proof.
  intros J A. unfold run_step. destruct (t_after (tm st dr)).
  - cbn [fst]. apply JInv_set; [apply JInv_disarm; auto|]. rewrite disarm_tm, Z.eqb_refl.
    destruct (J dr) as [Ja Ji Jr Jc Jf]. constructor; cbn; auto; try discriminate; try (intros X; contradiction X; reflexivity).
  - destruct (t_cfg (tm st dr)) as [cf|] eqn:Cf.
    + cbn [fst]. apply JL_configure; auto.
    + destruct (nz _).
      * cbn [fst]. apply JInv_set; [apply JInv_disarm; auto|]. apply JL_pending. apply JInv_disarm; auto.
      * destruct (compute_missed _ _ _ _ _) as [[cnt tg] dl].
        set (x1 := with_values (tm st dr) tg dl (t_interval (tm st dr))).
        assert (J1 : JInv (set_timer st dr x1)) by (apply JInv_set; auto; apply JL_values, J).
        rewrite tm_set_timer_eq. destruct (needs_rearm x1); cbn [fst].
        -- assert (J2 : JInv (arm (set_timer st dr x1) dr tidx)).
           { intros u. rewrite arm_tm, tm_set_timer_eq. unfold x1 at 1. cbn [t_armed with_values]. rewrite A. apply J1. }
           apply JInv_set; auto. apply JL_pending, J2.
        -- apply JInv_set; [apply JInv_disarm; auto|]. apply JL_pending. apply JInv_disarm; auto.
Qed.

(* fields that resume / configure / latch never touch *)
Lemma resume_reg st t u : t_reg (tm (resume st t) u) = t_reg (tm st u).
Proof.
  destruct (Z.eq_dec u t) as [->|Nu]; [|rewrite resume_other by auto; reflexivity].
  rewrite resume_tm. cbv zeta. destruct (needs_rearm _); [destruct (_ && _)|destruct (t_armed _)]; reflexivity.
Qed.
Lemma configure_keeps st t u :
  t_after (tm (configure st t) u) = t_after (tm st u) /\ t_susp (tm (configure st t) u) = t_susp (tm st u) /\
  t_reg (tm (configure st t) u) = t_reg (tm st u) /\
  (t_cfg (tm st u) = None -> t_cfg (tm (configure st t) u) = None) /\
  (t_armed (tm st t) = false -> t_armed (tm (configure st t) u) = t_armed (tm st u)).
Proof.
  destruct (Z.eq_dec u t) as [->|Nu]; [|rewrite configure_other by auto; tauto].
  destruct (t_cfg (tm st t)) as [[[[c tg] dl] itv]|] eqn:Cf; [|unfold configure; rewrite Cf; tauto].
  rewrite (configure_tm st t c tg dl itv Cf). cbv zeta. cbn [t_armed cfg_apply].
  destruct (t_armed (tm st t)) eqn:A.
  - destruct (resume_vals (set_timer st t (cfg_apply (tm st t) c tg dl itv)) t t) as (_ & Ea & _ & _ & _ & _ & Ec & Es).
    rewrite Ea, Es, Ec, resume_reg, tm_set_timer_eq. cbn. repeat split; auto; discriminate.
  - rewrite tm_set_timer_eq. cbn. repeat split; auto.
Qed.
Lemma latch_keeps st t now u :
  let x' := tm (fst (latch st t now)) u in let x := tm st u in
  t_after x' = t_after x /\ t_susp x' = t_susp x /\ t_reg x' = t_reg x /\ t_cfg x' = t_cfg x /\ t_armed x' = t_armed x /\
  t_ident x' = t_ident x /\ t_clock x' = t_clock x /\ (u = t -> t_pending x' = 0).
Proof.
  cbv zeta. destruct (latch_tm st t now) as (tg & dl & E & O).
  destruct (Z.eq_dec u t) as [->|Nu]; [rewrite E; cbn; tauto|rewrite O by auto; repeat split; auto; contradiction].
Qed.

Lemma top1_ext n st o : external o -> top1 st o = fst (tstep n st o).
Proof.
  unfold top1. destruct o; cbn [external]; try contradiction; intros _; try reflexivity;
    try (cbn [tstep]; destruct (latch st t now); reflexivity).
Qed.

(* ================================================================================================ *)
Section XSys.
Variable N : Z.
Hypothesis HN : 0 <= N /\ 2 * N + 2 <= CAPMAX.
Notation SVInv := (SVInv N).

Lemma top1_SV st o : SVInv st -> guard N st o -> guardV st o -> external o -> SVInv (top1 st o).
Proof.
  intros S G1 G2 G3. rewrite (top1_ext N st o G3).
  exact (SVInv_step N HN N st (SOp o) ltac:(lia) S (conj G1 (conj G2 G3))).
Qed.

Definition wake_ok (xs : xstate) (u : Z) : Prop :=
  t_reg (tm (x_st xs) u) <> 0 -> t_susp (tm (x_st xs) u) = false ->
  wake_needed (tm (x_st xs) u) (x_canc xs u) = true -> x_enq xs u = true.
Definition after_ok (xs : xstate) (u : Z) : Prop :=
  t_after (tm (x_st xs) u) = true -> x_canc xs u = false /\ t_cfg (tm (x_st xs) u) = None.

Record XInvW (W : Z -> Prop) (xs : xstate) : Prop := {
  xi_sv : SVInv (x_st xs);
  xi_jl : JInv (x_st xs);
  xi_wake : forall u, W u -> wake_ok xs u;
  xi_after : forall u, after_ok xs u
}.
Definition XInv : xstate -> Prop := XInvW (fun _ => True).

Lemma x_wakeup_inv xs t : XInvW (fun u => u <> t) xs -> XInv (x_wakeup xs t).
Proof.
  intros [Sv Jl Wk Af]. constructor; auto.
  intros u _. unfold wake_ok, x_wakeup. cbn [x_st x_canc x_enq]. unfold updf.
  destruct (Z.eqb_spec u t) as [->|Nu].
  - intros _ _ ->. apply orb_true_r.
  - apply Wk; auto.
Qed.

Lemma XInvW_add xs t : XInvW (fun u => u <> t) xs -> wake_ok xs t -> XInv xs.
Proof.
  intros [Sv Jl Wk Af] Wt. constructor; auto. intros u _. destruct (Z.eq_dec u t) as [->|Nu]; auto.
Qed.

(* an operation that touches the record, the cancel flag and the wakeup flag of timer t only *)
Lemma XInv_local xs xs' t :
  XInv xs -> SVInv (x_st xs') ->
  (forall u, u <> t -> tm (x_st xs') u = tm (x_st xs) u /\ x_canc xs' u = x_canc xs u /\ x_enq xs' u = x_enq xs u) ->
  JL (tm (x_st xs') t) -> after_ok xs' t -> XInvW (fun u => u <> t) xs'.
Proof.
  intros [Sv Jl Wk Af] Sv' O Jt At. constructor; auto.
  - intros u. destruct (Z.eq_dec u t) as [->|Nu]; auto. destruct (O u Nu) as (-> & _). apply Jl.
  - intros u Nu. destruct (O u Nu) as (E1 & E2 & E3). unfold wake_ok. rewrite E1, E2, E3. apply Wk; auto.
  - intros u. destruct (Z.eq_dec u t) as [->|Nu]; auto. destruct (O u Nu) as (E1 & E2 & E3). unfold after_ok. rewrite E1, E2. apply Af.
Qed.

Definition xguard (xs : xstate) (o : xop) : Prop :=
  let st := x_st xs in
  match o with
  | XNew t flags => 1 <= t <= N /\ Z.land (Z.shiftr flags 2) 3 <= 2      (* one of the three clocks *)
  | XAfter t tg dl => 1 <= t <= N /\ t_after (tm st t) = true /\ t_reg (tm st t) = 0 /\ 1 <= tg < T64
  | XSetTimer t c tg dl itv => 1 <= t <= N /\ t_after (tm st t) = false /\ 0 <= c < 3 /\ 1 <= tg < T64 /\ 1 <= itv < T64
  | XActivate t => 1 <= t <= N /\ t_reg (tm st t) = 0
  | XSuspend t => 1 <= t <= N /\ t_reg (tm st t) <> 0 /\ t_susp (tm st t) = false
  | XResume t => 1 <= t <= N /\ t_reg (tm st t) <> 0 /\ t_susp (tm st t) = true
      (* single-level suspension: t_susp is a flag, not the suspend count of dq_state; a second dispatch_suspend before the
         matching dispatch_resume is outside the histories of the theorems *)
  | XCancel t => 1 <= t <= N /\ t_reg (tm st t) <> 0 /\ t_after (tm st t) = false
  | XInvoke t now => 1 <= t <= N /\ x_enq xs t = true /\ t_susp (tm st t) = false /\ 0 <= now < T63
  | XDrain fuel nows => (forall i, 0 <= i < 3 -> 0 <= nows i < T63) /\ N < Z.of_nat fuel
  | XExpire i => True
  end.

Lemma register_facts st t :
  JInv st -> t_reg (tm st t) = 0 ->
  JInv (register st t) /\ (forall u, u <> t -> tm (register st t) u = tm st u) /\
  t_after (tm (register st t) t) = t_after (tm st t) /\ t_susp (tm (register st t) t) = t_susp (tm st t) /\
  t_reg (tm (register st t) t) = 1 /\ (t_cfg (tm st t) = None -> t_cfg (tm (register st t) t) = None).
Proof.
  intros J R0. unfold register. rewrite R0. change (0 =? 1) with false. cbv iota.
  set (st1 := set_timer st t (with_armed (with_reg (tm st t) 1) false)).
  assert (T1 : tm st1 t = with_armed (with_reg (tm st t) 1) false) by apply tm_set_timer_eq.
  assert (J1 : JInv st1).
  { apply JInv_set; auto. destruct (J t) as [Ja Ji Jr Jc Jf]. constructor; cbn; auto; try discriminate. intros _. apply Ji. lia. }
  assert (O1 : forall u, u <> t -> tm st1 u = tm st u) by (intros; apply tm_set_timer_neq; auto).
  rewrite T1. cbn [t_cfg with_armed with_reg].
  destruct (t_cfg (tm st t)) eqn:Cf.
  - destruct (configure_keeps st1 t t) as (Ea & Es & Er & _ & _).
    split; [apply JL_configure; auto|]. split; [intros u Nu; rewrite configure_other by auto; auto|].
    rewrite Ea, Es, Er, T1. cbn. repeat split; auto; discriminate.
  - split; [exact J1|]. split; [exact O1|]. rewrite T1. cbn. auto.
Qed.

Lemma armed_false x : JL x -> t_reg x <> 1 -> t_armed x = false.
Proof. intros J R. destruct (t_armed x) eqn:A; auto. exfalso. apply R. apply J. exact A. Qed.

Lemma xstep_new xs t flags : XInv xs -> xguard xs (XNew t flags) -> XInv (fst (xstep xs (XNew t flags))).
Proof.
  intros X [Ht Hc]. cbn [xstep fst].
  apply (XInvW_add _ t).
  - apply (XInv_local xs _ t X); cbn [x_st x_canc x_enq].
    + apply top1_SV; cbn; auto. apply X.
    + intros u Nu. unfold updf. destruct (Z.eqb_spec u t); [contradiction|]. repeat split; auto.
      change (top1 (x_st xs) (TNew t flags)) with
        (set_timer (if t_armed (tm (x_st xs) t) then unregister (x_st xs) t else x_st xs) t (fresh_timer flags)).
      rewrite tm_set_timer_neq by auto. destruct (t_armed _); [apply unregister_other; auto|reflexivity].
    + change (top1 (x_st xs) (TNew t flags)) with
        (set_timer (if t_armed (tm (x_st xs) t) then unregister (x_st xs) t else x_st xs) t (fresh_timer flags)).
      rewrite tm_set_timer_eq. apply JL_fresh; auto.
    + unfold after_ok. cbn [x_st x_canc]. unfold updf. rewrite Z.eqb_refl. intros _. split; auto.
      change (top1 (x_st xs) (TNew t flags)) with
        (set_timer (if t_armed (tm (x_st xs) t) then unregister (x_st xs) t else x_st xs) t (fresh_timer flags)).
      rewrite tm_set_timer_eq. reflexivity.
  - unfold wake_ok. cbn [x_st].
    change (top1 (x_st xs) (TNew t flags)) with
      (set_timer (if t_armed (tm (x_st xs) t) then unregister (x_st xs) t else x_st xs) t (fresh_timer flags)).
    rewrite tm_set_timer_eq. intros R. contradiction R. reflexivity.
Qed.

(* an operation that replaces the record of timer t by v and keeps the flags *)
Lemma xstep_set xs t v (o : top) :
  XInv xs -> top1 (x_st xs) o = set_timer (x_st xs) t v ->
  guard N (x_st xs) o -> guardV (x_st xs) o -> external o ->
  JL v -> (t_after v = true -> t_after (tm (x_st xs) t) = true /\ t_cfg v = t_cfg (tm (x_st xs) t)) ->
  XInvW (fun u => u <> t) (mkX (top1 (x_st xs) o) (x_canc xs) (x_enq xs)).
Proof.
  intros X E G1 G2 G3 Jv Av.
  apply (XInv_local xs _ t X); cbn [x_st x_canc x_enq].
  - apply top1_SV; auto. apply X.
  - intros u Nu. rewrite E, tm_set_timer_neq by auto. auto.
  - rewrite E, tm_set_timer_eq. exact Jv.
  - unfold after_ok. cbn [x_st x_canc]. rewrite E, tm_set_timer_eq. intros A. destruct (Av A) as [A0 C0].
    rewrite C0. apply (xi_after _ _ X t A0).
Qed.

Lemma xstep_after xs t tg dl : XInv xs -> xguard xs (XAfter t tg dl) -> XInv (fst (xstep xs (XAfter t tg dl))).
Proof.
  intros X (Ht & Af & R0 & Tg). cbn [xstep fst].
  assert (A0 : t_armed (tm (x_st xs) t) = false) by (apply armed_false; [apply X|lia]).
  apply (XInvW_add _ t).
  - apply (xstep_set xs t (with_values (tm (x_st xs) t) tg dl UINT64_MAX)); cbn; auto.
    + apply JL_values. apply X.
  - unfold wake_ok. cbn [x_st]. change (top1 (x_st xs) (TAfter t tg dl)) with (set_timer (x_st xs) t (with_values (tm (x_st xs) t) tg dl UINT64_MAX)).
    rewrite tm_set_timer_eq. cbn. intros R. contradiction.
Qed.

Lemma xstep_settimer xs t c tg dl itv :
  XInv xs -> xguard xs (XSetTimer t c tg dl itv) -> XInv (fst (xstep xs (XSetTimer t c tg dl itv))).
Proof.
  intros X (Ht & Af & Hc & Tg & Itv). cbn [xstep fst]. apply x_wakeup_inv.
  apply (xstep_set xs t (with_cfg (tm (x_st xs) t) (Some (c, tg, dl, itv)))); cbn; auto.
  - destruct (xi_jl _ _ X t) as [Ja Ji Jr Jc Jf]. constructor; cbn; auto. lia.
  - intros A. congruence.
Qed.

Lemma xstep_suspend xs t : XInv xs -> xguard xs (XSuspend t) -> XInv (fst (xstep xs (XSuspend t))).
Proof.
  intros X (Ht & R & _). cbn [xstep fst]. apply (XInvW_add _ t).
  - apply (xstep_set xs t (with_susp (tm (x_st xs) t) true)); cbn; auto. apply JL_susp, X.
  - unfold wake_ok. cbn [x_st]. change (top1 (x_st xs) (TSusp t 1)) with (set_timer (x_st xs) t (with_susp (tm (x_st xs) t) true)).
    rewrite tm_set_timer_eq. cbn. discriminate.
Qed.

Lemma xstep_resume xs t : XInv xs -> xguard xs (XResume t) -> XInv (fst (xstep xs (XResume t))).
Proof.
  intros X (Ht & R & _). cbn [xstep fst]. apply x_wakeup_inv.
  apply (xstep_set xs t (with_susp (tm (x_st xs) t) false)); cbn; auto. apply JL_susp, X.
Qed.

Lemma xstep_cancel xs t : XInv xs -> xguard xs (XCancel t) -> XInv (fst (xstep xs (XCancel t))).
Proof.
  intros X (Ht & R & Af). cbn [xstep fst]. apply x_wakeup_inv.
  apply (XInv_local xs _ t X); cbn [x_st x_canc x_enq]; try apply X.
  - intros u Nu. unfold updf. destruct (Z.eqb_spec u t); [contradiction|auto].
  - unfold after_ok. cbn [x_st]. congruence.
Qed.

Lemma xstep_activate xs t : XInv xs -> xguard xs (XActivate t) -> XInv (fst (xstep xs (XActivate t))).
Proof.
  intros X (Ht & R0). cbn [xstep fst]. apply x_wakeup_inv.
  assert (A0 : t_armed (tm (x_st xs) t) = false) by (apply armed_false; [apply X|lia]).
  destruct (register_facts (x_st xs) t (xi_jl _ _ X) R0) as (J' & O & Ea & Es & Er & Ec).
  change (top1 (x_st xs) (TReg t)) with (register (x_st xs) t).
  apply (XInv_local xs _ t X); cbn [x_st x_canc x_enq]; auto.
  - change (register (x_st xs) t) with (top1 (x_st xs) (TReg t)). apply top1_SV; cbn; auto. apply X.
  - unfold after_ok. cbn [x_st x_canc]. rewrite Ea. intros A. destruct (xi_after _ _ X t A) as [C0 Cf]. auto.
Qed.

Lemma xstep_expire xs i : XInv xs -> XInv (fst (xstep xs (XExpire i))).
Proof.
  intros [Sv Jl Wk Af]. cbn [xstep fst]. constructor; auto.
  cbn [x_st]. exact (SVInv_step N HN N _ (SExpire i) ltac:(lia) Sv I).
Qed.

Lemma top1_latch st t now : top1 st (TLatch t now) = fst (latch st t now).
Proof. unfold top1. cbn [tstep]. destruct (latch st t now); reflexivity. Qed.

Lemma invoke_keep xs t st' :
  XInv xs -> x_enq xs t = true -> SVInv st' -> JInv st' ->
  (forall u, u <> t -> tm st' u = tm (x_st xs) u) ->
  (t_after (tm st' t) = true ->
     t_after (tm (x_st xs) t) = true /\ (t_cfg (tm (x_st xs) t) = None -> t_cfg (tm st' t) = None)) ->
  XInv (mkX st' (x_canc xs) (x_enq xs)).
Proof.
  intros X En Sv Jv O Av. apply (XInvW_add _ t).
  - apply (XInv_local xs _ t X); cbn [x_st x_canc x_enq]; auto.
    unfold after_ok. cbn [x_st x_canc]. intros A. destruct (Av A) as [A0 Cn]. destruct (xi_after _ _ X t A0) as [C0 Cf]. auto.
  - unfold wake_ok. cbn [x_enq]. auto.
Qed.

Lemma xstep_invoke xs t now : XInv xs -> xguard xs (XInvoke t now) -> XInv (fst (xstep xs (XInvoke t now))).
Proof.
  intros X (Ht & En & Su & Hn). cbn [xstep fst]. unfold invoke_step.
  pose proof (xi_sv _ _ X) as Sv. pose proof (xi_jl _ _ X) as Jl.
  set (st := x_st xs) in *. set (x := tm st t) in *.
  destruct (Z.eqb_spec (t_reg x) 0) as [R0|R0].
  { (* install *)
    assert (A0 : t_armed x = false) by (apply armed_false; [apply Jl|lia]).
    destruct (register_facts st t Jl R0) as (J' & O & Ea & Es & Er & Ec).
    apply (invoke_keep xs t); auto.
    - change (register st t) with (top1 st (TReg t)). apply top1_SV; cbn; auto.
    - rewrite Ea. auto. }
  fold x in Su. rewrite Su.
  destruct (x_canc xs t) eqn:C; cbn [negb andb].
  - (* cancelled *)
    destruct (Z.eqb_spec (t_reg x) 2) as [R2|R2]; cbn [negb].
    + (* nothing left *)
      apply (XInvW_add _ t).
      * apply (XInv_local xs _ t X); cbn [x_st x_canc x_enq];
          [exact Sv|intros u Nu; unfold updf; destruct (Z.eqb_spec u t); [contradiction|auto]|apply Jl|apply (xi_after _ _ X t)].
      * unfold wake_ok. cbn [x_st x_canc x_enq]. fold st. fold x. rewrite C. unfold wake_needed.
        destruct (Z.eqb_spec (t_reg x) 0); [contradiction|]. cbn [negb andb]. rewrite R2. cbn. discriminate.
    + (* unregister *)
      destruct (unregister_tm st t) as [E O].
      apply (invoke_keep xs t); auto.
      * change (unregister st t) with (top1 st (TUnreg t)). apply top1_SV; cbn; auto.
      * apply JInv_unregister; auto.
      * rewrite E. cbn. intros A. destruct (xi_after _ _ X t A) as [C0 _]. congruence.
  - (* not cancelled *)
    destruct (has_cfg x) eqn:Hc.
    + (* configure *)
      destruct (configure_keeps st t t) as (Ea & Es & Er & Ec & _).
      apply (invoke_keep xs t); auto.
      * change (configure st t) with (top1 st (TConfigure t)). apply top1_SV; cbn; auto.
      * apply JL_configure; auto.
      * intros u Nu. apply configure_other; auto.
      * rewrite Ea. auto.
    + destruct (nz (t_pending x)) eqn:Pn.
      * (* latch and call *)
        unfold latch_and_call. set (st1 := fst (latch st t now)).
        assert (Sv1 : SVInv st1).
        { unfold st1. rewrite <- top1_latch. apply top1_SV; cbn; auto. }
        assert (J1 : JInv st1) by (apply JInv_latch; auto).
        destruct (latch_tm st t now) as (tg & dl & E1 & O1). fold st1 in E1, O1.
        destruct (latch_keeps st t now t) as (Ea & Es & Er & Ec & _). cbv zeta in *. fold st1 in Ea, Es, Er, Ec.
        destruct (nz (Z.land _ _) && has_cfg (tm st1 t)).
        -- destruct (configure_keeps st1 t t) as (Ea2 & Es2 & Er2 & Ec2 & _).
           apply (invoke_keep xs t); auto.
           ++ change (configure st1 t) with (top1 st1 (TConfigure t)). apply top1_SV; cbn; auto.
           ++ apply JL_configure; auto.
           ++ intros u Nu. rewrite configure_other by auto. auto.
           ++ rewrite Ea2, Ea. intros A. split; auto. intros Cn. apply Ec2. rewrite Ec. exact Cn.
        -- apply (invoke_keep xs t); auto. rewrite Ea. intros A. split; auto. intros Cn. rewrite Ec. exact Cn.
      * destruct (refs_needs_rearm x) eqn:Rr.
        -- (* rearm *)
           unfold refs_needs_rearm in Rr. rewrite Hc in Rr.
           assert (R1 : t_reg x = 1) by lia.
           assert (P0 : t_pending x = 0) by (unfold nz in Pn; lia).
           destruct (resume_vals st t t) as (_ & Ea & _ & _ & _ & _ & Ec & _).
           apply (invoke_keep xs t); auto.
           ++ change (resume st t) with (top1 st (TResume t)). apply top1_SV; cbn; auto. fold st. fold x. rewrite P0. auto.
           ++ intros u. destruct (Z.eq_dec u t) as [->|Nu]; [apply JL_resume; auto|rewrite resume_other by auto; auto].
           ++ intros u Nu. apply resume_other; auto.
           ++ rewrite Ea, Ec. auto.
        -- (* nothing left *)
           apply (XInvW_add _ t).
           ++ apply (XInv_local xs _ t X); cbn [x_st x_canc x_enq];
                [exact Sv|intros u Nu; unfold updf; destruct (Z.eqb_spec u t); [contradiction|auto]|apply Jl|apply (xi_after _ _ X t)].
           ++ unfold wake_ok. cbn [x_st x_canc x_enq]. fold st. fold x. rewrite C. unfold wake_needed.
              destruct (Z.eqb_spec (t_reg x) 0); [contradiction|]. cbn [negb andb]. rewrite Hc, Pn, Rr. discriminate.
Qed.

(* ---- the manager's pass *)
Lemma run_step_fields st tidx now dr :
  t_armed (tm st dr) = true ->
  let rs := run_step st tidx now dr in
  let x' := tm (fst rs) dr in let x := tm st dr in
  t_susp x' = t_susp x /\ t_after x' = t_after x /\ (t_cfg x = None -> t_cfg x' = None) /\
  (In dr (map fire_timer (snd rs)) \/ has_cfg x = true).
Proof.
  intros A. cbv zeta. unfold run_step. destruct (t_after (tm st dr)) eqn:Af.
  - cbn [fst snd]. rewrite tm_set_timer_eq, disarm_tm, Z.eqb_refl. cbn. repeat split; auto; left; left; reflexivity.
  - destruct (t_cfg (tm st dr)) as [cf|] eqn:Cf.
    + cbn [fst snd]. destruct (configure_keeps st dr dr) as (Ea & Es & _ & Ec & _).
      rewrite Ea, Es, Af. repeat split; auto; try discriminate. right. unfold has_cfg. rewrite Cf. reflexivity.
    + destruct (nz _).
      * cbn [fst snd]. rewrite tm_set_timer_eq, disarm_tm, Z.eqb_refl. cbn. repeat split; auto; left; left; reflexivity.
      * destruct (compute_missed _ _ _ _ _) as [[cnt tg] dl].
        rewrite tm_set_timer_eq. destruct (needs_rearm _); cbn [fst snd].
        -- rewrite tm_set_timer_eq, arm_tm, tm_set_timer_eq. cbn [t_armed with_values]. rewrite A. cbn. repeat split; auto; left; left; reflexivity.
        -- rewrite tm_set_timer_eq, disarm_tm, Z.eqb_refl, tm_set_timer_eq. cbn. repeat split; auto; left; left; reflexivity.
Qed.

Definition RC (st st' : state) (e : list fire) : Prop :=
  forall u, let x' := tm st' u in let x := tm st u in
    t_susp x' = t_susp x /\ t_after x' = t_after x /\ (t_cfg x = None -> t_cfg x' = None) /\
    (x' = x \/ In u (map fire_timer e) \/ (has_cfg x = true /\ t_armed x = true)).

Lemma drain_RC fuel st nows :
  GInv N st -> exists st' e c fin, drain fuel st nows [] [] = (st', e, c, fin) /\ RC st st' e /\ (JInv st -> JInv st').
Proof.
  intros G.
  destruct (drain_rel N HN (fun a b e => RC a b e /\ (JInv a -> JInv b))) with (nows := nows) (fuel := fuel) (st := st) (ev0 := @nil fire) (c0 := @nil kcall)
    as (st' & e & c & fin & E & _ & R); auto.
  - intros a. split; auto. intros u. cbv zeta. auto.
  - intros a b c e1 e2 [R1 J1] [R2 J2]. split; auto. intros u. cbv zeta.
    destruct (R1 u) as (S1 & A1 & C1 & D1). destruct (R2 u) as (S2 & A2 & C2 & D2). cbv zeta in *.
    split; [congruence|]. split; [congruence|]. split; [auto|]. rewrite map_app.
    destruct D1 as [D1|[D1|D1]]; [|right; left; apply in_or_app; auto|auto].
    rewrite D1 in *. destruct D2 as [D2|[D2|D2]]; auto. right; left; apply in_or_app; auto.
  - intros a b Tm. split; [|intros J u; unfold tm; rewrite Tm; apply J].
    intros u. cbv zeta. unfold tm. rewrite Tm. auto.
  - intros a tidx now Ga Nm. set (dr := h_slot (s_heaps a tidx) 0).
    destruct (min_member N a tidx Ga Nm) as [Nz [A Id]]. fold dr in A.
    split; [|intros J; apply JInv_run_step; auto].
    intros u. cbv zeta. destruct (Z.eq_dec u dr) as [->|Nu].
    + destruct (run_step_fields a tidx now dr A) as (Es & Ea & Ec & D). cbv zeta in D.
      repeat split; auto. destruct D; auto.
    + rewrite run_step_other by auto. auto.
  - exists st', e, c, fin. auto.
Qed.

Lemma fold_wakeup : forall ev xs,
  let xs' := fold_left (fun s e => x_wakeup s (fire_timer e)) ev xs in
  x_st xs' = x_st xs /\ x_canc xs' = x_canc xs /\ (forall u, x_enq xs u = true -> x_enq xs' u = true) /\
  (forall u, In u (map fire_timer ev) -> wake_needed (tm (x_st xs) u) (x_canc xs u) = true -> x_enq xs' u = true).
Proof.
  induction ev as [|e r IH]; intros xs; cbn [fold_left map].
  - repeat split; auto; intros u [].
  - destruct (IH (x_wakeup xs (fire_timer e))) as (E1 & E2 & M & F). cbv zeta in *.
    cbn [x_wakeup x_st x_canc x_enq] in *.
    split; [exact E1|]. split; [exact E2|]. split.
    + intros u Hu. apply M. unfold x_wakeup; cbn [x_enq]. unfold updf. destruct (Z.eqb_spec u (fire_timer e)) as [->|]; auto.
      rewrite Hu. reflexivity.
    + intros u [Hu|Hu] W; [|apply F; auto].
      apply M. unfold x_wakeup; cbn [x_enq]. unfold updf. rewrite Hu, Z.eqb_refl, W. apply orb_true_r.
Qed.

Lemma xstep_drain xs fuel nows : XInv xs -> xguard xs (XDrain fuel nows) -> XInv (fst (xstep xs (XDrain fuel nows))).
Proof.
  intros [Sv Jl Wk Af] [Hn Hf]. cbn [xstep].
  destruct (manager_pass_total N HN fuel (x_st xs) nows Hn Sv Hf) as (st' & ev & calls & E & Sv' & _).
  destruct Sv as [[G QD] V].
  destruct (drain_RC fuel (x_st xs) nows G) as (st2 & e2 & c2 & fin2 & E2 & Rc & Jv).
  rewrite E in E2. inversion E2; subst st2 e2 c2 fin2. rewrite E. cbn [fst].
  destruct (fold_wakeup ev (mkX st' (x_canc xs) (x_enq xs))) as (F1 & F2 & M & F). cbv zeta in *. cbn [x_st x_canc x_enq] in *.
  set (xs' := fold_left _ ev _) in *.
  constructor.
  - rewrite F1. exact Sv'.
  - rewrite F1. auto.
  - intros u _. unfold wake_ok. rewrite F1, F2. destruct (Rc u) as (Es & Ea & Ec & D). cbv zeta in *.
    intros R S W. destruct D as [D|[D|[Hc A]]].
    + apply M. apply Wk; auto; rewrite <- D; auto.
    + apply F; auto.
    + apply M. apply Wk; auto.
      * rewrite (jl_arm _ (Jl u) A). lia.
      * congruence.
      * unfold wake_needed. rewrite (jl_arm _ (Jl u) A), Hc. cbn. destruct (x_canc xs u); reflexivity.
  - intros u. unfold after_ok. rewrite F1, F2. destruct (Rc u) as (Es & Ea & Ec & D). cbv zeta in *.
    rewrite Ea. intros A. destruct (Af u A) as [C0 Cf]. auto.
Qed.

Theorem xstep_inv xs o : XInv xs -> xguard xs o -> XInv (fst (xstep xs o)).
Proof.
  intros X Gd. destruct o.
  - apply xstep_new; auto.
  - apply xstep_after; auto.
  - apply xstep_settimer; auto.
  - apply xstep_activate; auto.
  - apply xstep_suspend; auto.
  - apply xstep_resume; auto.
  - apply xstep_cancel; auto.
  - apply xstep_invoke; auto.
  - apply xstep_drain; auto.
  - apply xstep_expire; auto.
Qed.

Lemma XInv_init : XInv x_init.
Proof.
  constructor; cbn [x_init x_st x_canc x_enq].
  - apply SVInv_init; auto.
  - intros u. apply (JL_fresh 0). vm_compute. discriminate.
  - intros u _ R. contradiction R. reflexivity.
  - intros u A. discriminate.
Qed.

Fixpoint xvalid (xs : xstate) (l : list xop) : Prop :=
  match l with [] => True | o :: r => xguard xs o /\ xvalid (fst (xstep xs o)) r end.

Theorem XInv_reachable : forall l xs, XInv xs -> xvalid xs l -> XInv (fst (xrun xs l)).
Proof.
  induction l as [|o r IH]; intros xs X V; cbn [xrun xvalid fst] in *; auto.
  destruct V as [Gd V]. pose proof (xstep_inv xs o X Gd) as X1.
  destruct (xstep xs o) as [xs1 e1]. cbn [fst] in *. specialize (IH xs1 X1 V).
  destruct (xrun xs1 r) as [xs2 e2]. exact IH.
Qed.

(* ================================================================================================ *)
(* a timer that should be running: its unote is registered (dispatch_activate happened, no cancel / one-shot
   unregistration since), the source is not cancelled and not suspended, and the target is finite *)
Definition running (xs : xstate) (t : Z) : Prop :=
  let x := tm (x_st xs) t in
  t_reg x = 1 /\ x_canc xs t = false /\ t_susp x = false /\ t_target x < INT64_MAX.

Lemma running_needs_rearm xs t : XInv xs -> running xs t -> needs_rearm (tm (x_st xs) t) = true.
Proof.
  intros X (R1 & C & S & Tg). unfold needs_rearm. rewrite S.
  pose proof (jl_id _ (xi_jl _ _ X t) ltac:(lia)) as Id.
  destruct (Z.eqb_spec (t_ident (tm (x_st xs) t)) DISPATCH_TIMER_IDENT_CANCELED); [contradiction|].
  destruct (Z.ltb_spec (t_target (tm (x_st xs) t)) INT64_MAX); [reflexivity|lia].
Qed.

(* the re-arm rule: a running timer that is not in its heap has a wakeup pending *)
Theorem rearm_pending xs t :
  XInv xs -> running xs t -> t_armed (tm (x_st xs) t) = true \/ x_enq xs t = true.
Proof.
  intros X (R1 & C & S & Tg). destruct (t_armed (tm (x_st xs) t)) eqn:A; auto. right.
  apply (xi_wake _ _ X t I); auto; [lia|].
  unfold wake_needed, refs_needs_rearm. rewrite R1, C, A. cbn [Z.eqb Pos.eqb negb andb].
  destruct (has_cfg _); [reflexivity|]. destruct (nz _); [reflexivity|].
  destruct (Z.ltb_spec (t_target (tm (x_st xs) t)) INT64_MAX); [reflexivity|lia].
Qed.

(* ... and the timer is then covered as TimerSys_proofs.always_fires says *)
Theorem always_fires_src xs t :
  XInv xs -> running xs t ->
  let st := x_st xs in let i := t_ident (tm st t) in
  x_enq xs t = true \/
  (member st i t /\ 0 <= i < 3 /\ (s_dirty st = true \/ (s_harmed st i = true /\ s_ktimer st i <= t_target (tm st t)))).
Proof.
  intros X Rn. cbv zeta. destruct (rearm_pending xs t X Rn) as [A|E]; auto. right.
  pose proof (jl_idr _ (xi_jl _ _ X t) A) as Ir.
  destruct (xi_sv _ _ X) as [S V]. pose proof S as [G _].
  assert (M : member (x_st xs) (t_ident (tm (x_st xs) t)) t).
  { split; [|auto]. pose proof (gi_ids _ _ G t A). lia. }
  split; auto. split; [lia|]. apply (always_fires N); auto. lia.
Qed.

(* progress of the pending wakeup: the invokes it stands for (with no other operation on the source in between)
   put a running timer into its heap within three actions, unless the handler's catch-up (source.c:521) moved the
   target of a one-shot timer to "never" *)
Definition inv3 (xs : xstate) (t n1 n2 n3 : Z) : xstate :=
  invoke_step (invoke_step (invoke_step xs t n1) t n2) t n3.

Lemma invoke_step_other xs t now u : u <> t -> tm (x_st (invoke_step xs t now)) u = tm (x_st xs) u.
Proof.
  intros Nu. unfold invoke_step.
  repeat match goal with |- context [if ?b then _ else _] => destruct b end; cbn [x_st]; auto;
    try (apply configure_other; auto); try (apply unregister_other; auto); try (apply resume_other; auto).
  - unfold register. destruct (_ =? 1); [|rewrite ?tm_set_timer_neq by auto];
      (destruct (t_cfg _); [rewrite configure_other by auto|]; rewrite ?tm_set_timer_neq by auto; reflexivity).
  - unfold latch_and_call. destruct (latch_tm (x_st xs) t now) as (tg & dl & _ & O).
    destruct (_ && _); [rewrite configure_other by auto|]; apply O; auto.
Qed.

Definition live (xs : xstate) (t : Z) : Prop :=
  let x := tm (x_st xs) t in t_reg x = 1 /\ x_canc xs t = false /\ t_susp x = false /\ x_enq xs t = true.
Definition settled (xs : xstate) (t : Z) : Prop :=
  let x := tm (x_st xs) t in t_armed x = true \/ INT64_MAX <= t_target x.

Lemma invoke_step_live xs t now :
  live xs t ->
  invoke_step xs t now =
  let st := x_st xs in let x := tm st t in
  if has_cfg x then mkX (configure st t) (x_canc xs) (x_enq xs)
  else if nz (t_pending x) then mkX (latch_and_call st t now) (x_canc xs) (x_enq xs)
  else if refs_needs_rearm x then mkX (resume st t) (x_canc xs) (x_enq xs)
  else mkX st (x_canc xs) (updf (x_enq xs) t false).
Proof.
  intros (R1 & C & S & _). unfold invoke_step. cbv zeta. rewrite R1, C, S. cbn [Z.eqb Pos.eqb negb andb]. reflexivity.
Qed.

(* no configuration and no data pending: at most the rearm remains *)
Lemma progress_base xs t now :
  XInv xs -> 1 <= t <= N -> 0 <= now < T63 -> live xs t ->
  has_cfg (tm (x_st xs) t) = false -> t_pending (tm (x_st xs) t) = 0 ->
  settled xs t \/ (xguard xs (XInvoke t now) /\ settled (fst (xstep xs (XInvoke t now))) t).
Proof.
  intros X Ht Hn L Hc P0. pose proof L as (R1 & C & S & En).
  destruct (t_armed (tm (x_st xs) t)) eqn:A; [left; left; exact A|].
  destruct (Z.lt_ge_cases (t_target (tm (x_st xs) t)) INT64_MAX) as [Tg|Tg]; [|left; right; exact Tg].
  right. split; [cbn; auto|]. cbn [xstep fst]. rewrite (invoke_step_live xs t now L). cbv zeta.
  rewrite Hc, P0. cbn [nz Z.eqb negb]. unfold refs_needs_rearm. rewrite Hc, R1, A.
  destruct (Z.ltb_spec (t_target (tm (x_st xs) t)) INT64_MAX); [|lia]. cbn [Z.eqb Pos.eqb negb andb].
  left. cbn [x_st]. destruct (resume_armed (x_st xs) t) as [E _]. rewrite E.
  apply running_needs_rearm; auto. repeat split; auto.
Qed.

Theorem invoke_progress xs t n1 n2 :
  XInv xs -> 1 <= t <= N -> 0 <= n1 < T63 -> 0 <= n2 < T63 -> live xs t ->
  exists l, (l = [] \/ l = [XInvoke t n1] \/ l = [XInvoke t n1; XInvoke t n2]) /\
            xvalid xs l /\ settled (fst (xrun xs l)) t.
Proof.
  intros X Ht H1 H2 L. pose proof L as (R1 & C & S & En).
  assert (G1 : xguard xs (XInvoke t n1)) by (cbn; auto).
  (* after a first action that leaves neither a configuration nor data *)
  assert (Two : forall st', invoke_step xs t n1 = mkX st' (x_canc xs) (x_enq xs) ->
            t_reg (tm st' t) = 1 -> t_susp (tm st' t) = false -> has_cfg (tm st' t) = false -> t_pending (tm st' t) = 0 ->
            exists l, (l = [] \/ l = [XInvoke t n1] \/ l = [XInvoke t n1; XInvoke t n2]) /\
                      xvalid xs l /\ settled (fst (xrun xs l)) t).
  { intros st' E R' S' Hc' P'.
    pose proof (xstep_inv xs (XInvoke t n1) X G1) as X1. cbn [xstep fst] in X1. rewrite E in X1.
    assert (L1 : live (mkX st' (x_canc xs) (x_enq xs)) t) by (repeat split; auto).
    destruct (progress_base _ t n2 X1 Ht H2 L1 Hc' P') as [St|[G2 St]].
    - exists [XInvoke t n1]. split; [auto|]. cbn [xvalid xrun xstep fst]. rewrite E. split; auto.
    - exists [XInvoke t n1; XInvoke t n2]. split; [auto|]. cbn [xvalid xrun xstep fst]. rewrite E. split; [auto|].
      cbn [xstep fst] in St. destruct (invoke_step _ t n2); exact St. }
  destruct (has_cfg (tm (x_st xs) t)) eqn:Hc.
  - (* configure first *)
    pose proof (invoke_step_live xs t n1 L) as E. cbv zeta in E. rewrite Hc in E.
    destruct (t_cfg (tm (x_st xs) t)) as [[[[c tg] dl] itv]|] eqn:Cf; [|unfold has_cfg in Hc; rewrite Cf in Hc; discriminate].
    destruct (configure_replaces (x_st xs) t c tg dl itv Cf) as (_ & _ & _ & _ & Pn & Cn & _).
    destruct (configure_keeps (x_st xs) t t) as (_ & Es & Er & _ & _).
    apply (Two _ E); try congruence. unfold has_cfg. rewrite Cn. reflexivity.
  - destruct (nz (t_pending (tm (x_st xs) t))) eqn:Pn.
    + (* deliver the data first *)
      pose proof (invoke_step_live xs t n1 L) as E. cbv zeta in E. rewrite Hc, Pn in E.
      destruct (latch_keeps (x_st xs) t n1 t) as (_ & Es & Er & Ec & _ & _ & _ & Ep). cbv zeta in *.
      assert (Hc1 : has_cfg (tm (fst (latch (x_st xs) t n1)) t) = false) by (unfold has_cfg in *; rewrite Ec; exact Hc).
      unfold latch_and_call in E. rewrite Hc1, andb_false_r in E.
      apply (Two _ E); try congruence. auto.
    + assert (P0 : t_pending (tm (x_st xs) t) = 0) by (unfold nz in Pn; lia).
      destruct (progress_base xs t n1 X Ht H1 L Hc P0) as [St|[_ St]].
      * exists []. cbn. auto.
      * exists [XInvoke t n1]. split; [auto|]. cbn [xvalid xrun]. split; [auto|].
        destruct (xstep xs (XInvoke t n1)); exact St.
Qed.

(* ================================================================================================ *)
(* dispatch_after: the timer fires at most once.  After the fire (event.c:1055-1062) the unote is unregistered
   and disarmed; nothing registers it again (_dispatch_source_install happens once) and every arm goes through
   _dispatch_unote_resume, which source.c only calls on a registered unote *)
Definition fires_of (t : Z) (ev : list fire) : nat := length (filter (fun e => fire_timer e =? t) ev).
Definition spent (x : timer) : Prop := t_reg x = 2 /\ t_armed x = false.

Lemma fires_of_app t a b : fires_of t (a ++ b) = (fires_of t a + fires_of t b)%nat.
Proof. unfold fires_of. rewrite filter_app, app_length. reflexivity. Qed.

Definition RA (t : Z) (st st' : state) (e : list fire) : Prop :=
  t_after (tm st t) = true ->
  t_after (tm st' t) = true /\ (spent (tm st t) -> spent (tm st' t) /\ fires_of t e = 0%nat) /\
  (fires_of t e <= 1)%nat /\ (fires_of t e = 1%nat -> spent (tm st' t)).

Lemma RA_refl t st : RA t st st [].
Proof. intros A. cbn. split; auto. split; [tauto|]. split; [lia|discriminate]. Qed.
Lemma RA_same t st st' : tm st' t = tm st t -> RA t st st' [].
Proof. intros E A. rewrite E. cbn. split; auto. split; [tauto|]. split; [lia|discriminate]. Qed.
Lemma RA_trans t a b c e1 e2 : RA t a b e1 -> RA t b c e2 -> RA t a c (e1 ++ e2).
Proof.
  intros R1 R2 A. destruct (R1 A) as (A1 & S1 & L1 & F1). destruct (R2 A1) as (A2 & S2 & L2 & F2).
  rewrite fires_of_app. split; auto. split; [|split].
  - intros Sp. destruct (S1 Sp) as [Sb Z1]. destruct (S2 Sb) as [Sc Z2]. split; auto. lia.
  - destruct (Nat.eq_dec (fires_of t e1) 1) as [E|E]; [|lia]. destruct (S2 (F1 E)) as [_ Z2]. lia.
  - intros E. destruct (Nat.eq_dec (fires_of t e1) 1) as [E1|E1].
    + apply S2. auto.
    + apply F2. lia.
Qed.
(* a step that emits nothing and keeps the one-shot flag, and "unregistered and disarmed", of timer t *)
Lemma RA_quiet t st st' :
  (t_after (tm st' t) = t_after (tm st t)) -> (spent (tm st t) -> spent (tm st' t)) -> RA t st st' [].
Proof. intros Ea Sp A. cbn. split; [congruence|]. split; [auto|]. split; [lia|discriminate]. Qed.

Lemma run_step_events st tidx now dr e : In e (snd (run_step st tidx now dr)) -> fire_timer e = dr.
Proof.
  unfold run_step. destruct (t_after _); [cbn; intros [<-|[]]; reflexivity|].
  destruct (t_cfg _); [cbn; tauto|]. destruct (nz _); [cbn; intros [<-|[]]; reflexivity|].
  destruct (compute_missed _ _ _ _ _) as [[cnt tg] dl]. destruct (needs_rearm _); cbn; intros [<-|[]]; reflexivity.
Qed.

Lemma fires_of_none t ev : (forall e, In e ev -> fire_timer e <> t) -> fires_of t ev = 0%nat.
Proof.
  unfold fires_of. induction ev as [|e r IH]; intros H; cbn; auto.
  destruct (Z.eqb_spec (fire_timer e) t) as [E|E]; [exfalso; apply (H e); cbn; auto|]. apply IH. intros; apply H; cbn; auto.
Qed.

Lemma drain_RA t fuel st nows :
  GInv N st -> exists st' e c fin, drain fuel st nows [] [] = (st', e, c, fin) /\ RA t st st' e.
Proof.
  intros G.
  destruct (drain_rel N HN (RA t)) with (nows := nows) (fuel := fuel) (st := st) (ev0 := @nil fire) (c0 := @nil kcall)
    as (st' & e & c & fin & E & _ & R); auto.
  - apply RA_refl.
  - apply RA_trans.
  - intros a b Tm. apply RA_same. unfold tm. rewrite Tm. reflexivity.
  - intros a tidx now Ga Nm. set (dr := h_slot (s_heaps a tidx) 0).
    destruct (min_member N a tidx Ga Nm) as [Nz [A Id]]. fold dr in A.
    destruct (Z.eq_dec dr t) as [E|Nd].
    + rewrite E in *. intros Af. unfold run_step. rewrite Af. cbn [fst snd].
      rewrite tm_set_timer_eq, disarm_tm, Z.eqb_refl. cbn [t_after t_reg t_armed with_pending with_reg with_armed].
      unfold spent, fires_of. cbn [filter fire_timer length]. rewrite Z.eqb_refl. cbn [length t_reg t_armed with_pending with_reg with_armed].
      split; auto. split; [intros [_ X]; congruence|]. split; [lia|auto].
    + intros Af. rewrite run_step_other by auto.
      rewrite (fires_of_none t); [split; auto; split; [tauto|]; split; [lia|discriminate]|].
      intros e He. rewrite (run_step_events _ _ _ _ _ He). exact Nd.
  - exists st', e, c, fin. auto.
Qed.

Definition keeps_t (t : Z) (st st' : state) : Prop :=
  t_after (tm st' t) = t_after (tm st t) /\ (spent (tm st t) -> spent (tm st' t)).

Lemma keeps_same t st st' : tm st' t = tm st t -> keeps_t t st st'.
Proof. intros E. unfold keeps_t. rewrite E. tauto. Qed.

Lemma keeps_set t st u v :
  t_after v = t_after (tm st u) -> t_reg v = t_reg (tm st u) -> t_armed v = t_armed (tm st u) ->
  keeps_t t st (set_timer st u v).
Proof.
  intros Ea Er Eb. destruct (Z.eq_dec t u) as [->|Nu]; [|apply keeps_same, tm_set_timer_neq; auto].
  unfold keeps_t, spent. rewrite tm_set_timer_eq, Ea, Er, Eb. tauto.
Qed.

Lemma invoke_step_keeps xs t now : JInv (x_st xs) -> keeps_t t (x_st xs) (x_st (invoke_step xs t now)).
Proof.
  intros Jl. unfold invoke_step. set (st := x_st xs). set (x := tm st t).
  destruct (Z.eqb_spec (t_reg x) 0) as [R0|R0].
  { cbn [x_st]. destruct (register_facts st t Jl R0) as (_ & _ & Ea & _ & _ & _).
    split; [exact Ea|]. intros [R2 _]. fold x in R2. lia. }
  destruct (t_susp x); [apply keeps_same; reflexivity|].
  destruct (negb (x_canc xs t) && has_cfg x) eqn:B1.
  { cbn [x_st]. destruct (configure_keeps st t t) as (Ea & _ & Er & _ & Eb).
    split; [exact Ea|]. unfold spent. intros [R2 A]. rewrite Er, Eb; auto. }
  destruct (negb (x_canc xs t) && nz (t_pending x)) eqn:B2.
  { cbn [x_st]. unfold latch_and_call. set (st1 := fst (latch st t now)).
    destruct (latch_keeps st t now t) as (Ea & _ & Er & _ & Eb & _). cbv zeta in *. fold st1 in Ea, Er, Eb.
    destruct (_ && has_cfg (tm st1 t)).
    - destruct (configure_keeps st1 t t) as (Ea2 & _ & Er2 & _ & Eb2).
      split; [congruence|]. unfold spent. intros [R2 A]. rewrite Er2, Eb2, Er, Eb; auto. rewrite Eb. exact A.
    - split; [exact Ea|]. unfold spent. rewrite Er, Eb. tauto. }
  destruct (x_canc xs t && negb (t_reg x =? 2)) eqn:B3.
  { cbn [x_st]. destruct (unregister_tm st t) as [E _]. unfold keeps_t, spent. rewrite E. cbn. auto. }
  destruct (negb (x_canc xs t) && refs_needs_rearm x) eqn:B4.
  { cbn [x_st]. destruct (resume_vals st t t) as (_ & Ea & _).
    split; [exact Ea|]. intros [R2 _]. fold x in R2. exfalso.
    unfold refs_needs_rearm in B4. destruct (x_canc xs t); cbn [negb andb] in *; [discriminate|].
    rewrite B1 in B4. lia. }
  apply keeps_same. reflexivity.
Qed.

Lemma xstep_quiet xs o t :
  XInv xs -> xguard xs o -> (forall fl, o <> XNew t fl) -> (forall f n, o <> XDrain f n) ->
  snd (xstep xs o) = [] /\ keeps_t t (x_st xs) (x_st (fst (xstep xs o))).
Proof.
  intros X Gd Nn Ndr. pose proof (xi_jl _ _ X) as Jl. destruct o; cbn [xstep fst snd x_wakeup x_st]; (split; [try reflexivity|]).
  - destruct (Z.eq_dec t0 t) as [->|Nu]; [exfalso; apply (Nn flags); reflexivity|].
    apply keeps_same.
    change (top1 (x_st xs) (TNew t0 flags)) with
      (set_timer (if t_armed (tm (x_st xs) t0) then unregister (x_st xs) t0 else x_st xs) t0 (fresh_timer flags)).
    rewrite tm_set_timer_neq by auto. destruct (t_armed _); [apply unregister_other; auto|reflexivity].
  - apply keeps_set; reflexivity.
  - apply keeps_set; reflexivity.
  - destruct Gd as [Ht R0]. change (top1 (x_st xs) (TReg t0)) with (register (x_st xs) t0).
    destruct (register_facts (x_st xs) t0 Jl R0) as (_ & O & Ea & _ & _ & _).
    destruct (Z.eq_dec t t0) as [->|Nu]; [|apply keeps_same; auto].
    split; [exact Ea|]. intros [R2 _]. lia.
  - apply keeps_set; reflexivity.
  - apply keeps_set; reflexivity.
  - apply keeps_same. reflexivity.
  - destruct (Z.eq_dec t t0) as [->|Nu]; [apply invoke_step_keeps; auto|apply keeps_same, invoke_step_other; auto].
  - exfalso. apply (Ndr fuel nows). reflexivity.
  - exfalso. apply (Ndr fuel nows). reflexivity.
  - apply keeps_same. reflexivity.
Qed.

Lemma xstep_RA xs o t :
  XInv xs -> xguard xs o -> (forall fl, o <> XNew t fl) -> RA t (x_st xs) (x_st (fst (xstep xs o))) (snd (xstep xs o)).
Proof.
  intros X Gd Nn.
  destruct o; try (destruct (xstep_quiet xs _ t X Gd Nn ltac:(intros; discriminate)) as [E [Ka Ks]]; rewrite E; apply RA_quiet; auto).
  destruct X as [Sv Jl Wk Af]. destruct Sv as [S V]. destruct S as [G QD]. cbn [xstep].
  destruct (drain_RA t fuel (x_st xs) nows G) as (st' & e & c & fin & E & R). rewrite E. cbn [fst snd].
  destruct (fold_wakeup e (mkX st' (x_canc xs) (x_enq xs))) as (F1 & _). cbv zeta in F1. rewrite F1. exact R.
Qed.

Fixpoint no_new (t : Z) (l : list xop) : Prop :=
  match l with
  | [] => True
  | XNew u _ :: r => u <> t /\ no_new t r
  | _ :: r => no_new t r
  end.

Lemma xrun_RA t : forall l xs, XInv xs -> xvalid xs l -> no_new t l ->
  RA t (x_st xs) (x_st (fst (xrun xs l))) (snd (xrun xs l)).
Proof.
  induction l as [|o r IH]; intros xs X V Nn; cbn [xrun xvalid fst snd] in *; [apply RA_refl|].
  destruct V as [Gd V].
  assert (No : (forall fl, o <> XNew t fl) /\ no_new t r).
  { destruct o; cbn [no_new] in Nn; try (split; [intros; discriminate|exact Nn]).
    destruct Nn as [Nu Nr]. split; auto. intros fl E. inversion E. contradiction. }
  destruct No as [No Nr].
  pose proof (xstep_inv xs o X Gd) as X1. pose proof (xstep_RA xs o t X Gd No) as R1.
  destruct (xstep xs o) as [xs1 e1]. cbn [fst snd] in *.
  specialize (IH xs1 X1 V Nr). destruct (xrun xs1 r) as [xs2 e2]. cbn [fst snd] in *.
  eapply RA_trans; eauto.
Qed.

(* from any reachable state on, as long as the record is not given to a new source: a dispatch_after timer fires at
   most once, and once it has fired (or was unregistered) it does not fire at all *)
Theorem after_at_most_once xs l t :
  XInv xs -> xvalid xs l -> no_new t l -> t_after (tm (x_st xs) t) = true ->
  (fires_of t (snd (xrun xs l)) <= 1)%nat /\
  (spent (tm (x_st xs) t) -> fires_of t (snd (xrun xs l)) = 0%nat) /\
  (fires_of t (snd (xrun xs l)) = 1%nat -> spent (tm (x_st (fst (xrun xs l))) t)).
Proof.
  intros X V Nn A. destruct (xrun_RA t l xs X V Nn A) as (_ & S & L & F).
  split; auto. split; auto. intros Sp. apply S. exact Sp.
Qed.
End XSys.

(* ================================================================================================ *)
(* closed forms over every history from boot *)
Theorem always_fires_sources : forall N, 0 <= N /\ 2 * N + 2 <= CAPMAX ->
  forall l t, xvalid N x_init l ->
  let xs := fst (xrun x_init l) in let st := x_st xs in let i := t_ident (tm st t) in
  running xs t ->
  x_enq xs t = true \/
  (member st i t /\ 0 <= i < 3 /\ (s_dirty st = true \/ (s_harmed st i = true /\ s_ktimer st i <= t_target (tm st t)))).
Proof.
  intros N HN l t V. cbv zeta. intros Rn.
  first [apply (always_fires_src N HN)|apply (always_fires_src N)]; auto. apply XInv_reachable; auto. apply XInv_init; auto.
Qed.

Theorem rearm_progress : forall N, 0 <= N /\ 2 * N + 2 <= CAPMAX ->
  forall l t n1 n2, xvalid N x_init l ->
  let xs := fst (xrun x_init l) in
  1 <= t <= N -> 0 <= n1 < T63 -> 0 <= n2 < T63 -> live xs t ->
  exists l', (l' = [] \/ l' = [XInvoke t n1] \/ l' = [XInvoke t n1; XInvoke t n2]) /\
             xvalid N xs l' /\ settled (fst (xrun xs l')) t.
Proof.
  intros N HN l t n1 n2 V. cbv zeta. intros Ht H1 H2 L.
  apply (invoke_progress N HN); auto. apply XInv_reachable; auto. apply XInv_init; auto.
Qed.

Theorem after_fires_at_most_once : forall N, 0 <= N /\ 2 * N + 2 <= CAPMAX ->
  forall l1 l2 t, xvalid N x_init l1 ->
  let xs := fst (xrun x_init l1) in
  xvalid N xs l2 -> no_new t l2 -> t_after (tm (x_st xs) t) = true ->
  (fires_of t (snd (xrun xs l2)) <= 1)%nat /\
  (spent (tm (x_st xs) t) -> fires_of t (snd (xrun xs l2)) = 0%nat) /\
  (fires_of t (snd (xrun xs l2)) = 1%nat -> spent (tm (x_st (fst (xrun xs l2))) t)).
Proof.
  intros N HN l1 l2 t V1. cbv zeta. intros V2 Nn A.
  apply (after_at_most_once N HN); auto. apply XInv_reachable; auto. apply XInv_init; auto.
Qed.

Theorem source_invariant_reachable : forall N, 0 <= N /\ 2 * N + 2 <= CAPMAX ->
  forall l, xvalid N x_init l -> XInv N (fst (xrun x_init l)).
Proof. intros N HN l V. apply XInv_reachable; auto. apply XInv_init; auto. Qed.
