(* SLaneS_fields.v — field-level specifications of the generated dq_state bodies that the serial-lane-with-suspension
   model (Model/SLaneS.v) adds to those of Proofs/Lane_fields.v: dispatch_suspend / dispatch_resume / dispatch_activate
   loops (fast and side-counter paths), the role setting at activation, drain_try_unlock and
   _dispatch_lane_class_barrier_complete on suspended words, _dispatch_queue_invoke_finish, and the single-bit
   tests the code makes on (old_state ^ new_state).  All for every well-formed word. *)
From Coq Require Import ZArith Bool List Lia.
From Verif Require Import Word Bits Fields DqFields Gen_consts Gen_dqstate Lane_fields.
Import ListNotations.
Local Open Scope Z_scope.

Definition set_hi (r : dqf) (h : Z) : dqf :=
  mk (f_owner r) (f_tr r) (f_enq r) (f_mq r) (f_ov r) (f_role r) (f_em r) (f_d r) (f_pb r) (f_wq r) (f_ib r) h.
Definition set_role (r : dqf) (x : Z) : dqf :=
  mk (f_owner r) (f_tr r) (f_enq r) (f_mq r) (f_ov r) x (f_em r) (f_d r) (f_pb r) (f_wq r) (f_ib r) (f_hi r).
Definition dirtied (r : dqf) : dqf :=
  mk (f_owner r) (f_tr r) (f_enq r) (f_mq r) (f_ov r) (f_role r) (f_em r) 1 (f_pb r) (f_wq r) (f_ib r) (f_hi r).

Lemma set_hi_wf r h : wfr r -> 0 <= h < 512 -> wfr (set_hi r h).
Proof. unfold wfr, set_hi, mk; cbn. intros; repeat split; lia. Qed.
Lemma set_role_wf r x : wfr r -> 0 <= x < 4 -> wfr (set_role r x).
Proof. unfold wfr, set_role, mk; cbn. intros; repeat split; lia. Qed.
Lemma dirtied_wf r : wfr r -> wfr (dirtied r).
Proof. unfold wfr, dirtied, mk; cbn. intros; repeat split; lia. Qed.

Lemma enc_set_hi r h : enc (set_hi r h) = enc r + 36028797018963968 * (h - f_hi r).
Proof.
  rewrite !enc_linear. unfold set_hi, mk; cbn [f_owner f_tr f_enq f_mq f_ov f_role f_em f_d f_pb f_wq f_ib f_hi]. lia.
Qed.

Lemma lor_dirty_fields r : wfr r -> Z.lor (enc r) 549755813888 = enc (dirtied r).
Proof. intros W. pose proof W as W'. unfold wfr in W'. rewrite (enc_vec r). vec_lor 549755813888. fsimp. reflexivity. Qed.

(* ---- dispatch_suspend, fast path: one interval more unless the 6-bit count is full ---- *)
Lemma suspend_fields r : wfr r ->
  suspend_loop 0 (enc r) = if f_hi r <? 504 then Commit (enc (set_hi r (f_hi r + 8))) 0 else NoCommit 1 [].
Proof.
  intros W. pose proof W as W'. unfold wfr in W'. pose proof (enc_range r W) as R.
  unfold suspend_loop. cbv zeta.
  destruct (Z.ltb_spec (f_hi r) 504) as [H|H].
  - rewrite (u64_id'' (enc r + 288230376151711744)) by (rewrite enc_linear; lia).
    rewrite Z.eqb_refl. cbn [negb b2z nz Z.eqb]. f_equal. rewrite enc_set_hi. lia.
  - assert (B : 18446744073709551616 <= enc r + 288230376151711744) by (rewrite enc_linear; lia).
    destruct (Z.eqb_spec (u64 (enc r + 288230376151711744)) (enc r + 288230376151711744)) as [E|E].
    + exfalso. pose proof (u64_range (enc r + 288230376151711744)). lia.
    + reflexivity.
Qed.

(* ---- the side-counter transfers: subtract / add d units of 2^55 ---- *)
Lemma suspend_slow_fields r d : wfr r -> 0 <= d < 512 ->
  suspend_slow_loop 0 (enc r) (36028797018963968 * d) =
  if f_hi r <? d then NoCommit 2 [] else Commit (enc (set_hi r (f_hi r - d))) 0.
Proof.
  intros W D. pose proof W as W'. unfold wfr in W'. pose proof (enc_range r W) as R.
  unfold suspend_slow_loop. cbv zeta.
  destruct (Z.ltb_spec (f_hi r) d) as [H|H].
  - assert (B : enc r - 36028797018963968 * d < 0) by (rewrite enc_linear; lia).
    destruct (Z.eqb_spec (u64 (enc r - 36028797018963968 * d)) (enc r - 36028797018963968 * d)) as [E|E].
    + exfalso. pose proof (u64_range (enc r - 36028797018963968 * d)). lia.
    + reflexivity.
  - rewrite (u64_id'' (enc r - 36028797018963968 * d)) by (rewrite enc_linear; lia).
    rewrite Z.eqb_refl. cbn [negb b2z nz Z.eqb]. f_equal. rewrite enc_set_hi. lia.
Qed.

Lemma resume_slow_fields r d : wfr r -> 0 <= d < 512 ->
  resume_slow_loop 0 (enc r) (36028797018963968 * d) =
  if f_hi r + d <? 512 then Commit (enc (set_hi r (f_hi r + d))) 0 else NoCommit 2 [].
Proof.
  intros W D. pose proof W as W'. unfold wfr in W'. pose proof (enc_range r W) as R.
  unfold resume_slow_loop. cbv zeta.
  destruct (Z.ltb_spec (f_hi r + d) 512) as [H|H].
  - rewrite (u64_id'' (enc r + 36028797018963968 * d)) by (rewrite enc_linear; lia).
    rewrite Z.eqb_refl. cbn [negb b2z nz Z.eqb]. f_equal. rewrite enc_set_hi. lia.
  - assert (B : 18446744073709551616 <= enc r + 36028797018963968 * d) by (rewrite enc_linear; lia).
    destruct (Z.eqb_spec (u64 (enc r + 36028797018963968 * d)) (enc r + 36028797018963968 * d)) as [E|E].
    + exfalso. pose proof (u64_range (enc r + 36028797018963968 * d)). lia.
    + reflexivity.
Qed.

(* ---- masks over the suspend bits ---- *)
Lemma land_suspend_bits_f r : wfr r -> Z.land (enc r) 18410715276690587648 = 36028797018963968 * f_hi r.
Proof.
  intros W. pose proof W as W'. unfold wfr in W'. rewrite (enc_vec r).
  vec_land 18410715276690587648. fsimp. rewrite vec_linear. lia.
Qed.

Lemma is_inactive_f r : wfr r -> nz (f_dq_state_is_inactive (enc r)) = ((f_hi r / 2) mod 2 =? 1).
Proof.
  intros W. pose proof W as W'. unfold wfr in W'. unfold f_dq_state_is_inactive.
  change 72057594037927936 with (2 ^ 56). rewrite land_bit by lia. change (2 ^ 56) with 72057594037927936.
  assert (E : (enc r / 72057594037927936) mod 2 = (f_hi r / 2) mod 2).
  { rewrite enc_linear.
    replace (f_owner r + 1073741824 * f_tr r + 2147483648 * f_enq r + 4294967296 * f_mq r + 34359738368 * f_ov r +
             68719476736 * f_role r + 274877906944 * f_em r + 549755813888 * f_d r + 1099511627776 * f_pb r +
             2199023255552 * f_wq r + 18014398509481984 * f_ib r + 36028797018963968 * f_hi r)
      with ((f_owner r + 1073741824 * f_tr r + 2147483648 * f_enq r + 4294967296 * f_mq r + 34359738368 * f_ov r +
             68719476736 * f_role r + 274877906944 * f_em r + 549755813888 * f_d r + 1099511627776 * f_pb r +
             2199023255552 * f_wq r + 18014398509481984 * f_ib r) + f_hi r * 36028797018963968) by lia.
    set (lo := f_owner r + 1073741824 * f_tr r + 2147483648 * f_enq r + 4294967296 * f_mq r + 34359738368 * f_ov r +
             68719476736 * f_role r + 274877906944 * f_em r + 549755813888 * f_d r + 1099511627776 * f_pb r +
             2199023255552 * f_wq r + 18014398509481984 * f_ib r).
    assert (Hlo : 0 <= lo < 36028797018963968) by (subst lo; lia).
    clearbody lo.
    assert (Q : (lo + f_hi r * 36028797018963968) / 72057594037927936 = f_hi r / 2).
    { pose proof (Z.div_mod (f_hi r) 2 ltac:(lia)) as DM. pose proof (Z.mod_pos_bound (f_hi r) 2 ltac:(lia)) as MB.
      symmetry. apply (Z.div_unique _ _ _ (lo + (f_hi r mod 2) * 36028797018963968)); lia. }
    rewrite Q. reflexivity. }
  rewrite E. unfold nz, b2z.
  assert ((f_hi r / 2) mod 2 = 0 \/ (f_hi r / 2) mod 2 = 1) as [->| ->] by (pose proof (Z.mod_pos_bound (f_hi r / 2) 2); lia);
    reflexivity.
Qed.

(* generic: the k-th bit of a non-negative number, as the code tests it with a literal mask *)
Lemma nz_land_bit x k : 0 <= k -> nz (Z.land x (2 ^ k)) = Z.testbit x k.
Proof.
  intros K. rewrite land_bit by lia. rewrite <- Z.testbit_spec' by lia.
  unfold nz. destruct (Z.testbit x k); cbn [Z.b2z].
  - rewrite Z.mul_1_l. assert (0 < 2 ^ k) by (apply Z.pow_pos_nonneg; lia).
    destruct (Z.eqb_spec (2 ^ k) 0); [lia|reflexivity].
  - reflexivity.
Qed.

Lemma nz_xor_bit a b k : 0 <= k -> nz (Z.land (Z.lxor a b) (2 ^ k)) = xorb (Z.testbit a k) (Z.testbit b k).
Proof. intros K. rewrite nz_land_bit by lia. apply Z.lxor_spec. Qed.

Section BitsOfEnc.
Local Ltac Zify.zify_post_hook ::= Z.div_mod_to_equations.

Lemma testbit_is x k : 0 <= k -> Z.testbit x k = ((x / 2 ^ k) mod 2 =? 1).
Proof.
  intros K. pose proof (Z.testbit_spec' x k K) as H. destruct (Z.testbit x k); cbn [Z.b2z] in H; rewrite <- H; reflexivity.
Qed.

Lemma enc_bit55 r : wfr r -> Z.testbit (enc r) 55 = (f_hi r mod 2 =? 1).
Proof.
  intros W. unfold wfr in W. rewrite testbit_is by lia. change (2 ^ 55) with 36028797018963968.
  rewrite enc_linear.
  assert (E : (f_owner r + 1073741824 * f_tr r + 2147483648 * f_enq r + 4294967296 * f_mq r + 34359738368 * f_ov r +
             68719476736 * f_role r + 274877906944 * f_em r + 549755813888 * f_d r + 1099511627776 * f_pb r +
             2199023255552 * f_wq r + 18014398509481984 * f_ib r + 36028797018963968 * f_hi r) / 36028797018963968 = f_hi r).
  { symmetry. apply (Z.div_unique _ _ _ (f_owner r + 1073741824 * f_tr r + 2147483648 * f_enq r + 4294967296 * f_mq r + 34359738368 * f_ov r +
             68719476736 * f_role r + 274877906944 * f_em r + 549755813888 * f_d r + 1099511627776 * f_pb r +
             2199023255552 * f_wq r + 18014398509481984 * f_ib r)); lia. }
  rewrite E. reflexivity.
Qed.

Lemma enc_bit57 r : wfr r -> Z.testbit (enc r) 57 = ((f_hi r / 4) mod 2 =? 1).
Proof.
  intros W. unfold wfr in W. rewrite testbit_is by lia. change (2 ^ 57) with 144115188075855872.
  rewrite enc_linear.
  set (lo := f_owner r + 1073741824 * f_tr r + 2147483648 * f_enq r + 4294967296 * f_mq r + 34359738368 * f_ov r +
             68719476736 * f_role r + 274877906944 * f_em r + 549755813888 * f_d r + 1099511627776 * f_pb r +
             2199023255552 * f_wq r + 18014398509481984 * f_ib r).
  assert (Hlo : 0 <= lo < 36028797018963968) by (subst lo; lia). clearbody lo.
  assert (E : (lo + 36028797018963968 * f_hi r) / 144115188075855872 = f_hi r / 4).
  { symmetry. apply (Z.div_unique _ _ _ (lo + (f_hi r mod 4) * 36028797018963968)); lia. }
  rewrite E. reflexivity.
Qed.

Lemma enc_bit54 r : wfr r -> Z.testbit (enc r) 54 = (f_ib r =? 1).
Proof.
  intros W. unfold wfr in W. rewrite testbit_is by lia. change (2 ^ 54) with 18014398509481984.
  rewrite enc_linear.
  set (lo := f_owner r + 1073741824 * f_tr r + 2147483648 * f_enq r + 4294967296 * f_mq r + 34359738368 * f_ov r +
             68719476736 * f_role r + 274877906944 * f_em r + 549755813888 * f_d r + 1099511627776 * f_pb r +
             2199023255552 * f_wq r).
  assert (Hlo : 0 <= lo < 18014398509481984) by (subst lo; lia). clearbody lo.
  assert (E : (lo + 18014398509481984 * f_ib r + 36028797018963968 * f_hi r) / 18014398509481984 = f_ib r + 2 * f_hi r).
  { symmetry. apply (Z.div_unique _ _ _ lo); lia. }
  rewrite E. assert (f_ib r = 0 \/ f_ib r = 1) as [->| ->] by lia.
  - replace (0 + 2 * f_hi r) with (f_hi r * 2) by lia. rewrite Z.mod_mul by lia. reflexivity.
  - replace (1 + 2 * f_hi r) with (1 + f_hi r * 2) by lia. rewrite Z.mod_add by lia. reflexivity.
Qed.

Lemma enc_bit31 r : wfr r -> Z.testbit (enc r) 31 = (f_enq r =? 1).
Proof.
  intros W. unfold wfr in W. rewrite testbit_is by lia. change (2 ^ 31) with 2147483648.
  rewrite enc_linear.
  set (lo := f_owner r + 1073741824 * f_tr r).
  assert (Hlo : 0 <= lo < 2147483648) by (subst lo; lia). clearbody lo.
  set (up := 2 * f_mq r + 16 * f_ov r + 32 * f_role r + 128 * f_em r + 256 * f_d r + 512 * f_pb r + 1024 * f_wq r +
             8388608 * f_ib r + 16777216 * f_hi r).
  assert (E : (lo + 2147483648 * f_enq r + 4294967296 * f_mq r + 34359738368 * f_ov r + 68719476736 * f_role r +
               274877906944 * f_em r + 549755813888 * f_d r + 1099511627776 * f_pb r + 2199023255552 * f_wq r +
               18014398509481984 * f_ib r + 36028797018963968 * f_hi r) / 2147483648 = f_enq r + up).
  { symmetry. apply (Z.div_unique _ _ _ lo); subst up; lia. }
  rewrite E. assert (Hup : up = 2 * (f_mq r + 8 * f_ov r + 16 * f_role r + 64 * f_em r + 128 * f_d r + 256 * f_pb r +
                                     512 * f_wq r + 4194304 * f_ib r + 8388608 * f_hi r)) by (subst up; lia).
  rewrite Hup. set (v := f_mq r + 8 * f_ov r + 16 * f_role r + 64 * f_em r + 128 * f_d r + 256 * f_pb r +
                                     512 * f_wq r + 4194304 * f_ib r + 8388608 * f_hi r).
  assert (f_enq r = 0 \/ f_enq r = 1) as [->| ->] by lia.
  - replace (0 + 2 * v) with (v * 2) by lia. rewrite Z.mod_mul by lia. reflexivity.
  - replace (1 + 2 * v) with (1 + v * 2) by lia. rewrite Z.mod_add by lia. reflexivity.
Qed.
End BitsOfEnc.

(* the three single-bit tests of the code on (old_state ^ new_state) *)
Lemma xor_needs_activation r1 r2 : wfr r1 -> wfr r2 ->
  nz (Z.land (Z.lxor (enc r1) (enc r2)) 36028797018963968) = xorb (f_hi r1 mod 2 =? 1) (f_hi r2 mod 2 =? 1).
Proof. intros W1 W2. change 36028797018963968 with (2 ^ 55). rewrite nz_xor_bit by lia. rewrite !enc_bit55 by assumption. reflexivity. Qed.
Lemma xor_in_barrier r1 r2 : wfr r1 -> wfr r2 ->
  nz (Z.land (Z.lxor (enc r1) (enc r2)) 18014398509481984) = xorb (f_ib r1 =? 1) (f_ib r2 =? 1).
Proof. intros W1 W2. change 18014398509481984 with (2 ^ 54). rewrite nz_xor_bit by lia. rewrite !enc_bit54 by assumption. reflexivity. Qed.
Lemma xor_enqueued r1 r2 : wfr r1 -> wfr r2 ->
  nz (Z.land (Z.lxor (enc r1) (enc r2)) 2147483648) = xorb (f_enq r1 =? 1) (f_enq r2 =? 1).
Proof. intros W1 W2. change 2147483648 with (2 ^ 31). rewrite nz_xor_bit by lia. rewrite !enc_bit31 by assumption. reflexivity. Qed.
Lemma has_side_f r : wfr r -> nz (Z.land (enc r) 144115188075855872) = ((f_hi r / 4) mod 2 =? 1).
Proof. intros W. change 144115188075855872 with (2 ^ 57). rewrite nz_land_bit by lia. apply enc_bit57. exact W. Qed.

(* ---- dispatch_activate's loop ---- *)
Lemma activate_fields r : wfr r ->
  resume_activate_loop 0 1 (enc r) =
  if f_hi r =? 3 then Commit (enc (set_hi r 8)) 0
  else if (f_hi r / 2) mod 2 =? 1 then Commit (enc (set_hi r (f_hi r - 2))) 0
  else NoCommit 1 [].
Proof.
  intros W. pose proof W as W'. unfold wfr in W'. pose proof (enc_range r W) as R.
  unfold resume_activate_loop. rewrite land_suspend_bits_f by exact W.
  destruct (Z.eqb_spec (f_hi r) 3) as [H3|H3].
  - rewrite H3. change (36028797018963968 * 3 =? 108086391056891904) with true. cbv iota zeta.
    assert (E : enc r = enc (set_hi r 8) - 36028797018963968 * 5) by (rewrite enc_set_hi; lia).
    pose proof (enc_range (set_hi r 8) (set_hi_wf r 8 W ltac:(lia))) as R8.
    assert (L : 36028797018963968 * 3 <= enc r) by (rewrite enc_linear; lia).
    rewrite (u64_id'' (enc r - 72057594037927936)) by lia.
    rewrite (u64_id'' (enc r - 72057594037927936 - 36028797018963968)) by lia.
    rewrite u64_id'' by lia. f_equal. lia.
  - destruct (Z.eqb_spec (36028797018963968 * f_hi r) 108086391056891904) as [E|_]; [exfalso; lia|].
    rewrite is_inactive_f by exact W.
    destruct (Z.eqb_spec ((f_hi r / 2) mod 2) 1) as [Hi|Hi]; [|reflexivity].
    cbv zeta. assert (2 <= f_hi r).
    { destruct (Z.le_gt_cases 2 (f_hi r)); [assumption|]. assert (f_hi r / 2 = 0) by (apply Z.div_small; lia).
      rewrite H0 in Hi. discriminate. }
    assert (L : 36028797018963968 * 2 <= enc r) by (rewrite enc_linear; lia).
    rewrite u64_id'' by lia. f_equal. rewrite enc_set_hi. lia.
Qed.

(* ---- predicates ---- *)
Definition runnable_b (r : dqf) : bool := (f_wq r <? 4096) && (f_ib r =? 0) && (f_hi r =? 0).
Lemma runnable_f r : wfr r -> nz (f_dq_state_is_runnable (enc r)) = runnable_b r.
Proof.
  intros W. pose proof W as W'. unfold wfr in W'. unfold runnable_b, f_dq_state_is_runnable, nz, b2z. rewrite enc_linear.
  destruct (Z.ltb_spec (f_wq r) 4096), (Z.eqb_spec (f_ib r) 0), (Z.eqb_spec (f_hi r) 0); cbn [andb];
    match goal with |- negb ((if ?c then _ else _) =? 0) = _ => destruct c eqn:C end; try reflexivity;
    first [apply Z.ltb_lt in C | apply Z.ltb_ge in C]; exfalso; lia.
Qed.

Definition lockbits (t : Z) : Z := Z.lor (Z.lor t 9007199254740992) 18014398509481984.

Lemma lockbits_vec t : 0 <= t < 1073741824 -> lockbits t = encode LAY [t; 0; 0; 0; 0; 0; 0; 0; 0; 4096; 1; 0].
Proof.
  intros Ht. unfold lockbits. rewrite vec_linear. rewrite <- Z.lor_assoc.
  change (Z.lor 9007199254740992 18014398509481984) with 27021597764222976.
  pose proof (lor_disjoint t 25165824 30) as D. change (2 ^ 30) with 1073741824 in D.
  change (25165824 * 1073741824) with 27021597764222976 in D. rewrite D by lia. lia.
Qed.

(* ---- dispatch_resume's loop on a serial lane (dq_width = 1: pending_barrier_width = 0; not a source) ---- *)
Lemma resume_fields r t : wfr r -> 0 < t < 1073741824 -> f_pb r = 0 ->
  resume_loop 0 0 (enc r) 0 0 (lockbits t) =
  if f_hi r =? 9 then Commit (enc (set_hi r 8)) 0
  else if f_hi r <? 8 then NoCommit 2 []
  else let r2 := set_hi r (f_hi r - 8) in
       if runnable_b r2 && (f_owner r =? 0)
       then Commit (enc (mk t 0 (f_enq r) (f_mq r) 0 (f_role r) (f_em r) 0 0 4096 1 0)) 0
       else Commit (enc (dirtied r2)) 0.
Proof.
  intros W Ht Hpb. pose proof W as W'. unfold wfr in W'. pose proof (enc_range r W) as R.
  unfold resume_loop. rewrite land_suspend_bits_f by exact W.
  destruct (Z.eqb_spec (f_hi r) 9) as [H9|H9].
  - rewrite H9. change (36028797018963968 * 9 =? 324259173170675712) with true. cbv iota zeta.
    assert (L : 36028797018963968 * 9 <= enc r) by (rewrite enc_linear; lia).
    rewrite u64_id'' by lia. f_equal. rewrite enc_set_hi. lia.
  - destruct (Z.eqb_spec (36028797018963968 * f_hi r) 324259173170675712) as [E|_]; [exfalso; lia|].
    change (nz 0) with false. cbn [andb negb]. cbv zeta.
    destruct (Z.ltb_spec (f_hi r) 8) as [H8|H8].
    + assert (B : enc r - 288230376151711744 < 0) by (rewrite enc_linear; lia).
      destruct (Z.eqb_spec (u64 (enc r - 288230376151711744)) (enc r - 288230376151711744)) as [E|E].
      * exfalso. pose proof (u64_range (enc r - 288230376151711744)). lia.
      * reflexivity.
    + assert (L : 288230376151711744 <= enc r) by (rewrite enc_linear; lia).
      rewrite (u64_id'' (enc r - 288230376151711744)) by lia. rewrite Z.eqb_refl. cbn [negb b2z nz Z.eqb].
      pose proof (set_hi_wf r (f_hi r - 8) W ltac:(lia)) as W2. pose proof W2 as W2'. unfold wfr in W2'.
      assert (E2 : enc r - 288230376151711744 = enc (set_hi r (f_hi r - 8))) by (rewrite enc_set_hi; lia).
      rewrite E2. set (r2 := set_hi r (f_hi r - 8)) in *.
      rewrite runnable_f by exact W2.
      destruct (runnable_b r2) eqn:RB; cbn [negb andb].
      * rewrite drain_locked_f by exact W2.
        assert (O2 : f_owner r2 = f_owner r) by reflexivity. rewrite O2.
        destruct (Z.eqb_spec (f_owner r) 0) as [O|O]; cbn [negb].
        -- (* free: take the full-width lock *)
           unfold runnable_b in RB. rewrite !andb_true_iff in RB. destruct RB as [[RB1 RB2] RB3].
           apply Z.ltb_lt in RB1. apply Z.eqb_eq in RB2, RB3.
           assert (Lt : (u64 (enc r2 + 0) <? 9007199254740992) = true).
           { apply Z.ltb_lt. rewrite Z.add_0_r. rewrite u64_id'' by (apply enc_range; exact W2).
             rewrite enc_linear. rewrite RB2, RB3. lia. }
           rewrite Lt, orb_true_r. cbv iota.
           rewrite (enc_vec r2). vec_land 513248591872. fsimp.
           rewrite lockbits_vec by lia. rewrite encode_lor by wfv_tac. cbn [map2]. fsimp.
           change (Z.lor 0 t) with t. change (Z.lor 0 4096) with 4096. reflexivity.
        -- rewrite lor_dirty_fields by exact W2. reflexivity.
      * rewrite lor_dirty_fields by exact W2. reflexivity.
Qed.

(* ---- role setting at activation (_dispatch_lane_inherit_wlh_from_target) ---- *)
Lemma inherit_fields r rb : wfr r -> 0 <= rb < 4 ->
  inherit_wlh_loop 0 0 (enc r) (68719476736 * rb) =
  if f_role r =? rb then NoCommit 0 [] else Commit (enc (set_role r rb)) 0.
Proof.
  intros W Hrb. pose proof W as W'. unfold wfr in W'.
  unfold inherit_wlh_loop. cbv zeta.
  assert (E : Z.lor (Z.land (enc r) 18446743867551121407) (68719476736 * rb) = enc (set_role r rb)).
  { rewrite (enc_vec r). vec_land 18446743867551121407. fsimp.
    assert (Er : 68719476736 * rb = encode LAY [0; 0; 0; 0; 0; rb; 0; 0; 0; 0; 0; 0]) by (rewrite vec_linear; lia).
    rewrite Er. rewrite encode_lor by wfv_tac. cbn [map2]. fsimp. reflexivity. }
  rewrite E.
  destruct (Z.eqb_spec (f_role r) rb) as [Hr|Hr].
  - assert (E2 : enc (set_role r rb) = enc r) by (rewrite !enc_linear; unfold set_role, mk; cbn [f_owner f_tr f_enq f_mq f_ov f_role f_em f_d f_pb f_wq f_ib f_hi]; lia).
    rewrite E2, Z.eqb_refl. reflexivity.
  - destruct (Z.eqb_spec (enc r) (enc (set_role r rb))) as [E2|E2]; [|reflexivity].
    exfalso. rewrite !enc_linear in E2. unfold set_role, mk in E2; cbn [f_owner f_tr f_enq f_mq f_ov f_role f_em f_d f_pb f_wq f_ib f_hi] in E2. lia.
Qed.

(* ---- the serial drain ownership given back: IN_BARRIER + one width interval (+ e times ENQUEUED) ---- *)
Definition unown (r : dqf) (e : Z) : dqf :=
  mk (f_owner r) (f_tr r) (f_enq r - e) (f_mq r) (f_ov r) (f_role r) (f_em r) (f_d r) (f_pb r) 4095 0 (f_hi r).
Lemma unown_wf r e : wfr r -> 0 <= e <= f_enq r -> wfr (unown r e).
Proof. unfold wfr, unown, mk; cbn. intros; repeat split; lia. Qed.
Lemma sub_owned r e : wfr r -> f_ib r = 1 -> f_wq r = 4096 -> 0 <= e <= f_enq r ->
  u64 (enc r - (18014398509481984 + 2199023255552 + 2147483648 * e)) = enc (unown r e).
Proof.
  intros W Hib Hwq He. pose proof W as W'. unfold wfr in W'.
  rewrite !enc_linear. unfold unown, mk; cbn [f_owner f_tr f_enq f_mq f_ov f_role f_em f_d f_pb f_wq f_ib f_hi].
  rewrite Hib, Hwq. rewrite u64_id'' by lia. lia.
Qed.

(* drain_try_unlock on a suspended word: the lock is given back whatever DIRTY says; DIRTY and max-qos stay *)
Lemma unlock_fields_susp r e :
  wfr r -> 0 < f_hi r -> f_ib r = 1 -> f_wq r = 4096 -> 0 <= e <= f_enq r ->
  f_dispatch_queue_drain_try_unlock 0 (18014398509481984 + 2199023255552 + 2147483648 * e) 1 (enc r) =
  Commit (enc (mk 0 0 (f_enq r - e) (f_mq r) 0 (f_role r) (f_em r) (f_d r) (f_pb r) 4095 0 (f_hi r))) 1.
Proof.
  intros W H0 Hib Hwq He. pose proof W as W'. unfold wfr in W'.
  unfold f_dispatch_queue_drain_try_unlock. cbv zeta.
  rewrite is_suspended_f by exact W.
  assert (S : (0 <? f_hi r) = true) by (apply Z.ltb_lt; lia). rewrite S. cbn [negb].
  rewrite sub_owned by assumption.
  rewrite (enc_vec (unown r e)). unfold unown, mk; cbn [f_owner f_tr f_enq f_mq f_ov f_role f_em f_d f_pb f_wq f_ib f_hi].
  vec_land 18446744037202329600. fsimp.
  destruct (nz (f_dq_state_received_override (enc r))); reflexivity.
Qed.

(* _dispatch_queue_invoke_finish: gives the lock back, sets DIRTY, and puts ENQUEUED back when the word is runnable *)
Lemma finish_fields r e :
  wfr r -> f_ib r = 1 -> f_wq r = 4096 -> 0 <= e <= f_enq r ->
  invoke_finish_loop 0 0 1 (18014398509481984 + 2199023255552 + 2147483648 * e) (enc r) 2147483648 =
  Commit (enc (mk 0 0 (if (f_hi r =? 0) && (f_enq r - e =? 0) && (f_em r =? 0) then 1 else f_enq r - e) (f_mq r) 0 (f_role r)
                  (f_em r) 1 (f_pb r) 4095 0 (f_hi r))) 0.
Proof.
  intros W Hib Hwq He. pose proof W as W'. unfold wfr in W'.
  unfold invoke_finish_loop. cbv zeta.
  rewrite sub_owned by assumption.
  rewrite (enc_vec (unown r e)). unfold unown, mk; cbn [f_owner f_tr f_enq f_mq f_ov f_role f_em f_d f_pb f_wq f_ib f_hi].
  vec_land 18446744037202329600. fsimp. vec_lor 549755813888. fsimp.
  set (r1 := mk 0 0 (f_enq r - e) (f_mq r) 0 (f_role r) (f_em r) 1 (f_pb r) 4095 0 (f_hi r)).
  change (encode LAY [0; 0; f_enq r - e; f_mq r; 0; f_role r; f_em r; 1; f_pb r; 4095; 0; f_hi r]) with (enc r1).
  assert (W1 : wfr r1) by (subst r1; unfold wfr, mk; cbn; repeat split; lia).
  rewrite runnable_f, is_enqueued_f by exact W1.
  unfold runnable_b. subst r1. unfold mk; cbn [f_owner f_tr f_enq f_mq f_ov f_role f_em f_d f_pb f_wq f_ib f_hi].
  change (4095 <? 4096) with true. change (0 =? 0) with true. cbn [andb]. rewrite negb_involutive.
  destruct (Z.eqb_spec (f_hi r) 0) as [H0|H0]; cbn [andb]; [|reflexivity].
  destruct (Z.eqb_spec (f_enq r - e) 0) as [E0|E0]; cbn [andb]; [|reflexivity].
  destruct (Z.eqb_spec (f_em r) 0) as [M0|M0]; cbn [andb]; [|reflexivity].
  unfold enc, vec. cbn [f_owner f_tr f_enq f_mq f_ov f_role f_em f_d f_pb f_wq f_ib f_hi].
  vec_lor 2147483648. fsimp. reflexivity.
Qed.

(* _dispatch_lane_class_barrier_complete by a thread that holds the full-width lock without the enqueued bit
   (dispatch_resume's lock hand-off), role BASE_ANON or INNER *)
Lemma cbc_fields r q fl tg enq :
  wfr r -> f_ib r = 1 -> f_wq r = 4096 -> f_role r < 2 -> 0 <= q < 8 -> (enq = 0 \/ enq = 2147483648) ->
  class_barrier_complete_loop 0 q fl tg (18014398509481984 + 2199023255552) (enc r) enq =
  let m := merged (unown r 0) q in
  if 0 <? f_hi r then Commit (enc (mk 0 0 (f_enq r) (f_mq m) 0 (f_role r) (f_em r) (f_d r) (f_pb r) 4095 0 (f_hi r))) 0
  else if enq =? 2147483648
       then Commit (enc (mk 0 0 (if (f_enq r =? 0) && (f_em r =? 0) then 1 else f_enq r) (f_mq m) 0 (f_role r) (f_em r) (f_d r)
                            (f_pb r) 4095 0 0)) 0
       else if f_d r =? 1 then NoCommit 1 [AXor 0 0 Acquire]
            else Commit (enc (mk 0 0 (f_enq r) 0 0 (f_role r) (f_em r) 0 (f_pb r) 4095 0 0)) 0.
Proof.
  intros W Hib Hwq Hrole Q He. pose proof W as W'. unfold wfr in W'.
  unfold class_barrier_complete_loop. cbv zeta.
  replace (18014398509481984 + 2199023255552) with (18014398509481984 + 2199023255552 + 2147483648 * 0) by lia.
  rewrite sub_owned by (assumption || lia).
  pose proof (unown_wf r 0 W ltac:(lia)) as Wu.
  rewrite merge_qos_fields by assumption.
  rewrite is_suspended_f by exact W.
  pose proof (merged_wf (unown r 0) q Wu Q) as Wm. pose proof Wm as Wm'. unfold wfr in Wm'.
  set (m := merged (unown r 0) q) in *.
  assert (Same : f_owner m = f_owner r /\ f_tr m = f_tr r /\ f_enq m = f_enq r /\ f_role m = f_role r /\ f_em m = f_em r /\
                 f_d m = f_d r /\ f_pb m = f_pb r /\ f_wq m = 4095 /\ f_ib m = 0 /\ f_hi m = f_hi r).
  { subst m. unfold merged. destruct (f_mq (unown r 0) <? q); unfold unown, mk; cbn; repeat split; lia. }
  destruct Same as (S1 & S2 & S3 & S4 & S5 & S6 & S7 & S8 & S9 & S10).
  rewrite (enc_vec m). vec_land 18446744037202329600. fsimp.
  rewrite S3, S4, S5, S6, S7, S8, S9, S10.
  destruct (Z.ltb_spec 0 (f_hi r)) as [Hs|Hs]; cbn [negb].
  - rewrite base_wlh_f by exact W. destruct (Z.leb_spec 2 (f_role r)); [lia|]. cbn [negb]. reflexivity.
  - assert (H0 : f_hi r = 0) by lia. rewrite H0.
    destruct He as [->| ->].
    + change (nz 0) with false. change (0 =? 2147483648) with false. cbv iota.
      rewrite is_dirty_f by exact W.
      destruct (Z.eqb_spec (f_d r) 1) as [D|D]; cbn [negb]; [reflexivity|].
      vec_land 18446744043644780543. fsimp. assert (f_d r = 0) as -> by lia. reflexivity.
    + change (nz 2147483648) with true. change (2147483648 =? 2147483648) with true. cbv iota.
      rewrite is_enqueued_f by exact W. rewrite negb_involutive.
      destruct ((f_enq r =? 0) && (f_em r =? 0)) eqn:E.
      * apply andb_true_iff in E as [E1 E2]. apply Z.eqb_eq in E1, E2. rewrite E1.
        vec_lor 2147483648. fsimp. change (Z.lor 0 1) with 1. reflexivity.
      * reflexivity.
Qed.

(* the delta values computed under the side lock, in units of 2^55 *)
Lemma delta_values :
  u64 (u64 (32 * 288230376151711744) - 288230376151711744) = 36028797018963968 * 248 /\
  u64 (u64 (u64 (32 * 288230376151711744) - 288230376151711744) - 144115188075855872) = 36028797018963968 * 244.
Proof. split; reflexivity. Qed.
