(* ApplyRoot_proofs.v — the link between C10's assumption "each helper continuation pushed by _dispatch_apply_f is
   invoked at most once" and the root-queue model Model/RootQ.v (C01_root_pop_unique).

   RootQ models pushes of ONE item (hd == tl, n == 1).  _dispatch_apply_f pushes its T-1 continuations with ONE call
   _dispatch_root_queue_push_inline(dq, head, tail, T-1) (apply.c:188): the continuations are linked privately
   (next->do_next = head while the list is built, apply.c:177), then os_mpsc_push_list performs
       tail->do_next = NULL;  prev = xchg(dq_items_tail, tail, release);  prev->do_next / dq_items_head = head
   and pokes with n = T-1.  This file shows that the limit does not matter for the at-most-once claim: the two shared
   states a batch push passes through are states of RootQ, reached by the schedule in which T-1 pushers push one
   item each back to back — pusher 1 stops after its tail exchange, pushers 2..m push completely (each links the
   previous item to its own), then pusher 1 performs its link store:
     after phase A (= after the batch's exchange): tail = last item, the items are linked first -> ... -> last,
        the predecessor's link (or dq_items_head) is still missing, the ghost list `chain` and the push history are
        extended by the items in order;
     after phase B (= after the batch's link store): the predecessor (or the head) points to the first item.
   Between the two points the batch performs no other shared access, so every interleaving of a batch push with the
   other threads of the queue is an interleaving of RootQ (the one where nobody else moves during phase A), and
   C01_root_pop_unique / C01_root_list_integrity apply to it: the k-th dequeue returns the k-th pushed item, no item
   is dequeued twice.  What differs is the poke (one request for T-1 threads instead of T-1 requests for one): that
   only affects how many workers are woken, which C10 does not rely on (C10_terminates_without_helpers). *)
From Coq Require Import ZArith Bool List Lia.
From Verif Require Import Word Conc Gen_consts Gen_fields Gen_rootq RootQ RootQ_proofs RootQ_wake_proofs.
Import ListNotations.
Local Open Scope Z_scope.

Definition ev_call : event := mkEv DVU_CALL 0 0 0 0 OP_PUSH 0 1.
Definition ev_store (x : Z) : event := mkEv DV_STORE MO_RELAXED OBJ_NEXT x 8 0 0 1.
Definition ev_xchg (prev x : Z) : event := mkEv DV_XCHG MO_RELEASE OBJ_Q OFF_TAIL 8 prev x 1.
Definition ev_link (prev x : Z) : event :=
  if prev =? 0 then mkEv DV_STORE MO_RELAXED OBJ_Q OFF_HEAD 8 0 x 1 else mkEv DV_STORE MO_RELAXED OBJ_NEXT prev 8 0 x 1.

Definition push_upto_xchg (t prev x : Z) : list (Z * event) := [(t, ev_call); (t, ev_store x); (t, ev_xchg prev x)].
Definition push_single (t prev x : Z) : list (Z * event) := push_upto_xchg t prev x ++ [(t, ev_link prev x)].
Fixpoint batch_rest (prev : Z) (l : list (Z * Z)) : list (Z * event) :=
  match l with [] => [] | (t, x) :: r => push_single t prev x ++ batch_rest x r end.
(* phase A: everything up to (and standing for) the batch's tail exchange; phase B: the batch's link store *)
Definition batch_phaseA (t1 x1 P : Z) (rest : list (Z * Z)) := push_upto_xchg t1 P x1 ++ batch_rest x1 rest.
Definition batch_phaseB (t1 x1 P : Z) : list (Z * event) := [(t1, ev_link P x1)].

Section Steps.
Variable oc : bool.

Lemma g_call s t : pcs s t = PNone -> gstep oc s t ev_call = Some (set_pc s t (PPushCall COut)).
Proof. intros H. unfold gstep, effect. rewrite H. reflexivity. Qed.

Lemma g_store s t c x : pcs s t = PPushCall c -> owner s x = None -> ~ In x (chain s) -> is_item x = true ->
  gstep oc s t (ev_store x) = Some (set_pc (set_owner (set_nxt s x 0) x (Some t)) t (PPushXchg c x)).
Proof.
  intros H Ho Hc Hi. unfold gstep, effect. rewrite H. cbn [tstep ev_store ek eord eobj eb eoff].
  rewrite Hi. cbn [andb Z.eqb]. change (DV_STORE =? DV_STORE) with true. change (MO_RELAXED =? MO_RELAXED) with true.
  change (OBJ_NEXT =? OBJ_NEXT) with true. cbn [andb]. rewrite Ho. cbn [is_none].
  assert (M : memz x (chain s) = false).
  { destruct (memz x (chain s)) eqn:E; [|reflexivity]. apply memz_In in E. contradiction. }
  rewrite M. reflexivity.
Qed.

Lemma g_xchg s t c x : pcs s t = PPushXchg c x ->
  gstep oc s t (ev_xchg (tail s) x) = Some (set_pc (do_push s t x) t (PPushLink c x (tail s))).
Proof.
  intros H. unfold gstep, effect. rewrite H. cbn [tstep]. unfold ev_xchg, ev_at. cbn [ek eord eobj eoff eb ea].
  rewrite !Z.eqb_refl. cbn [andb guard]. reflexivity.
Qed.

Lemma g_link_next s t c x prev : pcs s t = PPushLink c x prev -> prev <> 0 ->
  gstep oc s t (ev_link prev x) = Some (set_pc (set_owner (set_nxt s prev x) x None) t (PClient c)).
Proof.
  intros H Hp. unfold gstep, effect, ev_link. rewrite H. cbn [tstep].
  destruct (Z.eqb_spec prev 0); [contradiction|]. unfold ev_at. cbn [ek eord eobj eoff eb ea].
  rewrite !Z.eqb_refl. reflexivity.
Qed.

Lemma g_link_head s t c x : pcs s t = PPushLink c x 0 ->
  gstep oc s t (ev_link 0 x) = Some (set_pc (do_head_store s x) t (PPokeProbe (KClient c) 1 0)).
Proof.
  intros H. unfold gstep, effect, ev_link. rewrite H. cbn [tstep Z.eqb]. unfold ev_at. cbn [ek eord eobj eoff eb ea].
  rewrite !Z.eqb_refl. reflexivity.
Qed.

(* the state after pusher t has pushed x up to its tail exchange / completely *)
Definition after_xchg (s : gst) (t x : Z) : gst :=
  let s1 := set_pc s t (PPushCall COut) in
  let s2 := set_pc (set_owner (set_nxt s1 x 0) x (Some t)) t (PPushXchg COut x) in
  set_pc (do_push s2 t x) t (PPushLink COut x (tail s)).
Definition after_single (s : gst) (t x : Z) : gst :=
  set_pc (set_owner (set_nxt (after_xchg s t x) (tail s) x) x None) t (PClient COut).

Lemma run_upto_xchg s t x : pcs s t = PNone -> owner s x = None -> ~ In x (chain s) -> is_item x = true ->
  grun oc s (push_upto_xchg t (tail s) x) = Some (after_xchg s t x).
Proof.
  intros Hp Ho Hc Hi. unfold push_upto_xchg. cbn [grun]. rewrite (g_call s t Hp).
  rewrite (g_store (set_pc s t (PPushCall COut)) t COut x); cbn [pcs set_pc owner chain]; auto; [|apply upd_same].
  match goal with |- match gstep oc ?s2 t _ with _ => _ end = _ => 
    change (tail s) with (tail s2) at 1; rewrite (g_xchg s2 t COut x) by (cbn [pcs set_pc]; apply upd_same) end.
  reflexivity.
Qed.

Lemma grun_app s tr1 tr2 : grun oc s (tr1 ++ tr2) = match grun oc s tr1 with Some s1 => grun oc s1 tr2 | None => None end.
Proof.
  revert s. induction tr1 as [|[t e] r IH]; intros s; cbn [grun app]; [reflexivity|].
  destruct (gstep oc s t e); [apply IH|reflexivity].
Qed.

Lemma run_single s t x : pcs s t = PNone -> owner s x = None -> ~ In x (chain s) -> is_item x = true -> tail s <> 0 ->
  grun oc s (push_single t (tail s) x) = Some (after_single s t x).
Proof.
  intros Hp Ho Hc Hi Ht. unfold push_single. rewrite grun_app, (run_upto_xchg s t x Hp Ho Hc Hi). cbn [grun].
  rewrite (g_link_next (after_xchg s t x) t COut x (tail s)); [reflexivity| |exact Ht].
  unfold after_xchg. cbn [pcs set_pc]. apply upd_same.
Qed.
End Steps.

(* what a complete single push changes *)
Lemma after_single_view s t x :
  tail (after_single s t x) = x /\ head (after_single s t x) = head s /\
  chain (after_single s t x) = chain s ++ [x] /\ hpush (after_single s t x) = hpush s ++ [(x, t)] /\
  hpop (after_single s t x) = hpop s /\ runs (after_single s t x) = runs s /\ holder (after_single s t x) = holder s /\
  nxt (after_single s t x) = upd (upd (nxt s) x 0) (tail s) x /\
  (forall u, u <> t -> pcs (after_single s t x) u = pcs s u) /\
  (forall y, y <> x -> owner (after_single s t x) y = owner s y) /\
  (tail s <> 0 -> hstore (after_single s t x) = hstore s).
Proof.
  unfold after_single, after_xchg. cbn. repeat split; auto.
  - intros u Hu. rewrite !upd_other by exact Hu. reflexivity.
  - intros y Hy. rewrite !upd_other by exact Hy. reflexivity.
  - intros H. destruct (Z.eqb_spec (tail s) 0); [contradiction|reflexivity].
Qed.

(* items / pushers not yet used *)
Definition fresh (s : gst) (l : list (Z * Z)) : Prop :=
  NoDup (map fst l) /\ NoDup (map snd l) /\
  forall t x, In (t, x) l -> pcs s t = PNone /\ owner s x = None /\ ~ In x (chain s) /\ is_item x = true.

Fixpoint after_rest (s : gst) (l : list (Z * Z)) : gst :=
  match l with [] => s | (t, x) :: r => after_rest (after_single s t x) r end.

Lemma fresh_step s t x r : fresh s ((t, x) :: r) -> fresh (after_single s t x) r.
Proof.
  intros (N1 & N2 & F). cbn [map fst snd] in N1, N2. inversion N1 as [|? ? Ht N1']; inversion N2 as [|? ? Hx N2']; subst.
  destruct (after_single_view s t x) as (_ & _ & Ec & _ & _ & _ & _ & _ & Ep & Eo & _).
  split; [exact N1'|]. split; [exact N2'|]. intros t' x' Hin.
  destruct (F t' x' (or_intror Hin)) as (A & B & C & D).
  assert (t' <> t) by (intros ->; apply Ht; apply (in_map fst _ _ Hin)).
  assert (x' <> x) by (intros ->; apply Hx; apply (in_map snd _ _ Hin)).
  rewrite Ep, Eo, Ec by assumption. repeat split; auto.
  intros Hi. apply in_app_or in Hi. destruct Hi as [Hi|[Hi|[]]]; [contradiction|congruence].
Qed.

Lemma run_rest oc : forall l s, fresh s l -> tail s <> 0 -> grun oc s (batch_rest (tail s) l) = Some (after_rest s l).
Proof.
  induction l as [|[t x] r IH]; intros s F Ht; cbn [batch_rest after_rest grun]; [reflexivity|].
  destruct F as (N1 & N2 & F0). destruct (F0 t x (or_introl eq_refl)) as (A & B & C & D).
  rewrite grun_app, (run_single oc s t x A B C D Ht).
  destruct (after_single_view s t x) as (Et & _).
  rewrite <- Et at 1. apply IH.
  - apply (fresh_step s t x r). split; [exact N1|]. split; [exact N2|exact F0].
  - rewrite Et. destruct (is_item_spec x D). assumption.
Qed.

(* the shared list after the pushers of l have pushed completely, one after the other *)
Fixpoint linked (f : Z -> Z) (a : Z) (l : list Z) : Prop :=
  match l with [] => f a = 0 | b :: r => f a = b /\ linked f b r end.

Lemma last_cons_default : forall (l : list Z) x d, last (x :: l) d = last l x.
Proof.
  induction l as [|y r IH]; intros x d; [reflexivity|].
  change (last (x :: y :: r) d) with (last (y :: r) d). rewrite (IH y d). symmetry. apply (IH y x).
Qed.

Lemma after_rest_view : forall l s, fresh s l -> tail s <> 0 -> ~ In (tail s) (map snd l) ->
  tail (after_rest s l) = last (map snd l) (tail s) /\ head (after_rest s l) = head s /\
  chain (after_rest s l) = chain s ++ map snd l /\
  hpush (after_rest s l) = hpush s ++ map (fun p => (snd p, fst p)) l /\
  hpop (after_rest s l) = hpop s /\ runs (after_rest s l) = runs s /\ holder (after_rest s l) = holder s /\
  hstore (after_rest s l) = hstore s /\
  (nxt s (tail s) = 0 -> linked (nxt (after_rest s l)) (tail s) (map snd l)) /\
  (forall y, y <> tail s -> ~ In y (map snd l) -> nxt (after_rest s l) y = nxt s y) /\
  (forall u, ~ In u (map fst l) -> pcs (after_rest s l) u = pcs s u) /\
  (forall y, ~ In y (map snd l) -> owner (after_rest s l) y = owner s y).
Proof.
  induction l as [|[t x] r IH]; intros s F Ht Hn; cbn [after_rest map fst snd last].
  - repeat split; auto; rewrite ?app_nil_r; auto.
  - destruct (after_single_view s t x) as (Et & Eh & Ec & Ehp & Epo & Er & Eho & En & Ep & Eo & Ehs).
    pose proof (fresh_step s t x r F) as F'.
    destruct F as (N1 & N2 & F0). destruct (F0 t x (or_introl eq_refl)) as (A & B & C & D).
    destruct (is_item_spec x D) as [Dx _]. cbn [map snd] in Hn, N2. inversion N2 as [|? ? Hx N2']; subst.
    assert (Hn' : ~ In (tail (after_single s t x)) (map snd r)) by (rewrite Et; exact Hx).
    destruct (IH (after_single s t x) F' ltac:(rewrite Et; exact Dx) Hn')
      as (I1 & I2 & I3 & I4 & I5 & I6 & I7 & I8 & I9 & I10 & I11 & I12).
    rewrite Et in *.
    assert (Txs : tail s <> x) by (intros E; apply Hn; left; auto).
    repeat split.
    + rewrite I1. symmetry. apply last_cons_default.
    + rewrite I2. exact Eh.
    + rewrite I3, Ec, <- app_assoc. reflexivity.
    + rewrite I4, Ehp, <- app_assoc. reflexivity.
    + rewrite I5. exact Epo.
    + rewrite I6. exact Er.
    + rewrite I7. exact Eho.
    + rewrite I8. apply Ehs. exact Ht.
    + rewrite I10; [|exact Txs|intros Hin; apply Hn; right; exact Hin]. rewrite En. apply upd_same.
    + apply I9. rewrite En. rewrite upd_other by (intros E; apply Txs; auto). apply upd_same.
    + intros y Hy Hny. rewrite I10; [|intros E; apply Hny; left; auto|intros Hin; apply Hny; right; exact Hin].
      rewrite En. rewrite upd_other by exact Hy. rewrite upd_other; [reflexivity|intros E; apply Hny; left; auto].
    + intros u Hu. rewrite I11 by (intros Hin; apply Hu; right; exact Hin). apply Ep. intros E; apply Hu; left; auto.
    + intros y Hy. rewrite I12 by (intros Hin; apply Hy; right; exact Hin). apply Eo. intros E; apply Hy; left; auto.
Qed.

Lemma linked_upd (f : Z -> Z) P v : forall l a, a <> P -> ~ In P l -> linked f a l -> linked (upd f P v) a l.
Proof.
  induction l as [|b r IH]; intros a Ha Hn; cbn [linked].
  - intros H. rewrite upd_other by exact Ha. exact H.
  - intros [H1 H2]. split; [rewrite upd_other by exact Ha; exact H1|].
    apply IH; [intros E; apply Hn; left; congruence|intros Hin; apply Hn; right; exact Hin|exact H2].
Qed.

Lemma tail_in_chain oc p0 s : reach oc p0 s -> tail s <> 0 -> In (tail s) (chain s).
Proof.
  intros R H. pose proof (inv1_reach oc p0 s R) as I. rewrite (I_tail s I) in *.
  apply last_in. intros E. rewrite E in H. cbn in H. contradiction.
Qed.

(* ---- the theorem: a batch push of the privately linked items x1 :: xs (by T-1 = 1 + length rest "virtual" pushers)
   passes through two states of RootQ.  P = dq_items_tail before the push (0: the queue was empty). ---- *)
Theorem batch_push_is_a_rootq_run oc p0 s t1 x1 rest :
  reach oc p0 s -> fresh s ((t1, x1) :: rest) ->
  let P := tail s in let xs := map snd rest in
  exists sA sB,
    grun oc s (batch_phaseA t1 x1 P rest) = Some sA /\ grun oc sA (batch_phaseB t1 x1 P) = Some sB /\
    reach oc p0 sA /\ reach oc p0 sB /\
    (* after the batch's exchange *)
    tail sA = last xs x1 /\ head sA = head s /\ linked (nxt sA) x1 xs /\
    chain sA = chain s ++ x1 :: xs /\ map fst (hpush sA) = map fst (hpush s) ++ x1 :: xs /\ hpop sA = hpop s /\
    (P <> 0 -> nxt sA P = nxt s P) /\
    (* after the batch's link store *)
    tail sB = tail sA /\ chain sB = chain sA /\ hpush sB = hpush sA /\ hpop sB = hpop sA /\ linked (nxt sB) x1 xs /\
    (if P =? 0 then head sB = x1 else nxt sB P = x1 /\ head sB = head s).
Proof.
  intros R F P xs.
  pose proof F as (N1 & N2 & F0). destruct (F0 t1 x1 (or_introl eq_refl)) as (A & B & C & D).
  destruct (is_item_spec x1 D) as [Dx _].
  set (s1 := after_xchg s t1 x1).
  assert (E1 : grun oc s (push_upto_xchg t1 P x1) = Some s1) by (apply run_upto_xchg; assumption).
  assert (T1 : tail s1 = x1) by reflexivity.
  cbn [map fst snd] in N1, N2. apply NoDup_cons_iff in N1 as [Ht N1']. apply NoDup_cons_iff in N2 as [Hx N2'].
  assert (F1 : fresh s1 rest).
  { split; [exact N1'|]. split; [exact N2'|]. intros t' x' Hin.
    destruct (F0 t' x' (or_intror Hin)) as (A' & B' & C' & D').
    assert (t' <> t1) by (intros ->; apply Ht; apply (in_map fst _ _ Hin)).
    assert (x' <> x1) by (intros ->; apply Hx; apply (in_map snd _ _ Hin)).
    unfold s1, after_xchg. cbn. rewrite !upd_other by assumption. repeat split; auto.
    intros Hi. apply in_app_or in Hi. destruct Hi as [Hi|[Hi|[]]]; [contradiction|congruence]. }
  assert (Hn1 : ~ In (tail s1) (map snd rest)) by (rewrite T1; exact Hx).
  pose proof (run_rest oc rest s1 F1 ltac:(rewrite T1; exact Dx)) as E2. rewrite T1 in E2.
  destruct (after_rest_view rest s1 F1 ltac:(rewrite T1; exact Dx) Hn1)
    as (I1 & I2 & I3 & I4 & I5 & I6 & I7 & I8 & I9 & I10 & I11 & I12).
  rewrite T1 in *.
  set (sA := after_rest s1 rest) in *.
  assert (EA : grun oc s (batch_phaseA t1 x1 P rest) = Some sA).
  { unfold batch_phaseA. rewrite grun_app, E1. exact E2. }
  assert (PcA : pcs sA t1 = PPushLink COut x1 P).
  { rewrite I11 by exact Ht. unfold s1, after_xchg. cbn [pcs set_pc]. apply upd_same. }
  assert (Nx1 : nxt s1 x1 = 0).
  { unfold s1, after_xchg. cbn. apply upd_same. }
  assert (LA : linked (nxt sA) x1 (map snd rest)) by (apply I9; exact Nx1).
  assert (NP : P <> 0 -> nxt sA P = nxt s P).
  { intros HP. assert (PX : P <> x1).
    { intros E. apply C. rewrite <- E. exact (tail_in_chain oc p0 s R HP). }
    rewrite I10; [unfold s1, after_xchg; cbn; rewrite upd_other by exact PX; reflexivity|exact PX|].
    intros Hin. destruct (in_map_iff snd rest P) as [Hm _]. destruct (Hm Hin) as ([t' x'] & Ex & Hin').
    cbn in Ex. subst x'. destruct (F0 t' P (or_intror Hin')) as (_ & _ & C' & _). apply C'.
    exact (tail_in_chain oc p0 s R HP). }
  assert (HA : head sA = head s) by (rewrite I2; reflexivity).
  assert (CA : chain sA = chain s ++ x1 :: xs).
  { rewrite I3. unfold s1, after_xchg. cbn. rewrite <- app_assoc. reflexivity. }
  assert (PA : map fst (hpush sA) = map fst (hpush s) ++ x1 :: xs).
  { rewrite I4, map_app. unfold s1, after_xchg. cbn [hpush set_pc do_push set_owner set_nxt]. rewrite map_app. cbn [map fst].
    rewrite <- app_assoc. cbn [app]. rewrite map_map. cbn [fst]. reflexivity. }
  assert (OA : hpop sA = hpop s) by (rewrite I5; reflexivity).
  assert (RA : reach oc p0 sA) by (apply (grun_reach oc p0 _ s sA R EA)).
  destruct (Z.eqb_spec P 0) as [P0|P0].
  - (* the queue was empty: the store goes to dq_items_head *)
    exists sA, (set_pc (do_head_store sA x1) t1 (PPokeProbe (KClient COut) 1 0)).
    assert (EB : grun oc sA (batch_phaseB t1 x1 P) = Some (set_pc (do_head_store sA x1) t1 (PPokeProbe (KClient COut) 1 0))).
    { unfold batch_phaseB. cbn [grun]. rewrite P0 in *. rewrite (g_link_head oc sA t1 COut x1 PcA). reflexivity. }
    split; [exact EA|]. split; [exact EB|]. split; [exact RA|]. split; [apply (grun_reach oc p0 _ sA _ RA EB)|].
    split; [exact I1|]. split; [exact HA|]. split; [exact LA|]. split; [exact CA|]. split; [exact PA|]. split; [exact OA|].
    split; [exact NP|]. cbn. repeat split; auto.
  - exists sA, (set_pc (set_owner (set_nxt sA P x1) x1 None) t1 (PClient COut)).
    assert (EB : grun oc sA (batch_phaseB t1 x1 P) = Some (set_pc (set_owner (set_nxt sA P x1) x1 None) t1 (PClient COut))).
    { unfold batch_phaseB. cbn [grun]. rewrite (g_link_next oc sA t1 COut x1 P PcA P0). reflexivity. }
    split; [exact EA|]. split; [exact EB|]. split; [exact RA|]. split; [apply (grun_reach oc p0 _ sA _ RA EB)|].
    split; [exact I1|]. split; [exact HA|]. split; [exact LA|]. split; [exact CA|]. split; [exact PA|]. split; [exact OA|].
    split; [exact NP|].
    assert (PX : P <> x1) by (intros E; apply C; rewrite <- E; exact (tail_in_chain oc p0 s R P0)).
    assert (PN : ~ In P (map snd rest)).
    { intros Hin. destruct (in_map_iff snd rest P) as [Hm _]. destruct (Hm Hin) as ([t' x'] & Ex & Hin').
      cbn in Ex. subst x'. destruct (F0 t' P (or_intror Hin')) as (_ & _ & C' & _). apply C'.
      exact (tail_in_chain oc p0 s R P0). }
    cbn [tail chain hpush hpop head nxt set_pc set_owner set_nxt].
    split; [reflexivity|]. split; [reflexivity|]. split; [reflexivity|]. split; [reflexivity|]. split.
    + apply linked_upd; [congruence|exact PN|exact LA].
    + split; [apply upd_same|exact HA].
Qed.
