(* RootQ_pool_proofs.v — Part 2 of the root queue proofs: counting invariants of the pool protocol
   (semaphore balance, dgq_pending and dgq_thread_pool_size accounting, no int wrap, no "pending underflow" crash). *)
From Coq Require Import ZArith Bool List Lia.
From Verif Require Import Word Conc Gen_consts Gen_fields Gen_rootq RootQ RootQ_proofs.
Import ListNotations.
Local Open Scope Z_scope.

(* ---- counting over the finite support ---- *)
Lemma tsum_upd_notin w f t p l : ~ In t l -> tsum w (upd f t p) l = tsum w f l.
Proof.
  induction l as [|a l IH]; cbn; intros H; [reflexivity|].
  rewrite upd_other by (intros ->; apply H; left; reflexivity). rewrite IH; [reflexivity|]. intros X; apply H; right; exact X.
Qed.
Lemma tsum_upd_in w f t p l : NoDup l -> In t l -> tsum w (upd f t p) l = tsum w f l - w (f t) + w p.
Proof.
  induction l as [|a l IH]; intros ND HI; [contradiction|]. inversion ND as [|? ? Hn ND']; subst. cbn.
  destruct (Z.eq_dec a t) as [->|Ne].
  - rewrite upd_same, tsum_upd_notin by assumption. lia.
  - destruct HI as [->|HI]; [contradiction|]. rewrite upd_other by exact Ne. rewrite IH by assumption. lia.
Qed.
Lemma tsum_nonneg w f l : (forall p, 0 <= w p) -> 0 <= tsum w f l.
Proof. intros H. induction l; cbn; [lia|]. specialize (H (f a)). lia. Qed.
Lemma tsum_ge w f l t : (forall p, 0 <= w p) -> In t l -> w (f t) <= tsum w f l.
Proof.
  intros Hw. induction l; cbn; intros HI; [contradiction|]. destruct HI as [->|HI].
  - pose proof (tsum_nonneg w f l Hw). lia.
  - specialize (IHl HI). specialize (Hw (f a)). lia.
Qed.
Lemma tsum_zero w f l : (forall u, In u l -> w (f u) = 0) -> tsum w f l = 0.
Proof. induction l; cbn; intros H; [reflexivity|]. rewrite H by (left; reflexivity). rewrite IHl; [reflexivity|]. intros; apply H; right; auto. Qed.
Lemma tsum_pos_ex w f l : (forall p, 0 <= w p) -> 0 < tsum w f l -> exists t, In t l /\ 0 < w (f t).
Proof.
  intros Hw. induction l; cbn; intros H; [lia|]. destruct (Z_lt_le_dec 0 (w (f a))).
  - exists a. auto.
  - specialize (Hw (f a)). destruct IHl as (t & A & B); [lia|]. exists t. auto.
Qed.

Definition support_ok (s : gst) : Prop := NoDup (seen s) /\ forall t, pcs s t <> PNone -> In t (seen s).

Lemma add_seen_spec t l : NoDup l -> NoDup (add_seen t l) /\ In t (add_seen t l) /\ (forall u, In u l -> In u (add_seen t l)).
Proof.
  intros ND. unfold add_seen. destruct (memz t l) eqn:M.
  - apply memz_In in M. auto.
  - apply memz_false in M. split; [constructor; assumption|]. split; [left; reflexivity|]. intros; right; assumption.
Qed.

Lemma support_set_pc s t p : support_ok s -> support_ok (set_pc s t p).
Proof.
  intros [ND H]. destruct (add_seen_spec t (seen s) ND) as (A & B & C). split; cbn; [exact A|].
  intros u Hu. destruct (Z.eq_dec u t) as [->|Ne]; [exact B|]. rewrite upd_other in Hu by exact Ne. apply C. apply H. exact Hu.
Qed.
Lemma cnt_set_pc w s t p : support_ok s -> w PNone = 0 -> cnt w (set_pc s t p) = cnt w s - w (pcs s t) + w p.
Proof.
  intros [ND H] W0. unfold cnt. cbn. unfold add_seen. destruct (memz t (seen s)) eqn:M.
  - apply memz_In in M. apply tsum_upd_in; assumption.
  - apply memz_false in M. cbn. rewrite upd_same, tsum_upd_notin by exact M.
    assert (E : pcs s t = PNone). { destruct (pcs s t) eqn:E; try reflexivity; exfalso; apply M; apply H; congruence. }
    rewrite E, W0. lia.
Qed.
Lemma support_create s u : support_ok s -> support_ok (do_create s u).
Proof. intros H. apply (support_set_pc s u PWStart H). Qed.
Lemma cnt_create w s u : support_ok s -> w PNone = 0 -> pcs s u = PNone -> cnt w (do_create s u) = cnt w s + w PWStart.
Proof. intros H W0 E. change (cnt w (do_create s u)) with (cnt w (set_pc s u PWStart)). rewrite cnt_set_pc by assumption. rewrite E, W0. lia. Qed.

(* ---- weights: is_slow, is_sigpost, w_pend, wk, w_pool are defined in Model/RootQ.v ---- *)
Lemma weights_nonneg : (forall p, 0 <= is_slow p) /\ (forall p, 0 <= is_sigpost p) /\ (forall p, 0 <= w_pend p) /\
  (forall p, 0 <= wk p) /\ (forall p, 0 <= w_pool p).
Proof.
  assert (C : forall c, 0 <= ctxw c) by (intros []; cbn; lia).
  assert (K : forall k, 0 <= kw k) by (intros []; cbn; auto; lia).
  assert (W : forall p, 0 <= wk p) by (intros p; destruct p; cbn; auto; lia).
  repeat split; auto; intros p.
  - destruct p; cbn; lia.
  - destruct p; cbn; lia.
  - destruct p; cbn; try lia; repeat match goal with b : bool |- _ => destruct b end; lia.
  - unfold w_pool. specialize (W p). destruct p; lia.
Qed.
Lemma wk_kret k : wk (kret k) = kw k.
Proof. destruct k; reflexivity. Qed.
Lemma wk_cw_resume st : wk (cw_resume st) = 1.
Proof. unfold cw_resume. destruct (st =? ST_READY); reflexivity. Qed.

(* thread-local facts about the arguments carried by a program point: one thread is requested per poke *)
Definition pc_wf (p : pc) : Prop :=
  match p with
  | PPokeProbe _ n f => n = 1 /\ floor_ok f = true
  | PSigInc _ rem f | PSigPost _ rem f | PPendReq _ rem f | PPoolLoad _ rem f => rem = 1 /\ floor_ok f = true
  | PPoolLoop _ rem f tc => rem = 1 /\ floor_ok f = true /\ - FLOOR_B <= tc <= RQ_MAX_PTHREAD_COUNT
  | PCreate _ rem => rem = 1
  | _ => True
  end.

Record InvC (s : gst) : Prop := {
  C_sup : support_ok s;
  C_wf : forall t, pc_wf (pcs s t);
  C_ksem : 0 <= ksem s;
  C_sval : RQ_LONG_MIN <= sval s <= RQ_LONG_MAX;
  C_sem : cnt is_slow s = Z.max 0 (- sval s) + cnt is_sigpost s + ksem s;
  C_pend : pend s = cnt w_pend s;
  C_pendmax : pend s <= RQ_INT_MAX;
  C_pool : pool0 s - pool s = cnt w_pool s;
  C_poolmin : - FLOOR_B <= pool s;
  C_p0 : pool0 s <= RQ_MAX_PTHREAD_COUNT
}.

Lemma InvC_init p0 : valid_init p0 -> InvC (init_state p0).
Proof.
  intros V. unfold valid_init, RQ_MAX_PTHREAD_COUNT in V. constructor; cbn.
  - split; cbn; [constructor|congruence].
  - intros; exact Logic.I.
  - lia.
  - unfold RQ_LONG_MIN, RQ_LONG_MAX; lia.
  - reflexivity.
  - reflexivity.
  - unfold RQ_INT_MAX; lia.
  - unfold cnt; cbn; lia.
  - unfold FLOOR_B; lia.
  - unfold RQ_MAX_PTHREAD_COUNT; lia.
Qed.

(* ---- preservation ---- *)
Lemma invC_generic s s1 t p' :
  InvC s -> pcs s1 = pcs s -> seen s1 = seen s -> pool0 s1 = pool0 s -> pc_wf p' ->
  0 <= ksem s1 -> RQ_LONG_MIN <= sval s1 <= RQ_LONG_MAX ->
  is_slow p' - is_slow (pcs s t) =
    (Z.max 0 (- sval s1) - Z.max 0 (- sval s)) + (is_sigpost p' - is_sigpost (pcs s t)) + (ksem s1 - ksem s) ->
  pend s1 - pend s = w_pend p' - w_pend (pcs s t) -> pend s1 <= RQ_INT_MAX ->
  pool s - pool s1 = w_pool p' - w_pool (pcs s t) -> - FLOOR_B <= pool s1 ->
  InvC (set_pc s1 t p').
Proof.
  intros IC Ep Es E0 Wf Hk Hv Hsem Hpend Hpm Hpool Hpl.
  assert (S1 : support_ok s1). { destruct (C_sup s IC) as [A B]. split; [rewrite Es; exact A|]. intros u. rewrite Ep, Es. apply B. }
  assert (Cn : forall w, cnt w s1 = cnt w s) by (intros w; unfold cnt; rewrite Ep, Es; reflexivity).
  constructor; cbn.
  - apply support_set_pc. exact S1.
  - intros u. destruct (Z.eq_dec u t) as [->|Ne]; [rewrite upd_same; exact Wf|]. rewrite upd_other by exact Ne. rewrite Ep. apply (C_wf s IC).
  - exact Hk.
  - exact Hv.
  - change (cnt is_slow (set_pc s1 t p') = Z.max 0 (- sval s1) + cnt is_sigpost (set_pc s1 t p') + ksem s1).
    rewrite !cnt_set_pc by (auto; reflexivity). rewrite !Cn, Ep. pose proof (C_sem s IC). lia.
  - change (pend s1 = cnt w_pend (set_pc s1 t p')). rewrite cnt_set_pc by (auto; reflexivity). rewrite Cn, Ep.
    pose proof (C_pend s IC). lia.
  - exact Hpm.
  - change (pool0 s1 - pool s1 = cnt w_pool (set_pc s1 t p')). rewrite cnt_set_pc by (auto; reflexivity). rewrite Cn, Ep, E0.
    pose proof (C_pool s IC). lia.
  - exact Hpl.
  - rewrite E0. apply (C_p0 s IC).
Qed.

Lemma invC_create s t u k : InvC s -> pcs s t = PCreate k 1 -> pcs s u = PNone -> u <> t ->
  InvC (set_pc (do_create s u) t (kret k)).
Proof.
  intros IC Hpc Pu Nu. pose proof (C_sup s IC) as S0.
  assert (S1 : support_ok (do_create s u)) by (apply support_create; exact S0).
  assert (Pt : pcs (do_create s u) t = PCreate k 1) by (cbn; rewrite upd_other by (intros E; apply Nu; auto); exact Hpc).
  constructor; cbn.
  - apply support_set_pc. exact S1.
  - intros v. destruct (Z.eq_dec v t) as [->|Ne]; [rewrite upd_same; destruct k; exact Logic.I|]. rewrite upd_other by exact Ne.
    destruct (Z.eq_dec v u) as [->|Ne2]; [rewrite upd_same; exact Logic.I|]. rewrite upd_other by exact Ne2. apply (C_wf s IC).
  - apply (C_ksem s IC).
  - apply (C_sval s IC).
  - change (cnt is_slow (set_pc (do_create s u) t (kret k)) = Z.max 0 (- sval s) + cnt is_sigpost (set_pc (do_create s u) t (kret k)) + ksem s).
    rewrite !cnt_set_pc by (auto; reflexivity). rewrite !cnt_create by (auto; reflexivity). rewrite Pt.
    pose proof (C_sem s IC). assert (is_slow (kret k) = 0 /\ is_sigpost (kret k) = 0) by (destruct k; cbn; auto). cbn. lia.
  - change (pend s = cnt w_pend (set_pc (do_create s u) t (kret k))). rewrite cnt_set_pc by (auto; reflexivity).
    rewrite cnt_create by (auto; reflexivity). rewrite Pt. pose proof (C_pend s IC).
    assert (w_pend (kret k) = 0) by (destruct k; cbn; auto). cbn. lia.
  - apply (C_pendmax s IC).
  - change (pool0 s - pool s = cnt w_pool (set_pc (do_create s u) t (kret k))). rewrite cnt_set_pc by (auto; reflexivity).
    rewrite cnt_create by (auto; reflexivity). rewrite Pt. pose proof (C_pool s IC).
    assert (E1 : w_pool (kret k) = kw k) by (destruct k as [[|]| | |]; reflexivity).
    assert (E2 : w_pool (PCreate k 1) = kw k + 1) by reflexivity.
    assert (E3 : w_pool PWStart = 1) by reflexivity. rewrite E1, E2, E3. lia.
  - apply (C_poolmin s IC).
  - apply (C_p0 s IC).
Qed.

Ltac b2p :=
  repeat match goal with
  | X : (_ && _) = true |- _ => apply andb_true_iff in X as [? ?]
  | X : (_ || _) = true |- _ => apply orb_true_iff in X
  | X : negb _ = true |- _ => apply negb_true_iff in X
  | X : negb _ = false |- _ => apply negb_false_iff in X
  | X : (_ =? _) = true |- _ => apply Z.eqb_eq in X
  | X : (_ =? _) = false |- _ => apply Z.eqb_neq in X
  | X : (_ <? _) = true |- _ => apply Z.ltb_lt in X
  | X : (_ <? _) = false |- _ => apply Z.ltb_ge in X
  | X : (_ <=? _) = true |- _ => apply Z.leb_le in X
  | X : (_ <=? _) = false |- _ => apply Z.leb_gt in X
  | X : (_ >? _) = true |- _ => rewrite Z.gtb_ltb in X
  | X : (_ >? _) = false |- _ => rewrite Z.gtb_ltb in X
  | X : (_ >=? _) = true |- _ => rewrite Z.geb_leb in X
  | X : (_ >=? _) = false |- _ => rewrite Z.geb_leb in X
  | X : Bool.eqb true _ = true |- _ => apply eqb_prop in X; symmetry in X
  | X : Bool.eqb false _ = true |- _ => apply eqb_prop in X; symmetry in X
  end.

Lemma s64_inc_pos v : RQ_LONG_MIN <= v <= RQ_LONG_MAX -> s64 (v + 1) <> RQ_LONG_MIN -> s64 (v + 1) = v + 1 /\ v + 1 <= RQ_LONG_MAX.
Proof.
  unfold RQ_LONG_MIN, RQ_LONG_MAX. intros R H.
  destruct (Z.eq_dec v 9223372036854775807) as [->|Ne]; [exfalso; apply H; reflexivity|].
  split; [apply s64_id|]; lia.
Qed.
Lemma s64_dec v : RQ_LONG_MIN < v <= RQ_LONG_MAX -> s64 (v - 1) = v - 1.
Proof. unfold RQ_LONG_MIN, RQ_LONG_MAX. intros R. apply s64_id. lia. Qed.

Lemma cnt_nonneg_pool s : 0 <= cnt w_pool s.
Proof. apply tsum_nonneg. apply weights_nonneg. Qed.

Ltac wfacts IC Hpc t :=
  let W := fresh "W" in pose proof (C_wf _ IC t) as W; rewrite Hpc in W; cbn in W;
  pose proof (C_ksem _ IC); pose proof (C_sval _ IC); pose proof (C_pendmax _ IC); pose proof (C_poolmin _ IC);
  pose proof (C_p0 _ IC); pose proof (C_pool _ IC);
  match type of IC with InvC ?s0 => pose proof (cnt_nonneg_pool s0) end.
Ltac fin IC Hpc :=
  match goal with
  | |- InvC (set_pc ?s1 ?t ?p) =>
      eapply (invC_generic _ s1 t p IC); try reflexivity; rewrite ?Hpc; unfold w_pool; cbn [pend pool sval ksem pool0 pcs seen set_pend set_pool set_sval set_ksem set_head set_nxt set_owner do_push do_head_store do_claim do_detach do_run is_slow is_sigpost w_pend wk kw ctxw kret pc_wf]; try tauto; try lia;
      try (unfold RQ_INT_MAX, RQ_LONG_MIN, RQ_LONG_MAX, FLOOR_B, floor_ok in *; b2p; lia)
  end.

Lemma ev_at_kind e k o ob off : ev_at e k o ob off = true -> ek e = k.
Proof. unfold ev_at. intros H. b2p. assumption. Qed.
Ltac kinds := repeat match goal with X : ev_at ?e ?k _ _ _ = true |- _ => apply ev_at_kind in X end;
  unfold DV_LOAD, DV_ADD, DV_SUB in *.

Ltac open_case H := repeat split_if H; injection H as <-; b2p.
Ltac kcases := try match goal with k : kont |- _ => destruct k as [[|]| | |] end.
Ltac sval_rw := match goal with X : s64 (ea _) = sval _ |- _ => rewrite X in * end.

Theorem invC_step oc s t e s' : Inv1 s -> InvC s -> gstep oc s t e = Some s' -> InvC s'.
Proof.
  intros I1 IC H. destruct (pcs s t) eqn:Hpc; gstep_open H Hpc; try unfold call_entry in H; wfacts IC Hpc t.
  (* PSigInc *)
  all: try solve [ match type of Hpc with _ = PSigInc _ _ _ => idtac end;
    open_case H; sval_rw;
    match goal with R : RQ_LONG_MIN <= sval ?s0 <= RQ_LONG_MAX |- _ =>
      destruct (s64_inc_pos (sval s0)) as [E1 E2]; [assumption| unfold RQ_LONG_MIN in *; lia |] end;
    rewrite E1 in *; kcases; fin IC Hpc ].
  (* PPoolLoop *)
  all: try solve [ match type of Hpc with _ = PPoolLoop _ _ _ _ => idtac end;
    open_case H; destruct W as (-> & Wf & Wtc); kcases;
    match type of Wf with floor_ok ?f = true =>
      assert (Fl : - FLOOR_B <= f <= FLOOR_B) by (clear - Wf; unfold floor_ok in Wf; b2p; lia) end;
    unfold can_request, FLOOR_B in *;
    match goal with |- context [?a <? ?b] => destruct (a <? b) eqn:? | _ : context [?a <? ?b] |- _ => destruct (a <? b) eqn:? end;
    b2p; fin IC Hpc ].
  (* PCreate *)
  all: try solve [ match type of Hpc with _ = PCreate _ _ => idtac end;
    subst; open_case H; try lia;
    apply invC_create; auto;
    match goal with X : pc_is_none ?p = true |- _ => destruct p; try discriminate X; reflexivity end ].
  (* contended wait *)
  all: try solve [ match type of Hpc with _ = PCwEval _ _ => idtac end;
    destruct q, pd; open_case H; try discriminate; unfold cw_after, cw_resume, ST_READY; cbn; fin IC Hpc; kinds; lia ].
  all: try solve [ match type of Hpc with _ = PCwEvalT _ _ => idtac end;
    destruct pd; open_case H; unfold cw_after, cw_resume;
    repeat match goal with |- context [if ?c then _ else _] => destruct c end; fin IC Hpc ].
  all: try solve [ match type of Hpc with _ = PCwOut _ => idtac end;
    open_case H; unfold cw_resume;
    repeat match goal with |- context [if ?c then _ else _] => destruct c end; fin IC Hpc ].
  (* PSemDec *)
  all: try solve [ match type of Hpc with _ = PSemDec => idtac end;
    open_case H; sval_rw; rewrite s64_dec in * by lia; fin IC Hpc ].
  (* everything else *)
  all: try solve [ destruct oc; open_case H; kcases; try match goal with c : ctx |- _ => destruct c end; fin IC Hpc ].
Qed.

Theorem invC_reach oc p0 s : valid_init p0 -> reach oc p0 s -> InvC s /\ pool0 s = p0.
Proof.
  intros V R. assert (X : Inv1 s /\ InvC s /\ pool0 s = p0); [|tauto].
  induction R as [s E|s [t e] s' R IH St].
  - subst. split; [apply Inv1_init|]. split; [apply InvC_init; exact V|reflexivity].
  - destruct IH as (I1 & IC & E). split; [eapply inv1_step; eauto|]. split; [eapply invC_step; eauto|].
    unfold step, gstep in St. cbn [fst snd] in St. destruct (tstep oc (pcs s t) e); [|discriminate].
    destruct (effect oc s t e) as [s1|] eqn:Ef; [|discriminate]. injection St as <-. cbn. rewrite <- E.
    unfold effect, guard in Ef. destruct (pcs s t); repeat split_if Ef; injection Ef as <-; reflexivity.
Qed.

(* consequences: the C int fields never wrap, the pool is bounded, the "Pending thread request underflow" crash of
   _dispatch_worker_thread never fires *)
Lemma cnt_nonneg w s : (forall p, 0 <= w p) -> 0 <= cnt w s.
Proof. intros H. apply tsum_nonneg. exact H. Qed.

Lemma int_fields_in_range s : InvC s -> 0 <= pend s <= RQ_INT_MAX /\ - FLOOR_B <= pool s <= pool0 s.
Proof.
  intros IC. destruct weights_nonneg as (_ & _ & Wp & _ & Wl).
  pose proof (cnt_nonneg w_pend s Wp). pose proof (cnt_nonneg w_pool s Wl).
  pose proof (C_pend s IC). pose proof (C_pendmax s IC). pose proof (C_pool s IC). pose proof (C_poolmin s IC). lia.
Qed.

Lemma worker_start_has_pending s t : InvC s -> pcs s t = PWStart -> 1 <= pend s.
Proof.
  intros IC Hpc. destruct weights_nonneg as (_ & _ & Wp & _).
  assert (In t (seen s)) by (apply (C_sup s IC); congruence).
  pose proof (tsum_ge w_pend (pcs s) (seen s) t Wp H) as G. rewrite Hpc in G. cbn in G.
  rewrite (C_pend s IC). exact G.
Qed.
