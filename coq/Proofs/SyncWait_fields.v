(* SyncWait_fields.v — field-level specifications of the generated dq_state bodies used by the synchronous hand-off
   model (Model/SyncWait.v) that Proofs/Lane_fields.v does not already cover: what each rmw body does to the fields of
   the word, for every well-formed word. *)
From Coq Require Import ZArith Bool List Lia.
From Verif Require Import Word Bits Fields DqFields Conc Gen_consts Gen_dqstate Gen_lanesites Lane_fields SyncWait.
Import ListNotations.
Local Open Scope Z_scope.

Definition idle_r (r : dqf) : bool :=
  (f_owner r =? 0) && (f_tr r =? 0) && (f_enq r =? 0) && (f_mq r =? 0) && (f_ov r =? 0) && (f_em r =? 0) &&
  (f_d r =? 0) && (f_pb r =? 0) && (f_wq r =? 4095) && (f_ib r =? 0) && (f_hi r =? 0).

Lemma enc_inj r1 r2 : wfr r1 -> wfr r2 -> enc r1 = enc r2 -> r1 = r2.
Proof. intros W1 W2 E. rewrite <- (dec_enc r1 W1), <- (dec_enc r2 W2), E. reflexivity. Qed.

Lemma role_bits r : wfr r -> Z.land (enc r) 206158430208 = 68719476736 * f_role r.
Proof.
  intros W. pose proof W as W'. unfold wfr in W'. rewrite enc_vec. vec_land 206158430208. fsimp. rewrite vec_linear. lia.
Qed.

Lemma fast_fields r self : wfr r -> 0 < self < 1073741824 ->
  b_fast self (enc r) =
  if idle_r r then Commit (enc (mk self 0 0 0 0 (f_role r) 0 0 0 4096 1 0)) 1 else NoCommit 0 [].
Proof.
  intros W Hs. pose proof W as W'. unfold wfr in W'.
  unfold b_fast, f_dispatch_queue_try_acquire_barrier_sync_and_suspend. cbv zeta.
  rewrite role_bits by exact W.
  change (u64 (Z.shiftl (u64 (4096 - 1)) 41)) with 9005000231485440.
  change (u64 (0 * 288230376151711744)) with 0.
  unfold f_dispatch_lock_value_from_tid. rewrite (land_owner self) by lia.
  assert (Er : 68719476736 * f_role r = encode LAY [0;0;0;0;0;f_role r;0;0;0;0;0;0]) by (rewrite vec_linear; lia).
  rewrite Er.
  assert (Ei : 9005000231485440 = encode LAY [0;0;0;0;0;0;0;0;0;4095;0;0]) by (rewrite vec_linear; lia).
  rewrite Ei. rewrite encode_lor by wfv_tac. cbn [map2]. fsimp.
  assert (Ev : Z.lor 27021597764222976 self = encode LAY [self;0;0;0;0;0;0;0;0;4096;1;0]).
  { rewrite vec_linear. rewrite Z.lor_comm.
    pose proof (lor_disjoint self 25165824 30) as D. change (2 ^ 30) with 1073741824 in D.
    change (25165824 * 1073741824) with 27021597764222976 in D. rewrite D by lia. lia. }
  rewrite Ev. rewrite encode_lor by wfv_tac. cbn [map2]. fsimp.
  change (Z.lor 4095 0) with 4095. change (Z.lor 4096 0) with 4096.
  change (encode LAY [self; 0; 0; 0; 0; f_role r; 0; 0; 0; 4096; 1; 0]) with (enc (mk self 0 0 0 0 (f_role r) 0 0 0 4096 1 0)).
  change (encode LAY [0; 0; 0; 0; 0; f_role r; 0; 0; 0; 4095; 0; 0]) with (enc (mk 0 0 0 0 0 (f_role r) 0 0 0 4095 0 0)).
  assert (Wi : wfr (mk 0 0 0 0 0 (f_role r) 0 0 0 4095 0 0)) by (unfold wfr, mk; cbn; lia).
  destruct (idle_r r) eqn:I.
  - unfold idle_r in I. rewrite !andb_true_iff in I. rewrite !Z.eqb_eq in I.
    assert (E : r = mk 0 0 0 0 0 (f_role r) 0 0 0 4095 0 0).
    { destruct r as [a0 a1 a2 a3 a4 a5 a6 a7 a8 a9 a10 a11]; unfold mk; cbn [f_owner f_tr f_enq f_mq f_ov f_role f_em f_d f_pb f_wq f_ib f_hi] in *. f_equal; lia. }
    rewrite <- E. rewrite Z.eqb_refl. reflexivity.
  - destruct (Z.eqb_spec (enc r) (enc (mk 0 0 0 0 0 (f_role r) 0 0 0 4095 0 0))) as [E|]; [|reflexivity].
    apply enc_inj in E; [|exact W|exact Wi]. exfalso.
    assert (idle_r r = true); [|congruence]. rewrite E. unfold idle_r, mk; cbn. reflexivity.
Qed.

Lemma nz_mul k x : 0 < k -> 0 <= x -> nz (k * x) = negb (x =? 0).
Proof. intros. unfold nz. destruct (Z.eqb_spec x 0) as [->|]; [rewrite Z.mul_0_r; reflexivity|]. destruct (Z.eqb_spec (k * x) 0); [nia|reflexivity]. Qed.

Definition unlock_clean (r : dqf) : bool :=
  (f_tr r =? 0) && (f_enq r =? 0) && (f_ov r =? 0) && (f_d r =? 0) && (f_hi r =? 0).

Lemma bunlock_fields r : wfr r -> f_ib r = 1 -> f_wq r = 4096 ->
  b_unlock (enc r) =
  if unlock_clean r then Commit (enc (mk 0 0 0 0 0 (f_role r) (f_em r) 0 (f_pb r) 4095 0 0)) 0 else NoCommit 1 [].
Proof.
  intros W Hib Hwq. pose proof W as W'. unfold wfr in W'.
  unfold b_unlock, barrier_sync_unlock_loop. cbv zeta.
  assert (Em : Z.land (enc r) 18410715864027365376 =
               1073741824 * f_tr r + 2147483648 * f_enq r + 34359738368 * f_ov r + 549755813888 * f_d r +
               36028797018963968 * f_hi r).
  { rewrite enc_vec. vec_land 18410715864027365376. fsimp. rewrite vec_linear. lia. }
  rewrite Em.
  destruct (unlock_clean r) eqn:C.
  - unfold unlock_clean in C. rewrite !andb_true_iff in C. rewrite !Z.eqb_eq in C.
    destruct C as [[[[C1 C2] C3] C4] C5]. rewrite C1, C2, C3, C4, C5. cbn [Z.mul Z.add nz Z.eqb negb].
    assert (E : u64 (enc r - 18016597532737536) =
                encode LAY [f_owner r; 0; 0; f_mq r; 0; f_role r; f_em r; 0; f_pb r; 4095; 0; 0]).
    { rewrite enc_linear, vec_linear, Hib, Hwq, C1, C2, C3, C4, C5. rewrite u64_id'' by lia. lia. }
    rewrite E. vec_land 18446744037202329600. fsimp. vec_land 18446744043644780543. fsimp. reflexivity.
  - assert (N : nz (1073741824 * f_tr r + 2147483648 * f_enq r + 34359738368 * f_ov r + 549755813888 * f_d r +
                    36028797018963968 * f_hi r) = true).
    { unfold nz. match goal with |- negb (?x =? 0) = true => destruct (Z.eqb_spec x 0) as [Z0|]; [|reflexivity] end.
      exfalso. assert (unlock_clean r = true); [|congruence].
      unfold unlock_clean. rewrite !andb_true_iff, !Z.eqb_eq. lia. }
    rewrite N. reflexivity.
Qed.

Lemma dbw_fields r e w : wfr r -> f_role r < 2 -> 0 < w < 1073741824 -> 0 <= e <= f_enq r ->
  b_dbw (2147483648 * e) (enc r) w =
  Commit (enc (mk w 0 (f_enq r - e) (f_mq r) 0 (f_role r) (f_em r) 0 (f_pb r) (f_wq r) (f_ib r) (f_hi r))) 0.
Proof.
  intros W Hr Hw He. pose proof W as W'. unfold wfr in W'.
  unfold b_dbw, drain_barrier_waiter_loop. cbv zeta.
  rewrite base_wlh_f by exact W.
  destruct (Z.leb_spec 2 (f_role r)); [lia|]. cbv iota.
  rewrite (enc_vec r). vec_land 18446744037202329600. fsimp. vec_land 18446743523953737727. fsimp.
  assert (Ew : w = encode LAY [w;0;0;0;0;0;0;0;0;0;0;0]) by (rewrite vec_linear; lia).
  rewrite Ew at 1. rewrite encode_lor by wfv_tac. cbn [map2]. fsimp.
  change (Z.lor 0 w) with w. f_equal.
  unfold enc, vec, mk; cbn [f_owner f_tr f_enq f_mq f_ov f_role f_em f_d f_pb f_wq f_ib f_hi].
  rewrite !vec_linear. rewrite u64_id'' by lia. lia.
Qed.

(* r with the serial drain ownership (IN_BARRIER + one width interval) given back *)
Definition unown (r : dqf) : dqf :=
  mk (f_owner r) (f_tr r) (f_enq r) (f_mq r) (f_ov r) (f_role r) (f_em r) (f_d r) (f_pb r) 4095 0 (f_hi r).
Lemma unown_wf r : wfr r -> wfr (unown r).
Proof. unfold wfr, unown, mk; cbn. intros; repeat split; lia. Qed.
Lemma sub_owned r : wfr r -> f_ib r = 1 -> f_wq r = 4096 -> u64 (enc r - 18016597532737536) = enc (unown r).
Proof.
  intros W Hib Hwq. pose proof W as W'. unfold wfr in W'.
  rewrite !enc_linear. unfold unown, mk; cbn [f_owner f_tr f_enq f_mq f_ov f_role f_em f_d f_pb f_wq f_ib f_hi].
  rewrite Hib, Hwq. rewrite u64_id'' by lia. lia.
Qed.

Lemma cbc_fields_enq r q : wfr r -> f_ib r = 1 -> f_wq r = 4096 -> f_hi r = 0 -> 0 <= q < 8 ->
  b_cbc ENQ (enc r) q =
  let m := merged (unown r) q in
  Commit (enc (mk 0 0 (if (f_enq r =? 0) && (f_em r =? 0) then 1 else f_enq r) (f_mq m) 0 (f_role r) (f_em r) (f_d r)
                  (f_pb r) 4095 0 0)) 0.
Proof.
  intros W Hib Hwq Hhi Q. pose proof W as W'. unfold wfr in W'.
  unfold b_cbc, class_barrier_complete_loop, OWNED, ENQ, DISPATCH_QUEUE_SERIAL_DRAIN_OWNED, DISPATCH_QUEUE_ENQUEUED. cbv zeta.
  rewrite sub_owned by assumption.
  pose proof (unown_wf r W) as Wu.
  rewrite merge_qos_fields by assumption.
  rewrite is_suspended_f by exact W. rewrite Hhi. cbn [Z.ltb Z.compare negb].
  change (nz 2147483648) with true. cbv iota.
  rewrite is_enqueued_f by exact W.
  pose proof (merged_wf (unown r) q Wu Q) as Wm. pose proof Wm as Wm'. unfold wfr in Wm'.
  set (m := merged (unown r) q) in *.
  assert (Same : f_owner m = f_owner r /\ f_tr m = f_tr r /\ f_enq m = f_enq r /\ f_role m = f_role r /\ f_em m = f_em r /\
                 f_d m = f_d r /\ f_pb m = f_pb r /\ f_wq m = 4095 /\ f_ib m = 0 /\ f_hi m = 0).
  { subst m. unfold merged. destruct (f_mq (unown r) <? q); unfold unown, mk; cbn; rewrite ?Hhi; repeat split; reflexivity. }
  destruct Same as (S1 & S2 & S3 & S4 & S5 & S6 & S7 & S8 & S9 & S10).
  rewrite (enc_vec m). vec_land 18446744037202329600. fsimp.
  rewrite S3, S4, S5, S6, S7, S8, S9, S10.
  rewrite negb_involutive.
  destruct ((f_enq r =? 0) && (f_em r =? 0)) eqn:E.
  - apply andb_true_iff in E as [E1 E2]. apply Z.eqb_eq in E1, E2. rewrite E1.
    vec_lor 2147483648. fsimp. change (Z.lor 0 1) with 1. reflexivity.
  - reflexivity.
Qed.

Lemma cbc_fields_none r q : wfr r -> f_ib r = 1 -> f_wq r = 4096 -> f_hi r = 0 -> 0 <= q < 8 ->
  b_cbc 0 (enc r) q =
  if f_d r =? 1 then NoCommit 1 [AXor 0 0 Acquire]
  else Commit (enc (mk 0 0 (f_enq r) 0 0 (f_role r) (f_em r) 0 (f_pb r) 4095 0 0)) 0.
Proof.
  intros W Hib Hwq Hhi Q. pose proof W as W'. unfold wfr in W'.
  unfold b_cbc, class_barrier_complete_loop, OWNED, DISPATCH_QUEUE_SERIAL_DRAIN_OWNED. cbv zeta.
  rewrite sub_owned by assumption.
  pose proof (unown_wf r W) as Wu.
  rewrite merge_qos_fields by assumption.
  rewrite is_suspended_f by exact W. rewrite Hhi. cbn [Z.ltb Z.compare negb].
  change (nz 0) with false. cbv iota.
  rewrite is_dirty_f by exact W.
  destruct (Z.eqb_spec (f_d r) 1) as [D|D]; cbn [negb]; [reflexivity|].
  pose proof (merged_wf (unown r) q Wu Q) as Wm. pose proof Wm as Wm'. unfold wfr in Wm'.
  set (m := merged (unown r) q) in *.
  assert (Same : f_owner m = f_owner r /\ f_tr m = f_tr r /\ f_enq m = f_enq r /\ f_role m = f_role r /\ f_em m = f_em r /\
                 f_d m = f_d r /\ f_pb m = f_pb r /\ f_wq m = 4095 /\ f_ib m = 0 /\ f_hi m = 0).
  { subst m. unfold merged. destruct (f_mq (unown r) <? q); unfold unown, mk; cbn; rewrite ?Hhi; repeat split; reflexivity. }
  destruct Same as (S1 & S2 & S3 & S4 & S5 & S6 & S7 & S8 & S9 & S10).
  rewrite (enc_vec m). vec_land 18446744037202329600. fsimp. vec_land 18446744043644780543. fsimp.
  rewrite S3, S4, S5, S6, S7, S8, S9, S10. assert (f_d r = 0) as -> by lia. reflexivity.
Qed.

Definition dirtied (m : dqf) : dqf :=
  mk (f_owner m) (f_tr m) (f_enq m) (f_mq m) (f_ov m) (f_role m) (f_em m) 1 (f_pb m) (f_wq m) (f_ib m) (f_hi m).

Lemma lor_dirty_fields m : wfr m -> Z.lor (enc m) 549755813888 = enc (dirtied m).
Proof. intros W. pose proof W as W'. unfold wfr in W'. rewrite (enc_vec m). vec_lor 549755813888. fsimp. reflexivity. Qed.

Lemma pushw_held r self q : wfr r -> 0 <= q < 8 -> f_owner r <> 0 ->
  b_pushw self (enc r) q = Commit (enc (dirtied (merged r q))) 0.
Proof.
  intros W Q Ho. unfold b_pushw, push_waiter_loop. cbv zeta.
  rewrite merge_qos_fields by assumption. rewrite lor_dirty_fields by (apply merged_wf; assumption).
  rewrite drain_locked_f by exact W. destruct (Z.eqb_spec (f_owner r) 0); [contradiction|]. reflexivity.
Qed.

Lemma runnable_f r : wfr r -> nz (f_dq_state_is_runnable (enc r)) = (f_wq r <? 4096) && (f_ib r =? 0) && (f_hi r =? 0).
Proof.
  intros W. pose proof W as W'. unfold wfr in W'. unfold f_dq_state_is_runnable, nz, b2z. rewrite enc_linear.
  destruct (Z.ltb_spec (f_wq r) 4096), (Z.eqb_spec (f_ib r) 0), (Z.eqb_spec (f_hi r) 0); cbn [andb];
    match goal with |- negb ((if ?c then _ else _) =? 0) = _ => destruct c eqn:C end; try reflexivity;
    first [apply Z.ltb_lt in C | apply Z.ltb_ge in C]; exfalso; lia.
Qed.

Lemma pushw_free r self q : wfr r -> 0 <= q < 8 -> 0 < self < 1073741824 ->
  f_owner r = 0 -> f_ib r = 0 -> f_wq r = 4095 -> f_hi r = 0 -> f_pb r = 0 -> f_role r < 2 ->
  b_pushw self (enc r) q =
  Commit (enc (mk self 0 (f_enq r) (f_mq (merged r q)) 0 (f_role r) (f_em r) 0 0 4096 1 0)) 0.
Proof.
  intros W Q Hs Ho Hib Hwq Hhi Hpb Hr. pose proof W as W'. unfold wfr in W'.
  unfold b_pushw, push_waiter_loop, INB, DISPATCH_QUEUE_IN_BARRIER. cbv zeta.
  rewrite merge_qos_fields by assumption.
  pose proof (merged_wf r q W Q) as Wm. rewrite lor_dirty_fields by exact Wm.
  rewrite drain_locked_f, runnable_f, base_wlh_f, pending_barrier_f by exact W.
  rewrite Ho, Hib, Hwq, Hhi, Hpb. cbn [Z.eqb Z.ltb Z.compare Pos.compare Pos.compare_cont negb orb andb].
  destruct (Z.leb_spec 2 (f_role r)); [lia|]. cbn [andb orb].
  pose proof Wm as Wm'. unfold wfr in Wm'. set (m := merged r q) in *.
  assert (Same : f_owner m = 0 /\ f_tr m = f_tr r /\ f_enq m = f_enq r /\ f_role m = f_role r /\ f_em m = f_em r /\
                 f_pb m = 0 /\ f_wq m = 4095 /\ f_ib m = 0 /\ f_hi m = 0).
  { subst m. unfold merged. destruct (f_mq r <? q); unfold mk; cbn; rewrite ?Ho, ?Hib, ?Hwq, ?Hhi, ?Hpb; repeat split; reflexivity. }
  destruct Same as (S1 & S2 & S3 & S4 & S5 & S7 & S8 & S9 & S10).
  assert (Lt : (u64 (enc (dirtied m) + 0) <? 9007199254740992) = true).
  { apply Z.ltb_lt. rewrite Z.add_0_r. rewrite enc_linear. unfold dirtied, mk; cbn [f_owner f_tr f_enq f_mq f_ov f_role f_em f_d f_pb f_wq f_ib f_hi].
    rewrite S1, S7, S8, S9, S10. rewrite u64_id'' by lia. lia. }
  rewrite Lt. cbv iota.
  unfold dirtied, mk. rewrite enc_vec. cbn [f_owner f_tr f_enq f_mq f_ov f_role f_em f_d f_pb f_wq f_ib f_hi].
  vec_land 513248591872. fsimp.
  assert (Es : Z.lor (Z.lor self 9007199254740992) 18014398509481984 = encode LAY [self;0;0;0;0;0;0;0;0;4096;1;0]).
  { rewrite vec_linear. rewrite <- Z.lor_assoc. change (Z.lor 9007199254740992 18014398509481984) with 27021597764222976.
    pose proof (lor_disjoint self 25165824 30) as D. change (2 ^ 30) with 1073741824 in D.
    change (25165824 * 1073741824) with 27021597764222976 in D. rewrite D by lia. lia. }
  rewrite Es. rewrite encode_lor by wfv_tac. cbn [map2]. fsimp.
  change (Z.lor 0 self) with self. change (Z.lor 0 4096) with 4096. rewrite S3, S4, S5. reflexivity.
Qed.

Lemma wakeup_fields_plain r qos flags target :
  wfr r -> 0 <= qos < 8 -> nz (Z.land flags 2) = false ->
  wakeup_loop 0 qos flags target (enc r) 2147483648 =
  let m := merged r qos in
  let r2 := mk (f_owner m) (f_tr m) (if can_enqueue r then 1 else f_enq m) (f_mq m) (f_ov m) (f_role m) (f_em m) (f_d m)
               (f_pb m) (f_wq m) (f_ib m) (f_hi m) in
  if enc r2 =? enc r then NoCommit 2 [] else Commit (enc r2) 0.
Proof.
  intros W Q F. pose proof W as W'. unfold wfr in W'.
  unfold wakeup_loop. cbv zeta. rewrite F.
  rewrite merge_qos_fields by assumption.
  rewrite is_suspended_f, is_enqueued_f, drain_locked_f, base_wlh_f by exact W.
  change (2147483648 =? 274877906944) with false. cbn [negb andb].
  pose proof (merged_wf r qos W Q) as Wm. pose proof Wm as Wm'. unfold wfr in Wm'.
  set (m := merged r qos) in *.
  assert (Same : f_owner m = f_owner r /\ f_tr m = f_tr r /\ f_enq m = f_enq r /\ f_em m = f_em r /\ f_hi m = f_hi r).
  { subst m. unfold merged. destruct (f_mq r <? qos); cbn; auto. }
  destruct Same as (S1 & S2 & S3 & S4 & S5).
  assert (C : (negb (0 <? f_hi r) && negb (negb ((f_enq r =? 0) && (f_em r =? 0))) &&
               (negb (negb (f_owner r =? 0)) || (2 <=? f_role r))) = can_enqueue r).
  { unfold can_enqueue. rewrite !negb_involutive.
    destruct (Z.ltb_spec 0 (f_hi r)); destruct (Z.eqb_spec (f_hi r) 0); try lia; cbn [negb andb]; try reflexivity;
      try (rewrite andb_assoc; reflexivity). }
  rewrite negb_involutive. rewrite C.
  destruct (can_enqueue r) eqn:CE.
  - rewrite (enc_vec m). vec_lor 2147483648.
    unfold can_enqueue in CE. rewrite !andb_true_iff in CE. destruct CE as [[[_ CE2] _] _]. apply Z.eqb_eq in CE2.
    rewrite S3, CE2. change (Z.lor 0 1) with 1. fsimp. reflexivity.
  - destruct m; reflexivity.
Qed.
