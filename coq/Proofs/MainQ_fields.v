(* MainQ_fields.v — field-level specifications of the generated dq_state bodies used by the main-queue model
   (Model/MainQ.v) that Proofs/Lane_fields.v does not already cover: what each body does to the fields of the word,
   for every well-formed word. *)
From Coq Require Import ZArith Bool List Lia.
From Verif Require Import Word Bits Fields DqFields Gen_consts Gen_dqstate Lane_fields.
Import ListNotations.
Local Open Scope Z_scope.

Lemma wfr_mk' a b c d e f g h i j k l :
  0 <= a < 1073741824 -> 0 <= b < 2 -> 0 <= c < 2 -> 0 <= d < 8 -> 0 <= e < 2 -> 0 <= f < 4 -> 0 <= g < 2 ->
  0 <= h < 2 -> 0 <= i < 2 -> 0 <= j < 8192 -> 0 <= k < 2 -> 0 <= l < 512 -> wfr (mk a b c d e f g h i j k l).
Proof. intros. unfold wfr, mk; cbn. repeat split; lia. Qed.

(* ---- _dispatch_runloop_queue_wakeup: or(dq_state, DIRTY, release) ---- *)
Definition dirtied (m : dqf) : dqf :=
  mk (f_owner m) (f_tr m) (f_enq m) (f_mq m) (f_ov m) (f_role m) (f_em m) 1 (f_pb m) (f_wq m) (f_ib m) (f_hi m).

Lemma or_dirty_fields r : wfr r -> runloop_wakeup_dirty_op (enc r) = Commit (enc (dirtied r)) 0.
Proof.
  intros W. pose proof W as W'. unfold wfr in W'. unfold runloop_wakeup_dirty_op.
  rewrite (enc_vec r). vec_lor 549755813888. fsimp. reflexivity.
Qed.

(* ---- _dispatch_runloop_queue_poke: the rmw loop merging the QoS (gives up when nothing changes) ---- *)
Lemma poke_fields r q : wfr r -> 0 <= q < 8 ->
  runloop_queue_poke_loop 0 q 0 (enc r) =
  if enc r =? enc (merged r q) then NoCommit 2 [] else Commit (enc (merged r q)) 0.
Proof.
  intros W Q. unfold runloop_queue_poke_loop. cbv zeta. rewrite merge_qos_fields by assumption. reflexivity.
Qed.

(* ---- _dispatch_runloop_queue_reset_max_qos: and_orig(dq_state, ~(MAX_QOS_MASK | RECEIVED_OVERRIDE)) ---- *)
Definition qreset (r : dqf) : dqf :=
  mk (f_owner r) (f_tr r) (f_enq r) 0 0 (f_role r) (f_em r) (f_d r) (f_pb r) (f_wq r) (f_ib r) (f_hi r).

Lemma reset_fields r : wfr r -> runloop_reset_max_qos_op 64424509440 (enc r) = Commit (enc (qreset r)) 0.
Proof.
  intros W. pose proof W as W'. unfold wfr in W'. unfold runloop_reset_max_qos_op.
  change (not64 64424509440) with 18446744009285042175.
  rewrite (enc_vec r). vec_land 18446744009285042175. fsimp. reflexivity.
Qed.

(* ---- _dispatch_queue_cleanup2: the rmw loop ---- *)
Lemma cleanup2_fields r : wfr r -> f_ib r = 0 -> f_wq r = 4095 ->
  queue_cleanup2_loop (enc r) =
  Commit (enc (mk (f_owner r) (f_tr r) (f_enq r) (f_mq r) (f_ov r) (f_role r) (f_em r) 0 (f_pb r) 4096 1 (f_hi r))) 0.
Proof.
  intros W Hib Hwq. pose proof W as W'. unfold wfr in W'. unfold queue_cleanup2_loop. cbv zeta.
  rewrite (enc_vec r). vec_land 18446743523953737727. fsimp.
  rewrite !vec_linear. rewrite enc_linear. unfold mk; cbn [f_owner f_tr f_enq f_mq f_ov f_role f_em f_d f_pb f_wq f_ib f_hi].
  rewrite Hib, Hwq. rewrite (u64_id'' (_ + 2199023255552)) by lia. rewrite u64_id'' by lia. f_equal. lia.
Qed.

(* ---- _dispatch_lane_class_barrier_complete with owned = IN_BARRIER + one width interval ---- *)
Definition unown (r : dqf) : dqf :=
  mk (f_owner r) (f_tr r) (f_enq r) (f_mq r) (f_ov r) (f_role r) (f_em r) (f_d r) (f_pb r) 4095 0 (f_hi r).
Lemma unown_wf r : wfr r -> wfr (unown r).
Proof. unfold wfr, unown, mk; cbn. intros; repeat split; lia. Qed.
Lemma sub_owned r : wfr r -> f_ib r = 1 -> f_wq r = 4096 ->
  u64 (enc r - (18014398509481984 + 2199023255552)) = enc (unown r).
Proof.
  intros W Hib Hwq. pose proof W as W'. unfold wfr in W'.
  rewrite !enc_linear. unfold unown, mk; cbn [f_owner f_tr f_enq f_mq f_ov f_role f_em f_d f_pb f_wq f_ib f_hi].
  rewrite Hib, Hwq. rewrite u64_id'' by lia. lia.
Qed.

Lemma cbc_fields_enq r q fl tg : wfr r -> f_ib r = 1 -> f_wq r = 4096 -> f_hi r = 0 -> 0 <= q < 8 ->
  class_barrier_complete_loop 0 q fl tg (18014398509481984 + 2199023255552) (enc r) 2147483648 =
  let m := merged (unown r) q in
  Commit (enc (mk 0 0 (if (f_enq r =? 0) && (f_em r =? 0) then 1 else f_enq r) (f_mq m) 0 (f_role r) (f_em r) (f_d r)
                  (f_pb r) 4095 0 0)) 0.
Proof.
  intros W Hib Hwq Hhi Q. pose proof W as W'. unfold wfr in W'.
  unfold class_barrier_complete_loop. cbv zeta.
  rewrite sub_owned by assumption.
  pose proof (unown_wf r W) as Wu.
  rewrite merge_qos_fields by assumption.
  rewrite is_suspended_f by exact W. rewrite Hhi. cbn [Z.ltb Z.compare negb].
  change (nz 2147483648) with true. cbv iota.
  rewrite is_enqueued_f by exact W.
  pose proof (merged_wf (unown r) q Wu Q) as Wm. pose proof Wm as Wm'. unfold wfr in Wm'.
  set (m := merged (unown r) q) in *.
  assert (Same : f_owner m = f_owner r /\ f_tr m = f_tr r /\ f_enq m = f_enq r /\ f_role m = f_role r /\ f_em m = f_em r /\
                 f_d m = f_d r /\ f_pb m = f_pb r /\ f_wq m = 4095 /\ f_ib m = 0 /\ f_hi m = 0).
  { subst m. unfold merged. destruct (f_mq (unown r) <? q); unfold unown, mk; cbn; rewrite ?Hhi; repeat split; reflexivity. }
  destruct Same as (S1 & S2 & S3 & S4 & S5 & S6 & S7 & S8 & S9 & S10).
  rewrite (enc_vec m). vec_land 18446744037202329600. fsimp.
  rewrite S3, S4, S5, S6, S7, S8, S9, S10.
  rewrite negb_involutive.
  destruct ((f_enq r =? 0) && (f_em r =? 0)) eqn:E.
  - apply andb_true_iff in E as [E1 E2]. apply Z.eqb_eq in E1, E2. rewrite E1.
    vec_lor 2147483648. fsimp. change (Z.lor 0 1) with 1. reflexivity.
  - reflexivity.
Qed.

Lemma cbc_fields_none r q fl tg : wfr r -> f_ib r = 1 -> f_wq r = 4096 -> f_hi r = 0 -> 0 <= q < 8 ->
  class_barrier_complete_loop 0 q fl tg (18014398509481984 + 2199023255552) (enc r) 0 =
  if f_d r =? 1 then NoCommit 1 [AXor 0 0 Acquire]
  else Commit (enc (mk 0 0 (f_enq r) 0 0 (f_role r) (f_em r) 0 (f_pb r) 4095 0 0)) 0.
Proof.
  intros W Hib Hwq Hhi Q. pose proof W as W'. unfold wfr in W'.
  unfold class_barrier_complete_loop. cbv zeta.
  rewrite sub_owned by assumption.
  pose proof (unown_wf r W) as Wu.
  rewrite merge_qos_fields by assumption.
  rewrite is_suspended_f by exact W. rewrite Hhi. cbn [Z.ltb Z.compare negb].
  change (nz 0) with false. cbv iota.
  rewrite is_dirty_f by exact W.
  destruct (Z.eqb_spec (f_d r) 1) as [D|D]; cbn [negb]; [reflexivity|].
  pose proof (merged_wf (unown r) q Wu Q) as Wm. pose proof Wm as Wm'. unfold wfr in Wm'.
  set (m := merged (unown r) q) in *.
  assert (Same : f_owner m = f_owner r /\ f_tr m = f_tr r /\ f_enq m = f_enq r /\ f_role m = f_role r /\ f_em m = f_em r /\
                 f_d m = f_d r /\ f_pb m = f_pb r /\ f_wq m = 4095 /\ f_ib m = 0 /\ f_hi m = 0).
  { subst m. unfold merged. destruct (f_mq (unown r) <? q); unfold unown, mk; cbn; rewrite ?Hhi; repeat split; reflexivity. }
  destruct Same as (S1 & S2 & S3 & S4 & S5 & S6 & S7 & S8 & S9 & S10).
  rewrite (enc_vec m). vec_land 18446744037202329600. fsimp. vec_land 18446744043644780543. fsimp.
  rewrite S3, S4, S5, S6, S7, S8, S9, S10. assert (f_d r = 0) as -> by lia. reflexivity.
Qed.

(* ---- the barrier-sync fast path refuses every word that is not the idle word (in particular a thread-bound one) ---- *)
Lemma enc_inj r1 r2 : wfr r1 -> wfr r2 -> enc r1 = enc r2 -> r1 = r2.
Proof. intros W1 W2 E. rewrite <- (dec_enc r1 W1), <- (dec_enc r2 W2), E. reflexivity. Qed.

Lemma role_bits r : wfr r -> Z.land (enc r) 206158430208 = 68719476736 * f_role r.
Proof.
  intros W. pose proof W as W'. unfold wfr in W'. rewrite enc_vec. vec_land 206158430208. fsimp. rewrite vec_linear. lia.
Qed.

Lemma fast_refused r self : wfr r -> f_owner r <> 0 ->
  f_dispatch_queue_try_acquire_barrier_sync_and_suspend 0 self 0 1 (enc r) = NoCommit 0 [].
Proof.
  intros W Ho. pose proof W as W'. unfold wfr in W'.
  unfold f_dispatch_queue_try_acquire_barrier_sync_and_suspend. cbv zeta.
  rewrite role_bits by exact W.
  change (u64 (Z.shiftl (u64 (4096 - 1)) 41)) with 9005000231485440.
  assert (Er : 68719476736 * f_role r = encode LAY [0;0;0;0;0;f_role r;0;0;0;0;0;0]) by (rewrite vec_linear; lia).
  rewrite Er.
  assert (Ei : 9005000231485440 = encode LAY [0;0;0;0;0;0;0;0;0;4095;0;0]) by (rewrite vec_linear; lia).
  rewrite Ei. rewrite encode_lor by wfv_tac. cbn [map2]. fsimp.
  change (Z.lor 4095 0) with 4095.
  change (encode LAY [0; 0; 0; 0; 0; f_role r; 0; 0; 0; 4095; 0; 0]) with (enc (mk 0 0 0 0 0 (f_role r) 0 0 0 4095 0 0)).
  assert (Wi : wfr (mk 0 0 0 0 0 (f_role r) 0 0 0 4095 0 0)) by (apply wfr_mk'; lia).
  destruct (Z.eqb_spec (enc r) (enc (mk 0 0 0 0 0 (f_role r) 0 0 0 4095 0 0))) as [E|]; [|reflexivity].
  apply enc_inj in E; [|exact W|exact Wi]. exfalso. apply Ho. rewrite E. reflexivity.
Qed.

(* ---- _dispatch_wait_prepare gives up on a queue that is not a workloop base ---- *)
Lemma wait_prepare_giveup r : wfr r -> f_role r < 2 -> wait_prepare_loop 0 (enc r) = NoCommit 1 [].
Proof.
  intros W Hr. unfold wait_prepare_loop. rewrite base_wlh_f by exact W.
  destruct (Z.leb_spec 2 (f_role r)); [lia|]. cbn [negb]. rewrite orb_true_r. reflexivity.
Qed.

(* ---- _dq_state_drain_locked_by(dq_state, tid) ---- *)
Lemma land_lxor_distr a b c : Z.land (Z.lxor a b) c = Z.lxor (Z.land a c) (Z.land b c).
Proof.
  apply Z.bits_inj'. intros n Hn. rewrite !Z.land_spec, !Z.lxor_spec, !Z.land_spec.
  destruct (Z.testbit a n), (Z.testbit b n), (Z.testbit c n); reflexivity.
Qed.

Lemma locked_by_f r t : wfr r -> 0 < t < 1073741824 ->
  nz (f_dq_state_drain_locked_by (enc r) t) = (f_owner r =? t).
Proof.
  intros W Ht. pose proof W as W'. unfold wfr in W'.
  unfold f_dq_state_drain_locked_by, f_dispatch_lock_is_locked_by.
  assert (E : Z.land (Z.lxor (u32 (enc r)) t) 1073741823 = Z.lxor (f_owner r) t).
  { unfold u32. change 4294967296 with (2 ^ 32). rewrite <- Z.land_ones by lia.
    rewrite land_lxor_distr. rewrite <- Z.land_assoc. change (Z.land (Z.ones 32) 1073741823) with 1073741823.
    rewrite (land_owner t) by lia.
    rewrite enc_vec. vec_land 1073741823. fsimp. rewrite vec_linear. f_equal. lia. }
  rewrite E. unfold nz, b2z.
  destruct (Z.eqb_spec (f_owner r) t) as [->|N].
  - rewrite Z.lxor_nilpotent. reflexivity.
  - destruct (Z.eqb_spec (Z.lxor (f_owner r) t) 0) as [X|X]; [|reflexivity].
    apply Z.lxor_eq in X. contradiction.
Qed.

Lemma xor_dirty_op_fields r : wfr r ->
  class_barrier_complete_dirty_op (enc r) =
  Commit (enc (mk (f_owner r) (f_tr r) (f_enq r) (f_mq r) (f_ov r) (f_role r) (f_em r) (1 - f_d r) (f_pb r) (f_wq r) (f_ib r) (f_hi r))) 0.
Proof. intros W. unfold class_barrier_complete_dirty_op. rewrite xor_dirty_fields by exact W. reflexivity. Qed.
