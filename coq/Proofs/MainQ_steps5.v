(* MainQ_steps5.v — preservation of the invariant of Model/MainQ.v by the bound thread's steps inside
   _dispatch_main_queue_callback_4CF / _dispatch_main_queue_drain that change more than its program point. *)
From Coq Require Import ZArith Bool List Lia.
From Verif Require Import Word Bits Fields DqFields Conc Gen_consts Gen_dqstate Lane_fields SLane SLane_proofs SLane_progress
  MainQ MainQ_fields MainQ_inv MainQ_frames MainQ_steps1 MainQ_steps2.
Import ListNotations.
Local Open Scope Z_scope.

(* the thread at a bound-thread program point is the bound thread, and its class is known *)
Lemma main_thread s t p : Inv s -> mpcs s t = p -> only_main p = true -> t = mtid s /\ mcl s = mclass p.
Proof.
  intros (T & _) Hpc Ho. destruct (T t) as (_ & _ & T3 & _). rewrite Hpc in T3. specialize (T3 Ho).
  split; [exact T3|]. unfold mcl. rewrite <- T3, Hpc. reflexivity.
Qed.

Ltac main_open I Hpc Et Ec :=
  match type of Hpc with mpcs ?s ?t = ?p =>
    destruct (main_thread s t p I Hpc eq_refl) as [Et Ec]
  end.

Ltac cls := cbn [mclass kont c_held c_unb c_clean c_lane c_gone c_snap c_incb c_see c_cbcf c_ne c_view bitem brun].

(* ---- if (!dq->dq_items_tail) return / continue ---- *)
Lemma step_MB_tail s t s' : Inv s -> mpcs s t = MB_tail -> mstep s t = Some s' -> Inv s'.
Proof.
  intros I Hpc B. unfold mstep in B. rewrite Hpc in B. injection B as <-.
  main_open I Hpc Et Ec. pose proof (lane_of_plain s t _ I Hpc Logic.I) as Hlp.
  pose proof I as (T & Y & V & G). rewrite Ec in G. cbn [mclass c_lane] in G. destruct G as [r G].
  destruct (lst (lane s)) eqn:L.
  - (* nothing queued: back to the run loop *)
    match goal with |- Inv ?x => set (s1 := x) end.
    assert (Em : mcl s1 = mclass MIdle) by (unfold s1, mcl; mproj; rewrite <- Et, upd_same; reflexivity).
    split; [|split; [|split]].
    + intros u. destruct (Z.eq_dec u t) as [->|N].
      * destruct (T t) as (T1 & _).
        apply (tinv_self_keep s s1 t (T t)); subst s1; fr; rewrite ?Hpc, ?Hlp; try reflexivity; try assumption; intros; discriminate.
      * apply (tinv_other s s1 t u N (T u)); subst s1; fr.
    + apply (syinv_keep0 s s1 I); [rewrite Em, Ec; reflexivity | subst s1; fr ..|].
      apply (parked_keep_nosync s s1 t); [rewrite Hpc, Hlp; reflexivity | intros w N; subst s1; fr | intros w; subst s1; fr].
    + exact V.
    + rewrite Em. cls. exists r. pose proof (a_snap s r G) as AS. pose proof (a_order s r G) as AO.
      rewrite Ec in AS, AO. cls.
      destruct G. constructor; rewrite ?Em; rewrite ?Ec in *; cls; cbn [c_held c_unb c_clean c_snap c_incb c_see c_cbcf c_ne bitem brun c_view] in *;
        subst s1; mproj; lproj; try assumption; try reflexivity; try (intros; discriminate).
      intros _ Hne. congruence.
  - (* items: go on *)
    match goal with |- Inv ?x => set (s1 := x) end.
    assert (Em : mcl s1 = mclass MB_bound) by (unfold s1, mcl; mproj; rewrite <- Et, upd_same; reflexivity).
    split; [|split; [|split]].
    + intros u. destruct (Z.eq_dec u t) as [->|N].
      * destruct (T t) as (T1 & _).
        apply (tinv_self_keep s s1 t (T t)); subst s1; fr; rewrite ?Hpc, ?Hlp; try reflexivity; try assumption; intros; try discriminate.
      * apply (tinv_other s s1 t u N (T u)); subst s1; fr.
    + apply (syinv_keep0 s s1 I); [rewrite Em, Ec; reflexivity | subst s1; fr ..|].
      apply (parked_keep_nosync s s1 t); [rewrite Hpc, Hlp; reflexivity | intros w N; subst s1; fr | intros w; subst s1; fr].
    + exact V.
    + rewrite Em. cls. exists r. pose proof (a_strand s r G) as AS.
      destruct G. constructor; rewrite ?Em; rewrite ?Ec in *; cls; cbn [c_held c_unb c_clean c_snap c_incb c_see c_cbcf c_ne bitem brun c_view] in *;
        subst s1; mproj; lproj; try assumption; try reflexivity; try (intros; discriminate).
      * intros _. rewrite L. discriminate.
      * intros _ _. right. left. reflexivity.
Qed.

Ltac own_and_others T t s s1 Hpc Hlp :=
  let u := fresh "u" in let N := fresh "N" in let T1 := fresh "T1" in
  intros u; destruct (Z.eq_dec u t) as [->|N];
  [ destruct (T t) as (T1 & _); apply (tinv_self_keep s s1 t (T t)); subst s1; fr; rewrite ?Hpc, ?Hlp;
    try reflexivity; try assumption; intros; try discriminate
  | apply (tinv_other s s1 t u N (T u)); subst s1; fr ].

Ltac ginv1_fields Em Ec s1 :=
  constructor; rewrite ?Em; rewrite ?Ec in *; cls;
  cbn [c_held c_unb c_clean c_snap c_incb c_see c_cbcf c_ne bitem brun c_view] in *;
  subst s1; mproj; lproj; try assumption; try reflexivity; try (intros; discriminate);
  try (intros _ _; right; left; reflexivity).

(* ---- end of the callback ---- *)
Lemma step_MB_ret s t s' : Inv s -> mpcs s t = MB_ret -> mstep s t = Some s' -> Inv s'.
Proof.
  intros I Hpc B. unfold mstep in B. rewrite Hpc in B. injection B as <-.
  main_open I Hpc Et Ec. pose proof (lane_of_plain s t _ I Hpc Logic.I) as Hlp.
  pose proof I as (T & Y & V & G). rewrite Ec in G. cbn [mclass c_lane] in G. destruct G as [r G].
  match goal with |- Inv ?x => set (s1 := x) end.
  assert (Em : mcl s1 = mclass MIdle) by (unfold s1, mcl; mproj; rewrite <- Et, upd_same; reflexivity).
  split; [|split; [|split]].
  - own_and_others T t s s1 Hpc Hlp.
  - apply (syinv_keep0 s s1 I); [rewrite Em, Ec; reflexivity | subst s1; fr ..|].
    apply (parked_keep_nosync s s1 t); [rewrite Hpc, Hlp; reflexivity | intros w N; subst s1; fr | intros w; subst s1; fr].
  - exact V.
  - rewrite Em. cls. exists r. pose proof (a_strand s r G) as AS. rewrite Ec in AS. cls.
    destruct G. ginv1_fields Em Ec s1.
    intros _ Hne. destruct (AS eq_refl Hne) as [H|[H|[u H]]]; [left; exact H | discriminate H|].
    right. right. exists u. unfold poker in *. mproj. destruct (Z.eq_dec u t) as [->|N].
    + rewrite Hpc in H. discriminate.
    + rewrite upd_other by exact N. exact H.
Qed.

(* ---- while ((dc = next_dc)) is over: dx_wakeup(dq, 0, 0) ---- *)
Lemma step_MB_loop s t more s' : Inv s -> mpcs s t = MB_loop more -> mstep s t = Some s' -> Inv s'.
Proof.
  intros I Hpc B. destruct more; [exact (step_MB_loop_more s t s' I Hpc B)|].
  unfold mstep in B. rewrite Hpc in B. injection B as <-.
  main_open I Hpc Et Ec. pose proof (lane_of_plain s t _ I Hpc Logic.I) as Hlp.
  pose proof I as (T & Y & V & G). rewrite Ec in G. cbn [mclass c_lane] in G. destruct G as [r G].
  match goal with |- Inv ?x => set (s1 := x) end.
  assert (Em : mcl s1 = mclass (MW_bound 0 false KDrain)) by (unfold s1, mcl; mproj; rewrite <- Et, upd_same; reflexivity).
  split; [|split; [|split]].
  - own_and_others T t s s1 Hpc Hlp. injection H as <-. lia.
  - apply (syinv_keep0 s s1 I); [rewrite Em, Ec; reflexivity | subst s1; fr ..|].
    apply (parked_keep_nosync s s1 t); [rewrite Hpc, Hlp; reflexivity | intros w N; subst s1; fr | intros w; subst s1; fr].
  - exact V.
  - rewrite Em. cls. exists r. destruct G. ginv1_fields Em Ec s1.
    intros _ _. right. right. exists t. unfold poker. mproj. rewrite upd_same. reflexivity.
Qed.

(* ---- os_mpsc_capture_snapshot: xchg(dq_items_tail, NULL) takes the whole list ---- *)
Lemma step_MB_snap s t s' : Inv s -> mpcs s t = MB_snap -> mstep s t = Some s' -> Inv s'.
Proof.
  intros I Hpc B. unfold mstep in B. rewrite Hpc in B. injection B as <-.
  main_open I Hpc Et Ec. pose proof (lane_of_plain s t _ I Hpc Logic.I) as Hlp.
  pose proof I as (T & Y & V & G). rewrite Ec in G. cbn [mclass c_lane] in G. destruct G as [r G].
  match goal with |- Inv ?x => set (s1 := x) end.
  assert (Em : mcl s1 = mclass MB_next) by (unfold s1, mcl; mproj; rewrite <- Et, upd_same; reflexivity).
  assert (Sn : snap s = []).
  { pose proof (a_snap s r G) as A. rewrite Ec in A. cls. destruct (snap s); [reflexivity | discriminate A]. }
  assert (Ne : lst (lane s) <> []) by (apply (a_ne s r G); rewrite Ec; reflexivity).
  assert (Tk : token (lane s) = None) by exact (a_token s r G).
  split; [|split; [|split]].
  - own_and_others T t s s1 Hpc Hlp.
  - apply (syinv_keep0 s s1 I); [rewrite Em, Ec; reflexivity | | subst s1; fr ..|].
    + unfold pending, inflight. subst s1. mproj. lproj. rewrite Tk, Sn. cbn [ids map app]. rewrite app_nil_r. reflexivity.
    + apply (parked_keep_nosync s s1 t); [rewrite Hpc, Hlp; reflexivity | intros w N; subst s1; fr | intros w; subst s1; fr].
  - exact V.
  - rewrite Em. cls. exists r. pose proof (a_order s r G) as AO. rewrite Ec, Sn in AO. cls.
    destruct G. ginv1_fields Em Ec s1.
    + cbn [ids map app] in *. rewrite app_nil_r. exact AO.
    + destruct (lst (lane s)); [congruence | reflexivity].
Qed.

(* ---- os_mpsc_pop_snapshot_head: take the next captured item ---- *)
Lemma step_MB_next s t s' : Inv s -> mpcs s t = MB_next -> mstep s t = Some s' -> Inv s'.
Proof.
  intros I Hpc B. unfold mstep in B. rewrite Hpc in B.
  main_open I Hpc Et Ec. pose proof (lane_of_plain s t _ I Hpc Logic.I) as Hlp.
  pose proof I as (T & Y & V & G). rewrite Ec in G. cbn [mclass c_lane] in G. destruct G as [r G].
  assert (Tk : token (lane s) = None) by exact (a_token s r G).
  assert (X : exists e rest, snap s = e :: rest /\
              s' = set_mpc (set_snap s rest) t (MB_run (e_id e) (waiter_of s (e_id e)) (match rest with [] => false | _ => true end))).
  { destruct (snap s) as [|e [|e2 rest]]; [discriminate| |].
    - injection B as <-. exists e, []. split; reflexivity.
    - destruct (e_linked e2); [|discriminate]. injection B as <-. exists e, (e2 :: rest). split; reflexivity. }
  clear B. destruct X as (e & rest & Sn & ->).
  set (i := e_id e) in *. set (w := waiter_of s i) in *. set (more := match rest with [] => false | _ => true end).
  match goal with |- Inv ?x => set (s1 := x) end.
  assert (Em : mcl s1 = mclass (MB_run i w more)) by (unfold s1, mcl; mproj; rewrite <- Et, upd_same; reflexivity).
  assert (Pi : forall j, In j (pending s1) -> In j (pending s)).
  { intros j Hj. unfold pending, inflight in *. subst s1. mproj_in Hj. rewrite Tk in *. rewrite Sn. cbn [ids map app In] in *. right. exact Hj. }
  assert (Hi : In i (pending s)).
  { unfold pending, inflight. rewrite Tk, Sn. cbn [ids map app In]. left. reflexivity. }
  assert (PK : forall w0 j, parked s w0 j ->
            parked s1 w0 j /\ w_null (ws s1 w0) = w_null (ws s w0) /\ w_item (ws s1 w0) = w_item (ws s w0)).
  { apply (parked_keep_nosync s s1 t); [rewrite Hpc, Hlp; reflexivity | intros w0 N; subst s1; fr | intros w0; subst s1; fr]. }
  split; [|split; [|split]].
  - own_and_others T t s s1 Hpc Hlp.
  - destruct Y as [Ye Yr Ys Yn]. constructor; rewrite ?Em; cls.
    + intros j Hj Hw. change (waiter_of s1 j) with (waiter_of s j) in *. destruct (Ye j (Pi j Hj) Hw) as [P Nn].
      destruct (PK _ _ P) as (P' & E1 & E2). split; [exact P' | congruence].
    + intros j w0 [Hv|Hv]; [|discriminate Hv]. injection Hv as <- <-. split; [reflexivity|].
      unfold w. intros Hw. destruct (Ye i Hi Hw) as [P Nn]. destruct (PK _ _ P) as (P' & E1 & E2). split; [exact P' | congruence].
    + intros w0 Hv. discriminate Hv.
    + exact Yn.
  - exact V.
  - rewrite Em. cls. exists r. pose proof (a_order s r G) as AO. rewrite Ec, Sn in AO. cls.
    destruct G. ginv1_fields Em Ec s1.
    subst more. destruct rest; reflexivity.
Qed.

(* ---- _dispatch_continuation_pop_inline: the client callout begins on the bound thread ---- *)
Lemma step_MB_run s t i w more s' : Inv s -> mpcs s t = MB_run i w more -> mstep s t = Some s' -> Inv s'.
Proof.
  intros I Hpc B. unfold mstep in B. rewrite Hpc in B. injection B as <-.
  main_open I Hpc Et Ec. pose proof (lane_of_plain s t _ I Hpc Logic.I) as Hlp.
  pose proof I as (T & Y & V & G). rewrite Ec in G. cbn [mclass c_lane] in G. destruct G as [r G].
  assert (Tk : token (lane s) = None) by exact (a_token s r G).
  match goal with |- Inv ?x => set (s1 := x) end.
  assert (Em : mcl s1 = mclass (MB_incall i w more)) by (unfold s1, mcl; mproj; rewrite <- Et, upd_same; reflexivity).
  assert (Ep : pending s1 = pending s) by (unfold pending, inflight; subst s1; mproj; lproj; reflexivity).
  assert (PK : forall w0 j, parked s w0 j ->
            parked s1 w0 j /\ w_null (ws s1 w0) = w_null (ws s w0) /\ w_item (ws s1 w0) = w_item (ws s w0)).
  { apply (parked_keep_nosync s s1 t); [rewrite Hpc, Hlp; reflexivity | intros w0 N; subst s1; fr | intros w0; subst s1; fr]. }
  split; [|split; [|split]].
  - intros u. destruct (Z.eq_dec u t) as [->|N].
    + destruct (T t) as (T1 & _).
      apply (tinv_self_keep s s1 t (T t)); subst s1; fr; rewrite ?Hpc, ?Hlp; try reflexivity; try assumption; intros; try discriminate.
      apply incl_tl. apply incl_refl.
    + apply (tinv_other s s1 t u N (T u)); subst s1; fr. apply incl_tl. apply incl_refl.
  - destruct Y as [Ye Yr Ys Yn]. constructor; rewrite ?Em, ?Ep; cls.
    + intros j Hj Hw. change (waiter_of s1 j) with (waiter_of s j) in *. destruct (Ye j Hj Hw) as [P Nn].
      destruct (PK _ _ P) as (P' & E1 & E2). split; [exact P' | congruence].
    + intros j w0 [Hv|Hv]; [discriminate Hv|]. injection Hv as <- <-.
      destruct (Yr i w) as [E P]; [left; rewrite Ec; reflexivity|]. split; [exact E|].
      intros Hw. destruct (P Hw) as [P1 P2]. destruct (PK _ _ P1) as (P' & E1 & E2). split; [exact P' | congruence].
    + intros w0 Hv. discriminate Hv.
    + intros j Hj Hw. subst s1. mproj. mproj_in Hj. lproj_in Hj. cbn [In] in *. destruct Hj as [<-|Hj]; [left; reflexivity|].
      right. apply Yn; assumption.
  - exact V.
  - rewrite Em. cls. exists r. pose proof (a_order s r G) as AO. rewrite Ec in AO. cls.
    destruct G. ginv1_fields Em Ec s1.
    + cbn [rev]. rewrite <- app_assoc. exact AO.
    + rewrite Et. reflexivity.
    + intros j E. injection E as <-. left. reflexivity.
Qed.

(* a parked caller is not the bound thread while it drains *)
Lemma parked_not_main s t w i : stage (mpcs s t) (pcs (lane s) t) = 0 -> parked s w i -> w <> t.
Proof. intros Hg P ->. apply (not_parked_stage s t i P). lia. Qed.

(* ---- the callout returns; for a synchronous context: dsc_func = NULL, then the signal ---- *)
Lemma step_MB_incall s t i w more s' : Inv s -> mpcs s t = MB_incall i w more -> mstep s t = Some s' -> Inv s'.
Proof.
  intros I Hpc B. unfold mstep in B. rewrite Hpc in B. injection B as <-.
  main_open I Hpc Et Ec. pose proof (lane_of_plain s t _ I Hpc Logic.I) as Hlp.
  pose proof I as (T & Y & V & G). rewrite Ec in G. cbn [mclass c_lane] in G. destruct G as [r G].
  assert (Tk : token (lane s) = None) by exact (a_token s r G).
  assert (Hg : stage (mpcs s t) (pcs (lane s) t) = 0) by (rewrite Hpc, Hlp; reflexivity).
  assert (Hst : In i (started (lane s))) by (apply (a_runin s r G); rewrite Ec; reflexivity).
  destruct Y as [Ye Yr Ys Yn].
  destruct (Yr i w) as [Ew Pw]; [right; rewrite Ec; reflexivity|].
  destruct (Z.eqb_spec w 0) as [W0|W0].
  - (* an asynchronous item *)
    match goal with |- Inv ?x => set (s1 := x) end.
    assert (Em : mcl s1 = mclass (MB_loop more)) by (unfold s1, mcl; mproj; rewrite <- Et, upd_same; reflexivity).
    assert (Ep : pending s1 = pending s) by (unfold pending, inflight; subst s1; mproj; lproj; reflexivity).
    assert (PK : forall w0 j, parked s w0 j ->
              parked s1 w0 j /\ w_null (ws s1 w0) = w_null (ws s w0) /\ w_item (ws s1 w0) = w_item (ws s w0)).
    { apply (parked_keep_nosync s s1 t Hg); [intros w0 N; subst s1; fr | intros w0; subst s1; fr]. }
    split; [|split; [|split]].
    + intros u. destruct (Z.eq_dec u t) as [->|N].
      * destruct (T t) as (T1 & _).
        apply (tinv_self_keep s s1 t (T t)); subst s1; fr; rewrite ?Hpc, ?Hlp; try reflexivity; try assumption; intros; try discriminate.
        apply incl_tl. apply incl_refl.
      * apply (tinv_other s s1 t u N (T u)); subst s1; fr. apply incl_tl. apply incl_refl.
    + constructor; rewrite ?Em, ?Ep; cls.
      * intros j Hj Hw. change (waiter_of s1 j) with (waiter_of s j) in *. destruct (Ye j Hj Hw) as [P Nn].
        destruct (PK _ _ P) as (P' & E1 & E2). split; [exact P' | congruence].
      * intros j w0 [Hv|Hv]; discriminate Hv.
      * intros w0 Hv. discriminate Hv.
      * exact Yn.
    + exact V.
    + rewrite Em. cls. exists r. pose proof (a_order s r G) as AO. pose proof (a_snap s r G) as ASn. rewrite Ec in AO, ASn. cls.
      destruct G. ginv1_fields Em Ec s1.
  - (* a synchronous context: the block ran here, on the bound thread *)
    destruct (Pw W0) as [Pk Nl]. pose proof (parked_not_main s t w i Hg Pk) as Nwt.
    match goal with |- Inv ?x => set (s1 := x) end.
    assert (Em : mcl s1 = mclass (MB_sig w more)) by (unfold s1, mcl; mproj; rewrite <- Et, upd_same; reflexivity).
    assert (Ep : pending s1 = pending s) by (unfold pending, inflight; subst s1; mproj; lproj; reflexivity).
    assert (PK : forall w0 j, parked s w0 j -> parked s1 w0 j /\ w_item (ws s1 w0) = w_item (ws s w0)).
    { intros w0 j P. pose proof (parked_not_main s t w0 j Hg P) as N0. unfold parked in *. subst s1. mproj. lproj.
      rewrite (upd_other _ t _ w0 N0). destruct (Z.eq_dec w0 w) as [->|N1].
      - rewrite upd_same. cbn [w_item w_sigd wset_null]. tauto.
      - rewrite upd_other by exact N1. tauto. }
    destruct Pk as (Pk1 & Pk2 & Pk3).
    split; [|split; [|split]].
    + intros u. destruct (Z.eq_dec u t) as [->|N].
      * destruct (T t) as (T1 & _).
        apply (tinv_self_keep s s1 t (T t)); subst s1; fr; rewrite ?Hpc, ?Hlp; try reflexivity; try assumption; intros; try discriminate.
        apply incl_tl. apply incl_refl.
      * destruct (Z.eq_dec u w) as [->|N1].
        -- (* the waiter: only dsc_func changes, it is not signalled yet *)
           destruct (T w) as (T1 & T2 & T3 & T4 & T5 & T6).
           unfold tinv. subst s1. mproj. lproj. rewrite !(upd_other _ t _ w N).
           split; [exact T1|]. split; [exact T2|]. split; [exact T3|]. split; [exact T4|]. split; [exact T5|].
           unfold sinv in *. mproj. lproj. rewrite ?(upd_other _ t _ w N), upd_same. cbn [w_dte w_null w_sigd w_item wset_null].
           destruct T6 as (S2 & S3 & S4 & S5 & S6).
           split; [intros E; lia|]. split; [exact S3|]. split; [exact S4|]. split; [exact S5|].
           intros _ E. congruence.
        -- apply (tinv_other s s1 t u N (T u)); subst s1; fr. apply incl_tl. apply incl_refl.
    + constructor; rewrite ?Em, ?Ep; cls.
      * intros j Hj Hw. change (waiter_of s1 j) with (waiter_of s j) in *. destruct (Ye j Hj Hw) as [P Nn].
        destruct (PK _ _ P) as (P' & E2). split; [exact P'|].
        destruct (Z.eq_dec (waiter_of s j) w) as [E|N1].
        -- (* then j = i, which has already started *)
           exfalso. rewrite E in P. destruct P as (_ & Pi & _). assert (Eji : j = i) by congruence. rewrite Eji in Hj.
           exact (started_not_pending s i I Hst Hj).
        -- subst s1. mproj. rewrite upd_other by exact N1. exact Nn.
      * intros j w0 [Hv|Hv]; discriminate Hv.
      * intros w0 Hv. injection Hv as <-.
        assert (Ei : w_item (ws s1 w) = i) by (subst s1; mproj; rewrite upd_same; cbn [w_item wset_null]; exact Pk2).
        rewrite Ei. split.
        -- unfold parked. subst s1. mproj. lproj. rewrite (upd_other _ t _ w Nwt), upd_same. cbn [w_item w_sigd wset_null]. tauto.
        -- split; [subst s1; mproj; rewrite upd_same; reflexivity|]. split; [subst s1; mproj; left; reflexivity|].
           subst s1. mproj. apply Yn; [exact Hst | rewrite <- Ew; exact W0].
      * exact Yn.
    + exact V.
    + rewrite Em. cls. exists r. pose proof (a_order s r G) as AO. pose proof (a_snap s r G) as ASn. rewrite Ec in AO, ASn. cls.
      destruct G. ginv1_fields Em Ec s1.
Qed.

(* ---- _dispatch_thread_event_signal: inc_orig(dte_value, release) ---- *)
Lemma step_MB_sig s t w more s' : Inv s -> mpcs s t = MB_sig w more -> mstep s t = Some s' -> Inv s'.
Proof.
  intros I Hpc B. unfold mstep in B. rewrite Hpc in B. injection B as <-.
  main_open I Hpc Et Ec. pose proof (lane_of_plain s t _ I Hpc Logic.I) as Hlp.
  pose proof I as (T & Y & V & G). rewrite Ec in G. cbn [mclass c_lane] in G. destruct G as [r G].
  assert (Hg : stage (mpcs s t) (pcs (lane s) t) = 0) by (rewrite Hpc, Hlp; reflexivity).
  destruct Y as [Ye Yr Ys Yn].
  destruct (Ys w) as (Pk & Nl & Hf & Hm); [rewrite Ec; reflexivity|].
  pose proof (parked_not_main s t w _ Hg Pk) as Nwt. destruct Pk as (Pk1 & _ & Pk3).
  set (x := ws s w) in *.
  set (p' := if w_dte x =? 0 then MB_loop more else MB_fwake w more).
  match goal with |- Inv ?x => set (s1 := x) end.
  assert (Em : mcl s1 = mclass (MB_loop more)).
  { unfold s1, mcl. mproj. rewrite <- Et, upd_same. subst p'. destruct (w_dte x =? 0); reflexivity. }
  assert (Ep : pending s1 = pending s) by (unfold pending, inflight; subst s1; mproj; lproj; reflexivity).
  assert (PK : forall w0 j, parked s w0 j -> w0 <> w ->
            parked s1 w0 j /\ w_null (ws s1 w0) = w_null (ws s w0) /\ w_item (ws s1 w0) = w_item (ws s w0)).
  { intros w0 j P N1. pose proof (parked_not_main s t w0 j Hg P) as N0.
    apply (parked_keep_other s s1 t w0 j N0); subst s1; fr; try exact P; rewrite upd_other by exact N1; reflexivity. }
  split; [|split; [|split]].
  - intros u. destruct (Z.eq_dec u t) as [->|N].
    + destruct (T t) as (T1 & _).
      apply (tinv_self_keep s s1 t (T t)); subst s1; fr; rewrite ?Hpc, ?Hlp; subst p'; try (destruct (w_dte x =? 0)); try reflexivity; try assumption;
        intros; try discriminate; rewrite upd_other by congruence; reflexivity.
    + destruct (Z.eq_dec u w) as [->|N1].
      * (* the waiter is signalled *)
        destruct (T w) as (T1 & T2 & T3 & T4 & T5 & T6).
        unfold tinv. subst s1. mproj. lproj. rewrite !(upd_other _ t _ w N).
        split; [exact T1|]. split; [exact T2|]. split; [exact T3|]. split; [exact T4|]. split; [exact T5|].
        unfold sinv in *. mproj. lproj. rewrite ?(upd_other _ t _ w N), upd_same. fold x in T6.
        cbn [w_dte w_null w_sigd w_item wset_dte wset_sigd].
        destruct T6 as (S2 & S3 & S4 & S5 & S6). rewrite Pk3 in *.
        split; [intros E; lia|]. split; [intros E; rewrite (S3 E); reflexivity|].
        split; [intros E; rewrite (S4 E); reflexivity|]. split; [reflexivity|].
        intros _ _. split; [exact Nl|]. split; assumption.
      * apply (tinv_other s s1 t u N (T u)); subst s1; fr.
  - constructor; rewrite ?Em, ?Ep; cls.
    + intros j Hj Hw. change (waiter_of s1 j) with (waiter_of s j) in *. destruct (Ye j Hj Hw) as [P Nn].
      destruct (Z.eq_dec (waiter_of s j) w) as [E|N1]; [rewrite E in Nn; fold x in Nn; congruence|].
      destruct (PK _ _ P N1) as (P' & E1 & E2). split; [exact P' | congruence].
    + intros j w0 [Hv|Hv]; discriminate Hv.
    + intros w0 Hv. discriminate Hv.
    + exact Yn.
  - exact V.
  - rewrite Em. cls. exists r. pose proof (a_order s r G) as AO. pose proof (a_snap s r G) as ASn. rewrite Ec in AO, ASn. cls.
    destruct G. ginv1_fields Em Ec s1.
Qed.

(* ---- _dispatch_thread_event_signal_slow: futex_wake ---- *)
Lemma step_MB_fwake s t w more s' : Inv s -> mpcs s t = MB_fwake w more -> mstep s t = Some s' -> Inv s'.
Proof.
  intros I Hpc B. unfold mstep in B. rewrite Hpc in B. injection B as <-.
  main_open I Hpc Et Ec. pose proof (lane_of_plain s t _ I Hpc Logic.I) as Hlp.
  pose proof I as (T & Y & V & G). rewrite Ec in G. cbn [mclass c_lane] in G. destruct G as [r G].
  destruct Y as [Ye Yr Ys Yn].
  match goal with |- Inv ?x => set (s1 := x) end.
  assert (Em : mcl s1 = mclass (MB_loop more)) by (unfold s1, mcl; mproj; rewrite <- Et, upd_same; reflexivity).
  assert (Ep : pending s1 = pending s) by (unfold pending, inflight; subst s1; mproj; lproj; reflexivity).
  assert (Ws : forall u, w_dte (ws s1 u) = w_dte (ws s u) /\ w_null (ws s1 u) = w_null (ws s u) /\
                         w_sigd (ws s1 u) = w_sigd (ws s u) /\ w_item (ws s1 u) = w_item (ws s u)).
  { intros u. subst s1. mproj. destruct (Z.eq_dec u w) as [->|N1]; [rewrite upd_same; cbn; tauto | rewrite upd_other by exact N1; tauto]. }
  assert (Pm : forall u, u <> t -> mpcs s1 u = mpcs s u) by (intros u N; subst s1; fr).
  assert (PK : forall w0 j, parked s w0 j ->
            parked s1 w0 j /\ w_null (ws s1 w0) = w_null (ws s w0) /\ w_item (ws s1 w0) = w_item (ws s w0)).
  { intros w0 j P. assert (N0 : w0 <> t).
    { apply (parked_not_main s t w0 j); [rewrite Hpc, Hlp; reflexivity | exact P]. }
    destruct (Ws w0) as (W1 & W2 & W3 & W4). unfold parked in *. rewrite (Pm w0 N0), W3, W4, W2.
    change (pcs (lane s1) w0) with (pcs (lane s) w0). tauto. }
  split; [|split; [|split]].
  - intros u. destruct (Z.eq_dec u t) as [->|N].
    + destruct (T t) as (T1 & T2 & T3 & T4 & T5 & T6). unfold tinv.
      change (lane s1) with (lane s). change (mtid s1) with (mtid s). change (syncers s1) with (syncers s).
      assert (Pt : mpcs s1 t = MB_loop more) by (subst s1; mproj; apply upd_same). rewrite Pt, Hlp. rewrite Hpc in T3, T5.
      split; [exact T1|]. split; [reflexivity|]. split; [exact T3|]. split; [intros; discriminate|]. split; [exact T5|].
      unfold sinv. rewrite Pt. change (lane s1) with (lane s). rewrite Hlp. cbn [stage kont]. repeat split; intros; try lia; discriminate.
    + destruct (T u) as (T1 & T2 & T3 & T4 & T5 & T6). unfold tinv.
      change (lane s1) with (lane s). change (mtid s1) with (mtid s). change (syncers s1) with (syncers s). rewrite (Pm u N).
      split; [exact T1|]. split; [exact T2|]. split; [exact T3|]. split; [exact T4|]. split; [exact T5|].
      unfold sinv in *. change (lane s1) with (lane s). change (finished s1) with (finished s). change (mainran s1) with (mainran s).
      rewrite (Pm u N). destruct (Ws u) as (W1 & W2 & W3 & W4). rewrite W1, W2, W3, W4. exact T6.
  - constructor; rewrite ?Em, ?Ep; cls.
    + intros j Hj Hw. change (waiter_of s1 j) with (waiter_of s j) in *. destruct (Ye j Hj Hw) as [P Nn].
      destruct (PK _ _ P) as (P' & E1 & E2). split; [exact P' | congruence].
    + intros j w0 [Hv|Hv]; discriminate Hv.
    + intros w0 Hv. discriminate Hv.
    + exact Yn.
  - exact V.
  - rewrite Em. cls. exists r. pose proof (a_order s r G) as AO. pose proof (a_snap s r G) as ASn. rewrite Ec in AO, ASn. cls.
    destruct G. ginv1_fields Em Ec s1.
Qed.
