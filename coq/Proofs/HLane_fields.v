(* HLane_fields.v — field-level specifications of the generated dq_state bodies that the hierarchy model
   (Model/HLane.v) uses beyond those of Proofs/Lane_fields.v: _dispatch_queue_invoke_finish's rmw loop on a lane whose
   drain lock the caller holds, _dispatch_queue_wakeup's rmw loop WITHOUT MAKE_DIRTY, and the fact that
   drain_try_lock ignores the override floor on a lane whose role is INNER. *)
From Coq Require Import ZArith Bool List Lia.
From Verif Require Import Word Bits Fields DqFields Gen_consts Gen_dqstate Lane_fields.
Import ListNotations.
Local Open Scope Z_scope.

Lemma wfr_mk' a b c d e f g h i j k l :
  0 <= a < 1073741824 -> 0 <= b < 2 -> 0 <= c < 2 -> 0 <= d < 8 -> 0 <= e < 2 -> 0 <= f < 4 -> 0 <= g < 2 ->
  0 <= h < 2 -> 0 <= i < 2 -> 0 <= j < 8192 -> 0 <= k < 2 -> 0 <= l < 512 -> wfr (mk a b c d e f g h i j k l).
Proof. intros. unfold wfr, mk; cbn. repeat split; lia. Qed.

(* what the drainer's `owned` stands for in the word: IN_BARRIER + one width interval + the ENQUEUED bit it took over *)
Lemma sub_owned r e :
  wfr r -> f_hi r = 0 -> f_ib r = 1 -> f_wq r = 4096 -> 0 <= e <= f_enq r ->
  u64 (enc r - (18014398509481984 + 2199023255552 + 2147483648 * e)) =
  enc (mk (f_owner r) (f_tr r) (f_enq r - e) (f_mq r) (f_ov r) (f_role r) (f_em r) (f_d r) (f_pb r) 4095 0 0).
Proof.
  intros W H0 Hib Hwq He. pose proof W as W'. unfold wfr in W'.
  rewrite (enc_linear r), H0, Hib, Hwq. rewrite enc_linear. unfold mk; cbn [f_owner f_tr f_enq f_mq f_ov f_role f_em f_d f_pb f_wq f_ib f_hi].
  rewrite u64_id'' by lia. lia.
Qed.

(* _dispatch_queue_invoke_finish on a serial lane locked by the caller (no deferred item, not suspended): the drain
   lock is released (owner, IN_BARRIER, the width interval, RECEIVED_OVERRIDE), DIRTY is set, ENQUEUED is put back *)
Lemma finish_fields r :
  wfr r -> f_hi r = 0 -> f_ib r = 1 -> f_wq r = 4096 -> f_enq r = 1 -> f_em r = 0 ->
  invoke_finish_loop 0 0 0 (18014398509481984 + 2199023255552 + 2147483648 * 1) (enc r) 2147483648 =
  Commit (enc (mk 0 0 1 (f_mq r) 0 (f_role r) 0 1 (f_pb r) 4095 0 0)) 0.
Proof.
  intros W H0 Hib Hwq He Hem. pose proof W as W'. unfold wfr in W'.
  unfold invoke_finish_loop. cbv zeta.
  rewrite (sub_owned r 1 W H0 Hib Hwq) by lia. rewrite He. change (1 - 1) with 0.
  change (enc (mk (f_owner r) (f_tr r) 0 (f_mq r) (f_ov r) (f_role r) (f_em r) (f_d r) (f_pb r) 4095 0 0))
    with (encode LAY [f_owner r; f_tr r; 0; f_mq r; f_ov r; f_role r; f_em r; f_d r; f_pb r; 4095; 0; 0]).
  vec_land 18446744037202329600. fsimp.
  vec_lor 549755813888. fsimp.
  set (v := encode LAY [0; 0; 0; f_mq r; 0; f_role r; f_em r; 1; f_pb r; 4095; 0; 0]).
  assert (Ev : v = enc (mk 0 0 0 (f_mq r) 0 (f_role r) (f_em r) 1 (f_pb r) 4095 0 0)) by reflexivity.
  assert (Wv : wfr (mk 0 0 0 (f_mq r) 0 (f_role r) (f_em r) 1 (f_pb r) 4095 0 0)) by (apply wfr_mk'; lia).
  assert (Run : nz (f_dq_state_is_runnable v) = true).
  { unfold f_dq_state_is_runnable. rewrite Ev, enc_linear. unfold mk; cbn [f_owner f_tr f_enq f_mq f_ov f_role f_em f_d f_pb f_wq f_ib f_hi].
    assert (T : (0 + 1073741824 * 0 + 2147483648 * 0 + 4294967296 * f_mq r + 34359738368 * 0 + 68719476736 * f_role r +
                 274877906944 * f_em r + 549755813888 * 1 + 1099511627776 * f_pb r + 2199023255552 * 4095 +
                 18014398509481984 * 0 + 36028797018963968 * 0 <? 9007199254740992) = true) by (apply Z.ltb_lt; lia).
    rewrite T. reflexivity. }
  assert (Enq : nz (f_dq_state_is_enqueued v) = false).
  { rewrite Ev, is_enqueued_f by exact Wv. unfold mk; cbn [f_enq f_em]. rewrite Hem. reflexivity. }
  rewrite Run, Enq. cbn [negb andb].
  subst v. vec_lor 2147483648. fsimp. rewrite Hem. reflexivity.
Qed.

(* enc is injective on well-formed records *)
Lemma enc_inj r1 r2 : wfr r1 -> wfr r2 -> enc r1 = enc r2 -> r1 = r2.
Proof. intros W1 W2 E. rewrite <- (dec_enc r1 W1), <- (dec_enc r2 W2), E. reflexivity. Qed.

Lemma merged_eqb r qos : wfr r -> 0 <= qos < 8 -> (enc (merged r qos) =? enc r) = negb (f_mq r <? qos).
Proof.
  intros W Q. pose proof (merged_wf r qos W Q) as Wm. unfold merged in *.
  destruct (Z.ltb_spec (f_mq r) qos) as [Hlt|Hge]; cbn [negb]; [|apply Z.eqb_refl].
  apply Z.eqb_neq. intros E. apply enc_inj in E; [|exact Wm|exact W].
  apply (f_equal f_mq) in E. unfold mk in E; cbn [f_mq] in E. lia.
Qed.

(* _dispatch_queue_wakeup's rmw loop without MAKE_DIRTY (the push that found need_override): merges the qos, takes
   ENQUEUED exactly when allowed, never touches DIRTY, and gives up when nothing changes *)
Lemma wakeup_fields_nodirty r qos flags target :
  wfr r -> 0 <= qos < 8 -> nz (Z.land flags 2) = false ->
  wakeup_loop 0 qos flags target (enc r) 2147483648 =
  let m := merged r qos in
  if can_enqueue r
  then Commit (enc (mk (f_owner m) (f_tr m) 1 (f_mq m) (f_ov m) (f_role m) (f_em m) (f_d m) (f_pb m) (f_wq m) (f_ib m) (f_hi m))) 0
  else if f_mq r <? qos then Commit (enc m) 0 else NoCommit 2 [].
Proof.
  intros W Q Fl. pose proof W as W'. unfold wfr in W'.
  unfold wakeup_loop. cbv zeta. rewrite Fl.
  rewrite merge_qos_fields by assumption.
  rewrite is_suspended_f, is_enqueued_f, drain_locked_f, base_wlh_f by exact W.
  change (2147483648 =? 274877906944) with false. cbn [negb andb].
  pose proof (merged_wf r qos W Q) as Wm. pose proof Wm as Wm'. unfold wfr in Wm'.
  pose proof (merged_eqb r qos W Q) as Meq.
  set (m := merged r qos) in *.
  assert (Same : f_owner m = f_owner r /\ f_tr m = f_tr r /\ f_enq m = f_enq r /\ f_em m = f_em r /\ f_hi m = f_hi r).
  { subst m. unfold merged. destruct (f_mq r <? qos); cbn; auto. }
  destruct Same as (S1 & S2 & S3 & S4 & S5).
  assert (C : (negb (0 <? f_hi r) && negb (negb ((f_enq r =? 0) && (f_em r =? 0))) &&
               (negb (negb (f_owner r =? 0)) || (2 <=? f_role r))) = can_enqueue r).
  { unfold can_enqueue. rewrite !negb_involutive.
    destruct (Z.ltb_spec 0 (f_hi r)); destruct (Z.eqb_spec (f_hi r) 0); try lia; cbn [negb andb]; try reflexivity;
      try (rewrite andb_assoc; reflexivity). }
  rewrite negb_involutive. rewrite C.
  destruct (can_enqueue r) eqn:CE.
  - rewrite (enc_vec m). vec_lor 2147483648.
    unfold can_enqueue in CE. rewrite !andb_true_iff in CE. destruct CE as [[[_ CE2] _] _]. apply Z.eqb_eq in CE2.
    rewrite S3, CE2. change (Z.lor 0 1) with 1. fsimp.
    set (r' := encode LAY [f_owner m; f_tr m; 1; f_mq m; f_ov m; f_role m; f_em m; f_d m; f_pb m; f_wq m; f_ib m; f_hi m]).
    assert (Ne : (r' =? enc r) = false).
    { apply Z.eqb_neq. intros E.
      assert (Wr' : wfr (mk (f_owner m) (f_tr m) 1 (f_mq m) (f_ov m) (f_role m) (f_em m) (f_d m) (f_pb m) (f_wq m) (f_ib m) (f_hi m)))
        by (apply wfr_mk'; lia).
      change r' with (enc (mk (f_owner m) (f_tr m) 1 (f_mq m) (f_ov m) (f_role m) (f_em m) (f_d m) (f_pb m) (f_wq m) (f_ib m) (f_hi m))) in E.
      apply enc_inj in E; [|exact Wr'|exact W]. apply (f_equal f_enq) in E. unfold mk in E; cbn [f_enq] in E. lia. }
    rewrite Ne. reflexivity.
  - rewrite Meq. destruct (f_mq r <? qos); reflexivity.
Qed.

(* drain_try_lock on a lane whose role is INNER (or BASE_WLH: role even) never asks for an override first: the floor of
   the calling thread is irrelevant *)
Lemma inner_lock_ignores_floor r self floor floor' ov :
  wfr r -> 0 < self < 1073741824 -> f_role r mod 2 = 0 ->
  f_dispatch_queue_drain_try_lock 0 0 1 self floor (enc r) ov = f_dispatch_queue_drain_try_lock 0 0 1 self floor' (enc r) ov.
Proof.
  intros W S R. rewrite !(lock_fields r self _ ov W S). rewrite R. reflexivity.
Qed.
