(* MainQ_steps1.v — preservation of the invariant by the steps of Model/MainQ.v that only move a program point or
   change QoS / DIRTY bits of the word. *)
From Coq Require Import ZArith Bool List Lia.
From Verif Require Import Word Bits Fields DqFields Conc Gen_consts Gen_dqstate Lane_fields SLane SLane_proofs SLane_progress
  MainQ MainQ_fields MainQ_inv MainQ_frames.
Import ListNotations.
Local Open Scope Z_scope.

(* the lane program point of a thread that is at a main-queue program point other than MIdle / MP_push /
   MW_bound _ true _ / MC_push is Idle *)
Ltac lane_idle T2 Hlp :=
  match type of T2 with
  | lane_ok _ (pcs (lane ?s) ?t) = true =>
      assert (Hlp : pcs (lane s) t = Idle) by (cbn [lane_ok] in T2; destruct (pcs (lane s) t); try discriminate; reflexivity)
  end.

Ltac open_step I Hpc B T1 T2 T3 T4 T5 T6 :=
  unfold mstep in B; rewrite Hpc in B;
  let T := fresh "T" in
  pose proof I as (T & _);
  match type of Hpc with mpcs _ ?t = _ => destruct (T t) as (T1 & T2 & T3 & T4 & T5 & T6) end;
  rewrite Hpc in T2, T3, T4, T5; clear T.

Ltac ctl_goals Hpc Hlp T3 T4 :=
  rewrite ?Hpc, ?Hlp; cbn [lane_ok only_main kont mq_of sync_pc stage mclass poker_pc];
  try first [ assumption | reflexivity | discriminate
            | (intros; first [ apply T3; reflexivity | apply T4; assumption | reflexivity | assumption | discriminate | lia | (left; reflexivity) ]) ].

Lemma step_MW_bound_ctl s t q k s' :
  Inv s -> mpcs s t = MW_bound q false k -> bound s = true -> mstep s t = Some s' -> Inv s'.
Proof.
  intros I Hpc Hb B. open_step I Hpc B T1 T2 T3 T4 T5 T6. rewrite Hb in B. injection B as <-.
  lane_idle T2 Hlp. apply Inv_ctl; try exact I; destruct k; ctl_goals Hpc Hlp T3 T4.
Qed.

Lemma step_MW_rel s t q d k s' : Inv s -> mpcs s t = MW_rel q d k -> mstep s t = Some s' -> Inv s'.
Proof.
  intros I Hpc B. open_step I Hpc B T1 T2 T3 T4 T5 T6. injection B as <-.
  lane_idle T2 Hlp. apply Inv_ctl; try exact I; destruct d, k; ctl_goals Hpc Hlp T3 T4.
Qed.

Lemma step_MW_probe s t q k s' : Inv s -> mpcs s t = MW_probe q k -> mstep s t = Some s' -> Inv s'.
Proof.
  intros I Hpc B. open_step I Hpc B T1 T2 T3 T4 T5 T6. injection B as <-.
  lane_idle T2 Hlp. destruct (lst (lane s)) eqn:Hl; apply Inv_ctl; try exact I; destruct k; ctl_goals Hpc Hlp T3 T4.
  all: intros; congruence.
Qed.

Lemma step_MW_probe2 s t q k s' : Inv s -> mpcs s t = MW_probe2 q k -> mstep s t = Some s' -> Inv s'.
Proof.
  intros I Hpc B. open_step I Hpc B T1 T2 T3 T4 T5 T6. injection B as <-.
  lane_idle T2 Hlp. destruct (lst (lane s)) eqn:Hl; apply Inv_ctl; try exact I; destruct k; ctl_goals Hpc Hlp T3 T4.
  all: intros; congruence.
Qed.

Lemma step_MW_ret s t k s' : Inv s -> mpcs s t = MW_ret k -> mstep s t = Some s' -> Inv s'.
Proof.
  intros I Hpc B. open_step I Hpc B T1 T2 T3 T4 T5 T6. injection B as <-.
  lane_idle T2 Hlp. apply Inv_ctl; try exact I; destruct k; ctl_goals Hpc Hlp T3 T4.
Qed.

Lemma step_MS_aaw s t q s' : Inv s -> mpcs s t = MS_aaw q -> mstep s t = Some s' -> Inv s'.
Proof.
  intros I Hpc B. open_step I Hpc B T1 T2 T3 T4 T5 T6. injection B as <-.
  lane_idle T2 Hlp. apply Inv_ctl; try exact I; ctl_goals Hpc Hlp T3 T4.
Qed.

Lemma step_MS_fast s t q s' : Inv s -> mpcs s t = MS_fast q -> mstep s t = Some s' -> Inv s'.
Proof.
  intros I Hpc B. open_step I Hpc B T1 T2 T3 T4 T5 T6.
  assert (E : s' = set_mpc s t (MS_prep q)).
  { destruct (lst (lane s)); [|injection B as <-; reflexivity].
    destruct (f_dispatch_queue_try_acquire_barrier_sync_and_suspend 0 t 0 1 (st (lane s))); try discriminate. injection B as <-. reflexivity. }
  subst s'.
  lane_idle T2 Hlp. apply Inv_ctl; try exact I; ctl_goals Hpc Hlp T3 T4.
Qed.

Lemma step_MS_sleep s t s' : Inv s -> mpcs s t = MS_sleep -> mstep s t = Some s' -> Inv s'.
Proof.
  intros I Hpc B. open_step I Hpc B T1 T2 T3 T4 T5 T6. destruct (w_wok (ws s t)); [|discriminate]. injection B as <-.
  lane_idle T2 Hlp. apply Inv_ctl; try exact I; ctl_goals Hpc Hlp T3 T4.
Qed.

Lemma step_mspur s t s' : Inv s -> mspur s t = Some s' -> Inv s'.
Proof.
  intros I B. unfold mspur in B. destruct (mpcs s t) eqn:Hpc; try discriminate. injection B as <-.
  pose proof I as (T & _). destruct (T t) as (T1 & T2 & T3 & T4 & T5 & T6). rewrite Hpc in T2, T3, T4, T5.
  lane_idle T2 Hlp. apply Inv_ctl; try exact I; ctl_goals Hpc Hlp T3 T4.
Qed.

Lemma step_MS_load_futex s t s' :
  Inv s -> mpcs s t = MS_load -> (w_dte (ws s t) =? 0) = false -> mstep s t = Some s' -> Inv s'.
Proof.
  intros I Hpc Hd B. open_step I Hpc B T1 T2 T3 T4 T5 T6. rewrite Hd in B.
  destruct (w_dte (ws s t) =? MAXV); [|discriminate]. injection B as <-.
  lane_idle T2 Hlp. apply Inv_ctl; try exact I; ctl_goals Hpc Hlp T3 T4.
Qed.

Lemma step_MS_futex_again s t s' :
  Inv s -> mpcs s t = MS_futex -> (w_dte (ws s t) =? MAXV) = false -> mstep s t = Some s' -> Inv s'.
Proof.
  intros I Hpc Hd B. open_step I Hpc B T1 T2 T3 T4 T5 T6. rewrite Hd in B. injection B as <-.
  lane_idle T2 Hlp. apply Inv_ctl; try exact I; ctl_goals Hpc Hlp T3 T4.
Qed.

(* ---- the bound thread, inside the drain ---- *)
Lemma step_MB_bound s t s' : Inv s -> mpcs s t = MB_bound -> mstep s t = Some s' -> Inv s'.
Proof.
  intros I Hpc B. open_step I Hpc B T1 T2 T3 T4 T5 T6. destruct (bound s); [|discriminate]. injection B as <-.
  lane_idle T2 Hlp. apply Inv_ctl; try exact I; ctl_goals Hpc Hlp T3 T4.
Qed.

Lemma step_MB_state s t s' : Inv s -> mpcs s t = MB_state -> mstep s t = Some s' -> Inv s'.
Proof.
  intros I Hpc B. open_step I Hpc B T1 T2 T3 T4 T5 T6.
  destruct (nz (f_dq_state_drain_locked_by (st (lane s)) t)); [|discriminate]. injection B as <-.
  lane_idle T2 Hlp. apply Inv_ctl; try exact I; ctl_goals Hpc Hlp T3 T4.
Qed.

Lemma step_MB_head s t s' : Inv s -> mpcs s t = MB_head -> mstep s t = Some s' -> Inv s'.
Proof.
  intros I Hpc B. open_step I Hpc B T1 T2 T3 T4 T5 T6.
  destruct (lst (lane s)) as [|e l]; [discriminate|]. destruct (e_linked e); [|discriminate]. injection B as <-.
  lane_idle T2 Hlp. apply Inv_ctl; try exact I; ctl_goals Hpc Hlp T3 T4.
Qed.

Lemma step_MB_clr s t s' : Inv s -> mpcs s t = MB_clr -> mstep s t = Some s' -> Inv s'.
Proof.
  intros I Hpc B. open_step I Hpc B T1 T2 T3 T4 T5 T6. injection B as <-.
  lane_idle T2 Hlp. apply Inv_ctl; try exact I; ctl_goals Hpc Hlp T3 T4.
Qed.

Lemma step_MB_loop_more s t s' : Inv s -> mpcs s t = MB_loop true -> mstep s t = Some s' -> Inv s'.
Proof.
  intros I Hpc B. open_step I Hpc B T1 T2 T3 T4 T5 T6. injection B as <-.
  lane_idle T2 Hlp. apply Inv_ctl; try exact I; ctl_goals Hpc Hlp T3 T4.
Qed.

(* ---- cleanup2 ---- *)
Lemma step_MC_tail_items s t s' :
  Inv s -> mpcs s t = MC_tail -> lst (lane s) <> [] -> mstep s t = Some s' -> Inv s'.
Proof.
  intros I Hpc Hn B. open_step I Hpc B T1 T2 T3 T4 T5 T6. destruct (lst (lane s)) eqn:Hl; [congruence|]. injection B as <-.
  lane_idle T2 Hlp. apply Inv_ctl; try exact I; ctl_goals Hpc Hlp T3 T4.
Qed.

Lemma step_MC_head s t s' : Inv s -> mpcs s t = MC_head -> mstep s t = Some s' -> Inv s'.
Proof.
  intros I Hpc B. open_step I Hpc B T1 T2 T3 T4 T5 T6.
  destruct (lst (lane s)) as [|e l]; [discriminate|]. destruct (e_linked e); [|discriminate].
  destruct (waiter_of s (e_id e) =? 0); [|discriminate]. injection B as <-.
  lane_idle T2 Hlp. apply Inv_ctl; try exact I; ctl_goals Hpc Hlp T3 T4.
Qed.

Lemma step_MC_flags s t s' : Inv s -> mpcs s t = MC_flags -> mstep s t = Some s' -> Inv s'.
Proof.
  intros I Hpc B. open_step I Hpc B T1 T2 T3 T4 T5 T6. destruct (bound s); [discriminate|]. injection B as <-.
  lane_idle T2 Hlp. apply Inv_ctl; try exact I; ctl_goals Hpc Hlp T3 T4.
Qed.

(* ------------------------------------------------------------------ QoS / DIRTY bits *)
Lemma step_MW_or s t q k s' : Inv s -> mpcs s t = MW_or q k -> mstep s t = Some s' -> Inv s'.
Proof.
  intros I Hpc B. open_step I Hpc B T1 T2 T3 T4 T5 T6.
  destruct (Inv_word s I) as (r & E & W & _). rewrite E, (or_dirty_fields r W) in B. injection B as <-.
  lane_idle T2 Hlp.
  apply (Inv_soft s t (MW_probe q k) dirtied I dirtied_soft); try exact E; try exact W; destruct k; ctl_goals Hpc Hlp T3 T4.
Qed.

Lemma step_MW_merge s t q k s' : Inv s -> mpcs s t = MW_merge q k -> mstep s t = Some s' -> Inv s'.
Proof.
  intros I Hpc B. open_step I Hpc B T1 T2 T3 T4 T5 T6.
  assert (Q : 0 <= q < 8) by (apply T4; reflexivity).
  destruct (Inv_word s I) as (r & E & W & _). rewrite E, (poke_fields r q W Q) in B.
  lane_idle T2 Hlp. destruct (enc r =? enc (merged r q)).
  - injection B as <-. apply Inv_ctl; try exact I; destruct k; ctl_goals Hpc Hlp T3 T4.
  - injection B as <-.
    apply (Inv_soft s t (MW_write k) (fun r => merged r q) I (fun r0 => merged_soft q r0 Q)); try exact E; try exact W;
      destruct k; ctl_goals Hpc Hlp T3 T4.
Qed.

Lemma step_MW_reset s t k s' : Inv s -> mpcs s t = MW_reset k -> mstep s t = Some s' -> Inv s'.
Proof.
  intros I Hpc B. open_step I Hpc B T1 T2 T3 T4 T5 T6.
  destruct (Inv_word s I) as (r & E & W & _). unfold QOS_BITS in B. rewrite E, (reset_fields r W) in B.
  rewrite (max_qos_f r W) in B. injection B as <-.
  lane_idle T2 Hlp. pose proof W as W'. unfold wfr in W'.
  apply (Inv_soft s t _ qreset I qreset_soft); try exact E; try exact W;
    destruct (f_mq r =? 0); destruct k; ctl_goals Hpc Hlp T3 T4.
  all: intros q0 Hq0; injection Hq0 as <-; lia.
Qed.
