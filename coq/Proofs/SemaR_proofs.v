(* SemaR_proofs.v — the replay of Model/SemaR.v only ever takes steps of the global model Sema (Replay.sched_reach), so the
   state it ends in is reachable and the theorems of Sema_proofs apply to it; the boolean invariant SemaR.inv_b is true on every
   reachable state (a false value on a replayed state would exhibit a state outside the proved invariant). *)
From Coq Require Import ZArith Bool List Lia.
From Verif Require Import Word Conc Replay Gen_consts Gen_fields Gen_sema Sema SemaR Sema_proofs.
Import ListNotations.
Local Open Scope Z_scope.

Lemma reachable_rstep v s : reachable (fun s => s = init_state v) (rstep gstep sema_valid) s -> reach v s.
Proof.
  intros R. induction R as [s E|s a s' R IH [_ St]]; [apply reach_init; exact E|].
  eapply reach_step; [exact IH|exact St].
Qed.

Theorem replay_reach v w depths chains ord s done rest :
  sched gstep sema_hidden sema_accepts sema_valid (S (length ord)) w depths chains (init_state v) ord 0 = (s, done, rest) ->
  reach v s.
Proof.
  intros H. apply reachable_rstep.
  eapply (sched_reach gstep sema_hidden sema_accepts sema_valid (fun s => s = init_state v)); [|exact H].
  apply reach_init. reflexivity.
Qed.

(* ---- the boolean invariant ---- *)
Lemma nodupb_spec l : NoDup l -> nodupb l = true.
Proof.
  induction 1 as [|x l Hx ND IH]; [reflexivity|]. cbn. rewrite IH, andb_true_r. apply negb_true_iff.
  destruct (mem x l) eqn:M; [apply mem_In in M; contradiction|reflexivity].
Qed.

Lemma balance_b_spec s : balance s -> balance_b s = true.
Proof.
  intros (A & (B1 & B2) & C & D & E & F). unfold balance_b.
  repeat (apply andb_true_intro; split); try (apply Z.leb_le; assumption); apply Z.eqb_eq; assumption.
Qed.

Lemma thread_inv_b_spec s t : thread_inv s t -> thread_inv_b s t = true.
Proof.
  unfold thread_inv, thread_inv_b. destruct (pcs s t); intros H; try reflexivity.
  - destruct H as (A & B & C). rewrite A, B, C. reflexivity.
  - destruct H as (A & B & C). rewrite A, B, C. reflexivity.
  - destruct H as (A & B & C). rewrite A, B, C. reflexivity.
  - destruct H as (A & B & C). rewrite A, B, C. reflexivity.
  - destruct H as (A & B & C). rewrite A, B, C. reflexivity.
  - destruct H as (A & B). rewrite A, B. reflexivity.
  - destruct H as (A & (B1 & B2) & C). rewrite A. cbn [Z.eqb andb].
    apply Z.leb_le in B1, B2. rewrite B1, B2. cbn [andb].
    destruct (g_tout s t); [rewrite (C eq_refl); reflexivity|reflexivity].
  - destruct H as (A & B & C). rewrite A, B, C. reflexivity.
Qed.

Theorem inv_b_spec v tids s : Inv v s -> inv_b v tids s = true.
Proof.
  intros (V & (ND & Sup) & Bal & Thr). unfold inv_b.
  rewrite V, Z.eqb_refl, (nodupb_spec _ ND), (balance_b_spec s Bal). cbn [andb].
  assert (X : forall l, forallb (thread_inv_b s) l = true).
  { intros l. apply forallb_forall. intros t _. apply thread_inv_b_spec. apply Thr. }
  rewrite !X, !andb_true_r.
  apply forallb_forall. intros t _. destruct (pcs s t) eqn:P; try reflexivity; cbn [pc_idleb orb];
    apply mem_In; apply Sup; rewrite P; discriminate.
Qed.
Theorem inv_b_reach v tids s : valid_init v -> reach v s -> inv_b v tids s = true.
Proof. intros V R. apply inv_b_spec. apply inv_reach; assumption. Qed.
