(* SLaneS_realtime.v — the real-time reading of "nothing starts while suspended", over execution segments:
   along any execution segment of the model in which, at every state, some dispatch_suspend has returned whose
   dispatch_resume has not yet been called (susp_done > 0), AT MOST ONE callout begins, and none at all if no drainer was
   past its suspended-check when the word became suspended (plic = false: e.g. the suspend was issued by the running
   item, or while nobody drained the lane). *)
From Coq Require Import ZArith Bool List Lia.
From Verif Require Import Word Bits Fields DqFields Conc Gen_consts Gen_dqstate Lane_fields SLaneS_fields SLaneS SLaneS_inv
  SLaneS_steps_a SLaneS_steps_b SLaneS_proofs SLaneS_progress.
Import ListNotations.
Local Open Scope Z_scope.

Definition nstarted (s : gst) : Z := Z.of_nat (length (started s)).

(* one step from a state whose word is suspended: the number of begun callouts grows exactly as pstarts does, and the
   period (plic) is not redefined *)
Lemma step_counts rb s a s' :
  suspended_word (st s) = true -> step rb s a s' ->
  nstarted s' - nstarted s = pstarts s' - pstarts s /\ plic s' = plic s.
Proof.
  intros Hs St. unfold nstarted. destruct a as [t c|t]; destruct St as [V B].
  - unfold begin in B. destruct (pcs s t); try discriminate B. destruct c; break_B B; sproj; split; try reflexivity; lia.
  - unfold gstep in B. destruct (pcs s t) eqn:Hpc; try discriminate B.
    all: try (break_B B; unfold commit_suspend; sproj; rewrite ?Hs; cbn [negb length]; split; try reflexivity; lia).
Qed.

(* a segment of an execution along which suspensions are owed at every state *)
Inductive owed_path (rb : Z) : gst -> list action -> gst -> Prop :=
| owed_nil s : owed_path rb s [] s
| owed_cons s a s1 acts s' : step rb s a s1 -> 0 < susp_done s1 -> owed_path rb s1 acts s' -> owed_path rb s (a :: acts) s'.

Theorem starts_while_owed rb ina s acts s' :
  0 <= rb < 2 -> reach rb ina s -> 0 < susp_done s -> owed_path rb s acts s' ->
  reach rb ina s' /\
  nstarted s' - nstarted s = pstarts s' - pstarts s /\ plic s' = plic s /\
  0 <= nstarted s' - nstarted s <= 1 /\
  (plic s = false -> started s' = started s).
Proof.
  intros Hrb R Hs P. revert R Hs. induction P as [s|s a s1 acts s' St Hs1 P IH]; intros R Hs.
  - split; [exact R|]. split; [lia|]. split; [reflexivity|].
    split; [lia|]. intros _. reflexivity.
  - assert (R1 : reach rb ina s1) by (apply (reach_step _ _ s a s1 R St)).
    destruct (IH R1 Hs1) as (R' & E1 & E2 & E3 & E4).
    pose proof (suspended_while_owed rb ina s Hrb R Hs) as Sw.
    destruct (step_counts rb s a s1 Sw St) as [C1 C2].
    destruct (no_start_while_suspended rb ina s Hrb R Sw) as (B0 & B1 & _).
    pose proof (suspended_while_owed rb ina s' Hrb R') as Sw'.
    assert (Hs' : 0 < susp_done s').
    { clear - P Hs1. induction P; [exact Hs1 | apply IHP; assumption]. }
    destruct (no_start_while_suspended rb ina s' Hrb R' (Sw' Hs')) as (B0' & B1' & _).
    split; [exact R'|]. split; [lia|]. split; [congruence|]. split.
    + assert (0 <= nstarted s1 - nstarted s).
      { unfold nstarted. destruct a as [t c|t]; destruct St as [V B].
        - unfold begin in B. destruct (pcs s t); try discriminate B. destruct c; break_B B; sproj; lia.
        - unfold gstep in B. destruct (pcs s t); try discriminate B;
            try (break_B B; unfold commit_suspend; sproj; cbn [length]; lia). }
      lia.
    + intros Pl. assert (Pl' : plic s' = false) by congruence.
      assert (Z0 : pstarts s' = 0).
      { destruct (Z.eq_dec (pstarts s') 1) as [E|E]; [destruct (B1' E) as [X _]; congruence | lia]. }
      assert (Z00 : pstarts s = 0).
      { destruct (Z.eq_dec (pstarts s) 1) as [E|E]; [destruct (B1 E) as [X _]; congruence | lia]. }
      assert (D : nstarted s' - nstarted s = 0) by lia.
      (* started only grows by consing: equal length means equal list; here via the two segments *)
      assert (G1 : exists l1, started s1 = l1 ++ started s).
      { destruct a as [t c|t]; destruct St as [V B].
        - unfold begin in B. destruct (pcs s t); try discriminate B. destruct c; break_B B; sproj; exists []; reflexivity.
        - unfold gstep in B. destruct (pcs s t); try discriminate B;
            try (break_B B; unfold commit_suspend; sproj; first [exists []; reflexivity | eexists [_]; reflexivity]). }
      destruct G1 as [l1 G1].
      assert (L1 : l1 = []).
      { assert (nstarted s1 - nstarted s = Z.of_nat (length l1)) by (unfold nstarted; rewrite G1, app_length; lia).
        assert (0 <= nstarted s' - nstarted s1) by lia.
        destruct l1; [reflexivity|]. cbn [length] in H. lia. }
      rewrite L1 in G1. cbn [app] in G1.
      assert (Pl1 : plic s1 = false) by congruence.
      rewrite (E4 Pl1). exact G1.
Qed.
