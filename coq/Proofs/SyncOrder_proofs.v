(* SyncOrder_proofs.v — real-time order of submissions on the serial lane of Model/SyncWait.v, for any mix of
   dispatch_async_f, dispatch_sync_f / dispatch_barrier_sync_f and dispatch_async_and_wait_f (history: Model/SyncOrder.v):
   when the callout of item B begins, every item whose submission call had returned before B's call began has finished.
   The proof is an invariant over (state, history) on top of the protocol invariant Inv of SyncWait_proofs.v:
     - the list is FIFO: every element was preceded, when it was pushed, by everything returned and still unfinished;
     - the fast path takes the lock only after a plain read of dq_items_tail that found the list empty (S_ftail, the
       test added by libdispatch 43b9c73): what had returned before the call is then popped, and once the
       compare-exchange from the idle word succeeds nobody holds a popped item or runs one;
     - a waiter is handed the lock (or has its item run by the drainer) only when its context is popped. *)
From Coq Require Import ZArith Bool List Lia.
From Verif Require Import Word Conc Gen_consts Gen_dqstate Gen_lanesites SyncWait SyncWait_word SyncWait_inv SyncWait_proofs
  SyncOrder.
Import ListNotations.
Local Open Scope Z_scope.

Definition ok (h : hist) (a : Z) : Prop := fin h a \/ gcur h = Some a \/ grun h = Some a.

(* ---- classes of program points ---- *)
Definition isA (p : pc) : bool :=
  match p with A_xchg | A_head _ | A_link _ | A_probe _ | A_wload _ | A_wbody _ _ | A_root | A_ret => true | _ => false end.
Definition client (p : pc) : bool := isA p || match cst p with CNone => false | _ => true end.   (* inside a submission call *)
Definition postx (p : pc) : bool :=                                     (* dispatch_async_f after its tail exchange *)
  match p with A_head _ | A_link _ | A_probe _ | A_wload _ | A_wbody _ _ | A_root | A_ret => true | _ => false end.
Definition fastp (p : pc) : bool := match p with S_fload _ | S_fbody _ _ => true | _ => false end.
Definition readyp (p : pc) : bool := match p with S_fake _ | S_call _ _ => true | _ => false end.
Definition afterp (p : pc) : bool := match cst p with CAfter => true | _ => false end.
Definition is_sig (x : phase) : bool := match x with PhSig _ | PhSigd => true | _ => false end.

(* the list, with the calls its elements belong to: every element is preceded by what had returned before its call
   began and has not been popped yet *)
Fixpoint qok (h : hist) (seen : list Z) (l : list entry) (g : list Z) : Prop :=
  match l, g with
  | [], [] => True
  | e :: l', b :: g' =>
      (e_id e <> 0 /\ b < nextc h /\ (is_waiter_kind (e_kind e) = true -> b = callno h (e_own e)) /\
       forall a, In a (pre h b) -> ok h a \/ In a seen) /\ qok h (b :: seen) l' g'
  | _, _ => False
  end.

Record HInv (s : gst) (h : hist) : Prop := {
  hn_call : forall t, callno h t < nextc h;
  hn_ret : forall a, In a (returned h) -> a < nextc h;
  hn_cur : forall b, gcur h = Some b -> b < nextc h;
  hn_started : forall b, In b (started h) -> b < nextc h;
  h_pre : forall b a, In a (pre h b) -> In a (returned h);
  h_distinct : forall t u, client (pcs s t) = true -> client (pcs s u) = true -> callno h t = callno h u -> t = u;
  h_unret : forall t, client (pcs s t) = true -> ~ In (callno h t) (returned h);
  h_idle : forall t, client (pcs s t) = false -> callno h t = -1 \/ In (callno h t) (returned h);
  h_lst : qok h [] (lst s) (glst h);
  h_cur : match cur s, gcur h with
          | None, None => True
          | Some e, Some b => (is_waiter_kind (e_kind e) = true -> b = callno h (e_own e)) /\
                              forall a, In a (pre h b) -> fin h a
          | _, _ => False
          end;
  h_run : match running s, grun h with
          | None, None => True
          | Some r, Some b => In b (started h) /\ (forall k f, pcs s r = S_incall k f -> b = callno h r) /\
                              (forall o n w, pcs s r = W_incall o n w -> w <> 0 -> b = callno h w)
          | _, _ => False
          end;
  h_rets : forall a, In a (returned h) -> ok h a \/ In a (glst h);
  h_postx : forall t, postx (pcs s t) = true -> ok h (callno h t) \/ In (callno h t) (glst h);
  h_fast : forall t, fastp (pcs s t) = true -> forall a, In a (pre h (callno h t)) -> ok h a;
  h_ready : forall t, readyp (pcs s t) = true -> forall a, In a (pre h (callno h t)) -> fin h a;
  h_sig : forall t, is_sig (ph s t) = true ->
          (forall a, In a (pre h (callno h t)) -> fin h a) /\ (remote s t = true -> fin h (callno h t));
  h_after : forall t, afterp (pcs s t) = true -> fin h (callno h t);
  h_started : order_ok h;
  h_finst : forall a, fin h a -> In a (started h);
  (* program order: a thread's earlier calls have returned when its next call begins *)
  h_po2 : forall a, 0 <= a < nextc h -> a = callno h (caller h a) \/ In a (returned h);
  h_po : forall a b, 0 <= a -> a < b -> b < nextc h -> caller h a = caller h b -> In a (pre h b)
}.

(* ---- the list ---- *)
Lemma qok_mono h h' l : forall g seen seen',
  (forall b, b < nextc h -> pre h' b = pre h b) -> nextc h <= nextc h' ->
  (forall e, In e l -> is_waiter_kind (e_kind e) = true -> callno h' (e_own e) = callno h (e_own e)) ->
  (forall b a, In a (pre h b) -> In a (returned h)) ->
  (forall a, In a (returned h) -> ok h a -> ok h' a) ->
  (forall a, In a seen -> ok h' a \/ In a seen') ->
  qok h seen l g -> qok h' seen' l g.
Proof.
  induction l as [|e l IH]; intros g seen seen' Hp Hn Hc Hr Ho Hs Q; destruct g as [|b g]; cbn [qok] in *; auto.
  destruct Q as [(Q1 & Q2 & Q3 & Q4) Q5]. split.
  - split; [exact Q1|]. split; [lia|]. split.
    + intros W. rewrite (Hc e (or_introl eq_refl) W). auto.
    + intros a Ha. rewrite (Hp b Q2) in Ha. destruct (Q4 a Ha) as [X|X]; [left; apply Ho; eauto|apply Hs; exact X].
  - apply (IH g (b :: seen)); auto.
    + intros e0 He0. apply Hc. right. exact He0.
    + intros a [<-|Ha]; [right; left; reflexivity|]. destruct (Hs a Ha) as [X|X]; [left; exact X|right; right; exact X].
Qed.

Lemma qok_same h l g seen : qok h seen l g -> forall seen', (forall a, In a seen -> In a seen') -> qok h seen' l g.
Proof.
  revert g seen. induction l as [|e l IH]; intros g seen Q seen' Hs; destruct g as [|b g]; cbn [qok] in *; auto.
  destruct Q as [(Q1 & Q2 & Q3 & Q4) Q5]. split.
  - repeat split; auto. intros a Ha. destruct (Q4 a Ha); auto.
  - apply (IH g (b :: seen)); auto. intros a [<-|Ha]; [left; reflexivity|right; auto].
Qed.

Lemma qok_link h x l : forall g seen, qok h seen l g -> qok h seen (link_id l x) g.
Proof.
  induction l as [|e l IH]; intros g seen Q; destruct g as [|b g]; cbn [qok link_id] in *; auto.
  - destruct (e_id e =? x); exact Q.
  - destruct (e_id e =? x) eqn:E.
    + cbn [qok e_id e_kind e_own]. apply Z.eqb_eq in E. rewrite <- E. exact Q.
    + cbn [qok]. destruct Q as [Q1 Q5]. split; [exact Q1|]. apply IH. exact Q5.
Qed.

Lemma qok_snoc h e b l : forall g seen,
  qok h seen l g ->
  e_id e <> 0 -> b < nextc h -> (is_waiter_kind (e_kind e) = true -> b = callno h (e_own e)) ->
  (forall a, In a (pre h b) -> ok h a \/ In a seen \/ In a g) ->
  qok h seen (l ++ [e]) (g ++ [b]).
Proof.
  induction l as [|e0 l IH]; intros g seen Q H1 H2 H3 H4; destruct g as [|b0 g]; try contradiction.
  - cbn [qok app]. split; [|exact I]. repeat split; auto. intros a Ha. destruct (H4 a Ha) as [X|[X|[]]]; auto.
  - cbn [app]. destruct Q as [Q1 Q5]. split; [exact Q1|]. apply IH; auto.
    intros a Ha. destruct (H4 a Ha) as [X|[X|[<-|X]]]; auto; right; left; [right; exact X|left; reflexivity].
Qed.

Lemma qok_len h l : forall g seen, qok h seen l g -> l = [] -> g = [].
Proof. intros g seen Q ->. destruct g; [reflexivity|contradiction]. Qed.

Lemma qok_ids h l : forall g seen, qok h seen l g -> Forall (fun e => e_id e <> 0) l.
Proof.
  induction l as [|e l IH]; intros g seen Q; [constructor|]. destruct g as [|b g]; [contradiction|].
  destruct Q as [(Q1 & _) Q5]. constructor; [exact Q1|]. eapply IH. exact Q5.
Qed.

Lemma qok_in h l : forall g seen a, qok h seen l g -> In a g -> a < nextc h.
Proof.
  induction l as [|e l IH]; intros g seen a Q Ha; destruct g as [|b g]; try contradiction.
  destruct Q as [(_ & Q2 & _) Q5]. destruct Ha as [<-|Ha]; [exact Q2|]. eapply IH; eauto.
Qed.

Lemma tail_zero_empty s h : HInv s h -> tail_value s = 0 -> lst s = [] /\ glst h = [].
Proof.
  intros H Tz. pose proof (h_lst _ _ H) as Q. pose proof (qok_ids _ _ _ _ Q) as Ids.
  assert (E : lst s = []).
  { unfold tail_value in Tz. destruct (rev (lst s)) as [|e r] eqn:R.
    - apply (f_equal (@rev entry)) in R. rewrite rev_involutive in R. exact R.
    - exfalso. rewrite Forall_forall in Ids. apply (Ids e); [|exact Tz]. apply in_rev. rewrite R. left. reflexivity. }
  split; [exact E|]. eapply qok_len; eauto.
Qed.

(* ---- facts about the classes ---- *)
Lemma wait_client p : wst p <> WNone -> client p = true.
Proof. intros H. unfold client. rewrite (wait_cst p H). apply orb_true_r. Qed.
Lemma postx_nowait p : postx p = true -> wst p = WNone.
Proof. destruct p; cbn; intros H; try discriminate H; reflexivity. Qed.
Lemma sig_waits s t : Inv s -> is_sig (ph s t) = true -> wst (pcs s t) <> WNone.
Proof.
  intros [G T] Hs Hw. destruct (t_nowait _ _ _ (T t) Hw) as (P & _). rewrite P in Hs. discriminate Hs.
Qed.

(* ---- frames ---- *)
(* the invariant reads lst, cur, running, remote, the "signalled" phases and the program points only *)
Lemma H_quiet s s1 h :
  HInv s h -> pcs s1 = pcs s -> (lst s1 = lst s \/ exists x, lst s1 = link_id (lst s) x) ->
  cur s1 = cur s -> running s1 = running s -> (forall x, remote s1 x = remote s x) ->
  (forall x, is_sig (ph s1 x) = true -> is_sig (ph s x) = true) -> HInv s1 h.
Proof.
  intros [] Ep El Ec Er Em Eph. constructor; rewrite ?Ep, ?Ec, ?Er; auto.
  - destruct El as [->|[x ->]]; [assumption|apply qok_link; assumption].
  - intros t Ht. rewrite Em. auto.
Qed.

Ltac hproj := cbn [nextc callno caller returned pre glst gcur grun started finished h_call h_ret h_list h_begin h_end].
Ltac hproj_in H := cbn [nextc callno caller returned pre glst gcur grun started finished h_call h_ret h_list h_begin h_end] in H.

(* thread t moves to p' *)
Lemma pc_move s h t p' :
  HInv s h -> client p' = client (pcs s t) ->
  (postx p' = true -> ok h (callno h t) \/ In (callno h t) (glst h)) ->
  (fastp p' = true -> forall a, In a (pre h (callno h t)) -> ok h a) ->
  (readyp p' = true -> forall a, In a (pre h (callno h t)) -> fin h a) ->
  (afterp p' = true -> fin h (callno h t)) ->
  (running s = Some t -> forall b, grun h = Some b ->
     (forall k f, p' = S_incall k f -> b = callno h t) /\ (forall o n w, p' = W_incall o n w -> w <> 0 -> b = callno h w)) ->
  HInv (set_pc s t p') h.
Proof.
  intros [] Hc Hp Hf Hr Ha Hrun.
  assert (P : forall u, pcs (set_pc s t p') u = if Z.eq_dec u t then p' else pcs s u).
  { intros u. sproj. destruct (Z.eq_dec u t) as [->|N]; [apply upd_same|apply upd_other; exact N]. }
  constructor; sproj; auto.
  - intros u v. change (upd (pcs s) t p') with (pcs (set_pc s t p')). rewrite !P.
    destruct (Z.eq_dec u t) as [->|Nu], (Z.eq_dec v t) as [->|Nv]; rewrite ?Hc; auto.
  - intros u. change (upd (pcs s) t p') with (pcs (set_pc s t p')). rewrite P.
    destruct (Z.eq_dec u t) as [->|Nu]; rewrite ?Hc; auto.
  - intros u. change (upd (pcs s) t p') with (pcs (set_pc s t p')). rewrite P.
    destruct (Z.eq_dec u t) as [->|Nu]; rewrite ?Hc; auto.
  - destruct (running s) as [r|] eqn:R, (grun h) as [b|] eqn:Gr; auto.
    change (upd (pcs s) t p') with (pcs (set_pc s t p')). rewrite P.
    destruct h_run0 as (A & B & C). split; [exact A|].
    destruct (Z.eq_dec r t) as [->|Nr]; [|split; assumption].
    destruct (Hrun eq_refl b eq_refl) as [X Y]. split; intros; eauto.
  - intros u. change (upd (pcs s) t p') with (pcs (set_pc s t p')). rewrite P.
    destruct (Z.eq_dec u t) as [->|Nu]; [exact Hp|apply h_postx0].
  - intros u. change (upd (pcs s) t p') with (pcs (set_pc s t p')). rewrite P.
    destruct (Z.eq_dec u t) as [->|Nu]; [exact Hf|apply h_fast0].
  - intros u. change (upd (pcs s) t p') with (pcs (set_pc s t p')). rewrite P.
    destruct (Z.eq_dec u t) as [->|Nu]; [exact Hr|apply h_ready0].
  - intros u. change (upd (pcs s) t p') with (pcs (set_pc s t p')). rewrite P.
    destruct (Z.eq_dec u t) as [->|Nu]; [exact Ha|apply h_after0].
Qed.

Definition keeps (p p' : pc) : bool :=
  Bool.eqb (client p') (client p) && implb (postx p') (postx p) && implb (fastp p') (fastp p) &&
  implb (readyp p') (readyp p) && implb (afterp p') (afterp p) && negb (incall p').

Lemma pc_keep s h t p' : HInv s h -> keeps (pcs s t) p' = true -> HInv (set_pc s t p') h.
Proof.
  intros H K. unfold keeps in K. repeat (apply andb_true_iff in K as [K ?]).
  apply pc_move; auto.
  - apply eqb_prop. exact K.
  - intros X. rewrite X in *. apply (h_postx _ _ H t). destruct (postx (pcs s t)); [reflexivity|discriminate].
  - intros X. rewrite X in *. apply (h_fast _ _ H t). destruct (fastp (pcs s t)); [reflexivity|discriminate].
  - intros X. rewrite X in *. apply (h_ready _ _ H t). destruct (readyp (pcs s t)); [reflexivity|discriminate].
  - intros X. rewrite X in *. apply (h_after _ _ H t). destruct (afterp (pcs s t)); [reflexivity|discriminate].
  - intros _ b _. split; intros; subst p'; discriminate.
Qed.

(* ---- the operations on the history, on states with unchanged program points ---- *)
Lemma postx_client p : postx p = true -> client p = true.
Proof. destruct p; cbn; intros H; try discriminate H; reflexivity. Qed.

Lemma qok_refresh h h' l g seen :
  nextc h' = nextc h -> callno h' = callno h -> pre h' = pre h -> (forall b a, In a (pre h b) -> In a (returned h)) ->
  (forall a, In a (returned h) -> ok h a -> ok h' a) -> qok h seen l g -> qok h' seen l g.
Proof.
  intros En Ec Epre Hr Ho. apply qok_mono; auto.
  - intros. rewrite Epre. reflexivity.
  - lia.
  - intros. rewrite Ec. reflexivity.
Qed.

Lemma H_xchg s s1 h t e :
  HInv s h -> pcs s1 = pcs s -> lst s1 = lst s ++ [e] -> e_id e <> 0 ->
  (is_waiter_kind (e_kind e) = true -> e_own e = t) ->
  cur s1 = cur s -> running s1 = running s -> (forall x, remote s1 x = remote s x) ->
  (forall x, is_sig (ph s1 x) = true -> is_sig (ph s x) = true) ->
  HInv s1 (h_list h (glst h ++ [callno h t]) (gcur h)).
Proof.
  intros H Ep El Hid Hown Ec Er Em Eph. pose proof H as [].
  constructor; hproj; rewrite ?Ep, ?Ec, ?Er; auto.
  - rewrite El. apply qok_snoc; hproj; auto.
    + apply (qok_refresh h); auto.
    + intros W. rewrite (Hown W). reflexivity.
    + intros a Ha. destruct (h_rets0 a (h_pre0 _ a Ha)) as [X|X]; auto.
  - intros a Ha. destruct (h_rets0 a Ha) as [X|X]; [left; exact X|right; apply in_or_app; left; exact X].
  - intros u Hu. destruct (h_postx0 u Hu) as [X|X]; [left; exact X|right; apply in_or_app; left; exact X].
  - intros u Hu. rewrite Em. exact (h_sig0 u (Eph u Hu)).
Qed.

Lemma H_pop s s1 h t d ev e1 rest :
  HInv s h -> lst s = e1 :: rest -> cur s = None -> running s = None ->
  pcs s1 = pcs s -> lst s1 = rest -> cur s1 = Some e1 -> running s1 = None -> (forall x, remote s1 x = remote s x) ->
  (forall x, is_sig (ph s1 x) = true -> is_sig (ph s x) = true) ->
  HInv s1 (hact (APop1 d) h t ev).
Proof.
  intros H El Ec Er Ep El1 Ec1 Er1 Em Eph. pose proof H as [].
  rewrite El in h_lst0. rewrite Ec in h_cur0. rewrite Er in h_run0.
  cbn [hact]. destruct (glst h) as [|b g] eqn:Eg; [contradiction|].
  destruct (gcur h) eqn:Egc; [contradiction|]. destruct (grun h) eqn:Egr; [contradiction|].
  destruct h_lst0 as [(Q1 & Q2 & Q3 & Q4) Q5].
  assert (OK : forall a, ok h a -> ok (h_list h g (Some b)) a).
  { unfold ok, fin; hproj. rewrite Egc, Egr. intros a [X|[X|X]]; try discriminate; auto. }
  constructor; hproj; rewrite ?Ep, ?Ec1, ?Er1, ?El1, ?Egr; auto.
  - intros b0 X. injection X as <-. exact Q2.
  - apply (qok_mono h _ _ _ [b] []); auto; try reflexivity; try lia.
    intros a [<-|[]]. left. unfold ok; hproj. right. left. reflexivity.
  - split; [exact Q3|]. intros a Ha. destruct (Q4 a Ha) as [[X|[X|X]]|[]]; [exact X|congruence|congruence].
  - intros a Ha. destruct (h_rets0 a Ha) as [X|X]; [left; apply OK; exact X|].
    destruct X as [<-|X]; [left; right; left; reflexivity|right; exact X].
  - intros u Hu. destruct (h_postx0 u Hu) as [X|X]; [left; apply OK; exact X|].
    destruct X as [<-|X]; [left; right; left; reflexivity|right; exact X].
  - intros u Hu a Ha. apply OK. eauto.
  - intros u Hu. rewrite Em. exact (h_sig0 u (Eph u Hu)).
Qed.

Lemma H_xfer s s1 h w c :
  HInv s h -> cur s = Some c -> e_own c = w -> is_waiter_kind (e_kind c) = true ->
  wst (pcs s w) <> WNone -> remote s w = false ->
  pcs s1 = pcs s -> lst s1 = lst s -> cur s1 = None -> running s1 = running s -> (forall x, remote s1 x = remote s x) ->
  (forall x, x <> w -> is_sig (ph s1 x) = true -> is_sig (ph s x) = true) ->
  HInv s1 (h_list h (glst h) None).
Proof.
  intros H Ec Eo Wk Ww Rw Ep El Ec1 Er Em Eph. pose proof H as [].
  rewrite Ec in h_cur0. destruct (gcur h) as [b|] eqn:Egc; [|contradiction]. destruct h_cur0 as [Hb Hpre].
  specialize (Hb Wk). rewrite Eo in Hb.
  pose proof (wait_client _ Ww) as Cw.
  assert (OK : forall a, a <> b -> ok h a -> ok (h_list h (glst h) None) a).
  { unfold ok, fin; hproj. rewrite Egc. intros a N [X|[X|X]]; auto. congruence. }
  assert (NR : forall a, In a (returned h) -> a <> b).
  { intros a Ha ->. apply (h_unret0 w Cw). rewrite <- Hb. exact Ha. }
  constructor; hproj; rewrite ?Ep, ?Ec1, ?Er, ?El; auto.
  - discriminate.
  - apply (qok_refresh h); auto; intros a Ha; apply OK; auto.
  - intros a Ha. destruct (h_rets0 a Ha) as [X|X]; [left; apply OK; auto|right; exact X].
  - intros u Hu. destruct (h_postx0 u Hu) as [X|X]; [left; apply OK; auto|right; exact X].
    intros E. rewrite Hb in E. pose proof (h_distinct0 u w (postx_client _ Hu) Cw E) as ->.
    apply Ww. apply postx_nowait. exact Hu.
  - intros u Hu a Ha. apply OK; eauto.
  - intros u Hu. destruct (Z.eq_dec u w) as [->|N].
    + split; [rewrite <- Hb; exact Hpre|]. rewrite Em, Rw. discriminate.
    + rewrite Em. exact (h_sig0 u (Eph u N Hu)).
Qed.

Lemma H_begin_self s s1 h t :
  HInv s h -> running s = None -> incall (pcs s t) = false -> (forall a, In a (pre h (callno h t)) -> fin h a) ->
  pcs s1 = pcs s -> lst s1 = lst s -> cur s1 = cur s -> running s1 = Some t -> (forall x, remote s1 x = remote s x) ->
  (forall x, is_sig (ph s1 x) = true -> is_sig (ph s x) = true) ->
  HInv s1 (h_begin h (gcur h) (callno h t)).
Proof.
  intros H Er Hi Hpre Ep El Ec Er1 Em Eph. pose proof H as [].
  rewrite Er in h_run0. destruct (grun h) eqn:Egr; [contradiction|].
  assert (OK : forall a, ok h a -> ok (h_begin h (gcur h) (callno h t)) a).
  { unfold ok, fin; hproj. rewrite Egr. intros a [X|[X|X]]; try discriminate; auto. }
  constructor; hproj; rewrite ?Ep, ?Ec, ?Er1, ?El; auto.
  - intros b [<-|X]; auto.
  - apply (qok_refresh h); auto.
  - split; [left; reflexivity|]. split; [reflexivity|]. intros o n w E. rewrite E in Hi. discriminate Hi.
  - intros a Ha. destruct (h_rets0 a Ha) as [X|X]; [left; apply OK; auto|right; exact X].
  - intros u Hu. destruct (h_postx0 u Hu) as [X|X]; [left; apply OK; auto|right; exact X].
  - intros u Hu a Ha. apply OK. eauto.
  - intros u Hu. rewrite Em. exact (h_sig0 u (Eph u Hu)).
  - intros b [<-|Hb] a Ha; [apply Hpre; exact Ha|apply (h_started0 b Hb a Ha)].
  - intros a Ha. right. auto.
Qed.

Lemma H_begin_cur s s1 h t c w ev :
  HInv s h -> running s = None -> incall (pcs s t) = false -> cur s = Some c ->
  pcs s1 = pcs s -> lst s1 = lst s -> cur s1 = None -> running s1 = Some t -> (forall x, remote s1 x = remote s x) ->
  (forall x, is_sig (ph s1 x) = true -> is_sig (ph s x) = true) ->
  HInv s1 (hact (ABeginCur w) h t ev).
Proof.
  intros H Er Hi Ec Ep El Ec1 Er1 Em Eph. pose proof H as [].
  rewrite Er in h_run0. destruct (grun h) eqn:Egr; [contradiction|].
  rewrite Ec in h_cur0. cbn [hact]. destruct (gcur h) as [b|] eqn:Egc; [|contradiction]. destruct h_cur0 as [Hb Hpre].
  assert (OK : forall a, ok h a -> ok (h_begin h None b) a).
  { unfold ok, fin; hproj. rewrite Egr, Egc. intros a [X|[X|X]]; try discriminate; auto. }
  constructor; hproj; rewrite ?Ep, ?Ec1, ?Er1, ?El; auto.
  - discriminate.
  - intros b0 [<-|X]; auto.
  - apply (qok_refresh h); auto.
  - split; [left; reflexivity|]. split; intros; exfalso; match goal with E : pcs s t = _ |- _ => rewrite E in Hi; discriminate Hi end.
  - intros a Ha. destruct (h_rets0 a Ha) as [X|X]; [left; apply OK; auto|right; exact X].
  - intros u Hu. destruct (h_postx0 u Hu) as [X|X]; [left; apply OK; auto|right; exact X].
  - intros u Hu a Ha. apply OK. eauto.
  - intros u Hu. rewrite Em. exact (h_sig0 u (Eph u Hu)).
  - intros b0 [<-|Hb0] a Ha; [apply Hpre; exact Ha|apply (h_started0 b0 Hb0 a Ha)].
  - intros a Ha. right. auto.
Qed.

Lemma H_end s s1 h :
  HInv s h -> running s <> None ->
  pcs s1 = pcs s -> lst s1 = lst s -> cur s1 = cur s -> running s1 = None ->
  (forall x, is_sig (ph s1 x) = true ->
             (is_sig (ph s x) = true /\ remote s1 x = remote s x) \/ grun h = Some (callno h x)) ->
  HInv s1 (match grun h with Some b => h_end h b | None => h end).
Proof.
  intros H Er Ep El Ec Er1 Eph. pose proof H as [].
  destruct (running s) as [r|] eqn:R; [|congruence]. destruct (grun h) as [b|] eqn:Egr; [|contradiction].
  destruct h_run0 as (Hst & _).
  assert (OK : forall a, ok h a -> ok (h_end h b) a).
  { unfold ok, fin; hproj. intros a [X|[X|X]]; [left; right; exact X|right; left; exact X|]. rewrite Egr in X. injection X as <-. left. left. reflexivity. }
  assert (FM : forall a, fin h a -> fin (h_end h b) a) by (unfold fin; hproj; intros; right; assumption).
  constructor; hproj; rewrite ?Ep, ?Ec, ?Er1, ?El; auto.
  - apply (qok_refresh h); auto.
  - destruct (cur s), (gcur h); auto. destruct h_cur0 as [A B]. split; auto.
  - intros a Ha. destruct (h_rets0 a Ha) as [X|X]; [left; apply OK; auto|right; exact X].
  - intros u Hu. destruct (h_postx0 u Hu) as [X|X]; [left; apply OK; auto|right; exact X].
  - intros u Hu a Ha. apply OK. eauto.
  - intros u Hu a Ha. apply FM. eauto.
  - intros u Hu. destruct (Eph u Hu) as [[X Y]|X].
    + rewrite Y. destruct (h_sig0 u X) as [A B]. split; auto.
    + injection X as <-. split; [intros a Ha; apply FM; apply (h_started0 _ Hst a Ha)|]. intros _. left. reflexivity.
  - intros b0 Hb0 a Ha. apply FM. apply (h_started0 b0 Hb0 a Ha).
  - intros a [<-|Ha]; auto.
Qed.

Lemma pcs_set_pc s t p u : pcs (set_pc s t p) u = if Z.eq_dec u t then p else pcs s u.
Proof. sproj. destruct (Z.eq_dec u t) as [->|N]; [apply upd_same|apply upd_other; exact N]. Qed.

Lemma idle_phase s t : Inv s -> pcs s t = Idle -> ph s t = PhNone.
Proof. intros [G T] Hp. apply (t_nowait _ _ _ (T t)). unfold CC. rewrite Hp. reflexivity. Qed.

Lemma lst_owner s e : Inv s -> In e (lst s) -> is_waiter_kind (e_kind e) = true -> ph s (e_own e) = PhQueued.
Proof.
  intros [G T] He Wk. pose proof (g_list _ _ G) as L. rewrite Forall_forall in L. specialize (L e He).
  unfold entry_ok in L. rewrite Wk in L. apply L.
Qed.

Lemma cur_owner s e : Inv s -> cur s = Some e -> is_waiter_kind (e_kind e) = true ->
  (exists h, ph s (e_own e) = PhPopH h \/ ph s (e_own e) = PhPopR h) /\ valid_tid (e_own e).
Proof.
  intros [G T] He Wk. destruct (g_cur _ _ G e He) as (h & _ & _ & _ & C). rewrite Wk in C. destruct C as [V C].
  split; [|exact V]. exists h. destruct (_ || _); auto.
Qed.

Lemma cur_nonwaiter s e : Inv s -> cur s = Some e -> is_waiter_kind (e_kind e) = false -> e_own e = 0.
Proof. intros [G T] He Wk. destruct (g_cur _ _ G e He) as (h & _ & _ & _ & C). rewrite Wk in C. exact C. Qed.

Lemma H_call s s1 h t p' :
  Inv s -> HInv s h -> pcs s t = Idle ->
  client p' = true -> postx p' = false -> fastp p' = false -> readyp p' = false -> afterp p' = false -> incall p' = false ->
  pcs s1 = pcs s -> lst s1 = lst s -> cur s1 = cur s -> running s1 = running s ->
  (forall x, x <> t -> remote s1 x = remote s x) -> (forall x, ph s1 x = ph s x) ->
  HInv (set_pc s1 t p') (h_call h t).
Proof.
  intros HI H Hpc C1 C2 C3 C4 C5 C6 Ep El Ec Er Em Eph. pose proof H as []. pose proof HI as [G T].
  pose proof (idle_phase s t HI Hpc) as P0.
  assert (P : forall u, pcs (set_pc s1 t p') u = if Z.eq_dec u t then p' else pcs s u).
  { intros u. rewrite pcs_set_pc. rewrite Ep. reflexivity. }
  assert (Cn : forall u, u <> t -> upd (callno h) t (nextc h) u = callno h u) by (intros; apply upd_other; assumption).
  assert (Pn : forall b, b < nextc h -> upd (pre h) (nextc h) (returned h) b = pre h b) by (intros; apply upd_other; lia).
  assert (Sg : forall u, is_sig (ph s u) = true -> u <> t) by (intros u Hu ->; rewrite P0 in Hu; discriminate Hu).
  constructor; hproj.
  - intros u. unfold upd. destruct (u =? t); [lia|]. specialize (hn_call0 u). lia.
  - intros a Ha. specialize (hn_ret0 a Ha). lia.
  - intros b Hb. specialize (hn_cur0 b Hb). lia.
  - intros b Hb. specialize (hn_started0 b Hb). lia.
  - intros b a. unfold upd. destruct (b =? nextc h); eauto.
  - intros u v. rewrite !P. destruct (Z.eq_dec u t) as [->|Nu], (Z.eq_dec v t) as [->|Nv]; auto.
    + intros _ _. rewrite upd_same, (Cn v Nv). pose proof (hn_call0 v). lia.
    + intros _ _. rewrite upd_same, (Cn u Nu). pose proof (hn_call0 u). lia.
    + rewrite (Cn u Nu), (Cn v Nv). auto.
  - intros u. rewrite P. destruct (Z.eq_dec u t) as [->|Nu].
    + intros _ X. rewrite upd_same in X. specialize (hn_ret0 _ X). lia.
    + rewrite (Cn u Nu). auto.
  - intros u. rewrite P. destruct (Z.eq_dec u t) as [->|Nu]; [congruence|]. rewrite (Cn u Nu). auto.
  - sproj. rewrite El. apply (qok_mono h _ _ _ [] []); hproj; auto; try lia.
    intros e He Wk. apply Cn. intros E. pose proof (lst_owner s e HI He Wk) as X. rewrite E, P0 in X. discriminate X.
  - sproj. rewrite Ec. destruct (cur s) as [e|] eqn:Ecur, (gcur h) as [b|] eqn:Egc; auto.
    destruct h_cur0 as [A B]. rewrite (Pn b (hn_cur0 b eq_refl)). split; [|exact B].
    intros Wk. rewrite Cn; [auto|]. intros E. destruct (cur_owner s e HI Ecur Wk) as [(x & [X|X]) _]; rewrite E, P0 in X; discriminate X.
  - sproj. rewrite Er. destruct (running s) as [r|] eqn:Erun, (grun h) as [b|] eqn:Egr; auto.
    destruct h_run0 as (A & B & C). split; [exact A|].
    assert (Nr : r <> t).
    { intros ->. pose proof (g_running _ _ G t Erun) as X. unfold CC in X. rewrite Hpc in X. discriminate X. }
    change (upd (pcs s1) t p' r) with (pcs (set_pc s1 t p') r). rewrite P. destruct (Z.eq_dec r t) as [|_]; [contradiction|].
    split.
    + intros k f E. rewrite (Cn r Nr). eauto.
    + intros o n w E Nw. rewrite Cn; [eauto|]. intros ->.
      pose proof (t_run _ _ _ (T r) t) as X. unfold CC in X. rewrite E in X. cbn [cls c_run runof] in X.
      destruct (t =? 0) eqn:E0; [apply Z.eqb_eq in E0; contradiction|]. specialize (X eq_refl Nw). rewrite P0 in X. discriminate X.
  - exact h_rets0.
  - intros u. rewrite P. destruct (Z.eq_dec u t) as [->|Nu]; [congruence|]. rewrite (Cn u Nu). apply h_postx0.
  - intros u. rewrite P. destruct (Z.eq_dec u t) as [->|Nu]; [congruence|]. rewrite (Cn u Nu), (Pn _ (hn_call0 u)). apply h_fast0.
  - intros u. rewrite P. destruct (Z.eq_dec u t) as [->|Nu]; [congruence|]. rewrite (Cn u Nu), (Pn _ (hn_call0 u)). apply h_ready0.
  - intros u. sproj. rewrite Eph. intros Hu. pose proof (Sg u Hu) as Nu. rewrite (Cn u Nu), (Pn _ (hn_call0 u)), (Em u Nu).
    apply h_sig0. exact Hu.
  - intros u. rewrite P. destruct (Z.eq_dec u t) as [->|Nu]; [congruence|]. rewrite (Cn u Nu). apply h_after0.
  - intros b Hb. unfold fin; hproj. rewrite (Pn b (hn_started0 b Hb)). apply (h_started0 b Hb).
  - exact h_finst0.
  - intros a Ha. destruct (Z.eq_dec a (nextc h)) as [->|Na].
    + left. rewrite !upd_same. reflexivity.
    + rewrite (upd_other (caller h)) by exact Na. assert (Ha' : 0 <= a < nextc h) by lia.
      destruct (h_po3 a Ha') as [X|X]; [|right; exact X].
      destruct (Z.eq_dec (caller h a) t) as [E|N]; [|left; rewrite (Cn _ N); exact X].
      right. rewrite E in X. destruct (h_idle0 t) as [Y|Y]; [rewrite Hpc; reflexivity|lia|rewrite X; exact Y].
  - intros a b Ha Hab Hb. destruct (Z.eq_dec b (nextc h)) as [->|Nb].
    + rewrite !upd_same. rewrite (upd_other (caller h)) by lia. intros E.
      assert (Ha' : 0 <= a < nextc h) by lia. destruct (h_po3 a Ha') as [X|X]; [|exact X].
      rewrite E in X. destruct (h_idle0 t) as [Y|Y]; [rewrite Hpc; reflexivity|lia|rewrite X; exact Y].
    + rewrite !(upd_other (caller h)) by lia. rewrite (upd_other (pre h)) by exact Nb. apply h_po0; lia.
Qed.

Lemma H_return s s1 h t :
  HInv s h -> client (pcs s t) = true -> (ok h (callno h t) \/ In (callno h t) (glst h)) ->
  pcs s1 = pcs s -> lst s1 = lst s -> cur s1 = cur s -> running s1 = running s -> (forall x, remote s1 x = remote s x) ->
  (forall x, is_sig (ph s1 x) = true -> is_sig (ph s x) = true) ->
  HInv (set_pc s1 t Idle) (h_ret h t).
Proof.
  intros H Ct Hok Ep El Ec Er Em Eph. pose proof H as [].
  assert (P : forall u, pcs (set_pc s1 t Idle) u = if Z.eq_dec u t then Idle else pcs s u).
  { intros u. rewrite pcs_set_pc. rewrite Ep. reflexivity. }
  constructor; hproj.
  - exact hn_call0.
  - intros a [<-|Ha]; auto.
  - exact hn_cur0.
  - exact hn_started0.
  - intros b a Ha. right. eauto.
  - intros u v. rewrite !P. destruct (Z.eq_dec u t), (Z.eq_dec v t); try discriminate. auto.
  - intros u. rewrite P. destruct (Z.eq_dec u t) as [->|Nu]; [discriminate|]. intros Cu [X|X]; [|exact (h_unret0 u Cu X)].
    apply Nu. symmetry. apply h_distinct0; auto.
  - intros u. rewrite P. destruct (Z.eq_dec u t) as [->|Nu]; [intros _; right; left; reflexivity|].
    intros Cu. destruct (h_idle0 u Cu); auto. right. right. assumption.
  - sproj. rewrite El. apply (qok_refresh h); auto.
  - sproj. rewrite Ec. exact h_cur0.
  - sproj. rewrite Er. destruct (running s) as [r|], (grun h) as [b|]; auto. destruct h_run0 as (A & B & C).
    split; [exact A|]. change (upd (pcs s1) t Idle r) with (pcs (set_pc s1 t Idle) r). rewrite P.
    destruct (Z.eq_dec r t); [split; intros; discriminate|split; assumption].
  - intros a [<-|Ha]; [exact Hok|apply h_rets0; exact Ha].
  - intros u. rewrite P. destruct (Z.eq_dec u t); [discriminate|apply h_postx0].
  - intros u. rewrite P. destruct (Z.eq_dec u t); [discriminate|apply h_fast0].
  - intros u. rewrite P. destruct (Z.eq_dec u t); [discriminate|apply h_ready0].
  - intros u Hu. sproj_in Hu. sproj. rewrite Em. exact (h_sig0 u (Eph u Hu)).
  - intros u. rewrite P. destruct (Z.eq_dec u t); [discriminate|apply h_after0].
  - exact h_started0.
  - exact h_finst0.
  - intros a Ha. destruct (h_po3 a Ha); auto. right. right. assumption.
  - exact h_po0.
Qed.

Lemma hold_holder s t : Inv s -> holdpc (pcs s t) = true -> holder s = Some t.
Proof. intros [G T] H. apply (t_hold _ _ _ (T t)). exact H. Qed.

Lemma free_idle s : Inv s -> holder s = None -> cur s = None /\ running s = None.
Proof.
  intros HI Hn. split; [apply cur_none_if_free; assumption|]. destruct HI as [G T].
  destruct (running s) as [r|] eqn:R; [|reflexivity]. exfalso.
  pose proof (g_running _ _ G r R) as X. unfold CC in X. cbn [cls c_incall] in X.
  pose proof (t_hold _ _ _ (T r)) as Y. unfold CC in Y. cbn [cls c_hold] in Y. rewrite (Y (incall_hold _ X)) in Hn. discriminate Hn.
Qed.

Lemma popped_facts s c : Inv s -> cur s = Some c -> is_waiter_kind (e_kind c) = true ->
  wst (pcs s (e_own c)) <> WNone /\ remote s (e_own c) = false.
Proof.
  intros HI Hc Wk. destruct (cur_owner s c HI Hc Wk) as [(x & P) _]. destruct HI as [G T].
  assert (Ww : wst (pcs s (e_own c)) <> WNone).
  { intros E. destruct (t_nowait _ _ _ (T (e_own c)) E) as (P0 & _). destruct P as [P|P]; rewrite P in P0; discriminate P0. }
  split; [exact Ww|]. pose proof (t_wait _ _ _ (T (e_own c)) Ww) as W. unfold waitinv in W.
  destruct P as [P|P]; rewrite P in W.
  - destruct W as ((_ & _ & R) & _). exact R.
  - destruct W as (_ & _ & [((_ & _ & R) & _)|(_ & _ & _ & R)]); exact R.
Qed.

(* ------------------------------------------------------------------ one step *)
Section HSteps.
Variables (s : gst) (h : hist) (t : Z) (e : event) (s' : gst).
Hypothesis Vt : valid_tid t.
Hypothesis HI : Inv s.
Hypothesis HH : HInv s h.

Ltac hstart Hpc :=
  intros Hpc Hs; unfold hstep, hstep_with; apply gstep_unfold in Hs as (p' & acts & s1 & Hts & Ha & ->);
  rewrite Hts; rewrite Hpc in Hts; cbn [tstep] in Hts.
Ltac ba1 H :=
  let sx := fresh "sx" in let HX := fresh "HX" in
  apply acts_cons in H as (sx & HX & H); cbn [apply_act] in HX; bd HX; try (injection HX as <-).
Ltac ba H := repeat ba1 H; apply acts_nil in H; try subst; try congruence.
Ltac dchg := repeat match goal with |- context [changed ?a ?b ENQ] => destruct (changed a b ENQ) end.
Ltac hq :=
  apply (H_quiet s); [exact HH | sproj; reflexivity | sproj; first [left; reflexivity | right; eexists; reflexivity]
                     | sproj; reflexivity | sproj; reflexivity | intros; sproj; reflexivity
                     | intros ?; sproj; try (unfold upd; destruct (_ =? _)); auto; try discriminate].
Ltac quiet Hpc := cbn [hacts fold_left hact]; dchg; (apply pc_keep; [hq | sproj; rewrite Hpc; try reflexivity]).

Ltac bdx H :=
  cbv zeta in H;
  repeat match type of H with (match ?x with _ => _ end) = Some _ => destruct x eqn:?; try discriminate H end.
Ltac kfin :=
  unfold after_fload, after_uload, after_cload, after_wuload, after_pop; cbn [cont_pc];
  repeat match goal with |- context [match ?x with _ => _ end] => destruct x end; try reflexivity;
  repeat match goal with c : cont |- _ => destruct c | pk : popk |- _ => destruct pk end; cbn [cont_pc]; try reflexivity;
  repeat match goal with |- context [match ?x with _ => _ end] => destruct x end; try reflexivity.

Definition quietpc (p : pc) : bool :=
  match p with
  | A_head _ | A_link _ | A_probe _ | A_wload _ | A_root | S_aaw | S_fload _ | S_wprep _ | S_head _ _ | S_link _ _ | S_sw
  | S_pwload _ | S_pwbody _ _ | S_sub _ | S_eload _ | S_futex _ | S_sleep _ | S_fake _ | S_tail | S_uload | S_ubody _
  | B_tail _ | B_susp _ | B_head _ | C_load _ _ | C_body _ _ _ | C_xor _ | C_root _ | P_cas _ | P_store _ | D_load _ _
  | G_wake _ _ | W_lbody _ _ | W_tail _ | W_head _ | W_state _ | W_uload _ | W_ubody _ _ | W_xor _ => true
  | _ => false
  end.

Lemma hs_quiet : quietpc (pcs s t) = true -> gstep s t e = Some s' -> HInv s' (hstep s h t e).
Proof.
  intros Q Hs. destruct (pcs s t) eqn:Hpc; try discriminate Q; clear Q;
    (unfold hstep, hstep_with; apply gstep_unfold in Hs as (p' & acts & s1 & Hts & Ha & ->);
     rewrite Hts; rewrite Hpc in Hts; cbn [tstep] in Hts; bdx Hts; ret_inv Hts; ba Ha; quiet Hpc; kfin).
Qed.
Ltac hsx Hpc :=
  intros Hpc Hs; unfold hstep, hstep_with; apply gstep_unfold in Hs as (p' & acts & s1 & Hts & Ha & ->);
  rewrite Hts; rewrite Hpc in Hts; cbn [tstep] in Hts; bdx Hts; ret_inv Hts; ba Ha; cbn [hacts fold_left hact].
Ltac nofacts :=
  intros; exfalso;
  repeat match goal with H : context [if ?c then _ else _] |- _ => destruct c end; discriminate.
Ltac same := sproj; try reflexivity.
Ltac phmono :=
  intros ?; sproj; unfold upd; repeat match goal with |- context [if ?c then _ else _] => destruct c end; auto; try discriminate.

Lemma hs_Idle : pcs s t = Idle -> gstep s t e = Some s' -> HInv s' (hstep s h t e).
Proof.
  hsx Hpc.
  - apply (H_call s s); auto.
  - apply (H_call s); auto; same. intros x N. rewrite upd_other by exact N. reflexivity.
  - apply (H_call s); auto; same. intros x N. rewrite upd_other by exact N. reflexivity.
  - quiet Hpc.
Qed.

Lemma xchg_step ik p' :
  (ek e =? DV_XCHG) && (eord e =? MO_RELEASE) && (eobj e =? 0) && (eoff e =? OFF_T) && negb (eb e =? 0) = true ->
  client p' = client (pcs s t) -> postx p' = isA (pcs s t) -> fastp p' = false -> readyp p' = false -> afterp p' = false ->
  incall p' = false -> wst (pcs s t) = WNone \/ is_waiter_kind ik = false ->
  let s0 := set_list s (lst s ++ [{| e_id := eb e; e_linked := false; e_kind := ik; e_own := if is_waiter_kind ik then t else 0 |}]) (tailz s) in
  HInv (set_pc (if is_waiter_kind ik then set_ph s0 (upd (ph s) t PhQueued) else s0) t p')
       (h_list h (glst h ++ [callno h t]) (gcur h)).
Proof.
  intros C Hc Hp Hf Hr Ha Hi _ s0.
  assert (Nz : eb e <> 0).
  { apply andb_true_iff in C as [_ C]. apply negb_true_iff in C. apply Z.eqb_neq in C. exact C. }
  apply pc_move.
  - apply (H_xchg s _ h t {| e_id := eb e; e_linked := false; e_kind := ik; e_own := if is_waiter_kind ik then t else 0 |});
      auto; subst s0; try (cbn [e_kind e_own]; intros W; rewrite W; reflexivity); destruct (is_waiter_kind ik); same; try phmono.
  - rewrite Hc. subst s0. destruct (is_waiter_kind ik); same.
  - intros _. right. hproj. apply in_or_app. right. left. reflexivity.
  - rewrite Hf. discriminate.
  - rewrite Hr. discriminate.
  - rewrite Ha. discriminate.
  - intros _ b _. split; intros; subst p'; discriminate.
Qed.

Lemma hs_A_xchg : pcs s t = A_xchg -> gstep s t e = Some s' -> HInv s' (hstep s h t e).
Proof.
  hsx Hpc. apply (xchg_step IAsync); rewrite ?Hpc; auto; destruct (ea e =? 0); reflexivity.
Qed.

Lemma hs_S_xchg k : pcs s t = S_xchg k -> gstep s t e = Some s' -> HInv s' (hstep s h t e).
Proof.
  hsx Hpc. apply (xchg_step (kind_ik k)); rewrite ?Hpc; auto; destruct (ea e =? 0); reflexivity.
Qed.
Lemma hs_A_wbody f old : pcs s t = A_wbody f old -> gstep s t e = Some s' -> HInv s' (hstep s h t e).
Proof.
  hsx Hpc; try solve [quiet Hpc; kfin].
  apply (H_return s s); auto; try (rewrite Hpc; reflexivity). apply (h_postx _ _ HH t). rewrite Hpc. reflexivity.
Qed.

Lemma hs_A_ret : pcs s t = A_ret -> gstep s t e = Some s' -> HInv s' (hstep s h t e).
Proof.
  hsx Hpc. apply (H_return s s); auto; try (rewrite Hpc; reflexivity). apply (h_postx _ _ HH t). rewrite Hpc. reflexivity.
Qed.

Lemma hs_S_ret : pcs s t = S_ret -> gstep s t e = Some s' -> HInv s' (hstep s h t e).
Proof.
  hsx Hpc. apply (H_return s); auto; same; try (rewrite Hpc; reflexivity).
  left. left. apply (h_after _ _ HH t). rewrite Hpc. reflexivity.
Qed.

Lemma hs_S_ftail k : pcs s t = S_ftail k -> gstep s t e = Some s' -> HInv s' (hstep s h t e).
Proof.
  hsx Hpc.
  - quiet Hpc.
  - (* the list is empty: what had returned before this call is popped *)
    assert (Tz : tail_value s = 0).
    { match goal with H : Bool.eqb _ (negb (tail_value s =? 0)) = true |- _ => apply eqb_prop in H; cbn in H end.
      destruct (tail_value s =? 0) eqn:E; [apply Z.eqb_eq in E; exact E|discriminate]. }
    destruct (tail_zero_empty s h HH Tz) as [_ Eg].
    apply pc_move; auto; try (rewrite Hpc; reflexivity); try nofacts.
    + intros _ a Ha. destruct (h_rets _ _ HH a (h_pre _ _ HH _ a Ha)) as [X|X]; [exact X|]. rewrite Eg in X. contradiction.
    + intros _ b _. split; intros; discriminate.
Qed.

Lemma hs_S_fbody k old : pcs s t = S_fbody k old -> gstep s t e = Some s' -> HInv s' (hstep s h t e).
Proof.
  hsx Hpc; try solve [quiet Hpc; kfin].
  (* acquired from the idle word: nobody holds a popped item or runs one *)
  match goal with H : (st s =? old) = true |- _ => apply Z.eqb_eq in H; symmetry in H; subst old end.
  pose proof HI as [G T]. pose proof (g_word _ _ G) as Wd.
  match goal with Hb : b_fast t (st s) = Commit _ _ |- _ => destruct (t_fast _ _ _ _ _ _ Wd (valid_lt t Vt) Hb) as (Hn & _ & _) end.
  destruct (free_idle s HI Hn) as [Cn Rn].
  pose proof (h_cur _ _ HH) as Hc. rewrite Cn in Hc. destruct (gcur h) eqn:Egc; [contradiction|].
  pose proof (h_run _ _ HH) as Hr. rewrite Rn in Hr. destruct (grun h) eqn:Egr; [contradiction|].
  dchg; (apply pc_move; [hq | same; rewrite Hpc; destruct k; reflexivity | try (destruct k; nofacts) ..]).
  all: try (intros _ a Ha; destruct (h_fast _ _ HH t) with (a := a) as [X|[X|X]];
            [rewrite Hpc; reflexivity|same; exact Ha|exact X|congruence|congruence]).
  all: intros _ b _; split; intros; destruct k; discriminate.
Qed.
Lemma woken_facts k : pcs s t = S_woken k -> ph s t = PhSigd /\ (remote s t = false -> holder s = Some t).
Proof.
  intros Hpc. pose proof HI as [G T]. pose proof (T t) as Tt.
  destruct (t_woken _ _ _ Tt) as (P & _); [unfold CC; rewrite Hpc; reflexivity|]. split; [exact P|].
  intros Rm. assert (Ww : c_wst (CC s t) <> WNone) by (unfold CC; rewrite Hpc; discriminate).
  pose proof (t_wait _ _ _ Tt Ww) as W. unfold waitinv in W. rewrite P in W.
  destruct W as [[X _]|(_ & _ & X)]; [exact X|congruence].
Qed.

Lemma hs_S_woken k : pcs s t = S_woken k -> gstep s t e = Some s' -> HInv s' (hstep s h t e).
Proof.
  intros Hpc. destruct (woken_facts k Hpc) as [P Hh]. revert Hpc.
  assert (Sg : is_sig (ph s t) = true) by (rewrite P; reflexivity).
  destruct (h_sig _ _ HH t Sg) as [Hpre Hrem].
  hsx Hpc.
  - (* dispatch_sync_f: the waiter starts its item *)
    match goal with H : Bool.eqb (remote s t) false = true |- _ => apply eqb_prop in H; specialize (Hh H) end.
    assert (Rn : running s = None) by (apply (running_none s t HI Hh); rewrite Hpc; reflexivity).
    apply pc_move.
    + apply (H_begin_self s); auto; same; try (rewrite Hpc; reflexivity). phmono.
    + same. rewrite Hpc. reflexivity.
    + nofacts.
    + nofacts.
    + nofacts.
    + nofacts.
    + intros _ b Hb. hproj_in Hb. injection Hb as <-. split; intros; [reflexivity|discriminate].
  - (* dispatch_async_and_wait_f, not run remotely *)
    apply pc_move.
    + apply (H_quiet s); auto; same. phmono.
    + same. rewrite Hpc. reflexivity.
    + nofacts.
    + nofacts.
    + intros _. same. exact Hpre.
    + nofacts.
    + intros _ b _. split; intros; discriminate.
  - (* dispatch_async_and_wait_f, run by the drainer: return *)
    match goal with H : Bool.eqb (remote s t) true = true |- _ => apply eqb_prop in H; specialize (Hrem H) end.
    apply (H_return s); auto; same; try (rewrite Hpc; reflexivity); [left; left; exact Hrem|phmono].
Qed.

Lemma hs_S_call k f : pcs s t = S_call k f -> gstep s t e = Some s' -> HInv s' (hstep s h t e).
Proof.
  hsx Hpc.
  assert (Hh : holder s = Some t) by (apply hold_holder; [exact HI|rewrite Hpc; reflexivity]).
  assert (Rn : running s = None) by (apply (running_none s t HI Hh); rewrite Hpc; reflexivity).
  apply pc_move.
  - apply (H_begin_self s); auto; same; try (rewrite Hpc; reflexivity). apply (h_ready _ _ HH t). rewrite Hpc. reflexivity.
  - same. rewrite Hpc. reflexivity.
  - nofacts.
  - nofacts.
  - nofacts.
  - nofacts.
  - intros _ b Hb. hproj_in Hb. injection Hb as <-. split; intros; [reflexivity|discriminate].
Qed.

Lemma hs_S_incall k f : pcs s t = S_incall k f -> gstep s t e = Some s' -> HInv s' (hstep s h t e).
Proof.
  hsx Hpc. pose proof HI as [G T].
  assert (Rt : running s = Some t) by (apply (t_incall _ _ _ (T t)); unfold CC; rewrite Hpc; reflexivity).
  assert (Egr : grun h = Some (callno h t)).
  { pose proof (h_run _ _ HH) as R. rewrite Rt in R. destruct (grun h) as [b|]; [|contradiction].
    destruct R as (_ & B & _). rewrite (B k f Hpc). reflexivity. }
  apply pc_move.
  - apply (H_end s); auto; same. congruence.
  - same. rewrite Hpc. destruct k, f; reflexivity.
  - destruct k, f; nofacts.
  - destruct k, f; nofacts.
  - destruct k, f; nofacts.
  - intros _. rewrite Egr. left. reflexivity.
  - intros _ b _. split; intros; destruct k, f; discriminate.
Qed.
Lemma hpop_step d e1 rest tz p' newph :
  holder s = Some t -> incall (pcs s t) = false -> lst s = e1 :: rest -> cur s = None -> is_sig newph = false ->
  keeps (pcs s t) p' = true ->
  let s1 := set_cur (set_list s rest tz) (Some e1) in
  let s2 := if is_waiter_kind (e_kind e1) then set_ph s1 (upd (ph s) (e_own e1) newph) else s1 in
  HInv (set_pc s2 t p') (hact (APop1 d) h t e).
Proof.
  intros Hh Hi Hl Cn Hn K s1 s2. pose proof (running_none s t HI Hh Hi) as Rn.
  apply pc_keep.
  - apply (H_pop s _ h t d e e1 rest); auto; subst s2 s1; destruct (is_waiter_kind (e_kind e1)); same; try exact Rn; auto.
    intros x. unfold upd. destruct (x =? e_own e1); [rewrite Hn; discriminate|auto].
  - subst s2 s1. destruct (is_waiter_kind (e_kind e1)); sproj; exact K.
Qed.

Lemma hs_W_pop o : pcs s t = W_pop o -> gstep s t e = Some s' -> HInv s' (hstep s h t e).
Proof.
  hstart Hpc. bd Hts. ret_inv Hts.
  assert (Hh : holder s = Some t) by (apply hold_holder; [exact HI|rewrite Hpc; reflexivity]).
  apply acts_cons in Ha as (sx & HX & Ha). apply acts_nil in Ha. subst sx. cbn [apply_act] in HX.
  destruct (lst s) as [|e1 rest] eqn:Hl; [discriminate HX|]. destruct (cur s) as [c|] eqn:Cn; [discriminate HX|].
  bd HX; injection HX as <-; cbn [hacts fold_left]; destruct (eb e =? 0) eqn:En;
  (apply hpop_step; rewrite ?Hpc; auto; try reflexivity; destruct (is_sync_kind (e_kind e1)); reflexivity).
Qed.

Lemma hs_B_dec c : pcs s t = B_dec c -> gstep s t e = Some s' -> HInv s' (hstep s h t e).
Proof.
  hstart Hpc. bd Hts.
  - ret_inv Hts.
    assert (Hh : holder s = Some t) by (apply hold_holder; [exact HI|rewrite Hpc; reflexivity]).
    apply acts_cons in Ha as (sx & HX & Ha). cbn [apply_act] in HX.
    destruct (lst s) as [|e1 rest] eqn:Hl; [discriminate HX|]. bd HX. injection HX as <-.
    apply acts_cons in Ha as (sx & HX & Ha). apply acts_nil in Ha. subst sx. cbn [apply_act] in HX. rewrite Hl in HX.
    destruct (cur s) as [c0|] eqn:Cn; [discriminate HX|].
    bd HX; injection HX as <-; cbn [hacts fold_left]; change (hact (AHeadWaiter true) h t e) with h; destruct (eb e =? 0) eqn:En;
    (apply hpop_step; rewrite ?Hpc; auto; try reflexivity; destruct c; reflexivity).
  - ret_inv Hts. ba Ha. quiet Hpc; kfin.
Qed.
Lemma hs_D_body c enq old : pcs s t = D_body c enq old -> gstep s t e = Some s' -> HInv s' (hstep s h t e).
Proof.
  hsx Hpc; try solve [quiet Hpc; kfin].
  match goal with H : (eok e =? 1) = true |- _ => rewrite H end.
  match goal with H : _ && is_waiter_kind _ = true |- _ => apply andb_true_iff in H as [Ow Wk]; apply Z.eqb_eq in Ow end.
  match goal with H : cur s = Some ?c0 |- _ => destruct (popped_facts s c0 HI H Wk) as [Ww Rw]; rename H into Hc end.
  rewrite Ow in Ww, Rw.
  dchg; (apply pc_keep; [eapply (H_xfer s); eauto; same; intros x N; sproj; rewrite upd_other by exact N; auto
                        | same; rewrite Hpc; destruct c; reflexivity]).
Qed.

Lemma hs_G_sig c w : pcs s t = G_sig c w -> gstep s t e = Some s' -> HInv s' (hstep s h t e).
Proof.
  hsx Hpc. pose proof HI as [G T].
  assert (Pw : ph s w = PhSig t) by (apply (t_sig _ _ _ (T t)); unfold CC; rewrite Hpc; reflexivity).
  apply pc_keep.
  - apply (H_quiet s); auto; same. intros x. unfold upd. destruct (x =? w) eqn:E; [|auto].
    apply Z.eqb_eq in E. subst x. rewrite Pw. reflexivity.
  - same. rewrite Hpc. kfin.
Qed.

Lemma hs_W_dec o n : pcs s t = W_dec o n -> gstep s t e = Some s' -> HInv s' (hstep s h t e).
Proof.
  hsx Hpc; try solve [quiet Hpc; kfin].
  match goal with H : Some _ = Some _ |- _ => injection H as <- end.
  match goal with H : (e_own _ =? eb e) = true |- _ => apply Z.eqb_eq in H; rename H into Ow end.
  match goal with H : cur s = Some ?c0 |- _ => rename H into Hc; set (c := c0) in * end.
  assert (Hh : holder s = Some t) by (apply hold_holder; [exact HI|rewrite Hpc; reflexivity]).
  assert (Rn : running s = None) by (apply (running_none s t HI Hh); rewrite Hpc; reflexivity).
  assert (Egc : exists b, gcur h = Some b /\ (eb e <> 0 -> b = callno h (eb e))).
  { pose proof (h_cur _ _ HH) as R. rewrite Hc in R. destruct (gcur h) as [b|]; [|contradiction]. exists b. split; [reflexivity|].
    intros Nz. destruct R as [R _]. rewrite <- Ow. apply R.
    destruct (is_waiter_kind (e_kind c)) eqn:Wk; [reflexivity|]. exfalso. apply Nz. rewrite <- Ow. apply (cur_nonwaiter s c HI Hc Wk). }
  destruct Egc as (b & Egc & Hb).
  apply pc_move.
  - change (HInv (if eb e =? 0 then set_running (set_cur s None) (Some t) (overlap s || match running s with Some _ => true | None => false end)
                  else set_item (set_running (set_cur s None) (Some t) (overlap s || match running s with Some _ => true | None => false end))
                                (upd (ist s) (eb e) IRun) (upd (runs s) (eb e) (runs s (eb e) + 1)) (remote s))
                 (hact (ABeginCur (eb e)) h t e)).
    eapply (H_begin_cur s); eauto; destruct (eb e =? 0); same; auto; rewrite Hpc; reflexivity.
  - destruct (eb e =? 0); same; rewrite Hpc; reflexivity.
  - nofacts.
  - nofacts.
  - nofacts.
  - nofacts.
  - intros _ b0 Hb0. rewrite Egc in Hb0. hproj_in Hb0. injection Hb0 as <-. split; [intros; discriminate|].
    intros o0 n0 w0 E Nw. injection E as _ _ <-. rewrite Egc. hproj. auto.
Qed.

Lemma hs_W_incall o n w : pcs s t = W_incall o n w -> gstep s t e = Some s' -> HInv s' (hstep s h t e).
Proof.
  hsx Hpc. pose proof HI as [G T].
  assert (Rt : running s = Some t) by (apply (t_incall _ _ _ (T t)); unfold CC; rewrite Hpc; reflexivity).
  apply pc_keep.
  - apply (H_end s); auto; destruct (w =? 0) eqn:Ew; same; try congruence.
    + intros x Hx. left. auto.
    + apply Z.eqb_neq in Ew. intros x. unfold upd. destruct (x =? w) eqn:E.
      * apply Z.eqb_eq in E. subst x. intros _. right.
        pose proof (h_run _ _ HH) as R. rewrite Rt in R. destruct (grun h) as [b|]; [|contradiction].
        destruct R as (_ & _ & R). rewrite (R o n w Hpc Ew). reflexivity.
      * intros Hx. left. auto.
  - destruct (w =? 0); same; rewrite Hpc; kfin.
Qed.

(* ---- every step preserves the history invariant ---- *)
Lemma HInv_step : gstep s t e = Some s' -> HInv s' (hstep s h t e).
Proof.
  intros Hs. destruct (quietpc (pcs s t)) eqn:Q; [apply hs_quiet; assumption|].
  destruct (pcs s t) eqn:Hpc; try discriminate Q;
  first [ eapply hs_Idle; eassumption | eapply hs_A_xchg; eassumption | eapply hs_A_wbody; eassumption
        | eapply hs_A_ret; eassumption | eapply hs_S_ftail; eassumption | eapply hs_S_fbody; eassumption
        | eapply hs_S_xchg; eassumption | eapply hs_S_woken; eassumption | eapply hs_S_call; eassumption
        | eapply hs_S_incall; eassumption | eapply hs_S_ret; eassumption | eapply hs_B_dec; eassumption
        | eapply hs_D_body; eassumption | eapply hs_G_sig; eassumption | eapply hs_W_pop; eassumption
        | eapply hs_W_dec; eassumption | eapply hs_W_incall; eassumption ].
Qed.
End HSteps.

Lemma HInv_init : HInv init_state h0.
Proof.
  constructor; unfold init_state, h0, order_ok, fin, ok; cbn; intros; try contradiction; try discriminate; try lia; auto.
Qed.

Lemma xreach_reach s h : xreach s h -> reach s.
Proof.
  induction 1 as [|s h t e s' X IH Vt Hs]; [apply reach_init; reflexivity|]. apply (reach_gstep s t e); assumption.
Qed.

Theorem HInv_reach s h : xreach s h -> HInv s h.
Proof.
  induction 1 as [|s h t e s' X IH Vt Hs]; [exact HInv_init|].
  apply HInv_step; auto. apply inv_reach. apply (xreach_reach s h). exact X.
Qed.

(* ---- the theorems ---- *)
(* real-time order, any mix of dispatch_async_f, dispatch_sync_f / dispatch_barrier_sync_f, dispatch_async_and_wait_f:
   once B's callout has begun, every item whose submission call had returned before B's call began has finished *)
Theorem realtime_order s h b a : xreach s h -> In b (started h) -> In a (pre h b) -> fin h a.
Proof. intros X Hb Ha. exact (h_started _ _ (HInv_reach s h X) b Hb a Ha). Qed.

(* what "had returned before B's call began" records: pre is fixed when the call begins ... *)
Lemma call_step s t e p' acts : pcs s t = Idle -> ek e = DVU_CALL -> tstep t (pcs s t) e = Some (p', acts) ->
  exists sync, acts = [ACall sync].
Proof.
  intros Hpc Hk Hts. rewrite Hpc in Hts. cbn [tstep] in Hts. rewrite Hk in Hts. rewrite Z.eqb_refl in Hts.
  repeat match type of Hts with (if ?c then _ else _) = Some _ => destruct c end; try discriminate Hts;
    unfold ret in Hts; injection Hts as _ <-; eexists; reflexivity.
Qed.

Theorem call_records_returned s h t e s' :
  xreach s h -> pcs s t = Idle -> ek e = DVU_CALL -> gstep s t e = Some s' ->
  let h' := hstep s h t e in
  callno h' t = nextc h /\ caller h' (nextc h) = t /\ pre h' (nextc h) = returned h /\ nextc h' = nextc h + 1.
Proof.
  intros X Hpc Hk Hs. apply gstep_unfold in Hs as (p' & acts & s1 & Hts & _ & _).
  destruct (call_step s t e p' acts Hpc Hk Hts) as [sy ->]. unfold hstep, hstep_with. rewrite Hts.
  cbn [hacts fold_left hact]. hproj. rewrite !upd_same. auto.
Qed.

(* ... and never changes afterwards *)
Lemma hact_pre a h t e b : b < nextc h ->
  nextc h <= nextc (hact a h t e) /\ pre (hact a h t e) b = pre h b /\ caller (hact a h t e) b = caller h b.
Proof.
  intros Hb. destruct a; cbn [hact]; hproj; try (split; [lia|auto]);
    repeat match goal with |- context [match ?x with _ => _ end] => destruct x end; hproj; try (split; [lia|auto]).
  rewrite !upd_other by lia. auto.
Qed.

Lemma hacts_pre acts : forall h t e b, b < nextc h ->
  nextc h <= nextc (hacts acts h t e) /\ pre (hacts acts h t e) b = pre h b /\ caller (hacts acts h t e) b = caller h b.
Proof.
  unfold hacts. induction acts as [|a acts IH]; intros h t e b Hb; cbn [fold_left]; [split; [lia|auto]|].
  destruct (hact_pre a h t e b Hb) as (A1 & A2 & A3).
  destruct (IH (hact a h t e) t e b) as (B1 & B2 & B3); [lia|]. split; [lia|]. rewrite B2, B3. auto.
Qed.

Theorem pre_stable s h t e b : b < nextc h -> pre (hstep s h t e) b = pre h b /\ caller (hstep s h t e) b = caller h b.
Proof.
  intros Hb. unfold hstep, hstep_with. destruct (tstep t (pcs s t) e) as [[p' acts]|]; [|auto].
  destruct (hacts_pre acts h t e b Hb) as (_ & A & B). auto.
Qed.

(* program order across submission kinds: if the same thread made call a and later call b (any two of dispatch_async_f,
   dispatch_sync_f, dispatch_barrier_sync_f, dispatch_async_and_wait_f), call a had returned when call b began ... *)
Theorem program_order s h a b : xreach s h -> 0 <= a -> a < b -> b < nextc h -> caller h a = caller h b -> In a (pre h b).
Proof. intros X. apply (h_po _ _ (HInv_reach s h X)). Qed.

(* ... hence A has finished when B starts *)
Theorem same_thread_order s h a b :
  xreach s h -> 0 <= a -> a < b -> b < nextc h -> caller h a = caller h b -> In b (started h) -> fin h a.
Proof. intros X H0 H1 H2 H3 H4. apply (realtime_order s h b a X H4). apply (program_order s h a b X H0 H1 H2 H3). Qed.

(* what the history means *)
Theorem finished_were_started s h a : xreach s h -> fin h a -> In a (started h).
Proof. intros X. apply (h_finst _ _ (HInv_reach s h X)). Qed.
Theorem started_are_calls s h b : xreach s h -> In b (started h) -> b < nextc h.
Proof. intros X. apply (hn_started _ _ (HInv_reach s h X)). Qed.
Theorem pre_are_returned s h b a : xreach s h -> In a (pre h b) -> In a (returned h).
Proof. intros X. apply (h_pre _ _ (HInv_reach s h X)). Qed.

(* the fast path is refused while anything is on the list *)
Theorem fast_path_needs_empty_list s t k e s' :
  pcs s t = S_ftail k -> gstep s t e = Some s' -> fastp (pcs s' t) = true -> tail_value s = 0.
Proof.
  intros Hpc Hs Hf. apply gstep_unfold in Hs as (p' & acts & s1 & Hts & Ha & ->). rewrite Hpc in Hts. cbn [tstep] in Hts.
  rewrite pcs_set_pc in Hf. destruct (Z.eq_dec t t) as [_|N]; [|contradiction].
  destruct (is_tau e 1); [unfold ret in Hts; injection Hts as <- <-; discriminate Hf|].
  destruct (is_tau e 0); [|discriminate Hts]. unfold ret in Hts. injection Hts as <- <-.
  cbn [apply_acts apply_act] in Ha. destruct (tail_value s =? 0) eqn:E; [apply Z.eqb_eq in E; exact E|].
  cbn in Ha. discriminate Ha.
Qed.

(* the same at the very step at which B's callout begins: what had returned before B's call began has finished BEFORE it *)
Lemma cons_neq (x : Z) l : x :: l <> l.
Proof. intros E. apply (f_equal (@length Z)) in E. cbn in E. lia. Qed.

Lemma start_acts self p e p' acts h t b :
  tstep self p e = Some (p', acts) -> started (hacts acts h t e) = b :: started h ->
  finished (hacts acts h t e) = finished h /\ nextc (hacts acts h t e) = nextc h /\ pre (hacts acts h t e) = pre h.
Proof.
  intros H. destruct p; cbn [tstep] in H;
    (cbv zeta in H;
     repeat match type of H with (match ?x with _ => _ end) = Some _ => destruct x eqn:?; try discriminate H end);
    ret_inv H; cbn [hacts fold_left hact];
    repeat match goal with |- context [match ?x with _ => _ end] => destruct x end; hproj;
    intros E; try (exfalso; first [exact (cons_neq _ _ E) | exact (cons_neq _ _ (eq_sym E))]); auto.
Qed.

Theorem start_step_after_finish s h t e s' b a :
  xreach s h -> valid_tid t -> gstep s t e = Some s' -> started (hstep s h t e) = b :: started h ->
  In a (pre h b) -> In a (finished h).
Proof.
  intros X Vt Hs Hst Ha. pose proof (xr_step s h t e s' X Vt Hs) as X'.
  assert (Hb : In b (started (hstep s h t e))) by (rewrite Hst; left; reflexivity).
  pose proof Hs as Hs'. apply gstep_unfold in Hs' as (p' & acts & s1 & Hts & _ & _).
  unfold hstep, hstep_with in *. rewrite Hts in *.
  destruct (start_acts t (pcs s t) e p' acts h t b Hts Hst) as (E1 & E2 & E3).
  rewrite <- E1. apply (realtime_order s' _ b a X' Hb). rewrite E3. exact Ha.
Qed.
