(* Transform32_proofs.v — Base32 / Base32Hex: the same theorems as for Base64 (Transform_proofs.v), proved once for
   any encode/decode table pair that satisfies the digit property, then instantiated with the two generated pairs. *)
From Coq Require Import ZArith List Bool Lia ZifyBool.
From Verif Require Import Word Bits Gen_transform Transform Transform_proofs.
Import ListNotations.
Local Open Scope Z_scope.

Arguments u64 : simpl never.
Arguments Z.shiftl : simpl never.
Arguments Z.shiftr : simpl never.
Arguments Z.land : simpl never.
Arguments Z.lor : simpl never.
Arguments Z.mul : simpl never.
Arguments Z.add : simpl never.
Arguments Z.sub : simpl never.
Arguments Z.div : simpl never.
Arguments Z.modulo : simpl never.
Arguments Z.ltb : simpl never.
Arguments Z.leb : simpl never.
Arguments Z.eqb : simpl never.
Arguments Z.to_nat : simpl never.
Arguments skipn : simpl never.

Section B32.
Local Ltac Zify.zify_post_hook ::= Z.div_mod_to_equations.

Variables (etab dtab : list Z) (tsize : Z).
Definition e32 (k : Z) : Z := nth (Z.to_nat k) etab 0.

(* what the proofs need of a table pair *)
Hypothesis Htsize : tsize = Zlength dtab.
Hypothesis Hetab : (32 <= length etab)%nat.
Hypothesis Hdigit : forall k, 0 <= k < 32 ->
  is_ws (e32 k) = false /\ (tsize <=? e32 k) = false /\ rd dtab (e32 k) = Some k /\ 0 <= e32 k < 256.
Hypothesis Hpadc : (tsize <=? PAD) = false /\ rd dtab PAD = Some (-2).

Definition kdrop (pad : Z) : Z :=
  if pad =? 1 then 1 else if pad =? 3 then 2 else if pad =? 4 then 3 else if pad =? 6 then 4 else 0.
Lemma kdrop_range : forall p, 0 <= kdrop p <= 4.
Proof. intros. unfold kdrop. repeat match goal with |- context [if ?b then _ else _] => destruct b end; lia. Qed.

Definition out5 (x : Z) (acc : list Z) : list Z :=
  Z.land x 255 :: Z.land (Z.shiftr x 8) 255 :: Z.land (Z.shiftr x 16) 255 :: Z.land (Z.shiftr x 24) 255 ::
  Z.land (Z.shiftr x 32) 255 :: acc.

(* one character of Base32 input on the flat string *)
Definition d32_step (c : Z) (s : dec_st * list Z) : res (dec_st * list Z) :=
  let '((x, count, pad), acc) := s in
  if is_ws c then Ok s
  else if tsize <=? c then Null
  else match rd dtab c with
       | None => Null
       | Some v =>
         if v =? -1 then Null
         else
           let count := u64 (count + 1) in
           let '(value, pad) := if v =? -2 then (0, u64 (pad + 1)) else (v, pad) in
           let x := u64 (u64 (Z.shiftl x 5) + u64 value) in
           if Z.land count 7 =? 0 then Ok ((x, count, 0), skipn (Z.to_nat (kdrop pad)) (out5 x acc))
           else Ok ((x, count, pad), acc)
       end.

Definition dec32_flat (l : list Z) : res (list Z) :=
  match foldi (fun _ => d32_step) 0 l ((0, 0, 0), []) with
  | Ok (_, acc) => Ok (rev acc) | Null => Null | OOB s => OOB s
  end.

Lemma land7 : forall c, Z.land c 7 = c mod 8.
Proof. intros. change 7 with (2 ^ 3 - 1). rewrite land_low by lia. reflexivity. Qed.

Definition rel32 (acc0 : list Z) (n count : Z) (a : res (dec_st * obuf)) (b : res (dec_st * list Z)) : Prop :=
  match a, b with
  | Ok (st1, (n1, l1)), Ok (st2, a2) =>
    st1 = st2 /\ a2 = l1 ++ acc0 /\ n1 = Zlength l1 /\
    forall R, 0 <= R -> n1 + 5 * ((snd (fst st1) mod 8 + R) / 8) <= n + 5 * ((count mod 8 + R + 1) / 8)
  | Null, Null => True
  | _, _ => False
  end.

Lemma char_sim32 : forall cap c x count pad n l acc0,
  0 <= c -> n = Zlength l ->
  ((count + 1) mod 8 = 0 -> n + 5 <= cap) ->
  rel32 acc0 n count (b32d_char dtab tsize cap c ((x, count, pad), (n, l))) (d32_step c ((x, count, pad), l ++ acc0)).
Proof.
  intros cap c x count pad n l acc0 Hc Hn Hcap.
  unfold b32d_char, d32_step.
  destruct (is_ws c).
  { cbn [rel32 fst snd]. repeat split; auto. intros; lia. }
  destruct (tsize <=? c) eqn:Hsz; [exact I|].
  assert (Hsz' : (Zlength dtab <=? c) = false) by (rewrite <- Htsize; exact Hsz).
  destruct (rd_table_some dtab c Hc Hsz') as [v Hv].
  unfold rdo. rewrite Hv. cbn [bind].
  destruct (v =? -1); [exact I|].
  set (count' := u64 (count + 1)).
  assert (Hm : count' mod 8 = (count + 1) mod 8) by (unfold count', u64; lia).
  pose proof (Zlength_nonneg l) as Hl.
  assert (Hwr : forall pad', (count + 1) mod 8 = 0 -> forall xx,
    rel32 acc0 n count
      (do o <- wr 635 cap (n, l) (Z.land (Z.shiftr xx 32) 255);
       do o0 <- wr 636 cap o (Z.land (Z.shiftr xx 24) 255);
       do o1 <- wr 637 cap o0 (Z.land (Z.shiftr xx 16) 255);
       do o2 <- wr 638 cap o1 (Z.land (Z.shiftr xx 8) 255);
       do o3 <- wr 639 cap o2 (Z.land xx 255);
       Ok (xx, count', 0, (fst o3 - kdrop pad', skipn (Z.to_nat (kdrop pad')) (snd o3))))
      (Ok (xx, count', 0, skipn (Z.to_nat (kdrop pad')) (out5 xx (l ++ acc0))))).
  { intros pad' E xx. specialize (Hcap E). pose proof (kdrop_range pad') as Hk.
    unfold wr. cbn [bind fst snd].
    replace ((0 <=? n) && (n <? cap)) with true by lia. cbn [bind].
    replace ((0 <=? n + 1) && (n + 1 <? cap)) with true by lia. cbn [bind].
    replace ((0 <=? n + 1 + 1) && (n + 1 + 1 <? cap)) with true by lia. cbn [bind].
    replace ((0 <=? n + 1 + 1 + 1) && (n + 1 + 1 + 1 <? cap)) with true by lia. cbn [bind].
    replace ((0 <=? n + 1 + 1 + 1 + 1) && (n + 1 + 1 + 1 + 1 <? cap)) with true by lia. cbn [bind fst snd rel32].
    split; [reflexivity|]. split.
    { unfold out5. change (?a :: ?b :: ?c :: ?d :: ?e :: l ++ acc0) with ((a :: b :: c :: d :: e :: l) ++ acc0).
      apply skipn_app_le. cbn [length]. lia. }
    split.
    { rewrite Zlength_skipn by (cbn [length]; lia). rewrite !Zlength_cons. lia. }
    intros R HR. rewrite Hm, E. lia. }
  destruct (v =? -2).
  - rewrite land7, Hm.
    destruct (Z.eqb_spec ((count + 1) mod 8) 0) as [E|E].
    + apply Hwr; auto.
    + cbn [rel32 fst snd]. repeat split; auto. intros R HR. rewrite Hm. lia.
  - rewrite land7, Hm.
    destruct (Z.eqb_spec ((count + 1) mod 8) 0) as [E|E].
    + apply Hwr; auto.
    + cbn [rel32 fst snd]. repeat split; auto. intros R HR. rewrite Hm. lia.
Qed.

Definition relR32 (acc0 : list Z) (cap : Z) (a : res (dec_st * obuf)) (b : res (dec_st * list Z)) : Prop :=
  match a, b with
  | Ok (st1, (n1, l1)), Ok (st2, a2) => st1 = st2 /\ a2 = l1 ++ acc0 /\ n1 = Zlength l1 /\ n1 <= cap
  | Null, Null => True
  | _, _ => False
  end.

Lemma region_sim32 : forall cap r x count pad n l acc0 i j,
  bytes r -> n = Zlength l ->
  n + 5 * ((count mod 8 + Zlength r) / 8) <= cap ->
  relR32 acc0 cap (foldi (fun _ => b32d_char dtab tsize cap) i r ((x, count, pad), (n, l)))
                  (foldi (fun _ => d32_step) j r ((x, count, pad), l ++ acc0)).
Proof.
  intros cap r. induction r as [|c r IH]; intros x count pad n l acc0 i j Hb Hn Hcap.
  - cbn [foldi relR32 snd]. rewrite Zlength_nil in Hcap. repeat split; auto. lia.
  - cbn [foldi]. apply Forall_cons_iff in Hb; destruct Hb as [Hc Hr].
    rewrite Zlength_cons in Hcap. pose proof (Zlength_nonneg r) as Hlr.
    assert (H := char_sim32 cap c x count pad n l acc0 (proj1 Hc) Hn).
    assert (Hc3 : (count + 1) mod 8 = 0 -> n + 5 <= cap) by (intros; lia).
    specialize (H Hc3). revert H.
    match goal with |- rel32 _ _ _ ?A ?B -> _ =>
      destruct A as [[[[x1 c1] p1] [n1 l1]]| |]; destruct B as [[[[x2 c2] p2] a2]| |] end;
      intros H; cbn [rel32] in H; try contradiction.
    + destruct H as (E1 & E2 & E3 & E5). inversion E1; subst x2 c2 p2 a2. cbn [bind].
      cbn [fst snd] in E5. apply IH; auto.
      specialize (E5 (Zlength r) Hlr). lia.
    + cbn [bind relR32]. exact I.
Qed.

Definition relD32 (a : res (dec_st * data)) (b : res (dec_st * list Z)) : Prop :=
  match a, b with
  | Ok (st1, rv1), Ok (st2, a2) => st1 = st2 /\ flat rv1 = rev a2
  | Null, Null => True
  | _, _ => False
  end.

Lemma b32d_region_sim : forall r x count pad rv acc0 offset,
  bytes r -> Zlength r < 2 ^ 60 -> flat rv = rev acc0 ->
  relD32 (b32d_region dtab tsize ((x, count, pad), rv) offset r) (foldi (fun _ => d32_step) 0 r ((x, count, pad), acc0)).
Proof.
  intros r x count pad rv acc0 offset Hb Hlen Hrv.
  unfold b32d_region.
  set (cap := howmany (Zlength r) 8 * 5).
  change (b32d_body dtab tsize cap r) with (fun i s => do c <- rdo 614 r i; (fun _ : Z => b32d_char dtab tsize cap) i c s).
  rewrite iter_rdo0.
  pose proof (Zlength_nonneg r) as Hlr.
  assert (Hcap : 0 + 5 * ((count mod 8 + Zlength r) / 8) <= cap) by (unfold cap, howmany; lia).
  assert (H := region_sim32 cap r x count pad 0 [] acc0 0 0 Hb eq_refl Hcap).
  cbn [app] in H. unfold dec_st, obuf, data in *. revert H.
  match goal with |- relR32 _ _ ?A ?B -> _ =>
    destruct A as [[[[x1 c1] p1] [n1 l1]]| |]; destruct B as [[[[x2 c2] p2] a2]| |] end;
    intros H; cbn [relR32] in H; try contradiction; cbn [bind relD32]; auto.
  destruct H as (E1 & E2 & E3 & E4). inversion E1; subst x2 c2 p2 a2.
  pose proof (Zlength_nonneg l1).
  assert (Hu : u64 n1 = n1) by (apply u64_id; unfold cap, howmany in *; lia).
  rewrite Hu. replace (cap <? n1) with false by lia. cbn [relD32].
  split; [reflexivity|].
  unfold data_concat. rewrite flat_app, flat_create, Hrv, E3.
  assert (HF : firstn (Z.to_nat (Zlength l1)) (rev l1) = rev l1)
    by (rewrite Zlength_correct, Nat2Z.id, <- rev_length; apply firstn_all).
  rewrite HF, rev_app_distr. reflexivity.
Qed.

Lemma b32d_regions_sim : forall d x count pad rv acc0 offset,
  bytes (flat d) -> Forall (fun r => Zlength r < 2 ^ 60) d -> flat rv = rev acc0 ->
  relD32 (apply_regions (b32d_region dtab tsize) d offset ((x, count, pad), rv))
         (foldi (fun _ => d32_step) 0 (flat d) ((x, count, pad), acc0)).
Proof.
  induction d as [|r d IH]; intros x count pad rv acc0 offset Hb Hlen Hrv.
  - cbn. auto.
  - cbn [apply_regions]. change (flat (r :: d)) with (r ++ flat d) in *.
    apply Forall_app in Hb. destruct Hb as [Hb1 Hb2].
    apply Forall_cons_iff in Hlen. destruct Hlen as [Hl1 Hl2].
    rewrite foldi_app.
    assert (H := b32d_region_sim r x count pad rv acc0 offset Hb1 Hl1 Hrv). unfold dec_st, obuf, data in *. revert H.
    match goal with |- relD32 ?A ?B -> _ =>
      destruct A as [[[[x1 c1] p1] rv1]| |]; destruct B as [[[[x2 c2] p2] a2]| |] end;
      intros H; cbn [relD32] in H; try contradiction; cbn [bind relD32]; auto.
    destruct H as (E1 & E2). inversion E1; subst x2 c2 p2.
    rewrite (foldi_noindex d32_step (flat d) (0 + Zlength r) 0).
    apply IH; auto.
Qed.

Theorem from_base32_flat : forall d,
  bytes (flat d) -> Forall (fun r => Zlength r < 2 ^ 60) d ->
  flat_res (from_base32_with_table dtab tsize d) = dec32_flat (flat d).
Proof.
  intros d Hb Hl. unfold from_base32_with_table, dec32_flat.
  assert (H := b32d_regions_sim d 0 0 0 [] [] 0 Hb Hl eq_refl). unfold dec_st, obuf, data in *. revert H.
  match goal with |- relD32 ?A ?B -> _ =>
    destruct A as [[[[x1 c1] p1] rv1]| |]; destruct B as [[[[x2 c2] p2] a2]| |] end;
    intros H; cbn [relD32] in H; try contradiction; cbn [bind flat_res]; auto.
  destruct H as (_ & E). rewrite E. reflexivity.
Qed.

Lemma d32_step_no_oob : forall c s site, d32_step c s <> OOB site.
Proof.
  intros c [[[x count] pad] acc] site. unfold d32_step.
  repeat match goal with
  | |- context [if ?b then _ else _] => destruct b
  | |- context [match rd ?t ?c with _ => _ end] => destruct (rd t c)
  end; discriminate.
Qed.

Theorem from_base32_no_oob : forall d site,
  bytes (flat d) -> Forall (fun r => Zlength r < 2 ^ 60) d -> from_base32_with_table dtab tsize d <> OOB site.
Proof.
  intros d site Hb Hl E. assert (H := from_base32_flat d Hb Hl). rewrite E in H. cbn in H.
  unfold dec32_flat in H.
  destruct (foldi (fun _ : Z => d32_step) 0 (flat d) (0, 0, 0, [])) as [[? ?]| |] eqn:F; try discriminate.
  inversion H; subst. eapply (foldi_no_oob d32_step d32_step_no_oob); eauto.
Qed.

(* ---------------------------------------------------------------- flat encoder and round trip *)

(* RFC 4648 section 6 on a flat byte string, with the digit expressions of transform.c:729-776 *)
Definition g0 (a : Z) := Z.land (Z.shiftr a 3) 31.
Definition g1 (a b : Z) := Z.land (Z.lor (Z.shiftl a 2) (Z.shiftr b 6)) 31.
Definition g2 (b : Z) := Z.land (Z.shiftr b 1) 31.
Definition g3 (b c : Z) := Z.land (Z.lor (Z.shiftl b 4) (Z.shiftr c 4)) 31.
Definition g4 (c d : Z) := Z.land (Z.lor (Z.shiftl c 1) (Z.shiftr d 7)) 31.
Definition g5 (d : Z) := Z.land (Z.shiftr d 2) 31.
Definition g6 (d e : Z) := Z.land (Z.lor (Z.shiftl d 3) (Z.shiftr e 5)) 31.
Definition g7 (e : Z) := Z.land e 31.
Definition t1 (a : Z) := Z.land (Z.shiftl a 2) 28.
Definition t2 (b : Z) := Z.land (Z.shiftl b 4) 16.
Definition t3 (c : Z) := Z.land (Z.shiftl c 1) 30.
Definition t4 (d : Z) := Z.land (Z.shiftl d 3) 24.

Fixpoint b32_spec (l : list Z) : list Z :=
  match l with
  | a :: b :: c :: d :: e :: r =>
      e32 (g0 a) :: e32 (g1 a b) :: e32 (g2 b) :: e32 (g3 b c) :: e32 (g4 c d) :: e32 (g5 d) :: e32 (g6 d e) ::
      e32 (g7 e) :: b32_spec r
  | [a; b; c; d] => [e32 (g0 a); e32 (g1 a b); e32 (g2 b); e32 (g3 b c); e32 (g4 c d); e32 (g5 d); e32 (t4 d); PAD]
  | [a; b; c] => [e32 (g0 a); e32 (g1 a b); e32 (g2 b); e32 (g3 b c); e32 (t3 c); PAD; PAD; PAD]
  | [a; b] => [e32 (g0 a); e32 (g1 a b); e32 (g2 b); e32 (t2 b); PAD; PAD; PAD; PAD]
  | [a] => [e32 (g0 a); e32 (t1 a); PAD; PAD; PAD; PAD; PAD; PAD]
  | [] => []
  end.

Definition xs5 (x k : Z) : Z := u64 (u64 (Z.shiftl x 5) + u64 k).

Lemma d32_digit : forall k x count pad acc, 0 <= k < 32 ->
  d32_step (e32 k) ((x, count, pad), acc) =
    if (count + 1) mod 8 =? 0 then Ok ((xs5 x k, u64 (count + 1), 0), skipn (Z.to_nat (kdrop pad)) (out5 (xs5 x k) acc))
    else Ok ((xs5 x k, u64 (count + 1), pad), acc).
Proof.
  intros k x count pad acc Hk. destruct (Hdigit k Hk) as (H1 & H2 & H3 & _).
  unfold d32_step. rewrite H1, H2, H3.
  replace (k =? -1) with false by lia. replace (k =? -2) with false by lia.
  rewrite land7. replace (u64 (count + 1) mod 8) with ((count + 1) mod 8) by (unfold u64; lia).
  reflexivity.
Qed.

Lemma d32_pad : forall x count pad acc,
  d32_step PAD ((x, count, pad), acc) =
    if (count + 1) mod 8 =? 0
    then Ok ((xs5 x 0, u64 (count + 1), 0), skipn (Z.to_nat (kdrop (u64 (pad + 1)))) (out5 (xs5 x 0) acc))
    else Ok ((xs5 x 0, u64 (count + 1), u64 (pad + 1)), acc).
Proof.
  intros. destruct Hpadc as [P1 P2]. unfold d32_step.
  change (is_ws PAD) with false. rewrite P1, P2. cbv iota.
  change (-2 =? -1) with false. change (-2 =? -2) with true. cbv iota.
  rewrite land7. replace (u64 (count + 1) mod 8) with ((count + 1) mod 8) by (unfold u64; lia).
  reflexivity.
Qed.

Definition dfold32 (l : list Z) (s : dec_st * list Z) := foldi (fun _ => d32_step) 0 l s.

Lemma dfold32_app : forall l1 l2 s, dfold32 (l1 ++ l2) s = do s' <- dfold32 l1 s; dfold32 l2 s'.
Proof.
  intros. unfold dfold32. rewrite foldi_app. destruct (foldi (fun _ : Z => d32_step) 0 l1 s); cbn [bind]; auto.
  apply foldi_noindex.
Qed.

(* count after n more characters *)
Fixpoint cadd (n : nat) (c : Z) : Z := match n with O => c | S n' => cadd n' (u64 (c + 1)) end.
Lemma cadd_mod8 : forall n c, cadd n c mod 8 = (c + Z.of_nat n) mod 8.
Proof.
  induction n as [|n IH]; intros c; cbn [cadd].
  - f_equal. lia.
  - rewrite IH. unfold u64. lia.
Qed.

(* digits / pads that do not complete the group *)
Lemma run_digits : forall ks x count pad acc,
  Forall (fun k => 0 <= k < 32) ks -> count mod 8 + Zlength ks < 8 ->
  dfold32 (map e32 ks) ((x, count, pad), acc) = Ok ((fold_left xs5 ks x, cadd (length ks) count, pad), acc).
Proof.
  induction ks as [|k ks IH]; intros x count pad acc Hk Hc; [reflexivity|].
  apply Forall_cons_iff in Hk. destruct Hk as [Hk Hks]. rewrite Zlength_cons in Hc. pose proof (Zlength_nonneg ks).
  unfold dfold32. cbn [map foldi]. rewrite d32_digit by assumption.
  replace ((count + 1) mod 8 =? 0) with false by lia. cbn [bind fold_left length cadd].
  rewrite (foldi_noindex d32_step _ (0 + 1) 0). apply IH; auto. unfold u64. lia.
Qed.

Fixpoint padd (n : nat) (p : Z) : Z := match n with O => p | S n' => padd n' (u64 (p + 1)) end.
Fixpoint xpad (n : nat) (x : Z) : Z := match n with O => x | S n' => xpad n' (xs5 x 0) end.

Lemma run_pads : forall n x count pad acc,
  count mod 8 + Z.of_nat n < 8 ->
  dfold32 (repeat PAD n) ((x, count, pad), acc) = Ok ((xpad n x, cadd n count, padd n pad), acc).
Proof.
  induction n as [|n IH]; intros x count pad acc Hc; [reflexivity|].
  unfold dfold32. cbn [repeat foldi]. rewrite d32_pad.
  replace ((count + 1) mod 8 =? 0) with false by lia. cbn [bind xpad cadd padd].
  rewrite (foldi_noindex d32_step _ (0 + 1) 0). apply IH. unfold u64. lia.
Qed.

(* the low 40 bits of the accumulator after eight digits, whatever was in it before *)
Lemma xs8_low : forall x k0 k1 k2 k3 k4 k5 k6 k7,
  0 <= k0 < 32 -> 0 <= k1 < 32 -> 0 <= k2 < 32 -> 0 <= k3 < 32 -> 0 <= k4 < 32 -> 0 <= k5 < 32 -> 0 <= k6 < 32 ->
  0 <= k7 < 32 ->
  xs5 (xs5 (xs5 (xs5 (xs5 (xs5 (xs5 (xs5 x k0) k1) k2) k3) k4) k5) k6) k7 mod 1099511627776 =
  k0 * 34359738368 + k1 * 1073741824 + k2 * 33554432 + k3 * 1048576 + k4 * 32768 + k5 * 1024 + k6 * 32 + k7.
Proof.
  intros. unfold xs5. rewrite !Z.shiftl_mul_pow2 by lia. unfold u64. change (2 ^ 5) with 32. lia.
Qed.

Lemma out_bytes5 : forall X a b c d e, byte a -> byte b -> byte c -> byte d -> byte e ->
  X mod 1099511627776 = a * 4294967296 + b * 16777216 + c * 65536 + d * 256 + e ->
  forall acc, out5 X acc = e :: d :: c :: b :: a :: acc.
Proof.
  intros X a b c d e Ha Hb Hc Hd He H acc. unfold byte in *. unfold out5.
  change 255 with (2 ^ 8 - 1). rewrite !land_low by lia.
  rewrite !Z.shiftr_div_pow2 by lia.
  change (2 ^ 32) with 4294967296. change (2 ^ 24) with 16777216. change (2 ^ 16) with 65536. change (2 ^ 8) with 256.
  repeat f_equal; lia.
Qed.

(* digit expressions as arithmetic: finite sweeps over one byte (256) or two bytes (65536), stated in the lemma *)
Lemma g0_eq : forall a, byte a -> g0 a = a / 8.
Proof.
  intros a Ha. unfold g0, g2, g5, g7, t1, t2, t3, t4.
  assert (H : forallb (fun a => Z.land (Z.shiftr a 3) 31 =? a / 8) (zrange 256) = true) by (vm_compute; reflexivity).
  pose proof (forallb_zrange 256 _ H a Ha) as Hq. clear H. cbv beta in Hq. apply Z.eqb_eq in Hq. exact Hq.
Qed.
Lemma g2_eq : forall a, byte a -> g2 a = (a / 2) mod 32.
Proof.
  intros a Ha. unfold g0, g2, g5, g7, t1, t2, t3, t4.
  assert (H : forallb (fun a => Z.land (Z.shiftr a 1) 31 =? (a / 2) mod 32) (zrange 256) = true) by (vm_compute; reflexivity).
  pose proof (forallb_zrange 256 _ H a Ha) as Hq. clear H. cbv beta in Hq. apply Z.eqb_eq in Hq. exact Hq.
Qed.
Lemma g5_eq : forall a, byte a -> g5 a = (a / 4) mod 32.
Proof.
  intros a Ha. unfold g0, g2, g5, g7, t1, t2, t3, t4.
  assert (H : forallb (fun a => Z.land (Z.shiftr a 2) 31 =? (a / 4) mod 32) (zrange 256) = true) by (vm_compute; reflexivity).
  pose proof (forallb_zrange 256 _ H a Ha) as Hq. clear H. cbv beta in Hq. apply Z.eqb_eq in Hq. exact Hq.
Qed.
Lemma g7_eq : forall a, byte a -> g7 a = a mod 32.
Proof.
  intros a Ha. unfold g0, g2, g5, g7, t1, t2, t3, t4.
  assert (H : forallb (fun a => Z.land a 31 =? a mod 32) (zrange 256) = true) by (vm_compute; reflexivity).
  pose proof (forallb_zrange 256 _ H a Ha) as Hq. clear H. cbv beta in Hq. apply Z.eqb_eq in Hq. exact Hq.
Qed.
Lemma t1_eq : forall a, byte a -> t1 a = (a mod 8) * 4.
Proof.
  intros a Ha. unfold g0, g2, g5, g7, t1, t2, t3, t4.
  assert (H : forallb (fun a => Z.land (Z.shiftl a 2) 28 =? (a mod 8) * 4) (zrange 256) = true) by (vm_compute; reflexivity).
  pose proof (forallb_zrange 256 _ H a Ha) as Hq. clear H. cbv beta in Hq. apply Z.eqb_eq in Hq. exact Hq.
Qed.
Lemma t2_eq : forall a, byte a -> t2 a = (a mod 2) * 16.
Proof.
  intros a Ha. unfold g0, g2, g5, g7, t1, t2, t3, t4.
  assert (H : forallb (fun a => Z.land (Z.shiftl a 4) 16 =? (a mod 2) * 16) (zrange 256) = true) by (vm_compute; reflexivity).
  pose proof (forallb_zrange 256 _ H a Ha) as Hq. clear H. cbv beta in Hq. apply Z.eqb_eq in Hq. exact Hq.
Qed.
Lemma t3_eq : forall a, byte a -> t3 a = (a mod 16) * 2.
Proof.
  intros a Ha. unfold g0, g2, g5, g7, t1, t2, t3, t4.
  assert (H : forallb (fun a => Z.land (Z.shiftl a 1) 30 =? (a mod 16) * 2) (zrange 256) = true) by (vm_compute; reflexivity).
  pose proof (forallb_zrange 256 _ H a Ha) as Hq. clear H. cbv beta in Hq. apply Z.eqb_eq in Hq. exact Hq.
Qed.
Lemma t4_eq : forall a, byte a -> t4 a = (a mod 4) * 8.
Proof.
  intros a Ha. unfold g0, g2, g5, g7, t1, t2, t3, t4.
  assert (H : forallb (fun a => Z.land (Z.shiftl a 3) 24 =? (a mod 4) * 8) (zrange 256) = true) by (vm_compute; reflexivity).
  pose proof (forallb_zrange 256 _ H a Ha) as Hq. clear H. cbv beta in Hq. apply Z.eqb_eq in Hq. exact Hq.
Qed.
Lemma g1_eq : forall a b, byte a -> byte b -> g1 a b = (a mod 8) * 4 + b / 64.
Proof.
  intros a b Ha Hb. unfold g1, g3, g4, g6.
  assert (H : forallb (fun a => forallb (fun b => Z.land (Z.lor (Z.shiftl a 2) (Z.shiftr b 6)) 31 =? (a mod 8) * 4 + b / 64) (zrange 256)) (zrange 256) = true)
    by (vm_compute; reflexivity).
  pose proof (forallb_zrange2 256 256 _ H a b Ha Hb) as Hq. clear H. cbv beta in Hq. apply Z.eqb_eq in Hq. exact Hq.
Qed.
Lemma g3_eq : forall a b, byte a -> byte b -> g3 a b = (a mod 2) * 16 + b / 16.
Proof.
  intros a b Ha Hb. unfold g1, g3, g4, g6.
  assert (H : forallb (fun a => forallb (fun b => Z.land (Z.lor (Z.shiftl a 4) (Z.shiftr b 4)) 31 =? (a mod 2) * 16 + b / 16) (zrange 256)) (zrange 256) = true)
    by (vm_compute; reflexivity).
  pose proof (forallb_zrange2 256 256 _ H a b Ha Hb) as Hq. clear H. cbv beta in Hq. apply Z.eqb_eq in Hq. exact Hq.
Qed.
Lemma g4_eq : forall a b, byte a -> byte b -> g4 a b = (a mod 16) * 2 + b / 128.
Proof.
  intros a b Ha Hb. unfold g1, g3, g4, g6.
  assert (H : forallb (fun a => forallb (fun b => Z.land (Z.lor (Z.shiftl a 1) (Z.shiftr b 7)) 31 =? (a mod 16) * 2 + b / 128) (zrange 256)) (zrange 256) = true)
    by (vm_compute; reflexivity).
  pose proof (forallb_zrange2 256 256 _ H a b Ha Hb) as Hq. clear H. cbv beta in Hq. apply Z.eqb_eq in Hq. exact Hq.
Qed.
Lemma g6_eq : forall a b, byte a -> byte b -> g6 a b = (a mod 4) * 8 + b / 32.
Proof.
  intros a b Ha Hb. unfold g1, g3, g4, g6.
  assert (H : forallb (fun a => forallb (fun b => Z.land (Z.lor (Z.shiftl a 3) (Z.shiftr b 5)) 31 =? (a mod 4) * 8 + b / 32) (zrange 256)) (zrange 256) = true)
    by (vm_compute; reflexivity).
  pose proof (forallb_zrange2 256 256 _ H a b Ha Hb) as Hq. clear H. cbv beta in Hq. apply Z.eqb_eq in Hq. exact Hq.
Qed.

Definition digit (k : Z) : Prop := 0 <= k < 32.

(* a final group: digits ks, then q+1 padding characters, 8 characters in all *)
Lemma tail_group : forall ks q x count acc,
  Forall digit ks -> (length ks + q = 7)%nat -> count mod 8 = 0 ->
  let X := xs5 (xpad q (fold_left xs5 ks x)) 0 in
  let C := u64 (cadd q (cadd (length ks) count) + 1) in
  dfold32 (map e32 ks ++ repeat PAD q ++ [PAD]) ((x, count, 0), acc) =
    Ok ((X, C, 0), skipn (Z.to_nat (kdrop (u64 (padd q 0 + 1)))) (out5 X acc)) /\ C mod 8 = 0.
Proof.
  intros ks q x count acc Hks Hlen Hc X C.
  assert (Hz : Zlength ks = Z.of_nat (length ks)) by apply Zlength_correct.
  assert (HC : (cadd q (cadd (length ks) count) + 1) mod 8 = 0).
  { pose proof (cadd_mod8 q (cadd (length ks) count)) as H1. pose proof (cadd_mod8 (length ks) count) as H2. lia. }
  split; [|unfold C, u64; lia].
  rewrite dfold32_app, run_digits by (auto; lia). cbn [bind].
  rewrite dfold32_app, run_pads by (pose proof (cadd_mod8 (length ks) count); lia). cbn [bind].
  unfold dfold32. cbn [foldi]. rewrite d32_pad.
  replace ((cadd q (cadd (length ks) count) + 1) mod 8 =? 0) with true by lia. reflexivity.
Qed.

(* a full group of eight digits *)
Lemma full_group : forall ks k7 rest x count acc,
  Forall digit ks -> length ks = 7%nat -> digit k7 -> count mod 8 = 0 ->
  let X := xs5 (fold_left xs5 ks x) k7 in
  let C := u64 (cadd 7 count + 1) in
  dfold32 (map e32 ks ++ e32 k7 :: rest) ((x, count, 0), acc) = dfold32 rest ((X, C, 0), out5 X acc) /\ C mod 8 = 0.
Proof.
  intros ks k7 rest x count acc Hks Hlen Hk7 Hc X C.
  assert (Hz : Zlength ks = 7) by (rewrite Zlength_correct, Hlen; reflexivity).
  assert (HC : (cadd 7 count + 1) mod 8 = 0) by (pose proof (cadd_mod8 7 count); lia).
  split; [|unfold C, u64; lia].
  rewrite dfold32_app, run_digits by (auto; lia). cbn [bind]. rewrite Hlen.
  unfold dfold32. cbn [foldi]. rewrite d32_digit by exact Hk7.
  replace ((cadd 7 count + 1) mod 8 =? 0) with true by lia. cbn [bind].
  change (kdrop 0) with 0. change (Z.to_nat 0) with 0%nat. change (skipn 0 ?l) with l.
  apply foldi_noindex.
Qed.

Lemma land31 : forall x, 0 <= Z.land x 31 < 32.
Proof. intros. change 31 with (2 ^ 5 - 1). rewrite land_low by lia. lia. Qed.

Lemma roundtrip32_fold : forall n s, (length s <= n)%nat -> bytes s -> forall x count acc, count mod 8 = 0 ->
  exists x' count', dfold32 (b32_spec s) ((x, count, 0), acc) = Ok ((x', count', 0), rev s ++ acc) /\ count' mod 8 = 0.
Proof.
  induction n as [|n IH]; intros s Hn Hb x count acc Hc.
  { destruct s; [|cbn in Hn; lia]. exists x, count. split; [reflexivity|exact Hc]. }
  destruct s as [|a [|b [|c [|d [|e r]]]]].
  - exists x, count. split; [reflexivity|exact Hc].
  - (* 1 byte: 2 digits, 6 pads *)
    apply Forall_cons_iff in Hb. destruct Hb as [Ha _]. unfold byte in Ha.
    cbn [b32_spec].
    change [e32 (g0 a); e32 (t1 a); PAD; PAD; PAD; PAD; PAD; PAD] with (map e32 [g0 a; t1 a] ++ repeat PAD 5 ++ [PAD]).
    rewrite g0_eq, t1_eq by exact Ha.
    destruct (tail_group [a / 8; a mod 8 * 4] 5 x count acc) as [E HC]; auto.
    { repeat (apply Forall_cons; [unfold digit; lia|]). apply Forall_nil. }
    eexists; eexists. split; [|exact HC]. rewrite E. f_equal. f_equal.
    change (u64 (padd 5 0 + 1)) with 6. change (kdrop 6) with 4. change (Z.to_nat 4) with 4%nat.
    cbn [xpad fold_left].
    rewrite (out_bytes5 _ a 0 0 0 0); unfold byte; try lia; [reflexivity|].
    rewrite xs8_low by lia. lia.
  - (* 2 bytes: 4 digits, 4 pads *)
    apply Forall_cons_iff in Hb. destruct Hb as [Ha Hb]. apply Forall_cons_iff in Hb. destruct Hb as [Hb _].
    cbn [b32_spec].
    change [e32 (g0 a); e32 (g1 a b); e32 (g2 b); e32 (t2 b); PAD; PAD; PAD; PAD]
      with (map e32 [g0 a; g1 a b; g2 b; t2 b] ++ repeat PAD 3 ++ [PAD]).
    rewrite g0_eq, g1_eq, g2_eq, t2_eq by assumption. unfold byte in Ha, Hb.
    destruct (tail_group [a / 8; a mod 8 * 4 + b / 64; (b / 2) mod 32; b mod 2 * 16] 3 x count acc) as [E HC]; auto.
    { repeat (apply Forall_cons; [unfold digit; lia|]). apply Forall_nil. }
    eexists; eexists. split; [|exact HC]. rewrite E. f_equal. f_equal.
    change (u64 (padd 3 0 + 1)) with 4. change (kdrop 4) with 3. change (Z.to_nat 3) with 3%nat.
    cbn [xpad fold_left].
    rewrite (out_bytes5 _ a b 0 0 0); unfold byte; try lia; [reflexivity|].
    rewrite xs8_low by lia. lia.
  - (* 3 bytes: 5 digits, 3 pads *)
    apply Forall_cons_iff in Hb. destruct Hb as [Ha Hb]. apply Forall_cons_iff in Hb. destruct Hb as [Hb Hcc].
    apply Forall_cons_iff in Hcc. destruct Hcc as [Hcc _].
    cbn [b32_spec].
    change [e32 (g0 a); e32 (g1 a b); e32 (g2 b); e32 (g3 b c); e32 (t3 c); PAD; PAD; PAD]
      with (map e32 [g0 a; g1 a b; g2 b; g3 b c; t3 c] ++ repeat PAD 2 ++ [PAD]).
    rewrite g0_eq, g1_eq, g2_eq, g3_eq, t3_eq by assumption. unfold byte in Ha, Hb, Hcc.
    destruct (tail_group [a / 8; a mod 8 * 4 + b / 64; (b / 2) mod 32; b mod 2 * 16 + c / 16; c mod 16 * 2] 2 x count acc)
      as [E HC]; auto.
    { repeat (apply Forall_cons; [unfold digit; lia|]). apply Forall_nil. }
    eexists; eexists. split; [|exact HC]. rewrite E. f_equal. f_equal.
    change (u64 (padd 2 0 + 1)) with 3. change (kdrop 3) with 2. change (Z.to_nat 2) with 2%nat.
    cbn [xpad fold_left].
    rewrite (out_bytes5 _ a b c 0 0); unfold byte; try lia; [reflexivity|].
    rewrite xs8_low by lia. lia.
  - (* 4 bytes: 7 digits, 1 pad *)
    apply Forall_cons_iff in Hb. destruct Hb as [Ha Hb]. apply Forall_cons_iff in Hb. destruct Hb as [Hb Hcc].
    apply Forall_cons_iff in Hcc. destruct Hcc as [Hcc Hd]. apply Forall_cons_iff in Hd. destruct Hd as [Hd _].
    cbn [b32_spec].
    change [e32 (g0 a); e32 (g1 a b); e32 (g2 b); e32 (g3 b c); e32 (g4 c d); e32 (g5 d); e32 (t4 d); PAD]
      with (map e32 [g0 a; g1 a b; g2 b; g3 b c; g4 c d; g5 d; t4 d] ++ repeat PAD 0 ++ [PAD]).
    rewrite g0_eq, g1_eq, g2_eq, g3_eq, g4_eq, g5_eq, t4_eq by assumption. unfold byte in Ha, Hb, Hcc, Hd.
    destruct (tail_group [a / 8; a mod 8 * 4 + b / 64; (b / 2) mod 32; b mod 2 * 16 + c / 16; c mod 16 * 2 + d / 128;
                          (d / 4) mod 32; d mod 4 * 8] 0 x count acc) as [E HC]; auto.
    { repeat (apply Forall_cons; [unfold digit; lia|]). apply Forall_nil. }
    eexists; eexists. split; [|exact HC]. rewrite E. f_equal. f_equal.
    change (u64 (padd 0 0 + 1)) with 1. change (kdrop 1) with 1. change (Z.to_nat 1) with 1%nat.
    cbn [xpad fold_left].
    rewrite (out_bytes5 _ a b c d 0); unfold byte; try lia; [reflexivity|].
    rewrite xs8_low by lia. lia.
  - (* a full group *)
    apply Forall_cons_iff in Hb. destruct Hb as [Ha Hb]. apply Forall_cons_iff in Hb. destruct Hb as [Hb Hcc].
    apply Forall_cons_iff in Hcc. destruct Hcc as [Hcc Hd]. apply Forall_cons_iff in Hd. destruct Hd as [Hd He].
    apply Forall_cons_iff in He. destruct He as [He Hr].
    cbn [b32_spec].
    change (e32 (g0 a) :: e32 (g1 a b) :: e32 (g2 b) :: e32 (g3 b c) :: e32 (g4 c d) :: e32 (g5 d) :: e32 (g6 d e) ::
            e32 (g7 e) :: b32_spec r)
      with (map e32 [g0 a; g1 a b; g2 b; g3 b c; g4 c d; g5 d; g6 d e] ++ e32 (g7 e) :: b32_spec r).
    rewrite g0_eq, g1_eq, g2_eq, g3_eq, g4_eq, g5_eq, g6_eq, g7_eq by assumption. unfold byte in Ha, Hb, Hcc, Hd, He.
    destruct (full_group [a / 8; a mod 8 * 4 + b / 64; (b / 2) mod 32; b mod 2 * 16 + c / 16; c mod 16 * 2 + d / 128;
                          (d / 4) mod 32; d mod 4 * 8 + e / 32] (e mod 32) (b32_spec r) x count acc) as [E HC]; auto.
    { repeat (apply Forall_cons; [unfold digit; lia|]). apply Forall_nil. }
    { unfold digit; lia. }
    rewrite E. cbn [fold_left].
    rewrite (out_bytes5 _ a b c d e); unfold byte; try lia.
    2: { rewrite xs8_low by lia. lia. }
    assert (Hlr : (length r <= n)%nat) by (cbn [length] in Hn; lia).
    match goal with |- exists _ _, dfold32 _ (?X, ?C, 0, ?A) = _ /\ _ =>
      destruct (IH r Hlr Hr X C A HC) as (x' & count' & E' & Hc') end.
    exists x', count'. split; [|exact Hc']. rewrite E'. cbn [rev]. rewrite <- !app_assoc. reflexivity.
Qed.

(* Base32 round trip on flat strings: for EVERY byte string *)
Theorem roundtrip32_flat : forall s, bytes s -> dec32_flat (b32_spec s) = Ok s.
Proof.
  intros s Hb. unfold dec32_flat.
  destruct (roundtrip32_fold (length s) s (le_n _) Hb 0 0 [] eq_refl) as (x' & c' & E & _).
  unfold dfold32 in E. rewrite E. rewrite app_nil_r, rev_involutive. reflexivity.
Qed.

(* ---------------------------------------------------------------- encoder: model on any split = flat encoder *)

Definition chunk32 (ph last curr : Z) : list Z :=
  if ph =? 0 then [e32 (g0 curr)]
  else if ph =? 1 then [e32 (g1 last curr); e32 (g2 curr)]
  else if ph =? 2 then [e32 (g3 last curr)]
  else if ph =? 3 then [e32 (g4 last curr); e32 (g5 curr)]
  else [e32 (g6 last curr); e32 (g7 curr)].

Fixpoint encf32 (prev count : Z) (l : list Z) : list Z :=
  match l with
  | [] => []
  | c :: l' => chunk32 (count mod 5) prev c ++ encf32 c (count + 1) l'
  end.

Definition tail32 (ph lastb : Z) : list Z :=
  if ph =? 0 then []
  else if ph =? 1 then e32 (t1 lastb) :: repeat PAD 6
  else if ph =? 2 then e32 (t2 lastb) :: repeat PAD 4
  else if ph =? 3 then e32 (t3 lastb) :: repeat PAD 3
  else e32 (t4 lastb) :: repeat PAD 1.

Definition enc_flat32 (l : list Z) : list Z := encf32 0 0 l ++ tail32 (Zlength l mod 5) (last l 0).

Lemma encf32_app : forall l1 l2 prev count,
  encf32 prev count (l1 ++ l2) = encf32 prev count l1 ++ encf32 (last l1 prev) (count + Zlength l1) l2.
Proof.
  induction l1 as [|a l1 IH]; intros; cbn [app encf32].
  - rewrite Zlength_nil, Z.add_0_r. reflexivity.
  - rewrite IH, <- app_assoc, Zlength_cons. f_equal. rewrite last_cons_default.
    replace (count + Z.succ (Zlength l1)) with (count + 1 + Zlength l1) by lia. reflexivity.
Qed.

Lemma rdo_e32 : forall site k, 0 <= k < 32 -> rdo site etab k = Ok (e32 k).
Proof.
  intros site k Hk. unfold rdo, rd, e32. destruct (Z.ltb_spec k 0); [lia|].
  rewrite (nth_error_nth' etab 0); [reflexivity|]. lia.
Qed.

Lemma tput32 : forall site cap n l k, 0 <= k < 32 -> 0 <= n < cap ->
  tput site etab cap (n, l) k = Ok (n + 1, e32 k :: l).
Proof.
  intros. unfold tput. rewrite rdo_e32 by assumption. cbn [bind]. unfold wr.
  replace ((0 <=? n) && (n <? cap)) with true by lia. reflexivity.
Qed.

Lemma chunk32_len : forall ph last curr, 1 <= Zlength (chunk32 ph last curr) <= 2.
Proof. intros. unfold chunk32. repeat match goal with |- context [if ?b then _ else _] => destruct b end; cbn; lia. Qed.

Lemma b32e_char_ok : forall d cap r offset i c count n l prev,
  (count mod 5 <> 0 -> get_last 722 d r offset i = Ok prev) -> 0 <= count < 2 ^ 63 -> 0 <= n ->
  n + Zlength (chunk32 (count mod 5) prev c) <= cap ->
  b32e_char d etab cap r offset i c (count, (n, l)) =
    Ok (count + 1, (n + Zlength (chunk32 (count mod 5) prev c), rev (chunk32 (count mod 5) prev c) ++ l)).
Proof.
  intros d cap r offset i c count n l prev Hlast Hcount Hn Hcap.
  unfold b32e_char. cbv zeta. unfold chunk32, g0, g1, g2, g3, g4, g5, g6, g7 in *.
  destruct (count mod 5 =? 0) eqn:E0.
  { cbn [bind]. rewrite !Zlength_cons, Zlength_nil in *. rewrite tput32; [|apply land31|lia]. cbn [bind].
    rewrite u64_id by lia. reflexivity. }
  rewrite Hlast by lia. cbn [bind].
  destruct (count mod 5 =? 1) eqn:E1.
  { rewrite !Zlength_cons, Zlength_nil in *. rewrite tput32; [|apply land31|lia]. cbn [bind].
    rewrite tput32; [|apply land31|lia]. cbn [bind]. rewrite u64_id by lia.
    cbn [rev app]. replace (n + 1 + 1) with (n + Z.succ (Z.succ 0)) by lia. reflexivity. }
  destruct (count mod 5 =? 2) eqn:E2.
  { rewrite !Zlength_cons, Zlength_nil in *. rewrite tput32; [|apply land31|lia]. cbn [bind].
    rewrite u64_id by lia. reflexivity. }
  destruct (count mod 5 =? 3) eqn:E3.
  { rewrite !Zlength_cons, Zlength_nil in *. rewrite tput32; [|apply land31|lia]. cbn [bind].
    rewrite tput32; [|apply land31|lia]. cbn [bind]. rewrite u64_id by lia.
    cbn [rev app]. replace (n + 1 + 1) with (n + Z.succ (Z.succ 0)) by lia. reflexivity. }
  rewrite !Zlength_cons, Zlength_nil in *. rewrite tput32; [|apply land31|lia]. cbn [bind].
  rewrite tput32; [|apply land31|lia]. cbn [bind]. rewrite u64_id by lia.
  cbn [rev app]. replace (n + 1 + 1) with (n + Z.succ (Z.succ 0)) by lia. reflexivity.
Qed.

Lemma b32e_fold : forall d cap r offset prev0,
  0 <= offset -> (offset = 0 \/ get_last 722 d r offset 0 = Ok prev0) ->
  forall suf r1 count n l prev,
  r = r1 ++ suf -> count = offset + Zlength r1 -> count + Zlength suf < 2 ^ 63 ->
  prev = match r1 with [] => prev0 | _ => last r1 0 end ->
  n = Zlength l -> n + Zlength (encf32 prev count suf) <= cap ->
  foldi (b32e_char d etab cap r offset) (Zlength r1) suf (count, (n, l)) =
    Ok (count + Zlength suf, (n + Zlength (encf32 prev count suf), rev (encf32 prev count suf) ++ l)).
Proof.
  intros d cap r offset prev0 Hoff Hprev0.
  induction suf as [|c suf IH]; intros r1 count n l prev Hr Hcount Hbound Hprev Hn Hcap.
  - cbn [foldi encf32 rev app]. rewrite Zlength_nil, !Z.add_0_r. reflexivity.
  - cbn [foldi]. pose proof (Zlength_nonneg r1) as Hr1. pose proof (Zlength_nonneg suf) as Hsuf.
    pose proof (Zlength_nonneg l) as Hl. rewrite Zlength_cons in Hbound.
    cbn [encf32] in Hcap. rewrite Zlength_app in Hcap.
    pose proof (Zlength_nonneg (encf32 c (count + 1) suf)) as Hrest.
    pose proof (chunk32_len (count mod 5) prev c) as Hch.
    assert (Hlast : count mod 5 <> 0 -> get_last 722 d r offset (Zlength r1) = Ok prev).
    { intros Hph. destruct r1 as [|z r1'].
      - rewrite Zlength_nil in *. destruct Hprev0 as [H0|H0]; [exfalso; apply Hph; rewrite Hcount, H0; reflexivity|].
        subst prev. exact H0.
      - assert (Hpos : 0 < Zlength (z :: r1')) by (rewrite Zlength_cons; pose proof (Zlength_nonneg r1'); lia).
        unfold get_last. replace (Zlength (z :: r1') =? 0) with false by lia.
        unfold rdo. subst r. rewrite rd_app_l by lia. rewrite rd_last by discriminate. subst prev. reflexivity. }
    rewrite (b32e_char_ok d cap r offset (Zlength r1) c count n l prev Hlast) by lia. cbn [bind].
    specialize (IH (r1 ++ [c]) (count + 1) (n + Zlength (chunk32 (count mod 5) prev c))
                   (rev (chunk32 (count mod 5) prev c) ++ l) c).
    rewrite Zlength_snoc in IH. rewrite IH.
    + cbn [encf32]. rewrite Zlength_cons, Zlength_app, rev_app_distr, <- app_assoc. f_equal. f_equal; [lia|]. f_equal. lia.
    + subst r. rewrite <- app_assoc. reflexivity.
    + lia.
    + lia.
    + rewrite last_last. destruct r1; reflexivity.
    + rewrite Zlength_app, Zlength_rev. lia.
    + lia.
Qed.

Lemma encf32_len : forall l prev count, 0 <= count ->
  Zlength (encf32 prev count l) = 8 * (count + Zlength l) / 5 - 8 * count / 5.
Proof.
  induction l as [|c l IH]; intros prev count Hc; cbn [encf32].
  - rewrite Zlength_nil. replace (count + 0) with count by lia. lia.
  - rewrite Zlength_app, Zlength_cons, IH by lia. pose proof (Zlength_nonneg l).
    unfold chunk32.
    destruct (Z.eqb_spec (count mod 5) 0); [|destruct (Z.eqb_spec (count mod 5) 1); [|destruct (Z.eqb_spec (count mod 5) 2);
      [|destruct (Z.eqb_spec (count mod 5) 3)]]]; rewrite ?Zlength_cons, Zlength_nil; lia.
Qed.

Lemma Zlength_repeat : forall (x : Z) n, Zlength (repeat x n) = Z.of_nat n.
Proof. intros. rewrite Zlength_correct, repeat_length. reflexivity. Qed.

Lemma enc_flat32_len : forall l, Zlength (enc_flat32 l) = howmany (Zlength l) 5 * 8.
Proof.
  intros. unfold enc_flat32. rewrite Zlength_app, encf32_len by lia. pose proof (Zlength_nonneg l).
  unfold tail32, howmany.
  destruct (Z.eqb_spec (Zlength l mod 5) 0); [|destruct (Z.eqb_spec (Zlength l mod 5) 1); [|destruct (Z.eqb_spec (Zlength l mod 5) 2);
      [|destruct (Z.eqb_spec (Zlength l mod 5) 3)]]]; rewrite ?Zlength_cons, ?Zlength_repeat, ?Zlength_nil; lia.
Qed.

Lemma repeat_snoc : forall (x : Z) n, repeat x n ++ [x] = x :: repeat x n.
Proof. induction n; cbn [repeat app]; [reflexivity|]. rewrite IHn. reflexivity. Qed.
Lemma rev_repeat' : forall (x : Z) n, rev (repeat x n) = repeat x n.
Proof. induction n; cbn [repeat rev]; [reflexivity|]. rewrite IHn. apply repeat_snoc. Qed.

Lemma tdig_range : forall x, 0 <= t1 x < 32 /\ 0 <= t2 x < 32 /\ 0 <= t3 x < 32 /\ 0 <= t4 x < 32.
Proof.
  intros. unfold t1, t2, t3, t4.
  change 28 with (Z.land 28 31). change 16 with (Z.land 16 31). change 30 with (Z.land 30 31). change 24 with (Z.land 24 31).
  rewrite !Z.land_assoc. repeat split; apply land31.
Qed.

(* one region of the encoder, in the context flat d = pre ++ r ++ post *)
Lemma b32e_region_ok : forall d cap r pre post n l,
  flat d = pre ++ r ++ post -> r <> [] -> dsize d < 2 ^ 62 ->
  l = rev (encf32 0 0 pre) -> n = Zlength l ->
  Zlength (enc_flat32 (flat d)) <= cap ->
  b32e_region d etab (dsize d) cap (Zlength pre, (n, l)) (Zlength pre) r =
    Ok (Zlength pre + Zlength r,
        if Zlength post =? 0 then (Zlength (enc_flat32 (flat d)), rev (enc_flat32 (flat d)))
        else (Zlength (encf32 0 0 (pre ++ r)), rev (encf32 0 0 (pre ++ r)))).
Proof.
  intros d cap r pre post n l H Hr Hsz Hl Hn Hcap.
  pose proof (Zlength_nonneg pre) as Hp0. pose proof (Zlength_pos r Hr) as Hr0. pose proof (Zlength_nonneg post) as Hq0.
  assert (Htot : dsize d = Zlength pre + Zlength r + Zlength post) by (unfold dsize; rewrite H, !Zlength_app; lia).
  assert (Hsplit : encf32 0 0 (flat d) = encf32 0 0 pre ++ encf32 (last pre 0) (Zlength pre) r ++
                                         encf32 (last r (last pre 0)) (Zlength pre + Zlength r) post).
  { rewrite H, encf32_app, encf32_app. rewrite Z.add_0_l. reflexivity. }
  unfold enc_flat32 in Hcap. rewrite Zlength_app, Hsplit, !Zlength_app in Hcap.
  pose proof (Zlength_nonneg (encf32 (last r (last pre 0)) (Zlength pre + Zlength r) post)).
  pose proof (Zlength_nonneg (tail32 (Zlength (flat d) mod 5) (last (flat d) 0))).
  unfold b32e_region.
  change (b32e_body d etab cap r (Zlength pre)) with
    (fun i s => do c <- rdo 712 r i; b32e_char d etab cap r (Zlength pre) i c s).
  rewrite iter_rdo0.
  assert (Hg : Zlength pre = 0 \/ get_last 722 d r (Zlength pre) 0 = Ok (last pre 0)).
  { destruct pre as [|z pre']; [left; reflexivity|right].
    apply (get_last0 722 d r (z :: pre') post H); [discriminate|exact Hr|lia]. }
  assert (HF := b32e_fold d cap r (Zlength pre) (last pre 0) Hp0 Hg r [] (Zlength pre) n l (last pre 0) eq_refl).
  rewrite Zlength_nil in HF. rewrite HF; [|lia|lia|reflexivity|subst n l; rewrite Zlength_rev; reflexivity|subst n l; rewrite Zlength_rev; lia].
  clear HF. cbn [bind].
  replace (u64 (Zlength pre + Zlength r)) with (Zlength pre + Zlength r) by (rewrite u64_id; lia).
  assert (Hacc : rev (encf32 (last pre 0) (Zlength pre) r) ++ l = rev (encf32 0 0 (pre ++ r))).
  { subst l. rewrite encf32_app, rev_app_distr, Z.add_0_l. reflexivity. }
  assert (Hnn : n + Zlength (encf32 (last pre 0) (Zlength pre) r) = Zlength (encf32 0 0 (pre ++ r))).
  { subst n l. rewrite encf32_app, Zlength_app, Zlength_rev, Z.add_0_l. reflexivity. }
  rewrite Hacc, Hnn.
  destruct (Z.eqb_spec (Zlength post) 0) as [Eq|Eq].
  - apply Zlength_nil_inv in Eq. subst post. rewrite app_nil_r in *. rewrite Zlength_nil in *.
    replace (Zlength pre + Zlength r =? dsize d) with true by lia.
    assert (Hall : Zlength (flat d) = Zlength pre + Zlength r) by (fold (dsize d); lia).
    unfold enc_flat32. rewrite Hall, <- H. unfold tail32 in *.
    rewrite Hall in Hcap.
    pose proof (Zlength_nonneg (encf32 0 0 (flat d))) as He0.
    assert (He : Zlength (encf32 0 0 pre) + Zlength (encf32 (last pre 0) (Zlength pre) r) = Zlength (encf32 0 0 (flat d))).
    { rewrite H, encf32_app, Zlength_app, Z.add_0_l. reflexivity. }
    destruct (Z.eqb_spec ((Zlength pre + Zlength r) mod 5) 0) as [E0|E0].
    + rewrite app_nil_r. reflexivity.
    + assert (Hlast : rdo 763 r (Zlength r - 1) = Ok (last (flat d) 0)).
      { unfold rdo. rewrite rd_last by exact Hr. rewrite H, last_app_ne by exact Hr. reflexivity. }
      rewrite Hlast. cbn [bind].
      destruct (tdig_range (last (flat d) 0)) as (T1 & T2 & T3 & T4).
      destruct (Z.eqb_spec ((Zlength pre + Zlength r) mod 5) 1) as [E1|E1];
        [|destruct (Z.eqb_spec ((Zlength pre + Zlength r) mod 5) 2) as [E2|E2];
          [|destruct (Z.eqb_spec ((Zlength pre + Zlength r) mod 5) 3) as [E3|E3]]];
        rewrite Zlength_cons, Zlength_repeat in Hcap;
        (rewrite tput32; [|assumption|lia]); cbn [bind]; (rewrite wr_pad_ok by lia); cbn [bind];
        rewrite Zlength_app, Zlength_cons, Zlength_repeat, rev_app_distr; cbn [rev]; rewrite rev_repeat', <- app_assoc;
        cbn [app]; f_equal; f_equal; f_equal; lia.
  - replace (Zlength pre + Zlength r =? dsize d) with false by lia. reflexivity.
Qed.

Lemma b32e_regions_ok : forall d cap rest pre,
  flat d = pre ++ flat rest -> Forall (fun r => r <> []) rest -> rest <> [] -> dsize d < 2 ^ 62 ->
  Zlength (enc_flat32 (flat d)) <= cap ->
  apply_regions (b32e_region d etab (dsize d) cap) rest (Zlength pre)
                (Zlength pre, (Zlength (encf32 0 0 pre), rev (encf32 0 0 pre))) =
    Ok (dsize d, (Zlength (enc_flat32 (flat d)), rev (enc_flat32 (flat d)))).
Proof.
  intros d cap rest. induction rest as [|r rest IH]; intros pre H Hne Hnn Hsz Hcap; [contradiction|].
  apply Forall_cons_iff in Hne. destruct Hne as [Hr Hrest].
  cbn [apply_regions]. change (flat (r :: rest)) with (r ++ flat rest) in H.
  rewrite (b32e_region_ok d cap r pre (flat rest) _ _ H Hr Hsz eq_refl (eq_sym (Zlength_rev _)) Hcap).
  cbn [bind].
  destruct rest as [|r2 rest].
  - cbn [flat concat apply_regions]. change (Zlength [] =? 0) with true. cbv iota.
    f_equal. f_equal. unfold dsize. rewrite H. cbn [flat concat]. rewrite app_nil_r, Zlength_app. reflexivity.
  - assert (Hr2 : r2 <> []) by (apply Forall_cons_iff in Hrest; tauto).
    assert (Hpos : 0 < Zlength (flat (r2 :: rest))).
    { change (flat (r2 :: rest)) with (r2 ++ flat rest). rewrite Zlength_app.
      pose proof (Zlength_pos r2 Hr2). pose proof (Zlength_nonneg (flat rest)). lia. }
    replace (Zlength (flat (r2 :: rest)) =? 0) with false by lia.
    rewrite <- Zlength_app.
    apply IH; auto; [rewrite <- app_assoc; exact H|discriminate].
Qed.

Lemma encf32_groups : forall n l, (length l <= n)%nat -> forall prev count, count mod 5 = 0 ->
  encf32 prev count l ++ tail32 (Zlength l mod 5) (last l prev) = b32_spec l.
Proof.
  induction n as [|n IH]; intros l Hn prev count Hc.
  { destruct l; [reflexivity|cbn in Hn; lia]. }
  assert (P1 : (count + 1) mod 5 = 1) by lia. assert (P2 : (count + 1 + 1) mod 5 = 2) by lia.
  assert (P3 : (count + 1 + 1 + 1) mod 5 = 3) by lia. assert (P4 : (count + 1 + 1 + 1 + 1) mod 5 = 4) by lia.
  destruct l as [|a [|b [|c [|d [|e r]]]]]; cbn [encf32 b32_spec]; unfold chunk32;
    rewrite ?Hc, ?P1, ?P2, ?P3, ?P4;
    change (0 =? 0) with true; change (1 =? 0) with false; change (1 =? 1) with true; change (2 =? 0) with false;
    change (2 =? 1) with false; change (2 =? 2) with true; change (3 =? 0) with false; change (3 =? 1) with false;
    change (3 =? 2) with false; change (3 =? 3) with true; change (4 =? 0) with false; change (4 =? 1) with false;
    change (4 =? 2) with false; change (4 =? 3) with false; cbv iota; cbn [app].
  - reflexivity.
  - change (Zlength [a] mod 5) with 1. reflexivity.
  - change (Zlength [a; b] mod 5) with 2. reflexivity.
  - change (Zlength [a; b; c] mod 5) with 3. reflexivity.
  - change (Zlength [a; b; c; d] mod 5) with 4. reflexivity.
  - do 8 f_equal. rewrite !last_cons_default.
    replace (Zlength (a :: b :: c :: d :: e :: r) mod 5) with (Zlength r mod 5)
      by (rewrite !Zlength_cons; pose proof (Zlength_nonneg r); lia).
    apply IH; [cbn [length] in Hn; lia|lia].
Qed.

Lemma enc_flat32_spec : forall l, enc_flat32 l = b32_spec l.
Proof. intros. unfold enc_flat32. apply (encf32_groups (length l) l (le_n _) 0 0 eq_refl). Qed.

(* the Base32 encoder on ANY split of a byte string into (non-empty) regions: never NULL, never out of bounds, and
   exactly the RFC 4648 encoding of the concatenation *)
Theorem to_base32_flat : forall d, Forall (fun r => r <> []) d -> dsize d < 2 ^ 60 ->
  to_base32_with_table etab d = Ok (data_create (b32_spec (flat d))).
Proof.
  intros d Hne Hsz. unfold to_base32_with_table. pose proof (Zlength_nonneg (flat d)) as H0. fold (dsize d) in H0.
  replace (SIZE_MAX / 8 <? howmany (dsize d) 5) with false by (unfold SIZE_MAX, howmany; lia).
  destruct d as [|r d].
  - reflexivity.
  - assert (Hc : Zlength (enc_flat32 (flat (r :: d))) <= howmany (dsize (r :: d)) 5 * 8)
      by (rewrite enc_flat32_len; unfold dsize; lia).
    assert (HR := b32e_regions_ok (r :: d) _ (r :: d) [] eq_refl Hne ltac:(discriminate) ltac:(lia) Hc).
    cbn [encf32 rev] in HR. change (Zlength (@nil Z)) with 0 in HR.
    unfold data in *. rewrite HR.
    cbn [bind]. rewrite enc_flat32_len. unfold dsize. rewrite Z.eqb_refl, rev_involutive, enc_flat32_spec. reflexivity.
Qed.

Lemma e32_byte : forall k, 0 <= k < 32 -> byte (e32 k).
Proof. intros k Hk. destruct (Hdigit k Hk) as (_ & _ & _ & H). exact H. Qed.

Lemma b32_spec_bytes : forall n l, (length l <= n)%nat -> bytes (b32_spec l).
Proof.
  assert (Hp : byte PAD) by (unfold byte, PAD; lia).
  induction n as [|n IH]; intros l Hl.
  - destruct l; [constructor|cbn in Hl; lia].
  - destruct l as [|a [|b [|c [|d [|e r]]]]]; cbn [b32_spec];
      repeat (apply Forall_cons;
        [first [exact Hp
               | apply e32_byte;
                 first [unfold g0, g1, g2, g3, g4, g5, g6, g7; apply land31
                       | apply (proj1 (tdig_range _)) | apply (proj1 (proj2 (tdig_range _)))
                       | apply (proj1 (proj2 (proj2 (tdig_range _)))) | apply (proj2 (proj2 (proj2 (tdig_range _))))]]|]);
      try apply Forall_nil.
    apply IH. cbn [length] in Hl. lia.
Qed.

Lemma b32_spec_nonempty : forall l, l <> [] -> b32_spec l <> [].
Proof. intros [|a [|b [|c [|d [|e r]]]]] H; try contradiction; cbn [b32_spec]; discriminate. Qed.

(* ---------------------------------------------------------------- the object the decoder returns *)

Lemma b32d_region_shape : forall s rv off r s' rv',
  b32d_region dtab tsize (s, rv) off r = Ok (s', rv') -> exists X, rv' = rv ++ data_create X.
Proof.
  intros s rv off r s' rv' H. unfold b32d_region in H.
  destruct (iter (Z.to_nat (Zlength r)) 0 (b32d_body dtab tsize (howmany (Zlength r) 8 * 5) r) (s, (0, [])))
    as [[[[x c] p] [n out]]| |]; cbn [bind] in H; try discriminate.
  cbv zeta in H. destruct (howmany (Zlength r) 8 * 5 <? u64 n); [discriminate|]. injection H as _ Hrv. subst rv'. eexists. reflexivity.
Qed.

Lemma from_base32_nonempty : forall d t, from_base32_with_table dtab tsize d = Ok t -> nonempty_regions t.
Proof.
  intros d t H. unfold from_base32_with_table in H.
  destruct (apply_regions (b32d_region dtab tsize) d 0 (0, 0, 0, [])) as [[s rv]| |] eqn:E; cbn [bind] in H; try discriminate.
  injection H as Ht. subst t. eapply (apply_regions_nonempty (b32d_region dtab tsize) b32d_region_shape); [|exact E]. constructor.
Qed.

Lemma d32_step_len : forall c x count pad acc x' count' pad' acc',
  d32_step c ((x, count, pad), acc) = Ok ((x', count', pad'), acc') ->
  8 * Zlength acc' + 5 * (count' mod 8) <= 8 * Zlength acc + 5 * (count mod 8) + 5.
Proof.
  intros c x count pad acc x' count' pad' acc' H. unfold d32_step in H.
  destruct (is_ws c); [inversion H; subst x' count' pad' acc'; lia|].
  destruct (tsize <=? c); [discriminate|]. destruct (rd dtab c) as [v|]; [|discriminate].
  destruct (v =? -1); [discriminate|]. cbv zeta in H.
  assert (Hm : u64 (count + 1) mod 8 = (count + 1) mod 8) by (unfold u64; lia).
  destruct (v =? -2); rewrite land7, Hm in H;
    (destruct (Z.eqb_spec ((count + 1) mod 8) 0) as [E|E];
     [ inversion H; subst x' count' pad' acc';
       match goal with |- context [skipn ?k ?l] => pose proof (skipn_len_le k l) as Hk end;
       unfold out5 in *; rewrite !Zlength_cons in Hk; rewrite Hm; lia
     | inversion H; subst x' count' pad' acc'; rewrite Hm; lia ]).
Qed.

Lemma d32_fold_len : forall l i x count pad acc x' count' pad' acc',
  foldi (fun _ => d32_step) i l ((x, count, pad), acc) = Ok ((x', count', pad'), acc') ->
  8 * Zlength acc' + 5 * (count' mod 8) <= 8 * Zlength acc + 5 * (count mod 8) + 5 * Zlength l.
Proof.
  induction l as [|c l IH]; intros i x count pad acc x' count' pad' acc' H; cbn [foldi] in H.
  - inversion H; subst x' count' pad' acc'. rewrite Zlength_nil. lia.
  - destruct (d32_step c (x, count, pad, acc)) as [[[[x1 c1] p1] a1]| |] eqn:E; cbn [bind] in H; try discriminate.
    apply d32_step_len in E. apply IH in H. rewrite Zlength_cons. lia.
Qed.

Lemma dec32_flat_len : forall l V, dec32_flat l = Ok V -> Zlength V <= Zlength l.
Proof.
  intros l V H. unfold dec32_flat in H.
  destruct (foldi (fun _ : Z => d32_step) 0 l (0, 0, 0, [])) as [[[[x c] p] a]| |] eqn:E; try discriminate.
  injection H as HV. subst V. apply d32_fold_len in E. rewrite Zlength_nil in E. rewrite Zlength_rev. pose proof (Zlength_nonneg l). lia.
Qed.

Lemma dec32_flat_no_oob : forall l site, dec32_flat l <> OOB site.
Proof.
  intros l site H. unfold dec32_flat in H.
  destruct (foldi (fun _ : Z => d32_step) 0 l (0, 0, 0, [])) as [[? ?]| |] eqn:F; try discriminate.
  injection H as Hs. subst site. eapply (foldi_no_oob d32_step d32_step_no_oob); eauto.
Qed.

End B32.

(* ------------------------------------------------------------------------------------------------ the two generated table pairs *)

Definition tables_ok (etab dtab : list Z) (tsize : Z) : Prop :=
  tsize = Zlength dtab /\ (32 <= length etab)%nat /\
  (forall k, 0 <= k < 32 ->
     is_ws (e32 etab k) = false /\ (tsize <=? e32 etab k) = false /\ rd dtab (e32 etab k) = Some k /\ 0 <= e32 etab k < 256) /\
  ((tsize <=? PAD) = false /\ rd dtab PAD = Some (-2)).

Lemma tables_ok_by_sweep : forall etab dtab tsize,
  (tsize =? Zlength dtab) = true -> (32 <=? length etab)%nat = true ->
  forallb (fun k => negb (is_ws (e32 etab k)) && negb (tsize <=? e32 etab k) &&
                    match rd dtab (e32 etab k) with Some v => v =? k | None => false end &&
                    (0 <=? e32 etab k) && (e32 etab k <? 256)) (zrange 32) = true ->
  (negb (tsize <=? PAD) && match rd dtab PAD with Some v => v =? -2 | None => false end) = true ->
  tables_ok etab dtab tsize.
Proof.
  intros etab dtab tsize H1 H2 H3 H4. unfold tables_ok. split; [lia|]. split; [apply Nat.leb_le; exact H2|]. split.
  - intros k Hk. pose proof (forallb_zrange 32 _ H3 k Hk) as Hq. cbv beta in Hq.
    destruct (is_ws (e32 etab k)); [discriminate|].
    destruct (tsize <=? e32 etab k); [discriminate|].
    destruct (rd dtab (e32 etab k)); [|discriminate].
    cbn [negb andb] in Hq. repeat split; try lia. f_equal. lia.
  - destruct (tsize <=? PAD); [discriminate|]. destruct (rd dtab PAD); [|discriminate].
    cbn [negb andb] in H4. split; [reflexivity|]. f_equal. lia.
Qed.

(* the generated Base32 tables: every digit 0..31 is encoded to a character that is no white space, lies inside the
   decode table AS SIZED BY THE CODE (base32_decode_table_size), and decodes to the digit; '=' decodes to -2 *)
Lemma tables32_ok : tables_ok base32_encode_table base32_decode_table base32_decode_table_size.
Proof. apply tables_ok_by_sweep; vm_compute; reflexivity. Qed.
Lemma tables32hex_ok : tables_ok base32hex_encode_table base32hex_decode_table base32hex_decode_table_size.
Proof. apply tables_ok_by_sweep; vm_compute; reflexivity. Qed.

Section Top32.
Variables (etab dtab : list Z) (tsize : Z) (fe : Z).
Hypothesis Hok : tables_ok etab dtab tsize.
Hypothesis Henc : forall d, transform d F_NONE fe = if dsize d =? 0 then Ok d else to_base32_with_table etab d.
Hypothesis Hdec : forall d,
  transform d fe F_NONE = if dsize d =? 0 then Ok d else (do t <- from_base32_with_table dtab tsize d; Ok t).


Theorem base32_roundtrip_generic : forall d, wf_data d ->
  exists e, transform d F_NONE fe = Ok e /\ flat e = b32_spec etab (flat d) /\
    forall d', flat d' = flat e -> dsize d' < 2 ^ 60 ->
      flat_res (transform d' fe F_NONE) = Ok (flat d).
Proof.
  destruct Hok as (H1 & H2 & H3 & H4). intros d (Hne & Hb & Hsz). rewrite Henc.
  destruct (Z.eqb_spec (dsize d) 0) as [E|E].
  - exists d. assert (Hd : flat d = []) by (apply Zlength_nil_inv; exact E).
    split; [reflexivity|]. split; [rewrite Hd; reflexivity|].
    intros d' Hd' _. rewrite Hdec.
    assert (E' : dsize d' = 0) by (unfold dsize; rewrite Hd', Hd; reflexivity).
    rewrite E'. change (0 =? 0) with true. cbv iota. cbn [flat_res]. rewrite Hd', Hd. reflexivity.
  - assert (HT : to_base32_with_table etab d = Ok (data_create (b32_spec etab (flat d))))
      by (eapply to_base32_flat; eauto).
    rewrite HT. eexists. split; [reflexivity|]. rewrite flat_create. split; [reflexivity|].
    intros d' Hd' Hsz'. rewrite Hdec.
    assert (Hne' : flat d <> []) by (intro Hc; apply E; unfold dsize; rewrite Hc; reflexivity).
    assert (E' : dsize d' <> 0).
    { unfold dsize. rewrite Hd'. intro Hc. apply Zlength_nil_inv in Hc. revert Hc. apply b32_spec_nonempty, Hne'. }
    destruct (Z.eqb_spec (dsize d') 0); [contradiction|].
    assert (Hb' : bytes (flat d')).
    { rewrite Hd'. eapply (b32_spec_bytes etab dtab tsize); eauto. }
    assert (HF : flat_res (from_base32_with_table dtab tsize d') = dec32_flat dtab tsize (flat d'))
      by (eapply from_base32_flat; eauto using wf_regions_small).
    assert (HR : dec32_flat dtab tsize (b32_spec etab (flat d)) = Ok (flat d)) by (eapply roundtrip32_flat; eauto).
    rewrite Hd', HR in HF.
    destruct (from_base32_with_table dtab tsize d') as [t| |]; cbn [flat_res bind] in *; try discriminate. exact HF.
Qed.

Theorem base32_decode_total_generic : forall d, wf_data d ->
  flat_res (transform d fe F_NONE) = (if dsize d =? 0 then Ok (flat d) else dec32_flat dtab tsize (flat d)) /\
  (forall site, transform d fe F_NONE <> OOB site) /\
  (forall t, transform d fe F_NONE = Ok t -> Forall (fun r => r <> []) t -> dsize t < 2 ^ 60 ->
             exists e, transform t F_NONE fe = Ok e).
Proof.
  destruct Hok as (H1 & H2 & H3 & H4). intros d (Hne & Hb & Hsz). rewrite Hdec.
  assert (HF : flat_res (from_base32_with_table dtab tsize d) = dec32_flat dtab tsize (flat d))
    by (eapply from_base32_flat; eauto using wf_regions_small).
  assert (HO : forall site, from_base32_with_table dtab tsize d <> OOB site)
    by (intro site; eapply from_base32_no_oob; eauto using wf_regions_small).
  split; [|split].
  - destruct (dsize d =? 0); [reflexivity|]. rewrite <- HF. destruct (from_base32_with_table dtab tsize d); reflexivity.
  - intros site. destruct (dsize d =? 0); [discriminate|].
    destruct (from_base32_with_table dtab tsize d) eqn:E; cbn [bind]; try discriminate.
    intro Hc. inversion Hc; subst. eapply HO; eauto.
  - intros t _ Ht Hts. rewrite Henc. destruct (dsize t =? 0); [eauto|].
    assert (HT : to_base32_with_table etab t = Ok (data_create (b32_spec etab (flat t))))
      by (eapply to_base32_flat; eauto).
    rewrite HT. eauto.
Qed.
End Top32.

Lemma transform_none_b32 : forall d,
  transform d F_NONE F_BASE32 = if dsize d =? 0 then Ok d else to_base32_with_table base32_encode_table d.
Proof. reflexivity. Qed.
Lemma transform_b32_none : forall d, transform d F_BASE32 F_NONE =
  if dsize d =? 0 then Ok d else (do t <- from_base32_with_table base32_decode_table base32_decode_table_size d; Ok t).
Proof. reflexivity. Qed.
Lemma transform_none_b32hex : forall d,
  transform d F_NONE F_BASE32HEX = if dsize d =? 0 then Ok d else to_base32_with_table base32hex_encode_table d.
Proof. reflexivity. Qed.
Lemma transform_b32hex_none : forall d, transform d F_BASE32HEX F_NONE =
  if dsize d =? 0 then Ok d else (do t <- from_base32_with_table base32hex_decode_table base32hex_decode_table_size d; Ok t).
Proof. reflexivity. Qed.

Definition base32_roundtrip_all_splits :=
  base32_roundtrip_generic _ _ _ F_BASE32 tables32_ok transform_none_b32 transform_b32_none.
Definition base32hex_roundtrip_all_splits :=
  base32_roundtrip_generic _ _ _ F_BASE32HEX tables32hex_ok transform_none_b32hex transform_b32hex_none.
Definition base32_decode_total :=
  base32_decode_total_generic _ _ _ F_BASE32 tables32_ok transform_none_b32 transform_b32_none.
Definition base32hex_decode_total :=
  base32_decode_total_generic _ _ _ F_BASE32HEX tables32hex_ok transform_none_b32hex transform_b32hex_none.

(* ------------------------------------------------------------------------------------------------ Base -> Base (decode, then encode the decoder's object) *)

Lemma dec64_flat_no_oob : forall l site, dec64_flat l <> OOB site.
Proof.
  intros l site H. unfold dec64_flat in H.
  destruct (foldi (fun _ : Z => d64_step) 0 l (0, 0, 0, [])) as [[? ?]| |] eqn:F; try discriminate.
  injection H as Hs. subst site. eapply (foldi_no_oob d64_step d64_step_no_oob); eauto.
Qed.

Lemma recode_generic (dec enc : data -> res data) (decflat : list Z -> res (list Z)) (encspec : list Z -> list Z) (fi fo : Z) :
  (forall d, wf_data d -> flat_res (dec d) = decflat (flat d)) ->
  (forall d t, dec d = Ok t -> nonempty_regions t) ->
  (forall l V, decflat l = Ok V -> Zlength V <= Zlength l) ->
  (forall l site, decflat l <> OOB site) ->
  (forall t, nonempty_regions t -> dsize t < 2 ^ 60 -> enc t = Ok (data_create (encspec (flat t)))) ->
  (forall d, transform d fi fo = if dsize d =? 0 then Ok d else (do t <- dec d; enc t)) ->
  forall d, wf_data d ->
    flat_res (transform d fi fo) =
      (if dsize d =? 0 then Ok (flat d)
       else match decflat (flat d) with Ok V => Ok (encspec V) | Null => Null | OOB s => OOB s end) /\
    (forall site, transform d fi fo <> OOB site).
Proof.
  intros Hdec Hne Hlen Hno Henc Htr d Hwf. rewrite Htr. destruct (dsize d =? 0); [split; [reflexivity|discriminate]|].
  assert (HF := Hdec d Hwf). destruct Hwf as (_ & _ & Hsz).
  destruct (dec d) as [t| |] eqn:Ed; cbn [flat_res bind] in *.
  - rewrite <- HF. assert (Hl := Hlen _ _ (eq_sym HF)).
    rewrite (Henc t (Hne d t Ed) ltac:(unfold dsize in *; lia)). cbn [flat_res]. rewrite flat_create.
    split; [reflexivity|discriminate].
  - rewrite <- HF. split; [reflexivity|discriminate].
  - exfalso. eapply Hno. symmetry. exact HF.
Qed.

Definition base_dec (f : Z) : list Z -> res (list Z) :=
  if f =? 5 then dec32_flat base32_decode_table base32_decode_table_size
  else if f =? 6 then dec32_flat base32hex_decode_table base32hex_decode_table_size
  else dec64_flat.
Definition base_enc (f : Z) : list Z -> list Z :=
  if f =? 5 then b32_spec base32_encode_table else if f =? 6 then b32_spec base32hex_encode_table else b64_spec.

(* every ordered pair of Base32 / Base32Hex / Base64 (9 pairs): arbitrary input, arbitrary split: the result is
   encode(decode(concatenation)), NULL exactly when the decoder's fold rejects, and the OOB outcome is unreachable *)
Theorem base_recode_all : forall fi fo, (fi = 5 \/ fi = 6 \/ fi = 7) -> (fo = 5 \/ fo = 6 \/ fo = 7) ->
  forall d, wf_data d ->
    flat_res (transform d fi fo) =
      (if dsize d =? 0 then Ok (flat d)
       else match base_dec fi (flat d) with Ok V => Ok (base_enc fo V) | Null => Null | OOB s => OOB s end) /\
    (forall site, transform d fi fo <> OOB site).
Proof.
  destruct tables32_ok as (A1 & A2 & A3 & A4). destruct tables32hex_ok as (B1 & B2 & B3 & B4).
  assert (D64 : forall d, wf_data d -> flat_res (from_base64 d) = dec64_flat (flat d))
    by (intros d (_ & Hb & Hs); apply from_base64_flat; [exact Hb|apply wf_regions_small, Hs]).
  assert (D32 : forall d, wf_data d -> flat_res (from_base32_with_table base32_decode_table base32_decode_table_size d) =
                                       dec32_flat base32_decode_table base32_decode_table_size (flat d))
    by (intros d (_ & Hb & Hs); eapply (from_base32_flat base32_encode_table); eauto using wf_regions_small).
  assert (D32H : forall d, wf_data d -> flat_res (from_base32_with_table base32hex_decode_table base32hex_decode_table_size d) =
                                        dec32_flat base32hex_decode_table base32hex_decode_table_size (flat d))
    by (intros d (_ & Hb & Hs); eapply (from_base32_flat base32hex_encode_table); eauto using wf_regions_small).
  assert (E64 : forall t, nonempty_regions t -> dsize t < 2 ^ 60 -> to_base64 t = Ok (data_create (b64_spec (flat t))))
    by (intros; apply to_base64_flat; [assumption|lia]).
  assert (E32 : forall t, nonempty_regions t -> dsize t < 2 ^ 60 ->
                  to_base32_with_table base32_encode_table t = Ok (data_create (b32_spec base32_encode_table (flat t))))
    by (intros; eapply (to_base32_flat base32_encode_table base32_decode_table); eauto).
  assert (E32H : forall t, nonempty_regions t -> dsize t < 2 ^ 60 ->
                  to_base32_with_table base32hex_encode_table t = Ok (data_create (b32_spec base32hex_encode_table (flat t))))
    by (intros; eapply (to_base32_flat base32hex_encode_table base32hex_decode_table); eauto).
  assert (N32 : forall d t, from_base32_with_table base32_decode_table base32_decode_table_size d = Ok t -> nonempty_regions t)
    by (intros d t; first [eapply (from_base32_nonempty base32_encode_table base32_decode_table) | eapply from_base32_nonempty]; eauto).
  assert (N32H : forall d t, from_base32_with_table base32hex_decode_table base32hex_decode_table_size d = Ok t -> nonempty_regions t)
    by (intros d t; first [eapply (from_base32_nonempty base32hex_encode_table base32hex_decode_table) | eapply from_base32_nonempty]; eauto).
  assert (L32 : forall l V, dec32_flat base32_decode_table base32_decode_table_size l = Ok V -> Zlength V <= Zlength l)
    by (intros l V; first [eapply (dec32_flat_len base32_encode_table base32_decode_table) | eapply dec32_flat_len]; eauto).
  assert (L32H : forall l V, dec32_flat base32hex_decode_table base32hex_decode_table_size l = Ok V -> Zlength V <= Zlength l)
    by (intros l V; first [eapply (dec32_flat_len base32hex_encode_table base32hex_decode_table) | eapply dec32_flat_len]; eauto).
  assert (O32 : forall l site, dec32_flat base32_decode_table base32_decode_table_size l <> OOB site)
    by (intros l site; first [eapply (dec32_flat_no_oob base32_encode_table base32_decode_table) | eapply dec32_flat_no_oob]; eauto).
  assert (O32H : forall l site, dec32_flat base32hex_decode_table base32hex_decode_table_size l <> OOB site)
    by (intros l site; first [eapply (dec32_flat_no_oob base32hex_encode_table base32hex_decode_table) | eapply dec32_flat_no_oob]; eauto).
  intros fi fo [ -> | [ -> | -> ] ] [ -> | [ -> | -> ] ]; unfold base_dec, base_enc;
    repeat match goal with |- context [?a =? ?b] => let v := eval vm_compute in (a =? b) in change (a =? b) with v end; cbv iota;
    (eapply recode_generic;
     [ first [exact D64|exact D32|exact D32H]
     | first [exact from_base64_nonempty | exact N32 | exact N32H]
     | first [exact dec64_flat_len | exact L32 | exact L32H]
     | first [exact dec64_flat_no_oob | exact O32 | exact O32H]
     | first [exact E64|exact E32|exact E32H]
     | intros d; reflexivity ]).
Qed.

(* ------------------------------------------------------------------------------------------------ "accepted by the inverse" about THE RETURNED
   OBJECT of a Base decoder (no premise on the returned object: it has no empty region and is not longer than the input) *)

Lemma decoded_accepted (dec enc : data -> res data) (decflat : list Z -> res (list Z)) (encspec : list Z -> list Z) (fd fe : Z) :
  (forall d, wf_data d -> flat_res (dec d) = decflat (flat d)) ->
  (forall d t, dec d = Ok t -> nonempty_regions t) ->
  (forall l V, decflat l = Ok V -> Zlength V <= Zlength l) ->
  (forall t, nonempty_regions t -> dsize t < 2 ^ 60 -> enc t = Ok (data_create (encspec (flat t)))) ->
  (forall d, transform d fd F_NONE = if dsize d =? 0 then Ok d else (do t <- dec d; Ok t)) ->
  (forall d, transform d F_NONE fe = if dsize d =? 0 then Ok d else enc d) ->
  forall d t, wf_data d -> transform d fd F_NONE = Ok t -> exists e, transform t F_NONE fe = Ok e.
Proof.
  intros Hdec Hne Hlen Henc Htd Hte d t Hwf Ht. rewrite Hte. destruct (dsize t =? 0); [eauto|].
  rewrite Htd in Ht. destruct (Z.eqb_spec (dsize d) 0) as [E|E].
  - inversion Ht; subst t. destruct Hwf as (H1 & _ & H3). rewrite (Henc d H1 H3). eauto.
  - assert (HF := Hdec d Hwf). destruct Hwf as (_ & _ & Hsz).
    destruct (dec d) as [t0| |] eqn:Ed; cbn [bind flat_res] in *; try discriminate. inversion Ht; subst t0.
    assert (Hl := Hlen _ _ (eq_sym HF)).
    rewrite (Henc t (Hne d t Ed) ltac:(unfold dsize in *; lia)). eauto.
Qed.

Theorem base_decode_returned_accepted : forall f, (f = 5 \/ f = 6 \/ f = 7) ->
  forall d t, wf_data d -> transform d f F_NONE = Ok t -> exists e, transform t F_NONE f = Ok e.
Proof.
  destruct tables32_ok as (A1 & A2 & A3 & A4). destruct tables32hex_ok as (B1 & B2 & B3 & B4).
  intros f [ -> | [ -> | -> ] ].
  - eapply (decoded_accepted (from_base32_with_table base32_decode_table base32_decode_table_size)
                             (to_base32_with_table base32_encode_table)
                             (dec32_flat base32_decode_table base32_decode_table_size) (b32_spec base32_encode_table)).
    + intros d (_ & Hb & Hs); eapply (from_base32_flat base32_encode_table); eauto using wf_regions_small.
    + intros d t; first [eapply (from_base32_nonempty base32_encode_table base32_decode_table) | eapply from_base32_nonempty]; eauto.
    + intros l V; first [eapply (dec32_flat_len base32_encode_table base32_decode_table) | eapply dec32_flat_len]; eauto.
    + intros; eapply (to_base32_flat base32_encode_table base32_decode_table); eauto.
    + exact transform_b32_none.
    + exact transform_none_b32.
  - eapply (decoded_accepted (from_base32_with_table base32hex_decode_table base32hex_decode_table_size)
                             (to_base32_with_table base32hex_encode_table)
                             (dec32_flat base32hex_decode_table base32hex_decode_table_size) (b32_spec base32hex_encode_table)).
    + intros d (_ & Hb & Hs); eapply (from_base32_flat base32hex_encode_table); eauto using wf_regions_small.
    + intros d t; first [eapply (from_base32_nonempty base32hex_encode_table base32hex_decode_table) | eapply from_base32_nonempty]; eauto.
    + intros l V; first [eapply (dec32_flat_len base32hex_encode_table base32hex_decode_table) | eapply dec32_flat_len]; eauto.
    + intros; eapply (to_base32_flat base32hex_encode_table base32hex_decode_table); eauto.
    + exact transform_b32hex_none.
    + exact transform_none_b32hex.
  - eapply (decoded_accepted from_base64 to_base64 dec64_flat b64_spec).
    + intros d (_ & Hb & Hs); apply from_base64_flat; [exact Hb|apply wf_regions_small, Hs].
    + exact from_base64_nonempty.
    + exact dec64_flat_len.
    + intros; apply to_base64_flat; [assumption|lia].
    + exact transform_b64_none.
    + exact transform_none_b64.
Qed.
