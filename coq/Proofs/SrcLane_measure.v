(* SrcLane_measure.v — termination for the source-as-a-lane model (Model/SrcLane.v): a potential function that every
   step of a thread inside a call and every worker pick-up strictly lowers and that a new client call
   (merge_data, suspend, resume, activate, cancel, a spurious wakeup) raises by at most a constant.  Hence an execution
   with n client calls has at most Phi(start) + 75 n other steps: the DIRTY retry of the drain (root targets: loop;
   others: invoke_finish + re-enqueue), the starvation-avoidance re-enqueue while data is pending, the try_lock
   restart, the resume that activates and resumes again are all paid for.  The potential is program-point conditional:
   what DIRTY, pending data, "runnable" and the max QoS cost depends on where the holder of the enqueued/drain token
   stands (e.g. DIRTY costs a retry only while somebody drains; pending data costs a re-enqueue only between the latch
   and the re-test).  Follows Proofs/SLane_measure.v. *)
From Coq Require Import ZArith Bool List Lia.
From Verif Require Import Word Bits Fields DqFields Conc Gen_consts Gen_dqstate Lane_fields SLaneS_fields.
From Verif Require SLane SLane_proofs SrcData.
From Verif Require Import SrcLane SrcLane_proofs.
Import ListNotations.
Local Open Scope Z_scope.

Definition phi (p : pc) : Z :=
  match p with
  | Idle => 0 | POut => 0
  | PM_flags _ _ => 53 | PM_op _ _ => 52
  | PS_flags _ => 36 | PS_pend _ => 35 | PS_wake _ => 34 | PS_rootpush => 15
  | PC_set _ => 35
  | PU_rmw => 1
  | PR_rmw _ => 70 | PR_flags _ => 36 | PR_pend _ => 35 | PR_wake _ => 34
  | PA_rmw _ => 75 | PA_role _ => 73 | PA_inst _ => 71
  | PW_lock _ => 12 | PW_inst _ => 11 | PW_susp _ => 10 | PW_flags _ => 9 | PW_pend _ => 8 | PW_latch _ => 7
  | PW_call _ _ => 6 | PW_incall _ => 5 | PW_post _ => 4 | PW_post2 _ => 3 | PW_unlock _ => 2 | PW_xor _ => 1
  | PW_fin _ => 1
  end.

Lemma phi_range p : 0 <= phi p <= 75.
Proof. destruct p; cbn; lia. Qed.

Fixpoint sumL (f : Z -> Z) (L : list Z) : Z := match L with [] => 0 | t :: L' => f t + sumL f L' end.

Lemma sumL_ext f g L : (forall t, In t L -> f t = g t) -> sumL f L = sumL g L.
Proof. induction L as [|a L IH]; cbn [sumL]; intros H; [reflexivity|]. rewrite (H a (or_introl eq_refl)), IH; [reflexivity|]. intros t Ht. apply H. right. exact Ht. Qed.

Lemma sumL_nonneg f L : (forall t, 0 <= f t) -> 0 <= sumL f L.
Proof. intros H. induction L as [|a L IH]; cbn [sumL]; [lia|]. specialize (H a). lia. Qed.

Lemma sumL_upd (pcs0 : Z -> pc) t p' L : NoDup L -> In t L ->
  sumL (fun u => phi (upd pcs0 t p' u)) L = sumL (fun u => phi (pcs0 u)) L - phi (pcs0 t) + phi p'.
Proof.
  induction L as [|a L IH]; intros ND Hin; [contradiction|]. inversion ND as [|x l Hx Hl]; subst. cbn [sumL].
  destruct (Z.eq_dec a t) as [->|N].
  - rewrite upd_same. rewrite (sumL_ext (fun u => phi (upd pcs0 t p' u)) (fun u => phi (pcs0 u)) L); [lia|].
    intros u Hu. rewrite upd_other; [reflexivity|]. intros ->. contradiction.
  - rewrite upd_other by exact N. destruct Hin as [E|Hin]; [congruence|]. rewrite (IH Hl Hin). lia.
Qed.

(* what the potential reads off the two words *)
Definition dbit (s : gst) : Z := f_d (dec (st s)).
Definition hiv (s : gst) : Z := f_hi (dec (st s)).
Definition mqv (s : gst) : Z := f_mq (dec (st s)).
Definition na (s : gst) : Z := hiv s mod 2.                          (* NEEDS_ACTIVATION *)
Definition rn (s : gst) : Z := if hiv s =? 0 then 1 else 0.           (* neither suspended nor inactive *)
Definition pz (s : gst) : Z := if pend s =? 0 then 0 else 1.          (* data pending *)

(* the cost of the shared state, as seen from the program point of the thread that holds the token *)
Definition hcost (p : pc) (s : gst) : Z :=
  match p with
  | PW_lock fl => if fl <? mqv s then 1 else 0
  | PW_inst _ | PW_susp _ | PW_flags _ | PW_pend _ | PW_latch _ | PW_unlock _ => 16 * dbit s
  | PW_call _ _ | PW_incall _ | PW_post _ | PW_post2 _ => 16 * dbit s + 14 * pz s
  | PW_xor _ => 16 * dbit s + 26 * (1 - dbit s)
  | PW_fin _ => 15 * rn s
  | _ => 0
  end.
Definition hterm (s : gst) : Z :=
  match token s with Some (Some w) => hcost (pcs s w) s | _ => 0 end.

Definition Phi (L : list Z) (s : gst) : Z :=
  sumL (fun u => phi (pcs s u)) L + 14 * rootq s + 5 * na s + hterm s.

Definition covers (L : list Z) (s : gst) : Prop := forall t, ~ In t L -> pcs s t = Idle.

Lemma dbit_range s : 0 <= dbit s <= 1.
Proof. unfold dbit. pose proof (wfr_dec (st s)) as W. unfold wfr in W. lia. Qed.
Lemma na_range s : 0 <= na s <= 1.
Proof. unfold na. pose proof (Z.mod_pos_bound (hiv s) 2). lia. Qed.
Lemma rn_range s : 0 <= rn s <= 1.
Proof. unfold rn. destruct (_ =? _); lia. Qed.
Lemma pz_range s : 0 <= pz s <= 1.
Proof. unfold pz. destruct (_ =? _); lia. Qed.

Lemma hcost_range p s : 0 <= hcost p s <= 30.
Proof.
  pose proof (dbit_range s). pose proof (rn_range s). pose proof (pz_range s).
  destruct p; cbn [hcost]; try lia. destruct (_ <? _); lia.
Qed.
Lemma hterm_range s : 0 <= hterm s <= 30.
Proof. unfold hterm. destruct (token s) as [[w|]|]; try lia. apply hcost_range. Qed.

Lemma dbit_enc s r : st s = enc r -> wfr r -> dbit s = f_d r.
Proof. intros E W. unfold dbit. rewrite E, dec_enc by exact W. reflexivity. Qed.
Lemma hiv_enc s r : st s = enc r -> wfr r -> hiv s = f_hi r.
Proof. intros E W. unfold hiv. rewrite E, dec_enc by exact W. reflexivity. Qed.
Lemma mqv_enc s r : st s = enc r -> wfr r -> mqv s = f_mq r.
Proof. intros E W. unfold mqv. rewrite E, dec_enc by exact W. reflexivity. Qed.

(* ---------------------------------------------------------------- bookkeeping *)
Lemma Phi_step L s s' t p' : NoDup L -> In t L -> pcs s' = upd (pcs s) t p' ->
  Phi L s' = Phi L s - phi (pcs s t) + phi p' + 14 * (rootq s' - rootq s) + 5 * (na s' - na s) + (hterm s' - hterm s).
Proof. intros ND Hin E. unfold Phi. rewrite E, sumL_upd by assumption. lia. Qed.

(* a step of a thread that does not hold the token: the holder (if any) stays where it is; DIRTY is never cleared *)
Lemma hterm_other s s' :
  token s' = token s -> (forall w, token s = Some (Some w) -> pcs s' w = pcs s w) -> dbit s <= dbit s' ->
  hterm s' <= hterm s + 16 * (dbit s' - dbit s) + 14 * Z.max 0 (pz s' - pz s) + 15 * Z.max 0 (rn s' - rn s)
              + (if mqv s' =? mqv s then 0 else 1).
Proof.
  intros K P Dd. unfold hterm. rewrite K.
  pose proof (dbit_range s). pose proof (dbit_range s'). pose proof (rn_range s). pose proof (rn_range s').
  pose proof (pz_range s). pose proof (pz_range s').
  destruct (token s) as [[w|]|]; [rewrite (P w eq_refl) | |]; try (destruct (mqv s' =? mqv s); lia).
  destruct (pcs s w); cbn [hcost]; try (destruct (mqv s' =? mqv s); lia).
  destruct (Z.eqb_spec (mqv s') (mqv s)) as [E|E]; [rewrite E; lia|]. destruct (_ <? _); destruct (_ <? _); lia.
Qed.

(* nothing the potential reads changed except this thread's program point *)
Lemma hterm_same s s' :
  token s' = token s -> (forall w, token s = Some (Some w) -> pcs s' w = pcs s w) -> st s' = st s -> pend s' = pend s ->
  hterm s' = hterm s.
Proof.
  intros K P E1 E2. unfold hterm. rewrite K. destruct (token s) as [[w|]|]; try reflexivity. rewrite (P w eq_refl).
  unfold hcost, dbit, mqv, rn, hiv, pz. rewrite E1, E2. reflexivity.
Qed.

Lemma hterm_holder s t : token s = Some (Some t) -> hterm s = hcost (pcs s t) s.
Proof. intros K. unfold hterm. rewrite K. reflexivity. Qed.
Lemma hterm_free s : token s = None \/ token s = Some None -> hterm s = 0.
Proof. intros [K|K]; unfold hterm; rewrite K; reflexivity. Qed.

Lemma na_same s s' : st s' = st s -> na s' = na s.
Proof. intros E. unfold na, hiv. rewrite E. reflexivity. Qed.

Section Step.
Variable L : list Z.
Hypothesis ND : NoDup L.

Lemma dec_other_simple s s' t p' :
  In t L -> pcs s' = upd (pcs s) t p' -> rootq s' = rootq s -> st s' = st s -> pend s' = pend s -> token s' = token s ->
  token s <> Some (Some t) -> phi p' + 1 <= phi (pcs s t) -> Phi L s' + 1 <= Phi L s.
Proof.
  intros Hin Ep Er Es Epe Ek K Hphi. rewrite (Phi_step L s s' t p' ND Hin Ep), Er, (na_same s s' Es).
  rewrite (hterm_same s s' Ek); [lia| |exact Es|exact Epe].
  intros w E. rewrite Ep. apply upd_other. congruence.
Qed.

Lemma hcost_same p s s' : st s' = st s -> pend s' = pend s -> hcost p s' = hcost p s.
Proof. intros E1 E2. unfold hcost, dbit, mqv, rn, hiv, pz. rewrite E1, E2. reflexivity. Qed.

Lemma dec_holder_simple s s' t p' :
  In t L -> pcs s' = upd (pcs s) t p' -> rootq s' = rootq s -> st s' = st s -> pend s' = pend s -> token s' = token s ->
  token s = Some (Some t) -> phi p' + hcost p' s + 1 <= phi (pcs s t) + hcost (pcs s t) s -> Phi L s' + 1 <= Phi L s.
Proof.
  intros Hin Ep Er Es Epe Ek K Hphi. rewrite (Phi_step L s s' t p' ND Hin Ep), Er, (na_same s s' Es).
  rewrite (hterm_holder s t K). rewrite (hterm_holder s' t) by congruence. rewrite Ep, upd_same.
  rewrite (hcost_same p' s s' Es Epe). lia.
Qed.

Ltac nh_start s t I Hpc B T K :=
  unfold gstep in B; rewrite Hpc in B;
  pose proof I as [_ T]; pose proof (not_holder s t (T t)) as K; rewrite Hpc in K; specialize (K eq_refl).

Lemma dec_mflags c s t v q s' : Inv c s -> In t L -> pcs s t = PM_flags v q -> gstep c s t = Some s' -> Phi L s' + 1 <= Phi L s.
Proof.
  intros I Hin Hpc B. nh_start s t I Hpc B T K. injection B as <-.
  destruct (cancelled s); [apply (dec_other_simple s _ t Idle) | apply (dec_other_simple s _ t (PM_op v q))];
    sproj; auto; rewrite Hpc; cbn [phi]; lia.
Qed.

Lemma dec_sflags c s t q s' : Inv c s -> In t L -> pcs s t = PS_flags q -> gstep c s t = Some s' -> Phi L s' + 1 <= Phi L s.
Proof.
  intros I Hin Hpc B. nh_start s t I Hpc B T K. injection B as <-.
  destruct (negb (installed s)); [apply (dec_other_simple s _ t (PS_wake q))|
    destruct (cancelled s); [apply (dec_other_simple s _ t Idle) | apply (dec_other_simple s _ t (PS_pend q))]];
    sproj; auto; rewrite Hpc; cbn [phi]; lia.
Qed.

Lemma dec_spend c s t q s' : Inv c s -> In t L -> pcs s t = PS_pend q -> gstep c s t = Some s' -> Phi L s' + 1 <= Phi L s.
Proof.
  intros I Hin Hpc B. nh_start s t I Hpc B T K. injection B as <-.
  destruct (pend s =? 0); [apply (dec_other_simple s _ t Idle) | apply (dec_other_simple s _ t (PS_wake q))];
    sproj; auto; rewrite Hpc; cbn [phi]; lia.
Qed.

Lemma dec_cset c s t q s' : Inv c s -> In t L -> pcs s t = PC_set q -> gstep c s t = Some s' -> Phi L s' + 1 <= Phi L s.
Proof.
  intros I Hin Hpc B. nh_start s t I Hpc B T K. injection B as <-.
  apply (dec_other_simple s _ t (PS_wake q)); sproj; auto; rewrite Hpc; cbn [phi]; lia.
Qed.

Lemma dec_rflags c s t q s' : Inv c s -> In t L -> pcs s t = PR_flags q -> gstep c s t = Some s' -> Phi L s' + 1 <= Phi L s.
Proof.
  intros I Hin Hpc B. nh_start s t I Hpc B T K. injection B as <-.
  destruct (negb (installed s)); [apply (dec_other_simple s _ t (PR_wake q))|
    destruct (cancelled s); [apply (dec_other_simple s _ t Idle) | apply (dec_other_simple s _ t (PR_pend q))]];
    sproj; auto; rewrite Hpc; cbn [phi]; lia.
Qed.

Lemma dec_rpend c s t q s' : Inv c s -> In t L -> pcs s t = PR_pend q -> gstep c s t = Some s' -> Phi L s' + 1 <= Phi L s.
Proof.
  intros I Hin Hpc B. nh_start s t I Hpc B T K. injection B as <-.
  destruct (pend s =? 0); [apply (dec_other_simple s _ t Idle) | apply (dec_other_simple s _ t (PR_wake q))];
    sproj; auto; rewrite Hpc; cbn [phi]; lia.
Qed.

Lemma dec_ainst c s t q s' : Inv c s -> In t L -> pcs s t = PA_inst q -> gstep c s t = Some s' -> Phi L s' + 1 <= Phi L s.
Proof.
  intros I Hin Hpc B. nh_start s t I Hpc B T K. injection B as <-.
  apply (dec_other_simple s _ t (PR_rmw q)); sproj; auto; rewrite Hpc; cbn [phi]; lia.
Qed.

(* the merge itself: data may become pending while the holder is between the latch and the re-test *)
Lemma dec_mop c s t v q s' : Inv c s -> In t L -> pcs s t = PM_op v q -> gstep c s t = Some s' -> Phi L s' + 1 <= Phi L s.
Proof.
  intros I Hin Hpc B. nh_start s t I Hpc B T K. injection B as <-.
  match goal with |- Phi L ?s1 + 1 <= _ => set (s' := s1) end.
  assert (Ep : pcs s' = upd (pcs s) t (PS_flags q)) by reflexivity.
  assert (Es : st s' = st s) by reflexivity.
  rewrite (Phi_step L s s' t _ ND Hin Ep), (na_same s s' Es). change (rootq s') with (rootq s).
  assert (H : hterm s' <= hterm s + 16 * (dbit s' - dbit s) + 14 * Z.max 0 (pz s' - pz s) + 15 * Z.max 0 (rn s' - rn s)
                          + (if mqv s' =? mqv s then 0 else 1)).
  { apply hterm_other; [reflexivity | | unfold dbit; rewrite Es; lia].
    intros w E. rewrite Ep. apply upd_other. congruence. }
  assert (E1 : dbit s' = dbit s) by (unfold dbit; rewrite Es; reflexivity).
  assert (E2 : rn s' = rn s) by (unfold rn, hiv; rewrite Es; reflexivity).
  assert (E3 : mqv s' = mqv s) by (unfold mqv; rewrite Es; reflexivity).
  rewrite E1, E2, E3, Z.eqb_refl in H. pose proof (pz_range s). pose proof (pz_range s').
  rewrite Hpc. cbn [phi]. lia.
Qed.

(* ---------------------------------------------------------------- the holder's steps that only move it *)
Ltac h_start s t I Hpc B T K :=
  unfold gstep in B; rewrite Hpc in B;
  pose proof I as [_ T]; pose proof (holder s t (T t)) as K; rewrite Hpc in K; specialize (K eq_refl).

Lemma dec_winst c s t o s' : Inv c s -> In t L -> pcs s t = PW_inst o -> gstep c s t = Some s' -> Phi L s' + 1 <= Phi L s.
Proof.
  intros I Hin Hpc B. h_start s t I Hpc B T K. injection B as <-.
  apply (dec_holder_simple s _ t (PW_susp o)); sproj; auto. rewrite Hpc. cbn [phi hcost]. lia.
Qed.

Lemma suspended_hiv c s : Inv c s -> suspended_word (st s) = (0 <? hiv s).
Proof.
  intros [[r G] _]. pose proof (g_enc _ s r G) as E. pose proof (g_wf _ s r G) as W.
  unfold suspended_word. rewrite (hiv_enc s r E W), E. apply is_suspended_f. exact W.
Qed.

Lemma dec_wsusp c s t o s' : Inv c s -> In t L -> pcs s t = PW_susp o -> gstep c s t = Some s' -> Phi L s' + 1 <= Phi L s.
Proof.
  intros I Hin Hpc B. h_start s t I Hpc B T K. injection B as <-. rewrite (suspended_hiv c s I).
  pose proof (dbit_range s).
  destruct (Z.ltb_spec 0 (hiv s)) as [S|S].
  - apply (dec_holder_simple s _ t (PW_fin (owned_unlock o))); sproj; auto. rewrite Hpc. cbn [phi hcost].
    unfold rn. destruct (Z.eqb_spec (hiv s) 0); lia.
  - apply (dec_holder_simple s _ t (PW_flags o)); sproj; auto. rewrite Hpc. cbn [phi hcost]. lia.
Qed.

Lemma dec_wflags c s t o s' : Inv c s -> In t L -> pcs s t = PW_flags o -> gstep c s t = Some s' -> Phi L s' + 1 <= Phi L s.
Proof.
  intros I Hin Hpc B. h_start s t I Hpc B T K. injection B as <-.
  destruct (cancelled s); [apply (dec_holder_simple s _ t (PW_unlock (owned_unlock o))) | apply (dec_holder_simple s _ t (PW_pend o))];
    sproj; auto; rewrite Hpc; cbn [phi hcost]; lia.
Qed.

Lemma dec_wpend c s t o s' : Inv c s -> In t L -> pcs s t = PW_pend o -> gstep c s t = Some s' -> Phi L s' + 1 <= Phi L s.
Proof.
  intros I Hin Hpc B. h_start s t I Hpc B T K. injection B as <-.
  destruct (pend s =? 0); [apply (dec_holder_simple s _ t (PW_unlock (owned_unlock o))) | apply (dec_holder_simple s _ t (PW_latch o))];
    sproj; auto; rewrite Hpc; cbn [phi hcost]; lia.
Qed.

Lemma dec_wcall c s t o x s' : Inv c s -> In t L -> pcs s t = PW_call o x -> gstep c s t = Some s' -> Phi L s' + 1 <= Phi L s.
Proof.
  intros I Hin Hpc B. h_start s t I Hpc B T K. injection B as <-.
  apply (dec_holder_simple s _ t (PW_incall o)); sproj; auto; rewrite Hpc; cbn [phi hcost]; lia.
Qed.

Lemma dec_wincall c s t o s' : Inv c s -> In t L -> pcs s t = PW_incall o -> gstep c s t = Some s' -> Phi L s' + 1 <= Phi L s.
Proof.
  intros I Hin Hpc B. h_start s t I Hpc B T K. injection B as <-.
  apply (dec_holder_simple s _ t (PW_post o)); sproj; auto; rewrite Hpc; cbn [phi hcost]; lia.
Qed.

Lemma dec_wpost c s t o s' : Inv c s -> In t L -> pcs s t = PW_post o -> gstep c s t = Some s' -> Phi L s' + 1 <= Phi L s.
Proof.
  intros I Hin Hpc B. h_start s t I Hpc B T K. injection B as <-. pose proof (pz_range s).
  destruct (cancelled s || negb (starve c)); [apply (dec_holder_simple s _ t (PW_unlock (owned_unlock o))) | apply (dec_holder_simple s _ t (PW_post2 o))];
    sproj; auto; rewrite Hpc; cbn [phi hcost]; lia.
Qed.

(* the re-test after the handler: pending data sends the source back to its target queue (paid by the 14 * pz) *)
Lemma dec_wpost2 c s t o s' : Inv c s -> In t L -> pcs s t = PW_post2 o -> gstep c s t = Some s' -> Phi L s' + 1 <= Phi L s.
Proof.
  intros I Hin Hpc B. h_start s t I Hpc B T K. injection B as <-. pose proof (pz_range s). pose proof (dbit_range s). pose proof (rn_range s).
  destruct (Z.eqb_spec (pend s) 0) as [P|P].
  - apply (dec_holder_simple s _ t (PW_unlock (owned_unlock o))); sproj; auto; rewrite Hpc; cbn [phi hcost]; lia.
  - apply (dec_holder_simple s _ t (PW_fin (owned_unlock o))); sproj; auto; rewrite Hpc; cbn [phi hcost].
    unfold pz. destruct (Z.eqb_spec (pend s) 0); [contradiction|]. lia.
Qed.

(* the latch empties ds_pending_data *)
Lemma dec_wlatch c s t o s' : Inv c s -> In t L -> pcs s t = PW_latch o -> gstep c s t = Some s' -> Phi L s' + 1 <= Phi L s.
Proof.
  intros I Hin Hpc B. h_start s t I Hpc B T K. injection B as <-.
  match goal with |- Phi L ?s1 + 1 <= _ => set (s' := s1) end.
  set (p' := latch_next (ck c) o (pend s)) in *.
  assert (Ep : pcs s' = upd (pcs s) t p') by reflexivity.
  assert (Es : st s' = st s) by reflexivity.
  rewrite (Phi_step L s s' t _ ND Hin Ep), (na_same s s' Es). change (rootq s') with (rootq s).
  rewrite (hterm_holder s t K). rewrite (hterm_holder s' t) by exact K. rewrite Ep, upd_same, Hpc.
  assert (E1 : dbit s' = dbit s) by (unfold dbit; rewrite Es; reflexivity).
  assert (E2 : pz s' = 0) by reflexivity.
  pose proof (dbit_range s).
  destruct (latch_next_cases (ck c) o (pend s)) as [[_ E]|[_ E]]; subst p'; rewrite E; cbn [phi hcost]; rewrite ?E1, ?E2; lia.
Qed.

(* the push on the target queue: the token goes to the queue *)
Lemma dec_rootpush c s t s' : Inv c s -> In t L -> pcs s t = PS_rootpush -> gstep c s t = Some s' -> Phi L s' + 1 <= Phi L s.
Proof.
  intros I Hin Hpc B. h_start s t I Hpc B T K. injection B as <-.
  match goal with |- Phi L ?s1 + 1 <= _ => set (s' := s1) end.
  assert (Ep : pcs s' = upd (pcs s) t Idle) by reflexivity.
  assert (Es : st s' = st s) by reflexivity.
  rewrite (Phi_step L s s' t _ ND Hin Ep), (na_same s s' Es).
  rewrite (hterm_holder s t K), Hpc. rewrite (hterm_free s') by (right; reflexivity).
  change (rootq s') with (rootq s + 1). cbn [phi hcost]. lia.
Qed.

(* ---------------------------------------------------------------- steps that rewrite dq_state *)
Definition rn_f (r : dqf) : Z := if f_hi r =? 0 then 1 else 0.
Lemma rn_enc s r : st s = enc r -> wfr r -> rn s = rn_f r.
Proof. intros E W. unfold rn, rn_f. rewrite (hiv_enc s r E W). reflexivity. Qed.
Lemma na_enc s r : st s = enc r -> wfr r -> na s = f_hi r mod 2.
Proof. intros E W. unfold na. rewrite (hiv_enc s r E W). reflexivity. Qed.

Lemma dec_other_word s s' t p' r r' :
  In t L -> st s = enc r -> wfr r -> st s' = enc r' -> wfr r' -> pcs s' = upd (pcs s) t p' -> rootq s' = rootq s ->
  pend s' = pend s -> token s' = token s -> token s <> Some (Some t) -> f_d r <= f_d r' ->
  phi p' + 16 * (f_d r' - f_d r) + 15 * Z.max 0 (rn_f r' - rn_f r) + (if f_mq r' =? f_mq r then 0 else 1)
    + 5 * (f_hi r' mod 2 - f_hi r mod 2) + 1 <= phi (pcs s t) ->
  Phi L s' + 1 <= Phi L s.
Proof.
  intros Hin E W E' W' Ep Er Epe Ek K Dd Hphi.
  rewrite (Phi_step L s s' t p' ND Hin Ep), Er.
  rewrite (na_enc s r E W), (na_enc s' r' E' W').
  assert (H : hterm s' <= hterm s + 16 * (dbit s' - dbit s) + 14 * Z.max 0 (pz s' - pz s) + 15 * Z.max 0 (rn s' - rn s)
                          + (if mqv s' =? mqv s then 0 else 1)).
  { apply hterm_other; [exact Ek | | rewrite (dbit_enc s r E W), (dbit_enc s' r' E' W'); exact Dd].
    intros w Ew. rewrite Ep. apply upd_other. congruence. }
  rewrite (dbit_enc s r E W), (dbit_enc s' r' E' W'), (rn_enc s r E W), (rn_enc s' r' E' W'),
          (mqv_enc s r E W), (mqv_enc s' r' E' W') in H.
  assert (Pz : pz s' = pz s) by (unfold pz; rewrite Epe; reflexivity). rewrite Pz in H.
  replace (Z.max 0 (pz s - pz s)) with 0 in H by lia. lia.
Qed.

(* the committing thread becomes the holder of the enqueued token (nobody held it) and will push *)
Lemma dec_take_token s s' t r r' :
  In t L -> st s = enc r -> wfr r -> st s' = enc r' -> wfr r' -> pcs s' = upd (pcs s) t PS_rootpush -> rootq s' = rootq s ->
  token s = None -> token s' = Some (Some t) -> f_hi r' = f_hi r -> 16 <= phi (pcs s t) ->
  Phi L s' + 1 <= Phi L s.
Proof.
  intros Hin E W E' W' Ep Er Tk Tk' Eh Hphi.
  rewrite (Phi_step L s s' t _ ND Hin Ep), Er.
  rewrite (na_enc s r E W), (na_enc s' r' E' W'), Eh.
  rewrite (hterm_free s) by (left; exact Tk). rewrite (hterm_holder s' t Tk'), Ep, upd_same. cbn [phi hcost]. lia.
Qed.

Lemma dec_swake c s t q s' : Inv c s -> In t L -> pcs s t = PS_wake q -> gstep c s t = Some s' -> Phi L s' + 1 <= Phi L s.
Proof.
  intros I Hin Hpc B. unfold gstep in B. rewrite Hpc in B. pose proof I as [[r G] T].
  pose proof (not_holder s t (T t)) as K. rewrite Hpc in K. specialize (K eq_refl).
  destruct (T t) as (T1 & T2 & T3 & T4 & T5 & T6). rewrite Hpc in T5. pose proof (T5 q eq_refl) as Q.
  pose proof (g_enc _ s r G) as g_enc0. pose proof (g_wf _ s r G) as g_wf0. pose proof (g_enq _ s r G) as g_enq0.
  pose proof g_wf0 as W. unfold wfr in W.
  rewrite g_enc0 in B. unfold ENQUEUED in B.
  rewrite (wakeup_fields r q 3 1 g_wf0 Q eq_refl) in B. cbv zeta in B.
  pose proof (merged_wf r q g_wf0 Q) as Wm. unfold wfr in Wm.
  destruct (merged_same r q) as (M1 & M2 & M3 & M4 & M5 & M6 & M7 & M8 & M9 & M10).
  set (m := Lane_fields.merged r q) in *.
  set (e' := if can_enqueue r then 1 else f_enq m) in *.
  assert (He' : 0 <= e' < 2) by (subst e'; destruct (can_enqueue r); lia).
  set (r' := mk (f_owner m) (f_tr m) e' (f_mq m) (f_ov m) (f_role m) (f_em m) 1 (f_pb m) (f_wq m) (f_ib m) (f_hi m)) in *.
  assert (W' : wfr r') by (subst r'; apply wfr_mk; lia).
  cbv iota beta in B. rewrite (enq_changed r r' g_wf0 W') in B.
  assert (F4 : f_enq r' = e') by reflexivity.
  assert (F5 : f_d r' = 1) by reflexivity.
  assert (F9 : f_hi r' = f_hi r) by (subst r'; unfold mk; cbn; congruence).
  destruct (can_enqueue r) eqn:CE.
  - unfold can_enqueue in CE. rewrite !andb_true_iff in CE. destruct CE as [[[C1 C2] C3] C4]. apply Z.eqb_eq in C2.
    assert (Tk : token s = None).
    { destruct (token s) eqn:E; [|reflexivity]. assert (f_enq r = 1) by (apply g_enq0; congruence). lia. }
    assert (Ee : (f_enq r =? f_enq r') = false) by (rewrite F4; subst e'; rewrite C2; reflexivity).
    rewrite Ee in B. cbn [negb] in B. injection B as <-.
    apply (dec_take_token s _ t r r'); sproj; auto. rewrite Hpc. cbn [phi]. lia.
  - assert (Ee : (f_enq r =? f_enq r') = true) by (rewrite F4; subst e'; rewrite M3; apply Z.eqb_refl).
    rewrite Ee in B. cbn [negb] in B. injection B as <-.
    apply (dec_other_word s _ t Idle r r'); sproj; auto; try lia.
    rewrite Hpc, F5, F9. cbn [phi]. unfold rn_f. rewrite F9. destruct (f_mq r' =? f_mq r); destruct (f_hi r =? 0); lia.
Qed.

Lemma dec_rwake c s t q s' : Inv c s -> In t L -> pcs s t = PR_wake q -> gstep c s t = Some s' -> Phi L s' + 1 <= Phi L s.
Proof.
  intros I Hin Hpc B. unfold gstep in B. rewrite Hpc in B. pose proof I as [[r G] T].
  pose proof (not_holder s t (T t)) as K. rewrite Hpc in K. specialize (K eq_refl).
  destruct (T t) as (T1 & T2 & T3 & T4 & T5 & T6). rewrite Hpc in T5. pose proof (T5 q eq_refl) as Q.
  pose proof (g_enc _ s r G) as g_enc0. pose proof (g_wf _ s r G) as g_wf0. pose proof (g_enq _ s r G) as g_enq0.
  pose proof g_wf0 as W. unfold wfr in W.
  rewrite g_enc0 in B. unfold ENQUEUED in B.
  rewrite (wakeup_fields_plain r q 1 1 g_wf0 Q eq_refl) in B. cbv zeta in B.
  pose proof (merged_wf r q g_wf0 Q) as Wm. unfold wfr in Wm.
  destruct (merged_same r q) as (M1 & M2 & M3 & M4 & M5 & M6 & M7 & M8 & M9 & M10).
  set (m := Lane_fields.merged r q) in *.
  set (e' := if can_enqueue r then 1 else f_enq m) in *.
  assert (He' : 0 <= e' < 2) by (subst e'; destruct (can_enqueue r); lia).
  set (r' := mk (f_owner m) (f_tr m) e' (f_mq m) (f_ov m) (f_role m) (f_em m) (f_d m) (f_pb m) (f_wq m) (f_ib m) (f_hi m)) in *.
  assert (W' : wfr r') by (subst r'; apply wfr_mk; lia).
  assert (F4 : f_enq r' = e') by reflexivity.
  assert (F5 : f_d r' = f_d r) by (subst r'; unfold mk; cbn; congruence).
  assert (F9 : f_hi r' = f_hi r) by (subst r'; unfold mk; cbn; congruence).
  destruct (Z.eqb_spec (enc r') (enc r)) as [Same|Diff].
  - injection B as <-. apply (dec_other_simple s _ t Idle); sproj; auto. rewrite Hpc. cbn [phi]. lia.
  - cbv iota beta in B. rewrite (enq_changed r r' g_wf0 W') in B.
    destruct (can_enqueue r) eqn:CE.
    + unfold can_enqueue in CE. rewrite !andb_true_iff in CE. destruct CE as [[[C1 C2] C3] C4]. apply Z.eqb_eq in C2.
      assert (Tk : token s = None).
      { destruct (token s) eqn:E; [|reflexivity]. assert (f_enq r = 1) by (apply g_enq0; congruence). lia. }
      assert (Ee : (f_enq r =? f_enq r') = false) by (rewrite F4; subst e'; rewrite C2; reflexivity).
      rewrite Ee in B. cbn [negb] in B. injection B as <-.
      apply (dec_take_token s _ t r r'); sproj; auto. rewrite Hpc. cbn [phi]. lia.
    + assert (Ee : (f_enq r =? f_enq r') = true) by (rewrite F4; subst e'; rewrite M3; apply Z.eqb_refl).
      rewrite Ee in B. cbn [negb] in B. injection B as <-.
      apply (dec_other_word s _ t Idle r r'); sproj; auto; try lia.
      rewrite Hpc, F5, F9. cbn [phi]. unfold rn_f. rewrite F9. destruct (f_mq r' =? f_mq r); destruct (f_hi r =? 0); lia.
Qed.

Lemma dec_urmw c s t s' : Inv c s -> In t L -> pcs s t = PU_rmw -> gstep c s t = Some s' -> Phi L s' + 1 <= Phi L s.
Proof.
  intros I Hin Hpc B. unfold gstep in B. rewrite Hpc in B. pose proof I as [[r G] T].
  pose proof (not_holder s t (T t)) as K. rewrite Hpc in K. specialize (K eq_refl).
  pose proof (g_enc _ s r G) as g_enc0. pose proof (g_wf _ s r G) as g_wf0.
  pose proof g_wf0 as W. unfold wfr in W.
  rewrite g_enc0 in B. rewrite (suspend_fields r g_wf0) in B.
  destruct (Z.ltb_spec (f_hi r) 504) as [H|H].
  - injection B as <-.
    assert (W' : wfr (set_hi r (f_hi r + 8))) by (apply set_hi_wf; [assumption|lia]).
    apply (dec_other_word s _ t Idle r (set_hi r (f_hi r + 8))); sproj; auto; try (cbn; lia).
    rewrite Hpc. unfold rn_f, set_hi, mk; cbn [f_d f_mq f_hi phi]. rewrite Z.eqb_refl.
    replace ((f_hi r + 8) mod 2) with (f_hi r mod 2) by (rewrite <- (Z.mod_add (f_hi r) 4 2) by lia; f_equal; lia).
    destruct (Z.eqb_spec (f_hi r + 8) 0); destruct (Z.eqb_spec (f_hi r) 0); lia.
  - injection B as <-. apply (dec_other_simple s _ t POut); sproj; auto. rewrite Hpc. cbn [phi]. lia.
Qed.

Lemma mod2_sub8 a : (a - 8) mod 2 = a mod 2.
Proof. rewrite <- (Z.mod_add (a - 8) 4 2) by lia. f_equal. lia. Qed.

Lemma dec_rrmw c s t q s' : Inv c s -> In t L -> pcs s t = PR_rmw q -> gstep c s t = Some s' -> Phi L s' + 1 <= Phi L s.
Proof.
  intros I Hin Hpc B. unfold gstep in B. rewrite Hpc in B. pose proof I as [[r G] T].
  pose proof (not_holder s t (T t)) as K. rewrite Hpc in K. specialize (K eq_refl).
  pose proof (g_enc _ s r G) as g_enc0. pose proof (g_wf _ s r G) as g_wf0. pose proof (g_hi _ s r G) as g_hi0.
  pose proof g_wf0 as W. unfold wfr in W.
  rewrite g_enc0 in B. rewrite (resume_src_fields r g_wf0 g_hi0) in B.
  destruct ((f_hi r =? 9) || (f_hi r =? 3)) eqn:Act.
  { set (r8 := set_hi r 8) in *.
    assert (W8 : wfr r8) by (apply set_hi_wf; [assumption|lia]).
    rewrite (xor_needs_activation r r8 g_wf0 W8) in B.
    assert (P1 : (f_hi r mod 2 =? 1) = true).
    { apply orb_true_iff in Act. destruct Act as [E|E]; apply Z.eqb_eq in E; rewrite E; reflexivity. }
    assert (P2 : (f_hi r8 mod 2 =? 1) = false) by reflexivity.
    rewrite P1, P2 in B. cbn [xorb] in B. injection B as <-.
    apply (dec_other_word s _ t (PA_role q) r r8); sproj; auto; try (cbn; lia).
    rewrite Hpc. apply Z.eqb_eq in P1. subst r8. unfold rn_f, set_hi, mk; cbn [f_d f_mq f_hi phi]. rewrite Z.eqb_refl, P1.
    change (8 mod 2) with 0. change (8 =? 0) with false. destruct (f_hi r =? 0); lia. }
  destruct (Z.ltb_spec (f_hi r) 8) as [H|H].
  - injection B as <-. apply (dec_other_simple s _ t POut); sproj; auto. rewrite Hpc. cbn [phi]. lia.
  - cbv zeta in B. set (r2 := set_hi r (f_hi r - 8)) in *.
    assert (W2 : wfr r2) by (apply set_hi_wf; [assumption|lia]).
    destruct (runnable_b r2 && (f_owner r =? 0)) eqn:RO.
    + set (r3 := mk 0 0 (f_enq r) 0 0 (f_role r) (f_em r) (f_d r) (f_pb r) (f_wq r) (f_ib r) (f_hi r - 8)) in *.
      assert (W3 : wfr r3) by (subst r3; apply wfr_mk; lia).
      assert (Fin : forall s1 p', pcs s1 = upd (pcs s) t p' -> st s1 = enc r3 -> rootq s1 = rootq s -> pend s1 = pend s ->
                     token s1 = token s -> phi p' <= 36 -> Phi L s1 + 1 <= Phi L s).
      { intros s1 p' Ep1 Es1 Er1 Epe1 Ek1 Hp. apply (dec_other_word s s1 t p' r r3); auto; try (cbn; lia).
        rewrite Hpc. subst r3. unfold rn_f, mk; cbn [f_d f_mq f_hi phi]. rewrite mod2_sub8.
        destruct (0 =? f_mq r); destruct (f_hi r - 8 =? 0); destruct (f_hi r =? 0); lia. }
      rewrite (xor_needs_activation r r3 g_wf0 W3) in B.
      assert (E1 : f_hi r3 = f_hi r - 8) by reflexivity. rewrite E1, par_sub8, xorb_nilpotent in B.
      destruct (suspended_word (enc r3)); [injection B as <-; apply (Fin _ Idle); try reflexivity; try (cbn; lia)|].
      destruct (nz (Z.land (Z.lxor (enc r) (enc r3)) 18014398509481984)); [injection B as <-; apply (Fin _ POut); try reflexivity; try (cbn; lia)|].
      destruct (negb (nz (f_dq_state_is_runnable (enc r3)))); injection B as <-; [apply (Fin _ Idle); try reflexivity; try (cbn; lia)|].
      apply (Fin _ (PR_flags q)); try reflexivity; try (cbn; lia).
    + set (r4 := dirtied r2) in *.
      assert (W4 : wfr r4) by (apply dirtied_wf; exact W2).
      assert (Fin : forall s1 p', pcs s1 = upd (pcs s) t p' -> st s1 = enc r4 -> rootq s1 = rootq s -> pend s1 = pend s ->
                     token s1 = token s -> phi p' <= 36 -> Phi L s1 + 1 <= Phi L s).
      { intros s1 p' Ep1 Es1 Er1 Epe1 Ek1 Hp. apply (dec_other_word s s1 t p' r r4); auto; try (cbn; lia).
        rewrite Hpc. subst r4 r2. unfold rn_f, dirtied, set_hi, mk; cbn [f_d f_mq f_hi phi]. rewrite mod2_sub8, Z.eqb_refl.
        destruct (f_hi r - 8 =? 0); destruct (f_hi r =? 0); lia. }
      rewrite (xor_needs_activation r r4 g_wf0 W4) in B.
      assert (E1 : f_hi r4 = f_hi r - 8) by reflexivity. rewrite E1, par_sub8, xorb_nilpotent in B.
      destruct (suspended_word (enc r4)); [injection B as <-; apply (Fin _ Idle); try reflexivity; try (cbn; lia)|].
      destruct (nz (Z.land (Z.lxor (enc r) (enc r4)) 18014398509481984)); [injection B as <-; apply (Fin _ POut); try reflexivity; try (cbn; lia)|].
      destruct (negb (nz (f_dq_state_is_runnable (enc r4)))); injection B as <-; [apply (Fin _ Idle); try reflexivity; try (cbn; lia)|].
      apply (Fin _ (PR_flags q)); try reflexivity; try (cbn; lia).
Qed.

Lemma mod2_sub2 a : (a - 2) mod 2 = a mod 2.
Proof. rewrite <- (Z.mod_add (a - 2) 1 2) by lia. f_equal. lia. Qed.

Lemma dec_armw c s t q s' : Inv c s -> In t L -> pcs s t = PA_rmw q -> gstep c s t = Some s' -> Phi L s' + 1 <= Phi L s.
Proof.
  intros I Hin Hpc B. unfold gstep in B. rewrite Hpc in B. pose proof I as [[r G] T].
  pose proof (not_holder s t (T t)) as K. rewrite Hpc in K. specialize (K eq_refl).
  pose proof (g_enc _ s r G) as g_enc0. pose proof (g_wf _ s r G) as g_wf0. pose proof (g_hi _ s r G) as g_hi0.
  pose proof g_wf0 as W. unfold wfr in W.
  rewrite g_enc0 in B. rewrite (activate_fields r g_wf0) in B.
  destruct (Z.eqb_spec (f_hi r) 3) as [H3|H3].
  - assert (W8 : wfr (set_hi r 8)) by (apply set_hi_wf; [assumption|lia]).
    rewrite (xor_needs_activation r (set_hi r 8) g_wf0 W8) in B.
    assert (P1 : (f_hi r mod 2 =? 1) = true) by (rewrite H3; reflexivity).
    assert (P2 : (f_hi (set_hi r 8) mod 2 =? 1) = false) by reflexivity.
    rewrite P1, P2 in B. cbn [xorb] in B. injection B as <-.
    apply (dec_other_word s _ t (PA_role q) r (set_hi r 8)); sproj; auto; try (cbn; lia).
    rewrite Hpc. unfold rn_f, set_hi, mk; cbn [f_d f_mq f_hi phi]. rewrite Z.eqb_refl, H3.
    change (8 mod 2) with 0. change (3 mod 2) with 1. change (8 =? 0) with false. change (3 =? 0) with false. lia.
  - destruct (Z.eqb_spec ((f_hi r / 2) mod 2) 1) as [M3|M3].
    + assert (H2 : 2 <= f_hi r).
      { destruct (Z.le_gt_cases 2 (f_hi r)); [assumption|]. assert (f_hi r / 2 = 0) by (apply Z.div_small; lia).
        rewrite H0 in M3. discriminate. }
      assert (W2 : wfr (set_hi r (f_hi r - 2))) by (apply set_hi_wf; [assumption|lia]).
      rewrite (xor_needs_activation r (set_hi r (f_hi r - 2)) g_wf0 W2) in B.
      assert (E1 : f_hi (set_hi r (f_hi r - 2)) = f_hi r - 2) by reflexivity.
      rewrite E1, hi_par_sub2, xorb_nilpotent in B.
      assert (Fin : forall p', phi p' = 0 -> Phi L (set_pc (set_st s (enc (set_hi r (f_hi r - 2)))) t p') + 1 <= Phi L s).
      { intros p' Hp. apply (dec_other_word s _ t p' r (set_hi r (f_hi r - 2))); sproj; auto; try (cbn; lia).
        rewrite Hpc, Hp. unfold rn_f, set_hi, mk; cbn [f_d f_mq f_hi phi]. rewrite mod2_sub2, Z.eqb_refl.
        destruct (f_hi r - 2 =? 0); destruct (f_hi r =? 0); lia. }
      destruct (suspended_word _); injection B as <-; apply Fin; reflexivity.
    + injection B as <-. apply (dec_other_simple s _ t Idle); sproj; auto. rewrite Hpc. cbn [phi]. lia.
Qed.

Lemma dec_arole c s t q s' : Inv c s -> In t L -> pcs s t = PA_role q -> gstep c s t = Some s' -> Phi L s' + 1 <= Phi L s.
Proof.
  intros I Hin Hpc B. unfold gstep in B. rewrite Hpc in B. pose proof I as [[r G] T].
  pose proof (not_holder s t (T t)) as K. rewrite Hpc in K. specialize (K eq_refl).
  pose proof (g_enc _ s r G) as g_enc0. pose proof (g_wf _ s r G) as g_wf0.
  pose proof g_wf0 as W. unfold wfr in W.
  assert (Rb : 0 <= role_bits c < 2) by (unfold role_bits; destruct (canon c); lia).
  rewrite g_enc0 in B. rewrite (inherit_fields r (role_bits c) g_wf0) in B by lia.
  destruct (Z.eqb_spec (f_role r) (role_bits c)) as [E|E].
  - injection B as <-. apply (dec_other_simple s _ t (PA_inst q)); sproj; auto. rewrite Hpc. cbn [phi]. lia.
  - injection B as <-.
    assert (W' : wfr (set_role r (role_bits c))) by (apply set_role_wf; [assumption|lia]).
    apply (dec_other_word s _ t (PA_inst q) r (set_role r (role_bits c))); sproj; auto; try (cbn; lia).
    rewrite Hpc. unfold rn_f, set_role, mk; cbn [f_d f_mq f_hi phi]. rewrite Z.eqb_refl.
    destruct (f_hi r =? 0); lia.
Qed.

(* ---------------------------------------------------------------- the holder's steps on dq_state *)
Lemma dec_wlock c s t fl s' : Inv c s -> In t L -> pcs s t = PW_lock fl -> gstep c s t = Some s' -> Phi L s' + 1 <= Phi L s.
Proof.
  intros I Hin Hpc B. unfold gstep in B. rewrite Hpc in B. pose proof I as [[r G] T].
  pose proof (holder s t (T t)) as K. rewrite Hpc in K. specialize (K eq_refl).
  pose proof (g_enc _ s r G) as g_enc0. pose proof (g_wf _ s r G) as g_wf0. pose proof (g_lock _ s r G) as g_lock0.
  pose proof (g_enq _ s r G) as g_enq0. pose proof (g_em _ s r G) as g_em0.
  rewrite K, Hpc in g_lock0. cbn [locked_pc] in g_lock0.
  destruct g_lock0 as [Vt (O & Ib & Wq)]. pose proof g_wf0 as W. unfold wfr in W.
  assert (En : f_enq r = 1) by (apply g_enq0; rewrite K; discriminate).
  rewrite g_enc0 in B. rewrite (lock_fields r t fl 0 g_wf0 Vt) in B.
  pose proof (mqv_enc s r g_enc0 g_wf0) as Ms.
  destruct (lock_free r) eqn:LF.
  - assert (H0 : f_hi r = 0).
    { unfold lock_free in LF. rewrite !andb_true_iff in LF. destruct LF as [_ LF]. apply Z.eqb_eq in LF. exact LF. }
    destruct ((f_role r mod 2 =? 1) && (fl <? f_mq r)) eqn:OV.
    + injection B as <-. apply andb_true_iff in OV. destruct OV as [_ OV].
      apply (dec_holder_simple s _ t (PW_lock (f_dq_state_max_qos (enc r)))); sproj; auto.
      rewrite Hpc. cbn [phi hcost]. rewrite Ms, OV, max_qos_f by exact g_wf0. rewrite Z.ltb_irrefl. lia.
    + rewrite En, Wq in B. rewrite OWN_from_lock in B. change (OWN =? 0) with false in B. cbv iota in B. injection B as <-.
      set (r' := mk t 0 1 (f_mq r) 0 (f_role r) 0 0 0 4096 1 0) in *.
      assert (W' : wfr r') by (subst r'; apply wfr_mk; unfold valid_tid in Vt; lia).
      match goal with |- Phi L ?s1 + 1 <= _ => set (s' := s1) end.
      assert (Ep : pcs s' = upd (pcs s) t (PW_inst OWN)) by reflexivity.
      assert (Es : st s' = enc r') by reflexivity.
      rewrite (Phi_step L s s' t _ ND Hin Ep). change (rootq s') with (rootq s).
      rewrite (na_enc s r g_enc0 g_wf0), (na_enc s' r' Es W'), H0.
      rewrite (hterm_holder s t K), Hpc. rewrite (hterm_holder s' t) by exact K. rewrite Ep, upd_same.
      cbn [phi hcost]. rewrite (dbit_enc s' r' Es W'). subst r'. unfold mk; cbn [f_d f_hi].
      change (0 mod 2) with 0. destruct (fl <? mqv s); lia.
  - change (0 =? 0) with true in B. cbv iota in B. injection B as <-.
    set (r' := mk (f_owner r) (f_tr r) (1 - f_enq r) (f_mq r) (f_ov r) (f_role r) (f_em r) (f_d r) (f_pb r) (f_wq r) (f_ib r) (f_hi r)) in *.
    assert (W' : wfr r') by (subst r'; apply wfr_mk; lia).
    match goal with |- Phi L ?s1 + 1 <= _ => set (s' := s1) end.
    assert (Ep : pcs s' = upd (pcs s) t Idle) by reflexivity.
    assert (Es : st s' = enc r') by reflexivity.
    rewrite (Phi_step L s s' t _ ND Hin Ep). change (rootq s') with (rootq s).
    rewrite (na_enc s r g_enc0 g_wf0), (na_enc s' r' Es W').
    rewrite (hterm_holder s t K), Hpc. rewrite (hterm_free s') by (left; reflexivity).
    cbn [phi hcost]. subst r'. unfold mk; cbn [f_hi]. destruct (fl <? mqv s); lia.
Qed.

Lemma dec_wunlock c s t o s' : Inv c s -> In t L -> pcs s t = PW_unlock o -> gstep c s t = Some s' -> Phi L s' + 1 <= Phi L s.
Proof.
  intros I Hin Hpc B. unfold gstep in B. rewrite Hpc in B.
  assert (o = OWN) by (apply (owned_is_OWN c s t); [exact I | rewrite Hpc; reflexivity]). subst o.
  pose proof I as [[r G] T].
  pose proof (holder s t (T t)) as K. rewrite Hpc in K. specialize (K eq_refl).
  pose proof (g_enc _ s r G) as g_enc0. pose proof (g_wf _ s r G) as g_wf0. pose proof (g_lock _ s r G) as g_lock0.
  pose proof (g_enq _ s r G) as g_enq0.
  rewrite K, Hpc in g_lock0. cbn [locked_pc] in g_lock0.
  destruct g_lock0 as [Vt (O & Ib & Wq)]. pose proof g_wf0 as W. unfold wfr in W.
  assert (En : f_enq r = 1) by (apply g_enq0; rewrite K; discriminate).
  rewrite g_enc0 in B.
  change OWN with (18014398509481984 + 2199023255552 + 2147483648 * 1) in B.
  pose proof (dbit_enc s r g_enc0 g_wf0) as Ds.
  assert (Rel : forall r', wfr r' -> f_hi r' mod 2 = f_hi r mod 2 ->
                Phi L (set_token (set_pc (set_st s (enc r')) t Idle) None) + 1 <= Phi L s).
  { intros r' W' Eh.
    match goal with |- Phi L ?s1 + 1 <= _ => set (s2 := s1) end.
    assert (Ep : pcs s2 = upd (pcs s) t Idle) by reflexivity.
    assert (Es : st s2 = enc r') by reflexivity.
    rewrite (Phi_step L s s2 t _ ND Hin Ep). change (rootq s2) with (rootq s).
    rewrite (na_enc s r g_enc0 g_wf0), (na_enc s2 r' Es W'), Eh.
    rewrite (hterm_holder s t K), Hpc. rewrite (hterm_free s2) by (left; reflexivity).
    cbn [phi hcost]. pose proof (dbit_range s). lia. }
  destruct (Z.eqb_spec (f_hi r) 0) as [H0|H0].
  - rewrite (unlock_fields r 1 g_wf0 H0 Ib Wq) in B by lia.
    destruct (Z.eqb_spec (f_d r) 1) as [D|D].
    + injection B as <-. change (18014398509481984 + 2199023255552 + 2147483648 * 1) with OWN.
      apply (dec_holder_simple s _ t (PW_xor OWN)); sproj; auto. rewrite Hpc. cbn [phi hcost]. rewrite Ds, D. lia.
    + injection B as <-. apply Rel; [apply wfr_mk; lia | unfold mk; cbn [f_hi]; rewrite H0; reflexivity].
  - assert (Hh : 0 < f_hi r) by lia.
    rewrite (unlock_fields_susp r 1 g_wf0 Hh Ib Wq) in B by lia. injection B as <-.
    apply Rel; [apply wfr_mk; lia | reflexivity].
Qed.

Lemma dec_wxor c s t o s' : Inv c s -> In t L -> pcs s t = PW_xor o -> gstep c s t = Some s' -> Phi L s' + 1 <= Phi L s.
Proof.
  intros I Hin Hpc B. unfold gstep in B. rewrite Hpc in B. injection B as <-.
  pose proof I as [[r G] T].
  pose proof (holder s t (T t)) as K. rewrite Hpc in K. specialize (K eq_refl).
  pose proof (g_enc _ s r G) as g_enc0. pose proof (g_wf _ s r G) as g_wf0.
  pose proof g_wf0 as W. unfold wfr in W.
  unfold DIRTY. rewrite g_enc0. rewrite (xor_dirty_fields r g_wf0).
  set (r' := mk (f_owner r) (f_tr r) (f_enq r) (f_mq r) (f_ov r) (f_role r) (f_em r) (1 - f_d r) (f_pb r) (f_wq r) (f_ib r) (f_hi r)).
  assert (W' : wfr r') by (subst r'; apply wfr_mk; lia).
  set (p' := if troot c then PW_susp o else PW_fin o).
  match goal with |- Phi L ?s1 + 1 <= _ => set (s' := s1) end.
  assert (Ep : pcs s' = upd (pcs s) t p') by reflexivity.
  assert (Es : st s' = enc r') by reflexivity.
  rewrite (Phi_step L s s' t _ ND Hin Ep). change (rootq s') with (rootq s).
  rewrite (na_enc s r g_enc0 g_wf0), (na_enc s' r' Es W').
  rewrite (hterm_holder s t K), Hpc. rewrite (hterm_holder s' t) by exact K. rewrite Ep, upd_same.
  pose proof (dbit_enc s r g_enc0 g_wf0) as Ds. pose proof (dbit_enc s' r' Es W') as Ds'. pose proof (rn_range s').
  assert (Fd : f_d r' = 1 - f_d r) by reflexivity. assert (Fh : f_hi r' = f_hi r) by reflexivity.
  subst p'. destruct (troot c); cbn [phi hcost]; rewrite ?Ds, ?Ds', ?Fd, ?Fh; lia.
Qed.

Lemma dec_wfin c s t o s' : Inv c s -> In t L -> pcs s t = PW_fin o -> gstep c s t = Some s' -> Phi L s' + 1 <= Phi L s.
Proof.
  intros I Hin Hpc B. unfold gstep in B. rewrite Hpc in B.
  assert (o = OWN) by (apply (owned_is_OWN c s t); [exact I | rewrite Hpc; reflexivity]). subst o.
  pose proof I as [[r G] T].
  pose proof (holder s t (T t)) as K. rewrite Hpc in K. specialize (K eq_refl).
  pose proof (g_enc _ s r G) as g_enc0. pose proof (g_wf _ s r G) as g_wf0. pose proof (g_lock _ s r G) as g_lock0.
  pose proof (g_enq _ s r G) as g_enq0. pose proof (g_em _ s r G) as g_em0.
  rewrite K, Hpc in g_lock0. cbn [locked_pc] in g_lock0.
  destruct g_lock0 as [Vt (O & Ib & Wq)]. pose proof g_wf0 as W. unfold wfr in W.
  assert (En : f_enq r = 1) by (apply g_enq0; rewrite K; discriminate).
  rewrite g_enc0 in B. unfold ENQUEUED in B.
  change OWN with (18014398509481984 + 2199023255552 + 2147483648 * 1) in B.
  rewrite (finish_fields r 1 g_wf0 Ib Wq) in B by lia.
  rewrite (sub_owned r 1 g_wf0 Ib Wq) in B by lia.
  set (e' := if (f_hi r =? 0) && (f_enq r - 1 =? 0) && (f_em r =? 0) then 1 else f_enq r - 1) in *.
  assert (He' : e' = if f_hi r =? 0 then 1 else 0).
  { subst e'. rewrite En, g_em0. cbn [Z.sub Z.eqb andb Z.add Z.opp Z.pos_sub]. destruct (f_hi r =? 0); reflexivity. }
  set (r' := mk 0 0 e' (f_mq r) 0 (f_role r) (f_em r) 1 (f_pb r) 4095 0 (f_hi r)) in *.
  assert (W' : wfr r') by (subst r'; apply wfr_mk; try lia; rewrite He'; destruct (f_hi r =? 0); lia).
  assert (Wu : wfr (unown r 1)) by (apply unown_wf; [assumption|lia]).
  rewrite (xor_enqueued (unown r 1) r' Wu W') in B.
  assert (E1 : f_enq (unown r 1) = 0) by (unfold unown, mk; cbn [f_enq]; lia).
  assert (E2 : f_enq r' = e') by reflexivity.
  rewrite E1, E2, He' in B. cbn [Z.eqb xorb] in B.
  pose proof (rn_enc s r g_enc0 g_wf0) as Rs. unfold rn_f in Rs.
  destruct (Z.eqb_spec (f_hi r) 0) as [H0|H0]; cbn [Z.eqb xorb] in B; injection B as <-.
  - match goal with |- Phi L ?s1 + 1 <= _ => set (s' := s1) end.
    assert (Ep : pcs s' = upd (pcs s) t PS_rootpush) by reflexivity.
    assert (Es : st s' = enc r') by reflexivity.
    rewrite (Phi_step L s s' t _ ND Hin Ep). change (rootq s') with (rootq s).
    rewrite (na_enc s r g_enc0 g_wf0), (na_enc s' r' Es W').
    rewrite (hterm_holder s t K), Hpc. rewrite (hterm_holder s' t) by exact K. rewrite Ep, upd_same.
    cbn [phi hcost]. rewrite Rs. assert (Fh : f_hi r' = f_hi r) by reflexivity. rewrite Fh. lia.
  - match goal with |- Phi L ?s1 + 1 <= _ => set (s' := s1) end.
    assert (Ep : pcs s' = upd (pcs s) t Idle) by reflexivity.
    assert (Es : st s' = enc r') by reflexivity.
    rewrite (Phi_step L s s' t _ ND Hin Ep). change (rootq s') with (rootq s).
    rewrite (na_enc s r g_enc0 g_wf0), (na_enc s' r' Es W').
    rewrite (hterm_holder s t K), Hpc. rewrite (hterm_free s') by (left; reflexivity).
    cbn [phi hcost]. rewrite Rs. assert (Fh : f_hi r' = f_hi r) by reflexivity. rewrite Fh. lia.
Qed.

(* ---------------------------------------------------------------- every step pays *)
Theorem step_decreases c s t s' : Inv c s -> In t L -> gstep c s t = Some s' -> Phi L s' + 1 <= Phi L s.
Proof.
  intros I Hin B. destruct (pcs s t) eqn:Hpc; try (unfold gstep in B; rewrite Hpc in B; discriminate).
  - exact (dec_mflags c s t v q s' I Hin Hpc B).
  - exact (dec_mop c s t v q s' I Hin Hpc B).
  - exact (dec_sflags c s t q s' I Hin Hpc B).
  - exact (dec_spend c s t q s' I Hin Hpc B).
  - exact (dec_swake c s t q s' I Hin Hpc B).
  - exact (dec_rootpush c s t s' I Hin Hpc B).
  - exact (dec_cset c s t q s' I Hin Hpc B).
  - exact (dec_urmw c s t s' I Hin Hpc B).
  - exact (dec_rrmw c s t q s' I Hin Hpc B).
  - exact (dec_rflags c s t q s' I Hin Hpc B).
  - exact (dec_rpend c s t q s' I Hin Hpc B).
  - exact (dec_rwake c s t q s' I Hin Hpc B).
  - exact (dec_armw c s t q s' I Hin Hpc B).
  - exact (dec_arole c s t q s' I Hin Hpc B).
  - exact (dec_ainst c s t q s' I Hin Hpc B).
  - exact (dec_wlock c s t floor s' I Hin Hpc B).
  - exact (dec_winst c s t owned s' I Hin Hpc B).
  - exact (dec_wsusp c s t owned s' I Hin Hpc B).
  - exact (dec_wflags c s t owned s' I Hin Hpc B).
  - exact (dec_wpend c s t owned s' I Hin Hpc B).
  - exact (dec_wlatch c s t owned s' I Hin Hpc B).
  - exact (dec_wcall c s t owned prev s' I Hin Hpc B).
  - exact (dec_wincall c s t owned s' I Hin Hpc B).
  - exact (dec_wpost c s t owned s' I Hin Hpc B).
  - exact (dec_wpost2 c s t owned s' I Hin Hpc B).
  - exact (dec_wunlock c s t owned s' I Hin Hpc B).
  - exact (dec_wxor c s t owned s' I Hin Hpc B).
  - exact (dec_wfin c s t owned s' I Hin Hpc B).
Qed.

(* a worker of the target queue picking the source up pays too (the source leaves the queue) *)
Theorem begin_worker_decreases c s t f s' : Inv c s -> In t L -> begin s t (CWorker f) = Some s' -> Phi L s' + 1 <= Phi L s.
Proof.
  intros [[r G] T] Hin B. unfold begin in B. destruct (pcs s t) eqn:Hpc; try discriminate.
  destruct (0 <? rootq s) eqn:R; [|discriminate]. injection B as <-. apply Z.ltb_lt in R.
  pose proof (g_rootq _ s r G) as Rq.
  assert (K : token s = Some None) by (destruct (token s) as [[w|]|]; try lia; reflexivity).
  match goal with |- Phi L ?s1 + 1 <= _ => set (s' := s1) end.
  assert (Ep : pcs s' = upd (pcs s) t (PW_lock f)) by reflexivity.
  assert (Es : st s' = st s) by reflexivity.
  rewrite (Phi_step L s s' t _ ND Hin Ep), (na_same s s' Es). change (rootq s') with (rootq s - 1).
  rewrite (hterm_free s) by (right; exact K). pose proof (hterm_holder s' t eq_refl) as H. rewrite Ep, upd_same in H. rewrite H.
  rewrite Hpc. cbn [phi hcost]. destruct (f <? mqv s'); lia.
Qed.

(* what a client call (or a spurious wakeup) adds *)
Definition call_cost (k : call) : Z :=
  match k with
  | CMerge _ _ => 53 | CWorker _ => 0 | CSuspend => 1 | CResume _ => 70 | CActivate _ => 75 | CCancel _ => 35 | CWake _ => 34
  end.

Theorem begin_client_raises c s t k s' :
  Inv c s -> In t L -> (forall f, k <> CWorker f) -> begin s t k = Some s' -> Phi L s' = Phi L s + call_cost k.
Proof.
  intros [_ T] Hin NW B. unfold begin in B. destruct (pcs s t) eqn:Hpc; try discriminate.
  pose proof (not_holder s t (T t)) as K. rewrite Hpc in K. specialize (K eq_refl).
  assert (Gen : forall s1 p', pcs s1 = upd (pcs s) t p' -> st s1 = st s -> pend s1 = pend s -> rootq s1 = rootq s ->
                 token s1 = token s -> Phi L s1 = Phi L s + phi p').
  { intros s1 p' Ep Es Epe Er Ek. rewrite (Phi_step L s s1 t p' ND Hin Ep), Er, (na_same s s1 Es), Hpc.
    rewrite (hterm_same s s1 Ek); [cbn [phi]; lia | | exact Es | exact Epe].
    intros w E. rewrite Ep. apply upd_other. congruence. }
  destruct k as [v q|f| |q|q|q|q]; try (exfalso; apply (NW f); reflexivity);
    try (destruct (qos_ok q); [|discriminate]); injection B as <-; cbn [call_cost].
  - apply (Gen _ (PM_flags (u64 v) q)); reflexivity.
  - apply (Gen _ PU_rmw); reflexivity.
  - apply (Gen _ (PR_rmw q)); reflexivity.
  - apply (Gen _ (PA_rmw q)); reflexivity.
  - apply (Gen _ (PC_set q)); reflexivity.
  - apply (Gen _ (PS_wake q)); reflexivity.
Qed.

End Step.

(* ---------------------------------------------------------------- the bound on executions *)
Lemma Phi_nonneg c L s : Inv c s -> 0 <= Phi L s.
Proof.
  intros [[r G] _]. unfold Phi.
  pose proof (sumL_nonneg (fun u => phi (pcs s u)) L (fun u => proj1 (phi_range (pcs s u)))).
  pose proof (hterm_range s). pose proof (na_range s). pose proof (g_rootq _ s r G) as Rq.
  assert (0 <= rootq s) by (destruct (token s) as [[w|]|]; lia). lia.
Qed.

Definition act_tid (a : action) : Z := match a with ABegin t _ | AStep t => t end.
Definition act_valid (a : action) : bool := (0 <? act_tid a) && (act_tid a <? 1073741824).
Definition act_cost (a : action) : Z := match a with ABegin _ k => call_cost k | AStep _ => 0 end.
Definition is_client_begin (a : action) : bool :=
  match a with ABegin _ (CWorker _) => false | ABegin _ _ => true | AStep _ => false end.
Fixpoint budget (acts : list action) : Z := match acts with [] => 0 | a :: r => act_cost a + budget r end.
Fixpoint n_other (acts : list action) : Z :=
  match acts with [] => 0 | a :: r => (if is_client_begin a then 0 else 1) + n_other r end.

(* every action other than the start of a client call costs at least one unit of potential; a client call adds its cost *)
Theorem execution_bound c L : NoDup L -> forall acts s s',
  Inv c s -> forallb act_valid acts = true -> (forall a, In a acts -> In (act_tid a) L) ->
  run c s acts = Some s' ->
  Inv c s' /\ n_other acts <= Phi L s - Phi L s' + budget acts.
Proof.
  intros ND. induction acts as [|a acts IH]; intros s s' I V Hin E.
  - cbn [run] in E. injection E as <-. cbn [n_other budget]. split; [exact I | lia].
  - cbn [forallb] in V. apply andb_true_iff in V. destruct V as [Va V].
    assert (Vt : valid_tid (act_tid a)).
    { unfold act_valid in Va. apply andb_true_iff in Va. destruct Va as [A B]. apply Z.ltb_lt in A. apply Z.ltb_lt in B. split; assumption. }
    assert (HinA : In (act_tid a) L) by (apply Hin; left; reflexivity).
    cbn [run] in E. cbn [n_other budget].
    destruct a as [t k|t]; cbn [act_tid] in *.
    + destruct (begin s t k) as [s1|] eqn:B; [|discriminate].
      assert (St : step c s (ABegin t k) s1) by (split; assumption).
      pose proof (step_preserves c s _ s1 I St) as I1.
      destruct (IH s1 s' I1 V (fun a Ha => Hin a (or_intror Ha)) E) as [I' Hb]. split; [exact I'|].
      destruct k as [v q|f| |q|q|q|q]; cbn [is_client_begin act_cost].
      2: { pose proof (begin_worker_decreases L ND c s t f s1 I HinA B). cbn [call_cost]. lia. }
      all: match goal with |- context [call_cost ?k] =>
             pose proof (begin_client_raises L ND c s t k s1 I HinA ltac:(intros f0; discriminate) B) end; lia.
    + destruct (gstep c s t) as [s1|] eqn:B; [|discriminate].
      assert (St : step c s (AStep t) s1) by (split; assumption).
      pose proof (step_preserves c s _ s1 I St) as I1.
      destruct (IH s1 s' I1 V (fun a Ha => Hin a (or_intror Ha)) E) as [I' Hb]. split; [exact I'|].
      cbn [is_client_begin act_cost]. pose proof (step_decreases L ND c s t s1 I HinA B). lia.
Qed.

(* in particular from any reachable state: the number of steps that do not start a client call is bounded *)
Corollary no_livelock c L rb s acts s' :
  NoDup L -> 0 <= rb < 2 -> reach c rb s -> forallb act_valid acts = true -> (forall a, In a acts -> In (act_tid a) L) ->
  run c s acts = Some s' -> n_other acts <= Phi L s + budget acts.
Proof.
  intros ND Hrb R V Hin E.
  destruct (execution_bound c L ND acts s s' (Inv_reachable c rb s Hrb R) V Hin E) as [I' Hb].
  pose proof (Phi_nonneg c L s' I'). lia.
Qed.

(* ... and where such an execution ends: when no thread is inside a call or a drain and the source does not sit in its
   target queue (no worker can start), an uncancelled unsuspended source has nothing pending, nothing latched, and
   (add_conservation, or_union, replace_spec) everything merged has been delivered *)
Theorem terminal_all_delivered c rb s :
  0 <= rb < 2 -> reach c rb s -> quiescent s -> rootq s = 0 -> cancelled s = false -> suspended_word (st s) = false ->
  pend s = 0 /\ latched s = 0 /\ running s = None.
Proof.
  intros Hrb R Q Z0 C S. pose proof (Inv_reachable c rb s Hrb R) as I.
  split; [|exact (quiescent_unlatched c s I Q)].
  destruct (Z.eq_dec (pend s) 0) as [P|P]; [exact P|].
  destruct (not_stranded c rb s Hrb R Q P C S) as [R1 _]. lia.
Qed.
