(* C02 — serial queues run one item at a time, in submission order.
   Protocol theorems for one serial lane under dispatch_async from any number of threads and any number of
   drainers, every interleaving (Model/SLane.v; the dq_state transitions are the bodies regenerated from the
   source).  Item ids are issued by the tail exchange inside the submission call (0,1,2,... in exchange order): if
   A's submission returned before B's began, or one thread submitted A then B, A's exchange precedes B's, hence
   id A < id B.  `_partial`: synchronous submission (fast path and waiter hand-off), the main queue and
   dispatch_async_and_wait are not in this model (see SyncWait / the stress oracle). *)
From Coq Require Import ZArith Bool List.
From Verif Require Import Word Conc SLane SLane_proofs SLane_progress SLane_realtime.
Import ListNotations.
Local Open Scope Z_scope.

(* never two callouts at once *)
Theorem C02_slane_callouts_exclusive_partial : forall rb s t1 t2 o1 i1 m1 o2 i2 m2,
  0 <= rb < 2 -> reach rb s -> pcs s t1 = PW_incall o1 i1 m1 -> pcs s t2 = PW_incall o2 i2 m2 ->
  t1 = t2 /\ i1 = i2 /\ running s = Some (t1, i1).
Proof. exact callouts_exclusive. Qed.
Print Assumptions C02_slane_callouts_exclusive_partial.

(* the whole drain region is exclusive *)
Theorem C02_slane_lock_exclusive_partial : forall rb s t1 t2,
  0 <= rb < 2 -> reach rb s -> locked_pc (pcs s t1) = true -> locked_pc (pcs s t2) = true -> t1 = t2.
Proof. exact lock_exclusive. Qed.
Print Assumptions C02_slane_lock_exclusive_partial.

(* FIFO: the k-th callout to begin is the item with id k *)
Theorem C02_slane_fifo_partial : forall rb s k,
  0 <= rb < 2 -> reach rb s -> (k < length (started s))%nat -> nth k (rev (started s)) (-1) = Z.of_nat k.
Proof. exact kth_started_is_k. Qed.
Print Assumptions C02_slane_fifo_partial.

(* real-time reading of FIFO (ghost history added on top of the unchanged steps, Proofs/SLane_realtime.v): `pre h b` is the
   set of items whose dispatch_async call had RETURNED when b's call exchanged the tail (so it contains every item
   whose submission returned before b's submission began, and every earlier submission of b's own thread).  All of them
   are older than b ... *)
Theorem C02_slane_realtime_order_partial : forall rb s h a b,
  0 <= rb < 2 -> xreach rb s h -> In a (pre h b) -> a < b.
Proof. exact realtime_order. Qed.
Print Assumptions C02_slane_realtime_order_partial.
(* ... hence their callouts begin earlier (and, callouts being exclusive, have ended when b's begins) *)
Theorem C02_slane_realtime_fifo_partial : forall rb s h a b ka kb,
  0 <= rb < 2 -> xreach rb s h -> In a (pre h b) ->
  (ka < length (started s))%nat -> (kb < length (started s))%nat ->
  nth ka (rev (started s)) (-1) = a -> nth kb (rev (started s)) (-1) = b -> (ka < kb)%nat.
Proof. exact realtime_fifo. Qed.
Print Assumptions C02_slane_realtime_fifo_partial.
(* the ghost `pre` of an item is exactly the set of returned calls at its tail exchange *)
Theorem C02_slane_pre_is_returned_partial : forall rb s h t q s',
  xreach rb s h -> valid_tid t -> pcs s t = PA_xchg q -> gstep s t = Some s' ->
  pre (hstep s (AStep t) s' h) (nextid s) = returned h.
Proof. exact returned_is_recorded. Qed.
Print Assumptions C02_slane_pre_is_returned_partial.

(* "A finishes before B starts": at the step at which a callout begins no callout of the lane is running, so every item
   started before has ended; and at any time every started item other than the most recent has ended *)
Theorem C02_slane_start_finds_nothing_running_partial : forall rb s t o b m,
  0 <= rb < 2 -> reach rb s -> pcs s t = PW_run o b m -> running s = None /\ forall a, In a (started s) -> finished s a.
Proof. exact start_finds_nothing_running. Qed.
Print Assumptions C02_slane_start_finds_nothing_running_partial.
Theorem C02_slane_earlier_started_have_finished_partial : forall rb s b rest a,
  0 <= rb < 2 -> reach rb s -> started s = b :: rest -> In a rest -> finished s a.
Proof. exact earlier_started_have_finished. Qed.
Print Assumptions C02_slane_earlier_started_have_finished_partial.
(* program order: when a thread's next dispatch_async exchanges the tail, the item of its previous dispatch_async (cur h t,
   -1 if none) is in `pre` of the new item: so it is older (realtime_order), started earlier (realtime_fifo) and has ended *)
Theorem C02_slane_same_thread_order_partial : forall rb s h t q s',
  0 <= rb < 2 -> xreach rb s h -> valid_tid t -> pcs s t = PA_xchg q -> gstep s t = Some s' ->
  cur h t = -1 \/ In (cur h t) (pre (hstep s (AStep t) s' h) (nextid s)).
Proof. exact same_thread_order. Qed.
Print Assumptions C02_slane_same_thread_order_partial.
