(* C13 — dispatch_data objects behave as immutable byte strings.
   Model: Model/Data.v (hand model of src/data.c, tied by lib/props/c13.py).  wf = the representation invariant of
   data.c:23-93; `built` = every object obtainable by any tree of create/concat/subrange/map/copy_region/flatten.
   All offsets, lengths and locations range over the whole of size_t (0 <= x < 2^64). *)
From Coq Require Import ZArith List Bool.
From Verif Require Import Word Data Data_proofs.
Import ListNotations.
Local Open Scope Z_scope.

(* the invariant holds for every object of every operation tree (any depth, any fragmentation) *)
Theorem C13_invariant_all_trees : forall d, built d -> wf d.
Proof. exact built_wf. Qed.
Print Assumptions C13_invariant_all_trees.

(* dispatch_data_get_size = length of the byte string *)
Theorem C13_size_is_length : forall d, wf d -> size d = Z.of_nat (length (denote d)).
Proof. exact size_denote. Qed.
Print Assumptions C13_size_is_length.

(* dispatch_data_create_concat = concatenation, invariant kept, sizes add up ... *)
Theorem C13_concat : forall fresh a b d, wf a -> wf b -> concat fresh a b = Some d -> denote d = denote a ++ denote b.
Proof. exact denote_concat. Qed.
Print Assumptions C13_concat.
Theorem C13_concat_wf : forall fresh a b d, wf a -> wf b -> fresh <> EMPTY_ID -> concat fresh a b = Some d ->
  wf d /\ size d = size a + size b.
Proof. exact wf_concat. Qed.
Print Assumptions C13_concat_wf.
(* ... and an object is returned exactly when the total fits in size_t (otherwise NULL, never a wrapped size) *)
Theorem C13_concat_total : forall fresh a b, wf a -> wf b ->
  (size a + size b < M64 -> exists d, concat fresh a b = Some d) /\
  (size a <> 0 -> size b <> 0 -> M64 <= size a + size b -> concat fresh a b = None).
Proof. exact concat_total. Qed.
Print Assumptions C13_concat_total.

(* dispatch_data_create_subrange = the clamped slice, for EVERY offset and length in size_t (firstn/skipn clamp):
   never faults, never crashes, result well-formed *)
Theorem C13_subrange : forall fresh d off len, wf d -> fresh <> EMPTY_ID -> 0 <= off < M64 -> 0 <= len < M64 ->
  exists d', subrange fresh d off len = Some d' /\ wf d' /\
             denote d' = firstn (Z.to_nat len) (skipn (Z.to_nat off) (denote d)).
Proof. exact subrange_spec. Qed.
Print Assumptions C13_subrange.

(* dispatch_data_create_map: the bytes readable through the returned pointer are the byte string; the returned
   object is the same object or a new leaf holding a copy *)
Theorem C13_map : forall fresh d, wf d -> fresh <> EMPTY_ID ->
  exists d', map_bytes fresh d = Some (d', denote d) /\ wf d' /\ denote d' = denote d /\
             (d' = d \/ d' = DLeaf (mkLeaf fresh (denote d))).
Proof. exact map_spec. Qed.
Print Assumptions C13_map.

(* dispatch_data_apply: the regions are non-empty, consecutive from offset 0, concatenate to the byte string; an
   applier f sees them in order up to and including the first one where it returns false, and the result is the
   conjunction of its answers *)
Theorem C13_apply_tiles : forall d, wf d ->
  exists gs, regions d = Some gs /\ tiles 0 gs /\ List.concat (List.map g_bytes gs) = denote d /\
    forall f, apply d f = Some (forallb f gs, take_until f gs).
Proof. exact apply_spec. Qed.
Print Assumptions C13_apply_tiles.

(* dispatch_data_copy_region: the region containing the location, with its offset; location >= size: empty at size *)
Theorem C13_copy_region : forall fresh d loc, wf d -> fresh <> EMPTY_ID -> 0 <= loc < M64 ->
  exists r off, copy_region fresh d loc = Some (r, off) /\ wf r /\
    (size d <= loc -> r = empty /\ off = size d) /\
    (loc < size d -> off <= loc < off + size r /\
                     denote r = firstn (Z.to_nat (size r)) (skipn (Z.to_nat off) (denote d))).
Proof. exact copy_region_spec. Qed.
Print Assumptions C13_copy_region.

(* none of these ever reads or writes outside a block, nor reaches DISPATCH_INTERNAL_CRASH: every memory access of
   the model goes through Data.read / Data.write, which return None outside the block *)
Theorem C13_no_read_outside : forall fresh d off len loc f, wf d -> fresh <> EMPTY_ID ->
  0 <= off < M64 -> 0 <= len < M64 -> 0 <= loc < M64 ->
  subrange fresh d off len <> None /\ apply d f <> None /\ regions d <> None /\ map_bytes fresh d <> None /\
  copy_region fresh d loc <> None.
Proof. exact no_fault. Qed.
Print Assumptions C13_no_read_outside.

(* OWNERSHIP.  Full statement (NOT proved, kept here as the goal):
     for every history of create / concat / subrange / map / copy_region / retain / release calls from st0 in which the
     client only passes objects it holds a reference to and uses never-used ids for new objects (legal histories), with
     held k = number of references the client holds on object k:
       (1) NoDup (dlog st)                                                        -- a destructor never runs twice;
       (2) In k (dlog st) -> held k = 0 /\ no live object has a record on leaf k   -- only after the object and everything
                                                                                     derived from it have been released;
       (3) (forall k, held k = 0) -> heap st = empty /\ dlog st is a permutation of the created leaves -- exactly once.
   The missing piece is the reference-count invariant  e_rc = held + number of records of live composites on the leaf
   (a counting argument over the heap; not done).  What IS proved: (1), together with "a destroyed buffer's object is gone",
   for every history whose steps use never-destroyed ids for new objects and never return a destroyed object
   (result_ok; for results that are new objects or the operand this follows from op_fresh_ok / liveness of the operand, for
   results that are a record's leaf it is exactly what the missing invariant would give).  (2),(3) and result_ok are
   covered by the correspondence runs only: destructor calls, their order and final counts are compared with the model and
   judged against provenance kept by the checker on every generated balanced history. *)
Theorem C13_destructor_at_most_once_partial : forall ops st',
  history_ok st0 ops -> run st0 ops = Some st' ->
  NoDup (dlog st') /\ forall k, In k (dlog st') -> heap st' k = None.
Proof. intros ops st'. exact (destructor_at_most_once ops st0 st' dinv_st0). Qed.
Print Assumptions C13_destructor_at_most_once_partial.

Example C13_nonvacuous :
  let a := DLeaf (mkLeaf 1 [10;11;12;13;14]) in
  let b := DLeaf (mkLeaf 2 [20;21;22]) in
  let c := DComp 3 false 8 [mkRec (mkLeaf 1 [10;11;12;13;14]) 0 5; mkRec (mkLeaf 2 [20;21;22]) 0 3] in
  concat 3 a b = Some c /\ built c /\ wf c /\ denote c = [10;11;12;13;14;20;21;22] /\
  (exists s, subrange 4 c 3 18446744073709551615 = Some s /\ built s /\ denote s = [13;14;20;21;22] /\ size s = 5) /\
  copy_region 5 c 6 = Some (b, 5) /\
  regions c = Some [mkRegion 1 0 [10;11;12;13;14]; mkRegion 2 5 [20;21;22]] /\
  (* a history: the buffers outlive their handles while the concatenation lives, then each destructor runs once *)
  (exists st1 st2, run st0 [OCreate 1 [10;11;12;13;14]; OCreate 2 [20;21;22]; OConcat 3 1 2; ORelease 1; ORelease 2] = Some st1 /\
     dlog st1 = [] /\ run st1 [ORelease 3] = Some st2 /\ dlog st2 = [1; 2] /\
     heap st2 1 = None /\ heap st2 2 = None /\ heap st2 3 = None).
Proof.
  cbv zeta.
  assert (Ha : built (DLeaf (mkLeaf 1 [10;11;12;13;14]))) by (apply b_leaf; [discriminate|discriminate|vm_compute; reflexivity]).
  assert (Hb : built (DLeaf (mkLeaf 2 [20;21;22]))) by (apply b_leaf; [discriminate|discriminate|vm_compute; reflexivity]).
  assert (Hc : built (DComp 3 false 8 [mkRec (mkLeaf 1 [10;11;12;13;14]) 0 5; mkRec (mkLeaf 2 [20;21;22]) 0 3]))
    by (eapply b_concat with (f := 3); [exact Ha|exact Hb|discriminate|vm_compute; reflexivity]).
  split; [vm_compute; reflexivity|]. split; [assumption|]. split; [apply built_wf; assumption|]. split; [vm_compute; reflexivity|].
  split; [|split; [vm_compute; reflexivity|split; [vm_compute; reflexivity|]]].
  2: { eexists. eexists. split; [vm_compute; reflexivity|]. split; [reflexivity|]. split; [vm_compute; reflexivity|].
       repeat split; reflexivity. }
  eexists. split; [vm_compute; reflexivity|]. split; [|split; vm_compute; reflexivity].
  eapply b_subrange with (f := 4) (off := 3) (len := 18446744073709551615); [exact Hc|discriminate| | |vm_compute; reflexivity];
    unfold M64; split; (vm_compute; congruence) || reflexivity.
Qed.

(* the hypothesis of C13_destructor_at_most_once_partial is satisfiable on a history that shares and destroys buffers *)
Example C13_history_nonvacuous :
  history_ok st0 [OCreate 1 [10;11;12;13;14]; OCreate 2 [20;21;22]; OConcat 3 1 2; OSubrange 4 3 5 3;
                  ORelease 1; ORelease 2; ORelease 3; ORelease 4].
Proof. cbv. intuition (try discriminate; try congruence). Qed.
