(* C13 — dispatch_data objects behave as immutable byte strings.
   Model: Model/Data.v (hand model of src/data.c, tied by lib/props/c13.py).  wf = the representation invariant of
   data.c:23-93; `built` = every object obtainable by any tree of create/concat/subrange/map/copy_region/flatten.
   All offsets, lengths and locations range over the whole of size_t (0 <= x < 2^64). *)
From Coq Require Import ZArith List Bool Lia Permutation.
From Verif Require Import Word Data Data_proofs.
Import ListNotations.
Local Open Scope Z_scope.

(* the invariant holds for every object of every operation tree (any depth, any fragmentation) *)
Theorem C13_invariant_all_trees : forall d, built d -> wf d.
Proof. exact built_wf. Qed.
Print Assumptions C13_invariant_all_trees.

(* dispatch_data_get_size = length of the byte string *)
Theorem C13_size_is_length : forall d, wf d -> size d = Z.of_nat (length (denote d)).
Proof. exact size_denote. Qed.
Print Assumptions C13_size_is_length.

(* dispatch_data_create_concat = concatenation, invariant kept, sizes add up ... *)
Theorem C13_concat : forall fresh a b d, wf a -> wf b -> concat fresh a b = Some d -> denote d = denote a ++ denote b.
Proof. exact denote_concat. Qed.
Print Assumptions C13_concat.
Theorem C13_concat_wf : forall fresh a b d, wf a -> wf b -> fresh <> EMPTY_ID -> concat fresh a b = Some d ->
  wf d /\ size d = size a + size b.
Proof. exact wf_concat. Qed.
Print Assumptions C13_concat_wf.
(* ... and an object is returned exactly when the total fits in size_t (otherwise NULL, never a wrapped size) *)
Theorem C13_concat_total : forall fresh a b, wf a -> wf b ->
  (size a + size b < M64 -> exists d, concat fresh a b = Some d) /\
  (size a <> 0 -> size b <> 0 -> M64 <= size a + size b -> concat fresh a b = None).
Proof. exact concat_total. Qed.
Print Assumptions C13_concat_total.

(* dispatch_data_create_subrange = the clamped slice, for EVERY offset and length in size_t (firstn/skipn clamp):
   never faults, never crashes, result well-formed *)
Theorem C13_subrange : forall fresh d off len, wf d -> fresh <> EMPTY_ID -> 0 <= off < M64 -> 0 <= len < M64 ->
  exists d', subrange fresh d off len = Some d' /\ wf d' /\
             denote d' = firstn (Z.to_nat len) (skipn (Z.to_nat off) (denote d)).
Proof. exact subrange_spec. Qed.
Print Assumptions C13_subrange.

(* dispatch_data_create_map: the bytes readable through the returned pointer are the byte string; the returned
   object is the same object or a new leaf holding a copy *)
Theorem C13_map : forall fresh d, wf d -> fresh <> EMPTY_ID ->
  exists d', map_bytes fresh d = Some (d', denote d) /\ wf d' /\ denote d' = denote d /\
             (d' = d \/ d' = DLeaf (mkLeaf fresh (denote d))).
Proof. exact map_spec. Qed.
Print Assumptions C13_map.

(* dispatch_data_apply: the regions are non-empty, consecutive from offset 0, concatenate to the byte string; an
   applier f sees them in order up to and including the first one where it returns false, and the result is the
   conjunction of its answers *)
Theorem C13_apply_tiles : forall d, wf d ->
  exists gs, regions d = Some gs /\ tiles 0 gs /\ List.concat (List.map g_bytes gs) = denote d /\
    forall f, apply d f = Some (forallb f gs, take_until f gs).
Proof. exact apply_spec. Qed.
Print Assumptions C13_apply_tiles.

(* dispatch_data_copy_region: the region containing the location, with its offset; location >= size: empty at size *)
Theorem C13_copy_region : forall fresh d loc, wf d -> fresh <> EMPTY_ID -> 0 <= loc < M64 ->
  exists r off, copy_region fresh d loc = Some (r, off) /\ wf r /\
    (size d <= loc -> r = empty /\ off = size d) /\
    (loc < size d -> off <= loc < off + size r /\
                     denote r = firstn (Z.to_nat (size r)) (skipn (Z.to_nat off) (denote d))).
Proof. exact copy_region_spec. Qed.
Print Assumptions C13_copy_region.

(* none of these ever reads or writes outside a block, nor reaches DISPATCH_INTERNAL_CRASH: every memory access of
   the model goes through Data.read / Data.write, which return None outside the block *)
Theorem C13_no_read_outside : forall fresh d off len loc f, wf d -> fresh <> EMPTY_ID ->
  0 <= off < M64 -> 0 <= len < M64 -> 0 <= loc < M64 ->
  subrange fresh d off len <> None /\ apply d f <> None /\ regions d <> None /\ map_bytes fresh d <> None /\
  copy_region fresh d loc <> None.
Proof. exact no_fault. Qed.
Print Assumptions C13_no_read_outside.

(* OWNERSHIP.  Histories of create / concat / subrange / map / copy_region / flatten / retain / release calls from the
   empty heap, with the client's bookkeeping (Data.gstate): g_held k = references the client holds on object k,
   g_created = buffers that were given a destructor.  glegal: the client is well-behaved, nothing else -- it passes only
   objects it holds (or the empty singleton), releases only references it holds, passes size_t arguments, and new
   objects get never-used identities (in C: new allocations).  grun = Some g: the calls returned objects (the only call
   that may return none is a concat whose total size does not fit in size_t).
   Proved through the reference-count invariant
       e_rc k = g_held k + number of records of live composites that point at k      (Data_proofs.GInv). *)

(* (1) a buffer's destructor runs only after the object and everything derived from it have been released: in every
   reachable state, a destroyed buffer's object is gone, the client holds no reference to it, and no live object has a
   record on it *)
Theorem C13_destructor_only_after_release : forall ops g, glegal g0 ops -> grun g0 ops = Some g ->
  forall k, In k (dlog (g_st g)) ->
    heap (g_st g) k = None /\ g_held g k = 0%nat /\
    (forall j e, heap (g_st g) j = Some e -> ~ In k (rids (e_obj e))).
Proof. exact destructor_only_after_release. Qed.
Print Assumptions C13_destructor_only_after_release.

(* the same, seen from the users: whatever the client holds is alive, and every record of a live object points at a
   live, undestroyed leaf holding exactly the bytes the record was made from (no use after free) *)
Theorem C13_live_while_referenced : forall ops g, glegal g0 ops -> grun g0 ops = Some g ->
  (forall k, (0 < g_held g k)%nat -> heap (g_st g) k <> None /\ ~ In k (dlog (g_st g))) /\
  (forall j e r, heap (g_st g) j = Some e -> In r (crecs (e_obj e)) ->
     ~ In (l_id (r_obj r)) (dlog (g_st g)) /\
     exists e', heap (g_st g) (l_id (r_obj r)) = Some e' /\ e_obj e' = DLeaf (r_obj r)).
Proof. exact live_while_referenced. Qed.
Print Assumptions C13_live_while_referenced.

(* (2) exactly once: no destructor runs twice, only created buffers are destroyed, and on every balanced history (the
   client has released all its references) the heap is empty and the destructor log is a permutation of the created
   buffers *)
Theorem C13_destructor_exactly_once : forall ops g, glegal g0 ops -> grun g0 ops = Some g ->
  NoDup (dlog (g_st g)) /\ NoDup (g_created g) /\
  (forall k, In k (dlog (g_st g)) -> In k (g_created g)) /\
  ((forall k, g_held g k = 0%nat) ->
     (forall k, heap (g_st g) k = None) /\ Permutation (g_created g) (dlog (g_st g))).
Proof. exact destructor_exactly_once. Qed.
Print Assumptions C13_destructor_exactly_once.

(* legal histories never fault: every live object of every reachable state satisfies the representation invariant
   (hence all the theorems above hold for every object a client can ever hold), and the next call of a well-behaved
   client returns an object unless it is a concatenation whose total size does not fit in size_t *)
Theorem C13_reachable_objects_wf_and_calls_return : forall ops g, glegal g0 ops -> grun g0 ops = Some g ->
  (forall k e, heap (g_st g) k = Some e -> wf (e_obj e)) /\
  (forall o, legal g o -> gstep g o = None ->
     exists f a b da db, o = OConcat f a b /\ get (g_st g) a = Some da /\ get (g_st g) b = Some db /\
       size da <> 0 /\ size db <> 0 /\ M64 <= size da + size db).
Proof. exact reachable_wf. Qed.
Print Assumptions C13_reachable_objects_wf_and_calls_return.

Example C13_nonvacuous :
  let a := DLeaf (mkLeaf 1 [10;11;12;13;14]) in
  let b := DLeaf (mkLeaf 2 [20;21;22]) in
  let c := DComp 3 false 8 [mkRec (mkLeaf 1 [10;11;12;13;14]) 0 5; mkRec (mkLeaf 2 [20;21;22]) 0 3] in
  concat 3 a b = Some c /\ built c /\ wf c /\ denote c = [10;11;12;13;14;20;21;22] /\
  (exists s, subrange 4 c 3 18446744073709551615 = Some s /\ built s /\ denote s = [13;14;20;21;22] /\ size s = 5) /\
  copy_region 5 c 6 = Some (b, 5) /\
  regions c = Some [mkRegion 1 0 [10;11;12;13;14]; mkRegion 2 5 [20;21;22]] /\
  (* a history: the buffers outlive their handles while the concatenation lives, then each destructor runs once *)
  (exists st1 st2, run st0 [OCreate 1 [10;11;12;13;14]; OCreate 2 [20;21;22]; OConcat 3 1 2; ORelease 1; ORelease 2] = Some st1 /\
     dlog st1 = [] /\ run st1 [ORelease 3] = Some st2 /\ dlog st2 = [1; 2] /\
     heap st2 1 = None /\ heap st2 2 = None /\ heap st2 3 = None).
Proof.
  cbv zeta.
  assert (Ha : built (DLeaf (mkLeaf 1 [10;11;12;13;14]))) by (apply b_leaf; [discriminate|discriminate|vm_compute; reflexivity]).
  assert (Hb : built (DLeaf (mkLeaf 2 [20;21;22]))) by (apply b_leaf; [discriminate|discriminate|vm_compute; reflexivity]).
  assert (Hc : built (DComp 3 false 8 [mkRec (mkLeaf 1 [10;11;12;13;14]) 0 5; mkRec (mkLeaf 2 [20;21;22]) 0 3]))
    by (eapply b_concat with (f := 3); [exact Ha|exact Hb|discriminate|vm_compute; reflexivity]).
  split; [vm_compute; reflexivity|]. split; [assumption|]. split; [apply built_wf; assumption|]. split; [vm_compute; reflexivity|].
  split; [|split; [vm_compute; reflexivity|split; [vm_compute; reflexivity|]]].
  2: { eexists. eexists. split; [vm_compute; reflexivity|]. split; [reflexivity|]. split; [vm_compute; reflexivity|].
       repeat split; reflexivity. }
  eexists. split; [vm_compute; reflexivity|]. split; [|split; vm_compute; reflexivity].
  eapply b_subrange with (f := 4) (off := 3) (len := 18446744073709551615); [exact Hc|discriminate| | |vm_compute; reflexivity];
    unfold M64; split; (vm_compute; congruence) || reflexivity.
Qed.

(* the hypotheses of the ownership theorems are satisfiable on a balanced history that shares and destroys buffers *)
Example C13_history_nonvacuous :
  let ops := [OCreate 1 [10;11;12;13;14]; OCreate 2 [20;21;22]; OConcat 3 1 2; OSubrange 4 3 5 3; OCopyRegion 5 3 1;
              OSubrange 6 3 2 4; ORelease 1; ORelease 2; ORelease 3; ORetain 6; ORelease 2; ORelease 1; ORelease 6; ORelease 6] in
  (* call 4 returns buffer 2 itself, call 5 returns buffer 1 itself (whole leaves), call 6 a new two-record object *)
  glegal g0 ops /\
  match grun g0 ops with
  | Some g => dlog (g_st g) = [1; 2] /\ g_created g = [1; 2] /\ List.map (g_held g) [1; 2; 3; 6] = [0; 0; 0; 0]%nat /\
              List.map (heap (g_st g)) [1; 2; 3; 6] = [None; None; None; None]
  | None => False
  end.
Proof.
  split.
  - vm_compute. repeat split; try (intro; discriminate); try (intros []); try (right; lia).
  - vm_compute. repeat split; reflexivity.
Qed.
