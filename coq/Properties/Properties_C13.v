(* C13 — dispatch_data objects behave as immutable byte strings.
   Model: Model/Data.v (hand model of src/data.c, tied by lib/props/c13.py).  wf = the representation invariant of
   data.c:23-93; `built` = every object obtainable by any tree of create/concat/subrange/map/copy_region/flatten.
   All offsets, lengths and locations range over the whole of size_t (0 <= x < 2^64). *)
From Coq Require Import ZArith List Bool.
From Verif Require Import Word Data Data_proofs.
Import ListNotations.
Local Open Scope Z_scope.

(* the invariant holds for every object of every operation tree (any depth, any fragmentation) *)
Theorem C13_invariant_all_trees : forall d, built d -> wf d.
Proof. exact built_wf. Qed.
Print Assumptions C13_invariant_all_trees.

(* dispatch_data_get_size = length of the byte string *)
Theorem C13_size_is_length : forall d, wf d -> size d = Z.of_nat (length (denote d)).
Proof. exact size_denote. Qed.
Print Assumptions C13_size_is_length.

(* dispatch_data_create_concat = concatenation (no size hypothesis needed for the bytes) *)
Theorem C13_concat : forall fresh a b, wf a -> wf b -> denote (concat fresh a b) = denote a ++ denote b.
Proof. exact denote_concat. Qed.
Print Assumptions C13_concat.
(* ... and it keeps the invariant and adds the sizes when the total fits in size_t *)
Theorem C13_concat_wf : forall fresh a b, wf a -> wf b -> fresh <> EMPTY_ID -> size a + size b < M64 ->
  wf (concat fresh a b) /\ size (concat fresh a b) = size a + size b.
Proof. exact wf_concat. Qed.
Print Assumptions C13_concat_wf.

(* dispatch_data_create_subrange = the clamped slice, for EVERY offset and length in size_t (firstn/skipn clamp):
   never faults, never crashes, result well-formed *)
Theorem C13_subrange : forall fresh d off len, wf d -> fresh <> EMPTY_ID -> 0 <= off < M64 -> 0 <= len < M64 ->
  exists d', subrange fresh d off len = Some d' /\ wf d' /\
             denote d' = firstn (Z.to_nat len) (skipn (Z.to_nat off) (denote d)).
Proof. exact subrange_spec. Qed.
Print Assumptions C13_subrange.

(* dispatch_data_create_map: the bytes readable through the returned pointer are the byte string; the returned
   object is the same object or a new leaf holding a copy *)
Theorem C13_map : forall fresh d, wf d -> fresh <> EMPTY_ID ->
  exists d', map_bytes fresh d = Some (d', denote d) /\ wf d' /\ denote d' = denote d /\
             (d' = d \/ d' = DLeaf (mkLeaf fresh (denote d))).
Proof. exact map_spec. Qed.
Print Assumptions C13_map.

(* dispatch_data_apply: the regions are non-empty, consecutive from offset 0, concatenate to the byte string; an
   applier f sees them in order up to and including the first one where it returns false, and the result is the
   conjunction of its answers *)
Theorem C13_apply_tiles : forall d, wf d ->
  exists gs, regions d = Some gs /\ tiles 0 gs /\ List.concat (List.map g_bytes gs) = denote d /\
    forall f, apply d f = Some (forallb f gs, take_until f gs).
Proof. exact apply_spec. Qed.
Print Assumptions C13_apply_tiles.

(* dispatch_data_copy_region: the region containing the location, with its offset; location >= size: empty at size *)
Theorem C13_copy_region : forall fresh d loc, wf d -> fresh <> EMPTY_ID -> 0 <= loc < M64 ->
  exists r off, copy_region fresh d loc = Some (r, off) /\ wf r /\
    (size d <= loc -> r = empty /\ off = size d) /\
    (loc < size d -> off <= loc < off + size r /\
                     denote r = firstn (Z.to_nat (size r)) (skipn (Z.to_nat off) (denote d))).
Proof. exact copy_region_spec. Qed.
Print Assumptions C13_copy_region.

(* none of these ever reads or writes outside a block, nor reaches DISPATCH_INTERNAL_CRASH: every memory access of
   the model goes through Data.read / Data.write, which return None outside the block *)
Theorem C13_no_read_outside : forall fresh d off len loc f, wf d -> fresh <> EMPTY_ID ->
  0 <= off < M64 -> 0 <= len < M64 -> 0 <= loc < M64 ->
  subrange fresh d off len <> None /\ apply d f <> None /\ regions d <> None /\ map_bytes fresh d <> None /\
  copy_region fresh d loc <> None.
Proof. exact no_fault. Qed.
Print Assumptions C13_no_read_outside.

Example C13_nonvacuous :
  let a := DLeaf (mkLeaf 1 [10;11;12;13;14]) in
  let b := DLeaf (mkLeaf 2 [20;21;22]) in
  let c := concat 3 a b in
  built c /\ wf c /\ denote c = [10;11;12;13;14;20;21;22] /\
  (exists s, subrange 4 c 3 18446744073709551615 = Some s /\ built s /\ denote s = [13;14;20;21;22] /\ size s = 5) /\
  copy_region 5 c 6 = Some (b, 5) /\
  regions c = Some [mkRegion 1 0 [10;11;12;13;14]; mkRegion 2 5 [20;21;22]].
Proof.
  cbv zeta.
  assert (Ha : built (DLeaf (mkLeaf 1 [10;11;12;13;14]))) by (apply b_leaf; [discriminate|discriminate|vm_compute; reflexivity]).
  assert (Hb : built (DLeaf (mkLeaf 2 [20;21;22]))) by (apply b_leaf; [discriminate|discriminate|vm_compute; reflexivity]).
  assert (Hc : built (concat 3 (DLeaf (mkLeaf 1 [10;11;12;13;14])) (DLeaf (mkLeaf 2 [20;21;22]))))
    by (apply b_concat; [assumption|assumption|discriminate|vm_compute; reflexivity]).
  split; [assumption|]. split; [apply built_wf; assumption|]. split; [vm_compute; reflexivity|].
  split; [|split; vm_compute; reflexivity].
  eexists. split; [vm_compute; reflexivity|]. split; [|split; vm_compute; reflexivity].
  eapply b_subrange with (f := 4) (off := 3) (len := 18446744073709551615); [exact Hc|discriminate| | |vm_compute; reflexivity];
    unfold M64; split; (vm_compute; congruence) || reflexivity.
Qed.
