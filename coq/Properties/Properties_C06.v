(* C06 — inactive and suspended queues run nothing; resume restarts them.
   THIS FILE: statements about Gen_dqstate (regenerated from src/queue.c, src/inline_internal.h on every run) and about
   Model/Suspend.v, the linearised count update of dispatch_suspend / dispatch_resume (`suspend_word`, `resume_word`),
   for histories issued by one thread on a queue nobody drains.  Tie to the library: lib/props/c06.py runs the same
   histories on a real queue and compares, after every call, dq_state and dq_side_suspend_cnt with Suspend.run_ops
   (which contains `suspend`) and, for histories on an activated idle queue, the suspend bits and the side counter
   with Suspend_proofs.run_words (= suspend_word / resume_word, what C06_resume_counts and C06_nesting_any_depth are
   about); under concurrency the same counting is C06_slane_count_exact.  The protocol theorems over all interleavings of
   suspend / resume / activate with submitters and drainers (exact counting, nothing starts while suspended, resume
   restarts, inactive lanes) are in Properties_C06_slane.v. *)
From Coq Require Import ZArith Bool List.
From Verif Require Import Word Gen_consts Gen_dqstate Suspend Suspend_proofs.
Import ListNotations.
Local Open Scope Z_scope.

(* suspend adds exactly one to (inline count + side count), for every state incl. the spill at 63 *)
Theorem C06_suspend_counts : forall q, SInv q -> side q < 4294967296 - 32 ->
  exists q', suspend q = ROk q' /\ total q' = total q + 1 /\ SInv q' /\
             st q' mod 144115188075855872 = st q mod 144115188075855872.
Proof. exact suspend_spec. Qed.
Print Assumptions C06_suspend_counts.

(* resume subtracts exactly one, refilling the inline count from the side counter when needed *)
Theorem C06_resume_counts : forall q,
  SInv q -> active_bits (st q) -> 0 < total q -> 0 <= self q < 1073741824 ->
  exists q', resume_word q = Some q' /\ total q' = total q - 1 /\ SInv q' /\ active_bits (st q').
Proof. exact resume_spec. Qed.
Print Assumptions C06_resume_counts.

(* N suspends need exactly N resumes, at any nesting depth: after any legal history the word is suspended iff
   the number of outstanding suspensions is positive *)
Theorem C06_nesting_any_depth : forall ops q,
  SInv q -> active_bits (st q) -> 0 <= self q < 1073741824 ->
  side q + 32 * Z.of_nat (length ops) < 4294967296 - 32 -> legal (total q) ops = true ->
  exists q', run_words q ops = Some q' /\ total q' = total q + delta ops /\ SInv q' /\ active_bits (st q') /\
             (nz (f_dq_state_is_suspended (st q')) = true <-> 0 < total q + delta ops).
Proof. exact nesting_any_depth. Qed.
Print Assumptions C06_nesting_any_depth.

(* nothing starts on a suspended or inactive word: every acquisition path refuses it, for all 2^64 words *)
Theorem C06_drain_lock_refuses : forall s flags w self floor ov, blocked s ->
  (exists r, f_dispatch_queue_drain_try_lock 0 flags w self floor s ov = NoCommit r [] /\ r = 0) \/
  (exists m, f_dispatch_queue_drain_try_lock 0 flags w self floor s ov = Commit (Z.lxor s m) 0 /\
             (m = 2147483648 \/ m = 274877906944)).
Proof. exact refuse_drain_lock. Qed.
Print Assumptions C06_drain_lock_refuses.
Theorem C06_barrier_sync_fastpath_refuses : forall s tid k w, blocked s -> 1 <= w <= 4095 ->
  f_dispatch_queue_try_acquire_barrier_sync_and_suspend 0 tid k w s = NoCommit 0 [].
Proof. exact refuse_barrier_sync_fastpath. Qed.
Print Assumptions C06_barrier_sync_fastpath_refuses.
Theorem C06_sync_width_refuses : forall s tail w, blocked s ->
  exists r, f_dispatch_queue_try_reserve_sync_width 0 tail s w = NoCommit r [].
Proof. exact refuse_sync_width. Qed.
Print Assumptions C06_sync_width_refuses.
Theorem C06_acquire_async_refuses : forall s, blocked s ->
  exists r, f_dispatch_queue_try_acquire_async 0 s = NoCommit r [].
Proof. exact refuse_acquire_async. Qed.
Print Assumptions C06_acquire_async_refuses.
Theorem C06_wakeup_never_enqueues_suspended : forall s qos flags target enqueue, blocked s ->
  wakeup_loop 0 qos flags target s enqueue =
    if nz (Z.land flags 2) then Commit (Z.lor (f_dq_state_merge_qos s qos) 549755813888) 0
    else if f_dq_state_merge_qos s qos =? s then NoCommit 2 [] else Commit (f_dq_state_merge_qos s qos) 0.
Proof. exact wakeup_does_not_enqueue_suspended. Qed.
Print Assumptions C06_wakeup_never_enqueues_suspended.

(* non-vacuity: a serial queue suspended 100 deep (inline 36 + side 64), resumed 100 times, is idle again *)
Definition q0 := {| st := init_st 1 false; side := 0; width := 1; self := 1234 |}.
Example C06_nonvacuous :
  SInv q0 /\ active_bits (st q0) /\ legal (total q0) (repeat true 100 ++ repeat false 100) = true /\
  match run_words q0 (repeat true 100) with Some q => sc (st q) = 36 /\ side q = 64 | None => False end /\
  match fst (run_ops q0 (repeat OSuspend 100 ++ repeat OResume 100)) with ROk q => st q = st q0 /\ side q = 0 | _ => False end /\
  blocked (init_st 1 true).
Proof. unfold SInv, wf, active_bits, bit57, blocked. vm_compute. repeat split; intros; try discriminate; try lia. Qed.
