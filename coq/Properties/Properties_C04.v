(* C04 — barriers on concurrent queues exclude and order like a writer lock.
   PARTIAL: proved are guards of the generated bodies, for all 2^64 words; the width-accounting invariant and the
   ordering statements over all interleavings are not proved (DESIGN.md §6.0); the property is decided on the
   implementation by the stress oracle (barrier/non-barrier overlap counters, per-producer order around
   barriers, a flood that uses up the whole width behind a barrier followed by a sync reader and a barrier). *)
From Coq Require Import ZArith Bool List.
From Verif Require Import Word Gen_consts Gen_dqstate Suspend_proofs Lane_iface.
Import ListNotations.
Local Open Scope Z_scope.

(* reader fast paths refuse when a barrier is running or pending, the queue is dirty, or anything is queued ahead *)
Theorem C04_sync_reader_fastpath_guards_partial : forall s tail w,
  (nz (f_dq_state_is_dirty s) = true \/ nz (f_dq_state_has_pending_barrier s) = true \/
   nz (f_dq_state_is_sync_runnable s) = false \/ nz tail = true) ->
  exists r, f_dispatch_queue_try_reserve_sync_width 0 tail s w = NoCommit r [].
Proof. exact reader_fastpath_guards. Qed.
Print Assumptions C04_sync_reader_fastpath_guards_partial.
Theorem C04_async_reader_fastpath_guards_partial : forall s,
  (nz (f_dq_state_is_dirty s) = true \/ nz (f_dq_state_has_pending_barrier s) = true \/
   nz (f_dq_state_is_runnable s) = false) ->
  exists r, f_dispatch_queue_try_acquire_async 0 s = NoCommit r [].
Proof. exact async_fastpath_guards. Qed.
Print Assumptions C04_async_reader_fastpath_guards_partial.

(* a barrier takes the drain lock only from a word with no owner, no width in use and no suspension *)
Theorem C04_barrier_lock_exclusive_partial : forall s flags w self floor ov,
  Z.land s LOCK_FAIL <> 0 ->
  (exists r, f_dispatch_queue_drain_try_lock 0 flags w self floor s ov = NoCommit r [] /\ r = 0) \/
  (exists m, f_dispatch_queue_drain_try_lock 0 flags w self floor s ov = Commit (Z.lxor s m) 0 /\
             (m = 2147483648 \/ m = 274877906944)).
Proof. exact drain_lock_refused_when_not_free. Qed.
Print Assumptions C04_barrier_lock_exclusive_partial.

Example C04_nonvacuous :
  (* a concurrent queue (width 4094) with one reader in flight admits a second one, but not once a barrier is pending *)
  f_dispatch_queue_try_reserve_sync_width 0 0 (init_st_plain 4094 + 2199023255552) 4094 =
    Commit (init_st_plain 4094 + 2 * 2199023255552) 1 /\
  (exists r, f_dispatch_queue_try_reserve_sync_width 0 0 (init_st_plain 4094 + 2199023255552 + 1099511627776) 4094 = NoCommit r []).
Proof. split; [vm_compute; reflexivity | eexists; vm_compute; reflexivity]. Qed.
