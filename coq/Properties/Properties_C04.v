(* C04 -- barriers on concurrent queues exclude and order like a writer lock.
   Proved over all interleavings of the MODEL Model/CLane.v (one concurrent queue of any width 2..4094 targeting a root
   queue, any number of flat client threads -- no call from inside a callout, see the header of CLane.v; every dq_state
   read-modify-write is the body generated from the source): 1. width accounting, 2. exclusion, 3. order (FIFO around
   barriers for queued items, acquisition order for the fast paths), 4. no stuck state; plus word-level guards of the
   generated bodies for all 2^64 words (first section, names ending in _partial, kept from the earlier stage).
   How the model is tied to the library, and how far: C04_model_sites_match (the atomic sites of the modelled functions,
   prefixes for 5 of 13) and the trace check of lib/props/c04.py.  C04_trace_judges_sound and C04_accounting_judge_sound
   below are the no-false-alarm direction of its state judges (every reachable model state passes word_ok / owner_ok, and
   passes acct_ok with its own ghost state): word_ok / owner_ok are necessary conditions on the word alone; acct_ok is the
   equation of C04_width_accounting (upper and lower bound on the width field, IN_BARRIER exactly with a barrier owner)
   and the check evaluates it with a ghost state RECONSTRUCTED from the recorded run by lib/props/c04.py (from which site
   wrote, who wrote, the owner / PENDING bits and the lock owner's pops -- never from the width field or IN_BARRIER); that
   reconstruction is Python code following the ghost updates of Model/CLane.v and is itself unproved.  There is no
   theorem about the transition judge tr_ok (it compares a recorded write with the generated body of its source site for
   some admissible value of the unrecorded locals; it does not place the write at a program point of the model).
   Not in the model: suspension, non-root targets, dispatch_async_and_wait, DISPATCH_BLOCK_BARRIER,
   dispatch_apply's reservations, the drainer's wait for an enqueuer's link. *)
From Coq Require Import ZArith Bool List.
From Verif Require Import Word Gen_consts Gen_dqstate Suspend_proofs Lane_iface.
From Verif Require Import DqFields Gen_lanesites CLane CLaneJudge CLane_inv CLane_main.
From Verif Require Import CLane_order CLane_live.
From Coq Require Import Sorted.
Import ListNotations.
Local Open Scope Z_scope.

(* reader fast paths refuse when a barrier is running or pending, the queue is dirty, or anything is queued ahead *)
Theorem C04_sync_reader_fastpath_guards_partial : forall s tail w,
  (nz (f_dq_state_is_dirty s) = true \/ nz (f_dq_state_has_pending_barrier s) = true \/
   nz (f_dq_state_is_sync_runnable s) = false \/ nz tail = true) ->
  exists r, f_dispatch_queue_try_reserve_sync_width 0 tail s w = NoCommit r [].
Proof. exact reader_fastpath_guards. Qed.
Print Assumptions C04_sync_reader_fastpath_guards_partial.
Theorem C04_async_reader_fastpath_guards_partial : forall s,
  (nz (f_dq_state_is_dirty s) = true \/ nz (f_dq_state_has_pending_barrier s) = true \/
   nz (f_dq_state_is_runnable s) = false) ->
  exists r, f_dispatch_queue_try_acquire_async 0 s = NoCommit r [].
Proof. exact async_fastpath_guards. Qed.
Print Assumptions C04_async_reader_fastpath_guards_partial.

(* the DRAINER's lock (_dispatch_queue_drain_try_lock: how a worker takes the drain lock, be it to run an asynchronous
   barrier or readers) is refused on a word with an owner, with the width in use or suspended; this is not the
   barrier-sync fast path, which is the next theorem *)
Theorem C04_barrier_lock_exclusive_partial : forall s flags w self floor ov,
  Z.land s LOCK_FAIL <> 0 ->
  (exists r, f_dispatch_queue_drain_try_lock 0 flags w self floor s ov = NoCommit r [] /\ r = 0) \/
  (exists m, f_dispatch_queue_drain_try_lock 0 flags w self floor s ov = Commit (Z.lxor s m) 0 /\
             (m = 2147483648 \/ m = 274877906944)).
Proof. exact drain_lock_refused_when_not_free. Qed.
Print Assumptions C04_barrier_lock_exclusive_partial.

(* the barrier-sync fast path (_dispatch_queue_try_acquire_barrier_sync_and_suspend) takes the lock from the idle word only *)
Theorem C04_barrier_sync_fastpath_from_idle_only_partial : forall s tid k w new r,
  f_dispatch_queue_try_acquire_barrier_sync_and_suspend 0 tid k w s = Commit new r ->
  s = Z.lor (u64 (Z.shiftl (u64 (4096 - w)) 41)) (Z.land s ROLE_MASK) /\ r = 1.
Proof. exact barrier_fastpath_from_idle_only. Qed.
Print Assumptions C04_barrier_sync_fastpath_from_idle_only_partial.

Example C04_nonvacuous :
  (* a concurrent queue (width 4094) with one reader in flight admits a second one, but not once a barrier is pending *)
  f_dispatch_queue_try_reserve_sync_width 0 0 (init_st_plain 4094 + 2199023255552) 4094 =
    Commit (init_st_plain 4094 + 2 * 2199023255552) 1 /\
  (exists r, f_dispatch_queue_try_reserve_sync_width 0 0 (init_st_plain 4094 + 2199023255552 + 1099511627776) 4094 = NoCommit r []).
Proof. split; [vm_compute; reflexivity | eexists; vm_compute; reflexivity]. Qed.


(* ---------------------------------------------------------------------------------------------------------------
   The global protocol, over ALL interleavings, for the dq_state word of one concurrent queue of any width
   W in [2, DISPATCH_QUEUE_WIDTH_MAX] targeting a root queue (model: Model/CLane.v; every dq_state read-modify-write
   of the model is the body generated from the source, Gen_dqstate).  reach W = the states reachable from the idle
   queue by any number of threads running dispatch_sync / dispatch_barrier_sync (fast and slow paths),
   dispatch_async / dispatch_barrier_async, root-queue workers draining the lane and running redirected items.
   U s = width intervals held by readers (threads between their reservation and _dispatch_lane_non_barrier_complete,
   redirected items in the root queue, sync waiters that were handed an interval); dw s = intervals owned by the
   holder of the drain lock. *)

(* the ghost state is a function of the program points *)
Theorem C04_ghost_is_program_points : forall W s, 2 <= W <= 4094 -> reach W s ->
  NoDup (holders s) /\
  (forall t, In t (holders s) <-> (holds (pcs s t) = true \/ grant s t = GReader)) /\
  (forall t, lockh s = Some t <-> (owns (pcs s t) = true \/ grant s t = GOwner)) /\
  (forall t, grant s t <> GNone -> waitpc (pcs s t) = true).
Proof. exact ghost_is_program_points. Qed.
Print Assumptions C04_ghost_is_program_points.

(* 1. width accounting: in every reachable state the width field (12 width bits + the full bit read as one number)
   equals 4096 - W + the intervals held + (W - 1 when a barrier is pending); the intervals held stay in [0, 4096], so
   the field stays in [0, 8191] and never carries into IN_BARRIER; IN_BARRIER is set exactly when a barrier owner
   exists, and then that owner holds the whole width and nobody else any. *)
Theorem C04_width_accounting : forall W s, 2 <= W <= 4094 -> reach W s ->
  let r := dec (st s) in
  0 <= st s < 18446744073709551616 /\
  f_wq r = 4096 - W + (U s + dw s) + (W - 1) * f_pb r /\
  0 <= U s + dw s <= 4096 /\ 0 <= f_wq r <= 8191 /\
  (f_ib r = 1 <-> bmode s = true) /\
  (bmode s = true -> exists t, lockh s = Some t /\ f_owner r = t /\ U s = 0 /\ dw s = W /\ f_pb r = 0 /\ f_wq r = 4096) /\
  (lockh s = None -> dw s = 0 /\ f_owner r = 0 /\ f_ib r = 0) /\
  f_hi r = 0.
Proof. exact width_accounting. Qed.
Print Assumptions C04_width_accounting.

(* 2. exclusion: while a barrier item is in its callout (on the barrier-sync fast path, as a woken barrier waiter, or
   inline in the drainer), no other item of the queue is in its callout, no reader holds a width interval at all and no
   redirected item is in flight. *)
Theorem C04_barrier_excludes : forall W s t, 2 <= W <= 4094 -> reach W s -> in_barrier_callout (pcs s t) = true ->
  (forall u, in_callout (pcs s u) = true -> u = t) /\ holders s = [] /\ rq s = [] /\ lockh s = Some t.
Proof. exact barrier_excludes. Qed.
Print Assumptions C04_barrier_excludes.

(* two readers in their callouts with a barrier parked behind them (PENDING_BARRIER, width field 4095 + 2), and later
   the barrier in its callout alone: both states are reachable *)
Example C04_protocol_nonvacuous :
  (exists s, reach 4 s /\ pcs s 1 = R_incall 0 /\ pcs s 2 = R_incall 1 /\ holders s = [2; 1] /\ pb s = 1 /\
             map i_bar (lst s) = [true] /\ f_wq (dec (st s)) = 4097) /\
  (exists s, reach 4 s /\ in_barrier_callout (pcs s 5) = true /\ started s = [2; 1; 0] /\ finished s = [1; 0] /\
             holders s = [] /\ f_ib (dec (st s)) = 1).
Proof. exact protocol_nonvacuous. Qed.

(* ---- tie of the model to the source ---- *)
(* (a) the accesses to dq_state at the model's program points are the atomic sites the translator reads from the source,
   function by function, inlined callees included (a removed or added access breaks this) *)
Theorem C04_model_sites_match :
  model_sites_try_reserve_sync_width = f_dispatch_queue_try_reserve_sync_width_sites /\
  model_sites_try_acquire_async = f_dispatch_queue_try_acquire_async_sites /\
  model_sites_reserve_sync_width = Gen_lanesites.f_dispatch_queue_reserve_sync_width_sites /\
  model_sites_try_upgrade_full_width = f_dispatch_queue_try_upgrade_full_width_sites /\
  model_sites_non_barrier_complete = non_barrier_complete_loop_sites /\
  model_sites_non_barrier_complete = firstn 2 (dq_sites Gen_lanesites.f_dispatch_lane_non_barrier_complete_sites) /\
  model_sites_class_barrier_complete = class_barrier_complete_loop_sites /\
  model_sites_class_barrier_complete = dq_sites Gen_lanesites.f_dispatch_lane_class_barrier_complete_sites /\
  model_sites_drain_barrier_waiter = firstn 3 (dq_sites Gen_lanesites.f_dispatch_lane_drain_barrier_waiter_sites) /\
  model_sites_drain_non_barriers = firstn 11 (dq_sites Gen_lanesites.f_dispatch_lane_drain_non_barriers_sites) /\
  model_sites_concurrent_drain = dq_sites Gen_lanesites.f_dispatch_lane_concurrent_drain_sites /\
  model_sites_concurrent_push_head = firstn 2 (dq_sites Gen_lanesites.f_dispatch_lane_concurrent_push_sites) /\
  model_sites_push_waiter_head = firstn 3 (dq_sites Gen_lanesites.f_dispatch_lane_push_waiter_sites).
Proof. exact model_sites_match. Qed.
Print Assumptions C04_model_sites_match.

(* (b) two of the judges the trace check evaluates on the recorded value chain of dq_state accept every reachable state
   (no false alarm; NOT the converse: a word that passes need not be reachable, word_ok is a lower bound on the width
   field): the word-level projection of the width accounting, and the word seen by a barrier owner.  The transition judge
   CLaneJudge.tr_ok has no theorem. *)
Theorem C04_trace_judges_sound : forall W s, 2 <= W <= 4094 -> reach W s ->
  word_ok W (st s) = true /\ (forall t, lockh s = Some t -> bmode s = true -> owner_ok (st s) t = true).
Proof. exact trace_judges_sound. Qed.
Print Assumptions C04_trace_judges_sound.

(* (c) the accounting judge: a reachable state passes acct_ok with its own ghost state (held = U + dw, bm = bmode); the
   trace check evaluates acct_ok on every word of the recorded value chain with the ghost state it reconstructs from the
   run *)
Theorem C04_accounting_judge_sound : forall W s, 2 <= W <= 4094 -> reach W s ->
  acct_ok W (st s) (U s + dw s) (bmode s) = true.
Proof. exact acct_ok_sound. Qed.
Print Assumptions C04_accounting_judge_sound.

(* ---------------------------------------------------------------------------------------------------------------
   3. order.  Every item carries an id (one counter for pushed and fast-path items, so ids of pushed items increase in
   push order = the order of the exchanges on dq_items_tail).  The model logs ids: pushed, popped (taken off the list by
   the drain-lock owner), started / finished (callout begins / returns).  acquired s i: i was taken off the list, or was
   admitted by the successful compare-and-swap of a fast path (dispatch_sync, dispatch_barrier_sync, the dispatch_async
   redirect) and never pushed. *)

(* the log is tied to the program points: an item runs only after it was acquired and finishes only after it started;
   acquired is stable *)
Theorem C04_history_wellformed : forall W s, 2 <= W <= 4094 -> reach W s ->
  (forall i, In i (started s) -> acquired s i) /\ (forall i, In i (finished s) -> In i (started s)) /\
  (forall t i, runs (pcs s t) = Some i -> acquired s i /\ kinds s i = runs_barrier (pcs s t) /\
                                          (in_call (pcs s t) = true -> In i (started s))).
Proof. exact history_wellformed. Qed.
Print Assumptions C04_history_wellformed.
Theorem C04_acquired_stable : forall W s a s', step W s a s' -> forall i, acquired s i -> acquired s' i.
Proof. exact acquired_stable. Qed.
Print Assumptions C04_acquired_stable.

(* FIFO: items leave the list in push order *)
Theorem C04_fifo_pop_order : forall W s, 2 <= W <= 4094 -> reach W s ->
  rev (pushed s) = rev (popped s) ++ map i_id (lst s) /\ StronglySorted Z.lt (rev (pushed s)).
Proof. exact fifo_pop_order. Qed.
Print Assumptions C04_fifo_pop_order.

(* writer-lock order of queued items: i pushed before j, one of them a barrier: j is not taken off the list -- let alone
   started -- before i has finished.  (Items before a barrier finish before it starts; items after a barrier start after
   it has finished.) *)
Theorem C04_barrier_orders_fifo : forall W s i j, 2 <= W <= 4094 -> reach W s ->
  In i (pushed s) -> In j (pushed s) -> i < j -> kinds s i = true \/ kinds s j = true ->
  (In j (popped s) \/ In j (started s)) -> In i (finished s).
Proof. exact barrier_orders_fifo. Qed.
Print Assumptions C04_barrier_orders_fifo.

(* exclusion in terms of acquisition, fast paths included: while a barrier is acquired and unfinished every other
   acquired item has finished *)
Theorem C04_barrier_excludes_acquired : forall W s b j, 2 <= W <= 4094 -> reach W s ->
  acquired s b -> kinds s b = true -> ~ In b (finished s) -> acquired s j -> j <> b -> In j (finished s).
Proof. exact barrier_excludes_acquired. Qed.
Print Assumptions C04_barrier_excludes_acquired.

(* real-time order of acquisitions (what the fast paths guarantee: their order is the order of the successful
   compare-and-swaps): whatever is acquired after a barrier was acquired, is acquired after that barrier finished; a
   barrier is acquired only after everything acquired before it has finished *)
Theorem C04_barrier_orders_later_items_wait : forall W s1 s2 b j, 2 <= W <= 4094 -> reach W s1 -> later W s1 s2 ->
  acquired s1 b -> kinds s1 b = true -> acquired s2 j -> ~ acquired s1 j -> In b (finished s2).
Proof. exact later_items_wait_for_barrier. Qed.
Print Assumptions C04_barrier_orders_later_items_wait.
Theorem C04_barrier_orders_barrier_waits : forall W s1 s2 i b, 2 <= W <= 4094 -> reach W s1 -> later W s1 s2 ->
  acquired s1 i -> acquired s2 b -> kinds s2 b = true -> ~ acquired s1 b -> In i (finished s2).
Proof. exact barrier_waits_for_earlier_items. Qed.
Print Assumptions C04_barrier_orders_barrier_waits.

(* the three fast paths (dispatch_sync, dispatch_barrier_sync, the dispatch_async redirect) are taken only when their tail
   test found the list empty: everything pushed before that test is then already acquired, so the two theorems above
   order the fast-path item after every barrier pushed earlier, and a fast-path barrier after everything pushed earlier.
   (For dispatch_barrier_sync the tail test is the repair of a defect found with this model, /repo 43b9c73: the idle
   dq_state alone does not show items whose first enqueuer has not made its wakeup yet.) *)
Theorem C04_barrier_orders_fastpath : forall W s t s', 2 <= W <= 4094 -> reach W s -> gstep W s t = Some s' ->
  ((pcs s t = S_tail /\ pcs s' t = S_rsv 0) \/ (pcs s t = B_tail /\ pcs s' t = B_acq) \/
   (exists q ovr, pcs s t = A_tail false q ovr /\ pcs s' t = A_acq q ovr)) ->
  forall x, In x (pushed s) -> acquired s x.
Proof. exact tail_test_sees_all_acquired. Qed.
Print Assumptions C04_barrier_orders_fastpath.

(* the composition, as the real-time statement about the fast paths: x was pushed before thread t made the tail test of
   its fast path; whatever is acquired after that test (in particular the item of t's own call) is acquired only after x
   has finished, if x or that item is a barrier *)
Theorem C04_barrier_orders_fastpath_realtime : forall W s t s' s2 x j, 2 <= W <= 4094 -> reach W s -> valid_tid t ->
  gstep W s t = Some s' ->
  ((pcs s t = S_tail /\ pcs s' t = S_rsv 0) \/ (pcs s t = B_tail /\ pcs s' t = B_acq) \/
   (exists q ovr, pcs s t = A_tail false q ovr /\ pcs s' t = A_acq q ovr)) ->
  later W s' s2 -> In x (pushed s) -> acquired s2 j -> ~ acquired s j ->
  (kinds s x = true \/ kinds s2 j = true) -> In x (finished s2).
Proof. exact fastpath_realtime_order. Qed.
Print Assumptions C04_barrier_orders_fastpath_realtime.

(* both hypotheses sets are satisfiable: a barrier (id 2) pushed behind two running readers (0, 1) and an async item (3)
   pushed behind the barrier; first the barrier runs alone with 0 and 1 finished and 3 still queued, later 3 runs with
   the barrier finished *)
Example C04_ordering_nonvacuous :
  (exists s, reach 4 s /\ pushed s = [3; 2] /\ popped s = [2] /\ kinds s 2 = true /\ kinds s 3 = false /\
             started s = [2; 1; 0] /\ finished s = [1; 0] /\ in_barrier_callout (pcs s 5) = true /\
             acquired s 2 /\ acquired s 0 /\ acquired s 1 /\ ~ acquired s 3) /\
  (exists s, reach 4 s /\ pushed s = [3; 2] /\ kinds s 2 = true /\ pcs s 7 = R_incall 3 /\
             started s = [3; 2; 1; 0] /\ finished s = [2; 1; 0]).
Proof. exact ordering_nonvacuous. Qed.

(* ---------------------------------------------------------------------------------------------------------------
   4. no stuck state ("no lost barrier").  A reachable state in which every thread has returned or is parked in the wait
   of a sync call, no parked thread can continue, the lane does not sit on its root queue and no redirected item is
   pending, is completely drained: empty list, nobody parked, lock / width / enqueued bit / DIRTY / PENDING_BARRIER all
   clear (the idle word), and every item ever submitted has finished.  Behind it (Proofs/CLane_live.v, Inv3): whenever
   the list is not empty somebody is responsible for it (the lane is enqueued or being pushed, the drain lock is held,
   readers are in flight -- the last one takes the lock --, or an enqueuer still owes its wakeup); a lock owner that gives
   the lock back after seeing an empty list does so only with DIRTY clear; a granted waiter is woken; a parked thread's
   item is on the list or in the hands of the lock owner. *)
Theorem C04_no_stuck_state : forall W s, 2 <= W <= 4094 -> reach W s ->
  (forall t, resting (pcs s t)) -> (forall t, valid_tid t -> gstep W s t = None) -> rootq s = 0 -> rq s = [] ->
  lst s = [] /\ (forall t, pcs s t = Idle) /\ lockh s = None /\ holders s = [] /\ tokh s = None /\
  (forall i, 0 <= i < nextid s -> In i (finished s)) /\
  (let r := dec (st s) in f_owner r = 0 /\ f_enq r = 0 /\ f_d r = 0 /\ f_pb r = 0 /\ f_ib r = 0 /\ f_wq r = 4096 - W).
Proof. exact stuck_state_is_drained. Qed.
Print Assumptions C04_no_stuck_state.

(* the hypotheses are satisfiable after real work: the run of C04_ordering_nonvacuous continued until nothing moves *)
Example C04_no_stuck_nonvacuous :
  exists s, reach 4 s /\ (forall t, resting (pcs s t)) /\ (forall t, valid_tid t -> gstep 4 s t = None) /\ rootq s = 0 /\ rq s = [] /\
            nextid s = 4 /\ finished s = [3; 2; 1; 0] /\ st s = st (init_state 4).
Proof. exact drained_nonvacuous. Qed.

(* no thread is ever stuck in the middle of an operation: every program point other than the parked wait of a sync call
   has an enabled step in every reachable state (the generated rmw bodies never crash or refuse there, the list is never
   empty where a pop is due) *)
Theorem C04_no_thread_stuck : forall W s t, 2 <= W <= 4094 -> reach W s -> valid_tid t -> ~ resting (pcs s t) ->
  exists s', gstep W s t = Some s'.
Proof. exact nonresting_enabled. Qed.
Print Assumptions C04_no_thread_stuck.

(* hence the resting hypothesis of C04_no_stuck_state is redundant: a state in which no thread at all can take a step
   (and the root queue holds neither the lane nor a redirected item) is completely drained *)
Theorem C04_terminal_state_is_drained : forall W s, 2 <= W <= 4094 -> reach W s ->
  (forall t, valid_tid t -> gstep W s t = None) -> rootq s = 0 -> rq s = [] ->
  lst s = [] /\ (forall t, pcs s t = Idle) /\ lockh s = None /\ holders s = [] /\ tokh s = None /\
  (forall i, 0 <= i < nextid s -> In i (finished s)) /\
  (let r := dec (st s) in f_owner r = 0 /\ f_enq r = 0 /\ f_d r = 0 /\ f_pb r = 0 /\ f_ib r = 0 /\ f_wq r = 4096 - W).
Proof. exact terminal_state_is_drained. Qed.
Print Assumptions C04_terminal_state_is_drained.

(* the clauses of the invariant behind 4. that concern parked waiters and responsibility, exported: a waiter that was
   granted the lock or a width interval has been woken or its waker is at the wake-up step; the item of a parked, not yet
   granted waiter is on the list or in the hands of the lock owner that is transferring the lock to it; a non-empty list
   always has a responsible party (lane enqueued or being pushed, readers in flight, lock held, or an enqueuer that still
   owes its wakeup) *)
Theorem C04_parked_waiters_and_responsibility : forall W s, 2 <= W <= 4094 -> reach W s ->
  (forall u, grant s u <> GNone -> woken s u = true \/ exists t, waker (pcs s t) u = true) /\
  (forall t i b, wait_item (pcs s t) = Some (i, b) -> grant s t = GNone ->
     (exists x, In x (lst s) /\ i_id x = i /\ i_wt x = t) \/ exists u k e, pcs s u = DBW_xfer k e t i) /\
  (lst s <> [] -> resp s).
Proof. exact parked_waiters_and_responsibility. Qed.
Print Assumptions C04_parked_waiters_and_responsibility.
