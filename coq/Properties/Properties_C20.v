(* C20 — data transforms round-trip and never read outside their input.

   FULL STATEMENT (properties.jsonl): for every byte string, encoding it with dispatch_data_create_with_transform to
   Base32, Base32Hex or Base64 and decoding the result returns the original bytes, and converting well-formed UTF-8
   to UTF-16 (either byte order) and back returns the original text (apart from a leading byte-order mark),
   independent of how the input is fragmented into regions; for arbitrary input a transform either returns NULL or
   returns data that the inverse transform accepts, and it never reads or writes outside the memory of its input and
   output objects.

   PROVED HERE (hence the suffix _partial): the Base64 instance of every clause, at full strength, about
   Model/Transform.v (the model of the repaired transform.c): all byte strings, all splits of the encoder's input AND
   all splits of the decoder's input, through the format check of dispatch_data_create_with_transform.
   MISSING: the same theorems for Base32/Base32Hex (same proof shape: 8 digits per 5 bytes, pad counts 1/3/4/6) and for
   UTF-8 <-> UTF-16LE/BE (read-ahead/skip invariant).  Those parts of the model are covered by the correspondence
   run only (lib/props/c20.py): exact agreement with the library, library-side round trips, AddressSanitizer. *)
From Coq Require Import ZArith List Bool Lia.
From Verif Require Import Word Transform Transform_proofs.
Import ListNotations.
Local Open Scope Z_scope.

(* every byte string (wf_data: no empty region, bytes, size < 2^60), every split of it (d is any region list), and
   every split d' of the encoded text: encode never fails, its result is the RFC 4648 text of the concatenation
   (so it does not depend on the split), and decoding any split of that text gives back the bytes *)
Theorem C20_base64_roundtrip_all_splits_partial : forall d, wf_data d ->
  exists e, transform d F_NONE F_BASE64 = Ok e /\ flat e = b64_spec (flat d) /\
    forall d', flat d' = flat e -> dsize d' < 2 ^ 60 ->
      flat_res (transform d' F_BASE64 F_NONE) = Ok (flat d).
Proof. exact base64_roundtrip_all_splits. Qed.
Print Assumptions C20_base64_roundtrip_all_splits_partial.

(* arbitrary input to the Base64 decoder, arbitrary split: the answer (NULL or bytes) is a function of the
   concatenation only; no access outside the buffers (the OOB outcome of the model is unreachable); whatever is
   returned is accepted by the inverse transform *)
Theorem C20_base64_decode_total_partial : forall d, wf_data d ->
  flat_res (transform d F_BASE64 F_NONE) = (if dsize d =? 0 then Ok (flat d) else dec64_flat (flat d)) /\
  (forall site, transform d F_BASE64 F_NONE <> OOB site) /\
  (forall t, transform d F_BASE64 F_NONE = Ok t -> Forall (fun r => r <> []) t -> dsize t < 2 ^ 60 ->
             exists e, transform t F_NONE F_BASE64 = Ok e).
Proof. exact base64_decode_total. Qed.
Print Assumptions C20_base64_decode_total_partial.

(* split independence and memory safety of the encoder proper (every look-back map, table read and write of the
   model succeeds: the result is Ok) *)
Theorem C20_base64_encode_split_independent_partial : forall d,
  Forall (fun r => r <> []) d -> dsize d < 2 ^ 62 -> to_base64 d = Ok (data_create (b64_spec (flat d))).
Proof. exact to_base64_flat. Qed.
Print Assumptions C20_base64_encode_split_independent_partial.

(* the flat round trip for every byte string *)
Theorem C20_base64_flat_roundtrip_partial : forall s, bytes s -> dec64_flat (b64_spec s) = Ok s.
Proof. exact roundtrip64_flat. Qed.
Print Assumptions C20_base64_flat_roundtrip_partial.

(* hypotheses are satisfiable on a non-trivial state: "Man" split 1|2 encodes to "TWFu"; "TWFu" split 1|2|1 decodes
   to "Man"; and the repaired defects behave: "QQ" "=" "=" decodes to "A", "=" alone to nothing *)
Example C20_nonvacuous :
  wf_data [[77]; [97; 110]] /\
  show (transform [[77]; [97; 110]] F_NONE F_BASE64) = [0; 84; 87; 70; 117] /\
  show (transform [[84]; [87; 70]; [117]] F_BASE64 F_NONE) = [0; 77; 97; 110] /\
  show (transform [[81; 81]; [61]; [61]] F_BASE64 F_NONE) = [0; 65] /\
  show (transform [[61]] F_BASE64 F_NONE) = [0] /\
  show (transform [[67; 52; 61; 61; 61; 61]; [61; 61]] F_BASE32HEX F_NONE) = [0; 97] /\
  show (transform [[195]; [169; 226]; [130; 172]] F_UTF8 F_UTF16LE) = [0; 255; 254; 233; 0; 172; 32] /\
  show (transform [[61; 216; 0]; [220]] F_UTF16LE F_UTF8) = [0; 240; 159; 144; 128] /\
  show (transform [[237; 191; 191]] F_UTF8 F_UTF16LE) = [1].
Proof.
  split.
  { unfold wf_data. split; [|split].
    - repeat (apply Forall_cons; [discriminate|]). apply Forall_nil.
    - unfold bytes. cbn [flat concat app]. repeat (apply Forall_cons; [unfold byte; lia|]). apply Forall_nil.
    - vm_compute. reflexivity. }
  repeat split; vm_compute; reflexivity.
Qed.
