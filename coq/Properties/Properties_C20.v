(* C20 — data transforms round-trip and never read outside their input.

   FULL STATEMENT (properties.jsonl): for every byte string, encoding it with dispatch_data_create_with_transform to
   Base32, Base32Hex or Base64 and decoding the result returns the original bytes, and converting well-formed UTF-8
   to UTF-16 (either byte order) and back returns the original text (apart from a leading byte-order mark),
   independent of how the input is fragmented into regions; for arbitrary input a transform either returns NULL or
   returns data that the inverse transform accepts, and it never reads or writes outside the memory of its input and
   output objects.

   All theorems are about Model/Transform.v, the model of the repaired src/transform.c (ten fix: commits); its six tables,
   the three decode table sizes, BUFFER_MALLOC_MAX and _dispatch_transform_utf8_length are the generated Gen_transform.
   A data object is ANY list of non-empty regions of ANY sizes; `flat` is the concatenation.  Hypotheses, all of them:
   (1) no empty region (data.c never builds one); (2) total size below 2^60 (2^57 / 2^58 where the output size must
   again be below 2^60); (3) `bytes (flat d)`: every element of the input is in 0..255 -- part of wf_data, i.e. of every
   Base theorem, and an explicit premise of the two UTF-16 -> UTF-8 "accepted by the inverse" theorems (the other UTF
   theorems hold for arbitrary integers); (4) outside the theorems: malloc does not fail (the model has no
   allocation-failure outcome; the C code returns NULL there), little-endian host.
   There is NO hypothesis on region sizes any more: an earlier version assumed the size test of
   _dispatch_transform_buffer_new (BUFFER_MALLOC_MAX) to pass and thereby hid a genuine violation (a 90 MB UTF-16 region
   was converted to an object whose 60 MB first region the inverse rejected; UTF-8 regions above 52428799 bytes were
   rejected outright); that is repaired in /repo (commit 9486a1f: the size hint is clamped) and the model follows it.
   Proved at full strength: the three Base round trips and the UTF round trip for every input and every split on both
   sides, also with the inverse applied to THE RETURNED OBJECT; split independence; for arbitrary input every primary
   pair computes a function of the concatenation only, never reaches the OOB outcome, and what it returns (the returned
   object itself, and any re-split of it) is accepted by the inverse; all nine Base -> Base pairs; UTF_ANY detection.
   NOT covered by a theorem (model + correspondence only): UTF-16 -> UTF-16 (decode to UTF-8, then encode). *)
From Coq Require Import ZArith List Bool Lia.
From Verif Require Import Word Gen_transform Transform Transform_proofs Transform32_proofs TransformUtf_proofs.
Import ListNotations.
Local Open Scope Z_scope.

(* ---------------------------------------------------------------- the generated tables *)

(* every digit is encoded to a character that is no white space, lies inside the decode table as sized by the code,
   and decodes to the digit (so encoding is injective and decode o encode = id on digits); bounds in the statement *)
Theorem C20_tables_base64 : forall k, 0 <= k < 64 ->
  is_ws (e64 k) = false /\ (base64_decode_table_size <=? e64 k) = false /\ rd base64_decode_table (e64 k) = Some k.
Proof. exact digit64. Qed.
Print Assumptions C20_tables_base64.
Theorem C20_tables_base32 : tables_ok base32_encode_table base32_decode_table base32_decode_table_size.
Proof. exact tables32_ok. Qed.
Print Assumptions C20_tables_base32.
Theorem C20_tables_base32hex : tables_ok base32hex_encode_table base32hex_decode_table base32hex_decode_table_size.
Proof. exact tables32hex_ok. Qed.
Print Assumptions C20_tables_base32hex.

(* ---------------------------------------------------------------- Base64 / Base32 / Base32Hex round trips *)

(* every byte string (wf_data: no empty region, bytes, size < 2^60), every split d of it, every split d' of the encoded
   text: encode never fails, yields the RFC 4648 text of the concatenation (hence independent of the split), and
   decoding any split of that text gives back the bytes *)
Theorem C20_base64_roundtrip_all_splits : forall d, wf_data d ->
  exists e, transform d F_NONE F_BASE64 = Ok e /\ flat e = b64_spec (flat d) /\
    forall d', flat d' = flat e -> dsize d' < 2 ^ 60 ->
      flat_res (transform d' F_BASE64 F_NONE) = Ok (flat d).
Proof. exact base64_roundtrip_all_splits. Qed.
Print Assumptions C20_base64_roundtrip_all_splits.

Theorem C20_base32_roundtrip_all_splits : forall d, wf_data d ->
  exists e, transform d F_NONE F_BASE32 = Ok e /\ flat e = b32_spec base32_encode_table (flat d) /\
    forall d', flat d' = flat e -> dsize d' < 2 ^ 60 ->
      flat_res (transform d' F_BASE32 F_NONE) = Ok (flat d).
Proof. exact base32_roundtrip_all_splits. Qed.
Print Assumptions C20_base32_roundtrip_all_splits.

Theorem C20_base32hex_roundtrip_all_splits : forall d, wf_data d ->
  exists e, transform d F_NONE F_BASE32HEX = Ok e /\ flat e = b32_spec base32hex_encode_table (flat d) /\
    forall d', flat d' = flat e -> dsize d' < 2 ^ 60 ->
      flat_res (transform d' F_BASE32HEX F_NONE) = Ok (flat d).
Proof. exact base32hex_roundtrip_all_splits. Qed.
Print Assumptions C20_base32hex_roundtrip_all_splits.

(* ---------------------------------------------------------------- Base decoders on arbitrary input *)

(* arbitrary input, arbitrary split: the answer (NULL or bytes) is a function of the concatenation only; the OOB
   outcome is unreachable; whatever is returned is accepted by the inverse transform *)
Theorem C20_base64_decode_total : forall d, wf_data d ->
  flat_res (transform d F_BASE64 F_NONE) = (if dsize d =? 0 then Ok (flat d) else dec64_flat (flat d)) /\
  (forall site, transform d F_BASE64 F_NONE <> OOB site) /\
  (forall t, transform d F_BASE64 F_NONE = Ok t -> Forall (fun r => r <> []) t -> dsize t < 2 ^ 60 ->
             exists e, transform t F_NONE F_BASE64 = Ok e).
Proof. exact base64_decode_total. Qed.
Print Assumptions C20_base64_decode_total.

Theorem C20_base32_decode_total : forall d, wf_data d ->
  flat_res (transform d F_BASE32 F_NONE) =
    (if dsize d =? 0 then Ok (flat d) else dec32_flat base32_decode_table base32_decode_table_size (flat d)) /\
  (forall site, transform d F_BASE32 F_NONE <> OOB site) /\
  (forall t, transform d F_BASE32 F_NONE = Ok t -> Forall (fun r => r <> []) t -> dsize t < 2 ^ 60 ->
             exists e, transform t F_NONE F_BASE32 = Ok e).
Proof. exact base32_decode_total. Qed.
Print Assumptions C20_base32_decode_total.

Theorem C20_base32hex_decode_total : forall d, wf_data d ->
  flat_res (transform d F_BASE32HEX F_NONE) =
    (if dsize d =? 0 then Ok (flat d) else dec32_flat base32hex_decode_table base32hex_decode_table_size (flat d)) /\
  (forall site, transform d F_BASE32HEX F_NONE <> OOB site) /\
  (forall t, transform d F_BASE32HEX F_NONE = Ok t -> Forall (fun r => r <> []) t -> dsize t < 2 ^ 60 ->
             exists e, transform t F_NONE F_BASE32HEX = Ok e).
Proof. exact base32hex_decode_total. Qed.
Print Assumptions C20_base32hex_decode_total.

(* "NULL or accepted by the inverse" about the RETURNED object of a Base decoder, no premise on that object *)
Theorem C20_base_decode_returned_accepted : forall f, (f = 5 \/ f = 6 \/ f = 7) ->
  forall d t, wf_data d -> transform d f F_NONE = Ok t -> exists e, transform t F_NONE f = Ok e.
Proof. exact base_decode_returned_accepted. Qed.
Print Assumptions C20_base_decode_returned_accepted.

(* every ordered pair of Base32 / Base32Hex / Base64 (decode, then encode the decoder's multi-region object): arbitrary
   input and split; result = encode(decode(concatenation)); NULL exactly when the decoder's fold rejects; never OOB *)
Theorem C20_base_recode_all : forall fi fo, (fi = 5 \/ fi = 6 \/ fi = 7) -> (fo = 5 \/ fo = 6 \/ fo = 7) ->
  forall d, wf_data d ->
    flat_res (transform d fi fo) =
      (if dsize d =? 0 then Ok (flat d)
       else match base_dec fi (flat d) with Ok V => Ok (base_enc fo V) | Null => Null | OOB s => OOB s end) /\
    (forall site, transform d fi fo <> OOB site).
Proof. exact base_recode_all. Qed.
Print Assumptions C20_base_recode_all.

(* ---------------------------------------------------------------- UTF-8 <-> UTF-16 *)

(* every sequence cps of Unicode scalar values, every split d of its UTF-8 encoding, either byte order, every split d'
   of the UTF-16 text produced.  BOM handling, exactly: the encoder writes its own BOM and drops ONE leading U+FEFF of
   the text; the decoder drops the BOM it finds; _dispatch_transform_to_utf8_without_bom drops one more leading U+FEFF
   if the text had two.  wf_utf = no empty region, total size < 2^60; regions of any size. *)
Theorem C20_utf_roundtrip_all_splits : forall le cps d,
  Forall scalar cps -> flat d = utf8_of cps -> wf_utf d ->
  exists e, transform d F_UTF8 (fmt16 le) = Ok e /\
            flat e = match cps with [] => [] | _ => bom16 le ++ utf16_of le (strip1 cps) end /\
    forall d', flat d' = flat e -> wf_utf d' ->
      flat_res (transform d' (fmt16 le) F_UTF8) = Ok (utf8_of (strip1 (strip1 cps))).
Proof. exact utf_roundtrip_all_splits. Qed.
Print Assumptions C20_utf_roundtrip_all_splits.

(* the same with the inverse applied to the RETURNED object e (which is well formed) *)
Theorem C20_utf_roundtrip_returned : forall le cps d,
  Forall scalar cps -> flat d = utf8_of cps -> wf_utf d -> dsize d < 2 ^ 57 ->
  exists e, transform d F_UTF8 (fmt16 le) = Ok e /\ wf_utf e /\
            flat_res (transform e (fmt16 le) F_UTF8) = Ok (utf8_of (strip1 (strip1 cps))).
Proof. exact utf_roundtrip_returned. Qed.
Print Assumptions C20_utf_roundtrip_returned.

(* arbitrary bytes, arbitrary regions of arbitrary sizes: the result is a function of the concatenation (to16_flat /
   from16_flat are folds over the flat string), NULL exactly when that fold rejects, and the OOB outcome is
   unreachable (never reads or writes outside its objects): no size guard *)
Theorem C20_utf8_to_utf16_total : forall le d, wf_utf d ->
  flat_res (transform d F_UTF8 (fmt16 le)) =
    (if dsize d =? 0 then Ok (flat d) else match to16_flat le (flat d) with Some x => Ok x | None => Null end) /\
  (forall site, transform d F_UTF8 (fmt16 le) <> OOB site).
Proof. exact utf8_to_utf16_total. Qed.
Print Assumptions C20_utf8_to_utf16_total.

Theorem C20_utf16_to_utf8_total : forall le d, wf_utf d ->
  flat_res (transform d (fmt16 le) F_UTF8) =
    (if dsize d =? 0 then Ok (flat d)
     else match from16_flat le (flat d) with Some x => Ok (strip_bom8 x) | None => Null end) /\
  (forall site, transform d (fmt16 le) F_UTF8 <> OOB site).
Proof. exact utf16_to_utf8_total. Qed.
Print Assumptions C20_utf16_to_utf8_total.

(* the returned objects are well formed, so the theorems below apply to them *)
Theorem C20_utf8_to_utf16_output_wf : forall le d e, wf_utf d -> dsize d < 2 ^ 57 ->
  transform d F_UTF8 (fmt16 le) = Ok e -> wf_utf e.
Proof. exact utf8_to_utf16_output_wf. Qed.
Print Assumptions C20_utf8_to_utf16_output_wf.
Theorem C20_utf16_to_utf8_output_wf : forall le d e, wf_utf d -> dsize d < 2 ^ 58 ->
  transform d (fmt16 le) F_UTF8 = Ok e -> wf_utf e.
Proof. exact utf16_to_utf8_output_wf. Qed.
Print Assumptions C20_utf16_to_utf8_output_wf.

(* "NULL or accepted by the inverse", ARBITRARY input: the object a UTF transform returns is accepted by the inverse *)
Theorem C20_utf8_to_utf16_returned_accepted : forall le d e, wf_utf d -> dsize d < 2 ^ 57 ->
  transform d F_UTF8 (fmt16 le) = Ok e -> exists t, transform e (fmt16 le) F_UTF8 = Ok t.
Proof. exact utf8_to_utf16_returned_accepted. Qed.
Print Assumptions C20_utf8_to_utf16_returned_accepted.
Theorem C20_utf16_to_utf8_returned_accepted : forall le d e, wf_utf d -> dsize d < 2 ^ 58 -> bytes (flat d) ->
  transform d (fmt16 le) F_UTF8 = Ok e -> exists t, transform e F_UTF8 (fmt16 le) = Ok t.
Proof. exact utf16_to_utf8_returned_accepted. Qed.
Print Assumptions C20_utf16_to_utf8_returned_accepted.

(* ... and so is every re-split of the returned text *)
Theorem C20_utf8_to_utf16_inverse_accepts : forall le d e, wf_utf d ->
  transform d F_UTF8 (fmt16 le) = Ok e ->
  forall d', flat d' = flat e -> wf_utf d' -> exists t, transform d' (fmt16 le) F_UTF8 = Ok t.
Proof. exact utf8_to_utf16_inverse_accepts. Qed.
Print Assumptions C20_utf8_to_utf16_inverse_accepts.

Theorem C20_utf16_to_utf8_inverse_accepts : forall le d e, wf_utf d -> bytes (flat d) ->
  transform d (fmt16 le) F_UTF8 = Ok e ->
  forall d', flat d' = flat e -> wf_utf d' -> exists t, transform d' F_UTF8 (fmt16 le) = Ok t.
Proof. exact utf16_to_utf8_inverse_accepts. Qed.
Print Assumptions C20_utf16_to_utf8_inverse_accepts.

(* the pairs without conversion *)
Theorem C20_utf8_to_utf8 : forall d, exists t, transform d F_UTF8 F_UTF8 = Ok t /\ flat t = strip_bom8 (flat d).
Proof. exact utf8_to_utf8_strips_bom. Qed.
Print Assumptions C20_utf8_to_utf8.
Theorem C20_none_to_none : forall d, transform d F_NONE F_NONE = Ok d.
Proof. exact none_to_none_identity. Qed.
Print Assumptions C20_none_to_none.

(* UTF_ANY as input format: decided by the first two bytes *)
Theorem C20_utf_any_detect : forall d out,
  transform d F_UTF_ANY out = match detect_flat (flat d) with Some f => transform d f out | None => Null end.
Proof. exact utf_any_detect. Qed.
Print Assumptions C20_utf_any_detect.

(* hypotheses are satisfiable on non-trivial states, and the repaired defects behave *)
Example C20_nonvacuous :
  wf_data [[77]; [97; 110]] /\
  wf_utf [[195]; [169; 226]; [130; 172]] /\ Forall scalar [233; 8364] /\ flat [[195]; [169; 226]; [130; 172]] = utf8_of [233; 8364] /\
  show (transform [[77]; [97; 110]] F_NONE F_BASE64) = [0; 84; 87; 70; 117] /\
  show (transform [[84]; [87; 70]; [117]] F_BASE64 F_NONE) = [0; 77; 97; 110] /\
  show (transform [[81; 81]; [61]; [61]] F_BASE64 F_NONE) = [0; 65] /\
  show (transform [[61]] F_BASE64 F_NONE) = [0] /\
  show (transform [[67; 52; 61; 61; 61; 61]; [61; 61]] F_BASE32HEX F_NONE) = [0; 97] /\
  show (transform [[195]; [169; 226]; [130; 172]] F_UTF8 F_UTF16LE) = [0; 255; 254; 233; 0; 172; 32] /\
  show (transform [[61; 216; 0]; [220]] F_UTF16LE F_UTF8) = [0; 240; 159; 144; 128] /\
  show (transform [[237; 191; 191]] F_UTF8 F_UTF16LE) = [1].
Proof.
  split.
  { unfold wf_data. split; [|split].
    - repeat (apply Forall_cons; [discriminate|]). apply Forall_nil.
    - unfold bytes. cbn [flat concat app]. repeat (apply Forall_cons; [unfold byte; lia|]). apply Forall_nil.
    - vm_compute. reflexivity. }
  split.
  { unfold wf_utf. split.
    - repeat (apply Forall_cons; [discriminate|]). apply Forall_nil.
    - vm_compute. reflexivity. }
  split.
  { repeat (apply Forall_cons; [reflexivity|]). apply Forall_nil. }
  repeat split; vm_compute; reflexivity.
Qed.
