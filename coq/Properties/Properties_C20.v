(* C20 — data transforms round-trip and never read outside their input (under construction) *)
From Coq Require Import ZArith List Bool.
From Verif Require Import Word Transform Transform_proofs.
Import ListNotations.
Local Open Scope Z_scope.

Example C20_nonvacuous : show (transform [[65]] F_NONE F_BASE64) = [0; 81; 81; 61; 61].
Proof. exact smoke_b64. Qed.
