(* C10 — dispatch_apply invokes every index exactly once and then returns.
   Model: Model/Apply.v; generated pieces (Gen_apply, regenerated from src/apply.c, src/shims/lock.c on every run):
   _dispatch_queue_try_reserve_apply_width (whole function), width constants, atomic-site lists.
   Protocol statements are about every reachable state of the model of one apply record: any iteration count n >= 1,
   any initial da_thr_cnt T (the caller c and T-1 helper continuations, each of which may start at any time or
   never), any interleaving, spurious futex returns included.  A nested apply is another instance of the same model
   on its own record (the work function is opaque), so the statements hold at every nesting depth.

   Client-side bound (valid_params, an explicit premise of every protocol theorem): iterations + da_thr_cnt < 2^64.  It is
   NOT implied by dispatch_apply_f's own arithmetic for iterations in (2^64 - 2^31, 2^64): da_index is a size_t that every
   participant increments once more after the last index, so for such n it would wrap and hand out index 0 again — after
   more than 1.8e19 callouts have run, which no execution can reach and which therefore cannot be demonstrated on the
   library.  C10_path_valid_params derives valid_params from the code's thread count for every iterations <= 2^64 - 2^31.

   Nested applies (dispatch_apply called from inside a work function): (i) the inner call creates its own record, and the
   protocol theorems are stated for one record with an opaque work function and arbitrary (n, T, caller), so
   C10_each_index_once / C10_return_after_all / C10_record_freed_once / the termination theorems hold for the inner and
   the outer record separately (an instance each; nothing in the model of one record depends on what a work function
   does); (ii) what the code does differently when nested is the thread count and the path: C10_path_thread_count and
   C10_path_valid_params are quantified over `nested` (dtc_apply_nesting), C10_nested_thread_count gives the division
   (the whole nest asks for at most max-parallelism threads), the da_nested product / cap 65535, and
   C10_nested_serial_fallback the serial path once the nest is saturated (then C10_serial_in_order); (iii) recorded rounds
   of nested applies (depth 2 and 3) are replayed on the global model like any other (evidence: nested_rounds_replayed).
   There is no model of two records at once; none is needed for the stated clauses.

   Termination: C10_every_step_pays / C10_execution_bound (potential function Apply_measure.Phi, 3n + 6T + 5 initially):
   every step of every participant, helper starts included, lowers Phi by at least 1, except a spurious return of
   futex_wait (kernel returns without wake-up and without a change of the word: +2 at most).  The protocol has no
   compare-and-swap loop (only fetch-add / fetch-sub / load), so no fairness assumption about CAS is involved; a caller
   asleep in futex_wait is blocked, not spinning.  C10_nothing_enabled_all_done: when no participant that has entered can
   step (a blocked sleeper cannot), dispatch_apply_f has returned with every index invoked once and finished —
   whether or not any helper ever ran.  C10_terminates_without_helpers and C10_participants_never_blocked are the state
   invariant and the one-step enabledness these rest on, not termination statements by themselves.

   The record: freed AT MOST once in every execution (C10_record_freed_once: freed is 0 or 1, and 1 exactly when
   da_thr_cnt is 0), and exactly once precisely when all T participants have run (C10_nothing_enabled_record); when some
   helper continuation never starts, the record is not freed (it is still held by that continuation).

   The model's enabling condition for a helper ("a participant may enter invoke2 only while fewer than T participants
   have entered": each of the T-1 continuations pushed by _dispatch_apply_f is invoked at most once) is ARGUED from
   the root-queue model (two theorems about two separate models and a prose step between them; no single statement
   mentions both Apply.parts and RootQ.hpop): Properties_C01_root.C01_root_pop_unique (the k-th dequeue returns the k-th pushed item, no item is
   dequeued twice) together with C10_helper_batch_push_is_rootq_run below.  Modelling limit of RootQ: it has pushes of ONE
   item, whereas _dispatch_apply_f pushes its T-1 continuations with one os_mpsc_push_list (privately pre-linked chain,
   one exchange on dq_items_tail, one link store).  The limit does not matter for at-most-once: the theorem below shows
   that both shared states of such a batch push are reachable RootQ states (reached by T-1 single pushes run back to back,
   the first pusher's link store last), with the same list, the same ghost chain and push history; the batch performs no
   other shared access in between, so its interleavings are a subset of RootQ's.  Not carried over: the poke (one request for
   T-1 workers instead of T-1 requests for one) — it only decides how many workers wake up, which no C10 theorem uses
   (C10_terminates_without_helpers holds even if no helper ever runs).  Also outside RootQ: that the worker which dequeued
   a continuation invokes it exactly once (_dispatch_continuation_pop / C01's drain part: runs history of RootQ). *)
From Coq Require Import ZArith Bool List.
From Verif Require Import Word Conc Gen_consts Gen_fields Gen_apply Apply Apply_proofs ApplyR ApplyR_proofs.
From Verif Require RootQ ApplyRoot_proofs.
From Verif Require Import Apply_measure.
Import ListNotations.
Local Open Scope Z_scope.

(* -- every index at most once, only indices in [0,n), a callout ends only after it began -- *)
Theorem C10_each_index_once : forall n T c, valid_params n T -> forall s i, reach n T c s ->
  (begun s i = 0 \/ begun s i = 1) /\ (ended s i = 0 \/ ended s i = 1) /\ ended s i <= begun s i /\
  (begun s i = 1 -> 0 <= i < n) /\ (begun s i = 1 -> exists t, owner s i = Some t).
Proof. exact each_index_once. Qed.
Print Assumptions C10_each_index_once.

(* -- at the caller's return the invoked set is exactly [0,n) and every invocation has finished: the RET event of
      dispatch_apply_f is enabled only in states where every index has begun and ended (the da_todo handshake) -- *)
Theorem C10_return_after_all : forall n T c, valid_params n T -> forall s t e s',
  reach n T c s -> gstep n T c s t e = Some s' -> ev_kind e DVU_RET = true ->
  t = c /\ forall i, 0 <= i < n -> begun s i = 1 /\ ended s i = 1.
Proof. exact return_after_all. Qed.
Print Assumptions C10_return_after_all.
Theorem C10_returned_implies_all_finished : forall n T c, valid_params n T -> forall s,
  reach n T c s -> returned s = true -> forall i, 0 <= i < n -> begun s i = 1 /\ ended s i = 1.
Proof. exact returned_after_all. Qed.
Print Assumptions C10_returned_implies_all_finished.

(* -- (state invariant used by the termination theorems below) whenever the caller waits for the event, either it has
      been signalled (and a sleeping caller has its futex_wake coming), or the signaller is at the signal, or a
      participant that is ALREADY inside invoke2 still owes its subtraction; such a participant always has a step -- *)
Theorem C10_terminates_without_helpers : forall n T c, valid_params n T -> forall s,
  reach n T c s -> waiting (pcs s c) = true ->
  (sigd s = true /\ evt s = (if waited s then 0 else 1) /\
     (slp s = Sleeping -> exists g, signaller s = Some g /\ pcs s g = PWake)) \/
  (sigd s = false /\
     ((exists g, signaller s = Some g /\ pcs s g = PSignal) \/
      (exists t, In t (parts s) /\ t <> c /\ 0 < pending (pcs s t)))).
Proof. exact terminates_without_helpers. Qed.
Print Assumptions C10_terminates_without_helpers.
Theorem C10_participants_never_blocked : forall n T c s t,
  working (pcs s t) = true -> exists e s', gstep n T c s t e = Some s'.
Proof. exact participant_enabled. Qed.
Print Assumptions C10_participants_never_blocked.

(* -- the record is freed at most once, exactly when da_thr_cnt reaches 0, after all T participants have left
      invoke2; nobody touches it afterwards (uaf), da_dc is never read after the caller returned (dcbad), and every
      participant inside invoke2 holds an unclaimed unit of da_thr_cnt -- *)
Theorem C10_record_freed_once : forall n T c, valid_params n T -> forall s, reach n T c s ->
  0 <= thrcnt s /\ (freed s = 0 \/ freed s = 1) /\ (freed s = 1 <-> thrcnt s = 0) /\ uaf s = false /\ dcbad s = false /\
  (freed s = 1 -> Z.of_nat (length (parts s)) = T /\ forall t, holds (pcs s t) = 0).
Proof. exact record_freed_once. Qed.
Print Assumptions C10_record_freed_once.
Theorem C10_access_holds_unit : forall n T c, valid_params n T -> forall s t,
  reach n T c s -> holds (pcs s t) = 1 -> 1 <= thrcnt s /\ freed s = 0.
Proof. exact access_holds_unit. Qed.
Print Assumptions C10_access_holds_unit.

(* -- width reservation on custom queues: for every chain of queues, every 64-bit state word per level and every
      thread count, with m = min(thr-1, available width of every level): m = 0 -> serial fallback with every level
      exactly as before; m > 0 -> during the apply every level holds exactly m extra units (no wrap of the word),
      da_thr_cnt = m + 1 (helpers = the minimum granted), and after the final relinquish every level is exactly as
      before -- *)
Theorem C10_width_balanced : forall chain thr, Forall wf chain -> 2 <= thr < 2147483648 ->
  let r := redirect_during chain thr in
  let m := min_avail chain (thr - 1) in
  0 <= m <= thr - 1 /\ Forall (fun l => m <= avail l) chain /\
  (m = 0 -> r_serial r = true /\ r_chain r = chain /\ fst (redirect_after r) = chain) /\
  (m <> 0 -> r_serial r = false /\ r_width r = m /\ r_thr r = m + 1 /\
             r_chain r = map (add_width m) chain /\ Forall (fun l => lv_state l + m * 2199023255552 < 18446744073709551616) chain /\
             fst (redirect_after r) = chain).
Proof. exact width_balanced. Qed.
Print Assumptions C10_width_balanced.

(* -- serial queues: _dispatch_apply_serial invokes 0, 1, ..., n-1 in this order (under dispatch_sync_f: C02) -- *)
Theorem C10_serial_in_order : forall n, 1 <= n < 18446744073709551616 -> apply_serial n = zrange 0 (Z.to_nat n).
Proof. exact serial_in_order. Qed.
Print Assumptions C10_serial_in_order.

(* -- n = 0 returns immediately -- *)
Theorem C10_zero_returns_immediately : forall nested maxpar w ht os, apply_f_path 0 nested maxpar w ht os = PathReturn.
Proof. exact zero_returns. Qed.
Print Assumptions C10_zero_returns_immediately.

(* -- the thread count that dispatch_apply_f hands to the parallel / redirect path: 2 <= T <= min(iterations, max
      parallelism) (hypothesis of the width theorem); with the client-side bound iterations <= 2^64 - 2^31 it satisfies
      valid_params, the premise of the protocol theorems -- *)
Theorem C10_path_thread_count : forall iterations nested maxpar w ht os T,
  1 <= iterations < 18446744073709551616 -> 0 <= maxpar < 2147483648 -> 0 <= nested < 18446744073709551616 ->
  (apply_f_path iterations nested maxpar w ht os = PathParallel T \/ apply_f_path iterations nested maxpar w ht os = PathRedirect T) ->
  2 <= T <= iterations /\ T <= maxpar.
Proof. exact path_thread_count. Qed.
Print Assumptions C10_path_thread_count.

Theorem C10_path_valid_params : forall iterations nested maxpar w ht os T,
  1 <= iterations <= 18446744073709551616 - 2147483648 -> 0 <= maxpar < 2147483648 -> 0 <= nested < 18446744073709551616 ->
  (apply_f_path iterations nested maxpar w ht os = PathParallel T \/ apply_f_path iterations nested maxpar w ht os = PathRedirect T) ->
  valid_params iterations T.
Proof. exact path_valid_params. Qed.
Print Assumptions C10_path_valid_params.

(* -- nested applies: division of the thread count, da_nested, serial fallback of a saturated nest (see the header) -- *)
Theorem C10_nested_thread_count : forall maxpar nested iterations,
  1 <= iterations < 18446744073709551616 -> 0 <= maxpar < 2147483648 -> 1 <= nested < 18446744073709551616 ->
  let t := fst (apply_thr_cnt maxpar nested iterations) in
  let nn := snd (apply_thr_cnt maxpar nested iterations) in
  (maxpar <= nested -> t = 1) /\ (nested < maxpar -> 1 <= t /\ t * nested <= maxpar) /\
  1 <= nn < 4294967296 /\
  (nested < APPLY_MAX -> iterations < APPLY_MAX -> nn = nested * iterations) /\
  (~ (nested < APPLY_MAX /\ iterations < APPLY_MAX) -> nn = APPLY_MAX).
Proof. exact nested_thread_count. Qed.
Print Assumptions C10_nested_thread_count.
Theorem C10_nested_serial_fallback : forall iterations nested maxpar w ht os,
  1 <= iterations < 18446744073709551616 -> 0 <= maxpar < 2147483648 -> 1 <= nested < 18446744073709551616 ->
  maxpar <= nested -> apply_f_path iterations nested maxpar w ht os = PathSerial.
Proof. exact nested_serial_fallback. Qed.
Print Assumptions C10_nested_serial_fallback.

(* -- termination (Proofs/Apply_measure.v): every step pays; bound on every execution from every reachable state, with
      any helpers starting or never starting; the end of every maximal execution -- *)
Theorem C10_every_step_pays : forall n T c, valid_params n T -> forall s t e s',
  Inv2 n T c s -> gstep n T c s t e = Some s' -> Phi n T c s' + 1 <= Phi n T c s + (if spurious s t then 3 else 0).
Proof. exact step_delta. Qed.
Print Assumptions C10_every_step_pays.
Theorem C10_execution_bound : forall n T c, valid_params n T -> forall s tr s',
  reach n T c s -> grun n T c s tr = Some s' -> Z.of_nat (length tr) <= Phi n T c s + 3 * n_spurious n T c s tr.
Proof. exact no_livelock. Qed.
Print Assumptions C10_execution_bound.
Theorem C10_execution_bound_no_spurious_futex_return : forall n T c, valid_params n T -> forall s tr s',
  reach n T c s -> grun n T c s tr = Some s' -> n_spurious n T c s tr = 0 -> Z.of_nat (length tr) <= Phi n T c s.
Proof. exact bound_without_spurious_futex_returns. Qed.
Print Assumptions C10_execution_bound_no_spurious_futex_return.
Theorem C10_whole_apply_bound : forall n T c, valid_params n T -> Phi n T c (init_state n T c) = 3 * n + 6 * T + 5.
Proof. exact Phi_init. Qed.
Print Assumptions C10_whole_apply_bound.
Theorem C10_nothing_enabled_all_done : forall n T c, valid_params n T -> forall s, reach n T c s ->
  (forall t, In t (parts s) -> forall e s', gstep n T c s t e = Some s' -> spurious s t = true) ->
  pcs s c = PRet /\ returned s = true /\
  (forall i, 0 <= i < n -> begun s i = 1 /\ ended s i = 1) /\ (forall i, begun s i = 1 -> 0 <= i < n) /\
  (forall t, In t (parts s) -> t <> c -> pcs s t = PDone).
Proof. exact nothing_enabled_all_done. Qed.
Print Assumptions C10_nothing_enabled_all_done.
(* ... and the record then: freed exactly once if all T participants ran, else still held by the unstarted continuations *)
Theorem C10_nothing_enabled_record : forall n T c, valid_params n T -> forall s, reach n T c s ->
  (forall t, In t (parts s) -> forall e s', gstep n T c s t e = Some s' -> spurious s t = true) ->
  thrcnt s = T - Z.of_nat (length (parts s)) /\
  (Z.of_nat (length (parts s)) = T -> freed s = 1) /\ (Z.of_nat (length (parts s)) < T -> freed s = 0) /\ uaf s = false.
Proof. exact nothing_enabled_record. Qed.
Print Assumptions C10_nothing_enabled_record.

(* -- ties: the model's atomic sites and memory orders are the source's; the global model moves participants by the
      automaton that the recorded traces of the real library are replayed through -- *)
Theorem C10_sites_match_source :
  model_sites_invoke2 = f_dispatch_apply_invoke2_sites /\ model_sites_wait_slow = f_dispatch_thread_event_wait_slow_sites /\
  model_sites_relinquish = f_dispatch_queue_relinquish_width_sites /\ f_dispatch_queue_try_reserve_apply_width_order = Relaxed /\
  f_dispatch_apply_redirect_sites =
    f_dispatch_queue_try_reserve_apply_width_sites ++ model_sites_relinquish ++ redirect_push_sites ++ model_sites_invoke2 ++ model_sites_relinquish.
Proof. repeat split. Qed.
Print Assumptions C10_sites_match_source.
Theorem C10_model_uses_thread_automaton : forall n T c s t e s',
  gstep n T c s t e = Some s' -> tstep n (t =? c) (pcs s t) e = Some (pcs s' t).
Proof. exact gstep_tstep. Qed.
Print Assumptions C10_model_uses_thread_automaton.

(* -- replay of whole recorded rounds on the GLOBAL model (Model/ApplyR.v, lib/props/c10.py): whatever action lists,
      preferred order and window the scheduler is given, it only takes steps of Apply.gstep, so the state whose words and
      ghost fields a replay reports is reachable and every theorem above applies to it; and the executable invariant
      inv_b that the replay evaluates on the states it passes through is true on every reachable state (a FALSE would
      be a concrete state contradicting the proof's reading of the model's ghost bookkeeping) -- *)
Theorem C10_replay_reach : forall n T c w chk tids qs ord,
  reach n T c (x_st (sched n T c (S (length ord)) w chk tids (init_state n T c) qs ord 0 0 (-1))).
Proof. exact replay_reach. Qed.
Print Assumptions C10_replay_reach.
Theorem C10_inv_b_reach : forall n T c tids s, valid_params n T -> reach n T c s -> inv_b n T c tids s = true.
Proof. exact inv_b_reach. Qed.
Print Assumptions C10_inv_b_reach.

(* -- the batch push of the helper continuations is a run of the root-queue model (see the header): from any reachable
      RootQ state s with fresh items x1 :: xs and idle pusher ids, phase A (= the batch's exchange) and phase B (= its link
      store) are executed by RootQ.gstep, both resulting states are reachable, and they carry exactly the batch's effect -- *)
Theorem C10_helper_batch_push_is_rootq_run : forall oc p0 s t1 x1 rest,
  RootQ.reach oc p0 s -> ApplyRoot_proofs.fresh s ((t1, x1) :: rest) ->
  let P := RootQ.tail s in let xs := map snd rest in
  exists sA sB,
    RootQ.grun oc s (ApplyRoot_proofs.batch_phaseA t1 x1 P rest) = Some sA /\
    RootQ.grun oc sA (ApplyRoot_proofs.batch_phaseB t1 x1 P) = Some sB /\
    RootQ.reach oc p0 sA /\ RootQ.reach oc p0 sB /\
    RootQ.tail sA = last xs x1 /\ RootQ.head sA = RootQ.head s /\ ApplyRoot_proofs.linked (RootQ.nxt sA) x1 xs /\
    RootQ.chain sA = RootQ.chain s ++ x1 :: xs /\ map fst (RootQ.hpush sA) = map fst (RootQ.hpush s) ++ x1 :: xs /\
    RootQ.hpop sA = RootQ.hpop s /\ (P <> 0 -> RootQ.nxt sA P = RootQ.nxt s P) /\
    RootQ.tail sB = RootQ.tail sA /\ RootQ.chain sB = RootQ.chain sA /\ RootQ.hpush sB = RootQ.hpush sA /\
    RootQ.hpop sB = RootQ.hpop sA /\ ApplyRoot_proofs.linked (RootQ.nxt sB) x1 xs /\
    (if P =? 0 then RootQ.head sB = x1 else RootQ.nxt sB P = x1 /\ RootQ.head sB = RootQ.head s).
Proof. exact ApplyRoot_proofs.batch_push_is_a_rootq_run. Qed.
Print Assumptions C10_helper_batch_push_is_rootq_run.

(* non-vacuity: n = 2, T = 2, caller 1, helper 2.  The caller runs index 0, finds nothing left, subtracts (todo 2 -> 1),
   waits and sleeps in futex_wait; the helper runs index 1, brings da_todo to 0, signals (UINT32_MAX -> 0), wakes the
   caller and leaves; the caller wakes up, gives back the last unit (record freed) and returns.  Plus a width case:
   a chain of two queues with 15 and 3 free units and 16 threads wanted ends with 3 helpers and unchanged words. *)
Definition ev k o off sz a b := mkEv k o 0 off sz a b 1.
Definition demo : list (Z * event) :=
  [ (1, ev DV_ADD 2 8 8 0 1); (2, ev DVU_MARK 0 0 0 2 0); (2, ev DV_ADD 2 8 8 1 1);
    (1, ev DVU_CALLOUT_BEGIN 0 0 0 0 0); (1, ev DVU_CALLOUT_END 0 0 0 0 0); (1, ev DV_ADD 0 8 8 2 1);
    (1, ev DV_SUB 3 16 8 2 1); (1, ev DV_SUB 2 40 4 0 1); (1, ev DV_LOAD 2 40 4 4294967295 4294967295);
    (1, ev DV_FUTEX_WAIT 0 40 0 4294967295 0);
    (2, ev DVU_CALLOUT_BEGIN 0 0 0 1 0); (2, ev DVU_CALLOUT_END 0 0 0 1 0); (2, ev DV_ADD 0 8 8 3 1);
    (2, ev DV_SUB 3 16 8 1 1); (2, ev DV_ADD 3 40 4 4294967295 1); (2, ev DV_FUTEX_WAKE 0 40 0 1 0);
    (2, ev DV_SUB 3 48 4 2 1);
    (1, ev DV_FUTEX_WAIT_RET 0 40 0 4294967295 0); (1, ev DV_LOAD 2 40 4 0 0); (1, ev DV_SUB 3 48 4 1 1);
    (1, ev DVU_RET 0 0 0 2 0) ].
Example C10_nonvacuous :
  valid_params 2 2 /\
  match grun 2 2 1 (init_state 2 2 1) (firstn 10 demo) with
  | Some s => slp s = Sleeping /\ pcs s 1 = PWaitSleep /\ todo s = 1 /\ pending (pcs s 2) = 1 /\ sigd s = false
  | None => False end /\
  match grun 2 2 1 (init_state 2 2 1) demo with
  | Some s => returned s = true /\ freed s = 1 /\ thrcnt s = 0 /\ begun s 0 = 1 /\ begun s 1 = 1 /\ ended s 1 = 1 /\
              begun s 2 = 0 /\ uaf s = false /\ pcs s 1 = PRet /\ pcs s 2 = PDone /\ slp s = Awake
  | None => False end /\
  (let chain := [mkLevel 16 8974213905907712; mkLevel 4 9000602184974336] in
   let r := redirect_during chain 16 in
   min_avail chain 15 = 3 /\ r_thr r = 4 /\ map lv_state (r_chain r) = [8980810975674368; 9007199254740992] /\
   fst (redirect_after r) = chain) /\
  apply_serial 5 = [0; 1; 2; 3; 4].
Proof. vm_compute. repeat split; try discriminate. Qed.
