(* C19 — dispatch block objects: cancel, wait and notify follow the execution.
   Model: Model/Block.v (thread automaton with latent plain accesses + memory / abstract private group / ghost state)
   for ONE block object created by dispatch_block_create (reach false) or one DBF_PERFORM record of
   dispatch_block_perform (reach true); DBF_* constants and the ordered atomic-site lists are Gen_block, regenerated
   from src/queue.c.  All statements are about every reachable state: any number of threads invoking (directly, by
   dispatch_sync, from a queue), cancelling, testing, waiting and notifying, any number of invocations of the same
   object, any interleaving of their atomic steps.  Ghost state: bodies = body executions started; fin = invocations
   that reached `out:` (body returned, or skipped because cancelled); ninv = increments of dbpd_performed; leaves =
   dispatch_group_leave calls on the private group; nreg / fcnt i = notifications registered / times notification i
   was submitted; cancelled = some dispatch_block_cancel has performed its os_atomic_or.
   The private group itself (dispatch_group_wait / _notify / _leave) is abstracted as stated in Block.v; its own
   correctness is property C07.

   WHAT KIND OF STATEMENT EACH THEOREM IS (audit F8):
   - IMPORTED, NOT PROVED HERE: the semantics of the private group.  "dispatch_group_wait answers 0 only when the count
     is zero", "answers non-zero only for a timeout other than FOREVER" and "a notification is submitted at once when
     the count is zero, otherwise by the leave that reaches zero, exactly once" are built into Block.gstep / tstep_grp
     (G_WAITRET, G_NOTIFY, leave_fx) BY FIAT; they are C07's clauses (and C07 does not prove the elapsed-time half of the
     timeout clause: that one is judged on the real library with its own clock).  C19_wait_nonzero_only_by_timeout and
     the "exactly once" of C19_notify_once_not_early are therefore restatements of those assumptions about the group;
     what C19 adds is WHEN the group is left (the first completion, or the destructor of a never-performed object).
   - SINGLE-STEP UNFOLDINGS of tstep / gstep with no reachability hypothesis, i.e. readings of the model rather than
     invariants (9 of them): C19_leave_iff_increment_returns_1, C19_wait_nonzero_only_by_timeout,
     C19_wait_returns_group_result, C19_wait_way_out_keeps_other_bits, C19_cancel_while_running_not_interrupted ("not
     interrupted" is true by construction: PInBody has one outgoing event), C19_no_thread_moves_another,
     C19_cancel_sets_bit, C19_testcancel_monotone, C19_no_use_after_last_release.  Their value is only as good as the tie of the model to the code (site lists, per-thread
     conformance, whole-round replay on the global model).
   - INVARIANTS of every reachable state (inv_reach): all the others.

   END OF LIFE (src/block.cpp, destructor of the private data, run by the release of the LAST reference): modelled
   (OP_RELEASE, the PDtor program points).  An object destroyed WITHOUT EVER HAVING BEEN PERFORMED leaves its group: registered
   notifications are then submitted although nothing completed.  This is the library's behaviour (confirmed on the real
   library); block.h declares "observed ... and never executed" undefined, so the property's "not before that completion"
   holds for clients inside the documented contract.  The private group is therefore left in ONE of two ways — by the
   invocation whose increment of dbpd_performed returns 1, or by that destructor (both disjuncts of
   C19_only_leave_at_first_completion) — and the second one (dleave) is a way out for NOTIFICATIONS only
   (C19_notify_once_not_early); for a waiter it is unreachable, which is what C19_wait_zero_* state (dleave s = false).
   "Still completes for waiters and notifiers" is shown as enabledness (the completion steps are the only steps the
   invoking thread has), not as a bound on time.  Client contract assumed by the release step: it is the last reference — no thread is inside a call on the
   object, no submission is queued (C19_last_release_is_quiescent) — so a waiter can never be answered by the
   destructor (C19_wait_zero_*: dleave s = false). *)
From Coq Require Import ZArith Bool List.
From Verif Require Import Word Conc Gen_consts Gen_fields Gen_group Gen_block Block Block_proofs BlockR BlockR_proofs.
Import ListNotations.
Local Open Scope Z_scope.

(* ---- dispatch_block_wait returns zero only after the first execution (or skipped execution) has completed ---- *)
(* the private group's wait can answer 0 to a waiter only in a state where the group has been left, which happened
   after an increment of dbpd_performed, itself after some invocation reached `out:` *)
Theorem C19_wait_zero_after_first_completion : forall pf s t e s' tmo,
  reach pf s -> pcs s t = PWaitG tmo -> gstep s t e = Some s' -> pcs s' t = PWaitOut 0 ->
  leaves s = 1 /\ dleave s = false /\ 1 <= ninv s /\ 1 <= fin s.
Proof. exact wait_zero_after_first_completion. Qed.
Print Assumptions C19_wait_zero_after_first_completion.
(* ... and so for a waiter on its way out with result 0, and whenever DBF_WAITED is set *)
Theorem C19_wait_zero_state : forall pf s t,
  reach pf s -> (pcs s t = PWaitOut 0 \/ Z.testbit (flags s) 2 = true) ->
  leaves s = 1 /\ dleave s = false /\ 1 <= ninv s /\ 1 <= fin s.
Proof. exact wait_zero_state. Qed.
Print Assumptions C19_wait_zero_state.
(* the group is left at most once, in one of two ways: by a thread at PLeave (reached only through an increment whose
   result is 1) after that thread's own body / skip, or by the destructor of an object that was never performed *)
Theorem C19_only_leave_at_first_completion : forall pf s t e s',
  reach pf s -> gstep s t e = Some s' -> leaves s' <> leaves s ->
  leaves s = 0 /\ leaves s' = 1 /\ gcount s' = 0 /\
  ((exists v, pcs s t = PLeave v /\ 1 <= ninv s /\ 1 <= fin s /\ dleave s' = false) \/
   (pcs s t = PDtorLeave /\ disposed s = true /\ performed s = 0 /\ dleave s' = true)).
Proof. exact only_leave. Qed.
Print Assumptions C19_only_leave_at_first_completion.
(* the destructor: `if (!dbpd_performed) dispatch_group_leave(dbpd_group)` *)
Theorem C19_destructor_leaves_iff_never_performed : forall pf s t e s',
  reach pf s -> pcs s t = PDtorPerf -> gstep s t e = Some s' ->
  pcs s' t = (if performed s =? 0 then PDtorLeave else PDtorPost) /\ leaves s' = leaves s.
Proof. exact destructor_leaves_iff_never_performed. Qed.
Print Assumptions C19_destructor_leaves_iff_never_performed.
(* the release of the last reference is enabled only when nobody is inside a call and nothing is queued (client contract);
   from then on only the destroying thread moves *)
Theorem C19_last_release_is_quiescent : forall pf s t e s',
  reach pf s -> pcs s t = PIdle -> ev_kind e DVU_CALL = true -> ea e = OP_RELEASE -> gstep s t e = Some s' ->
  (forall u, pcs s u = PIdle) /\ pendsub s = 0 /\ disposed s = false /\ disposed s' = true /\ dtor s' = Some t /\
  pcs s' t = PDtorPerf.
Proof. exact last_release_is_quiescent. Qed.
Print Assumptions C19_last_release_is_quiescent.
Theorem C19_no_use_after_last_release : forall s t e s', gstep s t e = Some s' ->
  disposed s = false \/ (dtor s = Some t /\ pc_idle (pcs s t) = false).
Proof. exact gstep_alive. Qed.
Print Assumptions C19_no_use_after_last_release.
Theorem C19_leave_iff_increment_returns_1 : forall self v e p, tstep self (PInc v) e = Some p ->
  (p = PLeave v /\ wrapsz 4 (ea e + 1) = 1) \/ (p = PPost v false /\ wrapsz 4 (ea e + 1) <> 1).
Proof. exact leave_iff_inc_result_1. Qed.
Print Assumptions C19_leave_iff_increment_returns_1.

(* ---- dispatch_block_wait returns non-zero only by the timeout of the group wait ---- *)
(* `ret` is whatever dispatch_group_wait returned; non-zero only for a timeout other than FOREVER (that the group
   answers non-zero only after the timeout elapsed is C07; elapsed time is judged on the real library) *)
Theorem C19_wait_nonzero_only_by_timeout : forall self p e r, tstep self p e = Some (PWaitOut r) ->
  exists tmo, p = PWaitG tmo /\ ek e = DVG_WAITRET /\ ea e = r /\ (r = 0 \/ (r = 1 /\ tmo <> FOREVER)).
Proof. exact waitout_only_from_group_wait. Qed.
Print Assumptions C19_wait_nonzero_only_by_timeout.
(* the way out: result 0 -> or DBF_WAITED, return 0; non-zero -> and ~DBF_WAITING, return non-zero *)
Theorem C19_wait_returns_group_result : forall self r e p, tstep self (PWaitOut r) e = Some p ->
  p = PRet (if r =? 0 then 0 else 1) /\ ek e = (if r =? 0 then DV_OR else DV_AND) /\ eord e = MO_RELAXED /\
  eoff e = OFF_FLAGS /\ eb e = (if r =? 0 then WAITED else NOT_WAITING).
Proof. exact wait_way_out. Qed.
Print Assumptions C19_wait_returns_group_result.
(* a wait on its way out touches only DBF_WAITED / DBF_WAITING: DBF_CANCELED and DBF_PERFORM survive it (this is what
   the seeded defect C19-1 breaks), and a timed-out wait clears DBF_WAITING so that a later wait is legal *)
Theorem C19_wait_way_out_keeps_other_bits : forall s t e s' r, pcs s t = PWaitOut r -> gstep s t e = Some s' ->
  flags s' = (if r =? 0 then Z.lor (flags s) WAITED else Z.land (flags s) NOT_WAITING) /\ waiter s' = None /\
  Z.testbit (flags s') 0 = Z.testbit (flags s) 0 /\ Z.testbit (flags s') 3 = Z.testbit (flags s) 3 /\
  Z.testbit (flags s') 1 = (if r =? 0 then Z.testbit (flags s) 1 else false).
Proof. exact wait_way_out_effect. Qed.
Print Assumptions C19_wait_way_out_keeps_other_bits.

(* ---- dispatch_block_notify: each notification exactly once, not before the first completion ---- *)
(* ... or, second way out, not before the destructor of an object that was never performed has left the group *)
Theorem C19_notify_once_not_early : forall pf s i, reach pf s ->
  0 <= fcnt s i <= 1 /\
  (fcnt s i = 1 -> 0 <= i < nreg s /\ leaves s = 1 /\
     ((dleave s = false /\ 1 <= ninv s /\ 1 <= fin s) \/ (dleave s = true /\ disposed s = true /\ performed s = 0))) /\
  (0 <= i < nreg s -> leaves s = 1 -> fcnt s i = 1) /\
  (0 <= i < nreg s -> leaves s = 0 -> fcnt s i = 0 /\ In i (pending s)).
Proof. exact notify_once_not_early. Qed.
Print Assumptions C19_notify_once_not_early.

(* ---- cancelled before it starts: the body is skipped, the completion still happens ---- *)
(* (1) an invocation (any of the three forms; VAsync enters from PIdle) whose single read of the flags comes after a
   cancel's or: no body, straight to `out:` (fin + 1), next step the increment (DBF_PERFORM record: nothing to do) *)
Theorem C19_cancel_before_start_skips_body_but_completes : forall pf s t e s' v,
  reach pf s -> cancelled s = true ->
  (pcs s t = PInvRead v \/ (pcs s t = PIdle /\ v = VAsync /\ ev_kind e DVU_CALL = false)) ->
  gstep s t e = Some s' ->
  bodies s' = bodies s /\
  (pcs s' t = PCrash \/ (fin s' = fin s + 1 /\ pcs s' t = (if hasgrp s then PInc v else PPost v false))).
Proof. exact cancel_before_read_skips. Qed.
Print Assumptions C19_cancel_before_start_skips_body_but_completes.
(* (2) at PInc the only step is the increment; the first one ever goes on to the leave *)
Theorem C19_completion_increments_performed : forall pf s t e s' v,
  reach pf s -> pcs s t = PInc v -> gstep s t e = Some s' ->
  ninv s' = ninv s + 1 /\ performed s' = wrapsz 4 (performed s + 1) /\
  ((performed s' = 1 /\ pcs s' t = PLeave v) \/ (performed s' <> 1 /\ pcs s' t = PPost v false)) /\
  (ninv s = 0 -> pcs s' t = PLeave v).
Proof. exact inc_step. Qed.
Print Assumptions C19_completion_increments_performed.
(* (3) at PLeave the only step leaves the group: the count reaches zero (waiters can be answered 0) and every
   registered notification has been submitted; a second leave (dbpd_performed wrapped around to 1 after 2^32
   invocations) is the library's "Unbalanced call" crash *)
Theorem C19_completion_leaves_group : forall pf s t e s' v,
  reach pf s -> pcs s t = PLeave v -> gstep s t e = Some s' ->
  (leaves s = 0 /\ gcount s' = 0 /\ leaves s' = 1 /\ pending s' = [] /\ pcs s' t = PPost v true /\
   (forall i, 0 <= i < nreg s' -> fcnt s' i = 1)) \/
  (leaves s = 1 /\ pcs s' t = PCrash).
Proof. exact leave_step. Qed.
Print Assumptions C19_completion_leaves_group.
(* (4) whoever is about to run / is running the body read the flags with DBF_CANCELED clear *)
Theorem C19_body_runs_only_if_read_uncancelled : forall pf s t, reach pf s ->
  match pcs s t with PSetThread f | PBodyNext _ f | PInBody _ f => Z.testbit f 0 = false | _ => True end.
Proof. exact body_runner_read_clear. Qed.
Print Assumptions C19_body_runs_only_if_read_uncancelled.

(* ---- cancelled while running: not interrupted ---- *)
(* the only step of a thread inside the body is the body's own return; what follows is decided by f, the value of the
   flags read BEFORE the body (after_body v f), not by the current flags; nobody else moves the thread *)
Theorem C19_cancel_while_running_not_interrupted : forall s t e s' v f,
  pcs s t = PInBody v f -> gstep s t e = Some s' ->
  ev_kind e DVU_CALLOUT_END = true /\ pcs s' t = after_body v f /\ fin s' = fin s + 1 /\ flags s' = flags s /\
  bodies s' = bodies s /\ cancelled s' = cancelled s.
Proof. exact running_not_interrupted. Qed.
Print Assumptions C19_cancel_while_running_not_interrupted.
Theorem C19_no_thread_moves_another : forall s t u e s', gstep s u e = Some s' -> u <> t -> pcs s' t = pcs s t.
Proof. exact others_do_not_move_me. Qed.
Print Assumptions C19_no_thread_moves_another.

(* ---- dispatch_block_testcancel reports the cancellation from then on ---- *)
Theorem C19_cancel_sets_bit : forall s t e s', pcs s t = PCancel -> gstep s t e = Some s' ->
  cancelled s' = true /\ Z.testbit (flags s') 0 = true /\ pcs s' t = PRet 0.
Proof. exact cancel_sets. Qed.
Print Assumptions C19_cancel_sets_bit.
(* no step of any thread clears DBF_CANCELED *)
Theorem C19_testcancel_monotone : forall s t e s', gstep s t e = Some s' ->
  (cancelled s = true -> cancelled s' = true) /\ (Z.testbit (flags s) 0 = true -> Z.testbit (flags s') 0 = true).
Proof. exact canceled_bit_never_cleared. Qed.
Print Assumptions C19_testcancel_monotone.
Theorem C19_cancelled_is_visible : forall pf s, reach pf s -> cancelled s = true -> Z.testbit (flags s) 0 = true.
Proof. exact cancelled_visible. Qed.
Print Assumptions C19_cancelled_is_visible.
(* every testcancel whose read comes after a cancel's or returns non-zero *)
Theorem C19_testcancel_after_cancel_nonzero : forall pf s t e s',
  reach pf s -> cancelled s = true -> pcs s t = PTestRead -> gstep s t e = Some s' -> pcs s' t = PRet 1.
Proof. exact testcancel_after_cancel. Qed.
Print Assumptions C19_testcancel_after_cancel_nonzero.

(* ---- dispatch_block_perform: no group, never left ---- *)
Theorem C19_perform_never_leaves_group : forall s, reach true s ->
  leaves s = 0 /\ ninv s = 0 /\ performed s = 0 /\ gcount s = 0 /\ Z.testbit (flags s) 3 = true /\
  forall t v, pcs s t <> PLeave v /\ pcs s t <> PInc v.
Proof. exact perform_never_leaves. Qed.
Print Assumptions C19_perform_never_leaves_group.

(* ---- bookkeeping "exactly as coded" ---- *)
(* one waiter at a time; DBF_WAITING is set exactly while somebody waits or after a successful wait *)
Theorem C19_single_waiter : forall pf s t u,
  reach pf s -> in_wait (pcs s t) = true -> in_wait (pcs s u) = true -> t = u.
Proof. exact single_waiter. Qed.
Print Assumptions C19_single_waiter.
Theorem C19_waiting_bit_tracks_waiter : forall pf s, reach pf s ->
  (Z.testbit (flags s) 1 = true <-> (waiter s <> None \/ Z.testbit (flags s) 2 = true)) /\
  (Z.testbit (flags s) 2 = true -> waiter s = None).
Proof. exact waiting_bit. Qed.
Print Assumptions C19_waiting_bit_tracks_waiter.
(* the references on the target queue: whatever is in dbpd_queue or in the hands of a thread that will release it
   has been retained before (violated by the library before the fix "block objects published their target queue in
   dbpd_queue before retaining it": dispatch_block_wait racing a submission over-released the queue) *)
Theorem C19_queue_references_balanced : forall pf s, reach pf s ->
  qref s = 2 * ((if queue s =? 0 then 0 else 1) + Z.of_nat (length (hands s))) /\ 0 <= qref s /\
  (queue s <> 0 -> 2 <= qref s) /\ (forall t, holds (pcs s t) = true -> 2 <= qref s).
Proof. exact queue_refs. Qed.
Print Assumptions C19_queue_references_balanced.

(* ---- ties ---- *)
Theorem C19_sites_match_source :
  model_sites_cancel = dispatch_block_cancel_sites /\ model_sites_testcancel = dispatch_block_testcancel_sites /\
  model_sites_wait = dispatch_block_wait_sites /\ model_sites_notify = dispatch_block_notify_sites /\
  model_sites_invoke_direct = block_invoke_direct_sites /\ model_sites_sync_invoke = block_sync_invoke_sites /\
  model_sites_async_invoke2 = block_async_invoke2_sites /\ model_sites_submit = block_init_slow_sites /\
  model_sites_submit = firstn 3 block_sync_submit_sites /\
  model_sites_submit = firstn 3 block_async_and_wait_submit_sites /\
  CANCELED = 2 ^ 0 /\ WAITING = 2 ^ 1 /\ WAITED = 2 ^ 2 /\ PERFORM = 2 ^ 3 /\ NOT_WAITING = 4294967293.
Proof. repeat split. Qed.
Print Assumptions C19_sites_match_source.
Theorem C19_model_uses_thread_automaton : forall s t e s',
  gstep s t e = Some s' -> tstep t (pcs s t) e = Some (pcs s' t).
Proof. exact gstep_tstep. Qed.
Print Assumptions C19_model_uses_thread_automaton.
(* a recorded trace accepted by the conformance check is a run of tstep from PIdle to PIdle with latent (plain /
   abstract) steps interleaved *)
Theorem C19_conformance_automaton_sound : forall self pf tr, conform self pf tr = (-1, 1) ->
  exists p l, vpath self PIdle tr p /\ lat_path self p l PIdle.
Proof. exact conform_sound. Qed.
Print Assumptions C19_conformance_automaton_sound.

(* whole-round replay (Model/BlockR.v): the scheduler only takes steps of Block.gstep, so the state whose words and
   counters a successful replay of a recorded round reports is reachable; the boolean invariant evaluated on it is true of
   every reachable state (a `false` would be a broken proof, not a property of the library) *)
Theorem C19_replay_reach : forall pf w qs ents ord,
  reach pf (fst (fst (fst (fst (sched (S (length ord)) w (map fst qs) (init_state pf) qs ents ord 0 0))))).
Proof. exact replay_reach. Qed.
Print Assumptions C19_replay_reach.
Theorem C19_inv_b_reach : forall pf s ths, reach pf s -> inv_b s ths = true.
Proof. exact inv_b_reach. Qed.
Print Assumptions C19_inv_b_reach.

(* standing negative tests: observation sequences accepted thread by thread (the first conjunct) that no run of the global
   model explains — a testcancel answering non-zero with no cancel anywhere, a worker skipping the body with no cancel, a
   body run by an invocation begun after a cancel had returned, an invocation from a queue with no submission — are NOT
   reproduced by the replay (second component of its result = recorded events left over) *)
Theorem C19_replay_refuses_inconsistent_rounds :
  conform 8 false [Uv DVU_CALL OP_TESTCANCEL 0; Uv DVU_RET 1 0] = (-1, 1) /\
  nth 1 (replay false 8 neg1_qs [] [8; 8]) 0 = 1 /\
  nth 1 (replay false 8 neg2_qs [11] [7; 7; 7; 11; 11; 11]) 0 = 3 /\
  nth 1 (replay false 8 neg3_qs [] [6; 6; 6; 5; 5; 5; 5; 5; 5]) 0 = 5 /\
  nth 1 (replay false 8 neg4_qs [11] [11; 11; 11; 11; 11]) 0 = 5.
Proof. exact negative_replays. Qed.
Print Assumptions C19_replay_refuses_inconsistent_rounds.

(* ---- non-vacuity ---- *)
(* a concrete schedule: 7 submits by dispatch_async; 9 waits with a finite timeout (takes the boost queue, sleeps
   in the group); 8 cancels meanwhile; 9 times out (DBF_CANCELED survives), registers a notification; worker 11
   enters _dispatch_block_async_invoke2, reads the flags once (cancelled: no body), increments dbpd_performed to 1,
   leaves the group (the notification is submitted); 9 waits FOREVER: returns 0; 8 tests: non-zero. *)
Definition B k ord off sz a b ok := mkEv k ord 0 off sz a b ok.     (* on the private data record *)
Definition Gp k ord off sz a b := mkEv k ord 1 off sz a b 1.         (* on the private group's dg_state *)
Definition U k a b := mkEv k 0 0 0 0 a b 1.                         (* harness-level / abstract queue events *)
Definition dq := 93864272807056.
Definition part1 : list (Z * event) :=
  [ (7, U DVU_CALL OP_ASYNC 0); (7, U DVQ_RETAIN2 0 0); (7, B DV_CAS MO_RELAXED OFF_QUEUE 8 0 dq 1); (7, U DVU_RET 0 0);
    (9, U DVU_CALL OP_WAIT 5); (9, B DV_OR MO_RELAXED OFF_FLAGS 4 0 2 1); (9, B DV_XCHG MO_RELAXED OFF_QUEUE 8 dq 0 1);
    (9, U DVQ_RELEASE2 0 0); (9, B DV_LOAD MO_PLAIN OFF_THREAD 4 0 0 1); (9, B DV_LOAD MO_RELAXED OFF_PERF 4 0 0 1);
    (9, Gp DV_LOAD MO_RELAXED 0 8 4294967292 4294967292); (9, Gp DV_CASW MO_RELAXED 0 8 4294967292 4294967293);
    (8, U DVU_CALL OP_CANCEL 0); (8, B DV_OR MO_RELAXED OFF_FLAGS 4 2 1 1); (8, U DVU_RET 0 0);
    (9, Gp DVG_WAITRET 0 0 0 1 0); (9, B DV_AND MO_RELAXED OFF_FLAGS 4 3 4294967293 1);
    (9, U DVU_RET 18446744073709551615 0) ].
(* an object observed, cancelled and then released without ever having been executed: the destructor leaves the group
   and the notification is submitted (no body, no completion) *)
Definition dispose_run : list (Z * event) :=
  [ (9, U DVU_CALL OP_NOTIFY 0); (9, B DV_LOAD MO_RELAXED OFF_PERF 4 0 0 1); (9, Gp DVG_NOTIFY 0 0 0 0 0); (9, U DVU_RET 0 0);
    (8, U DVU_CALL OP_CANCEL 0); (8, B DV_OR MO_RELAXED OFF_FLAGS 4 0 1 1); (8, U DVU_RET 0 0);
    (1, U DVU_CALL OP_RELEASE 0); (1, B DV_LOAD MO_PLAIN OFF_PERF 4 0 0 1); (1, Gp DV_ADD MO_RELEASE 0 8 4294967294 4);
    (1, Gp DV_LOAD MO_RELAXED 0 8 4294967296 4294967296); (1, B DV_LOAD MO_PLAIN OFF_QUEUE 8 0 0 1); (1, U DVU_RET 0 0) ].
Definition part2 : list (Z * event) :=
  [ (9, U DVU_CALL OP_NOTIFY 0); (9, B DV_LOAD MO_RELAXED OFF_PERF 4 0 0 1); (9, Gp DVG_NOTIFY 0 0 0 0 0); (9, U DVU_RET 0 0);
    (11, B DV_LOAD MO_PLAIN OFF_FLAGS 4 1 1 1); (11, B DV_ADD MO_RELAXED OFF_PERF 4 0 1 1) ].
Definition part3 : list (Z * event) :=
  [ (11, Gp DV_ADD MO_RELEASE 0 8 4294967295 4); (11, Gp DV_CAS MO_RELAXED 0 8 4294967299 4294967296);
    (11, B DV_XCHG MO_RELAXED OFF_QUEUE 8 0 0 1);
    (9, U DVU_CALL OP_WAIT 18446744073709551615); (9, B DV_OR MO_RELAXED OFF_FLAGS 4 1 2 1);
    (9, B DV_XCHG MO_RELAXED OFF_QUEUE 8 0 0 1); (9, B DV_LOAD MO_PLAIN OFF_THREAD 4 0 0 1);
    (9, B DV_LOAD MO_RELAXED OFF_PERF 4 1 1 1); (9, Gp DV_LOAD MO_RELAXED 0 8 4294967296 4294967296);
    (9, Gp DVG_WAITRET 0 0 0 0 0); (9, B DV_OR MO_RELAXED OFF_FLAGS 4 3 4 1); (9, U DVU_RET 0 0);
    (8, U DVU_CALL OP_TESTCANCEL 0); (8, B DV_LOAD MO_PLAIN OFF_FLAGS 4 7 7 1); (8, U DVU_RET 1 0) ].
(* a block that is not cancelled, invoked directly by thread 5 while 6 cancels during the body *)
Definition direct_run : list (Z * event) :=
  [ (5, U DVU_CALL OP_DIRECT 0); (5, B DV_LOAD MO_PLAIN OFF_FLAGS 4 0 0 1); (5, B DV_STORE MO_PLAIN OFF_THREAD 4 0 5 1);
    (5, U DVU_CALLOUT_BEGIN 0 0);
    (6, U DVU_CALL OP_CANCEL 0); (6, B DV_OR MO_RELAXED OFF_FLAGS 4 0 1 1); (6, U DVU_RET 0 0);
    (5, U DVU_CALLOUT_END 0 0); (5, B DV_ADD MO_RELAXED OFF_PERF 4 0 1 1); (5, Gp DV_ADD MO_RELEASE 0 8 4294967292 4);
    (5, U DVU_RET 0 0) ].
Example C19_nonvacuous :
  (* after the timed-out wait: the cancel survived, nobody waits, the two references went back to the queue *)
  match grun (init_state false) part1 with
  | Some s => flags s = 1 /\ cancelled s = true /\ waiter s = None /\ qref s = 0 /\ queue s = 0 /\ pcs s 9 = PIdle /\ leaves s = 0
  | None => False end /\
  (* the cancelled invocation skipped the body and is about to leave the group; one notification is pending *)
  match grun (init_state false) (part1 ++ part2) with
  | Some s => pcs s 11 = PLeave VAsync /\ bodies s = 0 /\ fin s = 1 /\ ninv s = 1 /\ pending s = [0] /\ fcnt s 0 = 0 /\ gcount s = 1
  | None => False end /\
  match grun (init_state false) (part1 ++ part2 ++ part3) with
  | Some s => flags s = 7 /\ bodies s = 0 /\ fin s = 1 /\ performed s = 1 /\ leaves s = 1 /\ gcount s = 0 /\ fcnt s 0 = 1 /\
              pending s = [] /\ (forall t, In t [7; 8; 9; 11] -> pcs s t = PIdle)
  | None => False end /\
  match grun (init_state false) direct_run with
  | Some s => bodies s = 1 /\ fin s = 1 /\ leaves s = 1 /\ flags s = 1 /\ thread s = 5 /\ pcs s 5 = PIdle
  | None => False end /\
  match grun (init_state false) dispose_run with
  | Some s => disposed s = true /\ dleave s = true /\ leaves s = 1 /\ fcnt s 0 = 1 /\ bodies s = 0 /\ fin s = 0 /\ ninv s = 0 /\
              pcs s 1 = PIdle /\ flags s = 1
  | None => False end /\
  (* after the last release nobody may touch the object: a testcancel is refused; and a release while a submission is
     queued is refused (it cannot be the last reference) *)
  grun (init_state false) (dispose_run ++ [(8, U DVU_CALL OP_TESTCANCEL 0)]) = None /\
  grun (init_state false) (firstn 3 part1 ++ [(1, U DVU_CALL OP_RELEASE 0)]) = None /\
  (* the recorded (visible) part of worker 11's trace is accepted by the conformance automaton *)
  conform 11 false [B DV_ADD MO_RELAXED OFF_PERF 4 0 1 1; Gp DV_ADD MO_RELEASE 0 8 4294967295 4;
              Gp DV_CAS MO_RELAXED 0 8 4294967299 4294967296; B DV_XCHG MO_RELAXED OFF_QUEUE 8 0 0 1] = (-1, 1) /\
  (* ... and a store to the flags word (seeded defect C19-1) is not *)
  fst (conform 9 false [U DVU_CALL OP_WAIT 5; B DV_OR MO_RELAXED OFF_FLAGS 4 0 2 1; B DV_XCHG MO_RELAXED OFF_QUEUE 8 0 0 1;
                  B DV_LOAD MO_RELAXED OFF_PERF 4 0 0 1; B DV_STORE MO_RELAXED OFF_FLAGS 4 0 0 1]) = 4 /\
  (* ... nor an invocation that gives the boost queue back without having completed (cancelled, not DBF_PERFORM) *)
  fst (conform 11 false [B DV_XCHG MO_RELAXED OFF_QUEUE 8 0 0 1]) = 0 /\
  conform 11 true [U DVU_CALL OP_DIRECT 1; U DVU_CALLOUT_BEGIN 0 0; U DVU_CALLOUT_END 0 0; U DVU_RET 0 0] = (-1, 1).
Proof.
  vm_compute. repeat split; intros t H; repeat (destruct H as [<-|H]; [reflexivity|]); destruct H.
Qed.
