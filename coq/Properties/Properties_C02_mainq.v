(* C02 — "serial queues (including the MAIN QUEUE) run one item at a time, in submission order": the main queue.
   Protocol theorems about Model/MainQ.v for any number of threads and every interleaving (the dq_state transitions
   are the bodies regenerated from the source; the MPSC list, the eventfd counter, the thread events and the ghost
   bookkeeping are hand-modelled and tied by lib/props/c02_mainq.py):
   phase 1, thread-bound: any number of dispatch_async_f pushers and of dispatch_sync_f / dispatch_async_and_wait_f
     callers on other threads, ONE bound thread that services the eventfd handle and drains the queue inside
     _dispatch_main_queue_callback_4CF (that only the bound thread does so is the API contract of the 4CF entry points:
     it is the scheduler constraint `mbegin` of the model, not an axiom); nested servicing of the handle from inside a
     work item is allowed (the re-entrancy guard returns at once): it is what makes the drain's exit wakeup necessary;
   phase 2, dispatch_main(): _dispatch_queue_cleanup2, after which the lane component of the state satisfies the
     invariant of the ordinary serial lane (SLane_proofs.Inv) and every lane program point is stepped by SLane.gstep
     itself.  Only that INVARIANT is transferred (the lane component is not shown to be reachable in SLane's own
     transition system); instantiated from it here: C02_mainq_lane_not_stranded and the phase-2 halves of
     C02_mainq_exclusive / C02_mainq_fifo.
   Item ids are issued by the tail exchange inside the submission call (0,1,2,... in exchange order): "A's submission
   returned before B's began, or one thread submitted A then B" implies id A < id B.
   Scope (client contract, lib/props/c02_mainq.py ASSUMPTIONS): dispatch_main() is called when no synchronous call
   onto the main queue is in flight and none is started afterwards — hence `_partial` on the hand-over theorem: a
   synchronous context still queued at that moment would be handed the drain lock by cleanup2 / a worker (the
   ordinary-lane waiter paths of Model/SyncWait.v), which this model does not contain; no suspension / retargeting of
   the main queue.
   Submission from inside a callout: a work item running on the bound thread may dispatch_async_f onto the main queue
   (mbegin MAsync at MB_incall; continuation KCall; `in_callout` covers those program points), every theorem below
   holds over such runs, C02_mainq_nonvacuous contains one (the last item of a drain pass resubmits).  MODEL SCOPE, not
   an API contract: no submission from inside a callout on a worker after dispatch_main(), no synchronous call from
   inside a callout, no dispatch_sync / dispatch_async_and_wait onto the main queue at all after dispatch_main()
   (MSync is disabled once mainstarted): the theorems are silent on those clients; the stress client runs the first
   and (scenario phase2_sync) the last on the real library, judged by the oracle (and the trace automaton for the
   first). *)
From Coq Require Import ZArith Bool List.
From Verif Require Import Word Conc Gen_consts Gen_fields Gen_dqstate Gen_mainq SLane SLane_proofs MainQ MainQT MainQ_inv MainQ_proofs MainQ_extra
  MainQT_sites.
Import ListNotations.
Local Open Scope Z_scope.

(* never two callouts of main-queue items at once, in either phase *)
Theorem C02_mainq_exclusive : forall m prio rb, valid_tid m -> 0 <= rb < 2 -> forall s t1 i1 t2 i2,
  mreach m prio rb s ->
  in_callout s t1 i1 -> in_callout s t2 i2 -> t1 = t2 /\ i1 = i2 /\ running (lane s) = Some (t1, i1).
Proof. exact mainq_exclusive. Qed.
Print Assumptions C02_mainq_exclusive.

(* until cleanup2 has released the lane, every callout is on the bound (main) thread *)
Theorem C02_mainq_callouts_on_main_thread : forall m prio rb, valid_tid m -> 0 <= rb < 2 -> forall s t i,
  mreach m prio rb s -> c_lane (mcl s) = false -> in_callout s t i -> t = m.
Proof. exact mainq_callouts_on_main_thread. Qed.
Print Assumptions C02_mainq_callouts_on_main_thread.

(* the block of a dispatch_sync / dispatch_async_and_wait caller was started by the bound thread's drain, never by the caller *)
Theorem C02_mainq_sync_items_run_on_main : forall m prio rb, valid_tid m -> 0 <= rb < 2 -> forall s i,
  mreach m prio rb s -> In i (started (lane s)) -> waiter_of s i <> 0 -> In i (mainran s).
Proof. exact mainq_sync_items_run_on_main. Qed.
Print Assumptions C02_mainq_sync_items_run_on_main.

(* FIFO across both phases: callouts begin in tail-exchange order, each item at most once, only submitted items *)
Theorem C02_mainq_fifo : forall m prio rb, valid_tid m -> 0 <= rb < 2 -> forall s,
  mreach m prio rb s ->
  exists rest, zrange (nextid (lane s)) = rev (started (lane s)) ++ rest /\ NoDup (started (lane s)) /\
               (forall i, In i (started (lane s)) -> 0 <= i < nextid (lane s)).
Proof. exact mainq_fifo. Qed.
Print Assumptions C02_mainq_fifo.

Theorem C02_mainq_kth_started_is_k : forall m prio rb, valid_tid m -> 0 <= rb < 2 -> forall s k,
  mreach m prio rb s ->
  (k < length (started (lane s)))%nat -> nth k (rev (started (lane s))) (-1) = Z.of_nat k.
Proof. exact mainq_kth_started_is_k. Qed.
Print Assumptions C02_mainq_kth_started_is_k.

(* not stranded, thread-bound phase.  NOTE THE HYPOTHESIS `mpcs s m = MIdle`: the bound thread is back in its run loop
   (outside the callback).  Then a non-empty list => the eventfd counter is positive or some thread is at a program point
   from which it writes it (it still owes its poke).  The race of the drain's exit with a concurrent push is closed by
   the exit wakeup dx_wakeup(dq, 0, 0) of _dispatch_main_queue_drain: it probes dq_items_tail again and pokes the handle
   when items arrived.  (Without the hypothesis the statement is false: a work item that services the handle itself
   leaves list non-empty, counter 0, no poker, bound thread in MB_incall: see the next theorem.) *)
Theorem C02_mainq_not_stranded : forall m prio rb, valid_tid m -> 0 <= rb < 2 -> forall s,
  mreach m prio rb s ->
  mpcs s m = MIdle -> lst (lane s) <> [] -> 0 < evfd s \/ exists t, poker s t.
Proof. exact mainq_not_stranded. Qed.
Print Assumptions C02_mainq_not_stranded.

(* ... at any program point of the bound thread before dispatch_main(): the third alternative, c_see (mcl s) = true, is
   "the bound thread is inside _dispatch_main_queue_drain and has not yet returned from its exit wakeup"
   (Proofs/MainQ_inv.v mclass: MB_tail .. MB_loop, and the push / wakeup program points of a work item that submits to
   the main queue from inside its callout): the pending wake-up is then the drain's own exit wakeup *)
Theorem C02_mainq_not_stranded_any : forall m prio rb, valid_tid m -> 0 <= rb < 2 -> forall s,
  mreach m prio rb s -> c_lane (mcl s) = false -> c_clean (mcl s) = false -> lst (lane s) <> [] ->
  0 < evfd s \/ c_see (mcl s) = true \/ exists t, poker s t.
Proof. exact mainq_not_stranded_any. Qed.
Print Assumptions C02_mainq_not_stranded_any.

(* the bound thread waiting for the head link / a successor link of its snapshot is never stuck: the enqueuer that owes
   the link is at its link program point and can take its step *)
Theorem C02_mainq_drain_waits_not_stuck : forall m prio rb s t,
  valid_tid m -> 0 <= rb < 2 -> mreach m prio rb s ->
  mpcs s t = MB_head \/ mpcs s t = MB_next ->
  (exists s', mstep s t = Some s') \/
  (exists u i w q s', u <> t /\ pcs (lane s) u = PA_link i w q /\ mstep s u = Some s').
Proof. exact mainq_drain_waits_not_stuck. Qed.
Print Assumptions C02_mainq_drain_waits_not_stuck.

(* at rest: the handle of a non-empty thread-bound main queue is readable ... *)
Theorem C02_mainq_quiescent_readable : forall m prio rb, valid_tid m -> 0 <= rb < 2 -> forall s,
  mreach m prio rb s ->
  quiescent s -> lst (lane s) <> [] -> bound s = true /\ 0 < evfd s /\ hopen s = true.
Proof. exact mainq_quiescent_readable. Qed.
Print Assumptions C02_mainq_quiescent_readable.

(* ... and when it is not readable every submitted item has run, in order: nothing was lost *)
Theorem C02_mainq_quiescent_all_done : forall m prio rb, valid_tid m -> 0 <= rb < 2 -> forall s,
  mreach m prio rb s -> quiescent s -> evfd s = 0 ->
  lst (lane s) = [] /\ snap s = [] /\ rev (started (lane s)) = zrange (nextid (lane s)) /\ running (lane s) = None.
Proof. exact mainq_quiescent_all_done. Qed.
Print Assumptions C02_mainq_quiescent_all_done.

(* a synchronous call onto the main queue from another thread returns only after its block finished on the bound
   thread (dsc_func cleared by _dispatch_async_and_wait_invoke), and then it does return *)
Theorem C02_mainq_sync_returns_after_run : forall m prio rb, valid_tid m -> 0 <= rb < 2 -> forall s t,
  mreach m prio rb s -> mpcs s t = MS_woken ->
  w_null (ws s t) = true /\ In (w_item (ws s t)) (finished s) /\ In (w_item (ws s t)) (mainran s) /\
  exists s', mstep s t = Some s'.
Proof. exact mainq_sync_returns_after_run. Qed.
Print Assumptions C02_mainq_sync_returns_after_run.


(* ... and the context was run (started and finished) exactly once: ids start at most once *)
Theorem C02_mainq_sync_ran_once : forall m prio rb s t,
  valid_tid m -> 0 <= rb < 2 -> mreach m prio rb s -> mpcs s t = MS_woken ->
  In (w_item (ws s t)) (started (lane s)) /\ In (w_item (ws s t)) (finished s) /\ In (w_item (ws s t)) (mainran s) /\
  NoDup (started (lane s)).
Proof. exact mainq_sync_ran_once. Qed.
Print Assumptions C02_mainq_sync_ran_once.

(* no lost wake-up for a synchronous caller.  `stage` (Proofs/MainQ_inv.v) is 3 from the tail exchange of the caller's
   context to the decrement of its thread event and 4 from there to the end of the wait.  Until the bound thread has
   stored the signal (w_sigd) the context is still owed its run: it is in the queue's list, in the bound thread's
   snapshot, popped / running on the bound thread, or has run and the bound thread is at the signalling store; and a
   caller that is asleep in futex_wait after the signal without a wake-up has the bound thread at the futex_wake for
   it.  With C02_mainq_not_stranded and C02_mainq_drain_waits_not_stuck the bound thread gets there. *)
Theorem C02_mainq_sync_wakeup_not_lost : forall m prio rb s t,
  valid_tid m -> 0 <= rb < 2 -> mreach m prio rb s ->
  3 <= stage (mpcs s t) (pcs (lane s) t) <= 4 ->
  let i := w_item (ws s t) in
  waiter_of s i = t /\
  (w_sigd (ws s t) = false ->
     In i (ids (lst (lane s))) \/ In i (ids (snap s)) \/
     (exists w more, mpcs s (mtid s) = MB_run i w more \/ mpcs s (mtid s) = MB_incall i w more \/
                     kont (mpcs s (mtid s)) = Some (KCall i w more)) \/
     (exists more, mpcs s (mtid s) = MB_sig t more)) /\
  (w_sigd (ws s t) = true -> mpcs s t = MS_sleep -> w_wok (ws s t) = true \/ exists more, mpcs s (mtid s) = MB_fwake t more).
Proof. exact mainq_sync_wakeup_not_lost. Qed.
Print Assumptions C02_mainq_sync_wakeup_not_lost.

(* the barrier-sync fast path refuses the thread-bound word (owner bits set): the caller always queues its context *)
Theorem C02_mainq_sync_never_fast : forall m prio rb, valid_tid m -> 0 <= rb < 2 -> forall s t q,
  mreach m prio rb s -> mpcs s t = MS_fast q \/ mpcs s t = MS_prep q ->
  f_dispatch_queue_try_acquire_barrier_sync_and_suspend 0 t 0 1 (st (lane s)) = NoCommit 0 [] /\
  wait_prepare_loop 0 (st (lane s)) = NoCommit 1 [].
Proof. exact mainq_sync_never_fast. Qed.
Print Assumptions C02_mainq_sync_never_fast.

(* hand-over: once _dispatch_lane_class_barrier_complete has committed, the lane component satisfies SLane's invariant,
   nothing is left in the bound thread's private snapshot, and everything submitted is started, popped or in the list *)
Theorem C02_mainq_handoff_partial : forall m prio rb, valid_tid m -> 0 <= rb < 2 -> forall s,
  mreach m prio rb s -> c_lane (mcl s) = true ->
  SLane_proofs.Inv (lane s) /\ snap s = [] /\ syncers s = [] /\ bound s = false /\
  rev (started (lane s)) ++ inflight (lane s) ++ map e_id (lst (lane s)) = zrange (nextid (lane s)).
Proof. exact mainq_handoff. Qed.
Print Assumptions C02_mainq_handoff_partial.

(* from then on every ordinary-lane step is literally a step of Model/SLane.v (this and SLane_proofs.Inv (lane s) of
   C02_mainq_handoff_partial are what is transferred; the next theorem is read off that invariant, field g_nostrand) *)
Theorem C02_mainq_lane_steps_are_slane : forall s t s',
  mpcs s t = MIdle -> mstep s t = Some s' -> gstep (lane s) t = Some (lane s') /\ mpcs s' = mpcs s.
Proof. exact mainq_lane_steps_are_slane. Qed.
Print Assumptions C02_mainq_lane_steps_are_slane.

Theorem C02_mainq_lane_not_stranded : forall m prio rb, valid_tid m -> 0 <= rb < 2 -> forall s,
  mreach m prio rb s -> c_lane (mcl s) = true ->
  (forall t, pcs (lane s) t = Idle) -> lst (lane s) <> [] -> rootq (lane s) = 1 /\ token (lane s) = Some None.
Proof. exact mainq_lane_not_stranded. Qed.
Print Assumptions C02_mainq_lane_not_stranded.


(* tie of the observation automaton (Model/MainQT.v, replayed on every recorded thread trace) to the source: its atomic
   sites are, in program order, with their memory orders, the sites of the main-queue functions as translated on this run *)
Theorem C02_mainq_sites_match :
  [os S_item_next_st F_do_next; qs S_xchg_tail; os S_item_next_st F_do_next; qs S_st_head] = f_dispatch_main_queue_push_sites /\
  [qs S_ld_state; qs S_cas_rlx] = f_dispatch_runloop_queue_poke_sites /\
  [qs S_flags; qs S_dirty_or; qs S_probe; qs S_ld_state; qs S_cas_rlx; qs S_reset; qs S_ld_state; qs S_probe; qs S_ld_state; qs S_cas_rlx]
    = f_dispatch_runloop_queue_wakeup_sites /\
  qs S_flags :: f_dispatch_runloop_queue_wakeup_sites = f_dispatch_main_queue_wakeup_sites /\
  [qs S_flags; qs S_ld_state; qs S_ld_state; get_head_site; qs S_st_head; qs S_xchg_tail; os S_item_next_ld F_do_next]
    = f_dispatch_main_queue_drain_sites /\
  [qs S_ld_state; get_head_site; item_flags_site; item_flags_site; qs S_ld_state; qs S_dirty_xor; qs S_cas_rel]
    = f_dispatch_lane_barrier_complete_sites /\
  [qs S_ld_state; qs S_cas_acq; qs S_flags_clr] ++ f_dispatch_lane_barrier_complete_sites = f_dispatch_queue_cleanup2_sites.
Proof.
  exact (conj sites_main_queue_push (conj sites_runloop_queue_poke (conj sites_runloop_queue_wakeup (conj sites_main_queue_wakeup
        (conj sites_main_queue_drain (conj sites_lane_barrier_complete sites_queue_cleanup2)))))).
Qed.
Print Assumptions C02_mainq_sites_match.

(* non-vacuity: 2 pushers + 1 synchronous caller parked, the bound thread drains, dispatch_main(), a worker drains; and a
   work item that dispatch_async_f's onto the main queue from inside its callout as the last item of a drain pass: the
   bound thread pokes its own handle, the exit wakeup pokes again, the next service pass runs the new item *)
Example C02_mainq_nonvacuous :
  (exists s, mrun (minit 100 0 1) demo_phase1 = Some s /\ mreach 100 0 1 s /\
             mpcs s 7 = MS_sleep /\ map e_id (lst (lane s)) = [0; 1; 2] /\ waiter_of s 2 = 7 /\ evfd s = 2 /\ mpcs s 100 = MIdle) /\
  (exists s, mrun (minit 100 0 1) demo_acts = Some s /\ mreach 100 0 1 s /\
             quiescent_dec s [5; 6; 7; 8] = true /\ mpcs s 100 = MC_gone /\ started (lane s) = [3; 2; 1; 0] /\
             mainran s = [2; 1; 0] /\ finished s = [2; 1; 0] /\ lst (lane s) = [] /\ rootq (lane s) = 0 /\ nextid (lane s) = 4 /\
             bound s = false /\ hopen s = false /\ syncers s = [] /\ st (lane s) = 9005068950962176) /\
  (exists s, mrun (minit 100 0 1) demo_resub1 = Some s /\ mreach 100 0 1 s /\
             mpcs s 100 = MB_incall 0 0 false /\ running (lane s) = Some (100, 0) /\ map e_id (lst (lane s)) = [1] /\
             snap s = [] /\ evfd s = 1) /\
  (exists s, mrun (minit 100 0 1) demo_resub2 = Some s /\ mreach 100 0 1 s /\
             quiescent_dec s [5] = true /\ mpcs s 100 = MIdle /\ started (lane s) = [1; 0] /\ mainran s = [1; 0] /\
             finished s = [1; 0] /\ lst (lane s) = [] /\ evfd s = 0 /\ bound s = true).
Proof. exact (conj demo_parked (conj demo_final demo_resubmit)). Qed.
