(* C05 (synchronous hand-off) — dispatch_sync / dispatch_barrier_sync / dispatch_async_and_wait on a serial lane.

   Part 1 (Model/SyncWait.v): the slow path of synchronous submission — the caller's context pushed as an item, the
   caller parked on its thread event, the drain lock handed over by whoever owns the lane (a worker, a completing
   synchronous call, or the waiter itself), the remote run of async_and_wait items on the drainer — together with the
   fast path, dispatch_async_f and the root-queue workers, for ANY number of threads and EVERY interleaving of their
   atomic operations (one program point per atomic site; every dq_state transition is the rmw body generated from the
   source; weak compare-exchange may fail spuriously; futex_wait may return spuriously).  The theorems hold in every
   reachable state.  Scope of the model: one serial lane targeting a root queue, not suspended / retargeted, not thread
   bound (see the header of Model/SyncWait.v); the QoS argument of the bodies is arbitrary in 0..7.
   FLAT CLIENTS: the thread automaton accepts a submission call (DVU_CALL) only at Idle, i.e. never from inside a work
   item of the lane: an item that submits to its own queue (drainer = pusher, e.g. dispatch_async / dispatch_sync on the
   queue it runs on) is outside the model and outside every theorem of this file ("any number of threads, every
   interleaving" is about threads that are each either a client between callouts or a worker).

   Part 2 (Proofs/SyncEdges_proofs.v): the visibility edges of the property's second sentence.  THE C11 MEMORY MODEL IS
   NOT FORMALISED: the C05_edge_* theorems are about the presence and placement of release / acquire pairs on the word
   that carries each hand-off, as read from the source on every run, and about the model's consumer proceeding only on a
   value written by that release.  The hardware / compiler half is exercised by the check-summed plain payloads of the
   stress oracle on the machine at hand.

   Not proved here: lane-level liveness for a context that is still queued (that the lane is re-driven: C01); queue
   hierarchies and concurrent queues (seeded defect C05-1 lives there and is caught by the stress oracle of C03/C05). *)
From Coq Require Import ZArith Bool List.
From Verif Require Import Word Conc Gen_consts Gen_fields Gen_dqstate Gen_lanesites Gen_once Once Once_proofs Sema Group
  SyncWait SyncWait_word SyncWait_inv SyncWait_proofs SyncWait_example SyncEdges_proofs.
Import ListNotations.
Local Open Scope Z_scope.

(* ---- Part 1 ---- *)

(* a sync / barrier_sync / async_and_wait call returns only after its work item has finished: the flag set by a return
   that finds the item unfinished is never raised ... *)
Theorem C05_sync_returns_after_finish_flag : forall s, reach s -> early_ret s = false.
Proof. exact no_early_return. Qed.
Print Assumptions C05_sync_returns_after_finish_flag.

(* ... a thread standing at the return of a synchronous call has a finished item that ran exactly once ... *)
Theorem C05_sync_returns_after_finish : forall s t, reach s -> pcs s t = S_ret -> ist s t = IFin /\ runs s t = 1.
Proof. exact at_return_finished. Qed.
Print Assumptions C05_sync_returns_after_finish.

(* ... and so does every return step of a synchronous call, wherever it is taken (including the return of
   dispatch_async_and_wait after the drainer ran the item).  This is an INVARIANT of the reachable states, not an enabling
   condition: the model's return action (ARetS) is unguarded -- it would raise early_ret -- and the theorem says that in a
   reachable state a thread that can take it has a finished item *)
Theorem C05_sync_return_step_after_finish : forall s t e s',
  reach s -> valid_tid t -> gstep s t e = Some s' -> ek e = DVU_RET -> cst (pcs s t) <> CNone ->
  ist s t = IFin /\ runs s t = 1.
Proof. exact return_step_after_finish. Qed.
Print Assumptions C05_sync_return_step_after_finish.

(* the item of a synchronous call is started at most once; once the caller is past it, exactly once; if the drainer ran
   it (dsc_func == NULL) the caller is still parked / about to return and never starts it: never both *)
Theorem C05_sync_runs_once : forall s t, reach s -> cst (pcs s t) <> CNone ->
  0 <= runs s t <= 1 /\
  (cst (pcs s t) = CAfter -> runs s t = 1 /\ ist s t = IFin /\ remote s t = false) /\
  (cst (pcs s t) = CIn -> runs s t = 1 /\ remote s t = false) /\
  (remote s t = true -> runs s t = 1 /\ ist s t = IFin /\ cst (pcs s t) = CBefore /\ wst (pcs s t) <> WNone).
Proof. exact runs_once. Qed.
Print Assumptions C05_sync_runs_once.

(* whoever is inside a work item of the lane owns the drain lock — the ghost owner and the owner bits of dq_state both
   name it — and nobody else is inside one: in particular the waiter that runs its item after the ownership transfer *)
Theorem C05_sync_handoff_exclusive : forall s t, reach s -> incall (pcs s t) = true ->
  holder s = Some t /\ Z.land (st s) OWNER_MASK = t /\ running s = Some t /\ overlap s = false /\
  forall u, incall (pcs s u) = true -> u = t.
Proof. exact handoff_exclusive. Qed.
Print Assumptions C05_sync_handoff_exclusive.

Theorem C05_sync_waiter_runs_as_owner : forall s t k, reach s -> pcs s t = S_incall k false ->
  holder s = Some t /\ Z.land (st s) OWNER_MASK = t /\ forall u, incall (pcs s u) = true -> u = t.
Proof. exact waiter_runs_as_owner. Qed.
Print Assumptions C05_sync_waiter_runs_as_owner.

Theorem C05_sync_owner_word : forall s, reach s ->
  match holder s with
  | Some h => Z.land (st s) OWNER_MASK = h /\ valid_tid h
  | None => Z.land (st s) OWNER_MASK = 0
  end.
Proof. exact owner_word. Qed.
Print Assumptions C05_sync_owner_word.

(* no lost wake-up on the thread event (inc release / dec acquire / futex wait loop / futex wake, spurious returns
   included): a thread asleep in futex_wait is in the wait loop of its own event with the word at UINT32_MAX (or already
   reset by the signal); once its item is out of the list the wake-up is pending at a definite program point of a definite
   thread — the lock holder that popped it, the thread at the signal site, or the thread at the futex_wake site.
   (While its context is still queued, being reached is the lane's liveness: C01.) *)
Theorem C05_sync_no_lost_wake : forall s t, reach s -> slp s t = Sleeping ->
  (exists k, pcs s t = S_sleep k) /\ ev s t = (if is_sigd (ph s t) then 0 else MAXV) /\
  match ph s t with
  | PhNone => False
  | PhQueued => True
  | PhPopH h => holder s = Some h /\ exists e, cur s = Some e /\ e_own e = t
  | PhPopR h => holder s = Some h /\ ((exists e, cur s = Some e /\ e_own e = t) \/ exists o n, pcs s h = W_incall o n t)
  | PhSig d => exists c, pcs s d = G_sig c t
  | PhSigd => exists d c, pcs s d = G_wake c t
  end.
Proof. exact no_lost_wake. Qed.
Print Assumptions C05_sync_no_lost_wake.

Theorem C05_sync_signaller_unique : forall s d1 d2 c1 c2 w,
  reach s -> pcs s d1 = G_sig c1 w -> pcs s d2 = G_sig c2 w -> d1 = d2.
Proof. exact signaller_unique. Qed.
Print Assumptions C05_sync_signaller_unique.

(* the invariant itself *)
Theorem C05_sync_invariant : forall s, reach s -> Inv s.
Proof. exact inv_reach. Qed.
Print Assumptions C05_sync_invariant.

(* tie: the global model moves threads with the automaton the recorded traces are replayed through, and the automaton's
   leaf site lists are the ones the translator reads from the source *)
Theorem C05_sync_model_uses_thread_automaton : forall s t e s',
  gstep s t e = Some s' -> exists acts, tstep t (pcs s t) e = Some (pcs s' t, acts).
Proof. exact gstep_tstep. Qed.
Print Assumptions C05_sync_model_uses_thread_automaton.

Theorem C05_sync_sites_match_source :
  model_sites_event_signal = f_dispatch_thread_event_signal_sites /\
  model_sites_event_wait = f_dispatch_thread_event_wait_sites /\
  model_sites_event_wait_slow = f_dispatch_thread_event_wait_slow_sites /\
  model_sites_async_and_wait_invoke = f_dispatch_async_and_wait_invoke_sites /\
  model_sites_event_signal = f_dispatch_waiter_wake_wlh_anon_sites /\
  model_sites_push_item = f_dispatch_queue_push_item_sites /\
  model_sites_pop_head = f_dispatch_queue_pop_head_sites /\
  model_sites_class_barrier_complete = f_dispatch_lane_class_barrier_complete_sites.
Proof. exact sites_all. Qed.
Print Assumptions C05_sync_sites_match_source.

(* ---- Part 2: the hand-off edges (statements in Proofs/SyncEdges_proofs.v, repeated in full) ---- *)

Theorem C05_edge_submit_item :
  release_then_publish F_dq_items_tail [F_do_next] [F_do_next; F_dq_items_head] f_dispatch_queue_push_item_sites = true /\
  first_is (fun x => reads (s_kind x) && acq (s_order x)) f_dispatch_queue_get_head_sites = true /\
  first_is (acquire_on F_do_next) f_dispatch_queue_pop_head_sites = true /\
  rel_order wakeup_loop_order /\ rel_order push_waiter_loop_order /\ acq_order f_dispatch_queue_drain_try_lock_order /\
  existsb (release_on F_dq_state) f_dispatch_queue_wakeup_sites = true /\
  existsb (acquire_on F_dq_state) f_dispatch_queue_drain_try_lock_sites = true /\
  (forall s t e s' c, pcs s t = B_head c \/ (exists o, pcs s t = W_head o) -> gstep s t e = Some s' -> ea e <> 0 ->
     exists e1 rest, lst s = e1 :: rest /\ e_linked e1 = true /\ e_id e1 = ea e).
Proof. exact edge_submit_item. Qed.
Print Assumptions C05_edge_submit_item.

Theorem C05_edge_item_next_item :
  rel_order f_dispatch_queue_drain_try_unlock_order /\ rel_order barrier_sync_unlock_loop_order /\
  rel_order class_barrier_complete_loop_order /\ rel_order drain_barrier_waiter_loop_order /\
  rel_order invoke_finish_loop_order /\
  existsb (release_on F_dq_state) f_dispatch_queue_drain_try_unlock_sites = true /\
  existsb (release_on F_dq_state) f_dispatch_lane_class_barrier_complete_sites = true /\
  existsb (release_on F_dq_state) f_dispatch_lane_drain_barrier_waiter_sites = true /\
  acq_order f_dispatch_queue_drain_try_lock_order /\
  acq_order f_dispatch_queue_try_acquire_barrier_sync_and_suspend_order /\
  existsb (acquire_on F_dq_state) f_dispatch_queue_drain_try_lock_sites = true /\
  existsb (fun x => acquire_on F_dq_state x && match s_kind x with KXor => true | _ => false end)
          f_dispatch_queue_drain_try_unlock_sites = true /\
  (forall s t, reach s -> incall (pcs s t) = true ->
     holder s = Some t /\ Z.land (st s) OWNER_MASK = t /\ running s = Some t /\ overlap s = false /\
     forall u, incall (pcs s u) = true -> u = t).
Proof. exact edge_item_next_item. Qed.
Print Assumptions C05_edge_item_next_item.

Theorem C05_edge_item_sync_return :
  first_is (release_on F_dte_value) f_dispatch_thread_event_signal_sites = true /\
  first_is (release_on F_dte_value) f_dispatch_waiter_wake_wlh_anon_sites = true /\
  existsb (release_on F_dte_value) f_dispatch_async_and_wait_invoke_sites = true /\
  existsb (release_on F_dte_value) f_dispatch_lane_drain_barrier_waiter_sites = true /\
  first_is (acquire_on F_dte_value) f_dispatch_thread_event_wait_sites = true /\
  first_is (acquire_on F_dte_value) f_dispatch_thread_event_wait_slow_sites = true /\
  (forall self k p e acts,
     (tstep self (S_sub k) e = Some (p, acts) -> p = S_woken k -> is_ev e DV_SUB MO_ACQUIRE self = true /\ ea e = 1) /\
     (tstep self (S_eload k) e = Some (p, acts) -> p = S_woken k -> is_ev e DV_LOAD MO_ACQUIRE self = true /\ ea e = 0)) /\
  (forall o n w e p acts self, tstep self (W_incall o n w) e = Some (p, acts) ->
     ek e = DVU_CALLOUT_END /\ (w <> 0 -> p = G_sig (CDrain o n) w)) /\
  (forall s t k, reach s -> pcs s t = S_woken k ->
     ph s t = PhSigd /\ ((holder s = Some t /\ ist s t = IPend) \/ (ist s t = IFin /\ remote s t = true))).
Proof. exact edge_item_sync_return. Qed.
Print Assumptions C05_edge_item_sync_return.

(* group: which side is pinned.  PRODUCER: dispatch_group_leave starts with a release on dg_state; _dispatch_group_wake
   publishes with a release on dg_notify_tail / dispatch_group_notify_f with a release on dg_state.  CONSUMER of
   dispatch_group_WAIT: pinned (the acquire fence after the relaxed load that saw zero, or the acquire load of dg_gen in the
   slow path, and the model returns 0 only on a changed generation read by that acquire).  CONSUMER of
   dispatch_group_NOTIFY: NOT pinned here -- the thread that runs a notify block performs no acquire on the group's words
   (semaphore.c: the final leaver's _dispatch_group_wake is release-only and hands the block to its queue with dx_push);
   no theorem of this development pins that edge (it rests on the queue's own push -> pop edge from the final leaver,
   C05_edge_submit_item, and on the earlier leavers' release RMWs on dg_state). *)
Theorem C05_edge_group :
  first_is (release_on F_dg_state) dispatch_group_leave_sites = true /\
  nth_error dispatch_group_wait_sites 0 = Some {| s_kind := KLoad; s_field := F_dg_state; s_order := Relaxed |} /\
  (match nth_error dispatch_group_wait_sites 1 with Some x => acquire_fence x | None => false end) = true /\
  first_is (acquire_on F_dg_gen) f_dispatch_group_wait_slow_sites = true /\
  existsb (acquire_on F_dg_gen) dispatch_group_wait_sites = true /\
  existsb (release_on F_dg_notify_tail) f_dispatch_group_wake_sites = true /\
  existsb (release_on F_dg_state) dispatch_group_notify_f_sites = true /\
  (forall tmo gen rc e, Group.tstep (Group.PSlowLoad tmo gen rc) e = Some (Group.PRetV 0) ->
     ev_is e DV_LOAD MO_ACQUIRE Group.OFF_GEN = true /\ ea e <> gen).
Proof. exact edge_group. Qed.
Print Assumptions C05_edge_group.

Theorem C05_edge_semaphore :
  first_is (release_on F_dsema_value) dispatch_semaphore_signal_sites = true /\
  first_is (acquire_on F_dsema_value) dispatch_semaphore_wait_sites = true /\
  (forall e p, Sema.tstep Sema.PSigInc e = Some p -> ev_is e DV_ADD MO_RELEASE Sema.OFF_VALUE = true) /\
  (forall k e, Sema.tstep (Sema.PWDec k) e = Some Sema.PWRet0 ->
     ev_is e DV_SUB MO_ACQUIRE Sema.OFF_VALUE = true /\ 0 <= s64 (s64 (ea e) - 1)).
Proof. exact edge_semaphore. Qed.
Print Assumptions C05_edge_semaphore.

(* PARTIAL (see the comment at SyncEdges_proofs.edge_once_partial): the release half and the model half hold; the
   out-of-line code of this build has no acquire on dgo_once for a caller that finds the initialiser already run, which is
   immaterial on x86-64 (TSO) and would need an acquire fence on weaker hardware.  Full statement wanted:
     existsb (acquire_on F_dgo_once) once_wait_sites = true  (or an acquire fence on the DONE give-up path). *)
Theorem C05_edge_once_partial :
  existsb (release_on F_dgo_once) dispatch_once_f_sites = true /\
  first_is (release_on F_dgo_once) f_dispatch_once_mark_done_sites = true /\
  existsb (fun x => acquire_on F_dgo_once x || acquire_fence x) (dispatch_once_f_sites ++ once_wait_sites) = false /\
  (forall self old e, Once.tstep self (Once.PWBody old) e = Some Once.PIdle -> old = Once.DONE) /\
  (forall s t e s', Once.reach s -> Once.valid_tid t -> Once.gstep s t e = Some s' -> ev_kind e DVU_RET = true ->
     Once.finished s = true).
Proof. exact edge_once_partial. Qed.
Print Assumptions C05_edge_once_partial.

(* ---- non-vacuity: a concrete schedule (SyncWait_example.sched1..4, evaluated through gstep): thread 5 takes the fast
   path, 6 (dispatch_sync_f) and 7 (dispatch_async_and_wait_f) park behind it; at the end of sched2 the lock has been
   transferred to 6 — dq_state names 6 — while 6 is still asleep and 5 stands at the signal site; at the end every item has
   run once, every call has returned and dq_state is back to its initial value ---- *)
Example C05_sync_nonvacuous :
  (exists s, reach s /\ holder s = Some 6 /\ Z.land (st s) OWNER_MASK = 6 /\ slp s 6 = Sleeping /\ ph s 6 = PhSig 5 /\
             pcs s 5 = G_sig CRet 6 /\ slp s 7 = Sleeping /\ ph s 7 = PhQueued) /\
  (exists s, reach s /\ holder s = None /\ st s = init_word /\ runs s 5 = 1 /\ runs s 6 = 1 /\ runs s 7 = 1 /\
             ist s 6 = IFin /\ ist s 7 = IFin /\ pcs s 6 = Idle /\ pcs s 7 = Idle /\ lst s = []).
Proof. exact nonvacuous. Qed.

(* ... and the remote run (SyncWait_example.schedR1, schedR2): a worker pops the context of a dispatch_async_and_wait
   caller, runs the item itself while the caller sleeps, then signals it; the caller returns with its item finished, run
   once, by the drainer *)
Example C05_sync_nonvacuous_remote :
  (exists s, reach s /\ holder s = Some 6 /\ running s = Some 6 /\ pcs s 6 = W_incall OWN 0 7 /\ slp s 7 = Sleeping /\
             ph s 7 = PhPopR 6 /\ runs s 7 = 1 /\ ist s 7 = IRun) /\
  (exists s, reach s /\ holder s = None /\ st s = init_word /\ runs s 7 = 1 /\ ist s 7 = IFin /\ remote s 7 = true /\
             pcs s 7 = Idle /\ pcs s 6 = Idle /\ early_ret s = false).
Proof. exact nonvacuous_remote. Qed.
