(* C05 — synchronous submission returns after completion; dispatch orders memory.
   PARTIAL.  What this file proves is a PLACEMENT statement, by computation on what the translator reads from the source
   on every run: it pins the memory order the source currently has at the listed hand-off sites, so that weakening any of
   them in the source breaks this theorem although no test on x86 can observe it.  It does NOT prove that these orders are
   adequate (no C11 / release-acquire view model is formalised), and the list is not "acquire on every lock acquisition":
   as the conjuncts themselves say, the lock acquisitions inside `push_waiter_loop` and `resume_loop` are release-only RMWs
   (the hand-off to the woken thread supplies the acquire side), two further lock hand-overs (`non_barrier_complete_loop`,
   queue.c:972, and `drain_non_barriers_loop`, queue.c:1471) are relaxed in the source and are not pinned here, the once
   gate's consumer load is relaxed in the source (lock.c; the inline fast path relies on a dependency / compiler barrier),
   the thread-event slow path's acquire load (`_dispatch_thread_event_wait_slow`) and the consumer side of the group-notify
   edge are pinned in Properties_C05_sync.v (when registered in lib/props/c05.py) and not here.
   NOT proved here: the temporal half for all interleavings (see Properties_C05_sync.v); the temporal half and payload
   visibility are also decided on the implementation by the stress oracle (return stamp vs item end stamp, check-summed
   plain payloads). *)
From Coq Require Import ZArith Bool List.
From Verif Require Import Word Gen_consts Gen_fields Gen_dqstate Gen_lanesites Gen_once Suspend_proofs Lane_iface.
Import ListNotations.
Local Open Scope Z_scope.

Theorem C05_handoff_edge_orders_partial :
  f_dispatch_queue_drain_try_lock_order = Acquire /\ f_dispatch_queue_drain_try_unlock_order = Release /\
  f_dispatch_queue_try_acquire_barrier_sync_and_suspend_order = Acquire /\
  barrier_sync_unlock_loop_order = Release /\ drain_barrier_waiter_loop_order = Release /\
  class_barrier_complete_loop_order = Release /\ invoke_finish_loop_order = Release /\
  wakeup_loop_order = Release /\ push_waiter_loop_order = Release /\ resume_loop_order = Release /\
  f_dispatch_queue_try_acquire_async_order = Acquire /\ f_dispatch_queue_try_upgrade_full_width_order = Acquire /\
  map ko f_dispatch_thread_event_signal_sites = [(KAdd, Release)] /\
  map ko f_dispatch_thread_event_wait_sites = [(KSub, Acquire)] /\
  map ko f_dispatch_queue_push_item_sites = [(KStore, Relaxed); (KXchg, Release); (KStore, Relaxed); (KStore, Relaxed)] /\
  map ko f_dispatch_queue_get_head_sites = [(KLoad, Acquire)] /\
  map ko f_dispatch_queue_pop_head_sites =
    [(KLoad, Acquire); (KStore, Relaxed); (KCas, Release); (KLoad, Acquire); (KStore, Relaxed)] /\
  map ko dispatch_semaphore_signal_sites = [(KAdd, Release)] /\
  hd (KLoad, Relaxed) (map ko dispatch_semaphore_wait_sites) = (KSub, Acquire) /\
  hd (KLoad, Relaxed) (map ko dispatch_group_leave_sites) = (KAdd, Release) /\
  hd (KLoad, Relaxed) (map ko dispatch_group_enter_sites) = (KSub, Acquire) /\
  map ko dispatch_group_wait_sites = [(KLoad, Relaxed); (KFence, Acquire); (KCasWeak, Relaxed); (KLoad, Acquire)] /\
  map ko f_dispatch_group_wait_slow_sites = [(KLoad, Acquire)] /\
  map ko f_dispatch_once_mark_done_sites = [(KXchg, Release)].
Proof. exact handoff_orders. Qed.
Print Assumptions C05_handoff_edge_orders_partial.

(* the drainer that finds DIRTY re-synchronises with the enqueuer through an acquire xor before looking again *)
Theorem C05_dirty_recheck_is_acquire_partial : forall s owned done,
  nz (f_dq_state_is_suspended s) = false -> nz (f_dq_state_is_dirty s) = true ->
  f_dispatch_queue_drain_try_unlock 0 owned done s = NoCommit 0 [AXor 0 DIRTY Acquire].
Proof. exact unlock_refuses_dirty. Qed.
Print Assumptions C05_dirty_recheck_is_acquire_partial.

Example C05_nonvacuous : length f_dispatch_queue_pop_head_sites = 5%nat /\ length dispatch_group_wait_sites = 4%nat.
Proof. split; reflexivity. Qed.
