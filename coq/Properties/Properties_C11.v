(* C11 — timers and dispatch_after never fire early and always fire.
   Models: Model/Heap.v (timer double heap; index arithmetic = Gen_timer, translated from src/event/event.c),
   Model/TimerRun.v (compute_missed, _dispatch_timers_run, _program, configure/arm/disarm/resume, latch).
   Both are tied to the library by the white-box correspondence (harness/c11_heap.c).

   Proved for every population and every history: the heap part (1-5), compute_missed (6-7), and the run / program /
   configure / latch mechanisms (8-12) each on its own.
   NOT proved (hence the `_partial` names): the composition over whole histories of the TimerRun state machine, i.e.
     forall reachable state, every heap tidx satisfies Inv w.r.t. { t | armed t /\ ident t = tidx }   [*]
   and from it the full statement
     "an armed, unsuspended, uncancelled timer with target <= now implies needs_program \/ dirty \/ the kernel timer
      of its heap is armed with an expiry <= its target" (always fires), and "sum of reported counts <= boundaries
      passed since the configured start" over several fires.
   [*] needs the frame lemma that remove/update read the key of the moved timers only (the key of the timer being
   removed / re-keyed has already been overwritten by compute_missed / configure when arm/disarm run).  C11_run_fixpoint
   therefore takes Inv of the final heap as a hypothesis; C11_heap_inv_preserved discharges it for every sequence of heap
   operations with stable keys.  The arithmetic of _dispatch_timer_config_create and _dispatch_after (source.c) is
   not modelled: its guarantees (1 <= target, now < 2^63, interval >= 1) are hypotheses of 6, 7 and 12. *)
From Coq Require Import ZArith List Bool.
From Verif Require Import Word Gen_consts Gen_timer Heap TimerRun Heap_proofs TimerRun_proofs.
Import ListNotations.
Local Open Scope Z_scope.

(* 1. index arithmetic of the translated functions: standard 0-based binary heap per parity *)
Theorem C11_index_arithmetic : forall i, 0 <= i < 2147483646 ->
  left_child i mod 2 = i mod 2 /\ i < left_child i /\ 2 <= left_child i /\
  parent (left_child i) = i /\ parent (left_child i + 2) = i.
Proof. exact left_child_facts. Qed.
Print Assumptions C11_index_arithmetic.

Theorem C11_parent_children : forall j i, 2 <= j < 2147483647 -> parent j = i ->
  j = left_child i \/ j = left_child i + 2.
Proof. exact parent_children. Qed.
Print Assumptions C11_parent_children.

(* 2. every sequence of insert / remove / update on every population (up to capacity 29 segments = 2^31 - 26 cells)
   preserves: both heap orders, back-pointers, count, cells beyond count NULL, segment accounting *)
Theorem C11_heap_inv_preserved : forall ops k h S,
  Inv k S h -> ops_ok S ops -> h_count h + 2 * Z.of_nat (length ops) <= CAPMAX ->
  let st := fold_left hstep ops (k, h) in
  Inv (fst st) (ops_set S ops) (snd st).
Proof. exact heap_inv_preserved. Qed.
Print Assumptions C11_heap_inv_preserved.

(* single operations, with what they do to the stored set, to needs_program and to other timers' entries *)
Theorem C11_insert : forall key S h dt qos,
  Inv key S h -> ~ S dt -> dt <> 0 -> h_count h + 2 <= CAPMAX ->
  let h' := insert key h dt qos in
  Inv key (fun u => u = dt \/ S u) h' /\ h_count h' = h_count h + 2 /\ np_ok h h' /\
  (forall g u, ~ S u -> u <> dt -> h_ent h' g u = h_ent h g u).
Proof. exact insert_inv. Qed.
Print Assumptions C11_insert.

Theorem C11_remove : forall key S h dt,
  Inv key S h -> S dt ->
  let h' := remove key h dt in
  Inv key (fun u => S u /\ u <> dt) h' /\ h_count h' = h_count h - 2 /\
  h_ent h' 0 dt = DTH_INVALID_ID /\ h_ent h' 1 dt = DTH_INVALID_ID /\ np_ok h h' /\
  (forall g u, ~ S u -> h_ent h' g u = h_ent h g u).
Proof. exact remove_inv. Qed.
Print Assumptions C11_remove.

Theorem C11_update : forall key S h dt key0,
  Inv key0 S h -> S dt -> (forall g u, u <> dt -> key g u = key0 g u) ->
  Inv key S (update key h dt) /\ np_ok h (update key h dt) /\
  (forall g u, ~ S u -> h_ent (update key h dt) g u = h_ent h g u).
Proof. exact update_inv. Qed.
Print Assumptions C11_update.

(* 3. the min slots hold a minimum by target / by deadline of the stored set *)
Theorem C11_min_is_min : forall key S h, Inv key S h ->
  forall t, S t ->
    S (h_slot h 0) /\ key 0 (h_slot h 0) <= key 0 t /\
    S (h_slot h 1) /\ key 1 (h_slot h 1) <= key 1 t.
Proof. exact min_is_min. Qed.
Print Assumptions C11_min_is_min.

(* 4. stored set = abstract set: each of the two heaps enumerates S without repetition *)
Theorem C11_heap_is_set : forall key S h, Inv key S h ->
  (forall hid, hid = 0 \/ hid = 1 ->
     (forall j, 0 <= j < h_count h -> j mod 2 = hid -> S (h_slot h j) /\ h_ent h hid (h_slot h j) = j) /\
     (forall t, S t -> exists j, 0 <= j < h_count h /\ j mod 2 = hid /\ h_slot h j = t /\ h_ent h hid t = j) /\
     (forall j j', 0 <= j < h_count h -> 0 <= j' < h_count h -> j mod 2 = hid -> j' mod 2 = hid ->
        h_slot h j = h_slot h j' -> j = j')) /\
  (forall j, ~ (0 <= j < h_count h) -> h_slot h j = 0) /\ ~ S 0.
Proof. exact heap_is_set. Qed.
Print Assumptions C11_heap_is_set.

(* 5. segmented storage: get_slot's cell is inside an allocated segment, outside the pointer table, injective *)
Theorem C11_slot_address_in_bounds : forall segments idx,
  0 <= segments < 30 -> 2 <= idx < capacity segments ->
  0 <= fst (slot_addr idx) < segments /\ 0 <= snd (slot_addr idx) < seg_usable segments (fst (slot_addr idx)).
Proof. exact slot_addr_in_bounds. Qed.
Print Assumptions C11_slot_address_in_bounds.
Theorem C11_slot_address_injective : forall idx idx',
  2 <= idx < 2147483648 -> 2 <= idx' < 2147483648 -> slot_addr idx = slot_addr idx' -> idx = idx'.
Proof. exact slot_addr_injective. Qed.
Print Assumptions C11_slot_address_injective.

(* 6. compute_missed: count = number of interval boundaries passed; the new target is the first boundary after now *)
Theorem C11_missed_count : forall target deadline interval now prev,
  1 <= target <= now -> now < T63 -> 1 <= interval < T64 -> 0 <= deadline < T64 ->
  0 <= prev -> prev + (now - target) / interval + 1 <= LONG_MAX ->
  let '(r, tg, dl) := compute_missed target deadline interval now prev in
  let k := (now - target) / interval + 1 in
  r - prev = k /\
  (forall j, 0 <= j -> (target + j * interval <= now <-> j < r - prev)) /\
  (interval < INT64_MAX ->
     tg = target + k * interval /\ now < tg /\ tg - interval <= now /\ tg < T64 /\ dl = u64 (deadline + k * interval)) /\
  (INT64_MAX <= interval -> k = 1 /\ tg = UINT64_MAX /\ dl = UINT64_MAX).
Proof. exact missed_count. Qed.
Print Assumptions C11_missed_count.

(* 7. the LONG_MAX clamp *)
Theorem C11_missed_clamp : forall target deadline interval now prev,
  0 <= target <= now -> now < T63 -> 1 <= interval < T64 ->
  0 <= prev <= LONG_MAX -> LONG_MAX < prev + (now - target) / interval + 1 ->
  fst (fst (compute_missed target deadline interval now prev)) = LONG_MAX.
Proof. exact missed_clamp. Qed.
Print Assumptions C11_missed_clamp.

(* 8. never early: every fire event of a run at cached time `now` is for a timer whose target the loop read <= now *)
Theorem C11_never_early : forall fuel st tidx now ev st' ev' fin,
  run_loop fuel st tidx now ev = (st', ev', fin) ->
  exists new, ev' = ev ++ new /\ forall t p n tg, In (t, p, n, tg) new -> n = now /\ tg <= now.
Proof. exact run_never_early. Qed.
Print Assumptions C11_never_early.

(* 9. run fixpoint (partial: Inv of the final heap is a hypothesis, see the header) *)
Theorem C11_run_fixpoint_partial : forall st tidx now st' ev S,
  timers_run st tidx now = (st', ev, true) ->
  Inv (keyof (s_timers st')) S (s_heaps st' tidx) ->
  forall t, S t -> now < t_target (tm st' t).
Proof. exact run_fixpoint. Qed.
Print Assumptions C11_run_fixpoint_partial.

(* 10. programming: needs_program is cleared only by programming the kernel timer to the minimum target (or marking
   the heap dirty when that target is already due, or deleting the kernel timer when the heap is empty); with np_ok in
   C11_insert/remove/update: whenever a min slot changes, needs_program is set *)
Theorem C11_program_min_partial : forall st tidx now,
  0 <= now < T63 ->
  let m := h_slot (s_heaps st tidx) 0 in
  let st' := fst (program st tidx now) in
  h_np (s_heaps st' tidx) = false /\
  (m <> 0 -> now < t_target (tm st m) < INT64_MAX ->
     s_harmed st' tidx = true /\ s_ktimer st' tidx = t_target (tm st m) /\
     exists lw, snd (program st tidx now) = [(1, tidx, t_target (tm st m), lw)]) /\
  (m <> 0 -> t_target (tm st m) <= now -> s_dirty st' = true /\ s_harmed st' tidx = false) /\
  (m = 0 -> s_harmed st' tidx = false /\ (s_harmed st tidx = true -> s_ktimer st' tidx = -1)).
Proof. exact program_min. Qed.
Print Assumptions C11_program_min_partial.

(* 11. dispatch_source_set_timer: the timer follows only the new settings *)
Theorem C11_set_timer_replaces : forall st t c tg dl itv,
  t_cfg (tm st t) = Some (c, tg, dl, itv) ->
  let x := tm (configure st t) t in
  t_clock x = c /\ t_target x = tg /\ t_deadline x = dl /\ t_interval x = itv /\ t_pending x = 0 /\ t_cfg x = None /\
  (forall u, u <> t -> same_vals (tm (configure st t) u) (tm st u)).
Proof. exact configure_replaces. Qed.
Print Assumptions C11_set_timer_replaces.

(* 12. the count reported by dispatch_source_get_data at one invocation = accumulated count + boundaries passed *)
Theorem C11_count_bound_partial : forall st t now,
  let x := tm st t in
  let prev := t_pending x in
  0 <= prev < T64 ->
  (Z.land prev DISPATCH_TIMER_DISARMED_MARKER = 0 -> snd (latch st t now) = Z.shiftr prev 1) /\
  (Z.land prev DISPATCH_TIMER_DISARMED_MARKER <> 0 ->
   1 <= t_target x <= now -> now < T63 -> 1 <= t_interval x < T64 -> 0 <= t_deadline x < T64 ->
   t_target x < INT64_MAX ->
   Z.shiftr prev 1 + (now - t_target x) / t_interval x + 1 <= LONG_MAX ->
   snd (latch st t now) = Z.shiftr prev 1 + ((now - t_target x) / t_interval x + 1) /\
   (t_interval x < INT64_MAX -> now < t_target (tm (fst (latch st t now)) t))) /\
  t_pending (tm (fst (latch st t now)) t) = 0.
Proof. exact latch_count. Qed.
Print Assumptions C11_count_bound_partial.

(* non-vacuity: the invariant holds of the empty heap and (by 2) of the heap after three inserts with ties, an update
   and a remove; the run on a concrete state with two due timers and one future timer fires exactly the two *)
Example C11_nonvacuous :
  Inv (fun _ _ => 0) (fun _ => False) empty_heap /\
  (let st := fold_left hstep [HIns 1 10 20; HIns 2 5 30; HIns 3 5 7; HUpd 2 50 1; HDel 3] (fun _ _ => 0, empty_heap) in
   h_count (snd st) = 4 /\ h_slot (snd st) 0 = 1 /\ h_slot (snd st) 1 = 2) /\
  (let st := fold_left (fun s o => fst (tstep 3 s o))
               [TNew 1 0; TCfg 1 0 100 105 10; TReg 1; TResume 1; TNew 2 0; TCfg 2 0 90 90 7; TReg 2; TResume 2;
                TNew 3 0; TCfg 3 0 500 600 1; TReg 3; TResume 3] init_state in
   let '(st', ev, fin) := timers_run st 0 125 in
   fin = true /\ map (fun '(t, p, _, _) => (t, p)) ev = [(2, 12); (1, 6)] /\
   t_target (tm st' 1) = 130 /\ t_target (tm st' 2) = 132 /\ h_slot (s_heaps st' 0) 0 = 1 /\
   s_ktimer (fst (program st' 0 125)) 0 = 130).
Proof. split; [apply Inv_empty|]. split; vm_compute; repeat split; reflexivity. Qed.
