(* C11 — timers and dispatch_after never fire early and always fire.
   Models: Model/Heap.v (timer double heap; index arithmetic = Gen_timer, translated from src/event/event.c),
   Model/TimerRun.v (compute_missed, _dispatch_timers_run, _program, configure/arm/disarm/resume, latch, the
   arithmetic of dispatch_source_set_timer / DISPATCH_SOURCE_TYPE_INTERVAL / dispatch_after, the timerfd side of
   event_epoll.c, and - last section - the source side: when src/source.c issues install / configure / latch /
   unregister / _dispatch_unote_resume on a timer source (_dispatch_source_wakeup, _dispatch_source_invoke2)).
   Tied to the library by the white-box correspondences (harness/c11_heap.c, c11_cfg.c, c11_epoll.c), the replay
   of recorded runs of the whole library through the model (harness/c11_trace.c) and the public-API oracle (c11_e2e.c).

   Proved for every population and every history: the heap (1-5), compute_missed (6-7), never early (8), the state
   invariant of the whole machine over every reachable state and the run fixpoint (9), programming / the manager's pass
   (10-10b), ALWAYS FIRES (10c, 10c', 10c''), set_timer replaces (11), counts (12, 12b), the arithmetic of
   dispatch_source_set_timer, of interval sources and of dispatch_after incl. the out-of-range `when` (13-14),
   dispatch_after fires at most once (15).
   Termination of _dispatch_timers_run and of the manager's pass is proved (C11_run_total, C11_manager_pass).

   GRANULARITY (applies to 9-12b, 15): one step of the model is one whole C function (one _dispatch_timers_run
   iteration, one _dispatch_source_latch_and_call, one _dispatch_timer_unote_configure ...) executed atomically.  In
   the library three kinds of threads touch a timer: the manager thread (every heap operation, _dispatch_timers_run,
   configure/resume of an armed timer: the callers hop to the manager queue first, source.c:771-776 and :866-869), the
   thread draining the source (latch, handler, configure of a DISARMED timer, source.c:534-578) and client threads
   (dispatch_source_set_timer).  What is shared between them is accessed as follows, and the theorems assume that this
   makes the functions behave as if atomic; the assumption is not proved here (no weak-memory / interleaving model):
   - ds_pending_data: manager: relaxed load event.c:1092, os_atomic_or_orig of the DISARMED marker :1094, stores
     :1062 :1105 (relaxed) :1109 (release), :879 (configure); handler: os_atomic_xchg(.., 0) source.c:534.  The one
     window inside a step is load :1092 -> or_orig :1094: a latch between them makes or_orig return 0 and the run takes
     the "no data pending" route with the value it fetched atomically - the model's two branches at two different
     states, i.e. latch-then-fire.
   - dt_pending_config: os_atomic_xchg on both sides (source.c:1320 release, event.c:870 dependency).
   - dt_timer (target, deadline, interval): written by the manager while the timer is armed or being configured on the
     manager queue, and by the handler's catch-up (source.c:505-526, compute_missed at :521) only when it latched the
     DISARMED marker, i.e. after the manager's release store :1109 / or_orig :1094 took the timer out of the heap and
     before the source is resumed, which happens after the latch in the same invoke (source.c:866 follows :801).
   The replay of recorded multi-thread runs (check_trace in lib/props/c11.py) checks these orderings on real
   executions: which thread called what, and that every recorded state equals the model's at that point. *)
From Coq Require Import ZArith List Bool.
From Verif Require Import Word Gen_consts Gen_time Gen_timer Time Time_proofs Heap TimerRun Heap_proofs TimerRun_proofs TimerSys_proofs TimerSrc_proofs.
Import ListNotations.
Local Open Scope Z_scope.

(* 1. index arithmetic of the translated functions: standard 0-based binary heap per parity *)
Theorem C11_index_arithmetic : forall i, 0 <= i < 2147483646 ->
  left_child i mod 2 = i mod 2 /\ i < left_child i /\ 2 <= left_child i /\
  parent (left_child i) = i /\ parent (left_child i + 2) = i.
Proof. exact left_child_facts. Qed.
Print Assumptions C11_index_arithmetic.

Theorem C11_parent_children : forall j i, 2 <= j < 2147483647 -> parent j = i ->
  j = left_child i \/ j = left_child i + 2.
Proof. exact parent_children. Qed.
Print Assumptions C11_parent_children.

(* 2. every sequence of insert / remove / update on every population (up to capacity 29 segments = 2^31 - 26 cells)
   preserves: both heap orders, back-pointers, count, cells beyond count NULL, segment accounting *)
Theorem C11_heap_inv_preserved : forall ops k h S,
  Inv k S h -> ops_ok S ops -> h_count h + 2 * Z.of_nat (length ops) <= CAPMAX ->
  let st := fold_left hstep ops (k, h) in
  Inv (fst st) (ops_set S ops) (snd st).
Proof. exact heap_inv_preserved. Qed.
Print Assumptions C11_heap_inv_preserved.

(* single operations, with what they do to the stored set, to needs_program and to other timers' entries *)
Theorem C11_insert : forall key S h dt qos,
  Inv key S h -> ~ S dt -> dt <> 0 -> h_count h + 2 <= CAPMAX ->
  let h' := insert key h dt qos in
  Inv key (fun u => u = dt \/ S u) h' /\ h_count h' = h_count h + 2 /\ np_ok h h' /\
  (forall g u, ~ S u -> u <> dt -> h_ent h' g u = h_ent h g u) /\
  (h_np h' = true \/ (h_slot h' 0 = h_slot h 0 /\ h_slot h' 0 <> dt)).
Proof. exact insert_inv. Qed.
Print Assumptions C11_insert.

Theorem C11_remove : forall key S h dt,
  Inv key S h -> S dt ->
  let h' := remove key h dt in
  Inv key (fun u => S u /\ u <> dt) h' /\ h_count h' = h_count h - 2 /\
  h_ent h' 0 dt = DTH_INVALID_ID /\ h_ent h' 1 dt = DTH_INVALID_ID /\ np_ok h h' /\
  (forall g u, ~ S u -> h_ent h' g u = h_ent h g u).
Proof. exact remove_inv. Qed.
Print Assumptions C11_remove.

Theorem C11_update : forall key S h dt key0,
  Inv key0 S h -> S dt -> (forall g u, u <> dt -> key g u = key0 g u) ->
  Inv key S (update key h dt) /\ np_ok h (update key h dt) /\
  (forall g u, ~ S u -> h_ent (update key h dt) g u = h_ent h g u) /\
  (h_np (update key h dt) = true \/
   (h_slot (update key h dt) 0 = h_slot h 0 /\ h_slot (update key h dt) 0 <> dt)).
Proof. exact update_inv. Qed.
Print Assumptions C11_update.

(* 3. the min slots hold a minimum by target / by deadline of the stored set *)
Theorem C11_min_is_min : forall key S h, Inv key S h ->
  forall t, S t ->
    S (h_slot h 0) /\ key 0 (h_slot h 0) <= key 0 t /\
    S (h_slot h 1) /\ key 1 (h_slot h 1) <= key 1 t.
Proof. exact min_is_min. Qed.
Print Assumptions C11_min_is_min.

(* 4. stored set = abstract set: each of the two heaps enumerates S without repetition *)
Theorem C11_heap_is_set : forall key S h, Inv key S h ->
  (forall hid, hid = 0 \/ hid = 1 ->
     (forall j, 0 <= j < h_count h -> j mod 2 = hid -> S (h_slot h j) /\ h_ent h hid (h_slot h j) = j) /\
     (forall t, S t -> exists j, 0 <= j < h_count h /\ j mod 2 = hid /\ h_slot h j = t /\ h_ent h hid t = j) /\
     (forall j j', 0 <= j < h_count h -> 0 <= j' < h_count h -> j mod 2 = hid -> j' mod 2 = hid ->
        h_slot h j = h_slot h j' -> j = j')) /\
  (forall j, ~ (0 <= j < h_count h) -> h_slot h j = 0) /\ ~ S 0.
Proof. exact heap_is_set. Qed.
Print Assumptions C11_heap_is_set.

(* 5. segmented storage: get_slot's cell is inside an allocated segment, outside the pointer table, injective *)
Theorem C11_slot_address_in_bounds : forall segments idx,
  0 <= segments < 30 -> 2 <= idx < capacity segments ->
  0 <= fst (slot_addr idx) < segments /\ 0 <= snd (slot_addr idx) < seg_usable segments (fst (slot_addr idx)).
Proof. exact slot_addr_in_bounds. Qed.
Print Assumptions C11_slot_address_in_bounds.
Theorem C11_slot_address_injective : forall idx idx',
  2 <= idx < 2147483648 -> 2 <= idx' < 2147483648 -> slot_addr idx = slot_addr idx' -> idx = idx'.
Proof. exact slot_addr_injective. Qed.
Print Assumptions C11_slot_address_injective.

(* 6. compute_missed: count = number of interval boundaries passed; the new target is the first boundary after now *)
Theorem C11_missed_count : forall target deadline interval now prev,
  1 <= target <= now -> now < T63 -> 1 <= interval < T64 -> 0 <= deadline < T64 ->
  0 <= prev -> prev + (now - target) / interval + 1 <= LONG_MAX ->
  let '(r, tg, dl) := compute_missed target deadline interval now prev in
  let k := (now - target) / interval + 1 in
  r - prev = k /\
  (forall j, 0 <= j -> (target + j * interval <= now <-> j < r - prev)) /\
  (interval < INT64_MAX ->
     tg = target + k * interval /\ now < tg /\ tg - interval <= now /\ tg < T64 /\ dl = u64 (deadline + k * interval)) /\
  (INT64_MAX <= interval -> k = 1 /\ tg = UINT64_MAX /\ dl = UINT64_MAX).
Proof. exact missed_count. Qed.
Print Assumptions C11_missed_count.

(* 7. the LONG_MAX clamp *)
Theorem C11_missed_clamp : forall target deadline interval now prev,
  0 <= target <= now -> now < T63 -> 1 <= interval < T64 ->
  0 <= prev <= LONG_MAX -> LONG_MAX < prev + (now - target) / interval + 1 ->
  fst (fst (compute_missed target deadline interval now prev)) = LONG_MAX.
Proof. exact missed_clamp. Qed.
Print Assumptions C11_missed_clamp.

(* 8. never early: every fire event of a run at cached time `now` is for a timer whose target the loop read <= now.
   DEFINITIONAL: this restates the loop guard of run_loop (`if target > now then exit`) for every iteration; its content
   is that run_loop mirrors _dispatch_timers_run (event.c:1041-1060, tied by the white-box and trace correspondences) and
   that no other path of the model emits a fire event *)
Theorem C11_never_early : forall fuel st tidx now ev st' ev' fin,
  run_loop fuel st tidx now ev = (st', ev', fin) ->
  exists new, ev' = ev ++ new /\ forall t p n tg, In (t, p, n, tg) new -> n = now /\ tg <= now.
Proof. exact run_never_early. Qed.
Print Assumptions C11_never_early.

(* 9. the state invariant of the whole machine: in EVERY state reachable by the operations of the timer machinery
   issued under their callers' guards (any number N <= 2^30 - 12 of timer records, any interleaving of create / set_timer /
   register / configure / resume / cancel / suspend / latch / run / program / manager pass), every heap satisfies the
   heap invariant w.r.t. exactly the armed timers of its clock, a timer with the DISARMED marker is not in a heap, and
   an armed timer has a target below INT64_MAX *)
Theorem C11_state_invariant : forall N n ops,
  0 <= N /\ 2 * N + 2 <= CAPMAX ->
  valid_run N n init_state ops -> GInv N (run_ops n init_state ops).
Proof. exact state_invariant_reachable. Qed.
Print Assumptions C11_state_invariant.

(* the frame fact the composition rests on: removing a timer never reads that timer's key *)
Theorem C11_remove_key_frame : forall key0 key S h dt,
  Inv key0 S h -> S dt -> (forall g u, u <> dt -> key g u = key0 g u) ->
  remove key h dt = remove key0 h dt.
Proof. exact remove_ext. Qed.
Print Assumptions C11_remove_key_frame.

(* _dispatch_timers_run TERMINATES (the clock reading is the cached one: constant during the call, below 2^63; timer values
   in the ranges of 13 / 13b / 14, kept by every operation: VInv) and then no armed timer of that heap is due.
   Measure: per stored timer, "has a pending configuration" + "target <= now"; every iteration lowers it for the timer in
   the min slot (fire: removed or re-armed strictly after now; configure: the pending configuration is consumed).
   If the clock were re-read in every iteration a 1 ns repeating timer could keep the loop busy for ever: the cache is what
   the proof uses. *)
Theorem C11_run_total : forall N, 0 <= N /\ 2 * N + 2 <= CAPMAX ->
  forall st tidx now,
  GInv N st -> VInv st -> 0 <= now < T63 ->
  exists st' ev, timers_run st tidx now = (st', ev, true) /\
    GInv N st' /\ VInv st' /\ forall t, member st' tidx t -> now < t_target (tm st' t).
Proof. exact run_total. Qed.
Print Assumptions C11_run_total.

(* 10. programming: needs_program is cleared only by programming the kernel timer to the minimum target (or marking
   the heap dirty when that target is already due, or deleting the kernel timer when the heap is empty); with np_ok in
   C11_insert/remove/update: whenever a min slot changes, needs_program is set *)
Theorem C11_program_min : forall st tidx now,
  0 <= now < T63 ->
  let m := h_slot (s_heaps st tidx) 0 in
  let st' := fst (program st tidx now) in
  h_np (s_heaps st' tidx) = false /\
  (m <> 0 -> now < t_target (tm st m) < INT64_MAX ->
     s_harmed st' tidx = true /\ s_ktimer st' tidx = t_target (tm st m) /\
     exists lw, snd (program st tidx now) = [(1, tidx, t_target (tm st m), lw)]) /\
  (m <> 0 -> t_target (tm st m) <= now -> s_dirty st' = true /\ s_harmed st' tidx = false) /\
  (m = 0 -> s_harmed st' tidx = false /\ (s_harmed st tidx = true -> s_ktimer st' tidx = -1)).
Proof. exact program_min. Qed.
Print Assumptions C11_program_min.

(* 10b. the manager's pass _dispatch_event_loop_drain_timers (run every heap, clear the dirty bits, program every heap that
   needs it, repeat while dirty) TERMINATES within N + 1 passes (a pass can leave the dirty bits set only if a pending
   configuration was consumed during it: a re-clocked timer landed, due, in a heap that had already been run), and when it
   returns, for every clock needs_program is clear, the kernel timer is armed at exactly the minimum target, and no armed
   timer is due at the cached clock readings *)
Theorem C11_manager_pass : forall N, 0 <= N /\ 2 * N + 2 <= CAPMAX ->
  forall fuel st nows,
  (forall i, 0 <= i < 3 -> 0 <= nows i < T63) -> SVInv N st -> N < Z.of_nat fuel ->
  exists st' ev calls, drain fuel st nows [] [] = (st', ev, calls, true) /\
    SVInv N st' /\ s_dirty st' = false /\
    forall i, 0 <= i < 3 ->
      npb st' i = false /\ kernel_ok st' i /\ forall t, member st' i t -> nows i < t_target (tm st' t).
Proof. exact manager_pass_total. Qed.
Print Assumptions C11_manager_pass.

(* 10c. a timer that is IN ITS HEAP is covered, in every state reachable from boot by operations of the timer machinery
   issued in any order under their callers' guards (sguard2: the environment is free, it need not follow source.c),
   kernel timer expiries and manager passes, for any population of at most N timer records: a member of heap i (armed,
   ident = i; armed implies uncancelled and target < INT64_MAX, GInv) is covered by a pending manager pass (dirty bits
   set: the manager runs _dispatch_event_loop_drain_timers before it sleeps) or by the kernel timer of its clock, armed
   with an expiry <= the timer's target.  With 10b: after the pass the second alternative holds and the target is in the
   future; with 8: when the kernel timer expires and the manager runs, the timer fires.
   This theorem says nothing about a timer that is NOT in its heap (never resumed, or taken out by a one-shot fire, by a
   fire with data still pending, by a resume / configure while its source was suspended): that is 10c'. *)
Theorem C11_armed_covered : forall N, 0 <= N /\ 2 * N + 2 <= CAPMAX ->
  forall n l t i,
  N <= n -> svalid2 N n init_state l -> 0 <= i < 3 ->
  let st := fold_left (sstep n) l init_state in
  member st i t ->
  s_dirty st = true \/ (s_harmed st i = true /\ s_ktimer st i <= t_target (tm st t)).
Proof. exact always_fires_total. Qed.
Print Assumptions C11_armed_covered.

(* 10c'. ALWAYS FIRES with the re-arm rule of src/source.c in the state machine (Model/TimerRun.v, "the source side"):
   the operations on a timer are no longer chosen by a free environment but issued by the source's invoke
   (_dispatch_source_invoke2: install, configure, latch + handler, unregister, _dispatch_unote_resume, in the order of
   the code, one action per XInvoke step), and dx_wakeup is called where the code calls it (dispatch_source_set_timer,
   dispatch_activate, dispatch_resume, dispatch_source_cancel, and _dispatch_source_merge_evt after every fire), with
   _dispatch_source_wakeup's own test deciding whether the source gets enqueued (x_enq).  Clients may create, set_timer,
   activate, suspend, resume and cancel in any order (xguard), the manager runs its pass at any time.
   In every reachable state, for every running timer (registered = activated and neither cancelled-and-unregistered nor
   a fired dispatch_after; source not cancelled, not suspended; target < INT64_MAX):
     either a wakeup of its source is pending (x_enq: the source is enqueued or its drainer will look again),
     or the timer is in its heap and covered as in 10c.
   RESTRICTIONS of the histories (xguard): single-level suspension (t_susp is a flag, not dq_state's suspend count: no second
   dispatch_suspend before the matching dispatch_resume), no dispatch_source_cancel before dispatch_activate (source.c:649-652
   handles it, the model does not), no dispatch_suspend of a source that was not activated, dispatch_after sources are never
   cancelled / reconfigured, at most one of the three clocks per source.
   BOUNDARY (not proved here, C01/C04): "x_enq" is an abstraction of the lane's enqueue / DIRTY protocol; that an enqueued,
   unsuspended source is eventually invoked, and that a dx_wakeup racing with an invoke is not lost, are the lane
   properties.  10c'' shows what the invokes behind a pending wakeup do. *)
Theorem C11_always_fires : forall N, 0 <= N /\ 2 * N + 2 <= CAPMAX ->
  forall l t, xvalid N x_init l ->
  let xs := fst (xrun x_init l) in let st := x_st xs in let i := t_ident (tm st t) in
  running xs t ->
  x_enq xs t = true \/
  (member st i t /\ 0 <= i < 3 /\ (s_dirty st = true \/ (s_harmed st i = true /\ s_ktimer st i <= t_target (tm st t)))).
Proof. exact always_fires_sources. Qed.
Print Assumptions C11_always_fires.

(* 10c''. progress of a pending wakeup: for a registered, uncancelled, unsuspended timer source with a wakeup pending, at
   most two invoke actions (configure or latch-and-call, then _dispatch_unote_resume), each enabled under XInvoke's guard,
   put the timer into its heap - unless its target is then "never" (>= INT64_MAX: a one-shot timer whose handler ran) *)
Theorem C11_rearm_progress : forall N, 0 <= N /\ 2 * N + 2 <= CAPMAX ->
  forall l t n1 n2, xvalid N x_init l ->
  let xs := fst (xrun x_init l) in
  1 <= t <= N -> 0 <= n1 < T63 -> 0 <= n2 < T63 -> live xs t ->
  exists l', (l' = [] \/ l' = [XInvoke t n1] \/ l' = [XInvoke t n1; XInvoke t n2]) /\
             xvalid N xs l' /\ settled (fst (xrun xs l')) t.
Proof. exact rearm_progress. Qed.
Print Assumptions C11_rearm_progress.

(* the invariant behind 10c' - 15: TimerSys's system invariant, an armed unote is registered, and
   _dispatch_source_wakeup's test being true of an activated, unsuspended source implies a pending wakeup *)
Theorem C11_source_invariant : forall N, 0 <= N /\ 2 * N + 2 <= CAPMAX ->
  forall l, xvalid N x_init l -> XInv N (fst (xrun x_init l)).
Proof. exact source_invariant_reachable. Qed.
Print Assumptions C11_source_invariant.

(* 10d. the abstract kernel timer of 10-10c (armed flag + programmed expiry) is refined by the timerfd / epoll state machine of
   src/event/event_epoll.c (_dispatch_timeout_program, tied by harness/c11_epoll.c): whenever the abstract timer is armed,
   the timerfd is registered and armed in epoll and its last timerfd_settime value is the abstract expiry *)
Theorem C11_kernel_timer_refines : forall N st i now ks,
  GInv N st -> Kref st ks -> 0 <= now < T63 ->
  Kref (fst (program st i now)) (apply_kcalls ks (snd (program st i now))).
Proof. exact program_refines. Qed.
Print Assumptions C11_kernel_timer_refines.
Theorem C11_kernel_expiry_refines : forall st i ks,
  Kref st ks -> Kref (kernel_expired st i) (updf ks i (merge_timer_k (ks i))).
Proof. exact kernel_expired_refines. Qed.
Print Assumptions C11_kernel_expiry_refines.

(* 11. dispatch_source_set_timer: the timer follows only the new settings.
   DEFINITIONAL: obtained by unfolding `configure` (plus: resume does not touch the values); its content is that
   `configure` mirrors _dispatch_timer_unote_configure (event.c:865-895), which the correspondences check *)
Theorem C11_set_timer_replaces : forall st t c tg dl itv,
  t_cfg (tm st t) = Some (c, tg, dl, itv) ->
  let x := tm (configure st t) t in
  t_clock x = c /\ t_target x = tg /\ t_deadline x = dl /\ t_interval x = itv /\ t_pending x = 0 /\ t_cfg x = None /\
  (forall u, u <> t -> same_vals (tm (configure st t) u) (tm st u)).
Proof. exact configure_replaces. Qed.
Print Assumptions C11_set_timer_replaces.

(* 12. the count reported by dispatch_source_get_data at one invocation = accumulated count + boundaries passed.
   `latch` is the timer branch of _dispatch_source_latch_and_call (source.c:529-546) with _dispatch_source_timer_data
   (source.c:505-526) as ONE atomic step: the xchg of ds_pending_data (source.c:534) is atomic in the library; the
   catch-up that follows it reads and writes dt_timer on the handler's thread, which is only race-free because the
   DISARMED marker it just latched means the manager has taken the timer out of its heap (see GRANULARITY above) *)
Theorem C11_latch_count : forall st t now,
  let x := tm st t in
  let prev := t_pending x in
  0 <= prev < T64 ->
  (Z.land prev DISPATCH_TIMER_DISARMED_MARKER = 0 -> snd (latch st t now) = Z.shiftr prev 1) /\
  (Z.land prev DISPATCH_TIMER_DISARMED_MARKER <> 0 ->
   1 <= t_target x <= now -> now < T63 -> 1 <= t_interval x < T64 -> 0 <= t_deadline x < T64 ->
   t_target x < INT64_MAX ->
   Z.shiftr prev 1 + (now - t_target x) / t_interval x + 1 <= LONG_MAX ->
   snd (latch st t now) = Z.shiftr prev 1 + ((now - t_target x) / t_interval x + 1) /\
   (t_interval x < INT64_MAX -> now < t_target (tm (fst (latch st t now)) t))) /\
  t_pending (tm (fst (latch st t now)) t) = 0.
Proof. exact latch_count. Qed.
Print Assumptions C11_latch_count.

(* 12b. (every event of the history l below is one atomic model step - a whole _dispatch_timers_run iteration or a whole
   latch; the bound is proved for interleavings of whole steps, see GRANULARITY above for why the library's accesses are
   taken to behave so and for the one window, load event.c:1092 / or_orig :1094, inside a step)
   count bound over SEVERAL fires: for every history of fires (at clock readings at which the target has been
   reached, cf. 8) and handler invocations of a repeating timer configured with (start, interval), with the handler
   lagging arbitrarily behind: the sum of the counts reported so far <= the number of boundaries start + k * interval
   that have passed at the latest clock reading.  fire_v / latch_v are the value part of _dispatch_timers_run's fire and
   of the latch: C11_count_projection_latch, C11_count_projection_fire *)
Theorem C11_count_bound : forall start itv, 1 <= start -> 1 <= itv < INT64_MAX ->
  forall dl0 l, 0 <= dl0 < T64 -> tevs_ok (start, dl0, itv, 0, 0, 0) l ->
  let '(_, total, m) := play (start, dl0, itv, 0, 0, 0) l in
  0 <= total <= Z.max 0 ((m - start) / itv + 1).
Proof. exact count_bound_multi. Qed.
Print Assumptions C11_count_bound.
Theorem C11_count_projection_latch : forall st t now,
  vals_of (tm (fst (latch st t now)) t) = fst (latch_v (vals_of (tm st t)) now) /\
  snd (latch st t now) = snd (latch_v (vals_of (tm st t)) now).
Proof. exact latch_vals. Qed.
Print Assumptions C11_count_projection_latch.
Theorem C11_count_projection_fire : forall st tidx now dr,
  t_after (tm st dr) = false -> t_cfg (tm st dr) = None ->
  exists b, vals_of (tm (fst (run_step st tidx now dr)) dr) = fire_v (vals_of (tm st dr)) now b.
Proof. exact run_step_vals. Qed.
Print Assumptions C11_count_projection_fire.

(* 13. dispatch_source_set_timer: ranges of what _dispatch_timer_config_create hands to the timer, for EVERY start /
   interval / leeway (decode = what the dispatch_time_t denotes, Model/Time.v, shared with C12): the ranges that
   compute_missed relies on (1 <= target <= 2^62 - 1, 1 <= interval), the leeway clamp, target on the clock the start
   was expressed in; a start that denotes no representable time is never armed *)
Theorem C11_config_ranges : forall k start interval leeway cur_clock,
  in64 start -> in64 interval -> in64 leeway -> clocks_ok k -> 0 <= cur_clock <= 2 ->
  let '(clock, tg, dl, itv) :=
    config_create start interval leeway cur_clock (now_wall k) (now_up k) (now_mono k) in
  1 <= itv <= INT64_MAX /\ 0 <= dl <= INT64_MAX /\ 0 <= clock <= 2 /\
  match decode k start with
  | Forever => never_armed tg
  | At c v => clock = cnum c /\ tg = v /\ 1 <= tg <= MAXV /\ tg <= dl /\
              (itv < INT64_MAX -> dl - tg <= itv / 2)
  end.
Proof. exact config_spec. Qed.
Print Assumptions C11_config_ranges.

(* 13b. DISPATCH_SOURCE_TYPE_INTERVAL (_dispatch_interval_config_create): interval between one unit and one year, first target =
   first multiple of the interval after now on the uptime clock, target <= deadline <= target + interval (also when
   interval * leeway wraps in 64 bits: intervals above 213 days with a large permille leeway get a smaller leeway) *)
Theorem C11_interval_config_ranges : forall start interval leeway animation now_up c tg dl itv,
  in64 interval -> in64 leeway -> 1 <= now_up < MAXV ->
  interval_config_create start interval leeway animation now_up = Some (c, tg, dl, itv) ->
  c = 0 /\
  (start = FOREVER -> tg = INT64_MAX /\ dl = INT64_MAX /\ itv = INT64_MAX) /\
  (start <> FOREVER ->
     start = 0 /\ 1 <= interval /\
     (if animation then NSEC_PER_FRAME else 1000000) <= itv <= FOREVER_NSEC /\
     tg mod itv = 0 /\ now_up < tg <= now_up + itv /\ 1 <= tg < INT64_MAX /\ tg <= dl <= tg + itv).
Proof. exact interval_config_spec. Qed.
Print Assumptions C11_interval_config_ranges.

(* 14. dispatch_after: the timer's target is exactly the time `when` denotes, on the clock it was expressed in (so, with 8,
   the block is not run before it); an elapsed `when` is a plain dispatch_async; leeway within [1 ms, 60 s]; a `when`
   that denotes no representable time gives target ~0 with a wrapped deadline and is never armed (behaves as FOREVER) *)
Theorem C11_dispatch_after : forall k when,
  in64 when -> clocks_ok k ->
  let r := dispatch_after_model when (now_wall k) (now_up k) (now_mono k) in
  match decode k when with
  | Forever => (when = FOREVER /\ r = AfterNever) \/
               (when <> FOREVER /\ exists c dl, r = AfterTimer c UINT64_MAX dl /\ never_armed UINT64_MAX)
  | At c v => if v <=? now k c then r = AfterNow
              else exists dl, r = AfterTimer (cnum c) v dl /\ v + NSEC_PER_MSEC <= dl <= v + 60 * NSEC_PER_SEC
  end.
Proof. exact after_spec. Qed.
Print Assumptions C11_dispatch_after.

(* 15. dispatch_after runs its block EXACTLY ONCE, the "at most once" half: from any reachable state of the system of 10c'
   on, and as long as the timer record is not handed to a new source (no XNew t), a timer created with
   DISPATCH_TIMER_AFTER produces at most one fire event in all manager passes together; once it is "spent" (unote
   DU_STATE_UNREGISTERED and disarmed: what event.c:1055-1062 leaves behind, or an unregistration) it never fires
   again; and after its fire it is spent.  Why: the one-shot branch of _dispatch_timers_run disarms AND unregisters the
   unote; _dispatch_source_refs_needs_rearm is false of an unregistered unote, so invoke2 never resumes it;
   _dispatch_source_install runs once per source.  (The handler side: the fire stores ds_pending_data = 2, the latch
   reports 1 and _dispatch_source_latch_and_call releases the source, source.c:579-583.)
   The "at least once" half is 10c' / 10c'' + 10b + 8: after activation the timer is running, gets resumed into its heap,
   is covered, and fires when the manager runs at or after its target.
   The history of the audit (fire, latch, resume, fire again) is not a history of this system, nor any more of the
   free-environment system of 9-10c: TResume's guard now demands a registered unote, as source.c does. *)
Theorem C11_after_at_most_once : forall N, 0 <= N /\ 2 * N + 2 <= CAPMAX ->
  forall l1 l2 t, xvalid N x_init l1 ->
  let xs := fst (xrun x_init l1) in
  xvalid N xs l2 -> no_new t l2 -> t_after (tm (x_st xs) t) = true ->
  (fires_of t (snd (xrun xs l2)) <= 1)%nat /\
  (spent (tm (x_st xs) t) -> fires_of t (snd (xrun xs l2)) = 0%nat) /\
  (fires_of t (snd (xrun xs l2)) = 1%nat -> spent (tm (x_st (fst (xrun xs l2))) t)).
Proof. exact after_fires_at_most_once. Qed.
Print Assumptions C11_after_at_most_once.

(* non-vacuity: the invariant holds of the empty heap and (by 2) of the heap after three inserts with ties, an update
   and a remove; the run on a concrete state with two due timers and one future timer fires exactly the two *)
Example C11_nonvacuous :
  Inv (fun _ _ => 0) (fun _ => False) empty_heap /\
  (let st := fold_left hstep [HIns 1 10 20; HIns 2 5 30; HIns 3 5 7; HUpd 2 50 1; HDel 3] (fun _ _ => 0, empty_heap) in
   h_count (snd st) = 4 /\ h_slot (snd st) 0 = 1 /\ h_slot (snd st) 1 = 2) /\
  (let st := fold_left (fun s o => fst (tstep 3 s o))
               [TNew 1 0; TCfg 1 0 100 105 10; TReg 1; TResume 1; TNew 2 0; TCfg 2 0 90 90 7; TReg 2; TResume 2;
                TNew 3 0; TCfg 3 0 500 600 1; TReg 3; TResume 3] init_state in
   let '(st', ev, fin) := timers_run st 0 125 in
   fin = true /\ map (fun '(t, p, _, _) => (t, p)) ev = [(2, 12); (1, 6)] /\
   t_target (tm st' 1) = 130 /\ t_target (tm st' 2) = 132 /\ h_slot (s_heaps st' 0) 0 = 1 /\
   s_ktimer (fst (program st' 0 125)) 0 = 130) /\
  (* a valid history of the whole system (hypotheses of 9, 10b, 10c): two timers on two clocks, a manager pass, a handler
     invocation, a kernel expiry, another pass; at the end timer 1 is armed for 140 and the kernel timer of its clock too *)
  (let l := [SOp (TNew 1 0); SOp (TCfg 1 0 100 105 10); SOp (TReg 1); SOp (TResume 1);
             SOp (TNew 2 4); SOp (TCfg 2 1 90 90 7); SOp (TReg 2); SOp (TResume 2);
             SDrain 4 (fun _ => 125); SOp (TLatch 1 126); SExpire 0; SDrain 4 (fun _ => 131)] in
   svalid2 3 3 init_state l /\
   let st := fold_left (sstep 3) l init_state in
   member st 0 1 /\ s_dirty st = false /\ s_harmed st 0 = true /\ s_ktimer st 0 = 140 /\ t_target (tm st 1) = 140) /\
  (* a valid history of the source-side system (10c', 10c'', 15): a repeating timer 1 and a dispatch_after timer 2 are
     created, activated and resumed by their invokes; a pass fires timer 1; its source is suspended and given new
     settings, so the next pass - which fires the dispatch_after timer - takes timer 1 out of its heap; dispatch_resume
     leaves a wakeup pending (first line of results: pending, timer 1 not armed, timer 2 unregistered and disarmed);
     the invokes re-arm it and it fires again at the new settings; timer 2 fired exactly once over three passes *)
  (let l1 := [XNew 1 0; XSetTimer 1 0 100 105 10; XActivate 1; XInvoke 1 50; XInvoke 1 51;
              XNew 2 64; XAfter 2 200 210; XActivate 2; XInvoke 2 60;
              XDrain 4 (fun _ => 125); XInvoke 1 126; XInvoke 1 127;
              XSuspend 1; XSetTimer 1 0 300 305 10; XDrain 4 (fun _ => 250); XInvoke 2 251; XInvoke 2 252;
              XResume 1] in
   let l2 := [XInvoke 1 260; XInvoke 1 261; XDrain 4 (fun _ => 400); XExpire 0; XDrain 4 (fun _ => 401)] in
   xvalid 3 x_init (l1 ++ l2) /\
   (let xs := fst (xrun x_init l1) in
    running xs 1 /\ x_enq xs 1 = true /\ t_armed (tm (x_st xs) 1) = false /\ spent (tm (x_st xs) 2)) /\
   (let xs := fst (xrun x_init (l1 ++ l2)) in
    t_armed (tm (x_st xs) 1) = true /\ t_target (tm (x_st xs) 1) = 410 /\
    map (fun '(t, p, _, _) => (t, p)) (snd (xrun x_init (l1 ++ l2))) = [(1, 6); (2, 2); (1, 22)] /\
    fires_of 2 (snd (xrun x_init (l1 ++ l2))) = 1%nat)) /\
  (* count bound (12b): fire at 135 (4 boundaries of 100+10k), lagging second fire, latch, fire, latch *)
  (tevs_ok (100, 105, 10, 0, 0, 0) [EFire 135 true; EFire 150 false; ELatch 171; EFire 200 true; ELatch 200] /\
   play (100, 105, 10, 0, 0, 0) [EFire 135 true; EFire 150 false; ELatch 171; EFire 200 true; ELatch 200] =
   (210, 215, 10, 0, 11, 200)).
Proof.
  split; [apply Inv_empty|]. split; [vm_compute; repeat split; reflexivity|].
  split; [vm_compute; repeat split; reflexivity|]. split.
  - cbv zeta. split.
    + cbn [svalid2 sguard2 guard guardV external].
      repeat split; try lia; try (vm_compute; congruence); try (vm_compute; reflexivity); try (intros i Hi; unfold T63; lia).
    + vm_compute. repeat split; congruence.
  - split.
    { cbv zeta. split; [vm_compute; repeat split; try congruence; try (intros; split; congruence)|].
      split; vm_compute; repeat split; congruence. }
    split; [|vm_compute; reflexivity].
    cbn [tevs_ok tev_ok tev_now play1 fst]. vm_compute. intuition congruence.
Qed.
