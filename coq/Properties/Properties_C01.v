(* C01 — every submitted work item runs exactly once and none is stranded.
   THIS FILE holds only the word-level mechanisms the property is anchored in, for all 2^64 state words, about the
   dq_state transition bodies regenerated from the source (Gen_dqstate).  The protocol theorems over all
   interleavings are in Properties_C01_slane.v (serial lane), Properties_C01_slanet.v (its conformance automaton) and
   Properties_C01_root.v (root queue, pool, monitor); what stays outside those models is decided on the
   implementation by the stress oracle of the check (per-item run counters, stuck detector). *)
From Coq Require Import ZArith Bool List.
From Verif Require Import Word Gen_consts Gen_dqstate Suspend_proofs Lane_iface.
Import ListNotations.
Local Open Scope Z_scope.

(* push publishes the item then wakes the queue with MAKE_DIRTY: that wakeup always commits and sets DIRTY *)
Theorem C01_wakeup_make_dirty_partial : forall s qos flags target enqueue,
  nz (Z.land flags 2) = true ->
  (exists new, wakeup_loop 0 qos flags target s enqueue = Commit new 0) /\
  (forall new r, wakeup_loop 0 qos flags target s enqueue = Commit new r -> Z.land new DIRTY = DIRTY).
Proof.
  intros. split; [apply wakeup_make_dirty_always_commits; assumption|].
  intros. eapply wakeup_make_dirty_sets_dirty; eauto.
Qed.
Print Assumptions C01_wakeup_make_dirty_partial.

(* a drainer may only release the drain lock if DIRTY is clear: otherwise the unlock gives up, clears DIRTY with
   an acquire xor, and the caller must look at the list again *)
Theorem C01_unlock_refuses_dirty_partial : forall s owned done,
  nz (f_dq_state_is_suspended s) = false -> nz (f_dq_state_is_dirty s) = true ->
  f_dispatch_queue_drain_try_unlock 0 owned done s = NoCommit 0 [AXor 0 DIRTY Acquire].
Proof. exact unlock_refuses_dirty. Qed.
Print Assumptions C01_unlock_refuses_dirty_partial.

Theorem C01_unlock_releases_owner_partial : forall s owned done new r,
  f_dispatch_queue_drain_try_unlock 0 owned done s = Commit new r -> Z.land new OWNER_MASK = 0 /\ r = 1.
Proof. exact unlock_commit_releases_owner. Qed.
Print Assumptions C01_unlock_releases_owner_partial.

(* exactly-once needs a single drainer: the lock cannot be taken while held, full, in a barrier or suspended *)
Theorem C01_drain_lock_exclusive_partial : forall s flags w self floor ov,
  Z.land s LOCK_FAIL <> 0 ->
  (exists r, f_dispatch_queue_drain_try_lock 0 flags w self floor s ov = NoCommit r [] /\ r = 0) \/
  (exists m, f_dispatch_queue_drain_try_lock 0 flags w self floor s ov = Commit (Z.lxor s m) 0 /\
             (m = 2147483648 \/ m = 274877906944)).
Proof. exact drain_lock_refused_when_not_free. Qed.
Print Assumptions C01_drain_lock_exclusive_partial.

Example C01_nonvacuous :
  (* an idle serial queue being pushed to: wakeup(MAKE_DIRTY, target) sets ENQUEUED and DIRTY *)
  wakeup_loop 0 0 2 1 (init_st_plain 1) 2147483648 = Commit (init_st_plain 1 + 2147483648 + 549755813888) 0 /\
  (* a drainer that owns a dirty queue cannot unlock *)
  f_dispatch_queue_drain_try_unlock 0 27021597764222976 1 (27021597764222976 + 549755813888 + 77) =
    NoCommit 0 [AXor 0 DIRTY Acquire].
Proof. split; vm_compute; reflexivity. Qed.
