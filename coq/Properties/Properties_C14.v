(* C14 — dispatch I/O delivers every byte once, in order; each operation completes once.
   Model: Model/IoOp.v (one operation's life: perform / deliver_data / result tables / dispose / get_error; the stream's
   operation lists).  Every theorem quantifies over ALL event sequences: any system call results (partial transfers, EAGAIN,
   EINTR, EOF, errors), any placement of close / stop / timer ticks / cleanup between the steps of the handler.
   Proved here: read conservation + high water, completion flush, done exactly once and last, low water (as coded),
   ECANCELED after close/stop, the current stream operation is kept until it completes.
   NOT proved (left to the end-to-end oracle of lib/props/c14.py, which checks them on every run):
     C14_write_conservation  (bytes accepted by the descriptor ++ final unwritten data = submitted data): the model
        (dd_data, write branch; alloc_buf; perform) is executable and tied, the invariant proof is not done;
     C14_stream_order at full strength (completion order = enqueue order per channel including cleanup_ops): only the
        "current operation is kept until it completes" half is proved (C14_stream_order_partial);
     C14_barrier_between, C14_cleanup_once_after_handlers: depend on groups / suspend / resume / queues (C07/C06/C02). *)
From Coq Require Import ZArith List Bool.
From Verif Require Import Word IoOp IoOp_proofs.
Import ListNotations.
Local Open Scope Z_scope.

(* reads: the data passed to the handler, concatenated in invocation order, followed by what the operation still buffers,
   is exactly what the descriptor returned to this operation; at most the requested length; no invocation above high water *)
Theorem C14_read_conservation : forall c disk conv len p iv strict evs,
  1 <= chunk_size c -> read_params_ok p -> 0 <= len ->
  let s0 := st_init (op_init false disk conv len [] p iv strict) in
  run_ok c s0 evs = true ->
  let s := run c s0 evs in
  cdata (s_calls s) ++ pending (s_op s) = s_io s /\
  (len < SIZE_MAX -> zlen (s_io s) <= len) /\
  small (p_high p) (s_calls s).
Proof. exact read_conservation_high_water. Qed.
Print Assumptions C14_read_conservation.

(* ... and the completing step delivers everything that was buffered: nothing is lost, nothing twice *)
Theorem C14_read_completion_flushes : forall c disk conv len p iv strict evs,
  1 <= chunk_size c -> read_params_ok p -> 0 <= len ->
  let s0 := st_init (op_init false disk conv len [] p iv strict) in
  run_ok c s0 evs = true ->
  let s := run c s0 evs in
  pending (s_op (complete s)) = [] /\ cdata (s_calls (complete s)) = s_io s.
Proof. exact read_completion_flushes. Qed.
Print Assumptions C14_read_completion_flushes.

Theorem C14_high_water : forall c disk conv len p iv strict evs,
  1 <= chunk_size c -> read_params_ok p -> 0 <= len ->
  let s0 := st_init (op_init false disk conv len [] p iv strict) in
  run_ok c s0 evs = true ->
  Forall (fun k => zlen (cbytes k) <= p_high p) (s_calls (run c s0 evs)).
Proof. intros. now apply read_conservation_high_water. Qed.
Print Assumptions C14_high_water.

(* the channel setters keep 0 <= low <= high, 1 <= high (hypothesis read_params_ok of the theorems above) *)
Theorem C14_params_ok : forall chunk l,
  0 <= chunk <= SIZE_MAX -> Forall (fun s => match s with SetLow v | SetHigh v => 0 <= v <= SIZE_MAX end) l ->
  read_params_ok (apply_setters (params_init chunk 1) l).
Proof. exact params_ok. Qed.
Print Assumptions C14_params_ok.

(* low water, as coded: a delivery that was not forced by flags (DOP_DELIVER / DOP_DONE / a deferred strict tick) happens
   only when op->undelivered + op->buf_len has reached the low-water mark.  (For writes this sum counts the written part
   of the current buffer again after a progress report, so reports can be more frequent than the mark suggests.) *)
Theorem C14_low_water : forall stp fl o,
  f_deliver fl = false -> f_done fl = false -> o_flagd o = false ->
  snd (deliver_data stp fl o) <> [] -> o_low o <= o_undelivered o + o_buf_len o.
Proof. exact deliver_unforced_low. Qed.
Print Assumptions C14_low_water.

(* both directions: done is set exactly once, on the last invocation, and the handler is never invoked afterwards *)
Theorem C14_done_exactly_once_last : forall c o evs,
  let s := run c (st_init o) evs in
  (s_phase s = Completed -> done_last (s_calls s)) /\
  (s_phase s <> Completed -> all_notdone (s_calls s)) /\
  (forall e, s_phase s = Completed -> s_calls (step c s e) = s_calls s).
Proof. exact done_exactly_once_last. Qed.
Print Assumptions C14_done_exactly_once_last.

Theorem C14_canceled_when_scheduled_after_close : forall closed stopped write len d,
  closed || stopped = true ->
  create_or_enqueue closed stopped 0 write len d =
    Some (mkCall true (if write then Some (flat d) else None) ECANCELED 0 true).
Proof. exact canceled_when_scheduled_after_close. Qed.
Print Assumptions C14_canceled_when_scheduled_after_close.

Theorem C14_canceled_after_stop : forall c s e,
  s_stopped s = true -> s_phase s = Idle -> (e = EvCheck \/ e = EvCleanup false) -> o_disk (s_op s) = false ->
  let s' := step c s e in
  s_phase s' = Completed /\ s_io s' = s_io s /\
  exists pre k, s_calls s' = s_calls s ++ pre ++ [k] /\ c_done k = true /\
    c_err k = (match e with EvCheck => ECANCELED | _ => if o_err (s_op s) =? 0 then ECANCELED else o_err (s_op s) end).
Proof. exact canceled_after_stop. Qed.
Print Assumptions C14_canceled_after_stop.

Theorem C14_stream_order_partial : forall q op e,
  q_cur q = Some op -> so_random op = false ->
  (match e with SEnq _ | SHandler HKeep => True | _ => False end) ->
  q_cur (sstep q e) = Some op /\ pick_next (sstep q e) = Some op /\ q_done (sstep q e) = q_done q.
Proof. exact stream_current_kept. Qed.
Print Assumptions C14_stream_order_partial.

Theorem C14_stream_completion_is_of_current : forall q op,
  q_cur q = Some op -> so_random op = false ->
  q_done (sstep q (SHandler HComplete)) = q_done q ++ [op] /\ q_cur (sstep q (SHandler HComplete)) = None.
Proof. exact stream_completion_is_of_current. Qed.
Print Assumptions C14_stream_completion_is_of_current.

(* non-vacuity: a 200-byte read, low 10, high 64, fed 5 / EAGAIN / 30 / EAGAIN / 64 / 36 / 64 / 1 bytes (the first corpus
   scenario of the harness): hypotheses hold and the model delivers 35, 64, 36, 64 and the final byte with done *)
Example C14_nonvacuous :
  let c := Build_cfg 4096 false in
  let p := apply_setters (params_init 4096 1) [SetLow 10; SetHigh 64] in
  let s0 := st_init (op_init false false false 200 [] p false false) in
  let evs := [EvCheck; EvPerform [Got (zeros 5)]; EvAct; EvCheck; EvPerform [Fail 11]; EvAct;
              EvCheck; EvPerform [Got (zeros 30)]; EvAct; EvCheck; EvPerform [Fail 4; Fail 11]; EvAct;
              EvCheck; EvPerform [Got (zeros 64)]; EvAct; EvCheck; EvPerform [Got (zeros 36)]; EvAct;
              EvCheck; EvPerform [Got (zeros 64)]; EvAct; EvCheck; EvPerform [Got (zeros 1)]; EvAct] in
  read_params_ok p /\ run_ok c s0 evs = true /\
  map call_obs (s_calls (run c s0 evs)) = [(false, 35, 0); (false, 64, 0); (false, 36, 0); (false, 64, 0); (true, 1, 0)] /\
  s_phase (run c s0 evs) = Completed.
Proof. vm_compute. repeat split; auto; discriminate. Qed.
