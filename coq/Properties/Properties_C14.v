(* C14 — dispatch I/O delivers every byte once, in order; each operation completes once.
   Model: Model/IoOp.v = three hand-written models after src/io.c:
     (A) one operation's life (perform / deliver_data / result tables / dispose / get_error), tied EVENT BY EVENT to the
         library: the system call results recorded by the guarded note are replayed and every handler invocation
         (done, size, error) must be reproduced (lib/props/c14.py, explain_op);
     (B) the stream's operation lists (pick_next / complete_op / cleanup_ops) and
     (C) the channel's barrier_queue / barrier_group bookkeeping (bstep):
         (B) and (C) are NOT replayed; their consequences are checked by the end-to-end oracle on every run.
   Every theorem quantifies over ALL event sequences of its model: any system call results (partial transfers, EAGAIN,
   EINTR, EOF, errors), any placement of close / stop / timer ticks / cleanup between the steps of the handler.

   REAL invariant proofs: C14_read_conservation, C14_read_completion_flushes, C14_high_water, C14_params_ok,
     C14_write_conservation, C14_done_exactly_once_last, C14_stream_order, C14_stream_io_one_at_a_time,
     C14_barrier_between, C14_barrier_runs_between, C14_barrier_not_stranded, C14_no_stuck_read, C14_no_stuck_write,
     C14_read_completes_when_ready, C14_write_completes_when_ready.
   DEFINITIONAL (one unfolding of the model, kept because the correspondence ties that very definition to the code):
     C14_low_water (the `undelivered >= low` test of dd_decide read back; "as coded", not a clause of the property),
     C14_canceled_when_scheduled_after_close (create_or_enqueue on a flag PARAMETER: that the flag set by a
       dispatch_io_close issued earlier IS visible when the operation reaches the barrier queue is the FIFO of the channel
       queue and of the barrier queue (C02), not modelled; the oracle checks it, and found the zero-length case fixed in /repo),
     C14_canceled_after_stop (phase Idle, stream path, EvCheck / EvCleanup false only),
     C14_handler_step_enabled (case analysis on step).

   What "done exactly once" means here: C14_done_exactly_once_last is AT MOST once and last, with no hypothesis; that
   done IS delivered needs progress: C14_no_stuck_* (the handler always has a next step and its next system call asks for
   >= 1 byte, so a ready descriptor yields progress and a 0 return can only mean EOF) and C14_*_completes_when_ready (a
   bounded operation whose descriptor is ready at every attempt completes within `length` handler rounds).  An operation on
   a descriptor that never becomes ready completes only through stop / an error / EOF; that the stream's source re-runs
   the handler when the descriptor becomes ready is C15/C16 (sources), used, not proved here.

   Handler never re-entered: NO theorem.  It holds by construction plus C02: all invocations of one operation's handler
   are blocks submitted by dispatch_async to op->op_q, a serial queue the library creates itself (io.c:1090); the model
   records them as the list s_calls in submission order; that blocks of a serial queue neither overlap nor reorder is
   C02_slane_callouts_exclusive_partial / C02_slane_fifo_partial (Properties_C02_slane.v).  The oracle checks an
   in-handler flag on every invocation.

   Stream order, precisely: C14_stream_order is about operations that were put on the stream's list (TAILQ_INSERT_TAIL
   order, reached from the submission order through three FIFO hops: channel queue, barrier queue, stream queue: C02),
   on the STREAM path (pipes, sockets); it covers operations that end ECANCELED (cleanup_ops / HPickErr complete them in
   list order).  "Complete" = _dispatch_stream_complete_operation = the done invocation is SUBMITTED to the operation's own
   queue; with a serial client queue the done handlers then run in that order (the oracle uses one).  Operations that never
   reach the list -- zero length or closed/stopped channel at creation (io.c:1063), rejected at _dispatch_operation_enqueue
   or _dispatch_operation_should_enqueue -- complete at once and DO overtake earlier in-flight operations; the code gives
   no order for them and neither do the theorem or the oracle (the oracle orders every operation that performed a system
   call or completed without error, cancelled ones included).  Regular files (fd_entry->stream_ops, disk->operations,
   advise list) are not modelled: oracle only.

   Barrier, precisely: LDone = dispatch_group_leave in _dispatch_operation_dispose: all I/O of the operation is over and its
   final handler invocation has been SUBMITTED, not run; the code does not order the barrier block after the earlier
   operations' handler invocations (different queues) and neither theorem nor oracle claims it.  C14_barrier_runs_between
   is about the barrier block having RUN (LBar in the log).  The queue semantics are the transition rules of bstep, not
   hypotheses: the barrier queue is a FIFO list run one block at a time (C02_slane_fifo_partial,
   C02_slane_callouts_exclusive_partial, C02_slane_earlier_started_have_finished_partial), BRun is enabled only at suspend
   count 0 (C06_slane_no_start_while_suspended; the barrier block suspends its own queue from inside an item:
   C06_slane_suspend_from_item_licenses_nothing), dispatch_group_notify at count zero submits at once and the group counts
   outstanding enters (C07).  BLeave is an environment event: that outstanding operations do complete is (A)'s progress
   theorems plus the cleanup routing; two routing defects found here (FD_ERR cleanup and the stop cleanup were queued on the
   barrier queue that a pending barrier keeps suspended: deadlock) are fixed in /repo and are corpus scenarios.

   Disk path (regular files): _dispatch_operation_perform runs on the operation's target queue while the interval timer
   handler runs on the pick queue.  The model makes perform ONE step; a non-strict tick (deliver_data(op, DOP_DEFAULT) even
   when op->active, io.c:1239-1243) and the initial delivery may really run concurrently with perform on op->buf /
   op->buf_len.  This data race is ASSUMED to linearise before or after perform's update (it is benign for DOP_DEFAULT: the
   state before the update is a fixed point of the delivery); "every interleaving of timer ticks" in the theorems means
   interleaving at step granularity of the model.

   Excluded by hypothesis: write() returning 0 for a non-zero length (wres_ok; io.c treats it as EOF and would report
   success), read/write returning more than requested, posix_memalign failure.
   NOT proved: C14_cleanup_once_after_handlers (fd_entry reference counting and the close_queue resume chain); the
   convenience APIs dispatch_read / dispatch_write, RANDOM offsets: oracle only / not covered. *)
From Coq Require Import ZArith List Bool.
From Verif Require Import Word IoOp IoOp_proofs.
Import ListNotations.
Local Open Scope Z_scope.

(* reads: the data passed to the handler, concatenated in invocation order, followed by what the operation still buffers,
   is exactly what the descriptor returned to this operation; at most the requested length; no invocation above high water *)
Theorem C14_read_conservation : forall c disk conv len p iv strict evs,
  1 <= chunk_size c -> read_params_ok p -> 0 <= len ->
  let s0 := st_init (op_init false disk conv len [] p iv strict) in
  run_ok c s0 evs = true ->
  let s := run c s0 evs in
  cdata (s_calls s) ++ pending (s_op s) = s_io s /\
  (len < SIZE_MAX -> zlen (s_io s) <= len) /\
  small (p_high p) (s_calls s).
Proof. exact read_conservation_high_water. Qed.
Print Assumptions C14_read_conservation.

(* ... and the completing step delivers everything that was buffered: nothing is lost, nothing twice *)
Theorem C14_read_completion_flushes : forall c disk conv len p iv strict evs,
  1 <= chunk_size c -> read_params_ok p -> 0 <= len ->
  let s0 := st_init (op_init false disk conv len [] p iv strict) in
  run_ok c s0 evs = true ->
  let s := run c s0 evs in
  pending (s_op (complete s)) = [] /\ cdata (s_calls (complete s)) = s_io s.
Proof. exact read_completion_flushes. Qed.
Print Assumptions C14_read_completion_flushes.

Theorem C14_high_water : forall c disk conv len p iv strict evs,
  1 <= chunk_size c -> read_params_ok p -> 0 <= len ->
  let s0 := st_init (op_init false disk conv len [] p iv strict) in
  run_ok c s0 evs = true ->
  Forall (fun k => zlen (cbytes k) <= p_high p) (s_calls (run c s0 evs)).
Proof. exact high_water. Qed.
Print Assumptions C14_high_water.

(* the channel setters keep 0 <= low <= high, 1 <= high (hypothesis read_params_ok of the theorems above) *)
Theorem C14_params_ok : forall chunk l,
  0 <= chunk <= SIZE_MAX -> Forall (fun s => match s with SetLow v | SetHigh v => 0 <= v <= SIZE_MAX end) l ->
  read_params_ok (apply_setters (params_init chunk 1) l).
Proof. exact params_ok. Qed.
Print Assumptions C14_params_ok.

(* low water, as coded: a delivery that was not forced by flags (DOP_DELIVER / DOP_DONE / a deferred strict tick) happens
   only when op->undelivered + op->buf_len has reached the low-water mark.  (For writes this sum counts the written part
   of the current buffer again after a progress report, so reports can be more frequent than the mark suggests.) *)
Theorem C14_low_water : forall stp fl o,
  f_deliver fl = false -> f_done fl = false -> o_flagd o = false ->
  snd (deliver_data stp fl o) <> [] -> o_low o <= o_undelivered o + o_buf_len o.
Proof. exact deliver_unforced_low. Qed.
Print Assumptions C14_low_water.

(* both directions: done is set exactly once, on the last invocation, and the handler is never invoked afterwards *)
Theorem C14_done_exactly_once_last : forall c o evs,
  let s := run c (st_init o) evs in
  (s_phase s = Completed -> done_last (s_calls s)) /\
  (s_phase s <> Completed -> all_notdone (s_calls s)) /\
  (forall e, s_phase s = Completed -> s_calls (step c s e) = s_calls s).
Proof. exact done_exactly_once_last. Qed.
Print Assumptions C14_done_exactly_once_last.

Theorem C14_canceled_when_scheduled_after_close : forall closed stopped write len d,
  closed || stopped = true ->
  create_or_enqueue closed stopped 0 write len d =
    Some (mkCall true (if write then Some (flat d) else None) ECANCELED 0 true).
Proof. exact canceled_when_scheduled_after_close. Qed.
Print Assumptions C14_canceled_when_scheduled_after_close.

Theorem C14_canceled_after_stop : forall c s e,
  s_stopped s = true -> s_phase s = Idle -> (e = EvCheck \/ e = EvCleanup false) -> o_disk (s_op s) = false ->
  let s' := step c s e in
  s_phase s' = Completed /\ s_io s' = s_io s /\
  exists pre k, s_calls s' = s_calls s ++ pre ++ [k] /\ c_done k = true /\
    c_err k = (match e with EvCheck => ECANCELED | _ => if o_err (s_op s) =? 0 then ECANCELED else o_err (s_op s) end).
Proof. exact canceled_after_stop. Qed.
Print Assumptions C14_canceled_after_stop.

(* writes: the bytes the descriptor accepted are, in order, a prefix of the submitted data; every invocation that carries
   data reports exactly the remainder after the bytes accepted at that moment (never more progress than was made); the
   completed operation's last invocation has done, accepted ++ its data = submitted; error 0 <-> data NULL and all accepted *)
Theorem C14_write_conservation : forall c disk conv d p iv strict evs,
  0 <= p_high p ->
  let sub := flat d in
  let s0 := st_init (op_init true disk conv (zlen sub) d p iv strict) in
  wrun_ok c s0 evs ->
  let s := run c s0 evs in
  s_io s = firstn (Z.to_nat (zlen (s_io s))) sub /\
  Forall (fun k => 0 <= c_total k <= zlen (s_io s) /\
                   forall l, c_data k = Some l -> firstn (Z.to_nat (c_total k)) sub ++ l = sub) (s_calls s) /\
  (s_phase s = Completed ->
     exists pre k, s_calls s = pre ++ [k] /\ c_done k = true /\ s_io s ++ cbytes k = sub /\
       (c_err k = 0 -> c_data k = None /\ s_io s = sub) /\
       (c_err k <> 0 -> c_data k = Some (skipn (Z.to_nat (zlen (s_io s))) sub))).
Proof. exact write_conservation. Qed.
Print Assumptions C14_write_conservation.

(* stream operations of one channel (and direction: one stream per direction) complete in the order they were enqueued:
   completed ones followed by those still on the STREAM list = the enqueued ones, per channel, for every sequence of
   enqueues, handler passes with any result, and cleanups for any channel or for the whole descriptor *)
Theorem C14_stream_order : forall evs c,
  srun_ok stream_init evs ->
  let q := srun stream_init evs in
  fch c (nonrandom (q_done q)) ++ fch c (q_s q) = fch c (nonrandom (q_enq q)).
Proof. exact stream_order. Qed.
Print Assumptions C14_stream_order.

(* ... and the data of operation k comes entirely before the data of operation k+1: I/O is performed only on the head of
   the STREAM list, operations behind the head have performed none, completed ones are never picked again *)
Theorem C14_stream_io_one_at_a_time : forall evs,
  srun_ok stream_init evs ->
  let q := srun stream_init evs in
  (forall op, pick_next q = Some op -> so_random op = false -> exists t, q_s q = op :: t) /\
  Forall (fun op => ~ In (so_id op) (q_io q)) (tl (q_s q)) /\
  (forall op d, pick_next q = Some op -> In d (nonrandom (q_done q)) -> so_id op <> so_id d).
Proof. exact stream_io_one_at_a_time. Qed.
Print Assumptions C14_stream_io_one_at_a_time.

(* dispatch_io_barrier: whenever a barrier block has been submitted (and so when it runs), every operation submitted
   before it has been enqueued and disposed, nothing submitted after it has been enqueued; for the group as coded
   (a = false) and for the ideal group (a = true) *)
Theorem C14_barrier_between : forall a evs id,
  brun_ok a b_init evs ->
  let s := brun a b_init evs in
  In id (b_fired s) ->
  exists pre, b_sub s = pre ++ [IBar id] ++ b_q s /\
    (forall op, In (IEnq op) pre -> In (LDone op) (b_log s)) /\
    (forall op, In (IEnq op) (b_q s) -> ~ In (LEnq op) (b_log s)) /\
    b_out s = [].
Proof. exact barrier_between. Qed.
Print Assumptions C14_barrier_between.

(* the same on what HAS happened: a barrier block that has run (LBar in the log) ran after the dispose of every operation
   submitted before it and before the enqueue of every operation submitted after it *)
Theorem C14_barrier_runs_between : forall a evs l1 l2 id,
  brun_ok a b_init evs ->
  let s := brun a b_init evs in
  b_log s = l1 ++ LBar id :: l2 ->
  exists pre post, b_sub s = pre ++ IBar id :: post /\
    (forall op, In (IEnq op) pre -> In (LDone op) l1) /\
    (forall op, In (IEnq op) post -> ~ In (LEnq op) l1).
Proof. exact barrier_runs_between. Qed.
Print Assumptions C14_barrier_runs_between.

Theorem C14_barrier_not_stranded : forall a evs,
  brun_ok a b_init evs ->
  let s := brun a b_init evs in
  b_notifs s <> [] -> b_out s <> [] \/ b_wake s = 1%nat.
Proof. exact barrier_not_stranded. Qed.
Print Assumptions C14_barrier_not_stranded.

(* no stuck state *)
Theorem C14_handler_step_enabled : forall c s,
  match s_phase s with
  | Idle => s_phase (step c s EvCheck) = Picked \/ s_phase (step c s EvCheck) = Completed
  | Picked => forall rs, exists r, s_phase (step c s (EvPerform rs)) = Performed r
  | Performed _ => s_phase (step c s EvAct) = Idle \/ s_phase (step c s EvAct) = Completed
  | Completed => True
  end.
Proof. exact handler_step_enabled. Qed.
Print Assumptions C14_handler_step_enabled.

Theorem C14_no_stuck_read : forall c disk conv len p iv strict evs,
  1 <= chunk_size c -> read_params_ok p -> 1 <= len ->
  let s0 := st_init (op_init false disk conv len [] p iv strict) in
  run_ok c s0 evs = true ->
  let s := run c s0 evs in
  (s_phase s = Idle \/ s_phase s = Picked) -> 1 <= req_len c (s_op s).
Proof. exact no_stuck_read. Qed.
Print Assumptions C14_no_stuck_read.

Theorem C14_no_stuck_write : forall c disk conv d p iv strict evs,
  1 <= chunk_size c -> 1 <= p_high p -> 1 <= zlen (flat d) < SIZE_MAX ->
  let s0 := st_init (op_init true disk conv (zlen (flat d)) d p iv strict) in
  wrun_ok c s0 evs ->
  let s := run c s0 evs in
  (s_phase s = Idle \/ s_phase s = Picked) -> 1 <= req_len c (s_op s).
Proof. exact no_stuck_write. Qed.
Print Assumptions C14_no_stuck_write.

(* progress: with a descriptor that is ready at every attempt a bounded operation completes (done is delivered) within
   `length` rounds of the handler (round = pick, perform, act) *)
Theorem C14_read_completes_when_ready : forall c disk conv len p iv strict rounds,
  1 <= chunk_size c -> read_params_ok p -> 1 <= len < SIZE_MAX ->
  let s0 := st_init (op_init false disk conv len [] p iv strict) in
  ready_rounds c s0 rounds -> len <= Z.of_nat (length rounds) ->
  let s := run c s0 (concat (map round rounds)) in
  s_phase s = Completed /\ done_last (s_calls s).
Proof. exact read_completes_when_ready. Qed.
Print Assumptions C14_read_completes_when_ready.

Theorem C14_write_completes_when_ready : forall c disk conv d p iv strict rounds,
  1 <= chunk_size c -> 1 <= p_high p -> 1 <= zlen (flat d) < SIZE_MAX ->
  let s0 := st_init (op_init true disk conv (zlen (flat d)) d p iv strict) in
  ready_rounds c s0 rounds -> zlen (flat d) <= Z.of_nat (length rounds) ->
  let s := run c s0 (concat (map round rounds)) in
  s_phase s = Completed /\ done_last (s_calls s).
Proof. exact write_completes_when_ready. Qed.
Print Assumptions C14_write_completes_when_ready.

(* non-vacuity: a 200-byte read, low 10, high 64, fed 5 / EAGAIN / 30 / EAGAIN / 64 / 36 / 64 / 1 bytes (the first corpus
   scenario of the harness): hypotheses hold and the model delivers 35, 64, 36, 64 and the final byte with done *)
Example C14_nonvacuous :
  let c := Build_cfg 4096 false in
  let p := apply_setters (params_init 4096 1) [SetLow 10; SetHigh 64] in
  let s0 := st_init (op_init false false false 200 [] p false false) in
  let evs := [EvCheck; EvPerform [Got (zeros 5)]; EvAct; EvCheck; EvPerform [Fail 11]; EvAct;
              EvCheck; EvPerform [Got (zeros 30)]; EvAct; EvCheck; EvPerform [Fail 4; Fail 11]; EvAct;
              EvCheck; EvPerform [Got (zeros 64)]; EvAct; EvCheck; EvPerform [Got (zeros 36)]; EvAct;
              EvCheck; EvPerform [Got (zeros 64)]; EvAct; EvCheck; EvPerform [Got (zeros 1)]; EvAct] in
  read_params_ok p /\ run_ok c s0 evs = true /\
  map call_obs (s_calls (run c s0 evs)) = [(false, 35, 0); (false, 64, 0); (false, 36, 0); (false, 64, 0); (true, 1, 0)] /\
  s_phase (run c s0 evs) = Completed.
Proof. vm_compute. repeat split; auto; discriminate. Qed.

(* a 10-byte write in two regions; the descriptor takes 4, then EAGAIN, then the channel is stopped: done with ECANCELED and
   the 6 unwritten bytes; stream: two operations of channel 1 and one of channel 2, stop of channel 1 while the first is
   current; barrier 7 between operations 1 and 2 *)
Example C14_nonvacuous_write_stream_barrier :
  let c := Build_cfg 4096 false in
  let d := [[1;2;3]; [4;5;6;7;8;9;10]] in
  let s0 := st_init (op_init true false false 10 d (params_init 4096 1) false false) in
  let evs := [EvCheck; EvPerform [Got (zeros 4)]; EvAct; EvCheck; EvPerform [Fail 11]; EvAct; EvStop; EvCleanup false] in
  wrun_ok c s0 evs /\
  s_io (run c s0 evs) = [1;2;3;4] /\
  map (fun k => (c_done k, c_data k, c_err k)) (s_calls (run c s0 evs)) = [(true, Some [5;6;7;8;9;10], ECANCELED)] /\
  let o1 := {| so_id := 1; so_chan := 1; so_random := false |} in
  let o2 := {| so_id := 2; so_chan := 2; so_random := false |} in
  let o3 := {| so_id := 3; so_chan := 1; so_random := false |} in
  let sevs := [SEnq o1; SEnq o2; SEnq o3; SHandler HKeep; SCleanup (Some 1); SHandler HComplete] in
  srun_ok stream_init sevs /\ q_done (srun stream_init sevs) = [o1; o3; o2] /\ q_io (srun stream_init sevs) = [1; 2] /\
  let bevs := [BSubmit (IEnq 1); BSubmit (IBar 7); BSubmit (IEnq 2); BRun; BRun; BRun; BLeave 1; BWake; BRun] in
  brun_ok false b_init bevs /\ b_fired (brun false b_init bevs) = [7] /\ b_log (brun false b_init bevs) = [LEnq 1; LDone 1] /\
  b_log (brun false b_init (bevs ++ [BBlock 7; BRun])) = [LEnq 1; LDone 1; LBar 7; LEnq 2].
Proof. vm_compute. repeat split; auto; intuition discriminate. Qed.

(* progress hypotheses are satisfiable: three ready rounds complete a 3-byte read and a 3-byte write *)
Example C14_nonvacuous_progress :
  let c := Build_cfg 4096 false in
  let p := params_init 4096 1 in
  let rounds := [[Got [7]]; [Fail 4; Got [8]]; [Got [9]]] in
  let r0 := st_init (op_init false false false 3 [] p false false) in
  let w0 := st_init (op_init true false false 3 [[1; 2; 3]] p false false) in
  ready_rounds c r0 rounds /\ ready_rounds c w0 rounds /\
  map call_obs (s_calls (run c r0 (concat (map round rounds)))) = [(true, 3, 0)] /\
  map call_obs (s_calls (run c w0 (concat (map round rounds)))) = [(true, -1, 0)].
Proof. vm_compute. repeat split; auto; intro X; discriminate X. Qed.
