(* C01 — every submitted work item runs exactly once and none is stranded.
   Protocol theorems for ONE serial lane (width 1, role BASE_ANON or plain, targeting a root queue) under
   dispatch_async from any number of threads, drained by any number of root-queue workers, for EVERY interleaving of
   the atomic steps of enqueue (tail exchange, link), wakeup (the dq_state rmw loop, root push), drain (try_lock,
   head/pop with the wait for a lagging enqueuer, callout, try_unlock, the DIRTY retry).  The model is
   Model/SLane.v; each dq_state transition in it IS the body regenerated from the source (Gen_dqstate).
   Control is flat (a call begins at Idle).  An asynchronous submission made from inside a callout is covered up to
   renaming of thread ids: no step of the push / wakeup path writes the calling thread's id into shared state (the id
   enters dq_state only in drain_try_lock), so it is the same steps taken by a fresh thread id while the caller stays
   at PW_incall, and every theorem below quantifies over all such interleavings.
   `_partial`: the full property also quantifies over dispatch_sync / barrier / async_and_wait / group_async, over
   concurrent and chained queues, and over thread-pool growth; those are covered by the files named in
   DESIGN.md §7 (SyncWait, CLane, RootQ) or by the stress oracle only.  Termination is proved in the form: every
   action other than a new submission consumes a potential that a submission raises by a constant (no livelock),
   no state is stuck, and a state where nothing is enabled has run everything; that the OS schedules enabled threads
   and that the pool supplies a worker when the lane sits in the root queue are outside the model (RootQ). *)
From Coq Require Import ZArith Bool List.
From Verif Require Import Word Conc SLane SLane_proofs SLane_progress SLane_measure.
Import ListNotations.
Local Open Scope Z_scope.

(* at most once, only submitted items, in tail-exchange order: rev (started s) is a prefix of 0,1,2,...,nextid-1 *)
Theorem C01_slane_at_most_once_in_order_partial : forall rb s,
  0 <= rb < 2 -> reach rb s ->
  exists rest, zrange (nextid s) = rev (started s) ++ rest /\ NoDup (started s) /\
               (forall i, In i (started s) -> 0 <= i < nextid s).
Proof. exact started_in_order. Qed.
Print Assumptions C01_slane_at_most_once_in_order_partial.

(* none stranded, part 1: with no thread inside a call, a non-empty lane sits in its target queue *)
Theorem C01_slane_not_stranded_partial : forall rb s,
  0 <= rb < 2 -> reach rb s -> quiescent s -> lst s <> [] -> rootq s = 1 /\ token s = Some None.
Proof. exact not_stranded. Qed.
Print Assumptions C01_slane_not_stranded_partial.

(* ... part 2: and if it sits nowhere, every submitted item has run exactly once, in order *)
Theorem C01_slane_quiescent_all_done_partial : forall rb s,
  0 <= rb < 2 -> reach rb s -> quiescent s -> rootq s = 0 ->
  lst s = [] /\ rev (started s) = zrange (nextid s) /\ running s = None.
Proof. exact quiescent_all_done. Qed.
Print Assumptions C01_slane_quiescent_all_done_partial.

(* ... part 3: no reachable state is stuck: a thread inside a call can step, or waits for an enqueuer that can *)
Theorem C01_slane_no_stuck_thread_partial : forall rb s t,
  0 <= rb < 2 -> reach rb s -> valid_tid t -> pcs s t <> Idle -> enabled s t \/ exists u, u <> t /\ enabled s u.
Proof. exact no_stuck_thread. Qed.
Print Assumptions C01_slane_no_stuck_thread_partial.

(* the asynchronous form returns without waiting for any work item: its program points are always enabled *)
Theorem C01_slane_async_never_blocks_partial : forall rb s t,
  0 <= rb < 2 -> reach rb s -> qos_of (pcs s t) <> None \/ pcs s t = PA_rootpush -> enabled s t.
Proof. exact async_never_blocks. Qed.
Print Assumptions C01_slane_async_never_blocks_partial.

(* no livelock: along any execution, the number of actions that are not new submissions is bounded by the potential of
   the start state plus 32 per submission (the DIRTY retry loop, the try_lock restart and every wait are paid for) *)
Theorem C01_slane_no_livelock_partial : forall L rb s acts s',
  NoDup L -> 0 <= rb < 2 -> reach rb s -> forallb act_valid acts = true -> (forall a, In a acts -> In (act_tid a) L) ->
  run s acts = Some s' -> n_other acts <= Phi L s + 32 * n_async acts.
Proof. exact no_livelock. Qed.
Print Assumptions C01_slane_no_livelock_partial.

(* the end of every maximal execution: when no thread can step and the lane sits in no queue, every submitted item has
   run exactly once, in order (and if it does sit in the root queue, an idle worker can pick it up) *)
Theorem C01_slane_nothing_enabled_all_done_partial : forall rb s,
  0 <= rb < 2 -> reach rb s -> (forall t, valid_tid t -> gstep s t = None) -> rootq s = 0 ->
  lst s = [] /\ rev (started s) = zrange (nextid s) /\ running s = None.
Proof. exact nothing_enabled_all_done. Qed.
Print Assumptions C01_slane_nothing_enabled_all_done_partial.

(* the invariant behind all of it (enqueued-token uniqueness, lock shape, the DIRTY hand-shake) *)
Theorem C01_slane_invariant_partial : forall rb s, 0 <= rb < 2 -> reach rb s -> Inv s.
Proof. exact Inv_reachable. Qed.
Print Assumptions C01_slane_invariant_partial.

(* non-vacuity: a run with two submitters racing a drainer's unlock is reachable, ends quiescent, ran 0 then 1 *)
Theorem C01_slane_nonvacuous :
  exists s, demo_final = Some s /\ reach 1 s /\ quiescent s /\ rootq s = 0 /\ started s = [1; 0] /\ nextid s = 2.
Proof. exact demo_reach. Qed.
Print Assumptions C01_slane_nonvacuous.

(* ... and a run through the override continuation of a push onto a non-empty list (wakeup without MAKE_DIRTY sets
   ENQUEUED and pushes the lane; the list-emptying pusher's later wakeup only adds DIRTY) *)
Theorem C01_slane_nonvacuous_override :
  exists s, run (init_state 1) demo2_acts = Some s /\ reach 1 s /\ quiescent s /\ rootq s = 0 /\
            started s = [1; 0] /\ nextid s = 2 /\ lst s = [].
Proof. exact demo2_reach. Qed.
Print Assumptions C01_slane_nonvacuous_override.
