(* C01 / C02 — the checked tie between the serial-lane protocol model (Model/SLane.v, theorems in
   Properties_C01_slane.v / Properties_C02_slane.v) and the running library.
   Model/SLaneT.v is the per-thread OBSERVATION automaton `tstep`: the sequences of atomic operations on a lane's
   words (dq_state, dq_items_tail, dq_items_head, do_targetq, the do_next of items, the push on the target root queue)
   one thread may perform in dispatch_async_f and in a drain, including everything SLane treats as "no shared effect"
   (initial loads and failed compare-exchanges of the rmw loops, _dispatch_wait_for_enqueuer spins, the seq_cst probe,
   the get_head / first_iteration loads).  lib/props/c01_slane.py replays every recorded thread trace of real stress
   runs through it inside Coq.  This file states what ties the automaton to the two other sides:
     - to the SOURCE: its kinds and memory orders, in program order, are the atomic sites src2v reads from the
       functions involved (regenerated on every run);
     - to the MODEL: every step of SLane.gstep is matched by observations the automaton accepts, between matching
       program points, and those observations read SLane's dq_state and leave SLane's new dq_state (each
       compare-exchange writes the value of the same generated body).
   SCOPE: Model/SLane.v is a FLAT-CLIENT model: `begin` needs an Idle thread (SLane.v:93-103), so there is no call from
   inside a callout; a work item that submits to its own serial queue (drainer = pusher) is outside SLane, SLaneT and
   SLaneR and outside every "any interleaving" below.  The stress harness does exercise that client (about one round in
   five); those rounds are judged on the library by the API oracle and the value chains only, never by the automaton or
   the global replay.
   Direction: SLane's behaviours are included in the automaton's.  The need_override wakeup of a push onto a non-empty
   list (queue.c:5077-5088), which the automaton showed the library takes and the first version of SLane lacked, is now
   SLane.ostep + PA_oprobe / PA_owake; every recorded round replays as a run of SLane.begin / gstep / ostep. *)
From Coq Require Import ZArith Bool List.
From Verif Require Import Word Conc Gen_consts Gen_fields Gen_dqstate Gen_lanesites SLane SLane_proofs SLane_progress
  SLaneT SLaneT_proofs SLaneR SLaneR_proofs.
Import ListNotations.
Local Open Scope Z_scope.

(* the automaton's sites are the source's sites: per function, kinds + fields + memory orders in program order.
   Whole list where the function is small; for the composite functions the segment that is the inlined callee
   (lastn / firstn / skipn), which also pins the ORDER of the calls: push = update_tail, retain, update_prev;
   lane_wakeup = probe then queue_wakeup; queue_wakeup = rmw loop, dependency fence, do_targetq;
   serial_drain = get_head, first_iteration load, pop_head; lane_invoke = try_lock ... try_unlock *)
Theorem C01_slanet_sites_match :
  f_dispatch_queue_push_item_sites = [S_push_init; S_push_xchg; S_push_link_next; S_push_link_head] /\
  lastn 6 f_dispatch_lane_push_sites = [S_push_init; S_push_xchg; S_ref; S_ref; S_push_link_next; S_push_link_head] /\
  f_dispatch_queue_class_probe_sites = [S_probe] /\
  wakeup_loop_sites = [S_wake_load; S_wake_cas] /\
  lastn 4 f_dispatch_queue_wakeup_sites = [S_wake_load; S_wake_cas; S_wake_fence; S_wake_tq] /\
  lastn (1 + length f_dispatch_queue_wakeup_sites) f_dispatch_lane_wakeup_sites = S_probe :: f_dispatch_queue_wakeup_sites /\
  firstn 4 f_dispatch_root_queue_push_inline_sites = [S_push_init; S_push_xchg; S_push_link_next; S_push_link_head] /\
  Gen_lanesites.f_dispatch_queue_drain_try_lock_sites = [S_lock_load; S_lock_cas] /\
  Gen_dqstate.f_dispatch_queue_drain_try_lock_sites = [S_lock_load; S_lock_cas] /\
  map (rename_field F___n F_dq_items_head) f_dispatch_queue_get_head_sites = [S_get_head] /\
  f_dispatch_wait_for_enqueuer_sites = [S_wait] /\
  f_dispatch_queue_pop_head_sites = [S_pop_next; S_pop_head; S_pop_cas; S_pop_next; S_pop_head] /\
  map (rename_field F___n F_dq_items_head) (firstn 3 f_dispatch_lane_serial_drain_sites) = [S_get_head; S_get_head; S_drain_state] /\
  firstn 5 (skipn 6 f_dispatch_lane_serial_drain_sites) = [S_pop_next; S_pop_head; S_pop_cas; S_pop_next; S_pop_head] /\
  Gen_lanesites.f_dispatch_queue_drain_try_unlock_sites = [S_unlock_load; S_unlock_xor; S_unlock_cas] /\
  Gen_dqstate.f_dispatch_queue_drain_try_unlock_sites = [S_unlock_load; S_unlock_xor; S_unlock_cas] /\
  firstn 2 f_dispatch_lane_invoke_sites = [S_lock_load; S_lock_cas] /\
  firstn 3 (skipn 5 f_dispatch_lane_invoke_sites) = [S_unlock_load; S_unlock_xor; S_unlock_cas].
Proof. exact sites_match. Qed.
Print Assumptions C01_slanet_sites_match.

(* simulation, one step: in a state satisfying SLane's invariant, a step of thread t of the global model is matched by
   a sequence of observations the automaton accepts from any point related to t's program point, ending in a point
   related to t's new program point; the dq_state operations among them read st s and leave st s' *)
Theorem C01_slanet_gstep_tstep : forall c s t s' p,
  Inv s -> c_self c = t -> gstep s t = Some s' -> trel c (pcs s t) p ->
  exists evs p', taccept c p evs = Some p' /\ trel c (pcs s' t) p' /\ state_obs c (st s) evs = Some (st s').
Proof. exact gstep_tstep. Qed.
Print Assumptions C01_slanet_gstep_tstep.

(* ... the other continuation of a push onto a non-empty list (SLane.ostep): the link store, then on to the probe *)
Theorem C01_slanet_ostep_tstep : forall c s t s' p,
  ostep s t = Some s' -> trel c (pcs s t) p ->
  exists evs p', taccept c p evs = Some p' /\ trel c (pcs s' t) p' /\ state_obs c (st s) evs = Some (st s').
Proof. exact ostep_tstep. Qed.
Print Assumptions C01_slanet_ostep_tstep.

(* ... and the entry of a call: a submission is the harness mark DVU_CALL; a worker that popped the lane has observed
   nothing of the lane yet *)
Theorem C01_slanet_begin_tstep : forall c s t cl s',
  begin s t cl = Some s' -> (forall f, cl = CWorker f -> f = c_floor c) ->
  exists evs p', taccept c TIdle evs = Some p' /\ trel c (pcs s' t) p' /\ state_obs c (st s) evs = Some (st s').
Proof. exact begin_tstep. Qed.
Print Assumptions C01_slanet_begin_tstep.

(* simulation, whole runs: whatever state the global model reaches (any number of threads, any interleaving; workers
   entering try_lock with the configured QoS floor), the program point of a thread is matched by a point the automaton
   reaches from TIdle on an accepted observation sequence: SLane's per-thread behaviours are the automaton's *)
Theorem C01_slanet_reach_tstep : forall c rb s,
  0 <= rb < 2 -> reach_fl (c_floor c) rb s ->
  exists evs p, taccept c TIdle evs = Some p /\ trel c (pcs s (c_self c)) p.
Proof. exact reach_tstep. Qed.
Print Assumptions C01_slanet_reach_tstep.

(* non-vacuity 1: the hypotheses of the one-step simulation hold on a reachable state (the demo run of
   Properties_C01_slane.v, worker 7 about to pop item 0) *)
Theorem C01_slanet_nonvacuous :
  exists s s', run (init_state 1) (firstn 11 demo_acts) = Some s /\ reach 1 s /\ Inv s /\ gstep s 7 = Some s' /\
               trel demo_c (pcs s 7) (TW_first OWN 1) /\ pcs s' 7 = PW_run OWN 0 false.
Proof. exact demo_sim. Qed.
Print Assumptions C01_slanet_nonvacuous.

(* non-vacuity 2: two thread traces recorded from the library are accepted and end idle; the same submitter trace
   with the release of its tail exchanges weakened to relaxed is rejected at the first exchange *)
Theorem C01_slanet_recorded_traces :
  firstn 2 (conform ex_cfg_submitter ex_trace_submitter) = [-1; 1] /\
  firstn 2 (conform ex_cfg_worker ex_trace_worker) = [-1; 1] /\
  firstn 2 (conform ex_cfg_submitter (map weaken_xchg ex_trace_submitter)) = [2; 0].
Proof. exact demo_traces. Qed.
Print Assumptions C01_slanet_recorded_traces.

(* the global replay (Model/SLaneR.v, used by lib/props/c01_slane.py on every recorded flat round).  What is PROVED is only
   this: the scheduler takes steps of SLane (begin / gstep / ostep), so whatever action lists, preferred order and window
   it is given, the state it ends in is reachable in SLane (valid thread ids) — a statement that holds for ANY action list.
   That a recorded round is reproduced (every action consumed, each enabled in the model with the recorded outcome:
   was_empty, probe results, lock restarts, every dq_state value written, pop results, item identities; final model state =
   recorded final state) is established by RUNNING the executable scheduler on that round, i.e. it is a test, repeated on
   every run of the check, not a theorem *)
Theorem C01_slanet_replay_reach : forall rb fuel w ids s qs ord done,
  qs_ok qs = true -> reach rb s -> reach rb (fst (fst (sched fuel w ids s qs ord done))).
Proof. exact sched_reach. Qed.
Print Assumptions C01_slanet_replay_reach.

(* non-vacuity 3: a recorded round that contains the need_override continuation (SLane.ostep) is consumed entirely *)
Theorem C01_slanet_recorded_round :
  qs_ok ex_qs = true /\ replay ex_rb 48 ex_qs ex_ord = ex_result /\
  nth 1 ex_result 1 = 0 /\ nth 0 ex_result 0 = Z.of_nat (length ex_ord) /\
  existsb (fun q => existsb (fun a => m_kind (s_act a) =? 6) (snd q)) ex_qs = true.
Proof. exact demo_replay. Qed.
Print Assumptions C01_slanet_recorded_round.
